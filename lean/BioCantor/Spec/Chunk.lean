/-
  C07 — "a chunk-relative view is the chromosome view restricted to the chunk", as decidable predicates on
  (interval description, chunk window, answer of the chunk-built twin) pairs.  Written without looking at how the
  library computes anything: everything is stated through

    * `clip` / `unchunkBlk` (Spec/Lift.lean): the part of a block inside the window, and the map from chunk
      coordinates back to chromosome coordinates (window `w`, chunk strand `wst`);
    * `cdsCodons` (Spec/ReadingFrame.lean): THE codons of a CDS, as triples of chromosome positions.

  Twin semantics, for an interval with chromosome blocks `B` (strand `st`) and a chunk `(w, wst)`:
    chromosome-level answers     = those of the description itself (`start`, `end`, blocks, codons of the whole CDS);
    chunk-relative location      lifted back = the non-empty clips of `B` by `w`, empty when there is none;
    chunk-relative codons        lifted back = the codons of the whole CDS with all three positions inside `w`;
    sequences                    = the chromosome letters at exactly those positions (5'→3', complemented on −).
-/
import BioCantor.Spec.Lift
import BioCantor.Spec.ReadingFrame
namespace BioCantor.Spec.Chunk
open BioCantor BioCantor.Spec

/-! ### interval descriptions (the literals of an op line; coordinates are chromosome coordinates) -/

structure FeatD where
  st : Strand
  blocks : List Blk
  deriving Repr, DecidableEq

/-- CDS exons with their frame VALUES (0/1/2), in the order handed to the constructor -/
structure CdsD where
  st : Strand
  exons : List (Blk × Nat)
  deriving Repr, DecidableEq

structure TxD where
  st : Strand
  exons : List Blk
  cds : List (Blk × Nat)          -- `[]` = non-coding
  deriving Repr, DecidableEq

structure GeneD where
  txs : List TxD
  deriving Repr, DecidableEq

structure FicD where
  feats : List FeatD
  deriving Repr, DecidableEq

structure AcD where
  genes : List GeneD
  fics : List FicD
  bounds : Option Blk
  deriving Repr, DecidableEq

inductive Desc where
  | feat (f : FeatD) | tx (t : TxD) | cds (c : CdsD) | gene (g : GeneD) | fic (q : FicD) | ac (a : AcD)
  deriving Repr, DecidableEq

def TxD.cdsD (t : TxD) : CdsD := ⟨t.st, t.cds⟩

/-- a chunk: window `[w.1, w.2)` of the chromosome, seen on strand `wst` -/
structure Win where
  w : Blk
  wst : Strand
  deriving Repr, DecidableEq

/-- the chunk holds at least one base and has a direction -/
def Win.ok (c : Win) : Bool := decide (c.w.1 < c.w.2) && c.wst.isDirectional

/-! ### one node of the answer (pre-order listing of the object tree) -/

inductive NodeAns where
  | node (tag : Char) (start «end» : Nat) (chrom chunk : Location)
  | dropped                                  -- a transcript requested coding holds no CDS object
  deriving Repr, DecidableEq

/-- what the property expects of one node -/
structure NodeExp where
  tag : Char
  start : Nat
  «end» : Nat
  /-- expected `chromosome_location` -/
  chrom : Location
  /-- the interval as a location in chromosome coordinates (one block: a single interval) -/
  init : Location
  deriving Repr

def minNat : List Nat → Nat
  | [] => 0
  | x :: xs => xs.foldl min x
def maxNat : List Nat → Nat
  | [] => 0
  | x :: xs => xs.foldl max x

def firstStart (bs : List Blk) : Nat := match bs.head? with | some b => b.1 | none => 0
def lastEnd (bs : List Blk) : Nat := match bs.getLast? with | some b => b.2 | none => 0

/-- blocks + strand as a location: `SingleInterval` for one block, `CompoundInterval` (sorted) otherwise -/
def initLoc (bs : List Blk) (st : Strand) : Location :=
  match bs with
  | [b] => .single b st
  | _ => .compound ⟨sortBlocks st bs, st⟩

def blocksNode (tag : Char) (bs : List Blk) (st : Strand) : NodeExp :=
  ⟨tag, firstStart bs, lastEnd bs, .compound ⟨sortBlocks st bs, st⟩, initLoc bs st⟩

def spanNode (tag : Char) (s e : Nat) : NodeExp := ⟨tag, s, e, .single (s, e) .plus, .single (s, e) .plus⟩

def txNodes (t : TxD) : List NodeExp :=
  blocksNode 'T' t.exons t.st :: (if t.cds.isEmpty then [] else [blocksNode 'D' (t.cds.map (·.1)) t.st])

def geneSpan (g : GeneD) : Blk :=
  (minNat (g.txs.map fun t => firstStart t.exons), maxNat (g.txs.map fun t => lastEnd t.exons))
def ficSpan (q : FicD) : Blk :=
  (minNat (q.feats.map fun f => firstStart f.blocks), maxNat (q.feats.map fun f => lastEnd f.blocks))

def geneNodes (g : GeneD) : List NodeExp :=
  spanNode 'G' (geneSpan g).1 (geneSpan g).2 :: g.txs.flatMap txNodes
def ficNodes (q : FicD) : List NodeExp :=
  spanNode 'Q' (ficSpan q).1 (ficSpan q).2 :: q.feats.map (fun f => blocksNode 'F' f.blocks f.st)

/-- An AnnotationCollection without explicit bounds takes them from the parent it is built on (documented:
    "the bounds of this collection will be inferred from that object"): on a chunk that is the chunk window —
    the whole chromosome `[0, L)` restricted to the chunk. -/
def acSpan (a : AcD) (c : Win) : Blk := match a.bounds with | some b => b | none => c.w

def expectNodes (d : Desc) (c : Win) : List NodeExp :=
  match d with
  | .feat f => [blocksNode 'F' f.blocks f.st]
  | .tx t => txNodes t
  | .cds x => [blocksNode 'D' (x.exons.map (·.1)) x.st]
  | .gene g => geneNodes g
  | .fic q => ficNodes q
  | .ac a => spanNode 'A' (acSpan a c).1 (acSpan a c).2 :: (a.genes.flatMap geneNodes ++ a.fics.flatMap ficNodes)

/-! ### scope: descriptions the constructors accept and about which C07 speaks -/

/-- blocks as the generators of the repository's own tests write them: at least one, each `start < end`, given in
    ascending order without overlap (0-bp gaps allowed) -/
def blocksOk (bs : List Blk) : Bool :=
  !bs.isEmpty && bs.all (fun b => decide (b.1 < b.2)) && nonOverlap bs

def cdsOk (x : CdsD) : Bool :=
  x.st.isDirectional && blocksOk (x.exons.map (·.1)) && x.exons.all (fun e => decide (e.2 < 3))

/-- every CDS block lies inside some exon -/
def cdsInside (exons : List Blk) (cds : List (Blk × Nat)) : Bool :=
  cds.all (fun c => exons.any (fun e => decide (e.1 ≤ c.1.1) && decide (c.1.2 ≤ e.2)))

def featOk (f : FeatD) : Bool := f.st.isDirectional && blocksOk f.blocks
def txOk (t : TxD) : Bool :=
  t.st.isDirectional && blocksOk t.exons && (t.cds.isEmpty || (cdsOk t.cdsD && cdsInside t.exons t.cds))

/-- no two children with the same content (the collection constructors refuse duplicate GUIDs) -/
def distinct {α} [DecidableEq α] : List α → Bool
  | [] => true
  | x :: xs => !xs.contains x && distinct xs

def geneOk (g : GeneD) : Bool := !g.txs.isEmpty && g.txs.all txOk && distinct g.txs
def ficOk (q : FicD) : Bool := !q.feats.isEmpty && q.feats.all featOk && distinct q.feats

def Desc.inScope : Desc → Bool
  | .feat f => featOk f
  | .tx t => txOk t
  | .cds x => cdsOk x
  | .gene g => geneOk g
  | .fic q => ficOk q
  | .ac a => a.genes.all geneOk && a.fics.all ficOk &&
      (match a.bounds with | some b => decide (b.1 ≤ b.2) | none => true)

/-- everything lies on the chromosome of length `n`, and so does the chunk -/
def fitsBlocks (n : Nat) (bs : List Blk) : Bool := bs.all (fun b => decide (b.2 ≤ n))
def Desc.fits (n : Nat) (c : Win) (d : Desc) : Bool :=
  decide (c.w.2 ≤ n) && ((expectNodes d c).all fun x => fitsBlocks n (locationBlocks x.init))

/-! ### clause "location": chromosome-level answers unchanged, chunk-relative location = clips, empty when none -/

/-- the blocks of `l` that have a base inside the window, clipped -/
def clips (l : Location) (c : Win) : List Blk := (locationBlocks l).filterMap (clip c.w)

def sameBlocks (got want : Location) : Bool :=
  wfLocation got && locationStrand? got == locationStrand? want && locationBlocks got == locationBlocks want &&
  (match got, want with
   | .single _ _, .single _ _ => true
   | .compound _, .compound _ => true
   | _, _ => false)

def okNode (c : Win) (e : NodeExp) (a : NodeAns) : Bool :=
  match a with
  | .dropped => false
  | .node tag s en chrom chunk =>
    tag == e.tag && s == e.start && en == e.«end» && sameBlocks chrom e.chrom && okChunkDown e.init c.w c.wst (some chunk)

def okNodes (c : Win) : List NodeExp → List NodeAns → Bool
  | [], [] => true
  | e :: es, a :: as => okNode c e a && okNodes c es as
  | _, _ => false

def okLoc (d : Desc) (c : Win) (ans : Option (List NodeAns)) : Bool :=
  match ans with
  | none => false
  | some ns => okNodes c (expectNodes d c) ns

/-! ### clause "identity": `to_dict()` and the identifier of every node are those of the chromosome-built twin -/

/-- the answer: dictionaries equal?, then per node: identifiers equal? -/
def okIdent (d : Desc) (c : Win) (ans : Option (Bool × List Bool)) : Bool :=
  match ans with
  | none => false
  | some (deq, gs) => deq && gs.all id && gs.length == (expectNodes d c).length

/-- Label of the known deviation F-C07a: only collection nodes (gene / feature collection / annotation collection)
    differ, and each of them has a chunk-relative location that differs from its chromosome location or holds a
    collection that does. -/
def chunkMoves (e : NodeExp) (c : Win) : Bool :=
  -- expected chunk-relative location ≠ chromosome location, as printed
  match clips e.init c with
  | [b] => !(c.wst == .plus && c.w.1 == 0 && locationBlocks e.init == [b])
  | _ => true

def identClass (d : Desc) (c : Win) (ans : Option (Bool × List Bool)) : String :=
  match ans with
  | some (true, gs) =>
    let es := expectNodes d c
    if gs.length != es.length then "unclassified" else
    let bad := (es.zip gs).filter (fun p => !p.2)
    let anyCollMoves := es.any (fun e => (e.tag == 'G' || e.tag == 'Q') && chunkMoves e c)
    if bad.all (fun p => ((p.1.tag == 'G' || p.1.tag == 'Q') && chunkMoves p.1 c) ||
                         (p.1.tag == 'A' && (chunkMoves p.1 c || anyCollMoves)))
    then "collection-guid-digests-chunk-location" else "unclassified"
  | _ => "unclassified"

/-! ### clause "sequence": the letters are the corresponding stretch of the chromosome -/

/-- one cell of a per-node answer: letters, a documented refusal, or an internal error -/
inductive Cell where
  | letters (s : List Char) | refused | internal
  deriving Repr, DecidableEq

/-- positions of the in-chunk part of a node, 5'→3' on the node's strand -/
def clipBases (e : NodeExp) (c : Win) : List Nat :=
  match locationStrand? e.init with
  | some st => bases ⟨clips e.init c, st⟩
  | none => []

def nodeStrand (e : NodeExp) : Strand := (locationStrand? e.init).getD .plus

def okSeqCell (chrom : List Char) (c : Win) (e : NodeExp) (a : Cell) : Bool :=
  let want := clipBases e c
  match a with
  | .internal => false
  | .refused => want.isEmpty                 -- nothing in the chunk: no sequence to give
  | .letters s => lettersAt chrom (nodeStrand e) want == some s

def okSeqCells (chrom : List Char) (c : Win) : List NodeExp → List Cell → Bool
  | [], [] => true
  | e :: es, a :: as => okSeqCell chrom c e a && okSeqCells chrom c es as
  | _, _ => false

/-- CDS nodes have no cell in the `seq` answer (their sequence is the coding sequence, clause "codons") -/
def seqNodes (d : Desc) (c : Win) : List NodeExp := (expectNodes d c).filter (fun e => e.tag != 'D')

def okSeq (chrom : List Char) (d : Desc) (c : Win) (ans : Option (List Cell)) : Bool :=
  match ans with
  | none => false
  | some cells => okSeqCells chrom c (seqNodes d c) cells

/-! ### clause "codons" -/

def CdsD.toIn (x : CdsD) (chrom : Option (List Char)) : CDSIn :=
  ⟨⟨x.exons.map (·.1), x.st⟩, x.exons.map (·.2), chrom⟩

/-- the CDS an op about codons speaks of -/
def Desc.coding : Desc → Option CdsD
  | .cds x => some x
  | .tx t => if t.cds.isEmpty then none else some t.cdsD
  | _ => none

/-- chromosome-level codons of the chunk-built twin: THE codons of the CDS, and their number -/
def okChromCodons (x : CdsD) (ans : Option (Nat × List Location)) : Bool :=
  match ans with
  | none => false
  | some (n, locs) => okCodons (x.toIn none) none (some locs) && n == (x.toIn none).codons.length

/-- the whole-chromosome codons lying fully inside the chunk -/
def innerCodons (x : CdsD) (c : Win) : List (List Nat) :=
  (x.toIn none).codons.filter (fun cod => cod.all (inWin c.w.1 c.w.2))

/-- a chunk-relative position lifted back to the chromosome -/
def unchunkPos (c : Win) (i : Nat) : Nat := if c.wst = .minus then c.w.2 - 1 - i else c.w.1 + i

/-- the strand a location of chromosome strand `st` has on the chunk -/
def chunkStrand (c : Win) (st : Strand) : Strand := compose st c.wst

/-- a returned chunk-relative codon location, read 5'→3' on the chunk and lifted back position by position,
    denotes exactly the three chromosome positions `want` (5'→3' on the CDS strand) -/
def chunkCodonOk (c : Win) (st : Strand) (want : List Nat) (got : Location) : Bool :=
  wfLocation got && (locationStrand? got == some (chunkStrand c st)) &&
  ((locationBases got).map (unchunkPos c) == want)

def chunkCodonsMatch (c : Win) (st : Strand) : List (List Nat) → List Location → Bool
  | [], [] => true
  | w :: ws, g :: gs => chunkCodonOk c st w g && chunkCodonsMatch c st ws gs
  | _, _ => false

/-- chunk-relative codons, lifted back, are exactly the inner codons (order kept, each on the CDS strand) -/
def okChunkCodons (x : CdsD) (c : Win) (ans : Option (List Location)) : Bool :=
  match ans with
  | none => false
  | some locs => chunkCodonsMatch c x.st (innerCodons x c) locs

def cdsBasesIn (x : CdsD) (c : Win) : List Nat := (bases ⟨x.exons.map (·.1), x.st⟩).filter (inWin c.w.1 c.w.2)
def keptIn (x : CdsD) (c : Win) : List Nat := ((x.toIn none).kept).filter (inWin c.w.1 c.w.2)

/-- 5'-most position of the CDS -/
def fivePrime (x : CdsD) : Option Nat := (bases ⟨x.exons.map (·.1), x.st⟩).head?
def fivePrimeFrame (x : CdsD) : Option Nat :=
  match x.st with
  | .minus => x.exons.getLast?.map (·.2)
  | _ => x.exons.head?.map (·.2)

/-- labels of the known deviations of the pinned library on chunk-relative codon answers (no influence on a verdict) -/
def chunkCodonsClass (x : CdsD) (c : Win) (answered : Bool) : String :=
  let ci := x.toIn none
  let walk := exonWalk ci.loc ci.frames
  if !answered then
    if !shallowTrim walk then "deep-trim"
    else if ci.kept.isEmpty && x.exons.length ≥ 2 then "no-retained-base"
    else if x.exons.length ≥ 2 && !(cdsBasesIn x c).isEmpty && (keptIn x c).isEmpty then "chunk-without-retained-base"
    else "unclassified"
  else
    if (cdsBasesIn x c).isEmpty then "no-base-in-chunk-answers-for-chromosome"
    else if x.exons.length == 1 && fivePrimeFrame x != some 0 &&
            ((fivePrime x).map (inWin c.w.1 c.w.2)) == some false then "single-exon-5p-cut"
    else "unclassified"

/-- chromosome-level codon answers: the C05 classes -/
def chromCodonsClass (x : CdsD) (answered : Bool) : String :=
  codonsClass (x.toIn none) none (if answered then some [] else none)

/-- coding sequence of the chunk-built twin = the letters of the inner codons; a CDS without any base in the chunk
    has no sequence to give (refusing is accepted there) -/
def innerLetters (chrom : List Char) (x : CdsD) (c : Win) : Option (List (List Char)) :=
  (innerCodons x c).mapM (lettersAt chrom x.st)

def okChunkCdsSeq (chrom : List Char) (x : CdsD) (c : Win) (ans : Option (List Char)) : Bool :=
  match ans with
  | none => (cdsBasesIn x c).isEmpty
  | some s => (innerLetters chrom x c).map List.flatten == some s

/-- protein of the chunk-built twin = standard-code translation of the inner codons (default table, strict) -/
def okChunkProtein (chrom : List Char) (x : CdsD) (c : Win) (ans : Option (List Char)) : Bool :=
  match innerLetters chrom x c with
  | none => ans.isNone
  | some cods =>
    if ans.isNone && (cdsBasesIn x c).isEmpty then true
    else okTranslateCodons (cods.map fun cod => cod.map upper) false 0 true ans

/-! ### clause "codon window on a chunk": `scan_chunk_relative_codon_locations(lo, hi)` -/

/-- the whole-chromosome codons lying fully inside the chunk AND inside the codon window `[lo, hi)` -/
def innerWindowCodons (x : CdsD) (c : Win) (lo hi : Nat) : List (List Nat) :=
  (innerCodons x c).filter (fun cod => cod.all (inWin lo hi))

def okChunkWindowCodons (x : CdsD) (c : Win) (lo hi : Nat) (ans : Option (List Location)) : Bool :=
  match ans with
  | none => false
  | some locs => chunkCodonsMatch c x.st (innerWindowCodons x c lo hi) locs

/-- labels of the known deviations on windowed chunk-relative answers (no influence on a verdict) -/
def chunkWindowClass (x : CdsD) (c : Win) (lo hi : Nat) (answered : Bool) : String :=
  let ci := x.toIn none
  let walk := exonWalk ci.loc ci.frames
  let inBoth (p : Nat) : Bool := inWin c.w.1 c.w.2 p && inWin lo hi p
  if !answered then
    if !shallowTrim walk then "deep-trim"
    else if ci.kept.isEmpty && x.exons.length ≥ 2 then "no-retained-base"
    else if !(ci.kept.any inBoth) then "window-and-chunk-without-retained-base"
    else "unclassified"
  else
    if (cdsBasesIn x c).isEmpty then "no-base-in-chunk-answers-for-chromosome"
    else if x.exons.length == 1 && fivePrimeFrame x != some 0 &&
            ((fivePrime x).map inBoth) == some false then "single-exon-5p-cut"
    else "unclassified"      -- (F-C07d, a window cutting the 5' end on a chunk, is repaired: d8ca372 — no class any more)

/-! ### clause "chunk-relative frames" (only for a CDS in ONE uninterrupted reading frame: the documentation of
    `chunk_relative_frames` says programmed frameshifts are lost) -/

def oneFrame (x : CdsD) : Bool :=
  let ci := x.toIn none
  match fivePrimeFrame x with
  | some f => okFrames ci.loc f (some ci.frames)
  | none => false

/-- the frames (plus orientation OF THE CHUNK) paired with the in-chunk blocks describe the reading frame of the
    CDS inside the chunk: walking the clips with them yields exactly the inner codons -/
def okChunkFrames (x : CdsD) (c : Win) (ans : Option (List Nat)) : Bool :=
  let cl := clips (initLoc (x.exons.map (·.1)) x.st) c
  match ans with
  | none => false
  | some fr =>
    if cl.isEmpty then true     -- nothing in the chunk: no block to pair a frame with
    else
      let fr' := if c.wst == .minus then fr.reverse else fr
      fr'.length == cl.length && fr'.all (fun f => decide (f < 3)) &&
      cdsCodons ⟨cl, x.st⟩ fr' == innerCodons x c

def chunkFramesClass (x : CdsD) (c : Win) : String :=
  let cl := clips (initLoc (x.exons.map (·.1)) x.st) c
  let order := if x.st == .minus then cl.reverse else cl
  -- the 5'-most in-chunk block is shorter than the offset to the next codon boundary (same root as F-C05h):
  -- with `i` CDS positions 5' of the chunk and start frame `f0`, that offset is `f0 - i` while the skipped bases
  -- are not used up, `(f0 - i) mod 3` afterwards
  match order with
  | b :: _ :: _ =>
    let raw := bases (x.toIn none).loc
    let i := (raw.takeWhile (fun p => !(inWin c.w.1 c.w.2 p))).length
    let f0 := (fivePrimeFrame x).getD 0
    let o := if i < f0 then f0 - i else (3 - (i - f0) % 3) % 3
    if b.2 - b.1 < o then "first-exon-shorter-than-offset" else "unclassified"
  | _ => "unclassified"

/-! ### clause "query order": the answers do not depend on which view was asked for first

  The chunk-relative view is a RESTRICTION of the chromosome view, not a state of the object: every observable,
  recorded on two fresh chunk-built objects — chromosome-level views first / chunk-relative views first — is the
  same text.  (Each single observable is judged by its own clause above; a trailing `@k` / `@c` on an op line only
  says which views were evaluated before it.) -/

/-- the two recordings (token lists, one cell per observable, in one fixed order) coincide -/
def okOrder (ck kc : List String) : Bool := !ck.isEmpty && ck == kc

/-- name of the first observable whose recording differs (cells start with a `;name` token) -/
def firstDifference : List String → List String → String → String
  | a :: as, b :: bs, cur =>
    let cur' := if a.startsWith ";" then a else cur
    if a == b then firstDifference as bs cur' else cur'
  | [], [], _ => "none"
  | _, _, cur => cur

/-! ### clause "alternative constructors"

  An interval reached through `from_chunk_relative_location`, `from_dict(…, parent_or_seq_chunk_parent=chunk)`,
  `liftover_to_parent_or_seq_chunk_parent(chunk)` or `incorporate_variants(<length-preserving SNV>)` IS the interval
  the ordinary constructor builds on that chunk from the same chromosome coordinates: every clause above applies to
  it unchanged (the op lines carry `via:<ctor>`), and compared with the ordinarily constructed object, node by
  node, nothing differs (`okAltCtor`). -/

inductive Via where
  | fcrl | dict | lift | relift | snv (p : Nat)
  deriving Repr, DecidableEq

/-- no two consecutive blocks touch or overlap -/
def strictGaps : List Blk → Bool
  | a :: b :: rest => decide (a.2 < b.1) && strictGaps (b :: rest)
  | _ => true

def insideWin (c : Win) (bs : List Blk) : Bool := bs.all (fun b => decide (c.w.1 ≤ b.1) && decide (b.2 ≤ c.w.2))

/-- the block lists of a leaf interval (exons; CDS blocks) -/
def Desc.blockLists : Desc → Option (List (List Blk))
  | .feat f => some [f.blocks]
  | .cds x => some [x.exons.map (·.1)]
  | .tx t => some (t.exons :: (if t.cds.isEmpty then [] else [t.cds.map (·.1)]))
  | _ => none

/-- the inputs about which the clause speaks:
    * chunk-relative constructors (`fcrl`, `snv`): a feature / transcript / CDS lying inside the chunk, no two blocks
      touching (a chunk-relative location is a set of positions; touching blocks denote the same set as their union);
      `snv`: the variant lies in the chunk, and a CDS is in one uninterrupted reading frame (its frames are re-derived);
    * dictionary-based ones: an AnnotationCollection with explicit bounds (inferred bounds belong to the parent). -/
def Via.applies (v : Via) (d : Desc) (c : Win) : Bool :=
  match v with
  | .fcrl | .snv _ =>
    (match d.blockLists with
     | none => false
     | some ls => ls.all (fun bs => insideWin c bs && strictGaps bs)) &&
    (match v with
     | .snv p => decide (c.w.1 ≤ p) && decide (p < c.w.2) &&
                 (match d.coding with | some x => oneFrame x | none => true)
     | _ => true)
  | _ => match d with | .ac ⟨_, _, none⟩ => false | _ => true

/-- one node of a `same` answer: class tag, then equal? flags (`none` = not compared) for: chromosome location with
    `start`/`end`, chunk-relative location, `to_dict()` coordinates, identifier, spliced / reference sequence -/
structure SameAns where
  rows : List (Char × List (Option Bool))
  /-- of the CDS of a CDS / coding transcript: frames, coding sequence, translation -/
  tail : List (Option Bool)
  deriving Repr

/-- result ≡ ordinary construction on the same chunk: the same nodes, and no compared observable differs -/
def okAltCtor (d : Desc) (c : Win) (ans : Option SameAns) : Bool :=
  match ans with
  | none => false
  | some a =>
    a.rows.map (·.1) == (expectNodes d c).map (·.tag) &&
    a.rows.all (fun r => r.2.all (· != some false)) && a.tail.all (· != some false)

/-- label only: the chromosome-level half of a `loc` answer is right, the deviation is in the chunk-relative view -/
def chromosomeHalfOk (d : Desc) (c : Win) (ans : Option (List NodeAns)) : Bool :=
  match ans with
  | none => false
  | some ns =>
    let es := expectNodes d c
    ns.length == es.length &&
    (es.zip ns).all (fun p => match p.2 with
      | .dropped => false
      | .node tag s en chrom _ => tag == p.1.tag && s == p.1.start && en == p.1.«end» && sameBlocks chrom p.1.chrom)

end BioCantor.Spec.Chunk
