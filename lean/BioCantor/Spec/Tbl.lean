/-
  C17 — reference reader for NCBI feature tables (.tbl) and the clauses of the property as decidable predicates.

  Written from the format description only (NCBI "5-column feature table": a `>Feature SeqId [table name]` line —
  the NCBI reader accepts any keyword that starts with `>Feature`, the library writes `>Features` —; a feature
  starts with `start<TAB>end<TAB>key`, further intervals are `start<TAB>end` lines, qualifiers are
  `<TAB><TAB><TAB>key<TAB>value` lines; coordinates are 1-based inclusive, listed 5'→3', `start > end` on the minus
  strand; `<` before the first start = 5'-partial, `>` before the last end = 3'-partial) and from the text of the
  property.  Nothing here looks at how the library produces a line; nothing refers to Gen/ or Model/.

  Reading-frame vocabulary (positions 5'→3', letters, codons, start tables, stop codons) is the reference of
  C05 (`Spec/ReadingFrame.lean`); decimal fields and splitting are those of `Spec/Bed.lean`.
-/
import BioCantor.Spec.ReadingFrame
import BioCantor.Spec.Bed
namespace BioCantor.Spec.Tbl
open BioCantor BioCantor.Spec
open BioCantor.Spec.Bed (splitOn parseNat)

abbrev Str := List Char

/-! ### the reader -/

/-- one interval line: `[<]start  [>]end` -/
structure Row where
  startPartial : Bool
  start : Nat
  endPartial : Bool
  stop : Nat
  deriving DecidableEq, Repr

structure Feat where
  key : Str
  rows : List Row
  quals : List (Str × Str)
  deriving DecidableEq, Repr

structure Section where
  seqId : Str
  feats : List Feat
  deriving DecidableEq, Repr

/-- a coordinate cell: an optional partial mark, then an unsigned decimal number -/
def parseCoord (mark : Char) : Str → Option (Bool × Nat)
  | [] => none
  | c :: rest =>
    if c = mark then (parseNat rest).map (fun n => (true, n))
    else (parseNat (c :: rest)).map (fun n => (false, n))

inductive Line where
  | header (seqId : Str)
  | first (r : Row) (key : Str)
  | cont (r : Row)
  | qual (k v : Str)
  | blank
  | bad
  deriving DecidableEq, Repr

/-- `>Feature SeqId [table name]`; the keyword may be `>Features` -/
def parseHeader (l : Str) : Option Str :=
  match splitOn ' ' l with
  | kw :: seq :: _ =>
    if (kw = ">Feature".toList ∨ kw = ">Features".toList) ∧ seq ≠ [] then some seq else none
  | _ => none

def classifyCols : List Str → Line
  | [a, b, k, d, e] =>
    if a = [] ∧ b = [] ∧ k = [] then (if d ≠ [] then .qual d e else .bad)
    else if d = [] ∧ e = [] then
      match parseCoord '<' a, parseCoord '>' b with
      | some (sp, s), some (ep, t) => if k = [] then .cont ⟨sp, s, ep, t⟩ else .first ⟨sp, s, ep, t⟩ k
      | _, _ => .bad
    else .bad
  | _ => .bad

def classify (l : Str) : Line :=
  if l = [] then .blank
  else if l.head? = some '>' then (match parseHeader l with | some s => .header s | none => .bad)
  else classifyCols (splitOn '\t' l)

/-- reader state while the lines are consumed from the LAST line to the first: qualifiers and continuation rows of
    the feature being assembled, finished features of the section being assembled, finished sections -/
structure St where
  quals : List (Str × Str)
  rows : List Row
  feats : List Feat
  secs : List Section
  deriving DecidableEq, Repr

def step (l : Line) (st : St) : Option St :=
  match l with
  | .blank => some st
  | .bad => none
  | .qual k v => if st.rows = [] then some { st with quals := (k, v) :: st.quals } else none
  | .cont r => some { st with rows := r :: st.rows }
  | .first r k => some { st with quals := [], rows := [], feats := ⟨k, r :: st.rows, st.quals⟩ :: st.feats }
  | .header s =>
    if st.rows = [] ∧ st.quals = [] then some { st with feats := [], secs := ⟨s, st.feats⟩ :: st.secs } else none

def readLines : List Line → Option St
  | [] => some ⟨[], [], [], []⟩
  | l :: ls => (readLines ls).bind (step l)

def linesOf (text : Str) : List Line := (splitOn '\n' text).map classify

/-- a whole file: every feature lies under a header -/
def read (text : Str) : Option (List Section) :=
  match readLines (linesOf text) with
  | some ⟨[], [], [], secs⟩ => some secs
  | _ => none

/-- a header-less fragment: the features it holds -/
def readFeatures (text : Str) : Option (List Feat) :=
  match readLines (linesOf text) with
  | some ⟨[], [], feats, []⟩ => some feats
  | _ => none

/-! ### intervals -/

/-- the 0-based half-open block a row denotes on strand `st`: 1-based inclusive, `start ≥ end` on the minus strand -/
def rowBlock (st : Strand) (r : Row) : Option Blk :=
  if st = .minus then (if 1 ≤ r.stop ∧ r.stop ≤ r.start then some (r.stop - 1, r.start) else none)
  else (if 1 ≤ r.start ∧ r.start ≤ r.stop then some (r.start - 1, r.stop) else none)

def mapOpt {α β} (f : α → Option β) : List α → Option (List β)
  | [] => some []
  | a :: as => match f a, mapOpt f as with
    | some b, some bs => some (b :: bs)
    | _, _ => none

/-- rows are listed 5'→3'; the blocks they denote, in ascending chromosome order -/
def rowsBlocks (st : Strand) (rows : List Row) : Option (List Blk) :=
  (mapOpt (rowBlock st) rows).map (fun bs => if st = .minus then bs.reverse else bs)

/-- no `<` except before the first start, no `>` except before the last end -/
def innerMarksClean : List Row → Bool
  | [] => true
  | [_] => true
  | a :: b :: rest => !a.endPartial && !b.startPartial && innerMarksClean (b :: rest)

def firstMark (rows : List Row) : Option Bool := rows.head?.map (·.startPartial)
def lastMark (rows : List Row) : Option Bool := rows.getLast?.map (·.endPartial)

/-- maximal runs of an ascending list of positions -/
def runsAux : Blk → List Nat → List Blk
  | cur, [] => [cur]
  | cur, p :: ps => if p = cur.2 then runsAux (cur.1, p + 1) ps else cur :: runsAux (p, p + 1) ps

def runsOf : List Nat → List Blk
  | [] => []
  | p :: ps => runsAux (p, p + 1) ps

/-- "NCBI does not like adjacent blocks": the maximal runs of the positions the source blocks cover -/
def mergedBlocks (src : List Blk) : List Blk := runsOf (basesPlus src)

/-- source block lists C17 quantifies over: ascending, non-empty blocks, non-overlapping (0-bp gaps allowed) -/
def goodBlocks : List Blk → Bool
  | [] => true
  | [a] => decide (a.1 < a.2)
  | a :: b :: rest => decide (a.1 < a.2) && decide (a.2 ≤ b.1) && goodBlocks (b :: rest)

/-! ### the reading frame of a CDS (by the property's wording) -/

structure CdsIn where
  blocks : List Blk
  strand : Strand
  /-- start frame: that many bases precede the first complete codon -/
  frame : Nat
  genome : Str
  deriving Repr

/-- the CDS letters 5'→3' (complemented on the minus strand), upper case -/
def CdsIn.letters (c : CdsIn) : Option Str :=
  (lettersAt c.genome c.strand (bases ⟨c.blocks, c.strand⟩)).map (fun l => l.map upper)

/-- the complete codons after skipping `frame` bases -/
def CdsIn.codons (c : CdsIn) : Option (List Str) := c.letters.map (fun l => triples (l.drop c.frame))

/-- 5'-partial ⇔ the first codon is not a start codon of the table; a CDS without a complete codon has no first
    codon that could be one, so it is 5'-partial (`none`: unreadable letters / unknown table) -/
def CdsIn.startPartial (c : CdsIn) (table : Nat) : Option Bool :=
  match c.codons, startCodonsOf table with
  | some (cod :: _), some starts => some (!starts.contains cod)
  | some [], some _ => some true
  | _, _ => none

/-- the CDS ends in frame on a stop codon (never, when it holds no complete codon) -/
def CdsIn.endsOnStop (c : CdsIn) : Option Bool :=
  match c.letters, c.codons with
  | some l, some cods =>
    match cods.getLast? with
    | some last => some (decide (c.frame ≤ l.length) && decide ((l.length - c.frame) % 3 = 0) && isStop last)
    | none => some false
  | _, _ => none

/-- 3'-partial ⇔ it does not end in frame on a stop codon -/
def CdsIn.endPartial (c : CdsIn) : Option Bool := c.endsOnStop.map (!·)

/-- a stop codon in frame before the last codon -/
def CdsIn.inFrameStop (c : CdsIn) : Option Bool := c.codons.map (fun cods => cods.dropLast.any isStop)

/-! ### what a collection should look like in the file -/

structure TxIn where
  strand : Strand
  exons : List Blk
  /-- coding region blocks and start frame; `none` = non-coding -/
  cds : Option (List Blk × Nat)
  deriving Repr

structure GeneIn where
  /-- biotype name of the gene, when it has one -/
  gtype : Option Str
  txs : List TxIn
  deriving Repr

structure CollIn where
  seqName : Str
  genome : Str
  genes : List GeneIn
  table : Nat
  prokaryotic : Bool
  tagPrefix : Str
  step : Nat
  deriving Repr

def TxIn.cdsIn (genome : Str) (t : TxIn) : Option CdsIn := t.cds.map (fun c => ⟨c.1, t.strand, c.2, genome⟩)

def GeneIn.allCoding (g : GeneIn) : Bool := g.txs.all (fun t => t.cds.isSome)
def GeneIn.noneCoding (g : GeneIn) : Bool := g.txs.all (fun t => t.cds.isNone)

/-- the gene's span -/
def GeneIn.span (g : GeneIn) : Option Blk :=
  match minStart (g.txs.flatMap (·.exons)), maxEnd (g.txs.flatMap (·.exons)) with
  | some a, some b => some (a, b)
  | _, _ => none
where
  minStart : List Blk → Option Nat
    | [] => none
    | b :: bs => match minStart bs with | none => some b.1 | some m => some (min b.1 m)
  maxEnd : List Blk → Option Nat
    | [] => none
    | b :: bs => match maxEnd bs with | none => some b.2 | some m => some (max b.2 m)

/-- strands a gene feature may take: one carried by a largest number of its transcripts -/
def GeneIn.majorityStrands (g : GeneIn) : List Strand :=
  let ss := g.txs.map (·.strand)
  ss.filter (fun s => ss.all (fun s' => ss.count s' ≤ ss.count s))

/-- "flagged pseudo exactly when a transcript has an in-frame stop"; `none` when some CDS cannot be read -/
def GeneIn.pseudo (genome : Str) (g : GeneIn) : Option Bool :=
  (mapOpt (fun t => match t.cdsIn genome with
                    | some c => c.inFrameStop
                    | none => some false) g.txs).map (fun l => l.any id)

/-- INSDC keys of RNA features -/
def rnaKeys : List Str := ["ncRNA", "rRNA", "tRNA", "misc_RNA", "tmRNA", "precursor_RNA"].map String.toList

/-- the RNA key a non-coding gene's transcripts may be written with -/
def rnaKeyOk (gtype : Option Str) (key : Str) : Bool :=
  if gtype = some "rRNA".toList then key = "rRNA".toList
  else if gtype = some "tRNA".toList then key = "tRNA".toList
  else rnaKeys.contains key && key ≠ "rRNA".toList && key ≠ "tRNA".toList

/-- one expected feature -/
structure Want where
  /-- acceptable keys -/
  keyOk : Str → Bool
  /-- acceptable strands (more than one only for a mixed-strand gene with a tie) -/
  strands : List Strand
  /-- source blocks, ascending -/
  blocks : List Blk
  si : Bool
  ei : Bool
  pseudo : Bool
  codonStart : Option Nat
  /-- number of the locus tag `prefix_<n>` -/
  tagNo : Nat

def isKey (k : String) : Str → Bool := fun s => s = k.toList

/-- the transcript-level features of one coding transcript: (mRNA in the eukaryotic flavour,) CDS -/
def wantTx (c : CollIn) (tag : Nat) (pseudo : Bool) (t : TxIn) : Option (List Want) :=
  match t.cdsIn c.genome with
  | some cd =>
    match cd.startPartial c.table, cd.endPartial with
    | some si, some ei =>
      let cdsW : Want := ⟨isKey "CDS", [t.strand], cd.blocks, si, ei, pseudo, some (cd.frame + 1), tag⟩
      let mrnaW : Want := ⟨isKey "mRNA", [t.strand], t.exons, si, ei, pseudo, none, tag⟩
      some (if c.prokaryotic then [cdsW] else [mrnaW, cdsW])
    | _, _ => none
  | none => none

/-- the RNA feature of one transcript of a non-coding gene -/
def wantRna (gtype : Option Str) (tag : Nat) (t : TxIn) : Want :=
  ⟨rnaKeyOk gtype, [t.strand], t.exons, false, false, false, none, tag⟩

/-- the features of gene number `i` (1-based), in file order; `none` = the gene is outside what C17 claims
    (mixed coding / non-coding isoforms, unreadable letters) -/
def wantGene (c : CollIn) (tag : Nat) (g : GeneIn) : Option (List Want) :=
  match g.span, g.pseudo c.genome with
  | some span, some ps =>
    if g.txs.isEmpty then none
    else if g.allCoding then
      (mapOpt (wantTx c tag ps) g.txs).map
        (fun l => ⟨isKey "gene", g.majorityStrands, [span], false, false, ps, none, tag⟩ :: l.flatten)
    else if g.noneCoding then
      some (⟨isKey "gene", g.majorityStrands, [span], false, false, false, none, tag⟩ ::
        g.txs.map (wantRna g.gtype tag))
    else none
  | _, _ => none

/-! ### locus tags -/

def stripPrefix : Str → Str → Option Str
  | [], s => some s
  | _ :: _, [] => none
  | p :: ps, c :: cs => if p = c then stripPrefix ps cs else none

/-- the number of a tag `prefix_<n>` -/
def tagNumber (pre : Str) (tag : Str) : Option Nat :=
  match stripPrefix pre tag with
  | some ('_' :: digits) => parseNat digits
  | _ => none

def increasesBy (step : Nat) : Nat → List Nat → Bool
  | _, [] => true
  | prev, n :: ns => decide (n = prev + step) && increasesBy step n ns

def nodupB : List Str → Bool
  | [] => true
  | x :: xs => !xs.contains x && nodupB xs

/-- "locus tags are unique and increase by the requested step" -/
def okTags (pre : Str) (step : Nat) (tags : List Str) : Bool :=
  match mapOpt (tagNumber pre) tags with
  | some ns => increasesBy step 0 ns && (step = 0 || nodupB tags)
  | none => false

/-! ### clauses on one feature -/

def qualValues (f : Feat) (k : String) : List Str := (f.quals.filter (fun q => q.1 = k.toList)).map (·.2)

/-- rows = the maximal merged source blocks as 1-based inclusive intervals, 5'→3', on an acceptable strand -/
def okRowsMerged (w : Want) (f : Feat) : Bool :=
  w.strands.any (fun st => rowsBlocks st f.rows == some (mergedBlocks w.blocks))

/-- rows = exactly the source blocks (the literal wording of the property) -/
def okRowsExact (w : Want) (f : Feat) : Bool :=
  w.strands.any (fun st => rowsBlocks st f.rows == some w.blocks)

def okMarks (w : Want) (f : Feat) : Bool :=
  innerMarksClean f.rows && firstMark f.rows == some w.si && lastMark f.rows == some w.ei

/-- `pseudo` is a qualifier without value -/
def okPseudo (w : Want) (f : Feat) : Bool := (f.quals.any (fun q => q.1 = "pseudo".toList)) == w.pseudo

def okCodonStart (w : Want) (f : Feat) : Bool :=
  match w.codonStart with
  | some n => (qualValues f "codon_start").map parseNat == [some n]
  | none => true

def okLocusTag (pre : Str) (w : Want) (f : Feat) : Bool :=
  (qualValues f "locus_tag").map (tagNumber pre) == [some w.tagNo]

def okFeat (pre : Str) (w : Want) (f : Feat) : Bool :=
  w.keyOk f.key && okRowsMerged w f && okMarks w f && okPseudo w f && okCodonStart w f && okLocusTag pre w f

/-! ### the whole file -/

def zipAll {α β} (p : α → β → Bool) : List α → List β → Bool
  | [], [] => true
  | a :: as, b :: bs => p a b && zipAll p as bs
  | _, _ => false

def wantAll (c : CollIn) : Nat → List GeneIn → Option (List Want)
  | _, [] => some []
  | i, g :: gs =>
    match wantGene c (i * c.step) g, wantAll c (i + 1) gs with
    | some a, some b => some (a ++ b)
    | _, _ => none

/-- C17 on one exported collection: one section under a header naming the sequence; the features are, in order,
    the expected ones, each satisfying its clauses -/
def okFile (c : CollIn) (secs : List Section) : Bool :=
  match secs, wantAll c 1 c.genes with
  | [s], some ws => s.seqId == c.seqName && zipAll (okFeat c.tagPrefix) ws s.feats
  | _, _ => false

/-- several collections exported in ONE call: one section per collection, in order, each under a header naming its
    sequence; the gene numbering (hence the locus tags) runs on from one collection to the next -/
def okFilesFrom : Nat → List CollIn → List Section → Bool
  | _, [], [] => true
  | i, c :: cs, s :: ss =>
    (match wantAll c i c.genes with
     | some ws => s.seqId == c.seqName && zipAll (okFeat c.tagPrefix) ws s.feats
     | none => false) && okFilesFrom (i + c.genes.length) cs ss
  | _, _, _ => false

def okFiles (cs : List CollIn) (secs : List Section) : Bool := okFilesFrom 1 cs secs

end BioCantor.Spec.Tbl
