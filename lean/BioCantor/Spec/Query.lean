/-
  C09 — vocabulary and SPECIFICATION of the collection queries
  (`AnnotationCollection.query_by_position`, `query_by_guids`, `query_by_interval_guids` and its typed variants,
  `query_by_feature_identifiers`, `GeneInterval/FeatureIntervalCollection/VariantIntervalCollection.query_by_guids`).

  Written from the property text and the docstrings, not from the control flow of the code:
    * a position query keeps a child iff `(¬coding_only ∨ coding) ∧ (strict: s ≤ a ∧ b ≤ e | relaxed: a < e ∧ s < b)`
      and the child's span `[a,b)` is non-empty (a zero-length span neither lies "within" nor "overlaps" anything:
      `has_overlap` is false for empty intervals — DESIGN 4/C09 **G**);
    * no mention of bins: the answer must not depend on any indexing shortcut;
    * rejected ranges: exactly those that are not a non-empty sub-range of the collection bounds (negative start,
      start > end, start == end, start < bounds.start, end > bounds.end), and expansions that leave the range of
      an attached sequence;
    * result bounds: the query range, or with `expand_location_to_children` (relaxed mode) the hull of the range
      and the kept genes / feature collections; for id queries the hull of the source bounds and the kept members;
    * the result's sequence is the source's sequence restricted to the new bounds — to the part of them on which
      the collection HAS sequence (`locRange`: its bounds cut to the range of the parent's sequence; bounds may be
      explicit and narrower than, wider than or off the sequence) —, every kept member keeps its coordinates /
      strand / identifiers / guid, and a member's own sequence is the source's bases over member ∩ new range;
    * sources the constructors refuse (`constructible`) are outside the quantifier.

  Abstract data (the "children" of DESIGN 4/C09):
    child      = (kind, start, end, coding, guid, identifiers, grandchildren)
    grandchild = (start, end, strand, guid)           -- its bin is a function of (start, end): `bins(start, end, "bed")`
-/
import BioCantor.Base
namespace BioCantor.Spec.Query
open BioCantor

/-- `interval_type` of a child of an AnnotationCollection: GeneInterval / FeatureIntervalCollection /
    VariantIntervalCollection -/
inductive Kind where
  | gene | feat | var
  deriving DecidableEq, Repr, Inhabited

/-- a TranscriptInterval / FeatureInterval / VariantInterval seen by the queries: chromosome span, strand, guid -/
structure GChild where
  start : Int
  stop : Int
  strand : Strand
  guid : Nat
  deriving DecidableEq, Repr, Inhabited

structure Child where
  kind : Kind
  start : Int
  stop : Int
  coding : Bool
  guid : Nat
  idents : List (List Char)
  gcs : List GChild
  deriving DecidableEq, Repr, Inhabited

/-- `parent_or_seq_chunk_parent` of the source collection and of all of its members -/
inductive Par where
  | none                                   -- no parent
  | noseq                                  -- `Parent(id=…, sequence_type="chromosome")`: a parent without sequence
  | whole (seq : List Char)                -- `seq_to_parent(seq)`: the whole chromosome `[0, len)`
  | chunk (cs : Int) (seq : List Char)     -- `seq_chunk_to_parent(seq, name, cs, cs+len)`
  deriving DecidableEq, Repr, Inhabited

structure Source where
  par : Par
  bounds : Option (Int × Int)              -- explicit `start=`, `end=` of the constructor
  children : List Child                    -- genes / feature collections / variant collections as given
  deriving Repr, Inhabited

/-! ### results -/

/-- spliced sequence of a member of the result: no sequence available / EmptyLocation / the bases -/
inductive MSeq where
  | noSeq | emptyLoc | bases (s : List Char)
  deriving DecidableEq, Repr, Inhabited

structure RGChild where
  guid : Nat
  start : Int
  stop : Int
  strand : Strand
  same : Bool            -- `to_dict()` equals the source member's `to_dict()`
  mseq : MSeq
  deriving DecidableEq, Repr, Inhabited

structure RChild where
  guid : Nat
  kind : Kind
  start : Int
  stop : Int
  idents : List (List Char)
  gcs : List RGChild
  deriving DecidableEq, Repr, Inhabited

inductive RPar where
  | none | noseq
  | whole (seq : List Char)
  | chunk (cs ce : Int) (seq : List Char)
  deriving DecidableEq, Repr, Inhabited

structure Result where
  start : Int
  stop : Int
  children : List RChild
  par : RPar
  deriving DecidableEq, Repr, Inhabited

/-- observed outcome of a query: a collection, `InvalidQueryError`, or any other exception -/
inductive Ans where
  | ok (r : Result)
  | rejected
  | raised
  deriving DecidableEq, Repr, Inhabited

/-- outcome of `child.query_by_guids`: `None`, a reduced child, or an exception -/
inductive CAns where
  | none
  | some (c : RChild)
  | raised
  deriving DecidableEq, Repr, Inhabited

/-! ### sequences -/

/-- Python `s[i:j]` for `0 ≤ i` -/
def slice (l : List Char) (i j : Int) : List Char := (l.drop i.toNat).take (j - i).toNat

/-- bases of the chromosome stretch `[a,b)` read from a sequence whose first base sits at chromosome position `lo` -/
def stretch (lo : Int) (seq : List Char) (a b : Int) : List Char := slice seq (a - lo) (b - lo)

def complement : Char → Char
  | 'A' => 'T' | 'T' => 'A' | 'C' => 'G' | 'G' => 'C'
  | 'a' => 't' | 't' => 'a' | 'c' => 'g' | 'g' => 'c'
  | c => c

def orient (st : Strand) (l : List Char) : List Char :=
  match st with
  | .minus => (l.map complement).reverse
  | _ => l

/-! ### bounds -/

def minList : List Int → Option Int
  | [] => none
  | x :: xs => some (xs.foldl min x)

def maxList : List Int → Option Int
  | [] => none
  | x :: xs => some (xs.foldl max x)

/-- smallest range containing all the spans -/
def hullOf (spans : List (Int × Int)) : Option (Int × Int) :=
  match minList (spans.map (·.1)), maxList (spans.map (·.2)) with
  | some a, some b => some (a, b)
  | _, _ => none

/-- "Object Bounds" of the class docstring: explicit, else those of the parent, else those of the children -/
def specBounds (src : Source) : Option (Int × Int) :=
  match src.bounds with
  | some b => some b
  | none =>
    match src.par with
    | .whole seq => some (0, seq.length)
    | .chunk cs seq => some (cs, cs + seq.length)
    | _ => hullOf (src.children.map fun c => (c.start, c.stop))

/-- sources the constructors accept: explicit bounds form a valid interval (`SingleInterval(start, end)`), and on a
    whole chromosome they lie on the sequence (`reset_parent` checks `end ≤ len`).  Everything else is outside the
    quantifier: the collection cannot be built. -/
def constructible (src : Source) : Bool :=
  match src.bounds with
  | some (bs, be) =>
      decide (0 ≤ bs ∧ bs ≤ be) &&
      (match src.par with
       | .whole seq => decide (be ≤ seq.length)
       | _ => true)
  | none => true

def Par.hasSeq : Par → Bool
  | .whole _ | .chunk _ _ => true
  | _ => false

/-- the source's own parent as a result parent (members of the source sit on it) -/
def Par.toRPar : Par → RPar
  | .none => .none
  | .noseq => .noseq
  | .whole seq => .whole seq
  | .chunk cs seq => .chunk cs (cs + seq.length) seq

/-- chromosome position of the first base of the parent's sequence, and the sequence -/
def Par.seqAt : Par → Option (Int × List Char)
  | .whole seq => Option.some (0, seq)
  | .chunk cs seq => Option.some (cs, seq)
  | _ => Option.none

/-- The stretch of chromosome on which the COLLECTION has sequence: its bounds cut to the range of the parent's
    sequence (`none`: no sequence, or bounds and sequence chunk do not overlap).  With bounds taken from the parent
    this is the parent's whole range. -/
def locRange (src : Source) : Option (Int × Int) :=
  match specBounds src, src.par.seqAt with
  | some (bs, be), some (lo, seq) =>
      let a := max bs lo; let b := min be (lo + seq.length)
      -- a whole chromosome holds its collection entirely (the constructor refuses anything else); a chunk may be
      -- missed by the bounds
      match src.par with
      | .chunk _ _ => if a < b then some (a, b) else none
      | _ => some (a, b)
  | _, _ => none

/-- The parent the result must carry for new bounds `[start, stop)`: the source's sequence restricted to them
    (to the part of them on which the collection has sequence).  A collection asked for its own bounds keeps its
    parent ("we are not actually subsetting at all"); a zero-length result carries no sequence. -/
def expectPar (src : Source) (start stop : Int) : RPar :=
  match src.par with
  | .none => .none
  | .noseq => .noseq
  | par =>
    match locRange src, par.seqAt with
    | some (A, B), some (lo, seq) =>
        if stop ≤ start then .none
        else if specBounds src = some (start, stop) then par.toRPar
        else
          let a := max start A; let b := min stop B
          .chunk a b (stretch lo seq a b)
    | _, _ => .none

/-- a whole-chromosome parent and the chunk `[0,len)` carry the same sequence at the same coordinates; a
    sequence-less parent, no parent and an empty chunk all carry no sequence (the property speaks about sequences
    only: a zero-length result drops a sequence-less parent, `_subset_parent`'s `start == end` case — not demanded
    otherwise) -/
def RPar.norm : RPar → RPar
  | .whole seq => if seq.isEmpty then .none else .chunk 0 seq.length seq
  | .noseq => .none
  | .chunk a b seq => if seq.isEmpty then .none else .chunk a b seq
  | .none => .none

/-- the member's own (spliced) sequence on a result parent: the bases of member ∩ parent range, oriented -/
def expectMSeq (rp : RPar) (g : GChild) : MSeq :=
  match rp.norm with
  | .none | .noseq | .whole _ => .noSeq
  | .chunk a b seq =>
      let lo := max g.start a; let hi := min g.stop b
      if lo < hi then .bases (orient g.strand (stretch a seq lo hi)) else .emptyLoc

/-- "no bases": an empty base list and an EmptyLocation are the same observation -/
def MSeq.norm : MSeq → MSeq
  | .bases [] => .emptyLoc
  | m => m

/-! ### expected result for a list of kept (possibly reduced) children -/

def expectGChild (rp : RPar) (g : GChild) : RGChild := ⟨g.guid, g.start, g.stop, g.strand, true, expectMSeq rp g⟩

def expectChild (rp : RPar) (c : Child) : RChild :=
  ⟨c.guid, c.kind, c.start, c.stop, c.idents, c.gcs.map (expectGChild rp)⟩

def expectResult (src : Source) (start stop : Int) (kept : List Child) : Result :=
  let rp := expectPar src start stop
  ⟨start, stop, kept.map (expectChild rp), rp⟩

/-! ### normal forms (results are compared as SETS of members) -/

def RGChild.norm (g : RGChild) : RGChild := { g with mseq := g.mseq.norm }
def RChild.norm (c : RChild) : RChild :=
  { c with gcs := (c.gcs.map RGChild.norm).mergeSort (fun a b => decide (a.guid ≤ b.guid)) }
def Result.norm (r : Result) : Result :=
  { r with children := (r.children.map RChild.norm).mergeSort (fun a b => decide (a.guid ≤ b.guid)),
           par := r.par.norm }

/-! ### position queries -/

structure PosQ where
  s : Option Int
  e : Option Int
  codingOnly : Bool
  cw : Bool               -- completely_within
  expand : Bool           -- expand_location_to_children
  deriving Repr, Inhabited

/-- "coding" of a member: a gene with a coding transcript; feature collections carry `coding = false`; a
    collection of variants is never coding -/
def Child.isCoding (c : Child) : Bool :=
  match c.kind with
  | .var => false
  | _ => c.coding

/-- THE membership clause of the property. `[a,b)` = the child's span, `[s,e)` = the query range. -/
def keepSpec (codingOnly cw : Bool) (s e : Int) (c : Child) : Bool :=
  (!codingOnly || c.isCoding) &&
  (if cw then decide (s ≤ c.start ∧ c.stop ≤ e ∧ c.start < c.stop)
   else decide (c.start < e ∧ s < c.stop ∧ c.start < c.stop))

def specFilter (children : List Child) (codingOnly cw : Bool) (s e : Int) : List Child :=
  children.filter (keepSpec codingOnly cw s e)

/-- a range the collection answers: a non-empty sub-range of its bounds with a non-negative start -/
def validRange (bs be s e : Int) : Bool := decide (0 ≤ s ∧ s < e ∧ bs ≤ s ∧ e ≤ be)

/-- documented result bounds: the query range, or (relaxed + expand) its hull with the kept genes and feature
    collections ("so that no child gene/transcripts get sliced") -/
def resultBounds (q : PosQ) (s e : Int) (kept : List Child) : Int × Int :=
  if q.expand ∧ ¬ q.cw then
    match hullOf ((s, e) :: (kept.filter (fun c => c.kind ≠ .var)).map fun c => (c.start, c.stop)) with
    | some h => h
    | none => (s, e)
  else (s, e)

def optOr (o : Option Int) (d : Int) : Int :=
  match o with
  | some x => x
  | none => d

/-- what the property demands of an answer -/
inductive Expect where
  | reject                      -- `InvalidQueryError`
  | result (r : Result)         -- this collection (as a set of members)
  | rejectOrEmpty               -- a rejection or a collection without members
  | emptyResult                 -- a collection without members
  deriving Repr, Inhabited

def meets (x : Expect) (ans : Ans) : Bool :=
  match x with
  | .reject => ans == .rejected
  | .result r => (match ans with | .ok a => a.norm == r.norm | _ => false)
  | .rejectOrEmpty => ans == .rejected || (match ans with | .ok a => a.children.isEmpty | _ => false)
  | .emptyResult => (match ans with | .ok a => a.children.isEmpty | _ => false)

def expectQueryByPosition (src : Source) (q : PosQ) : Expect :=
  match specBounds src with
  | none =>
      -- a collection without bounds (empty, no parent) contains no range: an explicit range must be rejected;
      -- without a range either a rejection or an empty result is accepted
      match q.s, q.e with
      | none, none => .rejectOrEmpty
      | _, _ => .reject
  | some (bs, be) =>
      let s := optOr q.s bs
      let e := optOr q.e be
      if ¬ validRange bs be s e then .reject
      else
        let kept := specFilter src.children q.codingOnly q.cw s e
        let (ns, ne) := resultBounds q s e kept
        -- "the new expanded range would exceed the range of an associated sequence chunk": the expansion moved
        -- a bound, and the moved range leaves the stretch on which the collection has sequence
        if (match locRange src with
            | some (A, B) => decide ((ns < s ∨ e < ne) ∧ (ns < A ∨ B < ne))
            | none => false) = true then .reject
        else .result (expectResult src ns ne kept)

def okQueryByPosition (src : Source) (q : PosQ) (ans : Ans) : Bool := meets (expectQueryByPosition src q) ans

/-! ### identifier / GUID queries (set-builder specifications) -/

/-- result bounds of the id queries: the source bounds widened to contain every kept member -/
def idBounds (bs be : Int) (kept : List Child) : Int × Int :=
  match hullOf ((bs, be) :: kept.map fun c => (c.start, c.stop)) with
  | some h => h
  | none => (bs, be)

def expectIdResult (src : Source) (kept : List Child) : Expect :=
  match specBounds src with
  | none => .emptyResult
  | some (bs, be) =>
      let (ns, ne) := idBounds bs be kept
      .result (expectResult src ns ne kept)

def okIdResult (src : Source) (kept : List Child) (ans : Ans) : Bool := meets (expectIdResult src kept) ans

/-- `query_by_guids`: { c | c.guid ∈ ids } -/
def keptByGuids (src : Source) (ids : List Nat) : List Child :=
  src.children.filter (fun c => ids.contains c.guid)

/-- a child reduced to the requested grandchildren (`None` when none is requested); its span is the hull of what
    remains (a gene's span is the min/max of its transcripts) -/
def reduceChild (ids : List Nat) (c : Child) : Option Child :=
  let g := c.gcs.filter (fun x => ids.contains x.guid)
  match hullOf (g.map fun x => (x.start, x.stop)) with
  | none => none
  | some (a, b) => some { c with gcs := g, start := a, stop := b }

/-- `query_by_interval_guids` (kinds = all), `query_by_transcript_interval_guids` (genes),
    `query_by_feature_interval_guids` (feature collections):
    { reduce(c) | c of a requested kind with a requested grandchild } -/
def keptByIntervalGuids (src : Source) (kinds : List Kind) (ids : List Nat) : List Child :=
  src.children.filterMap (fun c => if kinds.contains c.kind then reduceChild ids c else none)

/-- `query_by_feature_identifiers`: { c | c.identifiers ∩ ids ≠ ∅ } -/
def keptByIdentifiers (src : Source) (ids : List (List Char)) : List Child :=
  src.children.filter (fun c => c.idents.any (fun i => ids.contains i))

def okQueryByGuids (src : Source) (ids : List Nat) (ans : Ans) : Bool :=
  okIdResult src (keptByGuids src ids) ans
def okQueryByIntervalGuids (src : Source) (kinds : List Kind) (ids : List Nat) (ans : Ans) : Bool :=
  okIdResult src (keptByIntervalGuids src kinds ids) ans
def okQueryByIdentifiers (src : Source) (ids : List (List Char)) (ans : Ans) : Bool :=
  okIdResult src (keptByIdentifiers src ids) ans

/-- `child.query_by_guids(ids)`: `None` iff no grandchild is requested, else the child reduced to the requested
    grandchildren, which stay on the source's parent -/
def okChildQueryByGuids (src : Source) (c : Child) (ids : List Nat) (ans : CAns) : Bool :=
  match reduceChild ids c with
  | none => ans == .none
  | some c' =>
      match ans with
      | .some r => r.norm == (expectChild src.par.toRPar c').norm
      | _ => false

/-- id lists are SETS in the property's quantifier ("all subsets of identifiers") -/
def noDup (ids : List Nat) : Bool :=
  match ids with
  | [] => true
  | x :: xs => !xs.contains x && noDup xs

end BioCantor.Spec.Query
