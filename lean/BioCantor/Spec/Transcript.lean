/-
  C06 as decidable predicates, written in terms of the reference semantics `Spec.bases` only
  (no reference to how the library composes its location calls).

  A transcript is its exon location `E` and, when coding, its CDS location `D`, both on the same
  chromosome strand.  Three coordinate systems:
    chromosome position `p`            a base of the chromosome,
    transcript position `r`            index into `bases E` (5'→3'),
    CDS position `c`                   index into `bases D` (5'→3').
  Every conversion is "look the base up in one list, find it in the other".
-/
import BioCantor.Spec.LocationCheck
import BioCantor.Spec.Lift
namespace BioCantor.Spec
open BioCantor

structure TxSpec where
  E : Loc
  D : Option Loc
  /-- length of the chromosome the transcript sits on, when known -/
  plen : Option Nat
  deriving Repr

/-- index of chromosome position `p` in the 5'→3' base list of `l`
    (an undirected location has no 5'→3' order: every question about it is refused) -/
def posIdx (l : Loc) (p : Int) : Option Int :=
  if l.strand = .unstranded then none
  else if p < 0 then none else (idxOf? p.toNat (bases l)).map Int.ofNat

/-- chromosome position of the `r`-th base of `l` -/
def posAt (l : Loc) (r : Int) : Option Int :=
  if l.strand = .unstranded then none
  else if r < 0 then none else ((bases l)[r.toNat]?).map Int.ofNat

/-! ### expected answers of the six position conversions and the amino-acid index -/

/-- chromosome → transcript -/
def expC2T (t : TxSpec) (p : Int) : Option Int := posIdx t.E p
/-- transcript → chromosome -/
def expT2C (t : TxSpec) (r : Int) : Option Int := posAt t.E r
/-- chromosome → CDS (refused on a non-coding transcript) -/
def expC2D (t : TxSpec) (p : Int) : Option Int := t.D.bind (fun d => posIdx d p)
/-- CDS → chromosome -/
def expD2C (t : TxSpec) (c : Int) : Option Int := t.D.bind (fun d => posAt d c)
/-- CDS → transcript: the transcript index of the `c`-th CDS base -/
def expD2T (t : TxSpec) (c : Int) : Option Int := t.D.bind (fun d => (posAt d c).bind (posIdx t.E))
/-- transcript → CDS: the CDS index of the `r`-th transcript base -/
def expT2D (t : TxSpec) (r : Int) : Option Int := t.D.bind (fun d => (posAt t.E r).bind (posIdx d))
/-- amino-acid index of a chromosome position: CDS position divided by three -/
def expAA (t : TxSpec) (p : Int) : Option Int := (expC2D t p).map (· / 3)

def okC2T (t : TxSpec) (p : Int) (a : Option Int) : Bool := a == expC2T t p
def okT2C (t : TxSpec) (r : Int) (a : Option Int) : Bool := a == expT2C t r
def okC2D (t : TxSpec) (p : Int) (a : Option Int) : Bool := a == expC2D t p
def okD2C (t : TxSpec) (c : Int) (a : Option Int) : Bool := a == expD2C t c
def okD2T (t : TxSpec) (c : Int) (a : Option Int) : Bool := a == expD2T t c
def okT2D (t : TxSpec) (r : Int) (a : Option Int) : Bool := a == expT2D t r
def okAA (t : TxSpec) (p : Int) (a : Option Int) : Bool := a == expAA t p

/-! ### path consistency, stated directly on answers (no `bases`)

  These are the clauses of the property about *pairs* of calls; the harness evaluates them on the
  real library's composed calls, `Props/C06.lean` proves them for the model. -/

/-- chromosome→transcript→CDS must equal chromosome→CDS (same value, or both refused) -/
def okPath (direct viaTranscript : Option Int) : Bool := direct == viaTranscript

/-- a round trip out of a coordinate system and back: identity on the positions of the source
    system (`inside`), refusal everywhere else -/
def okRoundTrip (inside : Bool) (x : Int) (a : Option Int) : Bool :=
  if inside then a == some x else a.isNone

def lenOf (l : Loc) : Int := (bases l).length

/-- `r` is a transcript position -/
def inTx (t : TxSpec) (r : Int) : Bool := decide (0 ≤ r) && decide (r < lenOf t.E)
/-- `c` is a CDS position -/
def inCds (t : TxSpec) (c : Int) : Bool :=
  match t.D with | some d => decide (0 ≤ c) && decide (c < lenOf d) | none => false
/-- `p` is an exonic chromosome position -/
def inExons (t : TxSpec) (p : Int) : Bool := decide (0 ≤ p) && covers t.E p.toNat
/-- `p` is a coding chromosome position -/
def inCdsChrom (t : TxSpec) (p : Int) : Bool :=
  match t.D with | some d => decide (0 ≤ p) && covers d p.toNat | none => false

/-! ### the CDS as a contiguous stretch of the transcript -/

/-- transcript index of the first CDS base -/
def cdsOffset (D E : Loc) : Option Nat := (bases D).head?.bind (fun p => idxOf? p (bases E))

/-- `Sub D E`: the CDS is a non-empty contiguous stretch of the transcript,
    `bases D = (bases E)[k : k + len D]`.  (What `TranscriptInterval.__init__` checks is weaker.) -/
def isSub (D E : Loc) : Bool :=
  match cdsOffset D E with
  | some k => ((bases E).drop k).take (bases D).length == bases D
  | none => false

/-- duplicates-free (the transcript visits no chromosome position twice) -/
def noDup : List Nat → Bool
  | [] => true
  | x :: xs => !xs.contains x && noDup xs

/-- the scope in which the UTR / intron clauses are claimed: directional strand, exons that do not
    overlap each other (0-bp gaps and zero-length exons allowed) -/
def txScope (t : TxSpec) : Bool :=
  t.E.strand.isDirectional && nonOverlap t.E.blocks &&
  (match t.D with | some d => d.strand == t.E.strand | none => true)

/-- a returned UTR: well formed, on the transcript's strand unless it is the empty location -/
def utrShapeOk (E : Loc) (u : Location) : Bool :=
  wfLocation u && (u == .empty || locationStrand? u == some E.strand)

/-- 5' UTR: the bases of the transcript before the CDS, in transcript order; a non-coding transcript
    has none (refused).  An empty stretch is answered with a location without bases, never an error. -/
def okUtr5 (t : TxSpec) (a : Option Location) : Bool :=
  match t.D with
  | none => a.isNone
  | some d =>
    if ¬ (txScope t && isSub d t.E) then true
    else match cdsOffset d t.E, a with
      | some k, some u => utrShapeOk t.E u && locationBases u == (bases t.E).take k
      | _, _ => false

/-- 3' UTR: the bases of the transcript after the CDS, in transcript order. -/
def okUtr3 (t : TxSpec) (a : Option Location) : Bool :=
  match t.D with
  | none => a.isNone
  | some d =>
    if ¬ (txScope t && isSub d t.E) then true
    else match cdsOffset d t.E, a with
      | some k, some u => utrShapeOk t.E u && locationBases u == (bases t.E).drop (k + (bases d).length)
      | _, _ => false

/-! ### span and introns -/

def minStart : List Blk → Nat
  | [] => 0
  | [b] => b.1
  | b :: bs => min b.1 (minStart bs)

def maxEndS : List Blk → Nat
  | [] => 0
  | b :: bs => max b.2 (maxEndS bs)

/-- the chromosome span: from the smallest exon start to the largest exon end, on the strand -/
def okSpan (t : TxSpec) (a : Option Location) : Bool :=
  a == some (.single (minStart t.E.blocks, maxEndS t.E.blocks) t.E.strand)

def noEmptyBlock (bs : List Blk) : Bool := bs.all (fun b => decide (b.1 < b.2))

/-- introns = span − exons, as position sets; no intron ⇒ the empty location. -/
def okIntrons (t : TxSpec) (a : Option Location) : Bool :=
  if ¬ txScope t then true
  else match a with
    | none => false
    | some g =>
      let lo := minStart t.E.blocks
      let hi := maxEndS t.E.blocks
      let want := (List.range' lo (hi - lo)).filter (fun p => !covers t.E p)
      utrShapeOk t.E g && sortNat (locationBases g) == want && ((g == .empty) == want.isEmpty)

/-! ### interval conversions (reuse the C01 interval predicates on `E` / `D`) -/

/-- a chromosome interval handed to the library must be a valid interval of the chromosome -/
def chromIntervalValid (t : TxSpec) (s e : Int) : Bool :=
  decide (0 ≤ s) && decide (s ≤ e) && (match t.plen with | some n => decide (e ≤ n) | none => true)

/-- transcript interval → chromosome location -/
def okTI2C (t : TxSpec) (rs re : Int) (rst : Strand) (a : Option Location) : Bool :=
  okRelint (.compound t.E) rs re rst a

/-- CDS interval → chromosome location -/
def okDI2C (t : TxSpec) (rs re : Int) (rst : Strand) (a : Option Location) : Bool :=
  match t.D with
  | none => a.isNone
  | some d => okRelint (.compound d) rs re rst a

/-- chromosome interval → transcript-relative location -/
def okCI2T (t : TxSpec) (s e : Int) (st : Strand) (a : Option Location) : Bool :=
  if ¬ chromIntervalValid t s e then a.isNone
  else okLocRel (.single (s.toNat, e.toNat) st) (.compound t.E) true a

/-- chromosome interval → CDS-relative location -/
def okCI2D (t : TxSpec) (s e : Int) (st : Strand) (a : Option Location) : Bool :=
  match t.D with
  | none => a.isNone
  | some d =>
    if ¬ chromIntervalValid t s e then a.isNone
    else okLocRel (.single (s.toNat, e.toNat) st) (.compound d) true a

/-! ## the same transcript seen from a sequence chunk

  A chunk is a window `w = [w.1, w.2)` of the chromosome on strand `wst`; chunk coordinate `q` is the
  `q`-th base of the window read on that strand.  The chunk-relative view of a location is its part inside
  the window, each base expressed in chunk coordinates, in the location's own 5'→3' order. -/

structure Win where
  w : Blk
  wst : Strand
  deriving Repr

/-- a chunk holds at least one base and has a direction -/
def winOk (W : Win) : Bool := W.wst.isDirectional && decide (W.w.1 < W.w.2)

def inWin (w : Blk) (p : Nat) : Bool := decide (w.1 ≤ p) && decide (p < w.2)

/-- chunk coordinate of chromosome position `p` (for `p` inside the window) -/
def chunkOf (W : Win) (p : Nat) : Nat := if W.wst = .minus then W.w.2 - 1 - p else p - W.w.1

/-- the bases of `l` that lie in the chunk, in `l`'s 5'→3' order, in chunk coordinates -/
def chunkBases (l : Loc) (W : Win) : List Nat := ((bases l).filter (inWin W.w)).map (chunkOf W)

def listIdx (L : List Nat) (q : Int) : Option Int :=
  if q < 0 then none else (idxOf? q.toNat L).map Int.ofNat
def listAt (L : List Nat) (r : Int) : Option Int :=
  if r < 0 then none else (L[r.toNat]?).map Int.ofNat

/-- chunk position → index among the in-chunk transcript bases (`chunk_relative_pos_to_transcript`) -/
def expCR2T (t : TxSpec) (W : Win) (q : Int) : Option Int :=
  if t.E.strand = .unstranded then none else listIdx (chunkBases t.E W) q
/-- index among the in-chunk transcript bases → chunk position (`transcript_pos_to_chunk_relative`) -/
def expT2CR (t : TxSpec) (W : Win) (r : Int) : Option Int :=
  if t.E.strand = .unstranded then none else listAt (chunkBases t.E W) r
def expCR2D (t : TxSpec) (W : Win) (q : Int) : Option Int :=
  t.D.bind (fun d => if d.strand = .unstranded then none else listIdx (chunkBases d W) q)
def expD2CR (t : TxSpec) (W : Win) (r : Int) : Option Int :=
  t.D.bind (fun d => if d.strand = .unstranded then none else listAt (chunkBases d W) r)

def okCR2T (t : TxSpec) (W : Win) (q : Int) (a : Option Int) : Bool := a == expCR2T t W q
def okT2CR (t : TxSpec) (W : Win) (r : Int) (a : Option Int) : Bool := a == expT2CR t W r
def okCR2D (t : TxSpec) (W : Win) (q : Int) (a : Option Int) : Bool := a == expCR2D t W q
def okD2CR (t : TxSpec) (W : Win) (r : Int) (a : Option Int) : Bool := a == expD2CR t W r

/-- the location an interval class starts from: one block ⇒ SingleInterval, else CompoundInterval -/
def initOf (l : Loc) : Location :=
  match l.blocks with
  | [b] => .single b l.strand
  | _ => .compound l

/-- a clipped block in chunk coordinates -/
def chunkBlk (W : Win) (c : Blk) : Blk :=
  if W.wst = .minus then (W.w.2 - c.2, W.w.2 - c.1) else (c.1 - W.w.1, c.2 - W.w.1)

/-- the chunk-relative location: the non-empty clips of the blocks by the window, in chunk coordinates, block
    structure kept, strand relative to the chunk's; the empty location when nothing lies in the window -/
def chunkLocOf (init : Location) (W : Win) : Location :=
  match init with
  | .empty => .empty
  | .single b st =>
      match clip W.w b with
      | some c => .single (chunkBlk W c) (compose st W.wst)
      | none => .empty
  | .compound l =>
      let cs := l.blocks.filterMap (clip W.w)
      if cs.isEmpty then .empty
      else .compound ⟨sortBlocks (compose l.strand W.wst) (cs.map (chunkBlk W)), compose l.strand W.wst⟩

/-- `chunk_relative_location` -/
def okChunkLoc (t : TxSpec) (W : Win) (a : Option Location) : Bool := a == some (chunkLocOf (initOf t.E) W)
def okChunkCdsLoc (t : TxSpec) (W : Win) (a : Option Location) : Bool :=
  match t.D with
  | none => a.isNone
  | some d => a == some (chunkLocOf (initOf d) W)

/-- a chunk interval handed to the library must be an interval of the chunk -/
def chunkIntervalValid (W : Win) (s e : Int) : Bool :=
  decide (0 ≤ s) && decide (s ≤ e) && decide (e ≤ ((W.w.2 - W.w.1 : Nat) : Int))

/-- (in-chunk) transcript interval → chunk-relative location: the C01 interval clause on the chunk-relative location -/
def okIvToChunk (l : Location) (rs re : Int) (rst : Strand) (a : Option Location) : Bool :=
  if l == .empty then a.isNone else okRelint l rs re rst a
/-- chunk interval → location relative to the in-chunk transcript -/
def okChunkToIv (l : Location) (W : Win) (s e : Int) (st : Strand) (a : Option Location) : Bool :=
  if l == .empty ∨ ¬ chunkIntervalValid W s e then a.isNone
  else okLocRel (.single (s.toNat, e.toNat) st) l true a

def okTI2CR (t : TxSpec) (W : Win) (rs re : Int) (rst : Strand) (a : Option Location) : Bool :=
  okIvToChunk (chunkLocOf (initOf t.E) W) rs re rst a
def okCRI2T (t : TxSpec) (W : Win) (s e : Int) (st : Strand) (a : Option Location) : Bool :=
  okChunkToIv (chunkLocOf (initOf t.E) W) W s e st a
def okDI2CR (t : TxSpec) (W : Win) (rs re : Int) (rst : Strand) (a : Option Location) : Bool :=
  match t.D with
  | none => a.isNone
  | some d => okIvToChunk (chunkLocOf (initOf d) W) rs re rst a
def okCRI2D (t : TxSpec) (W : Win) (s e : Int) (st : Strand) (a : Option Location) : Bool :=
  match t.D with
  | none => a.isNone
  | some d => okChunkToIv (chunkLocOf (initOf d) W) W s e st a

/-- UTRs of a chunk-built transcript ("the result is chunk-relative"): the UTR's bases that lie in the chunk, in
    transcript order, in chunk coordinates; a location without bases (never an error) when there are none. -/
def okKUtr (t : TxSpec) (W : Win) (five : Bool) (a : Option Location) : Bool :=
  match t.D with
  | none => a.isNone
  | some d =>
    if ¬ (txScope t && isSub d t.E && winOk W) then true
    else match cdsOffset d t.E, a with
      | some k, some u =>
        let utr := if five then (bases t.E).take k else (bases t.E).drop (k + (bases d).length)
        wfLocation u && (u == .empty || locationStrand? u == some (compose t.E.strand W.wst)) &&
        locationBases u == (utr.filter (inWin W.w)).map (chunkOf W)
      | _, _ => false

end BioCantor.Spec
