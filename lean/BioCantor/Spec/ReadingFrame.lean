/-
  C05 — reference semantics of a coding interval, written without looking at how the library computes
  anything: ONE reading-frame walk over the exons, read 5'→3'.

    * walk the exons 5'→3'; the running frame is `|kept| mod 3`;
    * an exon whose annotated frame equals the running frame contributes all of its positions;
    * otherwise the walk re-synchronises: the incomplete codon at the end of `kept` is dropped and the
      first `frame` positions of the exon are skipped;
    * codons are the consecutive triples of `kept`.

  Everything else (coding sequence, protein, number of codons, start/stop predicates, codon windows,
  generated frames) is stated in terms of that one list.  The genetic code is the NCBI standard table
  written as its 64-letter string; nothing here refers to Gen/ or Model/.
-/
import BioCantor.Spec.LocationCheck
namespace BioCantor.Spec
open BioCantor

/-! ### The walk -/

/-- consecutive triples of a list; an incomplete tail is dropped -/
def triples {α} : List α → List (List α)
  | a :: b :: c :: rest => [a, b, c] :: triples rest
  | _ => []

/-- One exon of the walk: its positions 5'→3' and its annotated frame value (0, 1 or 2). -/
abbrev WalkExon (α : Type) := List α × Nat

/-- The reading-frame walk with the list kept so far. -/
def refKeptAux {α} : List (WalkExon α) → List α → List α
  | [], kept => kept
  | (pos, f) :: rest, kept =>
    if f = kept.length % 3 then refKeptAux rest (kept ++ pos)
    else refKeptAux rest (kept.take (kept.length - kept.length % 3) ++ pos.drop f)

/-- positions that end up in a complete or incomplete codon, 5'→3' -/
def refKept {α} (exons : List (WalkExon α)) : List α := refKeptAux exons []

/-- The exons of a CDS in 5'→3' order, each with its chromosome positions 5'→3' and its frame value.
    `frames` is in plus orientation (the order of the sorted blocks), as the constructor takes it. -/
def exonWalk (l : Loc) (frames : List Nat) : List (WalkExon Nat) :=
  match l.strand with
  | .minus => (l.blocks.zip frames).reverse.map (fun bf => (blkDesc bf.1, bf.2))
  | _ => (l.blocks.zip frames).map (fun bf => (blkAsc bf.1, bf.2))

/-- the retained chromosome positions of a CDS, 5'→3' -/
def cdsKept (l : Loc) (frames : List Nat) : List Nat := refKept (exonWalk l frames)

/-- the codons of a CDS as triples of chromosome positions, 5'→3' -/
def cdsCodons (l : Loc) (frames : List Nat) : List (List Nat) := triples (cdsKept l frames)

/-! ### "Shallow trim": every re-synchronisation finds the incomplete codon inside the most recent
    contribution.  (Outside this class the pinned library refuses the CDS: finding F-C05b.) -/

/-- remove `r` trailing elements from the most recent segment only; `none` when it is too short -/
def trimLast {α} (r : Nat) : List (List α) → Option (List (List α))
  | [] => if r = 0 then some [] else none
  | seg :: rest => if r ≤ seg.length then some (seg.take (seg.length - r) :: rest) else none

def segsLen {α} (segs : List (List α)) : Nat := (segs.map List.length).sum

def pushSeg {α} (p : List α) (segs : List (List α)) : List (List α) := if p.isEmpty then segs else p :: segs

/-- the walk, keeping one segment per contributing exon (most recent first) -/
def refSegsAux {α} : List (WalkExon α) → List (List α) → Option (List (List α))
  | [], segs => some segs
  | (pos, f) :: rest, segs =>
    if f = segsLen segs % 3 then refSegsAux rest (pushSeg pos segs)
    else match trimLast (segsLen segs % 3) segs with
      | none => none
      | some segs' => refSegsAux rest (pushSeg (pos.drop f) segs')

def shallowTrim {α} (exons : List (WalkExon α)) : Bool := (refSegsAux exons []).isSome

/-! ### Sequence -/

def upper (c : Char) : Char := c.toUpper

/-- IUPAC complement (upper and lower case). -/
def complementTable : List (Char × Char) :=
  [('A','T'), ('C','G'), ('G','C'), ('T','A'), ('U','A'), ('R','Y'), ('Y','R'), ('S','S'), ('W','W'),
   ('K','M'), ('M','K'), ('B','V'), ('V','B'), ('D','H'), ('H','D'), ('N','N'),
   ('a','t'), ('c','g'), ('g','c'), ('t','a'), ('u','a'), ('r','y'), ('y','r'), ('s','s'), ('w','w'),
   ('k','m'), ('m','k'), ('b','v'), ('v','b'), ('d','h'), ('h','d'), ('n','n'), ('-','-')]

def complement (c : Char) : Option Char := complementTable.lookup c

/-- the letters read at the given chromosome positions (already 5'→3'); complemented on the minus strand -/
def lettersAt (chrom : List Char) (st : Strand) : List Nat → Option (List Char)
  | [] => some []
  | p :: ps => do
    let c ← chrom[p]?
    let c' ← (if st = .minus then complement c else some c)
    let rest ← lettersAt chrom st ps
    pure (c' :: rest)

/-! ### The standard genetic code (NCBI table 1), base order T C A G -/

def ncbiStandard : List Char :=
  "FFLLSSSSYY**CC*WLLLLPPPPHHQQRRRRIIIMTTTTNNKKSSRRVVVVAAAADDEEGGGG".toList

def baseIdx : Char → Option Nat
  | 'T' => some 0 | 'C' => some 1 | 'A' => some 2 | 'G' => some 3 | _ => none

/-- amino acid of an upper-case ACGT codon; `none` for anything else -/
def standardCode : List Char → Option Char
  | [a, b, c] => do
    let i ← baseIdx a; let j ← baseIdx b; let k ← baseIdx c
    ncbiStandard[16 * i + 4 * j + k]?
  | _ => none

/-- bases denoted by an upper-case IUPAC letter -/
def iupacBases : Char → List Char
  | 'A' => ['A'] | 'C' => ['C'] | 'G' => ['G'] | 'T' => ['T'] | 'U' => ['T']
  | 'R' => ['A','G'] | 'Y' => ['C','T'] | 'S' => ['C','G'] | 'W' => ['A','T'] | 'K' => ['G','T'] | 'M' => ['A','C']
  | 'B' => ['C','G','T'] | 'D' => ['A','G','T'] | 'H' => ['A','C','T'] | 'V' => ['A','C','G']
  | 'N' => ['A','C','G','T']
  | _ => []

/-- all concrete codons an ambiguous (upper-case) codon stands for -/
def expansions : List Char → List (List Char)
  | [] => [[]]
  | c :: cs => (iupacBases c).flatMap (fun b => (expansions cs).map (fun r => b :: r))

/-- an amino acid letter is *sound* for a codon when every concrete reading of the codon encodes it -/
def soundAA (codon : List Char) (aa : Char) : Bool :=
  let ex := expansions codon
  !ex.isEmpty && ex.all (fun e => standardCode e == some aa)

/-- start codons per NCBI translation table (0 = "ATG only", the library's default) -/
def startCodonsOf : Nat → Option (List (List Char))
  | 0 => some ["ATG".toList]
  | 1 => some ["ATG".toList, "TTG".toList, "CTG".toList]
  | 11 => some ["ATG".toList, "TTG".toList, "CTG".toList, "ATT".toList, "ATC".toList, "ATA".toList, "GTG".toList]
  | _ => none

def isStop (codon : List Char) : Bool := standardCode codon == some '*'

/-- codons up to and including the first stop codon -/
def uptoFirstStop : List (List Char) → List (List Char)
  | [] => []
  | c :: cs => if isStop c then [c] else c :: uptoFirstStop cs

/-- is the letter `aa` an acceptable translation of `codon` (upper case) at index `i`? -/
def okAA (starts : List (List Char)) (i : Nat) (codon : List Char) (aa : Char) : Bool :=
  if i = 0 ∧ codon ∈ starts then aa == 'M'
  else match standardCode codon with
    | some a => aa == a
    | none => aa == 'X' || soundAA codon aa     -- only reachable without `strict`

def okProteinFrom (starts : List (List Char)) : Nat → List (List Char) → List Char → Bool
  | _, [], [] => true
  | i, c :: cs, a :: as => okAA starts i c a && okProteinFrom starts (i + 1) cs as
  | _, _, _ => false

/-- must a strict translation refuse?  (a codon that is not plain ACGT, other than a start codon in first place) -/
def strictRefuses (starts : List (List Char)) : Nat → List (List Char) → Bool
  | _, [] => false
  | i, c :: cs => (!(i = 0 ∧ c ∈ starts) && (standardCode c).isNone) || strictRefuses starts (i + 1) cs

/-! ### The inputs and the clauses of C05 -/

/-- a CDS as the property sees it: canonical exon layout, frame values (plus orientation), chromosome letters -/
structure CDSIn where
  loc : Loc
  frames : List Nat
  seq : Option (List Char)

/-- the scope in which C05 speaks: a constructible CDS with directional strand, exons of positive length that
    do not overlap, one frame value in {0,1,2} per exon, and (when given) a sequence that covers it -/
def CDSIn.inScope (c : CDSIn) : Bool :=
  decide c.loc.Canon && c.loc.strand.isDirectional && nonOverlap c.loc.blocks &&
  c.loc.blocks.all (fun b => decide (b.1 < b.2)) &&
  c.frames.length == c.loc.blocks.length && c.frames.all (fun f => decide (f < 3)) &&
  (match c.seq with
   | none => true
   | some s => c.loc.blocks.all (fun b => decide (b.2 ≤ s.length)))

def CDSIn.kept (c : CDSIn) : List Nat := cdsKept c.loc c.frames
def CDSIn.codons (c : CDSIn) : List (List Nat) := cdsCodons c.loc c.frames

/-- the codons as upper-case letter triples -/
def CDSIn.codonLetters (c : CDSIn) : Option (List (List Char)) :=
  match c.seq with
  | none => none
  | some s => (c.codons.mapM (lettersAt s c.loc.strand)).map (fun cs => cs.map (fun cod => cod.map upper))

/-- a returned codon location denotes exactly the three positions `want` (5'→3') on the CDS strand -/
def codonOk (st : Strand) (want : List Nat) (got : Location) : Bool :=
  wfLocation got && (locationStrand? got == some st) && (locationBases got == want)

def codonsMatch (st : Strand) : List (List Nat) → List Location → Bool
  | [], [] => true
  | w :: ws, g :: gs => codonOk st w g && codonsMatch st ws gs
  | _, _ => false

/-- a codon window: chromosome start / end (`none` = the CDS's own start / end) and the expand flag -/
structure Win where
  s : Option Int
  e : Option Int
  expand : Bool

def locStartMin (l : Loc) : Nat := match l.blocks with
  | [] => 0
  | b :: _ => b.1
def locEndMax : List Blk → Nat
  | [] => 0
  | b :: bs => max b.2 (locEndMax bs)

def Win.lo (w : Win) (l : Loc) : Int := match w.s with | some x => x | none => locStartMin l
def Win.hi (w : Win) (l : Loc) : Int := match w.e with | some x => x | none => locEndMax l.blocks

def inWin (lo hi : Int) (p : Nat) : Bool := decide (lo ≤ (p : Int)) && decide ((p : Int) < hi)

/-- C05-T5: the codons of a window are the codons of the CDS lying inside it (all three positions),
    or, with `expand`, those having at least one position in it -/
def windowCodons (codons : List (List Nat)) (lo hi : Int) (expand : Bool) : List (List Nat) :=
  codons.filter (fun cod => if expand then cod.any (inWin lo hi) else cod.all (inWin lo hi))

def expectCodons (c : CDSIn) (w : Option Win) : List (List Nat) :=
  match w with
  | none => c.codons
  | some w => windowCodons c.codons (w.lo c.loc) (w.hi c.loc) w.expand

/-- clause "codon locations" (with or without a window) -/
def okCodons (c : CDSIn) (w : Option Win) (ans : Option (List Location)) : Bool :=
  match ans with
  | none => false
  | some locs => codonsMatch c.loc.strand (expectCodons c w) locs

/-- clause "number of codons" -/
def okNumCodons (c : CDSIn) (ans : Option Nat) : Bool := ans == some c.codons.length

/-- clause "the coding sequence is the concatenation of the codon sequences" (hence a multiple of three) -/
def okCdsSeq (c : CDSIn) (ans : Option (List Char)) : Bool :=
  match c.seq with
  | none => ans.isNone
  | some s => ans == ((c.codons.mapM (lettersAt s c.loc.strand)).map List.flatten) && ans.isSome

/-- clause "codon iterator": the upper-case codons, optionally cut after the first stop -/
def okScanCodons (c : CDSIn) (trunc : Bool) (ans : Option (List (List Char))) : Bool :=
  match c.codonLetters with
  | none => ans.isNone
  | some cods => ans == some (if trunc then uptoFirstStop cods else cods)

/-- clause "the protein is the standard-code translation of those codons (start rule per table)",
    on the list of upper-case codons -/
def okTranslateCodons (cods : List (List Char)) (trunc : Bool) (table : Nat) (strict : Bool)
    (ans : Option (List Char)) : Bool :=
  match startCodonsOf table with
  | none => ans.isNone
  | some starts =>
    let used := if trunc then uptoFirstStop cods else cods
    if strict ∧ strictRefuses starts 0 used then ans.isNone
    else match ans with
      | none => false
      | some prot => okProteinFrom starts 0 used prot

def okTranslate (c : CDSIn) (trunc : Bool) (table : Nat) (strict : Bool) (ans : Option (List Char)) : Bool :=
  match c.codonLetters with
  | some cods => okTranslateCodons cods trunc table strict ans
  | none => ans.isNone

/-- start-codon predicates: "the first codon is a start codon of the table"; a CDS without a complete codon has no
    such codon, so the answer is `false`. -/
def okFirstCodon (c : CDSIn) (starts : List (List Char)) (ans : Option Bool) : Bool :=
  match c.codonLetters with
  | none => ans.isNone
  | some [] => ans == some false
  | some (cod :: _) => ans == some (decide (cod ∈ starts))

/-- last-codon predicate.  Without a complete codon there is no last codon: the answer is `false`. -/
def okHasValidStop (c : CDSIn) (ans : Option Bool) : Bool :=
  match c.codonLetters with
  | none => ans.isNone
  | some cods =>
    match cods.getLast? with
    | none => ans == some false
    | some cod => ans == some (isStop cod)

/-- `has_in_frame_stop` is "the default (strict, ATG-start) translation has a `*` before its last letter" -/
def okInFrameStop (c : CDSIn) (ans : Option Bool) : Bool :=
  match c.codonLetters with
  | none => ans.isNone
  | some cods =>
    if strictRefuses ["ATG".toList] 0 cods then ans.isNone
    else ans == some (cods.dropLast.any isStop)

/-! ### Generated frames (`construct_frames_from_location`) -/

/-- clause "frames generated for a location from a start offset describe one uninterrupted reading frame":
    one frame per block, and walking the location with them keeps every position after the first `f`. -/
def okFrames (l : Loc) (f : Nat) (ans : Option (List Nat)) : Bool :=
  match ans with
  | none => false
  | some fr => fr.length == l.blocks.length && fr.all (fun x => decide (x < 3)) &&
      cdsKept l fr == (bases l).drop f

/-! ### Known deviation classes of the pinned library (labels for findings/C05.json; no influence on a verdict) -/

/-- number of positions the annotated walk drops, i.e. is the CDS in one uninterrupted frame 0? -/
def plainFrame (c : CDSIn) : Bool := c.kept == bases c.loc

def codonsClass (c : CDSIn) (w : Option Win) (ans : Option (List Location)) : String :=
  let walk := exonWalk c.loc c.frames
  if ans.isNone ∧ ¬ shallowTrim walk then "deep-trim"
  else if ans.isNone ∧ c.kept.isEmpty ∧ c.loc.blocks.length ≥ 2 then "no-retained-base"
  else match w with
    | none => "unclassified"
    | some w =>
      let lo := w.lo c.loc
      let hi := w.hi c.loc
      if ¬ w.expand ∧ lo = hi ∧ ans.isSome then "zero-length-window"
      else if ans.isNone ∧ ¬ c.kept.any (inWin lo hi) then "window-without-retained-base"
      else if w.expand ∧ ¬ plainFrame c then "expand-ignores-frame"
      else if w.expand ∧ ans.isNone ∧
              ((bases c.loc).drop (3 * ((bases c.loc).length / 3))).any (inWin lo hi) then
        "expand-trailing-partial-codon"
      else if ¬ w.expand ∧ c.loc.blocks.length = 1 ∧ ans.isSome ∧ c.frames.head? ≠ some 0 ∧
              ((bases c.loc).head?.map (inWin lo hi)) = some false then
        "single-exon-5p-cut"
      else "unclassified"

end BioCantor.Spec
