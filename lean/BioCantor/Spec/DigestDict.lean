/-
  C08 — reference predicates for the dictionary round trip and for GUID determinism / sensitivity, evaluated by the
  spec driver on the REAL library's answers (`dictrt`, `digest2`).  Written from the property text ("survives … as an
  equal object with the same identifier, coordinates, qualifiers"), not from the code:

    `okDictRt cls d out`   `out = Cls.from_dict(d).to_dict()` carries exactly the documented keys of the class and,
                           key by key, the value of `d` — up to the normalisations the data model documents
                           (falsy → None, qualifier values as sorted sets of str, feature types sorted, identifiers
                           recomputed only when absent, variants ordered by start, children recursively).
    `okDigestPair`         two descriptions of the same content digest to the same GUID and token stream; a changed
                           coordinate / strand / frame gives another GUID and another byte stream.
-/
import BioCantor.Spec.Digest
namespace BioCantor.Spec.Digest
open BioCantor
open BioCantor.Spec.Qual (Str strLt strLe)

/-! ### equality and truthiness of Python values -/

mutual
def pyEq : PyVal → PyVal → Bool
  | .none, .none => true
  | .bool a, .bool b => a == b
  | .int a, .int b => a == b
  | .str a, .str b => a == b
  | .uuid a, .uuid b => a == b
  | .obj a r, .obj b s => a == b && r == s
  | .list a, .list b => pyEqList a b
  | .set a, .set b => pyEqList a b
  | .dict a, .dict b => pyEqEntries a b
  | _, _ => false
def pyEqList : List PyVal → List PyVal → Bool
  | [], [] => true
  | a :: as, b :: bs => pyEq a b && pyEqList as bs
  | _, _ => false
def pyEqEntries : List (Str × PyVal) → List (Str × PyVal) → Bool
  | [], [] => true
  | (k, a) :: as, (l, b) :: bs => k == l && pyEq a b && pyEqEntries as bs
  | _, _ => false
end

/-- `not v` -/
def falsy : PyVal → Bool
  | .none => true
  | .bool b => !b
  | .int n => n == 0
  | .str s => s.isEmpty
  | .list vs => vs.isEmpty
  | .set vs => vs.isEmpty
  | .dict kvs => kvs.isEmpty
  | _ => false

def dget (k : String) : PyVal → Option PyVal
  | .dict kvs => kvs.lookup k.toList
  | _ => none

def isNone : PyVal → Bool
  | .none => true
  | _ => false

def isUuid : PyVal → Bool
  | .uuid _ => true
  | _ => false

def strsOf : PyVal → Option (List Str)
  | .list vs => vs.mapM fun v => match v with | .str s => some s | _ => none
  | _ => none

/-! ### per-class export tables: the keys a dictionary of the class carries, in the documented order, and how each
    value relates to the imported dictionary -/

inductive Rule where
  | same                       -- carried over unchanged
  | cds                        -- cds_starts / cds_ends / cds_frames: all three kept, or (non-coding) all None
  | enumOpt                    -- Biotype name or None (falsy input → None)
  | quals                      -- qualifier dictionary: values as sorted sets of str, empty → None
  | types                      -- feature types: sorted set, empty → None
  | guid                       -- content identifier: kept when given, else some UUID
  | children (cls : String)    -- list of child dictionaries
  | bound                      -- collection start / end: kept when both are given
  | parent                     -- exported parent dictionary
  | childrenOrEmpty (cls : String)

def rules : String → List (String × Rule)
  | "tx" => [("exon_starts", .same), ("exon_ends", .same), ("strand", .same), ("cds_starts", .cds), ("cds_ends", .cds),
      ("cds_frames", .cds), ("qualifiers", .quals), ("is_primary_tx", .same), ("transcript_id", .same),
      ("transcript_symbol", .same), ("transcript_type", .enumOpt), ("sequence_name", .same), ("sequence_guid", .same),
      ("protein_id", .same), ("product", .same), ("transcript_guid", .same), ("transcript_interval_guid", .guid)]
  | "cds" => [("cds_starts", .same), ("cds_ends", .same), ("strand", .same), ("cds_frames", .same),
      ("qualifiers", .quals), ("sequence_name", .same), ("sequence_guid", .same), ("protein_id", .same),
      ("product", .same)]
  | "feat" => [("interval_starts", .same), ("interval_ends", .same), ("strand", .same), ("qualifiers", .quals),
      ("feature_id", .same), ("feature_name", .same), ("feature_types", .types), ("sequence_name", .same),
      ("sequence_guid", .same), ("feature_interval_guid", .guid), ("feature_guid", .same),
      ("is_primary_feature", .same)]
  | "var" => [("start", .same), ("end", .same), ("sequence", .same), ("variant_type", .same), ("phase_block", .same),
      ("variant_interval_guid", .guid), ("variant_guid", .same), ("variant_name", .same), ("variant_id", .same),
      ("qualifiers", .quals)]
  | "gene" => [("transcripts", .children "tx"), ("gene_id", .same), ("gene_symbol", .same), ("gene_type", .enumOpt),
      ("locus_tag", .same), ("qualifiers", .quals), ("sequence_name", .same), ("sequence_guid", .same),
      ("gene_guid", .guid)]
  | "fc" => [("feature_intervals", .children "feat"), ("feature_collection_name", .same),
      ("feature_collection_id", .same), ("feature_collection_type", .same), ("locus_tag", .same),
      ("qualifiers", .quals), ("sequence_name", .same), ("sequence_guid", .same), ("feature_collection_guid", .guid)]
  | "vc" => [("variant_intervals", .children "var"), ("variant_collection_name", .same),
      ("variant_collection_id", .same), ("qualifiers", .quals), ("sequence_name", .same), ("sequence_guid", .same),
      ("variant_collection_guid", .guid)]
  | "ac" => [("genes", .childrenOrEmpty "gene"), ("feature_collections", .childrenOrEmpty "fc"),
      ("variant_collections", .childrenOrEmpty "vc"), ("name", .same), ("id", .same), ("qualifiers", .quals),
      ("sequence_name", .same), ("sequence_guid", .same), ("sequence_path", .same), ("start", .bound), ("end", .bound),
      ("completely_within", .same), ("parent_or_seq_chunk_parent", .parent)]
  | _ => []

/-- qualifier clause: the exported value against the imported `{key: [values]}` (or None) -/
def okQuals (dv ov : PyVal) : Bool :=
  let inp : Option (List (Str × List Str)) :=
    match dv with
    | .none => some []
    | .dict kvs => kvs.mapM fun e => match e.2 with | .list vs => some (e.1, vs.map pyStr) | _ => none
    | _ => none
  let out : Option (Option (List (Str × List Str))) :=
    match ov with
    | .none => some none
    | .dict kvs => (kvs.mapM fun e => (strsOf e.2).map fun l => (e.1, l)).map some
    | _ => none
  match inp, out with
  | some q, some o => okQExport q (some o)
  | _, _ => false

def okTypes (dv ov : PyVal) : Bool :=
  if falsy dv then isNone ov
  else match strsOf dv, strsOf ov with
    | some i, some o => Qual.sortedStrict o && Qual.sameSet o i
    | _, _ => false

/-- stable insertion of a variant dictionary by its start -/
def insertByStart (v : PyVal) : List PyVal → List PyVal
  | [] => [v]
  | w :: ws =>
    match dget "start" v, dget "start" w with
    | some (.int a), some (.int b) => if a < b then v :: w :: ws else w :: insertByStart v ws
    | _, _ => w :: insertByStart v ws

def sortByStart (vs : List PyVal) : List PyVal := vs.reverse.foldl (fun acc v => insertByStart v acc) []

def upper (s : Str) : Str := s.map Char.toUpper

/-- the exported parent against the parent dictionary that was imported: sequence, alphabet, and — for a sequence
    chunk — name, start, end and STRAND (PLUS when the imported dictionary leaves it out) come back unchanged -/
def okParent (dv ov : PyVal) : Bool :=
  match dget "seq" dv with
  | some (.str sq) =>
    if sq.isEmpty then true else
    let keep (k : String) : Bool :=
      match dget k dv, dget k ov with
      | some a, some b => pyEq a b
      | _, _ => false
    keep "seq" && keep "alphabet" &&
    (match dget "type" dv with
     | some (.str t) =>
       if upper t == "SEQUENCE_CHUNK".toList then
         keep "sequence_name" && keep "start" && keep "end" &&
         (match dget "strand" dv, dget "strand" ov with
          | some (.str a), some (.str b) => a == b
          | some .none, some (.str b) => b == "PLUS".toList
          | none, some (.str b) => b == "PLUS".toList
          | _, _ => false)
       else true
     | _ => true)
  | _ => true

/-- `out` is an acceptable `Cls.from_dict(d).to_dict()`; `fuel` bounds the nesting (collection → gene → transcript) -/
def okDictRtN : Nat → String → PyVal → PyVal → Bool
  | 0, _, _, _ => false
  | fuel + 1, cls, d, out =>
    match out with
    | .dict okvs =>
      let rs := rules cls
      okvs.map (·.1) == rs.map (·.1.toList) &&
      rs.all fun (k, rule) =>
        match dget k d, dget k out with
        | some dv, some ov =>
          (match rule with
           | .same => pyEq dv ov
           | .cds =>
             let coding := !falsy ((dget "cds_starts" d).getD .none) && !falsy ((dget "cds_ends" d).getD .none)
             if coding then pyEq dv ov else isNone ov
           | .enumOpt => if falsy dv then isNone ov else (match ov with | .str s => !s.isEmpty | _ => false)
           | .quals => okQuals dv ov
           | .types => okTypes dv ov
           | .guid => if isNone dv then isUuid ov else pyEq dv ov
           | .children c =>
             (match dv, ov with
              | .list ds, .list os =>
                let ds := if c == "var" then sortByStart ds else ds
                ds.length == os.length && (ds.zip os).all fun p => okDictRtN fuel c p.1 p.2
              | _, _ => false)
           | .childrenOrEmpty c =>
             (match ov with
              | .list os =>
                if falsy dv then os.isEmpty
                else (match dv with
                  | .list ds => ds.length == os.length && (ds.zip os).all fun p => okDictRtN fuel c p.1 p.2
                  | _ => false)
              | _ => false)
           | .bound =>
             (match dget "start" d, dget "end" d with
              | some (.int _), some (.int _) => pyEq dv ov
              | _, _ => (match ov with | .int _ => true | _ => false))
           | .parent => okParent dv ov)
        -- `"parent_or_seq_chunk_parent" in vals`: the importer tolerates a dictionary without the parent key
        | none, some _ => (match rule with | .parent => true | _ => false)
        | _, _ => false
    | _ => false

def okDictRt (cls : String) (d : PyVal) (ans : Option PyVal) : Bool :=
  match ans with
  | none => false
  | some out => okDictRtN 5 cls d out

/-- `digest2`: (GUID, token stream) of two descriptions; `same` = equal content (re-ordered insertions),
    otherwise one coordinate / the strand / one frame differs -/
def okDigestPair (same : Bool) (ans : Option ((Str × List Str) × (Str × List Str))) : Bool :=
  match ans with
  | none => false
  | some (a, b) =>
    if same then a.1 == b.1 && a.2 == b.2
    else a.1 != b.1 && concatTokens a.2 != concatTokens b.2

/-- `indep` — EXPORT INDEPENDENCE.  The implementation side records, for one object and one export path
    (to_dict in both coordinate modes, `__getstate__`, data-model dump, pickle, GUID tree):
      * how many mutable containers two consecutive exports share (`shared`);
      * digests of (the first export before it was edited by the caller, the export taken after the edit, the export
        of a freshly built twin) and of the three GUID trees;
      * digests of (the export taken after the object's public `qualifiers` were changed, the export of a fresh
        object built from that changed state).
    The property demands: nothing shared, the three exports identical, the three GUID trees identical, the export
    after a state change identical to the fresh object's. -/
def okIndep (shared : Nat) (exports guids state : List String) : Bool :=
  let allEq (l : List String) : Bool := match l with | [] => true | x :: xs => xs.all (· == x)
  shared == 0 && exports.length == 3 && allEq exports && guids.length == 3 && allEq guids &&
  state.length == 2 && allEq state

end BioCantor.Spec.Digest
