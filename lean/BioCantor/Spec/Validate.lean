/-
  C19 — "invalid input is refused with documented errors; nothing ill-formed is built", as decidable
  predicates on (arguments, outcome) pairs.  Written from the class documentation and the property text,
  without reference to how the constructors compute (imports Base only).

  An outcome is what a caller observes:
    ok v       an object was returned (v = the plain data read off it)
    refused    a documented exception class was raised
    internal   anything else was raised (AttributeError, IndexError, an escaped builtin ValueError, ...)

  Shape of every clause:   internal            ↦ false
                           refused             ↦ the arguments are NOT valid   (valid input is never refused)
                           ok v                ↦ the arguments are valid ∧ v is well formed for them
-/
import BioCantor.Base
namespace BioCantor.Spec.Validate
open BioCantor

inductive Out (α : Type) where
  | ok (a : α)
  | refused
  | internal
  deriving Repr

abbrev IBlk := Int × Int

/-! ### helpers -/

def allB {α} (l : List α) (p : α → Bool) : Bool := l.all p

def blockOk (b : IBlk) : Bool := decide (0 ≤ b.1) && decide (b.1 ≤ b.2)

def keyLe (s : Strand) (a b : IBlk) : Bool :=
  match s with
  | .plus => decide (a.1 < b.1) || (a.1 == b.1 && decide (a.2 ≤ b.2))
  | _ => decide (a.1 < b.1) || (a.1 == b.1 && decide (b.2 ≤ a.2))

def sortedI (s : Strand) : List IBlk → Bool
  | a :: b :: rest => keyLe s a b && sortedI s (b :: rest)
  | _ => true

def withinParent (plen : Option Nat) (bs : List IBlk) : Bool :=
  match plen with
  | none => true
  | some n => bs.all (fun b => decide (b.2 ≤ (n : Int)))

/-- smallest start / largest end of a non-empty list -/
def minStartI : List IBlk → Int
  | [] => 0
  | [b] => b.1
  | b :: bs => min b.1 (minStartI bs)

def maxEndI : List IBlk → Int
  | [] => 0
  | [b] => b.2
  | b :: bs => max b.2 (maxEndI bs)

def totalLen : List IBlk → Int
  | [] => 0
  | b :: bs => (b.2 - b.1) + totalLen bs

/-! ### SingleInterval(start, end, strand, parent) -/

def validSingle (s e : Int) (plen : Option Nat) : Bool :=
  decide (0 ≤ s) && decide (s ≤ e) && (match plen with | none => true | some n => decide (e ≤ (n : Int)))

def okMkSingle (s e : Int) (st : Strand) (plen : Option Nat) : Out (Int × Int × Strand) → Bool
  | .internal => false
  | .refused => !validSingle s e plen
  | .ok (s', e', st') => validSingle s e plen && s' == s && e' == e && st' == st

/-! ### CompoundInterval(starts, ends, strand, parent) -/

def validCompound (starts ends : List Int) (plen : Option Nat) : Bool :=
  starts.length == ends.length && decide (0 < starts.length) &&
    (starts.zip ends).all blockOk && withinParent plen (starts.zip ends)

/-- the stored blocks: a permutation of the given pairs, every block valid, sorted by the strand's key -/
def wfCompound (starts ends : List Int) (st : Strand) (plen : Option Nat) (bs : List IBlk) : Bool :=
  !bs.isEmpty && bs.all blockOk && sortedI st bs && bs.isPerm (starts.zip ends) && withinParent plen bs

def okMkCompound (starts ends : List Int) (st : Strand) (plen : Option Nat) : Out (List IBlk) → Bool
  | .internal => false
  | .refused => !validCompound starts ends plen
  | .ok bs => validCompound starts ends plen && wfCompound starts ends st plen bs

/-! ### Parent(id, sequence_type, strand, location, sequence, parent) -/

structure PLoc where
  isEmpty : Bool
  strand : Strand
  endp : Nat
  len : Nat
  pid : Option String
  ptype : Option String

structure PSeq where
  len : Nat
  id : Option String
  type : Option String
  par : Option (Option String × Option String)

structure PPar where
  id : Option String
  type : Option String
  seqLen : Option Nat

structure ParentArgs where
  id : Option String
  stype : Option String
  strand : Option Strand
  loc : Option PLoc
  seq : Option PSeq
  par : Option PPar

structure ParentOut where
  id : Option String
  stype : Option String
  strand : Option Strand
  hasParent : Bool

/-- all non-null values equal -/
def consistent (vals : List (Option String)) : Bool :=
  match vals.filterMap id with
  | [] => true
  | x :: rest => rest.all (· == x)

def firstSome (vals : List (Option String)) : Option String := (vals.filterMap id).head?

def idsOf (a : ParentArgs) : List (Option String) := [a.id, a.loc.bind (·.pid), a.seq.bind (·.id)]
def typesOf (a : ParentArgs) : List (Option String) := [a.stype, a.loc.bind (·.ptype), a.seq.bind (·.type)]

/-- the documented consistency requirements of a Parent (location present and not EmptyLocation) -/
def validParent (a : ParentArgs) : Bool :=
  consistent (idsOf a) && consistent (typesOf a) &&
  (match a.loc, a.strand with
   | some l, some s => s == l.strand
   | _, _ => true) &&
  (match a.loc, a.seq with
   | some l, some q => decide (l.endp ≤ q.len)
   | _, _ => true) &&
  (match a.seq, a.par with
   | some q, some p => (match p.seqLen with | some n => decide (q.len ≤ n) | none => true)
   | _, _ => true) &&
  (match a.seq.bind (·.par), a.par with
   | some sp, some p => p.id == sp.1 && p.type == sp.2 && p.seqLen.isNone   -- equal except location (sequence included)
   | _, _ => true)

def emptyLoc (a : ParentArgs) : Bool :=
  match a.loc with
  | some l => l.isEmpty
  | none => false

def okMkParent (a : ParentArgs) : Out ParentOut → Bool
  | .internal => false
  | .refused => emptyLoc a || !validParent a           -- EmptyLocation as `location`: either answer (not documented)
  | .ok o =>
      (emptyLoc a || validParent a) &&
      o.id == firstSome (idsOf a) && o.stype == firstSome (typesOf a) &&
      o.hasParent == ((a.seq.bind (·.par)).isSome || a.par.isSome) &&
      -- `.strand`: the explicit strand, else the location's.  Not judged for a zero-length / empty location without an
      -- explicit strand (the property does not speak about that accessor; a zero-length location is falsy in Python).
      (match a.strand, a.loc with
       | some s, _ => emptyLoc a || o.strand == some s
       | none, some l => l.isEmpty || l.len == 0 || o.strand == some l.strand
       | none, none => o.strand == none)

/-! ### Sequence(data, alphabet, parent) -/

def upperAscii (c : Char) : Char := if 'a' ≤ c ∧ c ≤ 'z' then Char.ofNat (c.toNat - 32) else c

/-- `ploc`: none = no parent; some none = parent without location; some (some n) = parent location of length n -/
def validSeq (alph data : List Char) (ploc : Option (Option Nat)) : Bool :=
  data.all (fun c => alph.contains (upperAscii c)) &&
  (match ploc with
   | some (some n) => n == data.length
   | _ => true)

def okMkSeq (alph data : List Char) (ploc : Option (Option Nat)) : Out Nat → Bool
  | .internal => false
  | .refused => !validSeq alph data ploc
  | .ok n => validSeq alph data ploc && n == data.length

/-! ### CDSInterval(cds_starts, cds_ends, strand, frames_or_phases) -/

/-- frames/phases as given: (isFrame, value) -/
abbrev FPv := Bool × Int

def validBlocks (starts ends : List Int) : Bool :=
  starts.length == ends.length && decide (0 < starts.length) && (starts.zip ends).all blockOk

/-- the lists are given in ascending, non-overlapping order (what every example of the documentation does).
    The interval classes do not say whether other orders are acceptable: refusing them is allowed, building an
    ill-formed object from them is not. -/
def ascending : List IBlk → Bool
  | a :: b :: rest => decide (a.2 ≤ b.1) && ascending (b :: rest)
  | _ => true

def validCDS (starts ends : List Int) (fps : List FPv) : Bool :=
  validBlocks starts ends && fps.length == starts.length && decide (0 < totalLen (starts.zip ends)) &&
  (match fps with
   | [] => true
   | f :: rest => rest.all (fun g => g.1 == f.1))

/-- GFF3 phase ↦ frame -/
def phaseToFrameV (v : Int) : Int := if v = 1 then 2 else if v = 2 then 1 else v

def frameOf (f : FPv) : Int := if f.1 then f.2 else phaseToFrameV f.2

def okMkCDS (starts ends : List Int) (fps : List FPv) : Out (Int × Int × List Int) → Bool
  | .internal => false
  | .refused => !(validCDS starts ends fps && ascending (starts.zip ends))
  | .ok (s, e, fr) =>
      validCDS starts ends fps && s == minStartI (starts.zip ends) && e == maxEndI (starts.zip ends) &&
      fr == fps.map frameOf

/-! ### TranscriptInterval(exon_starts, exon_ends, strand, cds_starts, cds_ends, cds_frames) -/

/-- one pass over the exons: an exon containing position `p` moves `p` to its end -/
def advance (exons : List IBlk) (p : Int) : Int :=
  exons.foldl (fun q x => if x.1 ≤ q ∧ q < x.2 then x.2 else q) p

def advanceN (exons : List IBlk) : Nat → Int → Int
  | 0, p => p
  | k+1, p => advanceN exons k (advance exons p)

/-- every position of `[a, b)` lies in some exon (adjacent / overlapping exons may share the work) -/
def coveredBy (exons : List IBlk) (a b : Int) : Bool := decide (b ≤ advanceN exons exons.length a)

/-- a CDS block lies in the exons: a non-empty block is covered position by position, an empty one sits inside
    (or at the edge of) an exon -/
def blockInside (exons : List IBlk) (c : IBlk) : Bool :=
  if c.1 == c.2 then exons.any (fun x => decide (x.1 ≤ c.1) && decide (c.2 ≤ x.2)) else coveredBy exons c.1 c.2

def cdsInsideExons (exons cds : List IBlk) : Bool := cds.all (blockInside exons)

def validTx (exS exE : List Int) (cs ce : Option (List Int)) (cf : Option (List Int)) : Bool :=
  validBlocks exS exE &&
  (match cs, ce, cf with
   | none, none, _ => true
   | some s, some e, some f =>
       validCDS s e (f.map fun v => (true, v)) && cdsInsideExons (exS.zip exE) (s.zip e)
   | _, _, _ => false)

def okMkTx (exS exE : List Int) (cs ce : Option (List Int)) (cf : Option (List Int)) :
    Out (Int × Int × Bool × Int × Int) → Bool
  | .internal => false
  | .refused => !(validTx exS exE cs ce cf && ascending (exS.zip exE) &&
                  (match cs, ce with | some s, some e => ascending (s.zip e) | _, _ => true))
  | .ok (s, e, coding, cdsStart, cdsEnd) =>
      validTx exS exE cs ce cf && s == minStartI (exS.zip exE) && e == maxEndI (exS.zip exE) &&
      coding == cs.isSome &&
      (match cs, ce with
       | some a, some b => cdsStart == minStartI (a.zip b) && cdsEnd == maxEndI (a.zip b)
       | _, _ => cdsStart == 0 && cdsEnd == 0)

/-! ### VariantIntervalCollection of parent-less VariantInterval(start, end) -/

def overlap (a b : IBlk) : Bool := decide (a.1 < b.2) && decide (b.1 < a.2)

def pairwiseDisjoint : List IBlk → Bool
  | [] => true
  | a :: rest => rest.all (fun b => !overlap a b) && pairwiseDisjoint rest

def validVarColl (vs : List IBlk) : Bool :=
  !vs.isEmpty && vs.all (fun v => decide (0 ≤ v.1) && decide (v.1 < v.2)) && pairwiseDisjoint vs

def okMkVarColl (vs : List IBlk) : Out (Int × Int) → Bool
  | .internal => false
  | .refused => !validVarColl vs
  | .ok (s, e) => validVarColl vs && s == minStartI vs && e == maxEndI vs

/-! ### Location.scan_windows(window_size, step_size, start_pos) -/

def validScan (directional : Bool) (n w step sp : Int) : Bool :=
  directional && decide (0 ≤ sp) && decide (sp < n) && decide (1 ≤ w) && decide (1 ≤ step) && decide (sp + w ≤ n)

/-- `k` windows: window `k-1` (hence every earlier one, the step being positive) still fits, window `k` does not -/
def okScanWin (directional : Bool) (n w step sp : Int) : Out Nat → Bool
  | .internal => false
  | .refused => !validScan directional n w step sp
  | .ok k => validScan directional n w step sp && decide (1 ≤ k) &&
      decide (sp + ((k : Int) - 1) * step + w ≤ n) && decide (n < sp + (k : Int) * step + w)

/-! ### VariantInterval(start, end, sequence) -/

def validVar (alph : List Char) (s e : Int) (alt : List Char) : Bool :=
  decide (0 ≤ s) && decide (s < e) && alt.all (fun c => alph.contains (upperAscii c))

def okMkVar (alph : List Char) (s e : Int) (alt : List Char) : Out (Int × Int) → Bool
  | .internal => false
  | .refused => !validVar alph s e alt
  | .ok (s', e') => validVar alph s e alt && s' == s && e' == e

/-! ### FeatureInterval(interval_starts, interval_ends, strand, qualifiers) -/

/-- qualifiers argument: None / something that is not a dict (truthy or not) / a dict (per value: is it a list?) -/
inductive QS where
  | none
  | notDict (truthy : Bool)
  | dict (valuesAreLists : List Bool)

/-- the documented shape is `Dict[Hashable, List]`; an EMPTY value of another type is tolerated (it carries nothing) -/
def validQual : QS → Bool
  | .none => true
  | .notDict t => !t
  | .dict vals => vals.all id

def okMkFeature (starts ends : List Int) (q : QS) : Out (Int × Int) → Bool
  | .internal => false
  | .refused => !(validBlocks starts ends && validQual q && ascending (starts.zip ends))
  | .ok (s, e) => validBlocks starts ends && validQual q && s == minStartI (starts.zip ends) && e == maxEndI (starts.zip ends)

/-! ### GeneInterval(transcripts, qualifiers) / FeatureIntervalCollection(feature_intervals, qualifiers) -/

/-- child as read by the collection: (start, end, guid, primary flag) -/
abbrev ChildS := Int × Int × Nat × Bool

def distinctNat : List Nat → Bool
  | [] => true
  | g :: rest => !rest.contains g && distinctNat rest

def validColl (cs : List ChildS) (q : QS) : Bool :=
  !cs.isEmpty && validQual q && cs.all (fun c => decide (0 ≤ c.1) && decide (c.1 ≤ c.2.1)) &&
  distinctNat (cs.map (·.2.2.1)) && decide ((cs.filter (·.2.2.2)).length ≤ 1)

def okMkColl (cs : List ChildS) (q : QS) : Out (Int × Int) → Bool
  | .internal => false
  | .refused => !validColl cs q
  | .ok (s, e) => validColl cs q && s == minStartI (cs.map fun c => (c.1, c.2.1)) && e == maxEndI (cs.map fun c => (c.1, c.2.1))

/-! ### AnnotationCollection(children, start, end) -/

def validAnnot (start endp : Option Int) (kids : List ChildS) : Bool :=
  (start.isSome == endp.isSome) &&
  (match start, endp with
   | some s, some e => decide (0 ≤ s) && decide (s ≤ e)
   | _, _ => true) &&
  kids.all (fun c => decide (0 ≤ c.1) && decide (c.1 ≤ c.2.1)) && distinctNat (kids.map (·.2.2.1))

/-- `none` = an empty collection without bounds -/
def okMkAnnot (start endp : Option Int) (kids : List ChildS) : Out (Option (Int × Int)) → Bool
  | .internal => false
  | .refused => !validAnnot start endp kids
  | .ok none => validAnnot start endp kids && start.isNone && kids.isEmpty
  | .ok (some (s, e)) =>
      validAnnot start endp kids &&
      (match start, endp with
       | some a, some b => s == a && e == b
       | _, _ => !kids.isEmpty && s == minStartI (kids.map fun c => (c.1, c.2.1)) && e == maxEndI (kids.map fun c => (c.1, c.2.1)))

/-! ### Codon(str) -/

def validCodon (alph : List Char) (s : List Char) : Bool :=
  s.length == 3 && s.all (fun c => alph.contains (upperAscii c))

def okMkCodon (alph : List Char) (s : List Char) : Out (List Char) → Bool
  | .internal => false
  | .refused => !validCodon alph s
  | .ok v => validCodon alph s && v == s.map upperAscii

/-! ### Strand.from_int / CDSFrame.from_int / CDSPhase.from_int / Strand.from_symbol -/

/-- answered with the member whose `.value` is the argument; ValueError for every other int -/
def okFromInt (members : List Int) (v : Int) : Out Int → Bool
  | .internal => false
  | .refused => !members.contains v
  | .ok x => members.contains v && x == v

def symbolOf : Strand → List Char
  | .plus => ['+'] | .minus => ['-'] | .unstranded => ['.']

def okFromSymbol (s : List Char) : Out Strand → Bool
  | .internal => false
  | .refused => !(s == ['+'] || s == ['-'] || s == ['.'])
  | .ok st => symbolOf st == s

/-! ### Sequence.append of two located pieces of one parent -/

/-- what `a.append(b)` answered -/
inductive AppendOut where
  | data (len : Nat) (textOk : Bool)                                   -- data_only: no parent recorded
  | located (len : Nat) (st : Strand) (blocks : List IBlk) (textOk : Bool)  -- textOk: text = pieces joined = reading of `blocks`
  | unlocated (len : Nat) (textOk : Bool)
  | refused
  | internal

/-- pieces `[a1,b1)` then `[a2,b2)` (both non-empty) read on strands st1 / st2: the documentation of `append` requires
    equal directional strands and that the appended piece FOLLOWS the first one in reading direction without
    overlapping it (plus: to its right; minus: to its left) -/
def appendMustRefuse (st1 : Strand) (a1 b1 : Int) (st2 : Strand) (a2 b2 : Int) (dataOnly : Bool) : Bool :=
  !dataOnly && (st1 != st2 || st1 == .unstranded || (st1 == .plus && decide (b1 > a2)) || (st1 == .minus && decide (a1 < b2)))

def coversI (bs : List IBlk) (p : Int) : Bool := bs.any (fun b => decide (b.1 ≤ p) && decide (p < b.2))

def okAppend (n : Nat) (st1 : Strand) (a1 b1 : Int) (st2 : Strand) (a2 b2 : Int) (dataOnly : Bool) : AppendOut → Bool
  | .internal => false
  | .refused => appendMustRefuse st1 a1 b1 st2 a2 b2 dataOnly
  | .data len ok => dataOnly && ok && (len : Int) == (b1 - a1) + (b2 - a2)
  | .unlocated _ _ => false                     -- located operands: the result must record a location (or be refused)
  | .located len st bs ok =>
      !dataOnly && !appendMustRefuse st1 a1 b1 st2 a2 b2 false && ok && st == st1 &&
      (len : Int) == (b1 - a1) + (b2 - a2) &&                       -- nothing lost, nothing doubled
      (len : Int) == totalLen bs &&                                  -- len(data) = len(parent.location)
      bs.all (fun b => decide (0 ≤ b.1) && decide (b.1 ≤ b.2) && decide (b.2 ≤ (n : Int))) &&
      (List.range (n + 1)).all (fun (p : Nat) => coversI bs (p : Int) == coversI [(a1, b1), (a2, b2)] (p : Int))

/-! ### multi-operand operations over a pool of parent kinds -/

/-- plain descriptor of one level of a parent chain (numbers name distinct values): id, sequence type, sequence, and
    where the level below sits on this level (strand code, start, end) -/
structure PL where
  id : Option Nat
  ty : Option Nat
  seq : Option Nat
  loc : Option (Nat × Nat × Nat)
  deriving DecidableEq

/-- a parent with its ancestors; `[]` = no parent.  The first level never carries a location: where the OPERAND sits on
    its parent is the one thing the operations are allowed to ignore. -/
abbrev PD := List PL

/-- the pool (same order as `impl_validate.parent_kind`): none; id; id+type; id+other type; id+sequence; id+other
    sequence; id+grand-parent A; id+grand-parent B; no id, type X; no id, type Y; then parents that sit on the SAME
    grand-parent at [0,10)+ / [20,30)+ / [0,10)- (10-12), the same with a sequence on the parent (13, 14), and depth 3
    with the grand-parent at two places of a great-grand-parent (15, 16) -/
def parentKinds : List PD :=
  [[], [⟨some 0, none, none, none⟩], [⟨some 0, some 0, none, none⟩], [⟨some 0, some 1, none, none⟩],
   [⟨some 0, none, some 0, none⟩], [⟨some 0, none, some 1, none⟩],
   [⟨some 0, none, none, none⟩, ⟨some 1, none, none, none⟩], [⟨some 0, none, none, none⟩, ⟨some 2, none, none, none⟩],
   [⟨none, some 2, none, none⟩], [⟨none, some 3, none, none⟩],
   [⟨some 0, none, none, none⟩, ⟨some 3, some 0, none, some (1, 0, 10)⟩],
   [⟨some 0, none, none, none⟩, ⟨some 3, some 0, none, some (1, 20, 30)⟩],
   [⟨some 0, none, none, none⟩, ⟨some 3, some 0, none, some (2, 0, 10)⟩],
   [⟨some 0, none, some 0, none⟩, ⟨some 3, some 0, none, some (1, 0, 10)⟩],
   [⟨some 0, none, some 0, none⟩, ⟨some 3, some 0, none, some (1, 20, 30)⟩],
   [⟨some 0, none, none, none⟩, ⟨some 3, some 0, none, some (1, 0, 10)⟩, ⟨some 4, none, none, some (1, 0, 50)⟩],
   [⟨some 0, none, none, none⟩, ⟨some 3, some 0, none, some (1, 0, 10)⟩, ⟨some 4, none, none, some (1, 100, 150)⟩]]

/-- from_single_intervals: the chains must be identical -/
def pdStrict (a b : PD) : Bool := decide (a = b)

/-- the binary operations must refuse whenever the chains differ in anything (the first level has no location in a
    descriptor) - except that an ancestor present on one side only is tolerated: `Parent.equals_except_location` is
    documented (DESIGN §3, C02/C04) to compare ancestors only when both sides have one.  Compared levels must agree in
    EVERY field, the location on the ancestor included. -/
def pdTolerant : PD → PD → Bool
  | [], [] => true
  | x :: xs, y :: ys => decide (x = y) && (xs.isEmpty || ys.isEmpty || pdTolerant xs ys)
  | _, _ => false

def allPairs (p : PD → PD → Bool) : List PD → Bool
  | [] => true
  | a :: rest => rest.all (p a) && allPairs p rest

inductive GridOut where
  | okWf | illformed | refused | internal

/-- which parent rule an operation is held to -/
inductive PRule where
  | fsi        -- from_single_intervals: every descriptor field equal, any number of operands
  | mkpar      -- Parent(sequence.parent vs parent): compared only when both are present
  | binary     -- union / intersection / minus / contains / has_overlap (strict) / distance_to / location_relative_to / append
  deriving DecidableEq, Repr

/-- operands on incompatible parents must be refused; compatible ones must not be -/
def pconsMustRefuse (r : PRule) (ks : List PD) : Bool :=
  match r with
  | .fsi => !allPairs pdStrict ks
  | .mkpar => (match ks with | [a, b] => !a.isEmpty && !b.isEmpty && !pdTolerant a b | _ => false)
  | .binary => (match ks with | [a, b] => !pdTolerant a b | _ => false)

def okPcons (r : PRule) (ks : List PD) : GridOut → Bool
  | .internal => false
  | .illformed => false
  | .refused => pconsMustRefuse r ks
  | .okWf => !pconsMustRefuse r ks

/-! ### the hierarchy handed to an interval / collection constructor as `parent_or_seq_chunk_parent` -/

/-- sequence type of one level, as far as the documentation of the interval classes distinguishes -/
inductive HTy where
  | untyped | chromosome | chunk | other
  deriving DecidableEq, Repr

/-- one level of a hierarchy: its type, whether it carries a sequence, and whether it records where it sits on the
    level above it (`located`; false on the top level) -/
structure HL where
  ty : HTy
  hasSeq : Bool
  located : Bool
  deriving DecidableEq, Repr

/-- bottom-up; `[]` = no parent -/
abbrev HD := List HL

/-- the refusal classes the class documentation names for a hierarchy -/
inductive HErr where
  | NoSuchAncestor | NullSequence | otherDocumented
  deriving DecidableEq, Repr

/-- what the documentation (`AbstractInterval.liftover_location_to_seq_chunk_parent`, the class docs of the interval
    classes and of `AnnotationCollection`) demands of a constructor given this hierarchy -/
inductive HExpect where
  | accept
  | refuse (classes : List HErr) (anyDocumented : Bool)
  deriving DecidableEq, Repr

/-- A hierarchy without a sequence chunk ("a whole genome, or something unknown") is taken as it is.  With a
    sequence chunk in it the chunk must have a chromosome ABOVE it (else NoSuchAncestorException), must carry the
    chunk's sequence (else NullSequenceException) and must say where it sits on the level above (no class is named for
    that: any documented class; a chunk without any level above does not say so either). -/
def hierExpect (hd : HD) : HExpect :=
  match hd.dropWhile (fun l => l.ty != .chunk) with
  | [] => .accept
  | c :: above =>
      let noChrom := !above.any (fun l => l.ty == .chromosome)
      let noSeq := !c.hasSeq
      let unlocated := !c.located
      if noChrom || noSeq || unlocated then
        .refuse ((if noChrom then [.NoSuchAncestor] else []) ++ (if noSeq then [.NullSequence] else [])) unlocated
      else .accept

/-- the pool (same order as `impl_validate.hier_kind`): no parent; chromosome with / without sequence; untyped with /
    without sequence; a plasmid with its sequence; the documented chunk on a chromosome (6); a chunk without any parent;
    chunks cut from a plasmid / an untyped sequence / another chunk; a chunk level without sequence; a chunk that does
    not say where it sits on its chromosome; a chunk on a contig on a chromosome (depth 3); an untyped parent that
    already carries a child location; a chunk on the minus strand; a chunk whose chromosome carries its own sequence; a
    bare chunk-typed parent; a chromosome located INSIDE a chunk; the chunk of (6) with its place written as
    `Parent(id, sequence_type, location)` -/
def hierKinds : List HD :=
  [[], [⟨.chromosome, true, false⟩], [⟨.chromosome, false, false⟩], [⟨.untyped, true, false⟩], [⟨.untyped, false, false⟩],
   [⟨.other, true, false⟩],
   [⟨.chunk, true, true⟩, ⟨.chromosome, false, false⟩],
   [⟨.chunk, true, false⟩],
   [⟨.chunk, true, true⟩, ⟨.other, false, false⟩],
   [⟨.chunk, true, true⟩, ⟨.untyped, false, false⟩],
   [⟨.chunk, true, true⟩, ⟨.chunk, false, false⟩],
   [⟨.chunk, false, true⟩, ⟨.chromosome, false, false⟩],
   [⟨.chunk, true, false⟩, ⟨.chromosome, false, false⟩],
   [⟨.chunk, true, true⟩, ⟨.other, false, true⟩, ⟨.chromosome, false, false⟩],
   [⟨.untyped, false, false⟩],
   [⟨.chunk, true, true⟩, ⟨.chromosome, false, false⟩],
   [⟨.chunk, true, true⟩, ⟨.chromosome, true, false⟩],
   [⟨.chunk, false, false⟩],
   [⟨.chromosome, true, true⟩, ⟨.chunk, true, false⟩],
   [⟨.chunk, true, true⟩, ⟨.chromosome, false, false⟩]]

/-- what a constructor call on a hierarchy ended in -/
inductive HOut where
  | okWf | illformed | refused (c : HErr) | internal
  deriving DecidableEq, Repr

def okHier (hd : HD) : HOut → Bool
  | .internal => false
  | .illformed => false
  | .okWf => hierExpect hd == .accept
  | .refused c =>
      -- a documented refusal of a hierarchy the documentation allows is outside this property (C19 asks that INVALID
      -- input is refused and that nothing ill-formed / no internal error comes out of valid input)
      match hierExpect hd with
      | .accept => true
      | .refuse cs anyDoc => anyDoc || cs.contains c

/-! ### zero-argument members of a valid object -/

/-- what a (valid) object has to work with -/
structure Res where
  hasParent : Bool      -- a parent of any kind
  hasSeq : Bool         -- a sequence to read bases from
  directional : Bool    -- strand + or -
  coding : Bool         -- a CDS (transcripts, genes); true for the classes that have no such notion
  inside : Bool         -- lies completely inside its sequence chunk (true without a chunk)
  nonEmpty : Bool       -- covers at least one base

/-- A property or a method without arguments of a VALID object: every class of the library's own exception hierarchy
    is a documented answer (the property allows "a well-formed value or such a documented exception"; whether the
    refusal is the RIGHT answer is the subject of the property that owns the member: C05 for codons, C07 for chunks, ...).
    The builtin ValueError / TypeError are documented only where a docstring says so, and the docstrings say so about
    ARGUMENTS: they are not an answer to a call that has none. -/
def zeroArgRefusalAllowed (_r : Res) (c : String) : Bool :=
  !(c == "ValueError" || c == "TypeError")

/-! ### grid lines: `ok wf` or a documented class -/

def documented : List String :=
  ["InvalidPosition", "InvalidStrand", "ValueError", "TypeError", "EmptyLocation", "LocationOverlap", "Location",
   "NullParent", "MismatchedParent", "NoSuchAncestor", "NullSequence", "Parent", "UnsupportedOperation",
   "InvalidCDSInterval", "MismatchedFrame", "NoncodingTranscript", "Validation", "InvalidAnnotation", "InvalidQuery",
   "Alphabet", "Export", "NotImplemented", "EmptySequenceFasta"]

end BioCantor.Spec.Validate
