/-
  C08 — vocabulary and reference semantics for "identifiers are deterministic functions of content".

  * `PyVal`: the small universe of Python values that reach `digest_object` / `to_dict`, together with Python's
    `str()` / `repr()` renderings of them (ints, strs, None, bools, UUIDs, lists, sets, dicts; every other object —
    enum members, locations, sequences, floats — is `obj s r`, given by its `str()` and `repr()`).
    This is Python semantics (shared vocabulary), not BioCantor code.
  * `refTokens`: the REFERENCE token stream, written from the docstring of `util/hashing.py: digest_object`
    ("objects are unpacked and their string representations digested; sets are sorted lexicographically after
    conversion to string; dictionaries are searched recursively, in the order of their sorted keys; the argument
    names of kwargs are part of the hash"), NOT from the code: canonical ordering is by INSERTION into a sorted
    list, the traversal is a plain structural recursion.
  * decidable predicates on (input, observed answer) pairs for the spec driver.

  Strings are `List Char`; string order is Python's (code points), `Spec.Qual.strLt`.
-/
import BioCantor.Base
import BioCantor.Spec.Qualifiers
namespace BioCantor.Spec.Digest
open BioCantor
open BioCantor.Spec.Qual (Str strLt strLe)

/-- Python values.  `set` / `dict` carry their members in ITERATION order (for a dict = insertion order; for a set =
    whatever order the interpreter happens to use — nothing may depend on it). -/
inductive PyVal where
  | none
  | bool (b : Bool)
  | int (n : Int)
  | str (s : Str)
  | uuid (hex : Str)               -- 32 lower-case hex digits
  | obj (s r : Str)                -- any other object: its `str()` and its `repr()`
  | list (vs : List PyVal)
  | set (vs : List PyVal)
  | dict (kvs : List (Str × PyVal))
  deriving Repr, Inhabited

/-! ### Python renderings -/

/-- decimal digits of a natural number (Lean's `Nat.toDigits 10`) -/
def natStr (n : Nat) : Str := Nat.toDigits 10 n

/-- `str(int)` -/
def intStr : Int → Str
  | .ofNat n => natStr n
  | .negSucc n => '-' :: natStr (n + 1)

def hexDigitLower (n : Nat) : Char := if n < 10 then Char.ofNat (n + 48) else Char.ofNat (n - 10 + 97)

/-- characters Python's `repr` keeps as they are (ASCII printable; non-ASCII assumed printable except the C1
    block, NBSP and the soft hyphen) -/
def isPrintable (c : Char) : Bool :=
  let n := c.toNat
  (32 ≤ n && n < 127) || (161 ≤ n && n != 173)

/-- one character inside `repr(str)` with quote character `q` -/
def reprChar (q : Char) (c : Char) : Str :=
  if c == '\\' then ['\\', '\\']
  else if c == q then ['\\', q]
  else if c == '\n' then ['\\', 'n']
  else if c == '\r' then ['\\', 'r']
  else if c == '\t' then ['\\', 't']
  else if isPrintable c then [c]
  else ['\\', 'x', hexDigitLower (c.toNat / 16 % 16), hexDigitLower (c.toNat % 16)]

/-- `repr(str)`: single quotes unless the string contains a single quote and no double quote -/
def reprStr (s : Str) : Str :=
  let q : Char := if s.contains '\'' && !s.contains '"' then '"' else '\''
  q :: (s.flatMap (reprChar q) ++ [q])

/-- `", ".join(parts)` -/
def joinComma : List Str → Str
  | [] => []
  | [x] => x
  | x :: y :: rest => x ++ ',' :: ' ' :: joinComma (y :: rest)

def bracket (l r : Char) (parts : List Str) : Str := l :: (joinComma parts ++ [r])

/-- `str(uuid.UUID)`: 8-4-4-4-12 -/
def uuidStr (h : Str) : Str :=
  h.take 8 ++ '-' :: (h.drop 8).take 4 ++ '-' :: (h.drop 12).take 4 ++ '-' :: (h.drop 16).take 4 ++ '-' :: h.drop 20

mutual
/-- `repr(v)` -/
def pyRepr : PyVal → Str
  | .none => "None".toList
  | .bool true => "True".toList
  | .bool false => "False".toList
  | .int n => intStr n
  | .str s => reprStr s
  | .uuid h => "UUID('".toList ++ uuidStr h ++ "')".toList
  | .obj _ r => r
  | .list vs => bracket '[' ']' (reprList vs)
  | .set [] => "set()".toList
  | .set (v :: vs) => bracket '{' '}' (reprList (v :: vs))
  | .dict kvs => bracket '{' '}' (reprEntries kvs)
def reprList : List PyVal → List Str
  | [] => []
  | v :: vs => pyRepr v :: reprList vs
def reprEntries : List (Str × PyVal) → List Str
  | [] => []
  | (k, v) :: rest => (reprStr k ++ ':' :: ' ' :: pyRepr v) :: reprEntries rest
end

/-- `str(v)`: differs from `repr` for strings, UUIDs and objects with their own `__str__` -/
def pyStr : PyVal → Str
  | .str s => s
  | .uuid h => uuidStr h
  | .obj s _ => s
  | v => pyRepr v

/-- `str(list_of_str)`, the rendering of an ordered set -/
def strOfStrList (l : List Str) : Str := bracket '[' ']' (l.map reprStr)

/-! ### well-formedness: a Python dict has pairwise distinct keys (at every depth) -/

def keysDistinct : List (Str × PyVal) → Bool
  | [] => true
  | e :: es => !(es.any (·.1 == e.1)) && keysDistinct es

mutual
def wfVal : PyVal → Bool
  | .dict kvs => keysDistinct kvs && wfEntries kvs
  | .list vs => wfList vs
  | .set vs => wfList vs
  | _ => true
def wfList : List PyVal → Bool
  | [] => true
  | v :: vs => wfVal v && wfList vs
def wfEntries : List (Str × PyVal) → Bool
  | [] => true
  | (_, v) :: rest => wfVal v && wfEntries rest
end

/-! ### "equal content" -/

/-- Two Python values have the SAME CONTENT when they differ only in the iteration order of sets and in the
    insertion order of dictionaries, at any nesting depth below dictionaries (generated by: permuting the members of
    a set, permuting the entries of a dict, replacing one dict value by one of the same content, transitivity).
    Lists are ordered containers: their members must be identical. -/
inductive SameContent : PyVal → PyVal → Prop
  | refl (v : PyVal) : SameContent v v
  | set {a b : List PyVal} : a.Perm b → SameContent (.set a) (.set b)
  | dictPerm {a b : List (Str × PyVal)} : a.Perm b → SameContent (.dict a) (.dict b)
  | dictVal {p s : List (Str × PyVal)} {k : Str} {v w : PyVal} :
      SameContent v w → SameContent (.dict (p ++ (k, v) :: s)) (.dict (p ++ (k, w) :: s))
  | trans {u v w : PyVal} : SameContent u v → SameContent v w → SameContent u w

/-- element-wise relation of two lists of the same length -/
inductive Forall₂ {α β : Type} (R : α → β → Prop) : List α → List β → Prop
  | nil : Forall₂ R [] []
  | cons {a b l₁ l₂} : R a b → Forall₂ R l₁ l₂ → Forall₂ R (a :: l₁) (b :: l₂)

/-- Two qualifier dictionaries as handed to a constructor (`{key: [values]}`) have the same content when one is
    obtained from the other by re-inserting the keys in another order and replacing each value list by any list with
    the same `str()`-ed members (other order, repetitions). -/
def SameRawQuals (q q' : List (Str × List PyVal)) : Prop :=
  ∃ q'', Forall₂ (fun e e' => e.1 = e'.1 ∧ ∀ x, x ∈ e.2.map pyStr ↔ x ∈ e'.2.map pyStr) q q'' ∧ q''.Perm q'

/-- lists hold only atoms (no set / dict below a list): `str(list)` then never shows an unordered container -/
def atomic : PyVal → Bool
  | .list _ => false
  | .set _ => false
  | .dict _ => false
  | _ => true

mutual
def listsAtomic : PyVal → Bool
  | .list vs => vs.all atomic
  | .set vs => vs.all atomic
  | .dict kvs => entriesAtomic kvs
  | _ => true
def entriesAtomic : List (Str × PyVal) → Bool
  | [] => true
  | (_, v) :: rest => listsAtomic v && entriesAtomic rest
end

/-! ### reference token stream -/

/-- insert into a list kept in ascending order -/
def insertStr (x : Str) : List Str → List Str
  | [] => [x]
  | y :: ys => if strLe x y then x :: y :: ys else y :: insertStr x ys

/-- the members of a set as strings, ascending -/
def canonSet (vs : List PyVal) : List Str := vs.foldr (fun v acc => insertStr (pyStr v) acc) []

/-- insert a (key, tokens) pair into a list kept in ascending key order -/
def insertEntry (e : Str × List Str) : List (Str × List Str) → List (Str × List Str)
  | [] => [e]
  | y :: ys => if strLe e.1 y.1 then e :: y :: ys else y :: insertEntry e ys

mutual
/-- what one argument / one dictionary value contributes -/
def refMember : PyVal → List Str
  | .dict kvs => (refEntries kvs).flatMap fun e => e.1 :: e.2
  | .set vs => [strOfStrList (canonSet vs)]
  | v => [pyStr v]
/-- (key, contribution) pairs of a dictionary, ascending by key -/
def refEntries : List (Str × PyVal) → List (Str × List Str)
  | [] => []
  | (k, v) :: rest => insertEntry (k, refMember v) (refEntries rest)
end

/-- the strings handed to MD5, in order: positional arguments, then keyword arguments by sorted name -/
def refTokens (args : List PyVal) (kwargs : List (Str × PyVal)) : List Str :=
  args.flatMap refMember ++ refMember (.dict kwargs)

/-- the bytes MD5 sees (before UTF-8 encoding): tokens are concatenated WITHOUT separators -/
def concatTokens (ts : List Str) : Str := ts.flatten

/-! ### predicates for the spec driver -/

/-- `tokens`: the observed stream is the reference stream -/
def okTokens (args : List PyVal) (kwargs : List (Str × PyVal)) (ans : Option (List Str)) : Bool :=
  match ans with
  | none => false
  | some ts => ts == refTokens args kwargs

/-- `tokeq`: two content-equal argument lists (the second a re-ordering of set members / dict entries of the first)
    must produce the same stream -/
def okSameStream (ans : Option (List Str × List Str)) : Bool :=
  match ans with
  | none => false
  | some (a, b) => a == b

/-- qualifier import/export, one dictionary `{key: [values]}` (values already `str()`-ed by the caller):
    exported = `None` for an empty dictionary, otherwise the same keys in the same order, each value list strictly
    ascending with exactly the members of the input list. -/
def okQExport (q : List (Str × List Str)) (ans : Option (Option (List (Str × List Str)))) : Bool :=
  match ans with
  | none => false
  | some none => q.isEmpty
  | some (some out) =>
    !q.isEmpty && out.map (·.1) == q.map (·.1) &&
    (out.zip q).all fun p => Qual.sortedStrict p.1.2 && Qual.sameSet p.1.2 p.2.2

/-- round-trip / determinism / sensitivity clauses evaluated on the real objects: the implementation side lists
    the violated clauses; the property demands none. -/
def okClean (ans : List String) : Bool := ans == ["ok", "clean"]

end BioCantor.Spec.Digest
