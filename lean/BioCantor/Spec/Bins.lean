/-
  The UCSC binning scheme, stated declaratively (Kent et al. 2002, Fig. 7; extended offsets):
  level L ∈ {0..4} has windows of size 2^(17+3L); window i of level L is numbered `offset L + i`.
-/
import BioCantor.Base
namespace BioCantor.Spec
open BioCantor

def binWindowSize : Nat → Int
  | 0 => 131072 | 1 => 1048576 | 2 => 8388608 | 3 => 67108864 | _ => 536870912

def binOffset : Nat → Int
  | 0 => 4681 | 1 => 585 | 2 => 73 | 3 => 9 | _ => 1

/-- window `i` of level `L` contains coordinate `x` -/
def inWindow (L : Nat) (i x : Int) : Prop := i * binWindowSize L ≤ x ∧ x < (i + 1) * binWindowSize L

/-- `b` is the number of the smallest window that contains both (inclusive) coordinates `lo` and `hi` -/
def IsSmallestBin (lo hi b : Int) : Prop :=
  ∃ L : Nat, L ≤ 4 ∧ ∃ i : Int, b = binOffset L + i ∧ inWindow L i lo ∧ inWindow L i hi ∧
    ∀ L' : Nat, L' < L → ∀ j : Int, ¬ (inWindow L' j lo ∧ inWindow L' j hi)

/-- executable form used by the spec driver: least level at which both coordinates share a window -/
def binOf (lo hi : Int) : Int :=
  if lo / 131072 = hi / 131072 then 4681 + lo / 131072
  else if lo / 1048576 = hi / 1048576 then 585 + lo / 1048576
  else if lo / 8388608 = hi / 8388608 then 73 + lo / 8388608
  else if lo / 67108864 = hi / 67108864 then 9 + lo / 67108864
  else 1

/-- expected answer of `bins(start, stop, fmt, one=True)`; `off` = 0 for bed, 1 for gff -/
def expectBin (start stop off : Int) : Int :=
  if start ≥ 536870912 ∨ stop ≥ 536870912 ∨ start - off < 0 ∨ stop < 0 then 1
  else binOf (start - off) stop

end BioCantor.Spec

namespace BioCantor.Spec

/-- sorted, merged inclusive runs (canonical form of a finite set of ints given as ranges) -/
def insertRun (r : Int × Int) : List (Int × Int) → List (Int × Int)
  | [] => [r]
  | x :: xs => if r.1 ≤ x.1 then r :: x :: xs else x :: insertRun r xs

def sortRuns : List (Int × Int) → List (Int × Int)
  | [] => []
  | r :: rs => insertRun r (sortRuns rs)

def mergeRuns : List (Int × Int) → List (Int × Int)
  | [] => []
  | [r] => [r]
  | a :: b :: rest =>
    if b.1 ≤ a.2 + 1 then mergeRuns ((a.1, max a.2 b.2) :: rest) else a :: mergeRuns (b :: rest)
termination_by l => l.length

def normRuns (rs : List (Int × Int)) : List (Int × Int) :=
  mergeRuns (sortRuns (rs.filter (fun r => decide (r.1 ≤ r.2))))

/-- expected answer of `bins(start, stop, fmt, one=False)`: bin 1 plus, at every level, the windows
    from the one holding the (format-adjusted) start to the one holding the stop; a stop past the
    binned range is treated as the end of that range; invalid input gives {1}. -/
def rawBinSet (start stop off : Int) : List (Int × Int) :=
  if start ≥ 536870912 ∨ start - off < 0 ∨ stop < 0 then [(1, 1)]
  else
    let hi := if stop ≥ 536870912 then 536870911 else stop
    let lo := start - off
    [(1, 1), (4681 + lo / 131072, 4681 + hi / 131072), (585 + lo / 1048576, 585 + hi / 1048576),
     (73 + lo / 8388608, 73 + hi / 8388608), (9 + lo / 67108864, 9 + hi / 67108864),
     (1 + lo / 536870912, 1 + hi / 536870912)]

def expectBinSet (start stop off : Int) : List (Int × Int) := normRuns (rawBinSet start stop off)

end BioCantor.Spec
