/-
  Reference reader for BED12 lines and the C14 property as a decidable predicate.

  Written from the format description only (UCSC BED: 12 tab separated columns; columns 2,3,5,7,8,10 are
  unsigned decimal integers; column 9 is `r,g,b`; columns 11/12 are comma separated unsigned integers;
  blockStarts are relative to chromStart) — nothing here looks at how the library produces a line.
  Sequences of characters are `List Char` (never `String`) so that statements about them are decidable
  by evaluation.
-/
import BioCantor.Base
namespace BioCantor.Spec.Bed
open BioCantor

/-! ### an independent 12-column decoder -/

/-- split at every occurrence of `sep` (like `str.split(sep)`: n separators give n+1 fields) -/
def splitAux (sep : Char) : List Char → List Char → List (List Char)
  | acc, [] => [acc.reverse]
  | acc, c :: cs => if c = sep then acc.reverse :: splitAux sep [] cs else splitAux sep (c :: acc) cs

def splitOn (sep : Char) (l : List Char) : List (List Char) := splitAux sep [] l

def digitVal : Char → Option Nat
  | '0' => some 0 | '1' => some 1 | '2' => some 2 | '3' => some 3 | '4' => some 4
  | '5' => some 5 | '6' => some 6 | '7' => some 7 | '8' => some 8 | '9' => some 9
  | _ => none

def parseNatAcc : Nat → List Char → Option Nat
  | acc, [] => some acc
  | acc, c :: cs =>
    match digitVal c with
    | some d => parseNatAcc (acc * 10 + d) cs
    | none => none

/-- unsigned decimal integer: one or more digits, nothing else (a sign makes the field invalid) -/
def parseNat : List Char → Option Nat
  | [] => none
  | c :: cs => parseNatAcc 0 (c :: cs)

def parseStrand : List Char → Option Strand
  | ['+'] => some .plus
  | ['-'] => some .minus
  | ['.'] => some .unstranded
  | _ => none

def parseNats : List (List Char) → Option (List Nat)
  | [] => some []
  | f :: fs =>
    match parseNat f, parseNats fs with
    | some n, some ns => some (n :: ns)
    | _, _ => none

def parseNatList (l : List Char) : Option (List Nat) := parseNats (splitOn ',' l)

/-- the twelve columns -/
structure Row where
  chrom : List Char
  start : Nat
  «end» : Nat
  name : List Char
  score : Nat
  strand : Strand
  thickStart : Nat
  thickEnd : Nat
  rgb : Nat × Nat × Nat
  blockCount : Nat
  blockSizes : List Nat
  blockStarts : List Nat
  deriving DecidableEq, Repr

def decode (line : List Char) : Option Row :=
  match splitOn '\t' line with
  | [c, s, e, n, sc, st, ts, te, rgb, cnt, sizes, starts] =>
    match parseNat s, parseNat e, parseNat sc, parseStrand st, parseNat ts, parseNat te,
          parseNatList rgb, parseNat cnt, parseNatList sizes, parseNatList starts with
    | some s, some e, some sc, some st, some ts, some te, some [r, g, b], some cnt, some sizes, some starts =>
      some ⟨c, s, e, n, sc, st, ts, te, (r, g, b), cnt, sizes, starts⟩
    | _, _, _, _, _, _, _, _, _, _ => none
  | _ => none

/-! ### the format's own invariants -/

/-- strictly ascending -/
def ascending : List Nat → Bool
  | [] => true
  | [_] => true
  | a :: b :: rest => decide (a < b) && ascending (b :: rest)

/-- `last start + last size`, when both lists are non-empty -/
def lastReach (starts sizes : List Nat) : Option Nat :=
  match starts.getLast?, sizes.getLast? with
  | some a, some b => some (a + b)
  | _, _ => none

/-- block count = number of sizes = number of starts (≥ 1); first block start is 0; starts ascending;
    last start + last size = end − start; thick range inside [start, end].
    "Inside" is `start ≤ thickStart ≤ thickEnd ≤ end`.  The one exception is the format's conventional way of
    writing "no thick part" with both columns 0 (UCSC readers treat `0 0` as "no coding region" wherever the
    record starts); any other thick pair outside [start, end] — empty or not — is a violation. -/
def invariants (r : Row) : Bool :=
  decide (r.blockCount = r.blockSizes.length) && decide (r.blockCount = r.blockStarts.length)
  && decide (1 ≤ r.blockCount)
  && decide (r.blockStarts.head? = some 0)
  && ascending r.blockStarts
  && decide (r.start ≤ r.«end»)
  && decide (lastReach r.blockStarts r.blockSizes = some (r.«end» - r.start))
  && decide (r.thickStart ≤ r.thickEnd)
  && ((decide (r.thickStart = 0) && decide (r.thickEnd = 0))
      || (decide (r.start ≤ r.thickStart) && decide (r.thickEnd ≤ r.«end»)))

/-- the blocks a reader reconstructs: `start + blockStarts[i]`, of length `blockSizes[i]` -/
def blocksOf (r : Row) : List Blk :=
  List.zipWith (fun st sz => (r.start + st, r.start + st + sz)) r.blockStarts r.blockSizes

/-- the coding range a reader reconstructs (`none` when the thick range is empty) -/
def cdsOf (r : Row) : Option (Nat × Nat) :=
  if r.thickStart < r.thickEnd then some (r.thickStart, r.thickEnd) else none

/-! ### the property -/

def minStart : List Blk → Option Nat
  | [] => none
  | b :: bs => match minStart bs with | none => some b.1 | some m => some (min b.1 m)

def maxEndOf : List Blk → Option Nat
  | [] => none
  | b :: bs => match maxEndOf bs with | none => some b.2 | some m => some (max b.2 m)

/-- bounds of a coding region given by its blocks: (smallest start, largest end) -/
def spanOf (bs : List Blk) : Option (Nat × Nat) :=
  match minStart bs, maxEndOf bs with
  | some a, some b => some (a, b)
  | _, _ => none

/-- The domain of the property: intervals whose blocks all have bases (non-empty), ascending and non-overlapping —
    `Driver/SpecBed.lean` answers `n/a` otherwise.  (A zero-length block is not an exon; the library itself treats it
    inconsistently: chromosome-mode export writes it, chunk-relative export on a chunk parent drops it.)

    What was exported, in CHROMOSOME coordinates, and the origin `off` of the coordinate system the record
    is to be written in (`0` for chromosome mode, the chunk's chromosome start for chunk-relative mode). -/
structure Want where
  exons : List Blk
  strand : Strand
  cds : Option (Nat × Nat)
  chrom : List Char
  name : List Char
  score : Nat
  rgb : Nat × Nat × Nat
  off : Nat
  /-- chunk-relative export of an interval that has no sequence-chunk ancestor: the documentation of
      `to_bed12` announces NoSuchAncestorException, so a refusal is acceptable there (and only there) -/
  mayRefuse : Bool
  deriving Repr

def shiftUp (off : Nat) (b : Nat × Nat) : Nat × Nat := (b.1 + off, b.2 + off)

/-- C14 on one export: the line decodes as BED12, satisfies the format invariants, and the decoded record
    gives back exactly the blocks, strand, name (and chrom, score, colour) and coding bounds, in the
    coordinate system with origin `off`.  `none` = the call raised. -/
def okBed12 (w : Want) : Option (List Char) → Bool
  | none => w.mayRefuse
  | some line =>
    match decode line with
    | none => false
    | some r =>
      invariants r
      && decide (r.chrom = w.chrom) && decide (r.name = w.name) && decide (r.score = w.score)
      && decide (r.rgb = w.rgb) && decide (r.strand = w.strand)
      && decide ((blocksOf r).map (shiftUp w.off) = w.exons)
      && decide ((cdsOf r).map (shiftUp w.off) = w.cds)

end BioCantor.Spec.Bed
