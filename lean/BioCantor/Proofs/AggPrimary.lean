/-
  C20 helper lemmas, part 2: `_find_primary_feature` — the flag scan and the stable sort on (−cds_size, −len).
-/
import BioCantor.Proofs.AggBasics
namespace BioCantor.Proofs.Agg
open BioCantor BioCantor.Spec.Agg BioCantor.Model.Agg

/-! ### the flag scan -/

def flaggedOf (l : List (Child × Nat)) : List (Child × Nat) := l.filter fun p => p.1.primary

/-- what the scan (repaired test) returns, by the flagged entries still to come -/
def scanResult (cur : Option (Nat × Child)) (fl : List (Child × Nat)) : RA (Option (Nat × Child)) :=
  match fl with
  | [] => .ok cur
  | [p] =>
    match cur with
    | none => .ok (some (p.2, p.1))
    | some _ => .error (.doc .Validation)
  | _ :: _ :: _ => .error (.doc .Validation)

theorem flagScan_repaired : ∀ (l : List (Child × Nat)) (cur : Option (Nat × Child)),
    flagScan Rule.repaired cur l = scanResult cur (flaggedOf l)
  | [], cur => by cases cur <;> rfl
  | (c, i) :: rest, cur => by
    unfold flagScan
    by_cases hp : c.primary = true
    · have hf : flaggedOf ((c, i) :: rest) = (c, i) :: flaggedOf rest := by simp [flaggedOf, hp]
      rw [hf]
      simp only [hp, if_true]
      cases cur with
      | some q =>
        have : flagSet Rule.repaired (some q) = true := by simp [flagSet, Rule.repaired]
        rw [this]
        simp only [if_true]
        cases hr : flaggedOf rest <;> rfl
      | none =>
        have : flagSet Rule.repaired none = false := rfl
        rw [this]
        simp only [Bool.false_eq_true, if_false]
        rw [flagScan_repaired rest]
        cases hr : flaggedOf rest with
        | nil => rfl
        | cons a as => cases as <;> rfl
    · have hf : flaggedOf ((c, i) :: rest) = flaggedOf rest := by simp [flaggedOf, hp]
      rw [hf]
      simp only [hp, Bool.false_eq_true, if_false]
      exact flagScan_repaired rest cur

/-- state invariant of the scan as coded: a held child is truthy -/
def curTruthy : Option (Nat × Child) → Prop
  | none => True
  | some (_, c) => truthyChild c = true

theorem flagScan_coded : ∀ (l : List (Child × Nat)) (cur : Option (Nat × Child)), curTruthy cur →
    (∀ p ∈ l, p.1.primary = true → truthyChild p.1 = true) →
    flagScan Rule.asCoded cur l = flagScan Rule.repaired cur l
  | [], _, _, _ => rfl
  | (c, i) :: rest, cur, hc, hl => by
    unfold flagScan
    have hset : flagSet Rule.asCoded cur = flagSet Rule.repaired cur := by
      cases cur with
      | none => rfl
      | some q =>
        obtain ⟨j, d⟩ := q
        simp only [curTruthy] at hc
        simp [flagSet, Rule.asCoded, Rule.repaired, hc]
    rw [hset]
    by_cases hp : c.primary = true
    · simp only [hp, if_true]
      by_cases hs : flagSet Rule.repaired cur = true
      · simp [hs]
      · simp only [hs, Bool.false_eq_true, if_false]
        exact flagScan_coded rest _ (hl (c, i) List.mem_cons_self hp)
          (fun p hp' => hl p (List.mem_cons_of_mem _ hp'))
    · simp only [hp, Bool.false_eq_true, if_false]
      exact flagScan_coded rest cur hc (fun p hp' => hl p (List.mem_cons_of_mem _ hp'))

/-! ### the sort -/

/-- rows `[key1, len, i, child]` for a given first key -/
def rowsOf (kf : Child → Nat) (cs : List Child) : List (Nat × Nat × Nat × Child) :=
  cs.zipIdx.map fun p => (kf p.1, p.1.len, p.2, p.1)

theorem sizeRows_eq (isTx : Bool) (cs : List Child) :
    sizeRows isTx cs = rowsOf (fun c => if isTx then c.cdsSize else 0) cs := rfl

theorem sizeKeyLe_trans (a b c : Nat × Nat × Nat × Child) :
    sizeKeyLe a b = true → sizeKeyLe b c = true → sizeKeyLe a c = true := by
  simp only [sizeKeyLe, Bool.or_eq_true, decide_eq_true_eq, Bool.and_eq_true, beq_iff_eq]
  omega

theorem sizeKeyLe_total (a b : Nat × Nat × Nat × Child) : (sizeKeyLe a b || sizeKeyLe b a) = true := by
  simp only [sizeKeyLe, Bool.or_eq_true, decide_eq_true_eq, Bool.and_eq_true, beq_iff_eq]
  omega

theorem rowsOf_getElem? (kf : Child → Nat) (cs : List Child) (j : Nat) :
    (rowsOf kf cs)[j]? = (cs[j]?).map fun c => (kf c, c.len, j, c) := by
  unfold rowsOf
  rw [List.getElem?_map, List.getElem?_zipIdx]
  cases cs[j]? <;> simp

theorem rowsOf_keys (kf : Child → Nat) (cs : List Child) :
    (rowsOf kf cs).map (fun r => (r.1, r.2.1)) = cs.map fun c => (kf c, c.len) := by
  unfold rowsOf
  rw [List.map_map]
  have : ((fun r : Nat × Nat × Nat × Child => (r.1, r.2.1)) ∘ fun p : Child × Nat => (kf p.1, p.1.len, p.2, p.1))
      = (fun c => (kf c, c.len)) ∘ Prod.fst := rfl
  rw [this, ← List.map_map, List.zipIdx_map_fst]

/-- the head of the stable sort is the row of the lexicographic argmax with the earliest index -/
theorem sort_head_spec (kf : Child → Nat) (cs : List Child) (hne : cs ≠ []) :
    ∃ p c rest, (rowsOf kf cs).mergeSort sizeKeyLe = (kf c, c.len, p, c) :: rest ∧ cs[p]? = some c ∧
      isArgmaxFirst (cs.map fun c => (kf c, c.len)) p = true := by
  have hlen : ((rowsOf kf cs).mergeSort sizeKeyLe).length = cs.length := by
    simp [rowsOf]
  cases hs : (rowsOf kf cs).mergeSort sizeKeyLe with
  | nil =>
    rw [hs] at hlen
    exact absurd (List.length_eq_zero_iff.mp hlen.symm) hne
  | cons x rest =>
    have hh : ((rowsOf kf cs).mergeSort sizeKeyLe).head? = some x := by rw [hs]; rfl
    rw [head_mergeSort sizeKeyLe_trans sizeKeyLe_total] at hh
    obtain ⟨pre, post, hsplit, hpre, hall⟩ := firstMin_split sizeKeyLe_trans sizeKeyLe_total _ _ hh
    have hx : (rowsOf kf cs)[pre.length]? = some x := by
      rw [hsplit]; simp
    rw [rowsOf_getElem?] at hx
    cases hc : cs[pre.length]? with
    | none => rw [hc] at hx; cases hx
    | some c =>
      rw [hc] at hx
      simp only [Option.map_some, Option.some.injEq] at hx
      refine ⟨pre.length, c, rest, by rw [hx], hc, ?_⟩
      unfold isArgmaxFirst
      rw [← rowsOf_keys, List.getElem?_map, rowsOf_getElem?, hc]
      simp only [Option.map_some, List.all_eq_true, List.mem_map, forall_exists_index, and_imp,
        forall_apply_eq_imp_iff₂, Bool.and_eq_true, Bool.not_eq_true']
      constructor
      · intro y hy
        have := hall y hy
        rw [← hx] at this
        exact this
      · intro k hk
        rw [← List.map_take, hsplit, List.take_left' rfl] at hk
        simp only [List.mem_map] at hk
        obtain ⟨y, hy, rfl⟩ := hk
        have := hpre y hy
        rw [← hx] at this
        exact this

end BioCantor.Proofs.Agg
