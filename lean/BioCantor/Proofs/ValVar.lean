/- C19 proofs, part 6: VariantInterval / VariantIntervalCollection. -/
import BioCantor.Proofs.ValLists
set_option linter.unusedSimpArgs false
namespace BioCantor.Proofs.Val
open BioCantor BioCantor.Model BioCantor.Model.Validate
open BioCantor.Spec.Validate (Out)

def natPair (p : Int × Int) : Blk := (p.1.toNat, p.2.toNat)

def validVar (p : Int × Int) : Prop := 0 ≤ p.1 ∧ p.1 < p.2

instance (p : Int × Int) : Decidable (validVar p) := by unfold validVar; infer_instance

theorem mkVariant_eq (s e : Int) :
    (validVar (s, e) → mkVariant s e = .ok (natPair (s, e))) ∧
    (¬ validVar (s, e) → ∃ k, mkVariant s e = .error (.doc k)) := by
  unfold validVar mkVariant mkSingle natPair
  by_cases h1 : s = e
  · subst h1; simp [raise]
  · by_cases h2 : 0 ≤ s ∧ s ≤ e
    · simp [h1, h2, liftR, bind, Except.bind, pure, Except.pure]; omega
    · simp [h1, h2, liftR, bind, Except.bind, throw, throwThe, MonadExceptOf.throw]; omega

theorem mapM_mkVariant (raw : List (Int × Int)) :
    ((∀ p ∈ raw, validVar p) → raw.mapM (fun p => mkVariant p.1 p.2) = .ok (raw.map natPair)) ∧
    (¬ (∀ p ∈ raw, validVar p) → ∃ k, raw.mapM (fun p => mkVariant p.1 p.2) = .error (.doc k)) := by
  induction raw with
  | nil => simp [pure, Except.pure]
  | cons p rest ih =>
      obtain ⟨h1, h2⟩ := mkVariant_eq p.1 p.2
      simp only [List.mapM_cons, List.forall_mem_cons]
      by_cases hp : validVar p
      · rw [h1 hp]
        by_cases hr : ∀ q ∈ rest, validVar q
        · rw [ih.1 hr]
          exact ⟨fun _ => rfl, fun hn => absurd ⟨hp, hr⟩ hn⟩
        · obtain ⟨k, hk⟩ := ih.2 hr
          rw [hk]
          exact ⟨fun h => absurd h.2 hr, fun _ => ⟨k, rfl⟩⟩
      · obtain ⟨k, hk⟩ := h2 hp
        rw [hk]
        exact ⟨fun h => absurd h.1 hp, fun _ => ⟨k, rfl⟩⟩

/-! ### overlap of non-empty intervals -/

def ovN (a b : Blk) : Prop := a.1 < b.2 ∧ b.1 < a.2

theorem overlapKernel_iff (a b : Blk) (ha : a.1 < a.2) (hb : b.1 < b.2) : overlapKernel a b = true ↔ ovN a b := by
  unfold overlapKernel ovN Blk.len
  constructor
  · intro h
    (repeat' split at h) <;> first | omega | (simp at h)
  · intro h
    (repeat' split) <;> first | rfl | omega

theorem adjacent_iff : ∀ (l : List Blk), l.Pairwise (fun a b => a.1 ≤ b.1) → (∀ b ∈ l, b.1 < b.2) →
    (adjacentOverlap l = false ↔ l.Pairwise (fun a b => ¬ ovN a b))
  | [], _, _ => by simp [adjacentOverlap]
  | [_], _, _ => by simp [adjacentOverlap]
  | a :: b :: rest, hs, hne => by
      have hs' := List.pairwise_cons.mp hs
      have ih := adjacent_iff (b :: rest) hs'.2 (fun x hx => hne x (List.mem_cons_of_mem _ hx))
      have hk := overlapKernel_iff a b (hne a (by simp)) (hne b (by simp))
      simp only [adjacentOverlap, Bool.or_eq_false_iff]
      rw [ih, List.pairwise_cons (a := a)]
      constructor
      · rintro ⟨h1, h2⟩
        refine ⟨?_, h2⟩
        have hab : ¬ ovN a b := fun h => by rw [hk.mpr h] at h1; cases h1
        intro c hc
        rcases List.mem_cons.mp hc with h | h
        · subst h; exact hab
        · -- later blocks start at or after b.start ≥ a.end
          have hbc := (List.pairwise_cons.mp hs'.2).1 c h
          have hab1 := hs'.1 b (by simp)
          have ha := hne a (by simp)
          have hb := hne b (by simp)
          unfold ovN at hab ⊢
          omega
      · rintro ⟨h1, h2⟩
        refine ⟨?_, h2⟩
        rw [Bool.eq_false_iff]
        exact fun h => h1 b (by simp) (hk.mp h)

theorem pairwiseDisjoint_iff : ∀ (l : List (Int × Int)),
    Spec.Validate.pairwiseDisjoint l = true ↔ l.Pairwise (fun a b => ¬ (a.1 < b.2 ∧ b.1 < a.2))
  | [] => by simp [Spec.Validate.pairwiseDisjoint]
  | a :: rest => by
      simp only [Spec.Validate.pairwiseDisjoint, Bool.and_eq_true, List.all_eq_true, List.pairwise_cons,
        pairwiseDisjoint_iff rest, Spec.Validate.overlap, Bool.not_eq_true', Bool.and_eq_false_iff,
        decide_eq_false_iff_not]
      constructor
      · rintro ⟨h1, h2⟩; exact ⟨fun b hb hab => by have := h1 b hb; omega, h2⟩
      · rintro ⟨h1, h2⟩; exact ⟨fun b hb => by have := h1 b hb; omega, h2⟩

theorem pairwise_natPair (raw : List (Int × Int)) (hv : ∀ p ∈ raw, validVar p) :
    (raw.map natPair).Pairwise (fun a b => ¬ ovN a b) ↔ raw.Pairwise (fun a b => ¬ (a.1 < b.2 ∧ b.1 < a.2)) := by
  rw [List.pairwise_map]
  induction raw with
  | nil => simp
  | cons p rest ih =>
      simp only [List.pairwise_cons]
      rw [ih (fun q hq => hv q (List.mem_cons_of_mem _ hq))]
      have hp := hv p (by simp)
      constructor
      · rintro ⟨h1, h2⟩
        refine ⟨fun q hq => ?_, h2⟩
        have hq' := hv q (List.mem_cons_of_mem _ hq)
        have := h1 q hq
        unfold ovN natPair validVar at *
        omega
      · rintro ⟨h1, h2⟩
        refine ⟨fun q hq => ?_, h2⟩
        have hq' := hv q (List.mem_cons_of_mem _ hq)
        have := h1 q hq
        unfold ovN natPair validVar at *
        omega

/-! ### smallest start / largest end under permutation and cast -/

theorem minStart_le : ∀ (l : List Blk) (b : Blk), b ∈ l → minStart l ≤ b.1
  | [c], b, h => by simp at h; subst h; simp [minStart]
  | c :: d :: rest, b, h => by
      have ih := minStart_le (d :: rest)
      simp only [minStart]
      rcases List.mem_cons.mp h with h | h
      · subst h; exact Nat.min_le_left _ _
      · exact Nat.le_trans (Nat.min_le_right _ _) (ih b h)

theorem minStart_mem : ∀ (l : List Blk), l ≠ [] → ∃ b ∈ l, minStart l = b.1
  | [c], _ => ⟨c, by simp, rfl⟩
  | c :: d :: rest, _ => by
      obtain ⟨b, hb, hbe⟩ := minStart_mem (d :: rest) (by simp)
      simp only [minStart]
      by_cases hx : c.1 ≤ minStart (d :: rest)
      · exact ⟨c, by simp, Nat.min_eq_left hx⟩
      · exact ⟨b, List.mem_cons_of_mem _ hb, by rw [Nat.min_eq_right (by omega)]; exact hbe⟩

theorem minStart_perm {l₁ l₂ : List Blk} (p : l₁.Perm l₂) (hne : l₁ ≠ []) : minStart l₁ = minStart l₂ := by
  have hne2 : l₂ ≠ [] := by intro h; rw [h] at p; exact hne p.eq_nil
  obtain ⟨b1, hb1, he1⟩ := minStart_mem l₁ hne
  obtain ⟨b2, hb2, he2⟩ := minStart_mem l₂ hne2
  have h1 := minStart_le l₂ b1 (p.mem_iff.mp hb1)
  have h2 := minStart_le l₁ b2 (p.mem_iff.mpr hb2)
  omega

theorem le_maxEnd : ∀ (l : List Blk) (b : Blk), b ∈ l → b.2 ≤ maxEnd l
  | c :: rest, b, h => by
      simp only [maxEnd]
      rcases List.mem_cons.mp h with h | h
      · subst h; exact Nat.le_max_left _ _
      · exact Nat.le_trans (le_maxEnd rest b h) (Nat.le_max_right _ _)

theorem maxEnd_mem : ∀ (l : List Blk), l ≠ [] → ∃ b ∈ l, maxEnd l = b.2
  | [c], _ => ⟨c, by simp, by simp [maxEnd]⟩
  | c :: d :: rest, _ => by
      obtain ⟨b, hb, hbe⟩ := maxEnd_mem (d :: rest) (by simp)
      simp only [maxEnd] at hbe ⊢
      by_cases hx : max d.2 (maxEnd rest) ≤ c.2
      · exact ⟨c, by simp, Nat.max_eq_left hx⟩
      · exact ⟨b, List.mem_cons_of_mem _ hb, by rw [Nat.max_eq_right (by omega)]; exact hbe⟩

theorem maxEnd_perm {l₁ l₂ : List Blk} (p : l₁.Perm l₂) (hne : l₁ ≠ []) : maxEnd l₁ = maxEnd l₂ := by
  have hne2 : l₂ ≠ [] := by intro h; rw [h] at p; exact hne p.eq_nil
  obtain ⟨b1, hb1, he1⟩ := maxEnd_mem l₁ hne
  obtain ⟨b2, hb2, he2⟩ := maxEnd_mem l₂ hne2
  have h1 := le_maxEnd l₂ b1 (p.mem_iff.mp hb1)
  have h2 := le_maxEnd l₁ b2 (p.mem_iff.mpr hb2)
  omega

theorem minStart_cast : ∀ (raw : List (Int × Int)), raw ≠ [] → (∀ p ∈ raw, validVar p) →
    ((minStart (raw.map natPair) : Nat) : Int) = Spec.Validate.minStartI raw
  | [p], _, hv => by
      have := hv p (by simp)
      unfold validVar at this
      simp [minStart, Spec.Validate.minStartI, natPair]; omega
  | p :: q :: rest, _, hv => by
      have ih := minStart_cast (q :: rest) (by simp) (fun x hx => hv x (List.mem_cons_of_mem _ hx))
      have hp := hv p (by simp)
      unfold validVar at hp
      simp only [List.map_cons, minStart, Spec.Validate.minStartI] at ih ⊢
      rw [← ih]
      simp only [natPair]
      omega

theorem maxEnd_cast : ∀ (raw : List (Int × Int)), raw ≠ [] → (∀ p ∈ raw, validVar p) →
    ((maxEnd (raw.map natPair) : Nat) : Int) = Spec.Validate.maxEndI raw
  | [p], _, hv => by
      have := hv p (by simp)
      unfold validVar at this
      simp [maxEnd, Spec.Validate.maxEndI, natPair]; omega
  | p :: q :: rest, _, hv => by
      have ih := maxEnd_cast (q :: rest) (by simp) (fun x hx => hv x (List.mem_cons_of_mem _ hx))
      have hp := hv p (by simp)
      unfold validVar at hp
      simp only [List.map_cons, maxEnd, Spec.Validate.maxEndI] at ih ⊢
      rw [← ih]
      simp only [natPair]
      omega

/-! ### the collection -/

def projVar (b : Blk) : Int × Int := (b.1, b.2)

theorem sortByStart_perm (vs : List Blk) : (sortByStart vs).Perm vs := List.mergeSort_perm _ _

theorem sortByStart_pairwise (vs : List Blk) : (sortByStart vs).Pairwise (fun a b => a.1 ≤ b.1) := by
  have h := List.pairwise_mergeSort (le := fun (a b : Blk) => decide (a.1 ≤ b.1))
    (fun a b c hab hbc => by simp only [decide_eq_true_eq] at *; omega)
    (fun a b => by simp only [Bool.or_eq_true, decide_eq_true_eq]; omega) vs
  exact h.imp (fun h => by simpa using h)

theorem ovN_symm {a b : Blk} (h : ¬ ovN a b) : ¬ ovN b a := fun h' => h ⟨h'.2, h'.1⟩

theorem validVarColl_iff (raw : List (Int × Int)) (hne : raw ≠ []) :
    Spec.Validate.validVarColl raw = true ↔
      (∀ p ∈ raw, validVar p) ∧ raw.Pairwise (fun a b => ¬ (a.1 < b.2 ∧ b.1 < a.2)) := by
  unfold Spec.Validate.validVarColl validVar
  have h1 : raw.isEmpty = false := by simpa using hne
  simp only [h1, Bool.not_false, Bool.true_and, Bool.and_eq_true, List.all_eq_true, decide_eq_true_eq,
    pairwiseDisjoint_iff]

/-- `VariantIntervalCollection.__init__` meets the specification for ALL lists (the empty list is refused with
    InvalidAnnotationError since 7977ad0; before that repair it ended in a builtin ValueError: F-C19n).  In particular
    the test of ADJACENT pairs of the start-sorted list finds every overlapping pair. -/
theorem mkVarColl_spec (raw : List (Int × Int)) :
    Spec.Validate.okMkVarColl raw (outOf projVar (mkVarColl raw)) = true := by
  by_cases hne : raw = []
  · subst hne
    simp [mkVarColl, mkVarCollOf, bind, Except.bind, pure, Except.pure, raise, outOf, Spec.Validate.okMkVarColl,
      Spec.Validate.validVarColl]
  obtain ⟨h1, h2⟩ := mapM_mkVariant raw
  have hvc := validVarColl_iff raw hne
  by_cases hv : ∀ p ∈ raw, validVar p
  · have hmap := h1 hv
    have hperm := sortByStart_perm (raw.map natPair)
    have hpw := sortByStart_pairwise (raw.map natPair)
    have hnonempty : ∀ b ∈ sortByStart (raw.map natPair), b.1 < b.2 := by
      intro b hb
      obtain ⟨p, hp, hpe⟩ := List.mem_map.mp (hperm.mem_iff.mp hb)
      have := hv p hp
      unfold validVar at this
      subst hpe; simp only [natPair]; omega
    have hadj := adjacent_iff _ hpw hnonempty
    have hdis : (sortByStart (raw.map natPair)).Pairwise (fun a b => ¬ ovN a b) ↔
        raw.Pairwise (fun a b => ¬ (a.1 < b.2 ∧ b.1 < a.2)) := by
      rw [hperm.pairwise_iff (fun h => ovN_symm h), pairwise_natPair raw hv]
    have hmne : raw.map natPair ≠ [] := by simpa using hne
    have hsne : sortByStart (raw.map natPair) ≠ [] := by
      intro h0; rw [h0] at hperm; exact hmne hperm.symm.eq_nil
    have hme : (raw.map natPair).isEmpty = false := by simpa using hmne
    simp only [mkVarColl, hmap, bind, Except.bind, mkVarCollOf, hme, Bool.false_eq_true, ite_false]
    by_cases ho : adjacentOverlap (sortByStart (raw.map natPair)) = true
    · have hnot : ¬ raw.Pairwise (fun a b => ¬ (a.1 < b.2 ∧ b.1 < a.2)) := by
        intro h
        have := hadj.mpr (hdis.mpr h)
        rw [this] at ho; cases ho
      have hvf : Spec.Validate.validVarColl raw = false := by
        rw [Bool.eq_false_iff]; exact fun h => hnot (hvc.mp h).2
      simp [ho, raise, outOf, Spec.Validate.okMkVarColl, hvf]
    · have hof : adjacentOverlap (sortByStart (raw.map natPair)) = false := by simpa using ho
      have hvt : Spec.Validate.validVarColl raw = true := hvc.mpr ⟨hv, hdis.mp (hadj.mp hof)⟩
      have hmin := minStart_cast raw hne hv
      have hmax := maxEnd_cast raw hne hv
      rw [← minStart_perm hperm hsne] at hmin
      rw [← maxEnd_perm hperm hsne] at hmax
      simp [hof, pure, Except.pure, outOf, projVar, Spec.Validate.okMkVarColl, hvt, hmin, hmax]
  · obtain ⟨k, hk⟩ := h2 hv
    have hvf : Spec.Validate.validVarColl raw = false := by
      rw [Bool.eq_false_iff]; exact fun h => hv (hvc.mp h).1
    simp [mkVarColl, hk, bind, Except.bind, outOf, Spec.Validate.okMkVarColl, hvf]

theorem mkVarColl_noInternal (raw : List (Int × Int)) : NoInternal (mkVarColl raw) := by
  intro c hc
  have := mkVarColl_spec raw
  rw [hc] at this
  simp [outOf, Spec.Validate.okMkVarColl] at this

/-- regression fact (F-C19n, repaired by 7977ad0): the empty collection is refused with InvalidAnnotationError -/
theorem mkVarColl_empty_refused : mkVarColl [] = .error (.doc .InvalidAnnotation) := by
  simp [mkVarColl, mkVarCollOf, bind, Except.bind, pure, Except.pure, raise]

end BioCantor.Proofs.Val
