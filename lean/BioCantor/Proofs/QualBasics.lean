/-
  C18 helper lemmas, part 1: ASCII case folding, the tie between the GENERATED priority tables and the
  documented order of Spec.Qual, and the classification of a qualifier key by the modelled regex + enum lookup.
-/
import BioCantor.Spec.Qualifiers
import BioCantor.Model.Qualifiers
namespace BioCantor.Proofs.Qual
open BioCantor BioCantor.Spec.Qual BioCantor.Model.Qual

/-! ### ASCII case folding -/

theorem toUpper_toNat (d : Char) :
    d.toUpper.toNat = if 97 ≤ d.toNat ∧ d.toNat ≤ 122 then d.toNat - 32 else d.toNat := by
  have h1 : ('A'.val - 'a'.val).toNat = 4294967264 := by decide
  have ha : 'a'.val.toNat = 97 := by decide
  have hz : 'z'.val.toNat = 122 := by decide
  unfold Char.toUpper
  split
  · rename_i h
    rw [Char.toNat_mk, UInt32.toNat_add, h1]
    simp only [UInt32.le_iff_toNat_le, ha, hz, Char.toNat_val] at h
    rw [Char.toNat_val, if_pos h]
    omega
  · rename_i h
    simp only [UInt32.le_iff_toNat_le, ha, hz, Char.toNat_val] at h
    rw [if_neg h]

theorem toLower_toNat (d : Char) :
    d.toLower.toNat = if 65 ≤ d.toNat ∧ d.toNat ≤ 90 then d.toNat + 32 else d.toNat := by
  have h1 : ('a'.val - 'A'.val).toNat = 32 := by decide
  have ha : 'A'.val.toNat = 65 := by decide
  have hz : 'Z'.val.toNat = 90 := by decide
  unfold Char.toLower
  split
  · rename_i h
    rw [Char.toNat_mk, UInt32.toNat_add, h1]
    simp only [ge_iff_le, UInt32.le_iff_toNat_le, ha, hz, Char.toNat_val] at h
    rw [Char.toNat_val, if_pos h]
    omega
  · rename_i h
    simp only [ge_iff_le, UInt32.le_iff_toNat_le, ha, hz, Char.toNat_val] at h
    rw [if_neg h]

theorem toUpper_toLower (c : Char) : c.toLower.toUpper = c.toUpper := by
  apply Char.toNat_inj.mp
  rw [toUpper_toNat, toUpper_toNat, toLower_toNat]
  repeat' split
  all_goals omega

/-- `q.upper()` only depends on `q.lower()` -/
theorem upperStr_lower (q : Str) : upperStr (Spec.Qual.lowerStr q) = upperStr q := by
  unfold upperStr Spec.Qual.lowerStr
  rw [List.map_map]
  apply List.map_congr_left
  intro c _
  exact toUpper_toLower c

theorem lowerStr_eq (q : Str) : Model.Qual.lowerStr q = Spec.Qual.lowerStr q := rfl

/-! ### generic facts about `indexIn` -/

theorem indexIn_none {k : Str} {l : List Str} : indexIn k l = none ↔ k ∉ l := by
  induction l with
  | nil => simp [indexIn]
  | cons x xs ih =>
    unfold indexIn
    by_cases h : x = k
    · simp [h]
    · simp only [h, if_false, Option.map_eq_none_iff, ih, List.mem_cons]
      constructor
      · intro hn hk; rcases hk with hk | hk
        · exact h hk.symm
        · exact hn hk
      · intro hn hk; exact hn (Or.inr hk)

theorem indexIn_some_mem {k : Str} {l : List Str} {i : Nat} (h : indexIn k l = some i) : k ∈ l := by
  by_cases hk : k ∈ l
  · exact hk
  · rw [indexIn_none.mpr hk] at h; cases h

/-! ### the tie: generated enum tables vs the documented priority order

  `famOK order keys table` is checked by evaluation on the tables regenerated from /repo:
    * the regex key set is exactly the documented list,
    * every documented key is a member of the enum (looked up by its upper-cased name),
    * enum values are ordered like the documented list, and only the first documented key has value 0 … -/

def prioOf (table : List (Str × Int)) (k : Str) : Option Int := table.lookup (upperStr k)

def famOK (order keys : List Str) (table : List (Str × Int)) : Bool :=
  keys.all (order.contains ·) && order.all (keys.contains ·) &&
  order.all (fun k => (prioOf table k).isSome) &&
  order.all (fun k => order.all fun k' =>
    match prioOf table k, prioOf table k', indexIn k order, indexIn k' order with
    | some p, some p', some i, some i' => (!decide (p ≤ p') || decide (i ≤ i')) && (!decide (p = 0) || decide (i = 0))
        && (!decide (i = 0) || decide (p = 0))
    | _, _, _, _ => false)

theorem nameFamOK : famOK nameOrder nameRegexKeys Gen.featureNameQualifiers = true := by decide +kernel
theorem idFamOK : famOK idOrder idRegexKeys Gen.featureIdQualifiers = true := by decide +kernel

/-- the two families are disjoint -/
theorem fams_disjoint : nameOrder.all (fun k => !idOrder.contains k) = true := by decide +kernel

/-- classification of a key by the REPAIRED matching rule (`fullmatch`): `some p` = recognised with enum value p -/
def cls (keys : List Str) (table : List (Str × Int)) (q : Str) : Option Int :=
  if reMatchKeys true keys q then table.lookup (upperStr q) else none

theorem reMatch_full (keys : List Str) (q : Str) :
    reMatchKeys true keys q = keys.contains (Spec.Qual.lowerStr q) := by
  simp [reMatchKeys, lowerStr_eq]

section fam
variable {order keys : List Str} {table : List (Str × Int)} (hf : famOK order keys table = true)
include hf

theorem fam_keys_iff (k : Str) : keys.contains k = order.contains k := by
  simp only [famOK, Bool.and_eq_true, List.all_eq_true] at hf
  obtain ⟨⟨⟨h1, h2⟩, _⟩, _⟩ := hf
  by_cases hk : keys.contains k = true
  · rw [hk]; exact (h1 k (List.contains_iff_mem.mp hk)).symm
  · by_cases ho : order.contains k = true
    · exact absurd (h2 k (List.contains_iff_mem.mp ho)) hk
    · simp only [Bool.not_eq_true] at hk ho; rw [hk, ho]

theorem cls_eq (q : Str) :
    cls keys table q = if order.contains (Spec.Qual.lowerStr q) then prioOf table (Spec.Qual.lowerStr q) else none := by
  unfold cls prioOf
  rw [reMatch_full, fam_keys_iff hf, upperStr_lower]

/-- recognised by the model ⇔ ranked by the spec -/
theorem cls_isSome (q : Str) : (cls keys table q).isSome = (rank order q).isSome := by
  rw [cls_eq hf]
  unfold rank
  by_cases hk : Spec.Qual.lowerStr q ∈ order
  · have hc : order.contains (Spec.Qual.lowerStr q) = true := List.contains_iff_mem.mpr hk
    rw [hc]
    simp only [famOK, Bool.and_eq_true, List.all_eq_true] at hf
    have h3 := hf.1.2 _ hk
    simp only [if_true, h3]
    cases hi : indexIn (Spec.Qual.lowerStr q) order with
    | none => exact absurd hk (indexIn_none.mp hi)
    | some i => rfl
  · have hc : order.contains (Spec.Qual.lowerStr q) = false := by
      cases h : order.contains (Spec.Qual.lowerStr q)
      · rfl
      · exact absurd (List.contains_iff_mem.mp h) hk
    rw [hc, indexIn_none.mpr hk]; rfl

theorem cls_none_iff (q : Str) : cls keys table q = none ↔ rank order q = none := by
  have := cls_isSome hf q
  cases h1 : cls keys table q <;> cases h2 : rank order q <;> simp_all

/-- the enum values are ordered like the documented list; value 0 ⇔ first in the list -/
theorem cls_mono {q q' : Str} {p p' : Int} {r r' : Nat}
    (h1 : cls keys table q = some p) (h2 : cls keys table q' = some p')
    (h3 : rank order q = some r) (h4 : rank order q' = some r') :
    (p ≤ p' → r ≤ r') ∧ (p = 0 ↔ r = 0) := by
  rw [cls_eq hf] at h1 h2
  unfold rank at h3 h4
  have hk := indexIn_some_mem h3
  have hk' := indexIn_some_mem h4
  simp only [famOK, Bool.and_eq_true, List.all_eq_true] at hf
  have h := hf.2 _ hk _ hk'
  rw [List.contains_iff_mem.mpr hk, if_pos rfl] at h1
  rw [List.contains_iff_mem.mpr hk', if_pos rfl] at h2
  rw [h1, h2, h3, h4] at h
  simp only [Bool.and_eq_true, Bool.or_eq_true, Bool.not_eq_true', decide_eq_false_iff_not, decide_eq_true_eq] at h
  obtain ⟨⟨ha, hb⟩, hc⟩ := h
  refine ⟨fun hle => ?_, ⟨fun h0 => ?_, fun h0 => ?_⟩⟩
  · rcases ha with ha | ha
    · exact absurd hle ha
    · exact ha
  · rcases hb with hb | hb
    · exact absurd h0 hb
    · exact hb
  · rcases hc with hc | hc
    · exact absurd h0 hc
    · exact hc

end fam

end BioCantor.Proofs.Qual
