/-
  Towards C05-T2: `Location.scan_windows(3, 3, offset)` over a well-formed, non-overlapping location returns,
  in order, Location objects that denote the consecutive triples of the location's 5'→3' reading from the
  offset on (C01-T3 applied at every step).
-/
import BioCantor.Proofs.CDSBlocks
import BioCantor.Proofs.CDSTriples
namespace BioCantor.Proofs
open BioCantor BioCantor.Model BioCantor.Spec

theorem locationBases_toSingleIfOne (X : Loc) : locationBases (toSingleIfOne X) = bases X := by
  obtain ⟨bs, st⟩ := X
  unfold toSingleIfOne
  match bs with
  | [b] => rfl
  | [] => rfl
  | _ :: _ :: _ => rfl

/-- one codon window -/
theorem codon_at (L : List Blk) (st : Strand) (hst : st = .plus ∨ st = .minus)
    (hv : ∀ b ∈ L, b.1 ≤ b.2) (hno : nonOverlap L = true) (s : Nat) (h : s + 3 ≤ blocksLen L) :
    ∃ m, relInterval (.compound ⟨L, st⟩) (s : Int) ((s : Int) + 3) .plus = .ok m ∧
      codonOk st (((bases ⟨L, st⟩).drop s).take 3) m = true := by
  have hsu : st ≠ .unstranded := by rcases hst with h | h <;> simp [h]
  obtain ⟨F, h1, h2, _, h4⟩ := compoundRel_pos L st s (s + 3) .plus hsu (by omega) h
  obtain ⟨h5, _⟩ := h4 hno hv
  rw [strandRelativeTo_plus st hst] at h1 h2
  refine ⟨toSingleIfOne ⟨F, st⟩, ?_, ?_⟩
  · simp only [relInterval]
    have : ((s : Int) + 3) = ((s + 3 : Nat) : Int) := by omega
    rw [this]; exact h1
  · unfold codonOk
    rw [wfLocation_toSingleIfOne _ h2, locationStrand_toSingleIfOne, locationBases_toSingleIfOne, h5]
    have : s + 3 - s = 3 := by omega
    simp [this]

/-- the windows at `o + 3 i` for a list of indices -/
theorem codons_mapM (L : List Blk) (st : Strand) (hst : st = .plus ∨ st = .minus)
    (hv : ∀ b ∈ L, b.1 ≤ b.2) (hno : nonOverlap L = true) (o : Nat) :
    ∀ (is : List Nat), (∀ i ∈ is, o + 3 * i + 3 ≤ blocksLen L) →
      ∃ ms, (is.map (fun (i : Nat) => (o : Int) + 3 * (i : Int))).mapM
          (fun cur => relInterval (.compound ⟨L, st⟩) cur (cur + 3) .plus) = .ok ms ∧
        codonsMatch st (is.map (fun i => ((bases ⟨L, st⟩).drop (o + 3 * i)).take 3)) ms = true
  | [], _ => ⟨[], rfl, rfl⟩
  | i :: is, h => by
    obtain ⟨m, hm1, hm2⟩ := codon_at L st hst hv hno (o + 3 * i) (h i (by simp))
    obtain ⟨ms, hms1, hms2⟩ := codons_mapM L st hst hv hno o is (fun j hj => h j (by simp [hj]))
    refine ⟨m :: ms, ?_, ?_⟩
    · have e : ((o + 3 * i : Nat) : Int) = (o : Int) + 3 * (i : Int) := by omega
      rw [e] at hm1
      simp only [List.map_cons, List.mapM_cons, hm1, hms1, bind, Except.bind, pure, Except.pure]
    · simp only [List.map_cons, codonsMatch, hm2, hms2, Bool.and_self]

theorem triples_eq_range {α} (xs : List α) :
    triples xs = (List.range (xs.length / 3)).map (fun i => (xs.drop (3 * i)).take 3) := by
  apply List.ext_getElem
  · simp [triples_length]
  · intro i h1 h2
    simp only [List.getElem_map, List.getElem_range]
    have hi : i < xs.length / 3 := by simpa [triples_length] using h1
    -- the i-th triple is the head of `triples (xs.drop (3 i))`
    have hd := triples_drop i xs
    have hlen : 3 * i + 3 ≤ xs.length := by omega
    match hx : xs.drop (3 * i) with
    | a :: b :: c :: r =>
      rw [hx, triples_cons3] at hd
      have : (triples xs)[i] = [a, b, c] := by
        have h3 : ((triples xs).drop i)[0]? = some [a, b, c] := by rw [← hd]; rfl
        rw [List.getElem?_drop] at h3
        simp only [Nat.add_zero] at h3
        exact (List.getElem_eq_iff h1).mpr h3
      rw [this]; rfl
    | [] => have := congrArg List.length hx; simp at this; omega
    | [_] => have := congrArg List.length hx; simp at this; omega
    | [_, _] => have := congrArg List.length hx; simp at this; omega

/-- `_scan_codon_locations` after the (location, offset) pair has been prepared -/
theorem scan_from (L : List Blk) (st : Strand) (hst : st = .plus ∨ st = .minus)
    (hv : ∀ b ∈ L, b.1 ≤ b.2) (hno : nonOverlap L = true) (o : Nat) :
    ∃ ms, (if ((locLen (.compound ⟨L, st⟩) : Nat) : Int) - (o : Int) ≥ 3
            then scanWindows3 (.compound ⟨L, st⟩) (o : Int) else pure []) = .ok ms ∧
      codonsMatch st (triples ((bases ⟨L, st⟩).drop o)) ms = true := by
  have hlen : locLen (.compound ⟨L, st⟩) = blocksLen L := rfl
  rw [hlen]
  by_cases h3 : ((blocksLen L : Nat) : Int) - (o : Int) ≥ 3
  · rw [if_pos h3]
    unfold scanWindows3
    have c1 : ¬ ¬ (0 ≤ (o : Int) ∧ (o : Int) < ((blocksLen L : Nat) : Int)) := by omega
    have c2 : ¬ (3 > ((blocksLen L : Nat) : Int)) := by omega
    have c3 : ¬ ((o : Int) + 3 > ((blocksLen L : Nat) : Int)) := by omega
    have hdir : assertDirectional st = .ok () := by
      unfold assertDirectional; rcases hst with h | h <;> simp [h, pure, Except.pure]
    simp only [hlen]
    rw [if_neg c1, if_neg c2, if_neg c3]
    simp only [locStrand, hdir, bind, Except.bind, pure, Except.pure]
    -- the start positions
    have hk : ((((blocksLen L : Nat) : Int) - 3 + 1 - (o : Int) + 2) / 3).toNat = (blocksLen L - o) / 3 := by omega
    have hr : range3 (o : Int) (((blocksLen L : Nat) : Int) - 3 + 1) =
        (List.range ((blocksLen L - o) / 3)).map (fun (i : Nat) => (o : Int) + 3 * (i : Int)) := by
      unfold range3
      rw [if_neg (by omega), hk]
    rw [hr]
    obtain ⟨ms, h1, h2⟩ := codons_mapM L st hst hv hno o (List.range ((blocksLen L - o) / 3))
      (by intro i hi; simp only [List.mem_range] at hi; omega)
    refine ⟨ms, h1, ?_⟩
    rw [triples_eq_range, List.length_drop, bases_length]
    have : (Loc.len ⟨L, st⟩ - o) / 3 = (blocksLen L - o) / 3 := rfl
    rw [this]
    have hmap : (List.range ((blocksLen L - o) / 3)).map (fun i => (((bases ⟨L, st⟩).drop o).drop (3 * i)).take 3) =
        (List.range ((blocksLen L - o) / 3)).map (fun i => ((bases ⟨L, st⟩).drop (o + 3 * i)).take 3) := by
      apply List.map_congr_left; intro i _; rw [List.drop_drop]
    rw [hmap]; exact h2
  · rw [if_neg h3]
    refine ⟨[], rfl, ?_⟩
    have : ((bases ⟨L, st⟩).drop o).length < 3 := by
      rw [List.length_drop, bases_length]; unfold Loc.len; simp only; omega
    rw [triples_short _ this]; rfl

end BioCantor.Proofs
