/-
  Towards C05-T2: `Location.scan_windows(3, 3, offset)` over a well-formed, non-overlapping location returns,
  in order, Location objects that denote the consecutive triples of the location's 5'→3' reading from the
  offset on (C01-T3 applied at every step).
-/
import BioCantor.Proofs.CDSBlocks
import BioCantor.Proofs.CDSTriples
namespace BioCantor.Proofs
open BioCantor BioCantor.Model BioCantor.Spec

theorem locationBases_toSingleIfOne (X : Loc) : locationBases (toSingleIfOne X) = bases X := by
  obtain ⟨bs, st⟩ := X
  unfold toSingleIfOne
  match bs with
  | [b] => rfl
  | [] => rfl
  | _ :: _ :: _ => rfl

/-- one codon window -/
theorem codon_at (L : List Blk) (st : Strand) (hst : st = .plus ∨ st = .minus)
    (hv : ∀ b ∈ L, b.1 ≤ b.2) (hno : nonOverlap L = true) (s : Nat) (h : s + 3 ≤ blocksLen L) :
    ∃ m, relInterval (.compound ⟨L, st⟩) (s : Int) ((s : Int) + 3) .plus = .ok m ∧
      codonOk st (((bases ⟨L, st⟩).drop s).take 3) m = true := by
  have hsu : st ≠ .unstranded := by rcases hst with h | h <;> simp [h]
  obtain ⟨F, h1, h2, _, h4⟩ := compoundRel_pos L st s (s + 3) .plus hsu (by omega) h
  obtain ⟨h5, _⟩ := h4 hno hv
  rw [strandRelativeTo_plus st hst] at h1 h2
  refine ⟨toSingleIfOne ⟨F, st⟩, ?_, ?_⟩
  · simp only [relInterval]
    have : ((s : Int) + 3) = ((s + 3 : Nat) : Int) := by omega
    rw [this]; exact h1
  · unfold codonOk
    rw [wfLocation_toSingleIfOne _ h2, locationStrand_toSingleIfOne, locationBases_toSingleIfOne, h5]
    have : s + 3 - s = 3 := by omega
    simp [this]

/-- the windows at `o + 3 i` for a list of indices, over any location whose codon windows are known -/
theorem codons_mapM_gen (l : Location) (st : Strand) (B : List Nat)
    (hcodon : ∀ s : Nat, s + 3 ≤ locLen l → ∃ m, relInterval l (s : Int) ((s : Int) + 3) .plus = .ok m ∧
      codonOk st ((B.drop s).take 3) m = true) (o : Nat) :
    ∀ (is : List Nat), (∀ i ∈ is, o + 3 * i + 3 ≤ locLen l) →
      ∃ ms, (is.map (fun (i : Nat) => (o : Int) + 3 * (i : Int))).mapM
          (fun cur => relInterval l cur (cur + 3) .plus) = .ok ms ∧
        codonsMatch st (is.map (fun i => (B.drop (o + 3 * i)).take 3)) ms = true
  | [], _ => ⟨[], rfl, rfl⟩
  | i :: is, h => by
    obtain ⟨m, hm1, hm2⟩ := hcodon (o + 3 * i) (h i (by simp))
    obtain ⟨ms, hms1, hms2⟩ := codons_mapM_gen l st B hcodon o is (fun j hj => h j (by simp [hj]))
    refine ⟨m :: ms, ?_, ?_⟩
    · have e : ((o + 3 * i : Nat) : Int) = (o : Int) + 3 * (i : Int) := by omega
      rw [e] at hm1
      simp only [List.map_cons, List.mapM_cons, hm1, hms1, bind, Except.bind, pure, Except.pure]
    · simp only [List.map_cons, codonsMatch, hm2, hms2, Bool.and_self]

theorem triples_eq_range {α} (xs : List α) :
    triples xs = (List.range (xs.length / 3)).map (fun i => (xs.drop (3 * i)).take 3) := by
  apply List.ext_getElem
  · simp [triples_length]
  · intro i h1 h2
    simp only [List.getElem_map, List.getElem_range]
    have hi : i < xs.length / 3 := by simpa [triples_length] using h1
    -- the i-th triple is the head of `triples (xs.drop (3 i))`
    have hd := triples_drop i xs
    have hlen : 3 * i + 3 ≤ xs.length := by omega
    match hx : xs.drop (3 * i) with
    | a :: b :: c :: r =>
      rw [hx, triples_cons3] at hd
      have : (triples xs)[i] = [a, b, c] := by
        have h3 : ((triples xs).drop i)[0]? = some [a, b, c] := by rw [← hd]; rfl
        rw [List.getElem?_drop] at h3
        simp only [Nat.add_zero] at h3
        exact (List.getElem_eq_iff h1).mpr h3
      rw [this]; rfl
    | [] => have := congrArg List.length hx; simp at this; omega
    | [_] => have := congrArg List.length hx; simp at this; omega
    | [_, _] => have := congrArg List.length hx; simp at this; omega

/-- `_scan_codon_locations` after the (location, offset) pair has been prepared: any directional location `l`
    whose reading is `B` and whose codon windows are known -/
theorem scan_generic (l : Location) (st : Strand) (hst : st = .plus ∨ st = .minus) (B : List Nat)
    (hB : B.length = locLen l) (hstrand : locStrand l = .ok st)
    (hcodon : ∀ s : Nat, s + 3 ≤ locLen l → ∃ m, relInterval l (s : Int) ((s : Int) + 3) .plus = .ok m ∧
      codonOk st ((B.drop s).take 3) m = true) (o : Nat) :
    ∃ ms, (if ((locLen l : Nat) : Int) - (o : Int) ≥ 3 then scanWindows3 l (o : Int) else pure []) = .ok ms ∧
      codonsMatch st (triples (B.drop o)) ms = true := by
  by_cases h3 : ((locLen l : Nat) : Int) - (o : Int) ≥ 3
  · rw [if_pos h3]
    unfold scanWindows3
    have c1 : ¬ ¬ (0 ≤ (o : Int) ∧ (o : Int) < ((locLen l : Nat) : Int)) := by omega
    have c2 : ¬ (3 > ((locLen l : Nat) : Int)) := by omega
    have c3 : ¬ ((o : Int) + 3 > ((locLen l : Nat) : Int)) := by omega
    have hdir : assertDirectional st = .ok () := by
      unfold assertDirectional; rcases hst with h | h <;> simp [h, pure, Except.pure]
    simp only []
    rw [if_neg c1, if_neg c2, if_neg c3]
    simp only [hstrand, hdir, bind, Except.bind, pure, Except.pure]
    have hk : ((((locLen l : Nat) : Int) - 3 + 1 - (o : Int) + 2) / 3).toNat = (locLen l - o) / 3 := by omega
    have hr : range3 (o : Int) (((locLen l : Nat) : Int) - 3 + 1) =
        (List.range ((locLen l - o) / 3)).map (fun (i : Nat) => (o : Int) + 3 * (i : Int)) := by
      unfold range3
      rw [if_neg (by omega), hk]
    rw [hr]
    obtain ⟨ms, h1, h2⟩ := codons_mapM_gen l st B hcodon o (List.range ((locLen l - o) / 3))
      (by intro i hi; simp only [List.mem_range] at hi; omega)
    refine ⟨ms, h1, ?_⟩
    rw [triples_eq_range, List.length_drop, hB]
    have hmap : (List.range ((locLen l - o) / 3)).map (fun i => ((B.drop o).drop (3 * i)).take 3) =
        (List.range ((locLen l - o) / 3)).map (fun i => (B.drop (o + 3 * i)).take 3) := by
      apply List.map_congr_left; intro i _; rw [List.drop_drop]
    rw [hmap]; exact h2
  · rw [if_neg h3]
    refine ⟨[], rfl, ?_⟩
    have : (B.drop o).length < 3 := by rw [List.length_drop, hB]; omega
    rw [triples_short _ this]; rfl

/-- … for a multi-block location -/
theorem scan_from (L : List Blk) (st : Strand) (hst : st = .plus ∨ st = .minus)
    (hv : ∀ b ∈ L, b.1 ≤ b.2) (hno : nonOverlap L = true) (o : Nat) :
    ∃ ms, (if ((locLen (.compound ⟨L, st⟩) : Nat) : Int) - (o : Int) ≥ 3
            then scanWindows3 (.compound ⟨L, st⟩) (o : Int) else pure []) = .ok ms ∧
      codonsMatch st (triples ((bases ⟨L, st⟩).drop o)) ms = true :=
  scan_generic (.compound ⟨L, st⟩) st hst (bases ⟨L, st⟩) (bases_length _) rfl
    (fun s hs => codon_at L st hst hv hno s hs) o

/-- one codon window of a single block -/
theorem codon_at_single (b : Blk) (st : Strand) (hst : st = .plus ∨ st = .minus) (s : Nat) (h : s + 3 ≤ b.len) :
    ∃ m, relInterval (.single b st) (s : Int) ((s : Int) + 3) .plus = .ok m ∧
      codonOk st (((bases ⟨[b], st⟩).drop s).take 3) m = true := by
  have hsu : st ≠ .unstranded := by rcases hst with h | h <;> simp [h]
  have hrel := singleRel_ok b st hst s (s + 3) .plus (by omega) h
  have hsr : strandRelativeTo st .plus = st := by rcases hst with h | h <;> subst h <;> simp [strandRelativeTo]
  rw [hsr] at hrel
  refine ⟨.single (subBlk st b s (s + 3)) st, ?_, ?_⟩
  · simp only [relInterval]
    have : ((s : Int) + 3) = ((s + 3 : Nat) : Int) := by omega
    rw [this]; exact hrel
  · unfold codonOk
    have hval := subBlk_valid st b s (s + 3) (by omega)
    simp only [wfLocation, hval, decide_true, locationStrand?, beq_self_eq_true, Bool.true_and, locationBases]
    rw [bases_single _ st hsu, bases_single b st hsu, rd_subBlk st b s (s + 3) (by omega) h]
    have : s + 3 - s = 3 := by omega
    simp [this]

/-- … for a single-block location -/
theorem scan_from_single (b : Blk) (st : Strand) (hst : st = .plus ∨ st = .minus) (o : Nat) :
    ∃ ms, (if ((locLen (.single b st) : Nat) : Int) - (o : Int) ≥ 3
            then scanWindows3 (.single b st) (o : Int) else pure []) = .ok ms ∧
      codonsMatch st (triples ((bases ⟨[b], st⟩).drop o)) ms = true :=
  scan_generic (.single b st) st hst (bases ⟨[b], st⟩)
    (by rw [bases_length]; simp [Loc.len, blocksLen, locLen]) rfl
    (fun s hs => codon_at_single b st hst s hs) o

end BioCantor.Proofs
