/-
  C17 helper lemmas, part 3: what the printed rows denote (blocks, partial marks), and block merging
  (`optimize_and_combine_blocks` on an exon layout = the maximal runs of the covered positions).
-/
import BioCantor.Proofs.TblCodec
import BioCantor.Proofs.RelCombine
namespace BioCantor.Proofs.Tbl
open BioCantor BioCantor.Model BioCantor.Model.Tbl BioCantor.Spec BioCantor.Spec.Tbl

/-! ### rows ↦ blocks -/

def pairOf (r : Row) : Nat × Nat := (r.start, r.stop)

theorem setFirst_pairs (rs : List Row) : (setFirst rs).map pairOf = rs.map pairOf := by
  cases rs <;> simp [setFirst, pairOf]

theorem setLast_pairs (rs : List Row) : (setLast rs).map pairOf = rs.map pairOf := by
  induction rs with
  | nil => rfl
  | cons r rs ih =>
    cases rs with
    | nil => simp [setLast, pairOf]
    | cons s rs => simp only [setLast, List.map_cons] at ih ⊢; rw [ih]

theorem rowsOf_pairs (ps : List (Nat × Nat)) (si ei : Bool) : (rowsOf ps si ei).map pairOf = ps := by
  have h0 : (plainRows ps).map pairOf = ps := by
    unfold plainRows; rw [List.map_map]
    conv => rhs; rw [← List.map_id ps]
    apply List.map_congr_left; intro p _; rfl
  unfold rowsOf
  cases si <;> cases ei <;> simp only [if_true, if_false, Bool.false_eq_true, setLast_pairs, setFirst_pairs, h0]

/-- `rowBlock` reads only the two numbers -/
def pairBlock (st : Strand) (p : Nat × Nat) : Option Blk :=
  if st = .minus then (if 1 ≤ p.2 ∧ p.2 ≤ p.1 then some (p.2 - 1, p.1) else none)
  else (if 1 ≤ p.1 ∧ p.1 ≤ p.2 then some (p.1 - 1, p.2) else none)

theorem rowBlock_pair (st : Strand) (r : Row) : rowBlock st r = pairBlock st (pairOf r) := rfl

theorem mapOpt_map {α β γ} (f : β → Option γ) (g : α → β) (l : List α) :
    mapOpt f (l.map g) = mapOpt (fun a => f (g a)) l := by
  induction l with
  | nil => rfl
  | cons a l ih => simp only [List.map_cons, mapOpt, ih]

theorem mapOpt_some {α β} (f : α → Option β) (g : α → β) (l : List α) (h : ∀ a ∈ l, f a = some (g a)) :
    mapOpt f l = some (l.map g) := by
  induction l with
  | nil => rfl
  | cons a l ih =>
    simp only [mapOpt, h a (by simp), ih (fun x hx => h x (List.mem_cons_of_mem _ hx)), List.map_cons]

/-- the printed rows denote exactly the blocks, in 5'→3' order, 1-based inclusive, `start ≥ end` on minus -/
theorem rows_denote_blocks (blocks : List Blk) (st : Strand) (si ei : Bool) (hpos : ∀ b ∈ blocks, b.1 < b.2) :
    rowsBlocks st (rowsOf (locPairs blocks st) si ei) = some blocks := by
  unfold rowsBlocks
  have h1 : mapOpt (rowBlock st) (rowsOf (locPairs blocks st) si ei)
      = mapOpt (pairBlock st) (locPairs blocks st) := by
    have : mapOpt (rowBlock st) (rowsOf (locPairs blocks st) si ei)
        = mapOpt (pairBlock st) ((rowsOf (locPairs blocks st) si ei).map pairOf) := by
      rw [mapOpt_map]; rfl
    rw [this, rowsOf_pairs]
  rw [h1]
  unfold locPairs
  by_cases hm : st = .minus
  · simp only [hm, if_true]
    rw [← List.map_reverse, ← List.map_reverse, mapOpt_map, mapOpt_map]
    rw [mapOpt_some _ id]
    · simp
    · intro b hb
      have := hpos b (by simpa using hb)
      simp only [pairBlock, if_true, id]
      have hc : 1 ≤ b.1 + 1 ∧ b.1 + 1 ≤ b.2 := by omega
      simp [hc]
  · simp only [hm, if_false]
    rw [mapOpt_map, mapOpt_some _ id]
    · simp [hm]
    · intro b hb
      have := hpos b hb
      simp only [pairBlock, hm, if_false, id]
      have hc : 1 ≤ b.1 + 1 ∧ b.1 + 1 ≤ b.2 := by omega
      simp [hc]

/-! ### partial marks -/

theorem inner_plain (ps : List (Nat × Nat)) : innerMarksClean (plainRows ps) = true := by
  induction ps with
  | nil => rfl
  | cons p ps ih =>
    cases ps with
    | nil => rfl
    | cons q ps => simp only [plainRows, List.map_cons, innerMarksClean] at ih ⊢; simp [ih]

theorem inner_setFirst (rs : List Row) : innerMarksClean (setFirst rs) = innerMarksClean rs := by
  cases rs with
  | nil => rfl
  | cons r rs => cases rs <;> simp [setFirst, innerMarksClean]

theorem inner_setLast (rs : List Row) : innerMarksClean (setLast rs) = innerMarksClean rs := by
  induction rs with
  | nil => rfl
  | cons r rs ih =>
    cases rs with
    | nil => simp [setLast, innerMarksClean]
    | cons s rs =>
      cases rs with
      | nil => simp [setLast, innerMarksClean]
      | cons t rs =>
        simp only [setLast, innerMarksClean] at ih ⊢
        rw [ih]

theorem firstMark_setFirst (rs : List Row) (h : rs ≠ []) : firstMark (setFirst rs) = some true := by
  cases rs with
  | nil => exact absurd rfl h
  | cons r rs => simp [setFirst, firstMark]

theorem firstMark_setLast (rs : List Row) : firstMark (setLast rs) = firstMark rs := by
  cases rs with
  | nil => rfl
  | cons r rs => cases rs <;> simp [setLast, firstMark]

theorem lastMark_setFirst (rs : List Row) : lastMark (setFirst rs) = lastMark rs := by
  cases rs with
  | nil => rfl
  | cons r rs => cases rs <;> simp [setFirst, lastMark]

theorem lastMark_setLast (rs : List Row) (h : rs ≠ []) : lastMark (setLast rs) = some true := by
  induction rs with
  | nil => exact absurd rfl h
  | cons r rs ih =>
    cases rs with
    | nil => simp [setLast, lastMark]
    | cons s rs =>
      have := ih (by simp)
      simp only [setLast, lastMark] at this ⊢
      cases hsl : setLast (s :: rs) with
      | nil => rw [hsl] at this; simp at this
      | cons a as => rw [hsl] at this; rw [List.getLast?_cons_cons]; exact this

theorem firstMark_plain (ps : List (Nat × Nat)) (h : ps ≠ []) : firstMark (plainRows ps) = some false := by
  cases ps with
  | nil => exact absurd rfl h
  | cons p ps => simp [plainRows, firstMark]

theorem lastMark_plain (ps : List (Nat × Nat)) (h : ps ≠ []) : lastMark (plainRows ps) = some false := by
  unfold lastMark plainRows
  rw [List.getLast?_map]
  cases hl : ps.getLast? with
  | none => simp [List.getLast?_eq_none_iff] at hl; exact absurd hl h
  | some p => rfl

theorem plainRows_ne_nil (ps : List (Nat × Nat)) (h : ps ≠ []) : plainRows ps ≠ [] := by
  cases ps with
  | nil => exact absurd rfl h
  | cons p ps => simp [plainRows]

theorem setFirst_ne_nil (rs : List Row) (h : rs ≠ []) : setFirst rs ≠ [] := by
  cases rs with
  | nil => exact absurd rfl h
  | cons r rs => simp [setFirst]

/-- `<` exactly on the first start iff `si`, `>` exactly on the last end iff `ei`, no other mark -/
theorem rows_marks (ps : List (Nat × Nat)) (si ei : Bool) (h : ps ≠ []) :
    innerMarksClean (rowsOf ps si ei) = true ∧ firstMark (rowsOf ps si ei) = some si ∧
    lastMark (rowsOf ps si ei) = some ei := by
  have hp := plainRows_ne_nil ps h
  unfold rowsOf
  cases si <;> cases ei <;> simp only [if_true, if_false, Bool.false_eq_true]
  · exact ⟨inner_plain ps, firstMark_plain ps h, lastMark_plain ps h⟩
  · exact ⟨by rw [inner_setLast]; exact inner_plain ps, by rw [firstMark_setLast]; exact firstMark_plain ps h,
      lastMark_setLast _ hp⟩
  · exact ⟨by rw [inner_setFirst]; exact inner_plain ps, firstMark_setFirst _ hp,
      by rw [lastMark_setFirst]; exact lastMark_plain ps h⟩
  · exact ⟨by rw [inner_setLast, inner_setFirst]; exact inner_plain ps,
      by rw [firstMark_setLast]; exact firstMark_setFirst _ hp, lastMark_setLast _ (setFirst_ne_nil _ hp)⟩

/-! ### block merging

  (`combineLoop false = combineLoop true` on an ordered layout is also proved in Proofs/TxIntrons.lean for C06; that
  file cannot be imported next to Spec/ReadingFrame.lean — both Spec/Transcript.lean and Spec/ReadingFrame.lean
  declare `BioCantor.Spec.okAA` — so the two short inductions are repeated here.) -/

open BioCantor.Proofs (comb combStart combineLoop_cons combineLoop_nil combineLoop_needs_false combStart_normal
  combStart_bases combStart_starts normal_pos sortBlocks_of_fst_lt mkCompoundLoc_ok)

theorem loop_false_cons (bs : List Blk) (c : Blk) (tl : List Blk) (nd : Bool)
    (hle : ∀ b ∈ bs, c.2 ≤ b.1) (hp : bs.Pairwise (fun a b => a.2 ≤ b.1)) (hv : ∀ b ∈ bs, b.1 ≤ b.2) :
    combineLoop false bs (some c.2) (c :: tl) nd = combineLoop true bs (some c.2) (c :: tl) nd := by
  induction bs generalizing c tl nd with
  | nil => simp [combineLoop]
  | cons b bs ih =>
    rw [List.pairwise_cons] at hp
    have hle' : ∀ x ∈ bs, c.2 ≤ x.1 := fun x hx => hle x (List.mem_cons_of_mem _ hx)
    have hv' : ∀ x ∈ bs, x.1 ≤ x.2 := fun x hx => hv x (List.mem_cons_of_mem _ hx)
    have hcb : c.2 ≤ b.1 := hle b (by simp)
    have hb : b.1 ≤ b.2 := hv b (by simp)
    unfold combineLoop
    by_cases h0 : b.2 - b.1 = 0
    · simp only [h0, if_true]
      exact ih c tl true hle' hp.2 hv'
    · simp only [h0, if_false]
      by_cases h1 : c.2 = b.1
      · have h2 : c.2 ≥ b.1 := by omega
        simp only [h1, h2, if_true, Bool.false_eq_true, if_false, ge_iff_le, Nat.le_refl]
        have := ih (c.1, max c.2 b.2) tl true
          (fun x hx => by have := hle' x hx; have := hp.1 x hx; simp only; omega) hp.2 hv'
        simpa [h1] using this
      · have h2 : ¬ c.2 ≥ b.1 := by omega
        simp only [h1, h2, if_false, Bool.false_eq_true]
        exact ih b (c :: tl) nd (fun x hx => hp.1 x hx) hp.2 hv'

theorem loop_false_nil (bs : List Blk) (cur : Option Nat) (nd : Bool)
    (hp : bs.Pairwise (fun a b => a.2 ≤ b.1)) (hv : ∀ b ∈ bs, b.1 ≤ b.2) :
    combineLoop false bs cur [] nd = combineLoop true bs cur [] nd := by
  induction bs generalizing cur nd with
  | nil => simp [combineLoop]
  | cons b bs ih =>
    rw [List.pairwise_cons] at hp
    have hv' : ∀ x ∈ bs, x.1 ≤ x.2 := fun x hx => hv x (List.mem_cons_of_mem _ hx)
    unfold combineLoop
    by_cases h0 : b.2 - b.1 = 0
    · simp only [h0, if_true]
      exact ih cur true hp.2 hv'
    · simp only [h0, if_false]
      have := loop_false_cons bs b [] nd (fun x hx => hp.1 x hx) hp.2 hv'
      cases cur <;> simpa using this

/-- `goodBlocks` spelled out -/
theorem good_iff : ∀ (bs : List Blk), goodBlocks bs = true ↔
    (bs.Pairwise (fun a b => a.2 ≤ b.1) ∧ ∀ b ∈ bs, b.1 < b.2)
  | [] => by simp [goodBlocks]
  | [a] => by simp [goodBlocks]
  | a :: b :: rest => by
    have ih := good_iff (b :: rest)
    simp only [goodBlocks, Bool.and_eq_true, decide_eq_true_eq, ih, List.pairwise_cons, List.mem_cons,
      forall_eq_or_imp]
    constructor
    · rintro ⟨⟨h1, h2⟩, ⟨h3, h4⟩, h5, h6⟩
      refine ⟨⟨⟨h2, ?_⟩, h3, h4⟩, h1, h5, h6⟩
      intro x hx
      have := h3 x hx; have := h6 x hx; omega
    · rintro ⟨⟨⟨h2, _⟩, h3, h4⟩, h1, h5, h6⟩
      exact ⟨⟨h1, h2⟩, ⟨h3, h4⟩, h5, h6⟩

theorem runsAux_range (s e n : Nat) (rest : List Nat) :
    runsAux (s, e) (List.range' e n ++ rest) = runsAux (s, e + n) rest := by
  induction n generalizing e with
  | zero => simp
  | succ n ih =>
    simp only [List.range'_succ, List.cons_append, runsAux, if_true]
    rw [ih (e + 1)]
    congr 2; omega

theorem comb_runs (c : Blk) (bs : List Blk) (hle : ∀ b ∈ bs, c.2 ≤ b.1)
    (hp : bs.Pairwise (fun a b => a.2 ≤ b.1)) (hpos : ∀ b ∈ bs, b.1 < b.2) :
    comb c bs = runsAux c (basesPlus bs) := by
  induction bs generalizing c with
  | nil => simp [comb, basesPlus, runsAux]
  | cons b bs ih =>
    rw [List.pairwise_cons] at hp
    have hb : b.1 < b.2 := hpos b (by simp)
    have hcb : c.2 ≤ b.1 := hle b (by simp)
    have hpos' : ∀ x ∈ bs, x.1 < x.2 := fun x hx => hpos x (List.mem_cons_of_mem _ hx)
    have h0 : ¬ (b.2 - b.1 = 0) := by omega
    unfold comb
    simp only [h0, if_false, basesPlus, blkAsc]
    by_cases h1 : c.2 = b.1
    · simp only [h1, if_true]
      have hc : c = (c.1, b.1) := by rw [← h1]
      rw [hc, runsAux_range]
      have hmax : max b.1 b.2 = b.1 + (b.2 - b.1) := by omega
      rw [← hmax]
      exact ih (c.1, max b.1 b.2) (fun x hx => by have := hp.1 x hx; simp only; omega) hp.2 hpos'
    · simp only [h1, if_false]
      obtain ⟨n, hn⟩ : ∃ n, b.2 - b.1 = n + 1 := ⟨b.2 - b.1 - 1, by omega⟩
      rw [hn, List.range'_succ, List.cons_append]
      have hne : ¬ (b.1 = c.2) := fun e => h1 e.symm
      simp only [runsAux, hne, if_false]
      rw [runsAux_range]
      have : (b.1, b.1 + 1 + n) = b := by
        have : b.1 + 1 + n = b.2 := by omega
        rw [this]
      rw [this]
      congr 1
      exact ih b (fun x hx => hp.1 x hx) hp.2 hpos'

/-- on an exon layout `_combine_blocks` yields the maximal runs of the covered positions -/
theorem combStart_runs (bs : List Blk) (h : goodBlocks bs = true) : combStart bs = mergedBlocks bs := by
  obtain ⟨hp, hpos⟩ := (good_iff bs).1 h
  cases bs with
  | nil => rfl
  | cons b bs =>
    rw [List.pairwise_cons] at hp
    have hb : b.1 < b.2 := hpos b (by simp)
    have h0 : ¬ (b.2 - b.1 = 0) := by omega
    unfold combStart mergedBlocks
    simp only [h0, if_false, basesPlus, blkAsc]
    obtain ⟨n, hn⟩ : ∃ n, b.2 - b.1 = n + 1 := ⟨b.2 - b.1 - 1, by omega⟩
    rw [hn, List.range'_succ, List.cons_append]
    simp only [runsOf]
    rw [runsAux_range]
    have : (b.1, b.1 + 1 + n) = b := by
      have : b.1 + 1 + n = b.2 := by omega
      rw [this]
    rw [this]
    exact comb_runs b bs (fun x hx => hp.1 x hx) hp.2 (fun x hx => hpos x (List.mem_cons_of_mem _ hx))

theorem fst_lt_of_good (bs : List Blk) (h : goodBlocks bs = true) : bs.Pairwise (fun a b => a.1 < b.1) := by
  obtain ⟨hp, hpos⟩ := (good_iff bs).1 h
  exact hp.imp_of_mem (fun {a _} ha _ hab => Nat.lt_of_lt_of_le (hpos a ha) hab)

theorem locBlocks_toSingle (l : Loc) : locBlocks (toSingleIfOne l) = l.blocks := by
  unfold toSingleIfOne
  split
  · rename_i b hb; simp [locBlocks, hb]
  · rfl

/-- the merged blocks keep strictly increasing starts -/
theorem merged_fst_lt (bs : List Blk) (h : goodBlocks bs = true) :
    (mergedBlocks bs).Pairwise (fun a b => a.1 < b.1) := by
  rw [← combStart_runs bs h]
  have hsub := combStart_starts bs
  have hlt : (bs.map Prod.fst).Pairwise (· < ·) := by
    rw [List.pairwise_map]; exact fst_lt_of_good bs h
  have := hlt.sublist hsub
  rwa [List.pairwise_map] at this

/-- `optimize_and_combine_blocks` of an exon layout, on every strand -/
theorem optimizeLoc_good' (bs : List Blk) (st : Strand) (h : goodBlocks bs = true) (hne : bs ≠ []) :
    ∃ l, optimizeLoc false ⟨bs, st⟩ = .ok l ∧ l = toSingleIfOne ⟨mergedBlocks bs, st⟩ := by
  obtain ⟨hp, hpos⟩ := (good_iff bs).1 h
  have hv : ∀ b ∈ bs, b.1 ≤ b.2 := fun b hb => Nat.le_of_lt (hpos b hb)
  have hloop : (combineLoop false bs none [] false).1 = mergedBlocks bs := by
    rw [loop_false_nil bs none false hp hv, combineLoop_nil, combStart_runs bs h]
  unfold optimizeLoc
  cases hcl : combineLoop false bs none [] false with
  | mk nb needs =>
    have hnb : nb = mergedBlocks bs := by rw [← hloop, hcl]
    cases needs with
    | false =>
      have := combineLoop_needs_false false bs none [] false (by rw [hcl])
      rw [hcl] at this
      simp only [List.reverse_nil, List.nil_append] at this
      refine ⟨toSingleIfOne ⟨bs, st⟩, by simp [pure, Except.pure], ?_⟩
      rw [← hnb, this]
    | true =>
      have hmne : mergedBlocks bs ≠ [] := by
        cases bs with
        | nil => exact absurd rfl hne
        | cons b bs => simp only [mergedBlocks, basesPlus, blkAsc]
                       have hb : b.1 < b.2 := hpos b (by simp)
                       obtain ⟨n, hn⟩ : ∃ n, b.2 - b.1 = n + 1 := ⟨b.2 - b.1 - 1, by omega⟩
                       rw [hn, List.range'_succ, List.cons_append]
                       simp only [runsOf]
                       cases hr : runsAux (b.1, b.1 + 1) (List.range' (b.1 + 1) n ++ basesPlus bs) with
                       | nil =>
                         exfalso
                         revert hr
                         generalize (List.range' (b.1 + 1) n ++ basesPlus bs) = ps
                         generalize (b.1, b.1 + 1) = cur
                         intro hr
                         induction ps generalizing cur with
                         | nil => simp [runsAux] at hr
                         | cons p ps ih =>
                           simp only [runsAux] at hr
                           split at hr
                           · exact ih _ hr
                           · simp at hr
                       | cons x xs => simp
      have hvalid : ∀ b ∈ mergedBlocks bs, b.1 ≤ b.2 := by
        intro b hb
        rw [← combStart_runs bs h] at hb
        exact Nat.le_of_lt (normal_pos _ (combStart_normal bs) b hb)
      have hmk := mkCompoundLoc_ok st hmne hvalid
      rw [sortBlocks_of_fst_lt st (merged_fst_lt bs h)] at hmk
      have he : (mergedBlocks bs).isEmpty = false := by simpa using hmne
      refine ⟨toSingleIfOne ⟨mergedBlocks bs, st⟩, ?_, rfl⟩
      simp only [Bool.true_eq_false, not_false_eq_true, not_true_eq_false, if_false, he, hnb, hmk, bind, Except.bind,
        Bool.false_eq_true, pure, Except.pure]

theorem optimizeLoc_good (bs : List Blk) (st : Strand) (h : goodBlocks bs = true) (hne : bs ≠ []) :
    ∃ l, optimizeLoc false ⟨bs, st⟩ = .ok l ∧ locBlocks l = mergedBlocks bs := by
  obtain ⟨l, h1, h2⟩ := optimizeLoc_good' bs st h hne
  exact ⟨l, h1, by rw [h2, locBlocks_toSingle]⟩

/-- **block merging in `TblGene`**: the merged exon blocks are the maximal runs of the covered positions -/
theorem mergeExons_runs (t : Tx) (h : goodBlocks t.exons = true) (hne : t.exons ≠ []) :
    mergeExons t = .ok (mergedBlocks t.exons) := by
  obtain ⟨hp, hpos⟩ := (good_iff t.exons).1 h
  unfold mergeExons
  split
  · rename_i b hb
    have hb' : b.1 < b.2 := hpos b (by rw [hb]; simp)
    have : mergedBlocks [b] = [b] := by
      have := combStart_runs [b] (by rw [← hb]; exact h)
      rw [← this]
      have h0 : ¬ (b.2 - b.1 = 0) := by omega
      simp [combStart, comb, h0]
    rw [hb, this]; rfl
  · have hmk := mkCompoundLoc_ok t.strand hne (fun b hb => Nat.le_of_lt (hpos b hb))
    rw [sortBlocks_of_fst_lt t.strand (fst_lt_of_good _ h)] at hmk
    obtain ⟨l, hl, hbl⟩ := optimizeLoc_good t.exons t.strand h hne
    simp only [hmk, hl, hbl, bind, Except.bind, pure, Except.pure]

/-- merging changes no covered position, on either strand, and reads them in the same 5'→3' order -/
theorem merged_same_bases (src : List Blk) (st : Strand) (h : goodBlocks src = true) :
    bases ⟨mergedBlocks src, st⟩ = bases ⟨src, st⟩ := by
  obtain ⟨_, hpos⟩ := (good_iff src).1 h
  have hb : basesPlus (mergedBlocks src) = basesPlus src := by
    rw [← combStart_runs src h]
    exact combStart_bases src (fun b hb => Nat.le_of_lt (hpos b hb))
  unfold bases
  cases st <;> simp only [BioCantor.Proofs.basesMinus_reverse, hb]

/-- no merged block is empty and none ends where the next begins: the runs are maximal -/
theorem merged_normal (src : List Blk) (h : goodBlocks src = true) : normalBlocks (mergedBlocks src) = true := by
  rw [← combStart_runs src h]; exact combStart_normal src

theorem merged_pos (src : List Blk) (h : goodBlocks src = true) : ∀ b ∈ mergedBlocks src, b.1 < b.2 :=
  normal_pos _ (merged_normal src h)

end BioCantor.Proofs.Tbl
