/-
  C01-T1/T2: the block walks of `relative_to_parent_pos` / `parent_to_relative_pos`
  are indexing into / searching in the 5'→3' base list.
-/
import BioCantor.Proofs.Common
namespace BioCantor.Proofs
open BioCantor BioCantor.Spec BioCantor.Model

theorem blkAsc_length (b : Blk) : (blkAsc b).length = b.len := by
  simp [blkAsc, Blk.len]

theorem blkDesc_length (b : Blk) : (blkDesc b).length = b.len := by
  simp [blkDesc, blkAsc, Blk.len]

theorem blkAsc_get (b : Blk) (r : Nat) (h : r < b.len) : (blkAsc b)[r]? = some (b.1 + r) := by
  unfold blkAsc Blk.len at *
  rw [List.getElem?_range' (by omega)]
  simp

theorem blkDesc_get (b : Blk) (r : Nat) (h : r < b.len) : (blkDesc b)[r]? = some (b.2 - 1 - r) := by
  unfold blkDesc
  have hl := blkAsc_length b
  rw [List.getElem?_reverse (by omega)]
  rw [blkAsc_get b _ (by omega)]
  unfold Blk.len at *
  congr 1; omega

theorem basesPlus_length (bs : List Blk) : (basesPlus bs).length = blocksLen bs := by
  induction bs with
  | nil => rfl
  | cons b bs ih => simp [basesPlus, blocksLen, blkAsc_length, ih]

theorem basesMinus_length (bs : List Blk) : (basesMinus bs).length = blocksLen bs := by
  induction bs with
  | nil => rfl
  | cons b bs ih => simp [basesMinus, blocksLen, blkDesc_length, ih]

theorem blocksLen_append (a b : List Blk) : blocksLen (a ++ b) = blocksLen a + blocksLen b := by
  induction a with
  | nil => simp [blocksLen]
  | cons x xs ih => simp [blocksLen, ih]; omega

theorem blocksLen_reverse_pm (bs : List Blk) : blocksLen bs.reverse = blocksLen bs := by
  induction bs with
  | nil => rfl
  | cons b bs ih => simp [blocksLen_append, blocksLen, ih]; omega

/-- `do_work` on the plus strand is indexing into the ascending concatenation. -/
theorem r2pWalk_plus (bs : List Blk) (r : Nat) : r2pWalk true bs r = (basesPlus bs)[r]? := by
  induction bs generalizing r with
  | nil => simp [r2pWalk, basesPlus]
  | cons b bs ih =>
    unfold r2pWalk basesPlus
    by_cases h : r < b.len
    · simp only [h, if_true]
      rw [List.getElem?_append_left (by rw [blkAsc_length]; exact h)]
      rw [blkAsc_get b r h]
    · simp only [h, if_false]
      rw [List.getElem?_append_right (by rw [blkAsc_length]; omega)]
      rw [blkAsc_length]
      exact ih _

/-- `do_work` on the minus strand (blocks already reversed) reads each block downwards. -/
theorem r2pWalk_minus (bs : List Blk) (r : Nat) : r2pWalk false bs r = (basesMinus bs)[r]? := by
  induction bs generalizing r with
  | nil => simp [r2pWalk, basesMinus]
  | cons b bs ih =>
    unfold r2pWalk basesMinus
    by_cases h : r < b.len
    · simp only [h, if_true]
      rw [List.getElem?_append_left (by rw [blkDesc_length]; exact h)]
      rw [blkDesc_get b r h]
      simp
    · simp only [h, if_false]
      rw [List.getElem?_append_right (by rw [blkDesc_length]; omega)]
      rw [blkDesc_length]
      exact ih _

theorem bases_length (l : Loc) : (bases l).length = l.len := by
  unfold bases Loc.len
  cases l.strand <;> simp [basesPlus_length, basesMinus_length, blocksLen_reverse_pm]

/-- `compoundR2P` once the strand is known to be directional. -/
theorem compoundR2P_walk (bs : List Blk) (st : Strand) (hd : st ≠ .unstranded) (r : Int) :
    ans (compoundR2P ⟨bs, st⟩ r) =
      if r < 0 then none else ((bases ⟨bs, st⟩)[r.toNat]?).map Int.ofNat := by
  have hlen := bases_length ⟨bs, st⟩
  unfold compoundR2P assertDirectional
  cases st with
  | unstranded => exact absurd rfl hd
  | plus =>
    simp only [bases] at hlen ⊢
    by_cases hneg : r < 0
    · have : ¬ (0 ≤ r ∧ r < ((⟨bs, .plus⟩ : Loc).len : Int)) := by omega
      simp [hneg, this, bind, Except.bind, pure, Except.pure, throw, throwThe, MonadExceptOf.throw]
    · by_cases hr : r < ((⟨bs, .plus⟩ : Loc).len : Int)
      · have hlt : r.toNat < (basesPlus bs).length := by omega
        have hw : r2pWalk true bs r.toNat = some (basesPlus bs)[r.toNat] := by
          rw [r2pWalk_plus, List.getElem?_eq_getElem hlt]
        have h0 : 0 ≤ r := by omega
        have hb : (Strand.plus != Strand.minus) = true := by decide
        simp [hneg, hr, h0, hb, hw, List.getElem?_eq_getElem hlt, bind, Except.bind, pure, Except.pure]
      · have hnone : (basesPlus bs)[r.toNat]? = none := by
          apply List.getElem?_eq_none; omega
        simp [hneg, hr, hnone, bind, Except.bind, pure, Except.pure, throw, throwThe, MonadExceptOf.throw]
  | minus =>
    simp only [bases] at hlen ⊢
    by_cases hneg : r < 0
    · have : ¬ (0 ≤ r ∧ r < ((⟨bs, .minus⟩ : Loc).len : Int)) := by omega
      simp [hneg, this, bind, Except.bind, pure, Except.pure, throw, throwThe, MonadExceptOf.throw]
    · by_cases hr : r < ((⟨bs, .minus⟩ : Loc).len : Int)
      · have hlt : r.toNat < (basesMinus bs.reverse).length := by omega
        have hw : r2pWalk false bs.reverse r.toNat = some (basesMinus bs.reverse)[r.toNat] := by
          rw [r2pWalk_minus, List.getElem?_eq_getElem hlt]
        have h0 : 0 ≤ r := by omega
        simp [hneg, hr, h0, hw, List.getElem?_eq_getElem hlt, bind, Except.bind, pure, Except.pure]
      · have hnone : (basesMinus bs.reverse)[r.toNat]? = none := by
          apply List.getElem?_eq_none; omega
        simp [hneg, hr, hnone, bind, Except.bind, pure, Except.pure, throw, throwThe, MonadExceptOf.throw]

/-- T1 for multi-block locations. -/
theorem compoundR2P_spec (l : Loc) (r : Int) :
    ans (compoundR2P l r) = expectR2P (.compound l) r := by
  obtain ⟨bs, st⟩ := l
  unfold expectR2P toLoc
  by_cases hd : st = .unstranded
  · subst hd
    simp [compoundR2P, assertDirectional, bind, Except.bind, throw, throwThe, MonadExceptOf.throw]
  · rw [compoundR2P_walk bs st hd r]
    simp [hd]

/-- T1 for single-block locations. -/
theorem singleR2P_spec (b : Blk) (st : Strand) (hb : b.1 ≤ b.2) (r : Int) :
    ans (singleR2P b st r) = expectR2P (.single b st) r := by
  unfold singleR2P expectR2P toLoc
  have hlenA := blkAsc_length b
  have hlenD := blkDesc_length b
  by_cases hr : r < 0 ∨ r ≥ (b.len : Int)
  · rcases hr with hneg | hge
    · cases st <;> simp [hneg, throw, throwThe, MonadExceptOf.throw]
    · have hn : ¬ r < 0 := by omega
      have h1 : (blkAsc b)[r.toNat]? = none := by apply List.getElem?_eq_none; omega
      have h2 : (blkDesc b)[r.toNat]? = none := by apply List.getElem?_eq_none; omega
      cases st <;> simp [hge, hn, bases, basesPlus, basesMinus, h1, h2, throw, throwThe, MonadExceptOf.throw]
  · have hn : ¬ r < 0 := by omega
    have hlt : r.toNat < b.len := by omega
    have h1 := blkAsc_get b r.toNat hlt
    have h2 := blkDesc_get b r.toNat hlt
    have hlen : b.len = b.2 - b.1 := rfl
    cases st
    · have hr2 : ¬ ((b.len : Int) ≤ r) := by omega
      simp [hr2, hn, bases, basesPlus, h1, pure, Except.pure]; omega
    · have hr2 : ¬ ((b.len : Int) ≤ r) := by omega
      simp [hr2, hn, bases, basesMinus, h2, pure, Except.pure]; omega
    · simp [hr, throw, throwThe, MonadExceptOf.throw]

/-- **C01-T1**: `relative_to_parent_pos` enumerates the location's bases 5'→3'; it answers exactly
    for `0 ≤ r < len` on a directional location. -/
theorem r2p_ok (l : Location) (h : WF l) (r : Int) : okR2P l r (ans (r2p l r)) = true := by
  unfold okR2P
  cases l with
  | single b st => simp only [r2p]; rw [singleR2P_spec b st h r]; simp
  | compound l => simp only [r2p]; rw [compoundR2P_spec l r]; simp
  | empty => simp [r2p, expectR2P, toLoc, throw, throwThe, MonadExceptOf.throw]

/-! ### parent → relative -/

theorem idxOf?_append (p : Nat) (a b : List Nat) :
    idxOf? p (a ++ b) = match idxOf? p a with
      | some i => some i
      | none => (idxOf? p b).map (· + a.length) := by
  induction a with
  | nil => simp [idxOf?]
  | cons x xs ih =>
    simp only [List.cons_append, idxOf?]
    by_cases hx : x = p
    · simp [hx]
    · simp only [hx, if_false, ih]
      cases idxOf? p xs <;> simp
      cases idxOf? p b <;> simp; omega

theorem idxOf?_range' (p s n : Nat) :
    idxOf? p (List.range' s n) = if s ≤ p ∧ p < s + n then some (p - s) else none := by
  induction n generalizing s with
  | zero => simp [idxOf?]
  | succ n ih =>
    simp only [List.range'_succ, idxOf?]
    by_cases hx : s = p
    · subst hx; simp
    · simp only [hx, if_false, ih]
      by_cases hin : s + 1 ≤ p ∧ p < s + 1 + n
      · have : s ≤ p ∧ p < s + (n + 1) := by omega
        simp [hin, this]; omega
      · have : ¬ (s ≤ p ∧ p < s + (n + 1)) := by omega
        simp [hin, this]

theorem idxOf?_range'_reverse (p s n : Nat) :
    idxOf? p (List.range' s n).reverse = if s ≤ p ∧ p < s + n then some (s + n - 1 - p) else none := by
  induction n with
  | zero => simp [idxOf?]
  | succ n ih =>
    rw [List.range'_concat, List.reverse_append, Nat.one_mul]
    simp only [List.reverse_cons, List.reverse_nil, List.nil_append, List.singleton_append, idxOf?, Nat.mul_one]
    by_cases hx : s + n = p
    · subst hx; simp
    · simp only [hx, if_false, ih]
      by_cases hin : s ≤ p ∧ p < s + n
      · have : s ≤ p ∧ p < s + (n + 1) := by omega
        simp only [hin, this, and_self, if_true, Option.map_some, Option.some.injEq]; omega
      · have : ¬ (s ≤ p ∧ p < s + (n + 1)) := by omega
        simp only [hin, this, if_false, Option.map_none]

theorem idxOf?_blkAsc (p : Nat) (b : Blk) (hb : b.1 ≤ b.2) :
    idxOf? p (blkAsc b) = if b.1 ≤ p ∧ p < b.2 then some (p - b.1) else none := by
  unfold blkAsc; rw [idxOf?_range']
  by_cases h : b.1 ≤ p ∧ p < b.2
  · have : b.1 ≤ p ∧ p < b.1 + (b.2 - b.1) := by omega
    simp [h, this]
  · have : ¬ (b.1 ≤ p ∧ p < b.1 + (b.2 - b.1)) := by omega
    simp [h, this]

theorem idxOf?_blkDesc (p : Nat) (b : Blk) (hb : b.1 ≤ b.2) :
    idxOf? p (blkDesc b) = if b.1 ≤ p ∧ p < b.2 then some (b.2 - 1 - p) else none := by
  unfold blkDesc blkAsc; rw [idxOf?_range'_reverse]
  by_cases h : b.1 ≤ p ∧ p < b.2
  · have : b.1 ≤ p ∧ p < b.1 + (b.2 - b.1) := by omega
    simp [h, this]; omega
  · have : ¬ (b.1 ≤ p ∧ p < b.1 + (b.2 - b.1)) := by omega
    simp [h, this]

theorem blocksValid_cons (b : Blk) (bs : List Blk) :
    blocksValid (b :: bs) = true ↔ b.1 ≤ b.2 ∧ blocksValid bs = true := by
  simp [blocksValid]

/-- the loop of `CompoundInterval.parent_to_relative_pos`, plus strand -/
theorem p2rWalk_plus (p : Int) (bs : List Blk) (hv : blocksValid bs = true) (acc : Int) :
    ans (p2rWalk .plus p bs acc) =
      if p < 0 then none else (idxOf? p.toNat (basesPlus bs)).map (fun i => acc + (i : Int)) := by
  induction bs generalizing acc with
  | nil => simp [p2rWalk, basesPlus, idxOf?, throw, throwThe, MonadExceptOf.throw]
  | cons b bs ih =>
    obtain ⟨hb, hv'⟩ := (blocksValid_cons b bs).1 hv
    unfold p2rWalk singleP2R basesPlus
    rw [idxOf?_append, idxOf?_blkAsc _ _ hb, blkAsc_length]
    by_cases hin : (b.1 : Int) ≤ p ∧ p < (b.2 : Int)
    · have h1 : ¬ (p < (b.1 : Int) ∨ p ≥ (b.2 : Int)) := by omega
      have h2 : b.1 ≤ p.toNat ∧ p.toNat < b.2 := by omega
      have h3 : ¬ p < 0 := by omega
      simp [h1, h2, h3, pure, Except.pure]; omega
    · have h1 : (p < (b.1 : Int) ∨ p ≥ (b.2 : Int)) := by omega
      by_cases hneg : p < 0
      · simp [h1, hneg, throw, throwThe, MonadExceptOf.throw, ih hv']
      · have h2 : ¬ (b.1 ≤ p.toNat ∧ p.toNat < b.2) := by omega
        simp [h1, h2, hneg, throw, throwThe, MonadExceptOf.throw, ih hv']
        cases idxOf? p.toNat (basesPlus bs) <;> simp
        unfold Blk.len; omega

/-- the loop of `CompoundInterval.parent_to_relative_pos`, minus strand (blocks already reversed) -/
theorem p2rWalk_minus (p : Int) (bs : List Blk) (hv : blocksValid bs = true) (acc : Int) :
    ans (p2rWalk .minus p bs acc) =
      if p < 0 then none else (idxOf? p.toNat (basesMinus bs)).map (fun i => acc + (i : Int)) := by
  induction bs generalizing acc with
  | nil => simp [p2rWalk, basesMinus, idxOf?, throw, throwThe, MonadExceptOf.throw]
  | cons b bs ih =>
    obtain ⟨hb, hv'⟩ := (blocksValid_cons b bs).1 hv
    unfold p2rWalk singleP2R basesMinus
    rw [idxOf?_append, idxOf?_blkDesc _ _ hb, blkDesc_length]
    by_cases hin : (b.1 : Int) ≤ p ∧ p < (b.2 : Int)
    · have h1 : ¬ (p < (b.1 : Int) ∨ p ≥ (b.2 : Int)) := by omega
      have h2 : b.1 ≤ p.toNat ∧ p.toNat < b.2 := by omega
      have h3 : ¬ p < 0 := by omega
      simp [h1, h2, h3, pure, Except.pure]; omega
    · have h1 : (p < (b.1 : Int) ∨ p ≥ (b.2 : Int)) := by omega
      by_cases hneg : p < 0
      · simp [h1, hneg, throw, throwThe, MonadExceptOf.throw, ih hv']
      · have h2 : ¬ (b.1 ≤ p.toNat ∧ p.toNat < b.2) := by omega
        simp [h1, h2, hneg, throw, throwThe, MonadExceptOf.throw, ih hv']
        cases idxOf? p.toNat (basesMinus bs) <;> simp
        unfold Blk.len; omega

theorem blocksValid_append (a b : List Blk) :
    blocksValid (a ++ b) = true ↔ blocksValid a = true ∧ blocksValid b = true := by
  induction a with
  | nil => simp [blocksValid]
  | cons x xs ih => simp [blocksValid, ih, and_assoc]

theorem blocksValid_reverse (bs : List Blk) (h : blocksValid bs = true) : blocksValid bs.reverse = true := by
  induction bs with
  | nil => simp [blocksValid]
  | cons x xs ih =>
    obtain ⟨hb, hv⟩ := (blocksValid_cons x xs).1 h
    rw [List.reverse_cons, blocksValid_append]
    exact ⟨ih hv, by simp [blocksValid, hb]⟩

/-- T2 for multi-block locations -/
theorem compoundP2R_spec (l : Loc) (hv : blocksValid l.blocks = true) (p : Int) :
    ans (compoundP2R l p) = expectP2R (.compound l) p := by
  obtain ⟨bs, st⟩ := l
  unfold compoundP2R scanBlocks assertDirectional expectP2R toLoc
  cases st with
  | unstranded => simp [bind, Except.bind, throw, throwThe, MonadExceptOf.throw]
  | plus =>
    have := p2rWalk_plus p bs hv 0
    simp [bind, Except.bind, pure, Except.pure, this, bases]
    split
    · rfl
    · cases idxOf? p.toNat (basesPlus bs) <;> rfl
  | minus =>
    have := p2rWalk_minus p bs.reverse (blocksValid_reverse bs hv) 0
    simp [bind, Except.bind, pure, Except.pure, this, bases]
    split
    · rfl
    · cases idxOf? p.toNat (basesMinus bs.reverse) <;> rfl

/-- T2 for single-block locations -/
theorem singleP2R_spec (b : Blk) (st : Strand) (hb : b.1 ≤ b.2) (p : Int) :
    ans (singleP2R b st p) = expectP2R (.single b st) p := by
  unfold singleP2R expectP2R toLoc
  by_cases hin : (b.1 : Int) ≤ p ∧ p < (b.2 : Int)
  · have h1 : ¬ (p < (b.1 : Int) ∨ p ≥ (b.2 : Int)) := by omega
    have h2 : b.1 ≤ p.toNat ∧ p.toNat < b.2 := by omega
    have h3 : ¬ p < 0 := by omega
    cases st
    · simp [h1, h2, h3, bases, basesPlus, idxOf?_blkAsc _ _ hb, pure, Except.pure]; omega
    · simp [h1, h2, h3, bases, basesMinus, idxOf?_blkDesc _ _ hb, pure, Except.pure]; omega
    · simp [h1, throw, throwThe, MonadExceptOf.throw]
  · have h1 : (p < (b.1 : Int) ∨ p ≥ (b.2 : Int)) := by omega
    by_cases hneg : p < 0
    · cases st <;> simp [h1, hneg, throw, throwThe, MonadExceptOf.throw]
    · have h2 : ¬ (b.1 ≤ p.toNat ∧ p.toNat < b.2) := by omega
      cases st <;>
        simp [h1, h2, hneg, bases, basesPlus, basesMinus, idxOf?_blkAsc _ _ hb, idxOf?_blkDesc _ _ hb,
              throw, throwThe, MonadExceptOf.throw]

/-- **C01-T2**: `parent_to_relative_pos` returns the index of (the first occurrence of) the position
    in the 5'→3' base list and refuses every position that is not covered. -/
theorem p2r_ok (l : Location) (h : WF l) (p : Int) : okP2R l p (ans (p2r l p)) = true := by
  unfold okP2R
  cases l with
  | single b st => simp only [p2r]; rw [singleP2R_spec b st h p]; simp
  | compound l => simp only [p2r]; rw [compoundP2R_spec l h.2.1 p]; simp
  | empty => simp [p2r, expectP2R, toLoc, throw, throwThe, MonadExceptOf.throw]

theorem getElem?_of_idxOf? (p : Nat) (xs : List Nat) (i : Nat) (h : idxOf? p xs = some i) : xs[i]? = some p := by
  induction xs generalizing i with
  | nil => simp [idxOf?] at h
  | cons x xs ih =>
    simp only [idxOf?] at h
    by_cases hx : x = p
    · simp [hx] at h; subst h; simp [hx]
    · simp only [hx, if_false] at h
      cases hq : idxOf? p xs with
      | none => simp [hq] at h
      | some j => simp [hq] at h; subst h; simpa using ih j hq

theorem ans_eq_some {α} (x : Except Err α) (a : α) : ans x = some a ↔ x = .ok a := by
  cases x <;> simp [ans]

/-- `r2p` inverts `p2r` on every well-formed location. -/
theorem r2p_of_p2r (l : Location) (h : WF l) (p r : Int) (hp : p2r l p = .ok r) : r2p l r = .ok p := by
  have h2 := p2r_ok l h p
  have h1 := r2p_ok l h r
  unfold okP2R at h2; unfold okR2P at h1
  rw [hp] at h2
  simp only [ans_ok, beq_iff_eq] at h2 h1
  rw [← ans_eq_some, h1]
  unfold expectP2R at h2; unfold expectR2P
  cases hl : toLoc l with
  | none => simp [hl] at h2
  | some loc =>
    simp only [hl] at h2 ⊢
    by_cases hu : loc.strand = .unstranded
    · simp [hu] at h2
    · by_cases hneg : p < 0
      · simp [hu, hneg] at h2
      · simp only [hu, hneg, if_false] at h2 ⊢
        cases hq : idxOf? p.toNat (bases loc) with
        | none => simp [hq] at h2
        | some i =>
          simp [hq] at h2
          have := getElem?_of_idxOf? _ _ _ hq
          subst h2
          simp [this]; omega

end BioCantor.Proofs
