/-
  C11 / T5 (structure level) — in the SORTED output the rows naming a transcript as Parent, taken in file order,
  are exactly that transcript's exon rows (resp. CDS rows) in block order; shifted back they are the source blocks
  (resp. blocks with the phases of the export frames).
-/
import BioCantor.Proofs.GffIds
namespace BioCantor.Proofs.GffDecode
open BioCantor BioCantor.Model.Gff BioCantor.Proofs.GffRows BioCantor.Proofs.GffIds
open BioCantor.Spec.Gff (Str Quals SCds STx SGene SFeat SFc SChild SColl uuidShaped allGuids)

/-! ### list helpers -/

theorem nodup_subset_length {α} [DecidableEq α] {F E : List α} (hn : F.Nodup) (hs : ∀ x ∈ F, x ∈ E) :
    F.length ≤ E.length := by
  induction F generalizing E with
  | nil => simp
  | cons a F' ih =>
    rw [List.nodup_cons] at hn
    have ha : a ∈ E := hs a List.mem_cons_self
    have hsub : ∀ x ∈ F', x ∈ E.erase a := by
      intro x hx
      have hne : x ≠ a := fun e => hn.1 (e ▸ hx)
      exact (List.mem_erase_of_ne hne).mpr (hs x (List.mem_cons_of_mem _ hx))
    have := ih hn.2 hsub
    rw [List.length_erase_of_mem ha] at this
    have hpos : 0 < E.length := List.length_pos_of_mem ha
    simp only [List.length_cons]
    omega

/-- a sorted-stable filter argument: a list `E` that sits in `L` as a sublist, whose members all satisfy `p`, and
    that contains every member of `L` satisfying `p`, IS the filter — provided `L` has no duplicates -/
theorem filter_eq_of_sublist {α} [DecidableEq α] {E L : List α} {p : α → Bool} (hsub : E.Sublist L)
    (hall : ∀ x ∈ E, p x = true) (honly : ∀ x ∈ L, p x = true → x ∈ E) (hn : L.Nodup) : L.filter p = E := by
  have h1 : E.Sublist (L.filter p) := by
    have := hsub.filter p
    rwa [List.filter_eq_self.mpr hall] at this
  have h2 : (L.filter p).length ≤ E.length :=
    nodup_subset_length (hn.sublist List.filter_sublist) (fun x hx => by
      rw [List.mem_filter] at hx; exact honly x hx.1 hx.2)
  exact (h1.eq_of_length_le h2).symm

theorem pairwise_mem {α} {R : α → α → Prop} {l : List α} {x y : α} (h : l.Pairwise R) (hx : x ∈ l) (hy : y ∈ l) :
    x = y ∨ R x y ∨ R y x := by
  induction l with
  | nil => simp at hx
  | cons a rest ih =>
    rw [List.pairwise_cons] at h
    rcases List.mem_cons.mp hx with rfl | hx'
    · rcases List.mem_cons.mp hy with rfl | hy'
      · exact Or.inl rfl
      · exact Or.inr (Or.inl (h.1 y hy'))
    · rcases List.mem_cons.mp hy with rfl | hy'
      · exact Or.inr (Or.inr (h.1 x hx'))
      · exact ih h.2 hx' hy'

theorem pairwise_zip_fst {α β} {R : α → α → Prop} {l1 : List α} (l2 : List β) (h : l1.Pairwise R) :
    (l1.zip l2).Pairwise (fun p q => R p.1 q.1) := by
  induction l1 generalizing l2 with
  | nil => simp
  | cons a rest ih =>
    cases l2 with
    | nil => simp
    | cons b rest2 =>
      rw [List.pairwise_cons] at h
      simp only [List.zip_cons_cons, List.pairwise_cons]
      exact ⟨fun p hp => h.1 p.1 (List.of_mem_zip hp).1, ih rest2 h.2⟩

theorem enumFrom1_snd {α : Type} (l : List α) : (enumFrom1 l).map (·.2) = l := by
  unfold enumFrom1
  rw [List.map_map]
  have : ((fun x : Nat × α => x.2) ∘ fun p : Nat × α => (p.1 + 1, p.2)) = Prod.snd := rfl
  rw [this, List.map_snd_zip (by simp)]

theorem enumFrom1_pairwise_snd {α : Type} {R : α → α → Prop} {l : List α} (h : l.Pairwise R) :
    (enumFrom1 l).Pairwise (fun p q => R p.2 q.2) := by
  have : ((enumFrom1 l).map (·.2)).Pairwise R := by rw [enumFrom1_snd]; exact h
  exact List.pairwise_map.mp this

/-- ascending starts of a good block list -/
theorem goodBlocks_pairwise {bs : List Blk} (h : goodBlocks bs = true) : bs.Pairwise (fun a b => a.1 ≤ b.1) := by
  induction bs with
  | nil => simp
  | cons a rest ih =>
    rw [List.pairwise_cons]
    refine ⟨?_, ih (goodBlocks_tail h)⟩
    intro b hb
    have h1 := goodBlocks_bounds h a List.mem_cons_self
    have h2 := goodBlocks_bounds h b (List.mem_cons_of_mem _ hb)
    simp only [firstStart] at h1 h2
    omega

/-! ### the exon / CDS rows of one transcript, named -/

def exonRowsOf (cx : Ctx) (t : STx) (q : Quals) : List Row :=
  (enumFrom1 t.exons).map fun p =>
    ({ seqid := cx.seqid, type := .exon, start := p.2.1 - cx.off + 1, stop := p.2.2 - cx.off,
       strand := t.strand, phase := .NONE,
       attrs := ⟨['e', 'x', 'o', 'n', '-'] ++ t.guid ++ '-' :: natStr p.1, some t.guid, t.sym, q, cx.raise⟩ } : Row)

def cdsRowsOf (cx : Ctx) (t : STx) (q : Quals) : List Row :=
  match t.cds with
  | some c => cdsRows cx t c t.guid q
  | none => []

theorem txRows_split (cx : Ctx) (t : STx) (par : Str) (pq : Quals) :
    ∃ hd, txRows cx t par pq = hd :: exonRowsOf cx t (txExportQuals t pq) ++ cdsRowsOf cx t (txExportQuals t pq) ∧
      hd.type = .transcript := ⟨_, rfl, rfl⟩

theorem exonRowsOf_facts {cx : Ctx} {t : STx} {q : Quals} {r : Row} (h : r ∈ exonRowsOf cx t q) :
    r.type = .exon ∧ r.attrs.parent = some t.guid := by
  obtain ⟨p, _, rfl⟩ := List.mem_map.mp h
  exact ⟨rfl, rfl⟩

theorem cdsRowsOf_facts {cx : Ctx} {t : STx} {q : Quals} {r : Row} (h : r ∈ cdsRowsOf cx t q) :
    r.type = .cds ∧ r.attrs.parent = some t.guid := by
  unfold cdsRowsOf at h
  split at h
  · simp only [cdsRows, List.mem_map] at h
    obtain ⟨p, _, rfl⟩ := h
    exact ⟨rfl, rfl⟩
  · simp at h

theorem exonRowsOf_sorted {cx : Ctx} {t : STx} (q : Quals) (hg : goodBlocks t.exons = true) :
    (exonRowsOf cx t q).Pairwise (fun a b => rowLe a b = true) := by
  unfold exonRowsOf
  rw [List.pairwise_map]
  refine (enumFrom1_pairwise_snd (goodBlocks_pairwise hg)).imp ?_
  intro p r h
  simp only [rowLe, decide_eq_true_eq]
  omega

theorem cdsRowsOf_sorted {cx : Ctx} {t : STx} (q : Quals) (hg : ∀ k, t.cds = some k → goodBlocks k.blocks = true) :
    (cdsRowsOf cx t q).Pairwise (fun a b => rowLe a b = true) := by
  unfold cdsRowsOf
  cases hk : t.cds with
  | none => simp
  | some k =>
    simp only [cdsRows]
    rw [List.pairwise_map]
    refine (enumFrom1_pairwise_snd (pairwise_zip_fst _ (goodBlocks_pairwise (hg k hk)))).imp ?_
    intro p r h
    simp only [rowLe, decide_eq_true_eq]
    omega

/-! ### a GUID names one transcript of the collection -/

theorem txGuid_mem_child {g : SGene} {t : STx} (ht : t ∈ g.txs) : t.guid ∈ childGuids (.gene g) := by
  unfold childGuids
  exact List.mem_cons_of_mem _ (List.mem_flatMap.mpr ⟨t, ht, List.mem_cons_self⟩)

theorem tx_unique {c : SColl} (hnd : (allGuids c).Nodup) {g g' : SGene} {t t' : STx}
    (hg : SChild.gene g ∈ c.children) (ht : t ∈ g.txs) (hg' : SChild.gene g' ∈ c.children) (ht' : t' ∈ g'.txs)
    (e : t'.guid = t.guid) : g' = g ∧ t' = t := by
  rw [allGuids_eq] at hnd
  have hpw := List.pairwise_flatMap.mp (List.nodup_iff_pairwise_ne.mp hnd)
  have hgg : g' = g := by
    rcases pairwise_mem hpw.2 hg' hg with h | h | h
    · exact SChild.gene.inj h
    · exact absurd e (h _ (txGuid_mem_child ht') _ (txGuid_mem_child ht))
    · exact absurd e.symm (h _ (txGuid_mem_child ht) _ (txGuid_mem_child ht'))
  subst hgg
  refine ⟨rfl, ?_⟩
  have hn : (childGuids (.gene g')).Nodup := List.nodup_iff_pairwise_ne.mpr (hpw.1 _ hg)
  unfold childGuids at hn
  simp only at hn
  have htail := (List.nodup_cons.mp hn).2
  have hp2 := (List.pairwise_flatMap.mp (List.nodup_iff_pairwise_ne.mp htail)).2
  rcases pairwise_mem hp2 ht' ht with h | h | h
  · exact h
  · exact absurd e (h _ List.mem_cons_self _ List.mem_cons_self)
  · exact absurd e.symm (h _ List.mem_cons_self _ List.mem_cons_self)

theorem sortedRows_nodup (cx : Ctx) (c : SColl) (hnd : (allGuids c).Nodup)
    (hu : ∀ g ∈ allGuids c, uuidShaped g = true) : (sortedRows cx c).Nodup := by
  have h := sortedRows_ids_nodup cx c hnd hu
  rw [List.nodup_iff_pairwise_ne, List.pairwise_map] at h
  rw [List.nodup_iff_pairwise_ne]
  exact h.imp (by intro a b hab e; exact hab (by rw [e]))

/-! ### the child rows of a transcript in the sorted output -/

def isChildOf (ty : RowType) (guid : Str) (r : Row) : Bool := decide (r.type = ty ∧ r.attrs.parent = some guid)

theorem geneWF_tx {off : Nat} {g : SGene} {t : STx} (h : geneWF off g = true) (ht : t ∈ g.txs) : txWF off t = true := by
  unfold geneWF at h
  simp only [Bool.and_eq_true, List.all_eq_true] at h
  exact h.2 t ht

theorem collWF_gene {off : Nat} {c : SColl} {g : SGene} (h : collWF off c = true) (hg : SChild.gene g ∈ c.children) :
    geneWF off g = true := by
  unfold collWF at h
  exact List.all_eq_true.mp h _ hg

/-- where a row with a given type and Parent can come from -/
theorem child_row_source {cx : Ctx} {c : SColl} (hnd : (allGuids c).Nodup) {g : SGene} {t : STx}
    (hg : SChild.gene g ∈ c.children) (ht : t ∈ g.txs) {r : Row} (hr : r ∈ sortedRows cx c)
    (hp : r.attrs.parent = some t.guid) :
    (r.type = .exon → r ∈ exonRowsOf cx t (txExportQuals t (geneExportQuals g))) ∧
    (r.type = .cds → r ∈ cdsRowsOf cx t (txExportQuals t (geneExportQuals g))) := by
  rw [mem_sortedRows] at hr
  unfold unsortedRows at hr
  obtain ⟨x, hx, hrx⟩ := List.mem_flatMap.mp hr
  have hxc : x ∈ c.children := mem_sortedChildren.mp hx
  cases x with
  | fc f =>
    have hty : r.type = .featureCollection ∨ r.type = .featureInterval ∨ r.type = .subregion := by
      rcases fcRows_origin hrx with h | ⟨f', _, h | h⟩
      · exact Or.inl h.1
      · exact Or.inr (Or.inl h.1)
      · exact Or.inr (Or.inr h.1)
    refine ⟨fun h => ?_, fun h => ?_⟩
    · rcases hty with h' | h' | h' <;> rw [h'] at h <;> cases h
    · rcases hty with h' | h' | h' <;> rw [h'] at h <;> cases h
  | gene g' =>
    unfold childRows geneRows at hrx
    simp only at hrx
    rcases List.mem_cons.mp hrx with rfl | hrest
    · simp at hp
    · obtain ⟨t', ht', hrt⟩ := List.mem_flatMap.mp hrest
      obtain ⟨hd, hsplit, hty⟩ := txRows_split cx t' g'.guid (geneExportQuals g')
      rw [hsplit] at hrt
      rcases List.mem_cons.mp hrt with rfl | hin
      · refine ⟨fun h => ?_, fun h => ?_⟩ <;> · rw [hty] at h; cases h
      · rcases List.mem_append.mp hin with he | hc
        · have hf := exonRowsOf_facts he
          rw [hf.2] at hp
          obtain ⟨rfl, rfl⟩ := tx_unique hnd hg ht hxc ht' (Option.some.inj hp)
          exact ⟨fun _ => he, fun h => (by rw [hf.1] at h; cases h)⟩
        · have hf := cdsRowsOf_facts hc
          rw [hf.2] at hp
          obtain ⟨rfl, rfl⟩ := tx_unique hnd hg ht hxc ht' (Option.some.inj hp)
          exact ⟨fun h => (by rw [hf.1] at h; cases h), fun _ => hc⟩

theorem txRows_sublist_sorted_source {cx : Ctx} {c : SColl} {g : SGene} {t : STx}
    (hg : SChild.gene g ∈ c.children) (ht : t ∈ g.txs) :
    (txRows cx t g.guid (geneExportQuals g)).Sublist (unsortedRows cx c) := by
  have h1 : (txRows cx t g.guid (geneExportQuals g)).Sublist (geneRows cx g) := by
    unfold geneRows
    exact List.Sublist.cons _ (sublist_flatMap_of_mem (f := fun t => txRows cx t g.guid (geneExportQuals g)) ht)
  have h2 : (childRows cx (.gene g)).Sublist (unsortedRows cx c) :=
    sublist_flatMap_of_mem (mem_sortedChildren.mpr hg)
  exact h1.trans h2

/-- T5 (structure): in the sorted output, the rows of type exon (resp. CDS) whose Parent is the transcript's ID,
    in FILE ORDER, are exactly that transcript's exon (resp. CDS) rows in block order -/
theorem tx_children_in_sorted {cx : Ctx} {c : SColl} (hwf : collWF cx.off c = true) (hnd : (allGuids c).Nodup)
    (hu : ∀ g ∈ allGuids c, uuidShaped g = true) {g : SGene} {t : STx}
    (hg : SChild.gene g ∈ c.children) (ht : t ∈ g.txs) :
    (sortedRows cx c).filter (isChildOf .exon t.guid) = exonRowsOf cx t (txExportQuals t (geneExportQuals g)) ∧
    (sortedRows cx c).filter (isChildOf .cds t.guid) = cdsRowsOf cx t (txExportQuals t (geneExportQuals g)) := by
  obtain ⟨hne, hgood, hoff, hcds⟩ := txWF_parts (geneWF_tx (collWF_gene hwf hg) ht)
  have hn := sortedRows_nodup cx c hnd hu
  obtain ⟨hd, hsplit, _⟩ := txRows_split cx t g.guid (geneExportQuals g)
  have hsrc := txRows_sublist_sorted_source (cx := cx) hg ht
  rw [hsplit] at hsrc
  have hE : (exonRowsOf cx t (txExportQuals t (geneExportQuals g))).Sublist (unsortedRows cx c) :=
    ((List.sublist_append_left _ _).trans (List.sublist_cons_self _ _)).trans hsrc
  have hC : (cdsRowsOf cx t (txExportQuals t (geneExportQuals g))).Sublist (unsortedRows cx c) :=
    ((List.sublist_append_right _ _).trans (List.sublist_cons_self _ _)).trans hsrc
  have hkg : ∀ k, t.cds = some k → goodBlocks k.blocks = true := by
    intro k hk
    have := hcds k hk
    unfold cdsWF at this
    simp only [Bool.and_eq_true] at this
    exact this.1.1.1
  refine ⟨?_, ?_⟩
  · refine filter_eq_of_sublist ?_ ?_ ?_ hn
    · unfold sortedRows
      exact List.sublist_mergeSort rowLe_trans rowLe_total (exonRowsOf_sorted _ hgood) hE
    · intro r hr
      have := exonRowsOf_facts hr
      simp [isChildOf, this.1, this.2]
    · intro r hr hp
      simp only [isChildOf, decide_eq_true_eq] at hp
      exact (child_row_source hnd hg ht hr hp.2).1 hp.1
  · refine filter_eq_of_sublist ?_ ?_ ?_ hn
    · unfold sortedRows
      exact List.sublist_mergeSort rowLe_trans rowLe_total (cdsRowsOf_sorted _ hkg) hC
    · intro r hr
      have := cdsRowsOf_facts hr
      simp [isChildOf, this.1, this.2]
    · intro r hr hp
      simp only [isChildOf, decide_eq_true_eq] at hp
      exact (child_row_source hnd hg ht hr hp.2).2 hp.1

/-! ### shifted back, the rows are the source blocks -/

def rowBlk (off : Nat) (r : Row) : Blk := (r.start - 1 + off, r.stop + off)

theorem exonRowsOf_blocks {cx : Ctx} {t : STx} (q : Quals) (hwf : txWF cx.off t = true) :
    (exonRowsOf cx t q).map (rowBlk cx.off) = t.exons := by
  obtain ⟨_, hgood, hoff, _⟩ := txWF_parts hwf
  unfold exonRowsOf
  rw [List.map_map]
  conv => rhs; rw [← enumFrom1_snd t.exons]
  apply List.map_congr_left
  intro p hp
  have hb := goodBlocks_bounds hgood p.2 (mem_enumFrom1 hp).1
  simp only [Function.comp, rowBlk]
  ext <;> simp <;> omega

theorem cdsRowsOf_blocks {cx : Ctx} {t : STx} {k : SCds} (q : Quals) (hk : t.cds = some k)
    (hwf : txWF cx.off t = true) :
    (cdsRowsOf cx t q).map (fun r => (rowBlk cx.off r, r.phase)) =
      (k.blocks.zip (exportFrames cx t k)).map (fun bf => (bf.1, toPhase bf.2)) := by
  obtain ⟨_, _, hoff, hcds⟩ := txWF_parts hwf
  have hk' := hcds k hk
  unfold cdsWF at hk'
  simp only [Bool.and_eq_true, List.all_eq_true, decide_eq_true_eq] at hk'
  obtain ⟨⟨⟨hkg, hkin⟩, _⟩, _⟩ := hk'
  unfold cdsRowsOf
  rw [hk]
  simp only [cdsRows]
  rw [List.map_map]
  conv => rhs; rw [← enumFrom1_snd (k.blocks.zip (exportFrames cx t k)), List.map_map]
  apply List.map_congr_left
  intro p hp
  have hm := List.of_mem_zip (mem_enumFrom1 hp).1
  have hb := goodBlocks_bounds hkg p.2.1 hm.1
  have hin := hkin p.2.1 hm.1
  simp only [Function.comp, rowBlk, Prod.mk.injEq, and_true]
  ext <;> simp <;> omega

end BioCantor.Proofs.GffDecode
