/-
  C09 helper lemmas, part 7: GUID / identifier queries are their set-builder specifications.
-/
import BioCantor.Proofs.QueryPos
set_option linter.unusedSimpArgs false
namespace BioCantor.Proofs.Query
open BioCantor BioCantor.Spec BioCantor.Spec.Query BioCantor.Model.Query

/-! ### dicts keyed by guid -/

theorem dictGet_some {α} (key : α → Nat) (l : List α) (k : Nat) (x : α) (h : dictGet key l k = some x) :
    x ∈ l ∧ key x = k := by
  unfold dictGet at h
  refine ⟨List.mem_reverse.mp (List.mem_of_find?_eq_some h), ?_⟩
  have := List.find?_some h
  simpa using this

theorem dictGet_of_mem {α} (key : α → Nat) (l : List α) (hnd : (l.map key).Nodup) (x : α) (hx : x ∈ l) :
    dictGet key l (key x) = some x := by
  unfold dictGet
  cases hf : l.reverse.find? (fun y => key y == key x) with
  | none =>
    rw [List.find?_eq_none] at hf
    exact absurd (by simp) (hf x (List.mem_reverse.mpr hx))
  | some y =>
    have hy := List.mem_reverse.mp (List.mem_of_find?_eq_some hf)
    have hk := List.find?_some hf
    simp only [beq_iff_eq] at hk
    rw [nodup_map_inj key l hnd y hy x hx hk]

theorem nodup_of_nodup_map {α β} (f : α → β) (l : List α) (h : (l.map f).Nodup) : l.Nodup := by
  rw [List.nodup_iff_pairwise_ne] at *
  rw [List.pairwise_map] at h
  exact h.imp (fun hab heq => hab (by rw [heq]))

/-! ### bounds of the id queries -/

theorem foldl_min_assoc (l : List Int) (a b : Int) : List.foldl min (min a b) l = min a (List.foldl min b l) := by
  induction l generalizing b with
  | nil => rfl
  | cons x xs ih =>
    simp only [List.foldl_cons]
    rw [← ih]
    congr 1
    omega

theorem foldl_max_assoc (l : List Int) (a b : Int) : List.foldl max (max a b) l = max a (List.foldl max b l) := by
  induction l generalizing b with
  | nil => rfl
  | cons x xs ih =>
    simp only [List.foldl_cons]
    rw [← ih]
    congr 1
    omega

theorem idQueryBounds_eq (bs be : Int) (kept : List Child) :
    idQueryBounds bs be kept =
      (List.foldl min bs (((partKinds kept).map fun c => (c.start, c.stop)).map (·.1)),
       List.foldl max be (((partKinds kept).map fun c => (c.start, c.stop)).map (·.2))) := by
  unfold idQueryBounds
  generalize ((partKinds kept).map fun c => (c.start, c.stop)) = l
  cases l with
  | nil => rfl
  | cons x xs =>
    obtain ⟨x1, x2⟩ := x
    rw [hullOf_cons]
    simp only [List.map_cons, List.foldl_cons]
    rw [foldl_min_assoc, foldl_max_assoc]

theorem returnForIdQueries_bounds (bs be : Int) (keptM keptS : List Child) (hp : keptM.Perm keptS) :
    idQueryBounds bs be keptM = idBounds bs be keptS := by
  rw [idQueryBounds_eq]
  unfold idBounds
  rw [hullOf_cons]
  simp only [List.map_map]
  have hperm : (partKinds keptM).Perm keptS := (partKinds_perm keptM).trans hp
  rw [foldl_min_perm (hperm.map _) bs, foldl_max_perm (hperm.map _) be]

theorem foldl_min_id (l : List Int) (x : Int) (h : ∀ y ∈ l, x ≤ y) : List.foldl min x l = x := by
  obtain ⟨h1, h2, h3⟩ := foldl_min_spec l x
  rcases h1 with h1 | h1
  · exact h1
  · have := h _ h1; omega

theorem foldl_max_id (l : List Int) (x : Int) (h : ∀ y ∈ l, y ≤ x) : List.foldl max x l = x := by
  obtain ⟨h1, h2, h3⟩ := foldl_max_spec l x
  rcases h1 with h1 | h1
  · exact h1
  · have := h _ h1; omega

theorem idBounds_inside (bs be : Int) (kept : List Child) (h : ∀ c ∈ kept, bs ≤ c.start ∧ c.stop ≤ be) :
    idBounds bs be kept = (bs, be) := by
  unfold idBounds
  rw [hullOf_cons]
  simp only [List.map_map]
  rw [foldl_min_id, foldl_max_id]
  · intro y hy
    obtain ⟨c, hc, rfl⟩ := List.mem_map.mp hy
    exact (h c hc).2
  · intro y hy
    obtain ⟨c, hc, rfl⟩ := List.mem_map.mp hy
    exact (h c hc).1

theorem idBounds_contains (bs be : Int) (kept : List Child) :
    (idBounds bs be kept).1 ≤ bs ∧ be ≤ (idBounds bs be kept).2 := by
  unfold idBounds
  rw [hullOf_cons]
  exact ⟨(foldl_min_spec _ bs).2.1, (foldl_max_spec _ be).2.1⟩

theorem bounds_le_of_located {src : Source} (wf : SrcWF src) {bs be : Int} (hb : selfBounds src = some (bs, be))
    (hl : (locRange src).isSome = true) : bs ≤ be := by
  cases hp : src.par with
  | none => rw [locRange_noseq (by rw [hp]; rfl)] at hl; cases hl
  | noseq => rw [locRange_noseq (by rw [hp]; rfl)] at hl; cases hl
  | whole seq => have := bounds_whole wf hp hb; omega
  | chunk cs seq => exact bounds_chunk wf hp hb

theorem idBounds_subset (src : Source) (wf : SrcWF src) (bs be : Int) (hb : selfBounds src = some (bs, be))
    (keptS : List Child) (ns ne : Int) (hnb : idBounds bs be keptS = (ns, ne)) : SubsetDomain src ns ne := by
  intro hl
  have hc := idBounds_contains bs be keptS
  rw [hnb] at hc
  simp only at hc
  have hle := bounds_le_of_located wf hb hl
  omega

/-- the shared tail of every id query: `_return_collection_for_id_queries` on kept members `keptM` that are, as a
    set, the specified `keptS ⊆ src.children` -/
theorem returnForIdQueries_meets (src : Source) (wf : SrcWF src) (bs be : Int) (hb : selfBounds src = some (bs, be))
    (keptM keptS : List Child) (hperm : keptM.Perm keptS) (hsub : ∀ c ∈ keptS, c ∈ src.children)
    (hnd : (keptS.map Child.guid).Nodup) :
    okIdResult src keptS (toAns (returnForIdQueries src keptM)) = true := by
  unfold okIdResult expectIdResult returnForIdQueries
  rw [specBounds_eq_self hb, checkSource_ok wf.cons, needBounds_of hb]
  simp only [bind, Except.bind]
  rw [returnForIdQueries_bounds bs be keptM keptS hperm]
  generalize hnb : idBounds bs be keptS = nb
  obtain ⟨ns, ne⟩ := nb
  simp only []
  obtain ⟨r, hr, hrn⟩ := buildNew_meets src wf bs be hb keptM keptS hperm hsub hnd ns ne
    (idBounds_subset src wf bs be hb keptS ns ne hnb)
  rw [hr]
  simp only [toAns, meets, beq_iff_eq]
  exact hrn

/-! ### `query_by_guids` -/

theorem keptByGuids_perm (src : Source) (wf : SrcWF src) (ids : List Nat) (hids : ids.Nodup) :
    (ids.filterMap (dictGet Child.guid (iterChildren src))).Perm (keptByGuids src ids) := by
  have hndI : ((iterChildren src).map Child.guid).Nodup :=
    (((iterChildren_perm src).map Child.guid).nodup_iff).mpr wf.guids
  rw [List.perm_ext_iff_of_nodup]
  · intro c
    unfold keptByGuids
    rw [List.mem_filterMap, List.mem_filter]
    constructor
    · rintro ⟨k, hk, hd⟩
      obtain ⟨hm, hg⟩ := dictGet_some _ _ _ _ hd
      exact ⟨mem_iterChildren.mp hm, by rw [hg]; exact List.contains_iff_mem.mpr hk⟩
    · rintro ⟨hm, hc⟩
      exact ⟨c.guid, List.contains_iff_mem.mp hc, dictGet_of_mem _ _ hndI c (mem_iterChildren.mpr hm)⟩
  · rw [List.nodup_iff_pairwise_ne] at hids ⊢
    refine List.Pairwise.filterMap _ ?_ hids
    intro a a' hne b hb b' hb' heq
    subst heq
    have h1 := (dictGet_some _ _ _ _ hb).2
    have h2 := (dictGet_some _ _ _ _ hb').2
    omega
  · exact (nodup_of_nodup_map Child.guid _ wf.guids).sublist List.filter_sublist

/-- T3a: `query_by_guids` returns exactly { c | c.guid ∈ ids } -/
theorem queryByGuids_meets (src : Source) (wf : SrcWF src) (ids : List Nat) (hids : ids.Nodup) (bs be : Int)
    (hb : selfBounds src = some (bs, be)) :
    okQueryByGuids src ids (toAns (queryByGuids src ids)) = true := by
  unfold okQueryByGuids queryByGuids
  exact returnForIdQueries_meets src wf bs be hb _ _ (keptByGuids_perm src wf ids hids)
    (fun c hc => (List.mem_filter.mp hc).1) (nodup_guid_filter wf.guids _)

/-! ### `query_by_feature_identifiers` -/

/-- T3b: `query_by_feature_identifiers` returns exactly { c | c.identifiers ∩ ids ≠ ∅ } -/
theorem queryByIdentifiers_meets (src : Source) (wf : SrcWF src) (ids : List (List Char)) (bs be : Int)
    (hb : selfBounds src = some (bs, be)) :
    okQueryByIdentifiers src ids (toAns (queryByIdentifiers src ids)) = true := by
  unfold okQueryByIdentifiers queryByIdentifiers keptByIdentifiers
  exact returnForIdQueries_meets src wf bs be hb _ _ ((iterChildren_perm src).filter _)
    (fun c hc => (List.mem_filter.mp hc).1) (nodup_guid_filter wf.guids _)

end BioCantor.Proofs.Query
