/- C13: `AnnotationCollection.alternative_haplotype_mapping` — every haplotype's bucket holds exactly the members whose
   span overlaps it, each incorporated with THAT haplotype alone (per-key independence), for any number of haplotypes
   and members; the interval-tree branch fills the buckets identically. -/
import BioCantor.Proofs.VarOpt
namespace BioCantor.Proofs.Var
open BioCantor BioCantor.Model
open BioCantor.Model.Variants (Var Par Seq Ver Shown Member HapMap dictAppend bucket memberLoop hapLoop hapMapping hapInner
  hapMappingTree incorporateMember memberSpan hapSpan spansOverlap chainOrder)

/-- the members of one haplotype, functionally: walk the members in order, keep those whose span overlaps the
    haplotype's span, incorporate each with this haplotype -/
def collect (ver : Ver) (par : Par) (ref : Seq) (vs : List Var) : List (Nat × Member) → R (List (Nat × List Shown))
  | [] => pure []
  | (j, m) :: rest =>
    if spansOverlap (memberSpan m) (hapSpan vs) then do
      let x ← incorporateMember ver par ref vs m
      let r ← collect ver par ref vs rest
      pure ((j, x) :: r)
    else collect ver par ref vs rest

/-! ### the dict -/

theorem lookup_dictAppend (k : Nat) (x : Nat × List Shown) (d : HapMap) (i : Nat) :
    bucket (dictAppend k x d) i = if i = k then bucket d k ++ [x] else bucket d i := by
  induction d with
  | nil =>
    by_cases h : i = k
    · subst h; simp [dictAppend, bucket, List.lookup]
    · have : (i == k) = false := by simpa using h
      simp [dictAppend, bucket, List.lookup, h, this]
  | cons e es ih =>
    unfold dictAppend
    by_cases he : e.1 = k
    · simp only [he, if_true]
      by_cases h : i = k
      · subst h
        simp [bucket, List.lookup, he]
      · have h1 : (i == k) = false := by simpa using h
        have h2 : (i == e.1) = false := by rw [he]; exact h1
        simp [bucket, List.lookup, h, h1, h2]
    · simp only [he, if_false]
      by_cases hi : i = e.1
      · have hik : ¬ i = k := by rw [hi]; exact he
        subst hi
        simp [bucket, List.lookup, hik]
      · have h2 : (i == e.1) = false := by simpa using hi
        have h3 : (k == e.1) = false := by simpa using (fun h : k = e.1 => he h.symm)
        have := ih
        simp only [bucket, List.lookup, h2, h3] at this ⊢
        exact this

/-! ### the plain branch -/

theorem memberLoop_spec (ver : Ver) (par : Par) (ref : Seq) (i : Nat) (vs : List Var) (ms : List (Nat × Member))
    (d d' : HapMap) (h : memberLoop ver par ref i vs ms d = .ok d') :
    ∃ e, collect ver par ref vs ms = .ok e ∧ bucket d' i = bucket d i ++ e ∧ ∀ i', i' ≠ i → bucket d' i' = bucket d i' := by
  induction ms generalizing d with
  | nil =>
    simp only [memberLoop, pure, Except.pure, Except.ok.injEq] at h
    subst h
    exact ⟨[], rfl, by simp, fun _ _ => rfl⟩
  | cons p rest ih =>
    obtain ⟨j, m⟩ := p
    unfold memberLoop at h
    unfold collect
    by_cases hov : spansOverlap (memberSpan m) (hapSpan vs) = true
    · simp only [hov, if_true, bind, Except.bind] at h ⊢
      cases hx : incorporateMember ver par ref vs m with
      | error err => rw [hx] at h; simp at h
      | ok x =>
        rw [hx] at h
        simp only at h ⊢
        obtain ⟨e, he, hb, ho⟩ := ih _ h
        refine ⟨(j, x) :: e, by rw [he]; rfl, ?_, ?_⟩
        · rw [hb, lookup_dictAppend]; simp
        · intro i' hi'
          rw [ho i' hi', lookup_dictAppend]; simp [hi']
    · simp only [hov] at h ⊢
      exact ih d h

theorem hapLoop_spec (ver : Ver) (par : Par) (ref : Seq) (ms : List (Nat × Member)) (haps : List (List Var)) (i0 : Nat)
    (d d' : HapMap) (h : hapLoop ver par ref ms i0 haps d = .ok d') :
    (∀ k (hk : k < haps.length), ∃ e, collect ver par ref haps[k] ms = .ok e ∧ bucket d' (i0 + k) = bucket d (i0 + k) ++ e)
    ∧ ∀ i', (i' < i0 ∨ i0 + haps.length ≤ i') → bucket d' i' = bucket d i' := by
  induction haps generalizing i0 d with
  | nil =>
    simp only [hapLoop, pure, Except.pure, Except.ok.injEq] at h
    subst h
    exact ⟨fun k hk => absurd hk (by simp), fun _ _ => rfl⟩
  | cons vs rest ih =>
    unfold hapLoop at h
    simp only [bind, Except.bind] at h
    cases hm : memberLoop ver par ref i0 vs ms d with
    | error err => rw [hm] at h; simp at h
    | ok d1 =>
      rw [hm] at h
      simp only at h
      obtain ⟨e0, he0, hb0, ho0⟩ := memberLoop_spec ver par ref i0 vs ms d d1 hm
      obtain ⟨hin, hout⟩ := ih (i0 + 1) d1 h
      refine ⟨?_, ?_⟩
      · intro k hk
        cases k with
        | zero =>
          refine ⟨e0, he0, ?_⟩
          rw [Nat.add_zero, hout i0 (Or.inl (by omega)), hb0]
        | succ k' =>
          obtain ⟨e, he, hb⟩ := hin k' (by simpa using hk)
          refine ⟨e, by simpa using he, ?_⟩
          have e1 : i0 + (k' + 1) = i0 + 1 + k' := by omega
          rw [e1, hb, ho0 (i0 + 1 + k') (by omega)]
      · intro i' hi'
        simp only [List.length_cons] at hi'
        rw [hout i' (by omega), ho0 i' (by omega)]

/-- per-key independence: the bucket of haplotype `i` is `collect` of haplotype `i` alone -/
theorem hapMapping_buckets (ver : Ver) (par : Par) (ref : Seq) (haps : List (List Var)) (members : List Member)
    (d : HapMap) (h : hapMapping ver par ref haps members = .ok d) :
    (∀ i (hi : i < haps.length), collect ver par ref haps[i] (chainOrder members) = .ok (bucket d i))
    ∧ ∀ i, haps.length ≤ i → bucket d i = [] := by
  obtain ⟨hin, hout⟩ := hapLoop_spec ver par ref (chainOrder members) haps 0 [] d h
  refine ⟨?_, ?_⟩
  · intro i hi
    obtain ⟨e, he, hb⟩ := hin i hi
    rw [he]
    simp only [Nat.zero_add] at hb
    rw [hb]; simp [bucket]
  · intro i hi
    rw [hout i (Or.inr (by omega))]; rfl

/-- membership: a bucket lists exactly the members (in chain order) whose span overlaps the haplotype's span -/
theorem collect_members (ver : Ver) (par : Par) (ref : Seq) (vs : List Var) (ms : List (Nat × Member))
    (e : List (Nat × List Shown)) (h : collect ver par ref vs ms = .ok e) :
    e.map (·.1) = (ms.filter fun p => spansOverlap (memberSpan p.2) (hapSpan vs)).map (·.1)
    ∧ ∀ p ∈ e, ∃ m, (p.1, m) ∈ ms ∧ incorporateMember ver par ref vs m = .ok p.2 := by
  induction ms generalizing e with
  | nil =>
    simp only [collect, pure, Except.pure, Except.ok.injEq] at h
    subst h; exact ⟨rfl, fun p hp => absurd hp (by simp)⟩
  | cons q rest ih =>
    obtain ⟨j, m⟩ := q
    unfold collect at h
    by_cases hov : spansOverlap (memberSpan m) (hapSpan vs) = true
    · simp only [hov, if_true, bind, Except.bind] at h
      cases hx : incorporateMember ver par ref vs m with
      | error err => rw [hx] at h; simp at h
      | ok x =>
        rw [hx] at h
        simp only at h
        cases hr : collect ver par ref vs rest with
        | error err => rw [hr] at h; simp at h
        | ok r =>
          rw [hr] at h
          simp only [pure, Except.pure, Except.ok.injEq] at h
          subst h
          obtain ⟨h1, h2⟩ := ih r hr
          refine ⟨by simp [hov, h1], ?_⟩
          intro p hp
          rcases List.mem_cons.mp hp with rfl | hp'
          · exact ⟨m, by simp, hx⟩
          · obtain ⟨m', hm', hi'⟩ := h2 p hp'
            exact ⟨m', List.mem_cons_of_mem _ hm', hi'⟩
    · simp only [hov] at h
      obtain ⟨h1, h2⟩ := ih e h
      refine ⟨by simp [hov, h1], ?_⟩
      intro p hp
      obtain ⟨m', hm', hi'⟩ := h2 p hp
      exact ⟨m', List.mem_cons_of_mem _ hm', hi'⟩

/-- the model's overlap test is the specification's "the spans share a position" -/
theorem spansOverlap_eq (a b : Option Blk) : spansOverlap a b = Spec.Variants.spansMeet a b := by
  cases a <;> cases b <;> simp only [spansOverlap, Spec.Variants.spansMeet]
  rename_i x y
  rw [Bool.eq_iff_iff, overlapKernel_iff]; simp

/-! ### the interval-tree branch -/

theorem hapInner_spec (ver : Ver) (par : Par) (ref : Seq) (j : Nat) (m : Member) (haps : List (List Var)) (i0 : Nat)
    (d d' : HapMap) (h : hapInner ver par ref j m i0 haps d = .ok d') :
    (∀ k (hk : k < haps.length),
        (spansOverlap (memberSpan m) (hapSpan haps[k]) = true →
          ∃ x, incorporateMember ver par ref haps[k] m = .ok x ∧ bucket d' (i0 + k) = bucket d (i0 + k) ++ [(j, x)])
        ∧ (spansOverlap (memberSpan m) (hapSpan haps[k]) = false → bucket d' (i0 + k) = bucket d (i0 + k)))
    ∧ ∀ i', (i' < i0 ∨ i0 + haps.length ≤ i') → bucket d' i' = bucket d i' := by
  induction haps generalizing i0 d with
  | nil =>
    simp only [hapInner, pure, Except.pure, Except.ok.injEq] at h
    subst h
    exact ⟨fun k hk => absurd hk (by simp), fun _ _ => rfl⟩
  | cons vs rest ih =>
    unfold hapInner at h
    by_cases hov : spansOverlap (memberSpan m) (hapSpan vs) = true
    · simp only [hov, if_true, bind, Except.bind] at h
      cases hx : incorporateMember ver par ref vs m with
      | error err => rw [hx] at h; simp at h
      | ok x =>
        rw [hx] at h
        simp only at h
        obtain ⟨hin, hout⟩ := ih (i0 + 1) _ h
        refine ⟨?_, ?_⟩
        · intro k hk
          cases k with
          | zero =>
            refine ⟨fun _ => ⟨x, hx, ?_⟩, fun hf => ?_⟩
            · rw [Nat.add_zero, hout i0 (Or.inl (by omega)), lookup_dictAppend]; simp
            · simp only [List.getElem_cons_zero] at hf; rw [hov] at hf; exact absurd hf (by simp)
          | succ k' =>
            have e1 : i0 + (k' + 1) = i0 + 1 + k' := by omega
            have hne : i0 + 1 + k' ≠ i0 := by omega
            obtain ⟨h1, h2⟩ := hin k' (by simpa using hk)
            refine ⟨fun ho => ?_, fun ho => ?_⟩
            · obtain ⟨y, hy, hb⟩ := h1 (by simpa using ho)
              refine ⟨y, by simpa using hy, ?_⟩
              rw [e1, hb, lookup_dictAppend]; simp [hne]
            · rw [e1, h2 (by simpa using ho), lookup_dictAppend]; simp [hne]
        · intro i' hi'
          simp only [List.length_cons] at hi'
          rw [hout i' (by omega), lookup_dictAppend]
          have : i' ≠ i0 := by omega
          simp [this]
    · have hov' : spansOverlap (memberSpan m) (hapSpan vs) = false := by simpa using hov
      simp only [hov', Bool.false_eq_true, if_false] at h
      obtain ⟨hin, hout⟩ := ih (i0 + 1) _ h
      refine ⟨?_, ?_⟩
      · intro k hk
        cases k with
        | zero =>
          refine ⟨fun ht => ?_, fun _ => ?_⟩
          · simp only [List.getElem_cons_zero] at ht; rw [hov'] at ht; exact absurd ht (by simp)
          · rw [Nat.add_zero, hout i0 (Or.inl (by omega))]
        | succ k' =>
          have e1 : i0 + (k' + 1) = i0 + 1 + k' := by omega
          obtain ⟨h1, h2⟩ := hin k' (by simpa using hk)
          refine ⟨fun ho => ?_, fun ho => ?_⟩
          · obtain ⟨y, hy, hb⟩ := h1 (by simpa using ho)
            exact ⟨y, by simpa using hy, by rw [e1, hb]⟩
          · rw [e1, h2 (by simpa using ho)]
      · intro i' hi'
        simp only [List.length_cons] at hi'
        exact hout i' (by omega)

theorem hapMappingTree_spec (ver : Ver) (par : Par) (ref : Seq) (haps : List (List Var)) (ms : List (Nat × Member))
    (d d' : HapMap) (h : hapMappingTree ver par ref haps ms d = .ok d') :
    (∀ i (hi : i < haps.length), ∃ e, collect ver par ref haps[i] ms = .ok e ∧ bucket d' i = bucket d i ++ e)
    ∧ ∀ i, haps.length ≤ i → bucket d' i = bucket d i := by
  induction ms generalizing d with
  | nil =>
    simp only [hapMappingTree, pure, Except.pure, Except.ok.injEq] at h
    subst h
    exact ⟨fun i _ => ⟨[], rfl, by simp⟩, fun _ _ => rfl⟩
  | cons p rest ih =>
    obtain ⟨j, m⟩ := p
    unfold hapMappingTree at h
    simp only [bind, Except.bind] at h
    cases hm : hapInner ver par ref j m 0 haps d with
    | error err => rw [hm] at h; simp at h
    | ok d1 =>
      rw [hm] at h
      simp only at h
      obtain ⟨hin, hout⟩ := hapInner_spec ver par ref j m haps 0 d d1 hm
      obtain ⟨hin', hout'⟩ := ih d1 h
      refine ⟨?_, ?_⟩
      · intro i hi
        obtain ⟨e, he, hb⟩ := hin' i hi
        obtain ⟨h1, h2⟩ := hin i hi
        simp only [Nat.zero_add] at h1 h2
        unfold collect
        by_cases hov : spansOverlap (memberSpan m) (hapSpan haps[i]) = true
        · obtain ⟨x, hx, hbx⟩ := h1 hov
          refine ⟨(j, x) :: e, by simp only [hov, if_true, bind, Except.bind, hx, he]; rfl, ?_⟩
          rw [hb, hbx]; simp
        · have hov' : spansOverlap (memberSpan m) (hapSpan haps[i]) = false := by simpa using hov
          refine ⟨e, by simp only [hov', Bool.false_eq_true, if_false]; exact he, ?_⟩
          rw [hb, h2 hov']
      · intro i hi
        rw [hout' i hi, hout i (Or.inr (by omega))]

/-- the interval-tree branch fills every bucket exactly like the plain branch -/
theorem tree_buckets_eq_plain (ver : Ver) (par : Par) (ref : Seq) (haps : List (List Var)) (members : List Member)
    (dP dT : HapMap) (hP : hapMapping ver par ref haps members = .ok dP)
    (hT : hapMappingTree ver par ref haps (chainOrder members) [] = .ok dT) : ∀ i, bucket dT i = bucket dP i := by
  intro i
  obtain ⟨p1, p2⟩ := hapMapping_buckets ver par ref haps members dP hP
  obtain ⟨t1, t2⟩ := hapMappingTree_spec ver par ref haps (chainOrder members) [] dT hT
  by_cases hi : i < haps.length
  · obtain ⟨e, he, hb⟩ := t1 i hi
    have := p1 i hi
    rw [he] at this
    simp only [Except.ok.injEq] at this
    rw [hb, this]; simp [bucket]
  · rw [t2 i (by omega), p2 i (by omega)]; rfl

end BioCantor.Proofs.Var
