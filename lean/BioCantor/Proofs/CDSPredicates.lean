/-
  C05-T3 (continued): the codon iterator and the first / last codon predicates of the CDS, on top of
  `extractSequence_kept` (the fast path returns the concatenated letter triples of the kept positions).
-/
import BioCantor.Proofs.CDSSeq
namespace BioCantor.Proofs
open BioCantor BioCantor.Model BioCantor.Spec

/-- `Codon(chunk)` on a three-letter chunk of nucleotide letters in either case -/
theorem mkCodon_upper (ch : List Char) (hl : ch.length = 3) (ha : ∀ x ∈ ch, x.toUpper ∈ Gen.codonAlphabet) :
    mkCodon ch = .ok (upperStr ch) := by
  unfold mkCodon
  have h1 : (upperStr ch).length = 3 := by simp [upperStr, hl]
  have h2 : ((upperStr ch).any fun c => !Gen.codonAlphabet.contains c) = false := by
    rw [List.any_eq_false]
    intro c hc
    unfold upperStr at hc
    obtain ⟨x, hx, rfl⟩ := List.mem_map.mp hc
    have := ha x hx
    simp [this]
  simp only [h1, ne_eq, not_true_eq_false, if_false, h2, Bool.false_eq_true, pure, Except.pure]

/-- the loop of `scan_codons` -/
theorem scanCodons_go (trunc : Bool) : ∀ (chunks : List (List Char)),
    (∀ ch ∈ chunks, ch.length = 3 ∧ ∀ x ∈ ch, x.toUpper ∈ Gen.codonAlphabet) →
    scanCodons.go trunc chunks =
      .ok (if trunc then uptoFirstStop (chunks.map upperStr) else chunks.map upperStr)
  | [], _ => by cases trunc <;> simp [scanCodons.go, uptoFirstStop, pure, Except.pure]
  | ch :: rest, h => by
    have hch := h ch (by simp)
    have ih := scanCodons_go trunc rest (fun x hx => h x (by simp [hx]))
    unfold scanCodons.go
    simp only [mkCodon_upper ch hch.1 hch.2, bind, Except.bind, isStopCodon_eq]
    cases trunc with
    | false => simp [ih, pure, Except.pure]
    | true =>
      by_cases hs : isStop (upperStr ch) = true
      · simp [hs, uptoFirstStop, pure, Except.pure]
      · simp [hs, uptoFirstStop, ih, pure, Except.pure]

/-- the chunks the codon machinery sees, and that `Codon(...)` accepts each of them -/
theorem chunks_of_kept (chrom : List Char) (st : Strand) (ps : List Nat) (lk : List Char)
    (h1 : lettersAt chrom st ps = some lk) (halpha : ∀ ch ∈ chrom, ch.toUpper ∈ Gen.codonAlphabet) :
    chunks3 (triples lk).flatten = triples lk ∧
      ∀ ch ∈ triples lk, ch.length = 3 ∧ ∀ x ∈ ch, x.toUpper ∈ Gen.codonAlphabet := by
  refine ⟨chunks3_flatten_triples lk, ?_⟩
  intro ch hch
  refine ⟨triples_len3 _ ch hch, ?_⟩
  intro x hx
  have hmem := triples_mem _ ch hch x hx
  obtain ⟨z, hz, hyz⟩ := lettersAt_mem chrom st ps lk h1 x hmem
  rcases hyz with rfl | hyz
  · exact halpha _ hz
  · exact complement_alphabet z x hyz (halpha z hz)

/-- **codon iterator** of the CDS -/
theorem scanCodons_ok (c : CDS) (h : WFCDS c)
    (hshallow : shallowTrim (exonWalk c.loc (specFrames c)) = true)
    (hkept : c.loc.blocks.length = 1 ∨ cdsKept c.loc (specFrames c) ≠ [])
    (chrom : List Char) (hs : SeqOK c chrom) (halpha : ∀ ch ∈ chrom, ch.toUpper ∈ Gen.codonAlphabet)
    (trunc : Bool) :
    okScanCodons (specOf c) trunc (ans (scanCodons c trunc)) = true := by
  obtain ⟨lk, h1, h2⟩ := extractSequence_kept c h hshallow hkept chrom hs
  have hcl := codonLetters_eq c chrom hs.seq lk h1
  obtain ⟨hch, hok⟩ := chunks_of_kept chrom c.loc.strand _ lk h1 halpha
  unfold okScanCodons scanCodons
  simp only [hcl, h2, bind, Except.bind, hch]
  rw [scanCodons_go trunc _ hok]
  have : (triples lk).map upperStr = triples (upperStr lk) := by
    unfold upperStr; rw [triples_map]
  rw [this]
  simp

/-! ### first codon -/

theorem firstCodon_kept (c : CDS) (lk : List Char) (h2 : extractSequence c = .ok (triples lk).flatten)
    (hch : chunks3 (triples lk).flatten = triples lk)
    (hok : ∀ ch ∈ triples lk, ch.length = 3 ∧ ∀ x ∈ ch, x.toUpper ∈ Gen.codonAlphabet) :
    firstCodon c = .ok ((triples lk).head?.map upperStr) := by
  unfold firstCodon
  simp only [h2, bind, Except.bind, hch]
  cases ht : triples lk with
  | nil => rfl
  | cons t ts =>
    have := hok t (by rw [ht]; simp)
    simp only [mkCodon_upper t this.1 this.2, pure, Except.pure, List.head?_cons, Option.map_some]

/-- **start-codon predicates** (`has_canonical_start_codon` is the table-0 case) -/
theorem startCodon_ok (c : CDS) (h : WFCDS c)
    (hshallow : shallowTrim (exonWalk c.loc (specFrames c)) = true)
    (hkept : c.loc.blocks.length = 1 ∨ cdsKept c.loc (specFrames c) ≠ [])
    (chrom : List Char) (hs : SeqOK c chrom) (halpha : ∀ ch ∈ chrom, ch.toUpper ∈ Gen.codonAlphabet)
    (t : Nat) (starts : List (List Char)) (ht : startCodonsOf t = some starts) :
    okFirstCodon (specOf c) starts (ans (hasStartCodonIn c (t : Int))) = true := by
  obtain ⟨lk, h1, h2⟩ := extractSequence_kept c h hshallow hkept chrom hs
  have hcl := codonLetters_eq c chrom hs.seq lk h1
  obtain ⟨hch, hok⟩ := chunks_of_kept chrom c.loc.strand _ lk h1 halpha
  have hfc := firstCodon_kept c lk h2 hch hok
  have hmap : triples (upperStr lk) = (triples lk).map upperStr := by unfold upperStr; rw [triples_map]
  unfold okFirstCodon hasStartCodonIn
  simp only [hcl, hfc, hmap, bind, Except.bind]
  cases ht2 : triples lk with
  | nil => simp [pure, Except.pure]
  | cons x xs =>
    simp only [List.head?_cons, Option.map_some, List.map_cons, isStartCodonIn_eq (upperStr x) t starts ht,
      ans_ok]
    simp

theorem canonicalStart_ok (c : CDS) (h : WFCDS c)
    (hshallow : shallowTrim (exonWalk c.loc (specFrames c)) = true)
    (hkept : c.loc.blocks.length = 1 ∨ cdsKept c.loc (specFrames c) ≠ [])
    (chrom : List Char) (hs : SeqOK c chrom) (halpha : ∀ ch ∈ chrom, ch.toUpper ∈ Gen.codonAlphabet) :
    okFirstCodon (specOf c) ["ATG".toList] (ans (hasCanonicalStartCodon c)) = true := by
  obtain ⟨lk, h1, h2⟩ := extractSequence_kept c h hshallow hkept chrom hs
  have hcl := codonLetters_eq c chrom hs.seq lk h1
  obtain ⟨hch, hok⟩ := chunks_of_kept chrom c.loc.strand _ lk h1 halpha
  have hfc := firstCodon_kept c lk h2 hch hok
  have hmap : triples (upperStr lk) = (triples lk).map upperStr := by unfold upperStr; rw [triples_map]
  unfold okFirstCodon hasCanonicalStartCodon
  simp only [hcl, hfc, hmap, bind, Except.bind]
  cases ht2 : triples lk with
  | nil => simp [pure, Except.pure]
  | cons x xs =>
    simp only [List.head?_cons, Option.map_some, List.map_cons, pure, Except.pure, ans_ok]
    by_cases hx : upperStr x = "ATG".toList
    · simp [hx]
    · have hx' : ¬ upperStr x = ['A', 'T', 'G'] := hx
      have : (upperStr x == ['A', 'T', 'G']) = false := by simpa using hx'
      simp [this, hx']

/-! ### last codon -/

theorem flatten_drop_last {α} : ∀ (ts : List (List α)) (t : List α), ts.getLast? = some t →
    ts.flatten.drop (ts.flatten.length - t.length) = t
  | [], t, h => by simp at h
  | [x], t, h => by simp at h; subst h; simp
  | x :: y :: r, t, h => by
    have hl : (y :: r).getLast? = some t := by simpa [List.getLast?_cons_cons] using h
    have ih := flatten_drop_last (y :: r) t hl
    have hle : t.length ≤ (y :: r).flatten.length := by
      have hm : t ∈ y :: r := List.mem_of_getLast? hl
      obtain ⟨a, b, hab⟩ := List.append_of_mem hm
      rw [hab]; simp; omega
    rw [List.flatten_cons, List.length_append, List.drop_append]
    have e1 : x.length + (y :: r).flatten.length - t.length - x.length = (y :: r).flatten.length - t.length := by
      omega
    rw [e1, ih, List.drop_of_length_le (by omega)]
    rfl

theorem pySlice_last3 (s : List Char) (h : 3 ≤ s.length) :
    pySlice s (-3) (s.length : Int) = s.drop (s.length - 3) := by
  unfold pySlice
  simp only
  have e1 : (if (-3 : Int) < 0 then max ((-3 : Int) + (s.length : Int)) 0 else min (-3 : Int) (s.length : Int)).toNat
      = s.length - 3 := by
    rw [if_pos (by omega)]; omega
  have e2 : (if (s.length : Int) < 0 then max ((s.length : Int) + (s.length : Int)) 0
      else min (s.length : Int) (s.length : Int)).toNat = s.length := by
    rw [if_neg (by omega)]; omega
  rw [e1, e2]
  apply List.take_of_length_le
  rw [List.length_drop]; omega

/-- **has_valid_stop** -/
theorem hasValidStop_ok (c : CDS) (h : WFCDS c)
    (hshallow : shallowTrim (exonWalk c.loc (specFrames c)) = true)
    (hkept : c.loc.blocks.length = 1 ∨ cdsKept c.loc (specFrames c) ≠ [])
    (chrom : List Char) (hs : SeqOK c chrom) (halpha : ∀ ch ∈ chrom, ch.toUpper ∈ Gen.codonAlphabet) :
    okHasValidStop (specOf c) (ans (hasValidStop c)) = true := by
  obtain ⟨lk, h1, h2⟩ := extractSequence_kept c h hshallow hkept chrom hs
  have hcl := codonLetters_eq c chrom hs.seq lk h1
  obtain ⟨_, hok⟩ := chunks_of_kept chrom c.loc.strand _ lk h1 halpha
  have hmap : triples (upperStr lk) = (triples lk).map upperStr := by unfold upperStr; rw [triples_map]
  unfold okHasValidStop hasValidStop
  simp only [hcl, h2, hmap, bind, Except.bind]
  cases hl : (triples lk).getLast? with
  | none =>
    have hnil : triples lk = [] := List.getLast?_eq_none_iff.mp hl
    simp only [hnil, List.flatten_nil, List.map_nil, List.getLast?_nil]
    simp [pure, Except.pure]
  | some t =>
    have htm : t ∈ triples lk := List.mem_of_getLast? hl
    have ht3 := hok t htm
    have hlen : 3 ≤ (triples lk).flatten.length := by
      obtain ⟨a, b, hab⟩ := List.append_of_mem htm
      rw [hab]; simp; omega
    have hdrop := flatten_drop_last (triples lk) t hl
    rw [ht3.1] at hdrop
    rw [if_neg (by omega), pySlice_last3 _ hlen, hdrop, mkCodon_upper t ht3.1 ht3.2]
    simp only [List.getLast?_map, hl, Option.map_some, pure, Except.pure, ans_ok, isStopCodon_eq]
    simp

/-! ### in-frame stop -/

/-- letter j of a strict translation is `*` exactly when codon j is a stop codon -/
theorem protein_stops (starts : List (List Char)) (hst : ∀ s ∈ starts, isStop s = false) :
    ∀ (cods : List (List Char)) (prot : List Char) (i : Nat),
      okProteinFrom starts i cods prot = true → strictRefuses starts i cods = false →
      prot.map (fun a => a == '*') = cods.map isStop
  | [], [], _, _, _ => rfl
  | [], _ :: _, _, h, _ => by simp [okProteinFrom] at h
  | _ :: _, [], _, h, _ => by simp [okProteinFrom] at h
  | cod :: cods, a :: prot, i, h, hr => by
    simp only [okProteinFrom, Bool.and_eq_true] at h
    simp only [strictRefuses, Bool.or_eq_false_iff] at hr
    have ih := protein_stops starts hst cods prot (i + 1) h.2 hr.2
    simp only [List.map_cons, ih, List.cons.injEq, and_true]
    have hA := h.1
    unfold okAA at hA
    by_cases hS : i = 0 ∧ cod ∈ starts
    · simp only [hS, and_self, if_true, beq_iff_eq] at hA
      subst hA
      rw [hst cod hS.2]; rfl
    · simp only [hS, if_false] at hA
      have hnone : (standardCode cod).isNone = false := by
        have := hr.1
        simpa [hS] using this
      cases hsc : standardCode cod with
      | none => rw [hsc] at hnone; simp at hnone
      | some x =>
        rw [hsc] at hA
        simp only [beq_iff_eq] at hA
        subst hA
        unfold isStop
        rw [hsc]
        by_cases hx : a = '*'
        · subst hx; rfl
        · have h1 : (a == '*') = false := by simpa using hx
          have h2 : (some a == some '*') = false := by simpa using hx
          rw [h1, h2]

theorem contains_star : ∀ (prot : List Char), prot.contains '*' = (prot.map (fun a => a == '*')).any id
  | [] => rfl
  | a :: t => by
    rw [List.contains_cons, List.map_cons, List.any_cons, contains_star t]
    have : ('*' == a) = (a == '*') := by
      by_cases h : a = '*'
      · subst h; rfl
      · have h1 : (a == '*') = false := by simpa using h
        have h2 : ('*' == a) = false := by simpa using (fun e => h e.symm)
        rw [h1, h2]
    rw [this]; rfl

/-- **has_in_frame_stop** -/
theorem hasInFrameStop_ok (c : CDS) (h : WFCDS c)
    (hshallow : shallowTrim (exonWalk c.loc (specFrames c)) = true)
    (hkept : c.loc.blocks.length = 1 ∨ cdsKept c.loc (specFrames c) ≠ [])
    (chrom : List Char) (hs : SeqOK c chrom) (halpha : ∀ ch ∈ chrom, ch.toUpper ∈ Gen.codonAlphabet) :
    okInFrameStop (specOf c) (ans (hasInFrameStop c)) = true := by
  obtain ⟨lk, h1, h2⟩ := extractSequence_kept c h hshallow hkept chrom hs
  have hcl := codonLetters_eq c chrom hs.seq lk h1
  have hchunks : chunks3 (upperStr (triples lk).flatten) = triples (upperStr lk) := by
    have : upperStr (triples lk).flatten = (triples (upperStr lk)).flatten := by
      unfold upperStr; rw [triples_map, List.map_flatten]
    rw [this, chunks3_flatten_triples]
  have hok : ∀ cod ∈ triples (upperStr lk), CodonOK cod := by
    intro cod hcod
    refine ⟨triples_len3 _ cod hcod, ?_⟩
    intro ch hch
    have hmem := triples_mem _ cod hcod ch hch
    unfold upperStr at hmem
    obtain ⟨y, hy, rfl⟩ := List.mem_map.mp hmem
    obtain ⟨z, hz, hyz⟩ := lettersAt_mem chrom c.loc.strand _ lk h1 y hy
    rcases hyz with rfl | hyz
    · exact halpha _ hz
    · exact complement_alphabet z y hyz (halpha z hz)
  have hsp := translateLoop_spec false true 0 ["ATG".toList] rfl (triples (upperStr lk)) 0 hok
  simp only [usedOf, Bool.false_eq_true, if_false, true_and] at hsp
  unfold okInFrameStop hasInFrameStop translate
  simp only [hcl, h2, bind, Except.bind, hchunks]
  have hcast : ((0 : Nat) : Int) = (0 : Int) := rfl
  rw [hcast] at hsp
  by_cases hr : strictRefuses ["ATG".toList] 0 (triples (upperStr lk)) = true
  · have := hsp.1 hr
    simp only [hr, if_true]
    cases ht : translateLoop false 0 true 0 (triples (upperStr lk)) with
    | error e => rfl
    | ok p => rw [ht] at this; simp at this
  · obtain ⟨prot, hp, hq⟩ := hsp.2 hr
    have hrf : strictRefuses ["ATG".toList] 0 (triples (upperStr lk)) = false := by simpa using hr
    simp only [hrf, Bool.false_eq_true, if_false, hp, pure, Except.pure, ans_ok, beq_iff_eq, Option.some.injEq]
    have hst : ∀ s ∈ ["ATG".toList], isStop s = false := by
      intro s hs; simp only [List.mem_singleton] at hs; subst hs; decide +kernel
    have hps := protein_stops ["ATG".toList] hst _ prot 0 hq hrf
    rw [contains_star, List.map_dropLast, hps, ← List.map_dropLast, List.any_map]
    rfl

/-! ### the cached codon path of `extract_sequence` -/

/-- letters of any well-formed directional location lying inside the chromosome -/
theorem locationSeq_any (chrom : List Char) (m : Location) (st : Strand) (hst : st = .plus ∨ st = .minus)
    (hwf : wfLocation m = true) (hs : locationStrand? m = some st)
    (hin : ∀ x ∈ locationBases m, x < chrom.length) :
    ans (locationSeq (some chrom) m) = lettersAt chrom st (locationBases m) := by
  cases m with
  | empty => simp [locationStrand?] at hs
  | single b s =>
    simp only [locationStrand?, Option.some.injEq] at hs
    subst hs
    simp only [wfLocation, decide_eq_true_eq] at hwf
    simp only [locationSeq, locationBases]
    rw [bases_single b s (by rcases hst with h | h <;> simp [h])]
    apply blockSeq_letters chrom b s hst hwf
    intro hb
    have := hin (b.2 - 1) (by
      simp only [locationBases]
      rw [bases_single b s (by rcases hst with h | h <;> simp [h]), mem_rd]; omega)
    omega
  | compound l =>
    obtain ⟨L, s⟩ := l
    simp only [locationStrand?, Option.some.injEq] at hs
    subst hs
    simp only [wfLocation, decide_eq_true_eq] at hwf
    have hv := (blocksValid_iff L).1 hwf.2.1
    simp only [locationBases] at hin ⊢
    apply locationSeq_letters chrom L s hst
    intro b hb
    refine ⟨hv b hb, ?_⟩
    intro hbp
    have := hin (b.2 - 1) ((mem_bases L s hst _).2 ⟨b, hb, by omega, by omega⟩)
    omega

theorem cached_mapM (chrom : List Char) (st : Strand) (hst : st = .plus ∨ st = .minus) :
    ∀ (ws : List (List Nat)) (ms : List Location) (ls : List (List Char)),
      codonsMatch st ws ms = true → ws.mapM (lettersAt chrom st) = some ls →
      (∀ w ∈ ws, ∀ x ∈ w, x < chrom.length) →
      ms.mapM (locationSeq (some chrom)) = .ok ls
  | [], [], ls, _, h2, _ => by simp at h2; subst h2; rfl
  | [], _ :: _, _, h, _, _ => by simp [codonsMatch] at h
  | _ :: _, [], _, h, _, _ => by simp [codonsMatch] at h
  | w :: ws, m :: ms, ls, h, h2, hin => by
    simp only [codonsMatch, Bool.and_eq_true] at h
    obtain ⟨⟨⟨hwf, hs⟩, hb⟩, hrest⟩ : ((wfLocation m = true ∧ (locationStrand? m == some st) = true) ∧
        (locationBases m == w) = true) ∧ codonsMatch st ws ms = true := by
      simpa [codonOk, Bool.and_eq_true] using h
    have hs' : locationStrand? m = some st := by simpa using hs
    have hb' : locationBases m = w := by simpa using hb
    simp only [List.mapM_cons, bind, Option.bind] at h2
    cases hw : lettersAt chrom st w with
    | none => simp [hw] at h2
    | some lw =>
      simp only [hw] at h2
      cases hws : ws.mapM (lettersAt chrom st) with
      | none => simp [hws] at h2
      | some lr =>
        simp only [hws, pure, Option.some.injEq] at h2
        subst h2
        have h1 := locationSeq_any chrom m st hst hwf hs' (by rw [hb']; exact hin w (by simp))
        rw [hb', hw] at h1
        have ih := cached_mapM chrom st hst ws ms lr hrest hws (fun w' hw' => hin w' (by simp [hw']))
        simp only [List.mapM_cons, (ans_eq_some _ _).1 h1, ih, bind, Except.bind, pure, Except.pure]

/-- **cached codon path**: `extract_sequence()` after the codon locations were listed gives the same letters -/
theorem cachedSeq_ok (c : CDS) (h : WFCDS c)
    (hshallow : shallowTrim (exonWalk c.loc (specFrames c)) = true)
    (hkept : c.loc.blocks.length = 1 ∨ cdsKept c.loc (specFrames c) ≠ [])
    (chrom : List Char) (hs : SeqOK c chrom) :
    okCdsSeq (specOf c) (ans (extractSequenceCached c)) = true ∧
      extractSequenceCached c = extractSequence c := by
  obtain ⟨lk, h1, h2⟩ := extractSequence_kept c h hshallow hkept chrom hs
  have h3 := lettersAt_triples chrom c.loc.strand _ lk h1
  have hcod := codonLocations_ok c h hshallow hkept
  have hall : ∀ w ∈ triples (cdsKept c.loc (specFrames c)), ∀ x ∈ w, x < chrom.length := by
    intro w hw x hx
    have hxk := triples_mem _ w hw x hx
    rcases hc : c.loc with ⟨bs, st⟩
    rw [hc] at hxk
    obtain ⟨b, hb, _, hb2⟩ := cdsKept_subset bs st (by have := h.dir; rw [hc] at this; exact this) _ x hxk
    have := hs.cover b (by rw [hc]; exact hb)
    omega
  have hcached : extractSequenceCached c = .ok (triples lk).flatten := by
    unfold extractSequenceCached
    cases hl : codonLocations c with
    | error e => rw [hl] at hcod; simp [okCodons] at hcod
    | ok ms =>
      rw [hl] at hcod
      simp only [ans_ok, okCodons, expectCodons, specOf, CDSIn.codons, cdsCodons] at hcod
      simp only [bind, Except.bind]
      by_cases hem : ms.isEmpty = true
      · rw [if_pos hem]; exact h2
      · rw [if_neg hem]
        have := cached_mapM chrom c.loc.strand h.dir _ ms _ hcod h3 hall
        simp only [bind, Except.bind, hs.seq, this, pure, Except.pure]
  refine ⟨?_, by rw [hcached, h2]⟩
  unfold okCdsSeq specOf CDSIn.codons cdsCodons
  simp only [hs.seq, hcached, ans_ok, h3, Option.map_some, beq_self_eq_true, Option.isSome_some, Bool.and_self]

end BioCantor.Proofs
