/-
  C09 helper lemmas, part 3: min / max folds, hulls, permutation invariance, the expansion loop.
-/
import BioCantor.Proofs.QueryResult
namespace BioCantor.Proofs.Query
open BioCantor BioCantor.Spec BioCantor.Spec.Query BioCantor.Model.Query

/-! ### folds of min / max -/

theorem foldl_min_spec (l : List Int) (x : Int) :
    (List.foldl min x l = x ∨ List.foldl min x l ∈ l) ∧ List.foldl min x l ≤ x ∧ ∀ y ∈ l, List.foldl min x l ≤ y := by
  induction l generalizing x with
  | nil => simp
  | cons a as ih =>
    simp only [List.foldl_cons, List.mem_cons]
    obtain ⟨h1, h2, h3⟩ := ih (min x a)
    refine ⟨?_, by omega, ?_⟩
    · rcases h1 with h1 | h1
      · rw [h1]; rcases (by omega : min x a = x ∨ min x a = a) with h | h
        · exact Or.inl h
        · exact Or.inr (Or.inl h)
      · exact Or.inr (Or.inr h1)
    · intro y hy
      rcases hy with rfl | hy
      · omega
      · exact h3 y hy

theorem foldl_max_spec (l : List Int) (x : Int) :
    (List.foldl max x l = x ∨ List.foldl max x l ∈ l) ∧ x ≤ List.foldl max x l ∧ ∀ y ∈ l, y ≤ List.foldl max x l := by
  induction l generalizing x with
  | nil => simp
  | cons a as ih =>
    simp only [List.foldl_cons, List.mem_cons]
    obtain ⟨h1, h2, h3⟩ := ih (max x a)
    refine ⟨?_, by omega, ?_⟩
    · rcases h1 with h1 | h1
      · rw [h1]; rcases (by omega : max x a = x ∨ max x a = a) with h | h
        · exact Or.inl h
        · exact Or.inr (Or.inl h)
      · exact Or.inr (Or.inr h1)
    · intro y hy
      rcases hy with rfl | hy
      · omega
      · exact h3 y hy

theorem minList_eq_some_iff (l : List Int) (m : Int) : minList l = some m ↔ m ∈ l ∧ ∀ y ∈ l, m ≤ y := by
  cases l with
  | nil => simp [minList]
  | cons x xs =>
    obtain ⟨h1, h2, h3⟩ := foldl_min_spec xs x
    simp only [minList, Option.some.injEq, List.mem_cons]
    constructor
    · intro h; subst h
      refine ⟨by rcases h1 with h | h; exact Or.inl h; exact Or.inr h, ?_⟩
      intro y hy; rcases hy with rfl | hy
      · exact h2
      · exact h3 y hy
    · rintro ⟨hm, hle⟩
      have a1 : m ≤ List.foldl min x xs := by
        rcases h1 with h | h
        · rw [h]; exact hle x (Or.inl rfl)
        · exact hle _ (Or.inr h)
      have a2 : List.foldl min x xs ≤ m := by
        rcases hm with rfl | hm
        · exact h2
        · exact h3 m hm
      omega

theorem maxList_eq_some_iff (l : List Int) (m : Int) : maxList l = some m ↔ m ∈ l ∧ ∀ y ∈ l, y ≤ m := by
  cases l with
  | nil => simp [maxList]
  | cons x xs =>
    obtain ⟨h1, h2, h3⟩ := foldl_max_spec xs x
    simp only [maxList, Option.some.injEq, List.mem_cons]
    constructor
    · intro h; subst h
      refine ⟨by rcases h1 with h | h; exact Or.inl h; exact Or.inr h, ?_⟩
      intro y hy; rcases hy with rfl | hy
      · exact h2
      · exact h3 y hy
    · rintro ⟨hm, hle⟩
      have a1 : List.foldl max x xs ≤ m := by
        rcases h1 with h | h
        · rw [h]; exact hle x (Or.inl rfl)
        · exact hle _ (Or.inr h)
      have a2 : m ≤ List.foldl max x xs := by
        rcases hm with rfl | hm
        · exact h2
        · exact h3 m hm
      omega

theorem minList_perm {l₁ l₂ : List Int} (h : l₁.Perm l₂) : minList l₁ = minList l₂ := by
  cases h1 : minList l₁ with
  | none =>
    cases l₁ with
    | nil => have := h.nil_eq; subst this; rfl
    | cons _ _ => simp [minList] at h1
  | some m =>
    rw [minList_eq_some_iff] at h1
    symm
    rw [minList_eq_some_iff]
    exact ⟨h.mem_iff.mp h1.1, fun y hy => h1.2 y (h.mem_iff.mpr hy)⟩

theorem maxList_perm {l₁ l₂ : List Int} (h : l₁.Perm l₂) : maxList l₁ = maxList l₂ := by
  cases h1 : maxList l₁ with
  | none =>
    cases l₁ with
    | nil => have := h.nil_eq; subst this; rfl
    | cons _ _ => simp [maxList] at h1
  | some m =>
    rw [maxList_eq_some_iff] at h1
    symm
    rw [maxList_eq_some_iff]
    exact ⟨h.mem_iff.mp h1.1, fun y hy => h1.2 y (h.mem_iff.mpr hy)⟩

theorem hullOf_perm {l₁ l₂ : List (Int × Int)} (h : l₁.Perm l₂) : hullOf l₁ = hullOf l₂ := by
  unfold hullOf
  rw [minList_perm (h.map _), maxList_perm (h.map _)]

/-- the hull contains every span; it is `none` only for the empty list -/
theorem hullOf_some {l : List (Int × Int)} {a b : Int} (h : hullOf l = some (a, b)) :
    l ≠ [] ∧ ∀ p ∈ l, a ≤ p.1 ∧ p.2 ≤ b := by
  unfold hullOf at h
  cases hm : minList (l.map (·.1)) with
  | none => rw [hm] at h; simp at h
  | some m =>
    cases hx : maxList (l.map (·.2)) with
    | none => rw [hm, hx] at h; simp at h
    | some x =>
      rw [hm, hx] at h
      simp only [Option.some.injEq, Prod.mk.injEq] at h
      obtain ⟨rfl, rfl⟩ := h
      rw [minList_eq_some_iff] at hm
      rw [maxList_eq_some_iff] at hx
      refine ⟨?_, fun p hp => ⟨hm.2 _ (List.mem_map_of_mem hp), hx.2 _ (List.mem_map_of_mem hp)⟩⟩
      intro hnil; subst hnil; simp at hm

theorem hullOf_cons (s e : Int) (l : List (Int × Int)) :
    hullOf ((s, e) :: l) = some (List.foldl min s (l.map (·.1)), List.foldl max e (l.map (·.2))) := rfl

/-! ### what the constructors establish for a child -/

/-- the span is the hull of the grandchildren, every grandchild is a valid interval -/
def ChildHull (c : Child) : Prop :=
  hullOf (c.gcs.map fun g => (g.start, g.stop)) = some (c.start, c.stop) ∧ ∀ g ∈ c.gcs, g.start ≤ g.stop

theorem ChildHull.wf {c : Child} (h : ChildHull c) : ChildWF c := by
  obtain ⟨hh, hv⟩ := h
  obtain ⟨hne, hall⟩ := hullOf_some hh
  refine ⟨fun hnil => hne (by rw [hnil]; rfl), fun g hg => ?_⟩
  have := hall (g.start, g.stop) (List.mem_map_of_mem (f := fun g : GChild => (g.start, g.stop)) hg)
  have := hv g hg
  simp only at *
  omega

/-! ### the expansion loop -/

theorem expandBounds_eq (s e : Int) (l : List Child) :
    expandBounds s e l = (List.foldl min s (l.map (·.start)), List.foldl max e (l.map (·.stop))) := by
  induction l generalizing s e with
  | nil => rfl
  | cons c cs ih =>
    unfold expandBounds
    simp only [List.map_cons, List.foldl_cons]
    rw [ih]
    have e1 : (if c.start < s then c.start else s) = min s c.start := by split <;> omega
    have e2 : (if c.stop > e then c.stop else e) = max e c.stop := by split <;> omega
    rw [e1, e2]

theorem foldl_min_perm {l₁ l₂ : List Int} (h : l₁.Perm l₂) (x : Int) : List.foldl min x l₁ = List.foldl min x l₂ :=
  h.foldl_eq' (fun a _ b _ z => by omega) x

theorem foldl_max_perm {l₁ l₂ : List Int} (h : l₁.Perm l₂) (x : Int) : List.foldl max x l₁ = List.foldl max x l₂ :=
  h.foldl_eq' (fun a _ b _ z => by omega) x

end BioCantor.Proofs.Query
