/-
  C15, complement maps / alphabets / frame, phase, strand algebra / biotypes: checks over the GENERATED
  tables and kernels.
-/
import BioCantor.Spec.Tables
import BioCantor.Model.Tables
import BioCantor.Proofs.TabLemmas
set_option linter.unusedSimpArgs false
namespace BioCantor.Proofs.Tab
open BioCantor BioCantor.GenP BioCantor.Spec.Tab BioCantor.Model.Tab

/-! ### complement maps -/

/-- every generated map belongs to a nucleotide alphabet and agrees entry-by-entry (both directions) with the
    IUPAC complement restricted to that alphabet's letters in both cases -/
def chkComplement : Bool :=
  Gen.complementMaps.all fun p =>
    match ntAlphabets.lookup p.1 with
    | none => false
    | some letters =>
      p.2.all (fun q => (complementOn letters).lookup q.1 == some q.2) &&
      (complementOn letters).all (fun q => p.2.lookup q.1 == some q.2)
theorem chkComplement_true : chkComplement = true := by decide +kernel

def sameKeys (xs ys : List (List Char)) : Bool := xs.all (ys.contains ·) && ys.all (xs.contains ·)

theorem complement_keys :
    sameKeys (Gen.complementMaps.map (·.1)) (ntAlphabets.map (·.1)) = true := by decide +kernel

theorem complement_spec (name : List Char) (c : Char) : complementChar name c = expectComplement name c := by
  unfold complementChar expectComplement
  cases hl : Gen.complementMaps.lookup name with
  | some m =>
    have := all_of_mem _ _ chkComplement_true _ (lookup_mem _ _ _ hl)
    simp only at this
    cases hn : ntAlphabets.lookup name with
    | none => simp [hn] at this
    | some letters =>
      simp only [hn, Bool.and_eq_true] at this
      simp only
      apply lookup_congr
      · intro q hq; simpa using all_of_mem _ _ this.1 q hq
      · intro q hq; simpa using all_of_mem _ _ this.2 q hq
  | none =>
    have hk := complement_keys
    unfold sameKeys at hk
    simp only [Bool.and_eq_true] at hk
    have h1 := lookup_isSome_keys Gen.complementMaps name
    have h2 := lookup_isSome_keys ntAlphabets name
    rw [contains_congr _ _ hk.1 hk.2 name, ← h2, hl] at h1
    cases hn : ntAlphabets.lookup name with
    | none => rfl
    | some letters => simp [hn] at h1

/-- involution on the entries: every pair except those keyed `U`/`u` is mirrored in the same map -/
def chkInvolutive : Bool :=
  Gen.complementMaps.all fun p =>
    p.2.all fun q => q.1 == 'U' || q.1 == 'u' || p.2.lookup q.2 == some q.1
theorem chkInvolutive_true : chkInvolutive = true := by decide +kernel

/-- closure: the complement of a letter has itself a complement in the same map (U/u included) -/
def chkClosed : Bool :=
  Gen.complementMaps.all fun p => p.2.all fun q => (p.2.lookup q.2).isSome
theorem chkClosed_true : chkClosed = true := by decide +kernel

theorem complement_involutive (name : List Char) (c d : Char) (hU : c ≠ 'U') (hu : c ≠ 'u')
    (h : complementChar name c = some d) : complementChar name d = some c := by
  unfold complementChar at *
  cases hl : Gen.complementMaps.lookup name with
  | none => simp [hl] at h
  | some m =>
    simp only [hl] at h ⊢
    have h1 := all_of_mem _ _ chkInvolutive_true _ (lookup_mem _ _ _ hl)
    have h2 := all_of_mem _ _ h1 _ (lookup_mem _ _ _ h)
    simpa [hU, hu] using h2

theorem complement_closed (name : List Char) (c d : Char) (h : complementChar name c = some d) :
    (complementChar name d).isSome = true := by
  unfold complementChar at *
  cases hl : Gen.complementMaps.lookup name with
  | none => simp [hl] at h
  | some m =>
    simp only [hl] at h ⊢
    have h1 := all_of_mem _ _ chkClosed_true _ (lookup_mem _ _ _ hl)
    exact all_of_mem _ _ h1 _ (lookup_mem _ _ _ h)

theorem complementTwice_ok (name : List Char) (c : Char) (hU : c ≠ 'U') (hu : c ≠ 'u') :
    okComplementTwice name c (complementTwice name c) = true := by
  unfold okComplementTwice complementTwice
  rw [← complement_spec]
  cases h : complementChar name c with
  | none => rfl
  | some d => simp [complement_involutive name c d hU hu h]

/-! ### alphabets -/

def chkAlphabets : Bool :=
  Gen.alphabets.all fun p =>
    match alphabetInfo p.1 with
    | .ok (l, f) => l == p.2 && okAlphabet p.1 l f
    | .error _ => false
theorem chkAlphabets_true : chkAlphabets = true := by decide +kernel

theorem alphabet_names :
    sameKeys (Gen.alphabets.map (·.1)) (ntAlphabets.map (·.1) ++ otherAlphabets) = true := by decide +kernel

theorem alphabet_ok (name letters : List Char) (f : Bool) (h : alphabetInfo name = .ok (letters, f)) :
    okAlphabet name letters f = true := by
  cases hl : Gen.alphabets.lookup name with
  | none => simp [alphabetInfo, hl] at h
  | some ls =>
    have := all_of_mem _ _ chkAlphabets_true _ (lookup_mem _ _ _ hl)
    simp only [h, Bool.and_eq_true] at this
    exact this.2

/-- a complement map exists exactly for the alphabets flagged as nucleotide alphabets -/
theorem complement_iff_nucleotide :
    (Gen.nucleotideAlphabetFlags.all fun p => (Gen.complementMaps.lookup p.1).isSome == p.2) = true := by
  decide +kernel

/-! ### frame / phase (generated kernels) -/

theorem frameOfInt_residue (r : Int) (h0 : 0 ≤ r) (h3 : r < 3) : frameOfInt r = .ok (frameOfResidue r) := by
  have : r = 0 ∨ r = 1 ∨ r = 2 := by omega
  rcases this with rfl | rfl | rfl <;> rfl

theorem neg_branch (v n : Int) : (v - (n - -n % 3)) % 3 = (v + n) % 3 := by omega

/-- `CDSFrame.shift` is `(frame + n) mod 3` for EVERY integer `n` (both branches of the code) -/
theorem shift_spec (f : CDSFrame) (n : Int) : Gen.CDSFrame_shift f n = .ok (shift f n) := by
  unfold Gen.CDSFrame_shift shift
  cases f with
  | NONE => rfl
  | ZERO | ONE | TWO =>
    simp only [CDSFrame.value, reduceCtorEq, if_false]
    split
    · rw [frameOfInt_residue _ (by omega) (by omega)]
    · rw [neg_branch, frameOfInt_residue _ (by omega) (by omega)]

theorem to_phase_spec (f : CDSFrame) : Gen.CDSFrame_to_phase f = .ok (phaseOfFrame f) := by
  cases f <;> rfl

theorem to_frame_spec (p : CDSPhase) : Gen.CDSPhase_to_frame p = .ok (frameOfPhase p) := by
  cases p <;> rfl

theorem frameOfResidue_value (r : Int) (h0 : 0 ≤ r) (h3 : r < 3) :
    (frameOfResidue r).value = r ∧ frameOfResidue r ≠ .NONE := by
  have : r = 0 ∨ r = 1 ∨ r = 2 := by omega
  rcases this with rfl | rfl | rfl <;> exact ⟨rfl, by decide⟩

theorem shift_of_ne (f : CDSFrame) (hf : f ≠ .NONE) (n : Int) : shift f n = frameOfResidue ((f.value + n) % 3) := by
  cases f <;> simp_all [shift]

theorem shift_add (f : CDSFrame) (a b : Int) : shift (shift f a) b = shift f (a + b) := by
  by_cases hf : f = .NONE
  · subst hf; rfl
  · have hv := frameOfResidue_value ((f.value + a) % 3) (by omega) (by omega)
    rw [shift_of_ne f hf a, shift_of_ne _ hv.2, hv.1, shift_of_ne f hf]
    congr 1; omega

theorem shift_zero (f : CDSFrame) : shift f 0 = f := by cases f <;> rfl

theorem shift_period (f : CDSFrame) (n k : Int) : shift f (n + 3 * k) = shift f n := by
  by_cases hf : f = .NONE
  · subst hf; rfl
  · rw [shift_of_ne f hf, shift_of_ne f hf]; congr 1; omega

/-! ### strand (generated kernels) -/

theorem strand_reverse_spec (s : Strand) : Gen.Strand_reverse s = .ok (strandReverse s) := by
  cases s <;> rfl

theorem strand_relative_to_spec (a b : Strand) : Gen.Strand_relative_to a b = .ok (Spec.compose a b) := by
  cases a <;> cases b <;> rfl

theorem strand_to_symbol_spec (s : Strand) : Gen.Strand_to_symbol s = .ok (strandSymbol s) := by
  cases s <;> rfl

theorem strand_from_symbol_spec (x : List Char) : ansP (Gen.Strand_from_symbol x) = strandOfSymbol? x := by
  unfold Gen.Strand_from_symbol strandOfSymbol?
  repeat' split
  all_goals rfl

theorem strand_from_int_spec (v : Int) : ansP (strandOfInt v) = strandOfInt? v := by
  unfold strandOfInt strandOfInt?
  repeat' split
  all_goals rfl

theorem strandLt_spec (a b : Strand) : Model.Tab.strandLt a b = .ok (Spec.Tab.strandLt a b) := by
  cases a <;> cases b <;> rfl

/-! ### biotypes -/

def chkBiotypePairs : Bool :=
  Gen.biotypes.all fun p => Gen.biotypes.all fun q => (p.2 == q.2) == sameBiotypeClass p.1 q.1
theorem chkBiotypePairs_true : chkBiotypePairs = true := by decide +kernel

theorem biotype_names : sameKeys (Gen.biotypes.map (·.1)) biotypeNames = true := by decide +kernel

theorem biotype_contains (a : List Char) : biotypeNames.contains a = (Gen.biotypes.lookup a).isSome := by
  have hk := biotype_names
  unfold sameKeys at hk
  simp only [Bool.and_eq_true] at hk
  rw [lookup_isSome_keys, contains_congr _ _ hk.1 hk.2 a]

theorem biotype_pair_ok (a b : List Char) : okBiotypePair a b (ansP (biotypePair a b)) = true := by
  unfold biotypePair dictGetE okBiotypePair
  have ha := biotype_contains a
  have hb := biotype_contains b
  cases hla : Gen.biotypes.lookup a with
  | none => simp [hla] at ha; cases hlb : Gen.biotypes.lookup b <;> simp [ha]
  | some va =>
    cases hlb : Gen.biotypes.lookup b with
    | none => simp [hlb] at hb; simp [hb]
    | some vb =>
      simp [hla] at ha; simp [hlb] at hb
      have h1 := all_of_mem _ _ chkBiotypePairs_true _ (lookup_mem _ _ _ hla)
      have h2 := all_of_mem _ _ h1 _ (lookup_mem _ _ _ hlb)
      simp only at h2
      simp only [ansP_ok]
      rw [show biotypeNames.contains a = true by simpa using ha, show biotypeNames.contains b = true by simpa using hb, h2]
      rfl

/-! ### reverse complement of a text of any length -/

theorem optMapM_all {α β} (f : α → Option β) : ∀ (l : List α), (∀ x ∈ l, (f x).isSome = true) →
    ∃ r, l.mapM f = some r ∧ r.length = l.length ∧ ∀ i : Nat, r[i]? = (l[i]?).bind f
  | [], _ => ⟨[], by simp, rfl, by intro i; simp⟩
  | x :: xs, h => by
    obtain ⟨r, h1, h2, h3⟩ := optMapM_all f xs (fun y hy => h y (List.mem_cons_of_mem _ hy))
    have hx := h x List.mem_cons_self
    obtain ⟨y, hy⟩ := Option.isSome_iff_exists.mp hx
    refine ⟨y :: r, by simp [List.mapM_cons, hy, h1], by simp [h2], ?_⟩
    intro i
    cases i with
    | zero => simp [hy]
    | succ i => simpa using h3 i

theorem optMapM_none {α β} (f : α → Option β) : ∀ (l : List α), (∃ x ∈ l, f x = none) → l.mapM f = none
  | [], h => by simp at h
  | x :: xs, h => by
    cases hx : f x with
    | none => simp [List.mapM_cons, hx]
    | some y =>
      have : ∃ z ∈ xs, f z = none := by
        obtain ⟨z, hz, hz2⟩ := h
        rcases List.mem_cons.mp hz with rfl | hz
        · rw [hx] at hz2; cases hz2
        · exact ⟨z, hz, hz2⟩
      simp [List.mapM_cons, hx, optMapM_none f xs this]

/-- the alphabets with a complement map are exactly the nucleotide alphabets -/
theorem maps_isSome (name : List Char) :
    (Gen.complementMaps.lookup name).isSome = (ntAlphabets.lookup name).isSome := by
  have hk := complement_keys
  unfold sameKeys at hk
  simp only [Bool.and_eq_true] at hk
  have h1 := lookup_isSome_keys Gen.complementMaps name
  have h2 := lookup_isSome_keys ntAlphabets name
  rw [contains_congr _ _ hk.1 hk.2 name, ← h2] at h1
  exact h1

theorem revcomp_ok (name s : List Char) :
    okRevComp name s (reverseComplement name s) = true := by
  unfold okRevComp reverseComplement
  have hm := maps_isSome name
  cases hl : Gen.complementMaps.lookup name with
  | none =>
    rw [hl] at hm
    have : (ntAlphabets.lookup name).isNone = true := by
      cases h : ntAlphabets.lookup name with
      | none => rfl
      | some x => rw [h] at hm; simp at hm
    simp only [this, if_true]; rfl
  | some m =>
    rw [hl] at hm
    have hnn : (ntAlphabets.lookup name).isNone = false := by
      cases h : ntAlphabets.lookup name with
      | none => rw [h] at hm; simp at hm
      | some x => rfl
    simp only [hnn, Bool.false_eq_true, if_false]
    have hf : complementChar name = expectComplement name := funext (complement_spec name)
    rw [hf]
    by_cases hall : s.all (fun c => (expectComplement name c).isSome) = true
    · rw [if_pos hall]
      have hall' : ∀ x ∈ s.reverse, (expectComplement name x).isSome = true := by
        intro x hx
        rw [List.all_eq_true] at hall
        exact hall x (List.mem_reverse.mp hx)
      obtain ⟨r, h1, h2, h3⟩ := optMapM_all (expectComplement name) s.reverse hall'
      rw [h1]
      simp only [Bool.and_eq_true, beq_iff_eq, List.all_eq_true, List.mem_range]
      refine ⟨by simpa using h2, ?_⟩
      intro i hi
      rw [h3 i, List.getElem?_reverse hi]
    · rw [if_neg hall]
      have : ∃ x ∈ s.reverse, expectComplement name x = none := by
        have h2 : s.all (fun c => (expectComplement name c).isSome) = false := by simpa using hall
        rw [List.all_eq_false] at h2
        obtain ⟨x, hx, hx2⟩ := h2
        refine ⟨x, List.mem_reverse.mpr hx, ?_⟩
        cases h : expectComplement name x with
        | none => rfl
        | some y => rw [h] at hx2; simp at hx2
      rw [optMapM_none _ _ this]; rfl

end BioCantor.Proofs.Tab
