/-
  C05-T5 with `expand_window_to_partial_codons = True`, on the domain where the library is right:
  a CDS in ONE uninterrupted frame 0 (`cdsKept = bases`: no start offset, no re-synchronisation) and a window whose
  expansion does not run past the last complete codon (complement: findings F-C05g / F-C05f).
  Part 1: list- and position-level lemmas.
-/
import BioCantor.Proofs.CDSWindowMore
import BioCantor.Proofs.CDSWindowFilter
namespace BioCantor.Proofs
open BioCantor BioCantor.Model BioCantor.Spec

theorem posLt_ne (st : Strand) {x y : Nat} (h : PosLt st x y) : x ≠ y := by
  unfold PosLt at h; split at h <;> omega

/-- in a strictly ordered reading every element is found at its own index -/
theorem idxOf?_split (st : Strand) (A B : List Nat) (x : Nat) (hp : (A ++ x :: B).Pairwise (PosLt st)) :
    idxOf? x (A ++ x :: B) = some A.length := by
  have hnot : x ∉ A := by
    intro hm
    have := (List.pairwise_append.mp hp).2.2 x hm x (by simp)
    exact posLt_ne st this rfl
  rw [idxOf?_append, idxOf?_not_mem _ _ hnot]
  simp [idxOf?]

theorem idxOf?_getElem (st : Strand) (K : List Nat) (hp : K.Pairwise (PosLt st)) (i : Nat) (hi : i < K.length) :
    idxOf? K[i] K = some i := by
  have hsplit : K = K.take i ++ (K[i] :: K.drop (i + 1)) := by
    rw [← List.drop_eq_getElem_cons hi, List.take_append_drop]
  generalize K[i] = x at hsplit ⊢
  have hp' : (K.take i ++ x :: K.drop (i + 1)).Pairwise (PosLt st) := hsplit ▸ hp
  have := idxOf?_split st (K.take i) (K.drop (i + 1)) x hp'
  rw [← hsplit] at this
  rw [this, List.length_take]
  congr 1; omega

/-- `parent_to_relative_pos` of the i-th position of the reading -/
theorem p2r_getElem (L : List Blk) (st : Strand) (hst : st = .plus ∨ st = .minus) (hv : blocksValid L = true)
    (hp : (bases ⟨L, st⟩).Pairwise (PosLt st)) (i : Nat) (hi : i < (bases ⟨L, st⟩).length) :
    compoundP2R ⟨L, st⟩ (((bases ⟨L, st⟩)[i] : Nat) : Int) = .ok ((i : Nat) : Int) := by
  have hsu : st ≠ .unstranded := by rcases hst with h | h <;> simp [h]
  have hspec := compoundP2R_spec ⟨L, st⟩ hv (((bases ⟨L, st⟩)[i] : Nat) : Int)
  unfold expectP2R toLoc at hspec
  simp only [hsu, if_false] at hspec
  have hnn : ¬ ((((bases ⟨L, st⟩)[i] : Nat) : Int) < 0) := by omega
  simp only [hnn, if_false, Int.toNat_natCast, idxOf?_getElem st _ hp i hi, Option.map_some] at hspec
  exact (ans_eq_some _ _).1 hspec

/-! ### smallest start / largest end of a sorted block list -/

theorem blkLe_fst (st : Strand) (a b : Blk) (h : blkLe st a b = true) : a.1 ≤ b.1 := by
  unfold blkLe blkLePlus blkLeOther at h
  cases st <;> simp at h <;> omega

theorem sortedBy_head_le (st : Strand) : ∀ (t : List Blk) (a : Blk), sortedBy (blkLe st) (a :: t) = true →
    ∀ b ∈ t, a.1 ≤ b.1
  | [], _, _, b, hb => by simp at hb
  | c :: t, a, h, b, hb => by
    simp only [sortedBy, Bool.and_eq_true] at h
    have hac := blkLe_fst st a c h.1
    rcases List.mem_cons.mp hb with rfl | hb
    · exact hac
    · exact Nat.le_trans hac (sortedBy_head_le st t c h.2 b hb)

theorem maxEnd_ge : ∀ (F : List Blk) (b : Blk), b ∈ F → b.2 ≤ maxEnd F
  | [], _, h => by simp at h
  | a :: F, b, h => by
    simp only [maxEnd]
    rcases List.mem_cons.mp h with rfl | h
    · omega
    · have := maxEnd_ge F b h; omega

theorem maxEnd_mem : ∀ (F : List Blk), F ≠ [] → ∃ b ∈ F, b.2 = maxEnd F
  | [], h => absurd rfl h
  | [a], _ => ⟨a, by simp, by simp [maxEnd]⟩
  | a :: c :: F, _ => by
    obtain ⟨b, hb, hbe⟩ := maxEnd_mem (c :: F) (by simp)
    simp only [maxEnd] at hbe ⊢
    by_cases h : a.2 ≤ max c.2 (maxEnd F)
    · exact ⟨b, by simp at hb ⊢; exact Or.inr hb, by omega⟩
    · exact ⟨a, by simp, by omega⟩

/-- the span `[start, end)` of a well-formed location of positive blocks is [min position, max position + 1) -/
theorem span_bounds (F : List Blk) (st : Strand) (hst : st = .plus ∨ st = .minus) (hc : Loc.Canon ⟨F, st⟩)
    (hpos : ∀ b ∈ F, b.1 < b.2) (a : Blk) (t : List Blk) (hF : F = a :: t) :
    a.1 ∈ bases ⟨F, st⟩ ∧ maxEnd F - 1 ∈ bases ⟨F, st⟩ ∧
      ∀ x ∈ bases ⟨F, st⟩, a.1 ≤ x ∧ x < maxEnd F := by
  have ha : a ∈ F := by rw [hF]; simp
  have hap := hpos a ha
  refine ⟨(mem_bases F st hst _).2 ⟨a, ha, Nat.le_refl _, hap⟩, ?_, ?_⟩
  · obtain ⟨b, hb, hbe⟩ := maxEnd_mem F hc.1
    have := hpos b hb
    exact (mem_bases F st hst _).2 ⟨b, hb, by omega, by omega⟩
  · intro x hx
    obtain ⟨b, hb, h1, h2⟩ := (mem_bases F st hst x).1 hx
    have hge := maxEnd_ge F b hb
    refine ⟨?_, by omega⟩
    rw [hF] at hb
    rcases List.mem_cons.mp hb with rfl | hb
    · exact h1
    · have hs := hc.2.2
      simp only at hs
      rw [hF] at hs
      have := sortedBy_head_le st t a hs b hb
      omega

/-! ### the positions of the reading inside the span of one of its stretches are that stretch -/

theorem span_classes (st : Strand) (K : List Nat) (hp : K.Pairwise (PosLt st)) (a b : Nat)
    (s e : Nat) (hs : s ∈ (K.drop a).take (b - a)) (he : e - 1 ∈ (K.drop a).take (b - a)) (he0 : 0 < e)
    (hbd : ∀ x ∈ (K.drop a).take (b - a), s ≤ x ∧ x < e) :
    (∀ x ∈ K.take a, inW s e x = false) ∧ (∀ x ∈ (K.drop a).take (b - a), inW s e x = true) ∧
      (∀ x ∈ (K.drop a).drop (b - a), inW s e x = false) := by
  generalize hS : (K.drop a).take (b - a) = S at hs he hbd
  have hK : K = K.take a ++ (S ++ (K.drop a).drop (b - a)) := by
    rw [← hS, List.take_append_drop, List.take_append_drop]
  have hp' := hp
  rw [hK] at hp'
  have h1 := List.pairwise_append.mp hp'
  have h2 := List.pairwise_append.mp h1.2.1
  refine ⟨?_, ?_, ?_⟩
  · intro x hx
    have hxs := h1.2.2 x hx s (by simp [hs])
    have hxe := h1.2.2 x hx (e - 1) (by simp [he])
    unfold inW
    by_cases hpl : st = .plus
    · simp only [PosLt, hpl, if_true] at hxs hxe; simp; omega
    · simp only [PosLt, hpl, if_false] at hxs hxe; simp; omega
  · intro x hx; have := hbd x hx; unfold inW; simp; omega
  · intro x hx
    have hxs := h2.2.2 s hs x hx
    have hxe := h2.2.2 (e - 1) he x hx
    unfold inW
    by_cases hpl : st = .plus
    · simp only [PosLt, hpl, if_true] at hxs hxe; simp; omega
    · simp only [PosLt, hpl, if_false] at hxs hxe; simp; omega

/-- codons touching a stretch `[d, d+m)` of the reading = codons lying inside the stretch rounded outwards to
    codon boundaries `[d − d mod 3, 3⌈(d+m)/3⌉)` -/
theorem triples_any_eq_all (K : List Nat) (P Q : Nat → Bool) (d m a b : Nat)
    (hP : ∀ j (hj : j < K.length), P K[j] = (decide (d ≤ j) && decide (j < d + m)))
    (hQ : ∀ j (hj : j < K.length), Q K[j] = (decide (a ≤ j) && decide (j < b)))
    (ha : a = d - d % 3) (hb : b = 3 * ((d + m + 2) / 3)) (hm : 0 < m) :
    (triples K).filter (fun t => t.any P) = (triples K).filter (fun t => t.all Q) := by
  rw [triples_eq_range K, List.filter_map, List.filter_map]
  congr 1
  apply List.filter_congr
  intro i hi
  simp only [List.mem_range] at hi
  have h3 : 3 * i + 3 ≤ K.length := by omega
  simp only [Function.comp_apply]
  rw [take3_drop K (3 * i) h3]
  simp only [List.any_cons, List.any_nil, Bool.or_false, List.all_cons, List.all_nil, Bool.and_true]
  rw [hP _ (by omega), hP _ (by omega), hP _ (by omega), hQ _ (by omega), hQ _ (by omega), hQ _ (by omega)]
  rw [Bool.eq_iff_iff]
  simp only [Bool.or_eq_true, Bool.and_eq_true, decide_eq_true_eq]
  omega

/-! ### Part 2: the model's `_expand_coordinates_to_codons` -/

theorem idxOf?_of_getElem? (st : Strand) (K : List Nat) (hp : K.Pairwise (PosLt st)) (i x : Nat)
    (h : K[i]? = some x) : idxOf? x K = some i := by
  obtain ⟨hi, hx⟩ := List.getElem?_eq_some_iff.mp h
  rw [← hx]; exact idxOf?_getElem st K hp i hi

theorem locEndMax_eq_maxEnd : ∀ (L : List Blk), locEndMax L = maxEnd L
  | [] => rfl
  | b :: L => by simp [locEndMax, maxEnd, locEndMax_eq_maxEnd L]

/-- the smallest and the largest position of the middle stretch sit at its two ends -/
theorem ends_indices (st : Strand) (hst : st = .plus ∨ st = .minus) (Bf In Af : List Nat)
    (hp : (Bf ++ In ++ Af).Pairwise (PosLt st)) (xmin xmax : Nat)
    (h1 : xmin ∈ In) (h2 : ∀ y ∈ In, xmin ≤ y) (h3 : xmax ∈ In) (h4 : ∀ y ∈ In, y ≤ xmax) :
    ∃ i j : Nat, idxOf? xmin (Bf ++ In ++ Af) = some i ∧ idxOf? xmax (Bf ++ In ++ Af) = some j ∧
      min i j = Bf.length ∧ max i j + 1 = Bf.length + In.length := by
  have hIn : In.Pairwise (PosLt st) := ((List.pairwise_append.mp (List.pairwise_append.mp hp).1).2.1)
  obtain ⟨j1, hj1, e1⟩ := List.mem_iff_getElem.mp h1
  obtain ⟨j2, hj2, e2⟩ := List.mem_iff_getElem.mp h3
  have hget : ∀ j (hj : j < In.length), (Bf ++ In ++ Af)[Bf.length + j]? = some In[j] := by
    intro j hj
    rw [List.getElem?_append_left (by simp; omega), List.getElem?_append_right (by omega)]
    simp [hj]
  have hi1 := idxOf?_of_getElem? st _ hp (Bf.length + j1) xmin (by rw [hget j1 hj1, e1])
  have hi2 := idxOf?_of_getElem? st _ hp (Bf.length + j2) xmax (by rw [hget j2 hj2, e2])
  have hpw := List.pairwise_iff_getElem.mp hIn
  have hpos : 0 < In.length := by omega
  refine ⟨Bf.length + j1, Bf.length + j2, hi1, hi2, ?_⟩
  rcases hst with hs | hs
  · subst hs
    -- increasing: the minimum is the first, the maximum the last element
    have hj1z : j1 = 0 := by
      refine Classical.byContradiction (fun hne => ?_)
      have := hpw 0 j1 hpos hj1 (by omega)
      simp only [PosLt, if_true] at this
      have := h2 In[0] (List.getElem_mem hpos)
      omega
    have hj2l : j2 = In.length - 1 := by
      refine Classical.byContradiction (fun hne => ?_)
      have := hpw j2 (In.length - 1) hj2 (by omega) (by omega)
      simp only [PosLt, if_true] at this
      have := h4 In[In.length - 1] (List.getElem_mem (by omega))
      omega
    omega
  · subst hs
    have hj1l : j1 = In.length - 1 := by
      refine Classical.byContradiction (fun hne => ?_)
      have := hpw j1 (In.length - 1) hj1 (by omega) (by omega)
      simp only [PosLt, show (Strand.minus = Strand.plus) = False by simp, if_false] at this
      have := h2 In[In.length - 1] (List.getElem_mem (by omega))
      omega
    have hj2z : j2 = 0 := by
      refine Classical.byContradiction (fun hne => ?_)
      have := hpw 0 j2 hpos hj2 (by omega)
      simp only [PosLt, show (Strand.minus = Strand.plus) = False by simp, if_false] at this
      have := h4 In[0] (List.getElem_mem hpos)
      omega
    omega

theorem asc_head_le (L : List Blk) (hp : L.Pairwise (fun a b => a.2 ≤ b.1)) (hpos : ∀ b ∈ L, b.1 < b.2)
    (a : Blk) (t : List Blk) (hL : L = a :: t) : ∀ b ∈ L, a.1 ≤ b.1 := by
  intro b hb
  rw [hL] at hb hp
  rcases List.mem_cons.mp hb with rfl | hb
  · exact Nat.le_refl _
  · have := (List.pairwise_cons.mp hp).1 b hb
    have := hpos a (by rw [hL]; simp)
    omega

/-- every position of the CDS lies inside `[start of the first block, largest end)` -/
theorem bases_in_span (L : List Blk) (st : Strand) (hst : st = .plus ∨ st = .minus)
    (hp : L.Pairwise (fun a b => a.2 ≤ b.1)) (hpos : ∀ b ∈ L, b.1 < b.2) :
    ∀ x ∈ bases ⟨L, st⟩, locStartMin ⟨L, st⟩ ≤ x ∧ x < locEndMax L := by
  intro x hx
  obtain ⟨b, hb, h1, h2⟩ := (mem_bases L st hst x).1 hx
  rw [locEndMax_eq_maxEnd]
  have hge := maxEnd_ge L b hb
  refine ⟨?_, by omega⟩
  cases hL : L with
  | nil => rw [hL] at hb; simp at hb
  | cons a t =>
    have := asc_head_le L hp hpos a t hL b hb
    simp only [locStartMin]; omega

/-- the expanded window: `_expand_coordinates_to_codons(lo, hi)` on a CDS whose reading is `K = Bf ++ In ++ Af`
    for the window clamped to the CDS span, provided the rounded end stays inside the CDS -/
theorem expand_eval (c : CDS) (h : WFCDS c)
    (hstart : c.start = locStartMin c.loc) (hend : c.«end» = locEndMax c.loc.blocks)
    (lo hi : Nat) (hw : lo < hi) (hseq : ∀ s, c.seq = some s → hi ≤ s.length)
    (hsome : (bases c.loc).filter (inW lo hi) ≠ []) :
    ∃ (Bf In Af : List Nat), bases c.loc = Bf ++ In ++ Af ∧
      Bf = (bases c.loc).filter (beforeW c.loc.strand lo hi) ∧
      (∀ x ∈ Bf, inW lo hi x = false) ∧ (∀ x ∈ In, inW lo hi x = true) ∧ (∀ x ∈ Af, inW lo hi x = false) ∧
      In ≠ [] ∧
      (3 * ((Bf.length + In.length + 2) / 3) ≤ (bases c.loc).length →
        ∃ s e : Nat, expandCoordinatesToCodons c (lo : Int) (hi : Int) = .ok ((s : Int), (e : Int)) ∧
          s < e ∧ e ≤ locEndMax c.loc.blocks ∧
          (∀ x ∈ (bases c.loc).take (Bf.length - Bf.length % 3), inW s e x = false) ∧
          (∀ x ∈ ((bases c.loc).drop (Bf.length - Bf.length % 3)).take
              (3 * ((Bf.length + In.length + 2) / 3) - (Bf.length - Bf.length % 3)), inW s e x = true) ∧
          (∀ x ∈ ((bases c.loc).drop (Bf.length - Bf.length % 3)).drop
              (3 * ((Bf.length + In.length + 2) / 3) - (Bf.length - Bf.length % 3)), inW s e x = false)) := by
  rcases hc : c.loc with ⟨L, st⟩
  have hdir : st = .plus ∨ st = .minus := by have := h.dir; rw [hc] at this; exact this
  have hv : blocksValid L = true := by have := h.valid; rw [hc] at this; exact this
  have hno : nonOverlap L = true := by have := h.nonOverlap; rw [hc] at this; exact this
  have hpos : ∀ b ∈ L, b.1 < b.2 := by have := h.positive; rw [hc] at this; exact this
  have hvb := (blocksValid_iff L).1 hv
  have hasc := nonOverlap_pairwise L hvb hno
  have hsu : st ≠ .unstranded := by rcases hdir with h | h <;> simp [h]
  rw [hc] at hsome hstart hend
  simp only at hend
  have hcst : c.strand = st := by unfold CDS.strand; rw [hc]
  have hLne : L ≠ [] := by
    intro h0; apply hsome; rw [h0]; rcases hdir with h | h <;> subst h <;> rfl
  obtain ⟨l0, Lt, hL⟩ := List.exists_cons_of_ne_nil hLne
  -- clamped window
  generalize hlo' : max lo (locStartMin ⟨L, st⟩) = lo'
  generalize hhi' : min hi (locEndMax L) = hi'
  have hspan := bases_in_span L st hdir hasc hpos
  have hsame : ∀ x ∈ bases ⟨L, st⟩, inW lo hi x = inW lo' hi' x := by
    intro x hx
    have := hspan x hx
    unfold inW
    rw [← hlo', ← hhi']
    by_cases h1 : lo ≤ x <;> by_cases h2 : x < hi <;> simp [h1, h2] <;> omega
  have hsome' : (bases ⟨L, st⟩).filter (inW lo' hi') ≠ [] := by
    rw [← List.filter_congr (fun x hx => hsame x hx)]; exact hsome
  have hw' : lo' < hi' := by
    obtain ⟨x, hx⟩ := List.exists_mem_of_ne_nil _ hsome'
    simp only [List.mem_filter] at hx
    have := hx.2; unfold inW at this; simp at this; omega
  -- parts of the clamped window
  obtain ⟨W, Bf, In, Af, hsplit, hBfdef, hB, hI, hA, hW1, hW2, hW3, hW4, hWb, _⟩ :=
    window_parts c L (by rw [hcst]; exact hdir) hLne hpos hasc lo' hi' hw' (by rw [hcst]; exact hsome')
  rw [hcst] at hsplit hW1 hWb hBfdef
  have hBfdef' : Bf = (bases ⟨L, st⟩).filter (beforeW st lo hi) := by
    rw [hBfdef]
    apply List.filter_congr
    intro x hx
    have := hspan x hx
    unfold beforeW
    rw [← hlo', ← hhi']
    split
    · by_cases h1 : x < lo <;> simp [h1] <;> omega
    · by_cases h1 : hi ≤ x <;> simp [h1] <;> omega
  have hInne : In ≠ [] := by
    intro h0
    apply hsome'
    rw [hsplit, h0]
    simp only [List.append_nil, List.filter_append]
    rw [filter_nil_of_forall _ _ hB, filter_nil_of_forall _ _ hA]; rfl
  have hmemK : ∀ x, x ∈ Bf ∨ x ∈ In ∨ x ∈ Af → x ∈ bases ⟨L, st⟩ := by
    intro x hx; rw [hsplit]; simp only [List.mem_append]
    rcases hx with h | h | h
    · exact Or.inl (Or.inl h)
    · exact Or.inl (Or.inr h)
    · exact Or.inr h
  refine ⟨Bf, In, Af, hsplit, hBfdef',
    fun x hx => by rw [hsame x (hmemK x (Or.inl hx))]; exact hB x hx,
    fun x hx => by rw [hsame x (hmemK x (Or.inr (Or.inl hx)))]; exact hI x hx,
    fun x hx => by rw [hsame x (hmemK x (Or.inr (Or.inr hx)))]; exact hA x hx, hInne, ?_⟩
  intro htail
  generalize hd : Bf.length = d at htail ⊢
  generalize hm : In.length = m at htail ⊢
  have hmpos : 0 < m := by rw [← hm]; exact List.length_pos_iff.mpr hInne
  generalize hK : bases ⟨L, st⟩ = K at hsplit htail hspan hsame hmemK hBfdef hBfdef' ⊢
  have hKpw : K.Pairwise (PosLt st) := by
    rw [← hK, bases_scanOrder L st hdir]
    exact readScan_pairwise st _ (scanOrder_before L st hdir hasc)
  have hKlen : K.length = blocksLen L := by rw [← hK, bases_length]; rfl
  -- the rounded stretch and its span
  generalize ha : d - d % 3 = a at ⊢
  generalize hb : 3 * ((d + m + 2) / 3) = b at htail ⊢
  have hab : a < b := by omega
  obtain ⟨F, hF1, hF2, _, hF4⟩ := compoundRel_pos L st a b .plus hsu hab (by omega)
  obtain ⟨hF5, hF6⟩ := hF4 hno hvb
  rw [strandRelativeTo_plus st hdir] at hF1 hF2
  rw [hK] at hF5
  have hFpos := normal_pos F hF6
  obtain ⟨f0, Ft, hFe⟩ : ∃ f0 Ft, F = f0 :: Ft := List.exists_cons_of_ne_nil hF2.1
  obtain ⟨hs1, hs2, hs3⟩ := span_bounds F st hdir hF2 hFpos f0 Ft hFe
  rw [hF5] at hs1 hs2 hs3
  have he0 : 0 < maxEnd F := by
    have := (hs3 f0.1 hs1).2; omega
  obtain ⟨c1, c2, c3⟩ := span_classes st K hKpw a b f0.1 (maxEnd F) hs1 hs2 he0 hs3
  -- ends of the clamped window's stretch
  obtain ⟨w0, Wt, hWe⟩ : ∃ w0 Wt, W = w0 :: Wt := List.exists_cons_of_ne_nil hW2
  have hWcanon : Loc.Canon ⟨W, st⟩ := by
    refine ⟨hW2, (blocksValid_iff W).2 (fun b hb => Nat.le_of_lt (hW3 b hb)), ?_⟩
    exact sortedBy_of_pairwise _ _ ((fst_lt_of_asc W hW4 hW3).imp (fun hab => blkLe_of_fst_lt st _ _ hab))
  obtain ⟨hw1, hw2, hw3⟩ := span_bounds W st hdir hWcanon hW3 w0 Wt hWe
  rw [hWb] at hw1 hw2 hw3
  have hwe0 : 0 < maxEnd W := by have := (hw3 w0.1 hw1).2; omega
  obtain ⟨i, j, hi1, hj1, hmin, hmax⟩ := ends_indices st hdir Bf In Af (hsplit ▸ hKpw) w0.1 (maxEnd W - 1)
    hw1 (fun y hy => (hw3 y hy).1) hw2 (fun y hy => by have := (hw3 y hy).2; omega)
  rw [← hsplit] at hi1 hj1
  have hp2r : ∀ (x k : Nat), idxOf? x K = some k → compoundP2R ⟨L, st⟩ (x : Int) = .ok (k : Int) := by
    intro x k hk
    have hspec := compoundP2R_spec ⟨L, st⟩ hv (x : Int)
    unfold expectP2R toLoc at hspec
    simp only [hsu, if_false] at hspec
    have hnn : ¬ ((x : Int) < 0) := by omega
    simp only [hnn, if_false, Int.toNat_natCast, hK, hk, Option.map_some] at hspec
    exact (ans_eq_some _ _).1 hspec
  have hp1 := hp2r _ _ hi1
  have hp2 := hp2r _ _ hj1
  refine ⟨f0.1, maxEnd F, ?_, ?_, ?_, c1, c2, c3⟩
  · -- the model's computation
    unfold expandCoordinatesToCodons
    have hlocS : locStart (.compound c.loc) = .ok l0.1 := by rw [hc, hL]; rfl
    have hlocE : locEnd (.compound c.loc) = .ok (maxEnd L) := by
      rw [hc]; simp [locEnd, hL, pure, Except.pure]
    have hLS : locStartMin ⟨L, st⟩ = l0.1 := by simp [locStartMin, hL]
    have hcs : (if (lo : Int) < ((l0.1 : Nat) : Int) then (c.start : Int) else (lo : Int)) = ((lo' : Nat) : Int) := by
      rw [hstart, ← hlo', hLS]; split <;> omega
    have hce : (if (hi : Int) > ((maxEnd L : Nat) : Int) then (c.«end» : Int) else (hi : Int)) = ((hi' : Nat) : Int) := by
      rw [hend, ← hhi', locEndMax_eq_maxEnd]; split <;> omega
    simp only [hlocS, hlocE, bind, Except.bind, hcs, hce]
    rw [mkWindow_ok c lo' hi' hw' (fun sq hsq => by have := hseq sq hsq; omega)]
    simp only
    -- the window overlaps the CDS
    have hov : hasOverlap (.single (lo', hi') .plus) (.compound c.loc) false false = .ok true := by
      rw [hc]
      simp only [hasOverlap, Bool.false_eq_true, false_and, if_false, pure, Except.pure, Except.ok.injEq]
      obtain ⟨x, hx⟩ := List.exists_mem_of_ne_nil _ hsome'
      simp only [List.mem_filter] at hx
      rw [hK] at hx
      obtain ⟨bk, hbk, hb1, hb2⟩ := (mem_bases L st hdir x).1 (hK ▸ hx.1)
      have hin := hx.2; unfold inW at hin; simp at hin
      rw [List.any_eq_true]
      exact ⟨bk, hbk, (overlapKernel_iff bk lo' hi' (hpos bk hbk) hw').2 (by omega)⟩
    rw [hov]
    simp only [Bool.not_true, Bool.false_eq_true, if_false, hc, hW1]
    rw [hWe, locStart_toSingleIfOne, locEnd_toSingleIfOne, ← hWe]
    simp only [hp1]
    have hcast : ((maxEnd W : Nat) : Int) - 1 = ((maxEnd W - 1 : Nat) : Int) := by omega
    rw [hcast, hp2]
    simp only
    have hmn : min (i : Int) (j : Int) = (d : Int) := by omega
    have hmx : max (i : Int) (j : Int) + 1 = ((d + m : Nat) : Int) := by omega
    rw [hmn, hmx]
    have hcond : ¬ ¬ ((0 : Int) ≤ (d : Int) ∧ (d : Int) ≤ ((d + m : Nat) : Int)) := by omega
    rw [if_neg hcond]
    have hA1 : (d : Int) - (d : Int) % 3 = ((a : Nat) : Int) := by omega
    have hA2 : ((d + m : Nat) : Int) + (-((d + m : Nat) : Int)) % 3 = ((b : Nat) : Int) := by omega
    rw [hA1, hA2, hF1, hFe]
    simp [locStart_toSingleIfOne, locEnd_toSingleIfOne, pure, Except.pure]
  · exact (hs3 f0.1 hs1).2
  · -- the span stays inside the CDS span
    have hmem : maxEnd F - 1 ∈ K := List.mem_of_mem_drop (List.mem_of_mem_take hs2)
    have hlt := (hspan _ hmem).2
    exact Nat.le_of_pred_lt hlt

theorem spec_window_fun_any (lo hi : Nat) :
    (fun cod : List Nat => if true = true then cod.any (inWin (lo : Int) (hi : Int))
      else cod.all (inWin (lo : Int) (hi : Int))) = (fun t => t.any (inW lo hi)) := by
  funext cod
  simp only [if_true]
  congr 1
  funext p
  exact inWin_eq_inW lo hi p

/-- `expand=True` is the plain window `[s, e)` computed by `_expand_coordinates_to_codons` -/
theorem scan_expand_eq (c : CDS) (lo hi : Int) (s e : Int)
    (h : expandCoordinatesToCodons c lo hi = .ok (s, e)) :
    scanChromosomeCodonLocations c (some ⟨some lo, some hi, true⟩) =
      scanChromosomeCodonLocations c (some ⟨some s, some e, false⟩) := by
  unfold scanChromosomeCodonLocations convertWindow
  simp [h, bind, Except.bind, pure, Except.pure]

/-- **C05-T5, `expand_window_to_partial_codons=True`**: on a CDS read in one uninterrupted frame 0
    (`cdsKept = bases`), for a window `lo < hi` holding a CDS position whose expansion does not run past the last
    complete codon, the returned locations are the codons having at least one position inside the window. -/
theorem expandWindowCodons (c : CDS) (h : WFCDS c)
    (hstart : c.start = locStartMin c.loc) (hend : c.«end» = locEndMax c.loc.blocks)
    (hplain : cdsKept c.loc (specFrames c) = bases c.loc)
    (hshallow : shallowTrim (exonWalk c.loc (specFrames c)) = true)
    (hcase : c.loc.blocks.length > 1 ∨ ∃ e, c.loc.blocks = [e] ∧ c.frames = [.ZERO])
    (lo hi : Nat) (hw : lo < hi)
    (hseq : ∀ s, c.seq = some s → hi ≤ s.length ∧ locEndMax c.loc.blocks ≤ s.length)
    (hsome : (bases c.loc).filter (inW lo hi) ≠ [])
    (htail : 3 * ((((bases c.loc).filter (beforeW c.loc.strand lo hi)).length +
        ((bases c.loc).filter (inW lo hi)).length + 2) / 3) ≤ (bases c.loc).length) :
    okCodons (specOf c) (some ⟨some (lo : Int), some (hi : Int), true⟩)
      (ans (scanChromosomeCodonLocations c (some ⟨some (lo : Int), some (hi : Int), true⟩))) = true := by
  obtain ⟨Bf, In, Af, hsplit, hBfdef, hB, hI, hA, hInne, hev⟩ :=
    expand_eval c h hstart hend lo hi hw (fun s hs => (hseq s hs).1) hsome
  have hInlen : ((bases c.loc).filter (inW lo hi)).length = In.length := by
    rw [hsplit, List.filter_append, List.filter_append, filter_nil_of_forall _ _ hB, filter_nil_of_forall _ _ hA,
      List.filter_eq_self.mpr hI]
    simp
  rw [← hBfdef, hInlen] at htail
  obtain ⟨s, e, heval, hse, hele, c1, c2, c3⟩ := hev htail
  generalize hK : bases c.loc = K at *
  generalize hd : Bf.length = d at *
  generalize hm : In.length = m at *
  generalize ha : d - d % 3 = a at *
  generalize hb : 3 * ((d + m + 2) / 3) = b at *
  have hmpos : 0 < m := by rw [← hm]; exact List.length_pos_iff.mpr hInne
  have hab : a < b := by omega
  -- the expanded window holds kept positions
  have hslice_ne : (K.drop a).take (b - a) ≠ [] := by
    intro h0
    have := congrArg List.length h0
    simp only [List.length_take, List.length_drop, List.length_nil] at this
    omega
  have hsome' : (cdsKept c.loc (specFrames c)).filter (inW s e) ≠ [] := by
    rw [hplain]
    obtain ⟨x, hx⟩ := List.exists_mem_of_ne_nil _ hslice_ne
    intro h0
    have hxK : x ∈ K := List.mem_of_mem_drop (List.mem_of_mem_take hx)
    have : x ∈ K.filter (inW s e) := List.mem_filter.mpr ⟨hxK, c2 x hx⟩
    rw [h0] at this; simp at this
  have hseq' : ∀ sq, c.seq = some sq → e ≤ sq.length := fun sq hsq => by
    have := (hseq sq hsq).2; omega
  -- the plain window [s, e)
  have hplainwin : okCodons (specOf c) (some ⟨some (s : Int), some (e : Int), false⟩)
      (ans (scanChromosomeCodonLocations c (some ⟨some (s : Int), some (e : Int), false⟩))) = true := by
    rcases hcase with hmulti | ⟨ex, hone, hf⟩
    · exact windowCodons_multi c h hmulti hshallow s e hse hseq' hsome'
    · exact windowCodons_single c h ex hone hf s e hse hseq' hsome'
  rw [scan_expand_eq c lo hi s e heval]
  -- same expected list
  cases hans : scanChromosomeCodonLocations c (some ⟨some (s : Int), some (e : Int), false⟩) with
  | error er => rw [hans] at hplainwin; simp [okCodons] at hplainwin
  | ok ms =>
    rw [hans] at hplainwin
    simp only [ans_ok, okCodons, expectCodons, specOf, CDSIn.codons, cdsCodons, Win.lo, Win.hi, windowCodons]
      at hplainwin ⊢
    rw [spec_window_fun, hplain] at hplainwin
    have hfun : (fun cod : List Nat => if True then cod.any (inWin (lo : Int) (hi : Int))
        else cod.all (inWin (lo : Int) (hi : Int))) = (fun t => t.any (inW lo hi)) := by
      funext cod
      simp only [if_true]
      congr 1
      funext p
      exact inWin_eq_inW lo hi p
    rw [hfun, hplain]
    have hP : ∀ j (hj : j < K.length), inW lo hi K[j] = (decide (d ≤ j) && decide (j < d + m)) := by
      intro j hj
      have := getElem_three_parts Bf In Af (inW lo hi) hB hI hA j (by rw [← hsplit]; exact hj)
      rw [hd, hm] at this
      rw [← this]
      congr 1
      exact (List.getElem_of_eq hsplit hj)
    have hKs : K = K.take a ++ (K.drop a).take (b - a) ++ (K.drop a).drop (b - a) := by
      rw [List.append_assoc, List.take_append_drop, List.take_append_drop]
    have hQ : ∀ j (hj : j < K.length), inW s e K[j] = (decide (a ≤ j) && decide (j < b)) := by
      intro j hj
      have := getElem_three_parts (K.take a) ((K.drop a).take (b - a)) ((K.drop a).drop (b - a)) (inW s e)
        c1 c2 c3 j (by rw [← hKs]; exact hj)
      have hl1 : (K.take a).length = a := by rw [List.length_take]; omega
      have hl2 : ((K.drop a).take (b - a)).length = b - a := by
        rw [List.length_take, List.length_drop]; omega
      rw [hl1, hl2] at this
      have hba : a + (b - a) = b := by omega
      rw [hba] at this
      rw [← this]
      congr 1
      exact (List.getElem_of_eq hKs hj)
    rw [triples_any_eq_all K (inW lo hi) (inW s e) d m a b hP hQ ha.symm hb.symm hmpos]
    exact hplainwin

end BioCantor.Proofs
