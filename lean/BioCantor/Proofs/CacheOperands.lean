/-
  C10 — helper lemmas for `Model.Cache` §6 (operations that construct new objects from lazily cached operands) and
  §7 (`export_qualifiers` with the argument by reference, the `.add()` loop, one parent dictionary for all children).
-/
import BioCantor.Proofs.CacheState
namespace BioCantor.Proofs.Cache
open BioCantor BioCantor.Model.Cache

/-! ### lazily cached operands -/

section lazy
set_option linter.unusedSectionVars false
variable {γ ι ν : Type} [DecidableEq ι]

theorem lazy_read_core (g : γ → ι → ν) (o : LazyObj γ ι ν) (i : ι) : (o.read g i).1.core = o.core := by
  unfold LazyObj.read
  split <;> rfl

/-- reading never touches the constructor data -/
theorem lazy_reads_core (g : γ → ι → ν) : ∀ (is : List ι) (o : LazyObj γ ι ν), (LazyObj.reads g o is).1.core = o.core
  | [], _ => rfl
  | i :: is, o => by
    simp only [LazyObj.reads]
    rw [lazy_reads_core g is, lazy_read_core]

/-- … and keeps every filled cell equal to the pure function's value -/
theorem lazy_reads_sound {g : γ → ι → ν} : ∀ (is : List ι) {o : LazyObj γ ι ν}, LazySound g o →
    LazySound g (LazyObj.reads g o is).1
  | [], _, hs => hs
  | i :: is, o, hs => by
    simp only [LazyObj.reads]
    exact lazy_reads_sound is (lazy_read hs i).2.2

/-- the result of an operation as coded answers from ITS OWN constructor data, whatever the operand's cells hold
    (no hypothesis on the operand's cache state at all) -/
theorem reads_derive (g : γ → ι → ν) (op : γ → γ) (o : LazyObj γ ι ν) (qs : List ι) :
    (LazyObj.reads g (o.derive op) qs).2 = qs.map (g (op o.core)) := by
  have h := lazy_reads (g := g) qs (lazy_fresh_sound g (op o.core))
  simpa [LazyObj.derive, LazyObj.fresh] using h

theorem reads_derive2 (g : γ → ι → ν) (op : γ → γ → γ) (a b : LazyObj γ ι ν) (qs : List ι) :
    (LazyObj.reads g (LazyObj.derive2 op a b) qs).2 = qs.map (g (op a.core b.core)) := by
  have h := lazy_reads (g := g) qs (lazy_fresh_sound g (op a.core b.core))
  simpa [LazyObj.derive2, LazyObj.fresh] using h

end lazy

/-! ### heap frames -/

/-- `h'` extends `h` above `n`: the cells below `n` read the same and none was dropped -/
structure Frame (n : Nat) (h h' : Heap) : Prop where
  same : ∀ r, r < n → h'[r]? = h[r]?
  len : n ≤ h'.length

theorem Frame.refl {n : Nat} {h : Heap} (hn : n ≤ h.length) : Frame n h h := ⟨fun _ _ => rfl, hn⟩

theorem Frame.trans {n : Nat} {h₁ h₂ h₃ : Heap} (a : Frame n h₁ h₂) (b : Frame n h₂ h₃) : Frame n h₁ h₃ :=
  ⟨fun r hr => by rw [b.same r hr, a.same r hr], b.len⟩

theorem Frame.mono {n m : Nat} {h h' : Heap} (hm : m ≤ n) (a : Frame n h h') : Frame m h h' :=
  ⟨fun r hr => a.same r (by omega), by have := a.len; omega⟩

theorem frame_modify {n : Nat} {h : Heap} (hn : n ≤ h.length) {r' : Nat} (hge : n ≤ r') (f : List Nat → List Nat) :
    Frame n h (h.modify r' f) := by
  refine ⟨?_, by simpa using hn⟩
  intro r hr
  rw [List.getElem?_modify]
  have : r' ≠ r := fun e => by omega
  simp [this]

theorem frame_push {n : Nat} {h : Heap} (hn : n ≤ h.length) (c : List Nat) : Frame n h (h ++ [c]) := by
  refine ⟨?_, by simp only [List.length_append, List.length_singleton]; omega⟩
  intro r hr
  rw [List.getElem?_append_left (by omega)]

theorem refsGe_push {n : Nat} {d : Dict} {h : Heap} (hd : RefsGe n d) (hn : n ≤ h.length) (key : Nat) :
    RefsGe n (d ++ [(key, h.length)]) := by
  intro kr hkr
  rcases List.mem_append.mp hkr with e | e
  · exact hd kr e
  · simp only [List.mem_singleton] at e; rw [e]; exact hn

/-- the merge loop (argument by reference) touches only cells the merged dict refers to and cells it allocates;
    the merged dict keeps referring to cells at or above `n` -/
theorem mergeIntoRef_frame (n : Nat) : ∀ (other : Dict) (h : Heap) (merged : Dict),
    RefsGe n merged → n ≤ h.length →
    Frame n h (mergeIntoRef h merged other).1 ∧ RefsGe n (mergeIntoRef h merged other).2
  | [], _, _, hm, hn => ⟨Frame.refl hn, hm⟩
  | (key, ro) :: rest, h, merged, hm, hn => by
    unfold mergeIntoRef
    split
    · rename_i r' hr'
      have hge : n ≤ r' := hm (key, r') (dlookup_mem hr')
      have f1 := frame_modify hn hge (fun c => setUpdate c (cellAt h ro))
      have ih := mergeIntoRef_frame n rest (h.modify r' (fun c => setUpdate c (cellAt h ro))) merged hm f1.len
      exact ⟨f1.trans ih.1, ih.2⟩
    · have f1 := frame_push hn (setUpdate [] (cellAt h ro))
      have ih := mergeIntoRef_frame n rest (h ++ [setUpdate [] (cellAt h ro)]) (merged ++ [(key, h.length)])
        (refsGe_push hm hn key) f1.len
      exact ⟨f1.trans ih.1, ih.2⟩

/-- the `.add()` loop likewise -/
theorem addIds_frame (n : Nat) : ∀ (ids : List (Nat × Nat)) (h : Heap) (q : Dict),
    RefsGe n q → n ≤ h.length → Frame n h (addIds h q ids).1 ∧ RefsGe n (addIds h q ids).2
  | [], _, _, hq, hn => ⟨Frame.refl hn, hq⟩
  | (key, val) :: rest, h, q, hq, hn => by
    unfold addIds
    split
    · rename_i r' hr'
      have hge : n ≤ r' := hq (key, r') (dlookup_mem hr')
      have f1 := frame_modify hn hge (fun c => setUpdate c [val])
      have ih := addIds_frame n rest (h.modify r' (fun c => setUpdate c [val])) q hq f1.len
      exact ⟨f1.trans ih.1, ih.2⟩
    · have f1 := frame_push hn (setUpdate [] [val])
      have ih := addIds_frame n rest (h ++ [setUpdate [] [val]]) (q ++ [(key, h.length)]) (refsGe_push hq hn key) f1.len
      exact ⟨f1.trans ih.1, ih.2⟩

theorem deepCopy_frame' (d : Dict) (h : Heap) : Frame h.length h (deepCopy h d).1 ∧ RefsGe h.length (deepCopy h d).2 :=
  ⟨⟨(deepCopy_frame d h).1, (deepCopy_frame d h).2.2⟩, (deepCopy_frame d h).2.1⟩

/-- `export_qualifiers` as coded: every cell that existed before the call is untouched, every reference the result holds
    was allocated by the call -/
theorem exportQualifiers_frame (h : Heap) (own other : Dict) (ids : List (Nat × Nat)) :
    Frame h.length h (exportQualifiers h own other ids).1 ∧ RefsGe h.length (exportQualifiers h own other ids).2 := by
  have hc := deepCopy_frame' own h
  have hm := mergeIntoRef_frame h.length other _ _ hc.2 hc.1.len
  have ha := addIds_frame h.length ids _ _ hm.2 hm.1.len
  unfold exportQualifiers
  exact ⟨(hc.1.trans hm.1).trans ha.1, ha.2⟩

/-- one parent dictionary handed to child after child: no cell that existed before the first child is ever touched -/
theorem exportChildren_frame : ∀ (cs : List (Dict × List (Nat × Nat))) (h : Heap) (pq : Dict),
    Frame h.length h (exportChildren h pq cs)
  | [], h, _ => Frame.refl (Nat.le_refl _)
  | (own, ids) :: rest, h, pq => by
    have f1 := (exportQualifiers_frame h own pq ids).1
    have ih := exportChildren_frame rest (exportQualifiers h own pq ids).1 pq
    simp only [exportChildren]
    exact f1.trans (ih.mono f1.len)

/-- a dict whose references are all below `n` reads the same through two heaps that agree below `n` -/
theorem deref_frame {n : Nat} {h h' : Heap} (f : Frame n h h') (d : Dict) (hd : ∀ kr ∈ d, kr.2 < n) :
    deref h' d = deref h d := by
  unfold deref
  apply List.map_congr_left
  intro kr hkr
  simp only [cellAt, f.same kr.2 (hd kr hkr)]

end BioCantor.Proofs.Cache
