/- C19 proofs, part 12: Sequence.append of two located pieces (on top of C03's append theorem) and the parent test of
   the multi-operand operations. -/
import BioCantor.Proofs.ValBridge
import BioCantor.Proofs.SeqAppend
set_option linter.unusedSimpArgs false
namespace BioCantor.Proofs.Val
open BioCantor BioCantor.Model BioCantor.Model.Validate BioCantor.Spec BioCantor.Proofs
open BioCantor.Spec.Validate (AppendOut GridOut PD PRule)

/-! ### Sequence.append -/

def strandOfLoc (m : Location) : Strand :=
  match locStrand m with
  | .ok s => s
  | .error _ => .unstranded

/-- what a caller (and the harness) observes of `x.append(y)` -/
def outAppend (P alph : List Char) : R Sq.SeqObj → AppendOut
  | .error _ => .refused
  | .ok z =>
      match z.par with
      | some ⟨_, some m⟩ =>
          .located z.data.length (strandOfLoc m) ((locBlocks m).map castBlk)
            (match Sq.extract P alph m with
             | .ok t => t == z.data
             | .error _ => false)
      | _ => .unlocated z.data.length true

theorem any_perm {α} {l₁ l₂ : List α} (p : l₁.Perm l₂) (f : α → Bool) : l₁.any f = l₂.any f := by
  rw [Bool.eq_iff_iff, List.any_eq_true, List.any_eq_true]
  exact ⟨fun ⟨x, hx, h⟩ => ⟨x, p.mem_iff.mp hx, h⟩, fun ⟨x, hx, h⟩ => ⟨x, p.mem_iff.mpr hx, h⟩⟩

theorem totalLen_cast (bs : List Blk) (hv : ∀ b ∈ bs, b.1 ≤ b.2) :
    Spec.Validate.totalLen (bs.map castBlk) = (blocksLen bs : Int) := by
  induction bs with
  | nil => rfl
  | cons b t ih =>
      have hb := hv b (by simp)
      simp only [List.map_cons, Spec.Validate.totalLen, blocksLen, Blk.len, castBlk,
        ih (fun x hx => hv x (List.mem_cons_of_mem _ hx))]
      omega

/-- refusal half: different / undirected strands, or the second piece does not follow the first one -/
theorem append_refuses (P : List Char) (st1 st2 : Strand) (a b : Blk) (ha : a.1 < a.2) (hb : b.1 < b.2)
    (dx dy : List Char) (px py : Option Strand)
    (hr : Spec.Validate.appendMustRefuse st1 a.1 a.2 st2 b.1 b.2 false = true) :
    ∃ k, Sq.append P ⟨dx, some ⟨px, some (.single a st1)⟩⟩ ⟨dy, some ⟨py, some (.single b st2)⟩⟩ = .error k := by
  have hla : 0 < a.len := by simp [Blk.len]; omega
  have hlb : 0 < b.len := by simp [Blk.len]; omega
  unfold Sq.append
  simp only [Sq.parStrand, locLen, hla, hlb, if_true, locStrand, Sq.truthy, decide_true, and_self, Sq.locStartEnd,
    locStart, locEnd, bind, Except.bind, pure, Except.pure]
  simp only [Spec.Validate.appendMustRefuse, Bool.not_false, Bool.true_and, Bool.or_eq_true, bne_iff_ne, ne_eq,
    beq_iff_eq, Bool.and_eq_true, decide_eq_true_eq] at hr
  simp only [throw, throwThe, MonadExceptOf.throw, Option.some.injEq, ne_eq, gt_iff_lt]
  by_cases c1 : st1 = Strand.unstranded ∨ ¬ st1 = st2
  · rw [if_pos c1]; exact ⟨_, rfl⟩
  · rw [if_neg c1]
    have hs1 : st1 = st2 := Decidable.byContradiction (fun h => c1 (Or.inr h))
    have hs2 : st1 ≠ Strand.unstranded := fun h => c1 (Or.inl h)
    by_cases c2 : st1 = Strand.plus ∧ b.1 < a.2
    · simp only [c2, and_self, if_true]; exact ⟨_, rfl⟩
    · by_cases c3 : st1 = Strand.minus ∧ a.1 < b.2
      · simp only [c2, c3, and_self, if_true, if_false]; exact ⟨_, rfl⟩
      · exfalso
        rcases hr with ((hr | hr) | hr) | hr
        · exact hr hs1
        · exact hs2 hr
        · exact c2 ⟨hr.1, by have := hr.2; omega⟩
        · exact c3 ⟨hr.1, by have := hr.2; omega⟩

/-- `Sequence.append` of two non-empty located pieces of a parent `P` (nucleotide alphabet): the C19 clause
    `okAppend` holds for the modelled method — refusal exactly for different / undirected strands or a piece that does
    not follow the other; otherwise the result records `len(data) = len(location)`, a location inside the parent that
    covers exactly the two pieces, and the text is what that location reads (C03-T4). -/
theorem append_pieces_spec (P alph : List Char) (hnt : Sq.isNt alph = true) (st1 st2 : Strand) (a b : Blk)
    (ha : a.1 < a.2) (hb : b.1 < b.2) (hwa : a.2 ≤ P.length) (hwb : b.2 ≤ P.length)
    (dx dy : List Char) (px py : Option Strand)
    (hx : st1.isDirectional = true → Sq.expectExtract P alph (.single a st1) = some dx)
    (hy : st2.isDirectional = true → Sq.expectExtract P alph (.single b st2) = some dy) :
    Spec.Validate.okAppend P.length st1 a.1 a.2 st2 b.1 b.2 false
      (outAppend P alph (Sq.append P ⟨dx, some ⟨px, some (.single a st1)⟩⟩ ⟨dy, some ⟨py, some (.single b st2)⟩⟩)) = true := by
  cases hr : Spec.Validate.appendMustRefuse st1 a.1 a.2 st2 b.1 b.2 false with
  | true =>
      obtain ⟨k, hk⟩ := append_refuses P st1 st2 a b ha hb dx dy px py hr
      rw [hk]
      simp [outAppend, Spec.Validate.okAppend, hr]
  | false =>
      simp only [Spec.Validate.appendMustRefuse, Bool.not_false, Bool.true_and, Bool.or_eq_false_iff, bne_eq_false_iff_eq,
        beq_eq_false_iff_ne, ne_eq, Bool.and_eq_false_iff, decide_eq_false_iff_not] at hr
      obtain ⟨⟨⟨hst, hun⟩, hplus⟩, hminus⟩ := hr
      subst hst
      have hd : st1 = .plus ∨ st1 = .minus := by cases st1 <;> simp at hun ⊢
      have hdir : st1.isDirectional = true := by rcases hd with rfl | rfl <;> rfl
      have hord : if st1 = .plus then a.2 ≤ b.1 else b.2 ≤ a.1 := by
        rcases hd with rfl | rfl
        · simp only [if_true]
          rcases hplus with h | h
          · exact absurd rfl h
          · have : ¬ ((a.2 : Int) > (b.1 : Int)) := h
            omega
        · simp only [show (Strand.minus = Strand.plus) = False from by simp, if_false]
          rcases hminus with h | h
          · exact absurd rfl h
          · have : ¬ ((a.1 : Int) < (b.2 : Int)) := h
            omega
      obtain ⟨m, pst, happ, hm, hext⟩ := Sq.append_consistent_single P alph hnt a b st1 hd ha hb (Or.inr hwa) (Or.inr hwb)
        hord dx dy px py (hx hdir) (hy hdir)
      rw [happ]
      subst hm
      have hperm := sortBlocks_perm st1 [a, b]
      have hlenx := Sq.expect_length P alph (.single a st1) ⟨[a], st1⟩ rfl hdir dx (hx hdir)
      have hleny := Sq.expect_length P alph (.single b st1) ⟨[b], st1⟩ rfl hdir dy (hy hdir)
      simp only [Loc.len, blocksLen, Blk.len] at hlenx hleny
      have hflag : (match Sq.extract P alph (.compound ⟨sortBlocks st1 [a, b], st1⟩) with
          | .ok t => t == dx ++ dy
          | .error _ => false) = true := by
        cases he : Sq.extract P alph (.compound ⟨sortBlocks st1 [a, b], st1⟩) with
        | ok t => rw [he] at hext; simp [ans] at hext; simp [hext]
        | error e => rw [he] at hext; simp [ans] at hext
      have hvalid : ∀ x ∈ sortBlocks st1 [a, b], x.1 ≤ x.2 := by
        intro x hx'
        have := hperm.mem_iff.mp hx'
        simp at this
        rcases this with rfl | rfl <;> omega
      have htot : Spec.Validate.totalLen ((sortBlocks st1 [a, b]).map castBlk) = ((a.2 - a.1 + (b.2 - b.1) : Nat) : Int) := by
        rw [totalLen_cast _ hvalid, Sq.blocksLen_perm hperm]
        simp [blocksLen, Blk.len]
      have hwithin : ((sortBlocks st1 [a, b]).map castBlk).all
          (fun x => decide (0 ≤ x.1) && decide (x.1 ≤ x.2) && decide (x.2 ≤ (P.length : Int))) = true := by
        simp only [List.all_map, List.all_eq_true, Function.comp, castBlk, Bool.and_eq_true, decide_eq_true_eq]
        intro x hx'
        have hv := hvalid x hx'
        have hmem := hperm.mem_iff.mp hx'
        have hle : x.2 ≤ P.length := by
          simp at hmem
          rcases hmem with h | h <;> rw [h] <;> assumption
        exact ⟨⟨decide_eq_true (Int.natCast_nonneg _), decide_eq_true (by exact_mod_cast hv)⟩, decide_eq_true (by exact_mod_cast hle)⟩
      have hcov : ∀ p : Int, Spec.Validate.coversI ((sortBlocks st1 [a, b]).map castBlk) p =
          Spec.Validate.coversI [((a.1 : Int), (a.2 : Int)), ((b.1 : Int), (b.2 : Int))] p := by
        intro p
        unfold Spec.Validate.coversI
        exact any_perm (hperm.map castBlk) _
      have hst : strandOfLoc (.compound ⟨sortBlocks st1 [a, b], st1⟩) = st1 := rfl
      simp only [outAppend, Spec.Validate.okAppend, hflag, hst, locBlocks, List.length_append, hlenx, hleny]
      simp only [Spec.Validate.appendMustRefuse, Bool.not_false, Bool.true_and, bne_self_eq_false, Bool.false_or]
      have hne : (st1 == Strand.unstranded) = false := by rcases hd with rfl | rfl <;> rfl
      have hp2 : (st1 == Strand.plus && decide ((a.2 : Int) > (b.1 : Int))) = false := by
        rcases hd with rfl | rfl
        · have : ¬ ((a.2 : Int) > (b.1 : Int)) := by simp at hord; omega
          simp [this]
        · rfl
      have hm2 : (st1 == Strand.minus && decide ((a.1 : Int) < (b.2 : Int))) = false := by
        rcases hd with rfl | rfl
        · rfl
        · have : ¬ ((a.1 : Int) < (b.2 : Int)) := by simp at hord; omega
          simp [this]
      rw [hne, hp2, hm2, htot, hwithin]
      simp only [Bool.or_self, Bool.not_false, Bool.true_and, Bool.and_true, beq_self_eq_true, List.all_eq_true,
        Bool.and_eq_true, beq_iff_eq]
      refine ⟨⟨by omega, by omega⟩, fun p _ => hcov p⟩

/-! ### parent test of the multi-operand operations -/

def outGrid : V Unit → GridOut
  | .ok _ => .okWf
  | .error (.doc _) => .refused
  | .error (.internal _) => .internal

def ruleOf : POp → PRule
  | .fsi => .fsi
  | .mkpar => .mkpar
  | _ => .binary

def allOps : List POp := [.fsi, .mkpar, .append, .locrel, .binary]

/-- one grid point: the kinds index both tables (`kindKey`: the parents as the library sees them; `parentKinds`: the
    plain descriptors the expected verdict is computed from) -/
def pconsPoint (op : POp) (ks : List Nat) : Bool :=
  match ks.mapM kindKey, ks.mapM (fun k => Spec.Validate.parentKinds[k]?) with
  | some keys, some pds => Spec.Validate.okPcons (ruleOf op) pds (outGrid (pconsModel op keys))
  | _, _ => false

def pconsPairsCheck : Bool :=
  allOps.all fun op => (List.range nKinds).all fun i => (List.range nKinds).all fun j => pconsPoint op [i, j]

def fsiTriplesCheck : Bool :=
  (List.range nKinds).all fun i => (List.range nKinds).all fun j => (List.range nKinds).all fun k => pconsPoint .fsi [i, j, k]

theorem pconsPairsCheck_true : pconsPairsCheck = true := by decide +kernel

theorem fsiTriplesCheck_true : fsiTriplesCheck = true := by decide +kernel

/-- every operation x every ordered pair of the 17 parent kinds: the modelled parent test refuses exactly the pairs
    whose descriptors are incompatible (and never with an internal error) -/
theorem pcons_pairs (op : POp) (i j : Nat) (hi : i < nKinds) (hj : j < nKinds) : pconsPoint op [i, j] = true := by
  have h := pconsPairsCheck_true
  simp only [pconsPairsCheck, List.all_eq_true, List.mem_range] at h
  have hop : op ∈ allOps := by cases op <;> simp [allOps]
  exact h op hop i hi j hj

/-- from_single_intervals x every ordered triple of the 17 parent kinds -/
theorem fsi_triples (i j k : Nat) (hi : i < nKinds) (hj : j < nKinds) (hk : k < nKinds) : pconsPoint .fsi [i, j, k] = true := by
  have h := fsiTriplesCheck_true
  simp only [fsiTriplesCheck, List.all_eq_true, List.mem_range] at h
  exact h i hi j hj k hk

/-- for ANY operand list: `from_single_intervals` accepts exactly when every parent equals the first one -/
theorem fsiParents_ok_iff (k : PChain) (rest : List PChain) :
    fsiParents (k :: rest) = .ok () ↔ ∀ k' ∈ rest, k' = k := by
  unfold fsiParents
  by_cases h : (rest.all fun k' => decide (k' = k)) = true
  · simp only [h, if_true, pure, Except.pure, true_iff]
    simpa using h
  · simp only [h, raise, Bool.false_eq_true, if_false]
    constructor
    · intro hc; cases hc
    · intro hall
      exact absurd (by simpa using hall) h

end BioCantor.Proofs.Val
