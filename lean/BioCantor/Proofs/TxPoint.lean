/-
  C06, position conversions: each modelled method answers with the spec's lookup; the paths through
  the transcript agree; conversions invert each other.
-/
import BioCantor.Proofs.TxBasics
set_option linter.unusedSimpArgs false
namespace BioCantor.Proofs
open BioCantor BioCantor.Spec BioCantor.Model BioCantor.Model.Transcript

/-! ### each method against its expected value -/

theorem ans_c2t (t : Transcript) (h : WFT t) (p : Int) :
    ans (t.sequencePosToTranscript p) = expC2T (specOf t) p := by
  unfold sequencePosToTranscript sequencePosToFeature expC2T specOf
  rw [compoundP2R_spec _ h.exons.2.1, posIdx_eq]

theorem ans_t2c (t : Transcript) (r : Int) :
    ans (t.transcriptPosToSequence r) = expT2C (specOf t) r := by
  unfold transcriptPosToSequence featurePosToSequence expT2C specOf
  rw [compoundR2P_spec, posAt_eq]

theorem ans_c2d (t : Transcript) (h : WFT t) (p : Int) :
    ans (t.sequencePosToCds p) = expC2D (specOf t) p := by
  unfold sequencePosToCds requireCoding expC2D specOf
  cases hc : t.cds with
  | none => rfl
  | some d =>
    simp only [Option.bind]
    rw [posIdx_eq, ← compoundP2R_spec _ (h.cds d hc).1.2.1]
    rfl

theorem ans_d2c (t : Transcript) (c : Int) :
    ans (t.cdsPosToSequence c) = expD2C (specOf t) c := by
  unfold cdsPosToSequence requireCoding expD2C specOf
  cases hc : t.cds with
  | none => rfl
  | some d =>
    simp only [Option.bind]
    rw [posAt_eq, ← compoundR2P_spec]
    rfl

theorem ans_d2t (t : Transcript) (h : WFT t) (c : Int) :
    ans (t.cdsPosToTranscript c) = expD2T (specOf t) c := by
  unfold cdsPosToTranscript
  cases hc : t.cds with
  | none => simp [requireCoding, hc, expD2T, specOf, bind, Except.bind, throw, throwThe, MonadExceptOf.throw]
  | some d =>
    have h1 := ans_d2c t c
    have e : (requireCoding t >>= fun _ => t.cdsPosToSequence c >>= fun chr => t.sequencePosToTranscript chr)
        = (t.cdsPosToSequence c >>= fun chr => t.sequencePosToTranscript chr) := by
      simp [requireCoding, hc, bind, Except.bind, pure, Except.pure]
    show ans (requireCoding t >>= fun _ => t.cdsPosToSequence c >>= fun chr => t.sequencePosToTranscript chr) = _
    rw [e, ans_bind, h1]
    simp only [expD2C, expD2T, specOf, hc, Option.bind]
    cases posAt d c with
    | none => rfl
    | some q => simp only [Option.bind]; exact ans_c2t t h q

theorem ans_t2d (t : Transcript) (h : WFT t) (r : Int) :
    ans (t.transcriptPosToCds r) = expT2D (specOf t) r := by
  unfold transcriptPosToCds
  cases hc : t.cds with
  | none => simp [requireCoding, hc, expT2D, specOf, bind, Except.bind, throw, throwThe, MonadExceptOf.throw]
  | some d =>
    have h1 := ans_t2c t r
    have e : (requireCoding t >>= fun _ => t.transcriptPosToSequence r >>= fun chr => t.sequencePosToCds chr)
        = (t.transcriptPosToSequence r >>= fun chr => t.sequencePosToCds chr) := by
      simp [requireCoding, hc, bind, Except.bind, pure, Except.pure]
    show ans (requireCoding t >>= fun _ => t.transcriptPosToSequence r >>= fun chr => t.sequencePosToCds chr) = _
    rw [e, ans_bind, h1]
    simp only [expT2C, expT2D, specOf, hc, Option.bind]
    cases posAt t.exons r with
    | none => rfl
    | some q =>
      simp only [Option.bind]
      have := ans_c2d t h q
      simp only [expC2D, specOf, hc, Option.bind] at this
      exact this

theorem ans_aa (t : Transcript) (h : WFT t) (p : Int) :
    ans (t.sequencePosToAminoAcid p) = expAA (specOf t) p := by
  unfold sequencePosToAminoAcid expAA
  rw [ans_bind, ans_c2d t h p]
  cases expC2D (specOf t) p <;> rfl

/-! ### spec-level facts: paths and inverses, as statements about the lookups -/

/-- the CDS lies on the transcript: every CDS base is a transcript base -/
def CdsOnTx (t : TxSpec) : Prop := ∀ d, t.D = some d → ∀ q, q ∈ bases d → q ∈ bases t.E

/-- both locations are directional (what every 5'→3' statement needs) -/
def Directional (t : TxSpec) : Prop :=
  t.E.strand ≠ .unstranded ∧ ∀ d, t.D = some d → d.strand ≠ .unstranded

theorem posAt_posIdx (l : Loc) (p r : Int) (h : posIdx l p = some r) : posAt l r = some p := by
  by_cases hd : l.strand = .unstranded
  · simp [posIdx, hd] at h
  · obtain ⟨hp, hr, hi⟩ := posIdx_some l hd p r h
    have := getElem?_of_idxOf? _ _ _ hi
    have e := posAt_of l hd r.toNat p.toNat this
    rw [Int.toNat_of_nonneg hr, Int.toNat_of_nonneg hp] at e
    exact e

theorem posIdx_posAt (l : Loc) (hn : (bases l).Nodup) (r p : Int) (h : posAt l r = some p) :
    posIdx l p = some r := by
  by_cases hd : l.strand = .unstranded
  · simp [posAt, hd] at h
  · obtain ⟨hr, hp, hi⟩ := posAt_some l hd r p h
    have := idxOf?_nodup _ _ hn _ hi
    have e := posIdx_of l hd p.toNat r.toNat this
    rw [Int.toNat_of_nonneg hr, Int.toNat_of_nonneg hp] at e
    exact e

theorem posIdx_none_of_not_mem (l : Loc) (p : Int) (h : 0 ≤ p → p.toNat ∉ bases l) : posIdx l p = none := by
  unfold posIdx
  split
  · rfl
  · split
    · rfl
    · rw [(idxOf?_eq_none_iff _ _).2 (h (by omega))]; rfl

theorem mem_of_posIdx (l : Loc) (p r : Int) (h : posIdx l p = some r) : 0 ≤ p ∧ p.toNat ∈ bases l := by
  by_cases hd : l.strand = .unstranded
  · simp [posIdx, hd] at h
  · obtain ⟨hp, _, hi⟩ := posIdx_some l hd p r h
    refine ⟨hp, ?_⟩
    rw [← idxOf?_isSome_iff, hi]; rfl

/-- **paths agree**: chromosome→CDS is chromosome→transcript followed by transcript→CDS -/
theorem expC2D_via_tx (t : TxSpec) (hs : CdsOnTx t) (hdir : Directional t) (p : Int) :
    expC2D t p = (expC2T t p).bind (expT2D t) := by
  unfold expC2D expC2T expT2D
  cases hD : t.D with
  | none => cases posIdx t.E p <;> rfl
  | some d =>
    simp only [Option.bind]
    cases hE : posIdx t.E p with
    | some r =>
      simp only [Option.bind]
      rw [posAt_posIdx t.E p r hE]
    | none =>
      simp only [Option.bind]
      cases hq : posIdx d p with
      | none => rfl
      | some c =>
        exfalso
        obtain ⟨hp, hm⟩ := mem_of_posIdx d p c hq
        have := hs d hD _ hm
        have hx : posIdx t.E p ≠ none := by
          unfold posIdx
          simp only [hdir.1, if_false, show ¬ p < 0 by omega]
          rw [← idxOf?_isSome_iff] at this
          cases hi : idxOf? p.toNat (bases t.E) with
          | none => rw [hi] at this; cases this
          | some i => simp
        exact hx hE

/-! ### inverses (spec level) -/

theorem expT2C_of_expC2T (t : TxSpec) (p r : Int) (h : expC2T t p = some r) : expT2C t r = some p :=
  posAt_posIdx t.E p r h

theorem expC2T_of_expT2C (t : TxSpec) (hn : (bases t.E).Nodup) (r p : Int) (h : expT2C t r = some p) :
    expC2T t p = some r :=
  posIdx_posAt t.E hn r p h

theorem expD2C_of_expC2D (t : TxSpec) (p c : Int) (h : expC2D t p = some c) : expD2C t c = some p := by
  unfold expC2D at h; unfold expD2C
  cases hD : t.D with
  | none => simp [hD] at h
  | some d => simp only [hD, Option.bind] at h ⊢; exact posAt_posIdx d p c h

theorem expC2D_of_expD2C (t : TxSpec) (hn : ∀ d, t.D = some d → (bases d).Nodup) (c p : Int)
    (h : expD2C t c = some p) : expC2D t p = some c := by
  unfold expD2C at h; unfold expC2D
  cases hD : t.D with
  | none => simp [hD] at h
  | some d => simp only [hD, Option.bind] at h ⊢; exact posIdx_posAt d (hn d hD) c p h

theorem expT2D_of_expD2T (t : TxSpec) (hn : ∀ d, t.D = some d → (bases d).Nodup) (c r : Int)
    (h : expD2T t c = some r) : expT2D t r = some c := by
  unfold expD2T at h; unfold expT2D
  cases hD : t.D with
  | none => simp [hD] at h
  | some d =>
    simp only [hD, Option.bind] at h ⊢
    cases hq : posAt d c with
    | none => simp [hq] at h
    | some q =>
      simp only [hq] at h
      rw [posAt_posIdx t.E q r h]
      exact posIdx_posAt d (hn d hD) c q hq

theorem expD2T_of_expT2D (t : TxSpec) (hn : (bases t.E).Nodup) (r c : Int)
    (h : expT2D t r = some c) : expD2T t c = some r := by
  unfold expT2D at h; unfold expD2T
  cases hD : t.D with
  | none => simp [hD] at h
  | some d =>
    simp only [hD, Option.bind] at h ⊢
    cases hq : posAt t.E r with
    | none => simp [hq] at h
    | some q =>
      simp only [hq] at h
      rw [posAt_posIdx d q c h]
      exact posIdx_posAt t.E hn r q hq

/-! ### round trips: identity on the source system, refusal elsewhere -/

theorem posAt_in (l : Loc) (hd : l.strand ≠ .unstranded) (r : Int) (h0 : 0 ≤ r) (h1 : r < lenOf l) :
    ∃ q : Nat, posAt l r = some (q : Int) ∧ (bases l)[r.toNat]? = some q := by
  unfold lenOf at h1
  have hlt : r.toNat < (bases l).length := by omega
  refine ⟨(bases l)[r.toNat], ?_, ?_⟩
  · unfold posAt; simp [hd, show ¬ r < 0 by omega, List.getElem?_eq_getElem hlt]
  · exact List.getElem?_eq_getElem hlt

theorem posAt_out (l : Loc) (r : Int) (h : ¬ (0 ≤ r ∧ r < lenOf l)) : posAt l r = none := by
  unfold lenOf at h
  unfold posAt
  split
  · rfl
  · split
    · rfl
    · have : (bases l).length ≤ r.toNat := by omega
      rw [List.getElem?_eq_none this]; rfl

theorem okRoundTrip_t (t : TxSpec) (hdir : Directional t) (hn : (bases t.E).Nodup) (r : Int) :
    okRoundTrip (inTx t r) r ((expT2C t r).bind (expC2T t)) = true := by
  unfold okRoundTrip inTx expT2C expC2T
  by_cases hin : 0 ≤ r ∧ r < lenOf t.E
  · obtain ⟨q, hq, _⟩ := posAt_in t.E hdir.1 r hin.1 hin.2
    simp [hin.1, hin.2, hq, posIdx_posAt t.E hn r q hq]
  · have : (decide (0 ≤ r) && decide (r < lenOf t.E)) = false := by
      simp only [Bool.and_eq_false_iff, decide_eq_false_iff_not]; omega
    simp [this, posAt_out t.E r hin]

theorem okRoundTrip_c (t : TxSpec) (hdir : Directional t) (p : Int) :
    okRoundTrip (inExons t p) p ((expC2T t p).bind (expT2C t)) = true := by
  unfold okRoundTrip inExons expT2C expC2T
  by_cases hin : 0 ≤ p ∧ covers t.E p.toNat = true
  · have hm := (mem_bases_loc _ _).2 hin.2
    rw [← idxOf?_isSome_iff] at hm
    cases hi : idxOf? p.toNat (bases t.E) with
    | none => rw [hi] at hm; cases hm
    | some i =>
      have e := posIdx_of t.E hdir.1 p.toNat i hi
      rw [Int.toNat_of_nonneg hin.1] at e
      simp [hin.1, hin.2, e, posAt_posIdx t.E p i e]
  · have hnone : posIdx t.E p = none := by
      apply posIdx_none_of_not_mem
      intro h0 hm
      exact hin ⟨h0, (mem_bases_loc _ _).1 hm⟩
    have : (decide (0 ≤ p) && covers t.E p.toNat) = false := by
      cases hc : covers t.E p.toNat <;> simp_all
    simp [this, hnone]

theorem okRoundTrip_dc (t : TxSpec) (hdir : Directional t) (hn : ∀ d, t.D = some d → (bases d).Nodup) (c : Int) :
    okRoundTrip (inCds t c) c ((expD2C t c).bind (expC2D t)) = true := by
  unfold okRoundTrip inCds expD2C expC2D
  cases hD : t.D with
  | none => simp
  | some d =>
    simp only [Option.bind]
    by_cases hin : 0 ≤ c ∧ c < lenOf d
    · obtain ⟨q, hq, _⟩ := posAt_in d (hdir.2 d hD) c hin.1 hin.2
      simp [hin.1, hin.2, hq, posIdx_posAt d (hn d hD) c q hq]
    · have : (decide (0 ≤ c) && decide (c < lenOf d)) = false := by
        simp only [Bool.and_eq_false_iff, decide_eq_false_iff_not]; omega
      simp [this, posAt_out d c hin]

theorem okRoundTrip_d (t : TxSpec) (hdir : Directional t) (hs : CdsOnTx t)
    (hn : ∀ d, t.D = some d → (bases d).Nodup) (c : Int) :
    okRoundTrip (inCds t c) c ((expD2T t c).bind (expT2D t)) = true := by
  unfold okRoundTrip inCds
  cases hD : t.D with
  | none => simp [expD2T, hD]
  | some d =>
    simp only []
    by_cases hin : 0 ≤ c ∧ c < lenOf d
    · obtain ⟨q, hq, hg⟩ := posAt_in d (hdir.2 d hD) c hin.1 hin.2
      have hmem : q ∈ bases t.E := hs d hD q (List.mem_of_getElem? hg)
      rw [← idxOf?_isSome_iff] at hmem
      cases hi : idxOf? q (bases t.E) with
      | none => rw [hi] at hmem; cases hmem
      | some i =>
        have e := posIdx_of t.E hdir.1 q i hi
        have h1 : expD2T t c = some (i : Int) := by simp [expD2T, hD, hq, e]
        have h2 := expT2D_of_expD2T t hn c i h1
        simp [hin.1, hin.2, h1, h2]
    · have : (decide (0 ≤ c) && decide (c < lenOf d)) = false := by
        simp only [Bool.and_eq_false_iff, decide_eq_false_iff_not]; omega
      simp [this, expD2T, hD, posAt_out d c hin]

theorem okRoundTrip_td (t : TxSpec) (hdir : Directional t) (hn : (bases t.E).Nodup) (r : Int) :
    okRoundTrip (match expT2C t r with | some p => inCdsChrom t p | none => false) r
      ((expT2D t r).bind (expD2T t)) = true := by
  unfold okRoundTrip inCdsChrom
  cases hD : t.D with
  | none => cases expT2C t r <;> simp [expT2D, hD]
  | some d =>
    cases hq : expT2C t r with
    | none =>
      have : expT2D t r = none := by
        unfold expT2C at hq; simp [expT2D, hD, hq]
      simp [this]
    | some p =>
      simp only []
      unfold expT2C at hq
      by_cases hin : 0 ≤ p ∧ covers d p.toNat = true
      · have hm := (mem_bases_loc _ _).2 hin.2
        rw [← idxOf?_isSome_iff] at hm
        cases hi : idxOf? p.toNat (bases d) with
        | none => rw [hi] at hm; cases hm
        | some i =>
          have e := posIdx_of d (hdir.2 d hD) p.toNat i hi
          rw [Int.toNat_of_nonneg hin.1] at e
          have h1 : expT2D t r = some (i : Int) := by simp [expT2D, hD, hq, e]
          have h2 := expD2T_of_expT2D t hn r i h1
          simp [hin.1, hin.2, h1, h2]
      · have hnone : posIdx d p = none := by
          apply posIdx_none_of_not_mem
          intro h0 hm
          exact hin ⟨h0, (mem_bases_loc _ _).1 hm⟩
        have : (decide (0 ≤ p) && covers d p.toNat) = false := by
          cases hc : covers d p.toNat <;> simp_all
        have h1 : expT2D t r = none := by simp [expT2D, hD, hq, hnone]
        simp [this, h1]

end BioCantor.Proofs
