/-
  C18 helper lemmas, part 9: the gene biotype of a locus — `Counter` + `min(key=(-count, name))` picks the
  unique biotype of maximal count and least name, hence does not depend on the order of the transcripts.
-/
import BioCantor.Proofs.QualFilter
namespace BioCantor.Proofs.Qual
open BioCantor BioCantor.Spec.Qual BioCantor.Model.Qual

/-! ### `Counter` -/

/-- `c` represents the multiset `m`: distinct keys, each present key with its positive multiplicity -/
structure CRep (c : List (Str × Nat)) (m : List Str) : Prop where
  nodup : (c.map (·.1)).Nodup
  mem : ∀ k n, (k, n) ∈ c ↔ n = m.count k ∧ 0 < n

theorem counterBump_keys (k : Str) : ∀ (c : List (Str × Nat)) (x : Str),
    x ∈ (counterBump c k).map (·.1) ↔ x = k ∨ x ∈ c.map (·.1)
  | [], x => by simp [counterBump]
  | e :: es, x => by
    unfold counterBump
    by_cases h : e.1 = k
    · simp only [h, if_true, List.map_cons, List.mem_cons]
      constructor
      · rintro (h' | h')
        · exact Or.inl h'
        · exact Or.inr (Or.inr h')
      · rintro (h' | h' | h')
        · exact Or.inl h'
        · exact Or.inl h'
        · exact Or.inr h'
    · simp only [h, if_false, List.map_cons, List.mem_cons, counterBump_keys k es x]
      constructor
      · rintro (h' | h' | h')
        · exact Or.inr (Or.inl h')
        · exact Or.inl h'
        · exact Or.inr (Or.inr h')
      · rintro (h' | h' | h')
        · exact Or.inr (Or.inl h')
        · exact Or.inl h'
        · exact Or.inr (Or.inr h')

theorem counterBump_nodup (k : Str) : ∀ (c : List (Str × Nat)), (c.map (·.1)).Nodup → ((counterBump c k).map (·.1)).Nodup
  | [], _ => by simp [counterBump]
  | e :: es, h => by
    simp only [List.map_cons, List.nodup_cons] at h
    unfold counterBump
    by_cases he : e.1 = k
    · simp only [he, if_true, List.map_cons, List.nodup_cons]
      exact ⟨by rw [← he]; exact h.1, h.2⟩
    · simp only [he, if_false, List.map_cons, List.nodup_cons]
      refine ⟨fun hm => ?_, counterBump_nodup k es h.2⟩
      rcases (counterBump_keys k es e.1).mp hm with h' | h'
      · exact he h'
      · exact h.1 h'

/-- membership after one `+= 1` -/
theorem counterBump_mem (k : Str) : ∀ (c : List (Str × Nat)), (c.map (·.1)).Nodup → ∀ (x : Str) (n : Nat),
    (x, n) ∈ counterBump c k ↔
      (x ≠ k ∧ (x, n) ∈ c) ∨ (x = k ∧ ((∃ n0, (k, n0) ∈ c ∧ n = n0 + 1) ∨ (k ∉ c.map (·.1) ∧ n = 1)))
  | [], _, x, n => by
    simp [counterBump]
  | (ek, en) :: es, h, x, n => by
    simp only [List.map_cons, List.nodup_cons] at h
    unfold counterBump
    by_cases he : ek = k
    · subst he
      have hk' : ∀ n0, (ek, n0) ∉ es := fun n0 hm => h.1 (List.mem_map_of_mem (f := (·.1)) hm)
      simp only [if_true, List.mem_cons, Prod.mk.injEq, List.map_cons]
      constructor
      · rintro (⟨rfl, rfl⟩ | hm)
        · exact Or.inr ⟨rfl, Or.inl ⟨en, Or.inl ⟨trivial, rfl⟩, rfl⟩⟩
        · have hx : x ≠ ek := fun hx => hk' n (hx ▸ hm)
          exact Or.inl ⟨hx, Or.inr hm⟩
      · rintro (⟨hx, hm | hm⟩ | ⟨rfl, ⟨n0, hm | hm, rfl⟩ | ⟨hnot, _⟩⟩)
        · exact absurd hm.1 hx
        · exact Or.inr hm
        · exact Or.inl ⟨rfl, by rw [hm.2]⟩
        · exact absurd hm (hk' n0)
        · exact absurd (Or.inl trivial) hnot
    · simp only [he, if_false, List.mem_cons, Prod.mk.injEq, List.map_cons]
      rw [counterBump_mem k es h.2 x n]
      constructor
      · rintro (⟨rfl, rfl⟩ | ⟨hx, hm⟩ | ⟨rfl, ⟨n0, hm, rfl⟩ | ⟨hnot, rfl⟩⟩)
        · exact Or.inl ⟨he, Or.inl ⟨rfl, rfl⟩⟩
        · exact Or.inl ⟨hx, Or.inr hm⟩
        · exact Or.inr ⟨rfl, Or.inl ⟨n0, Or.inr hm, rfl⟩⟩
        · refine Or.inr ⟨rfl, Or.inr ⟨fun hm => ?_, rfl⟩⟩
          rcases hm with hm | hm
          · exact he hm.symm
          · exact hnot hm
      · rintro (⟨hx, hm | hm⟩ | ⟨rfl, ⟨n0, hm | hm, rfl⟩ | ⟨hnot, rfl⟩⟩)
        · exact Or.inl hm
        · exact Or.inr (Or.inl ⟨hx, hm⟩)
        · exact absurd hm.1.symm he
        · exact Or.inr (Or.inr ⟨rfl, Or.inl ⟨n0, hm, rfl⟩⟩)
        · exact Or.inr (Or.inr ⟨rfl, Or.inr ⟨fun hm => hnot (Or.inr hm), rfl⟩⟩)

theorem crep_step {c : List (Str × Nat)} {m : List Str} (h : CRep c m) (k : Str) :
    CRep (counterBump c k) (m ++ [k]) := by
  refine ⟨counterBump_nodup k c h.nodup, fun x n => ?_⟩
  rw [counterBump_mem k c h.nodup, List.count_append]
  by_cases hx : x = k
  · subst hx
    simp only [ne_eq, not_true_eq_false, false_and, true_and, false_or, List.count_singleton_self]
    constructor
    · rintro (⟨n0, hm, rfl⟩ | ⟨hnot, rfl⟩)
      · have := (h.mem x n0).mp hm
        exact ⟨by rw [this.1], by omega⟩
      · have : m.count x = 0 := by
          cases hc : m.count x with
          | zero => rfl
          | succ j =>
            exact absurd (List.mem_map_of_mem (f := (·.1)) ((h.mem x (j + 1)).mpr ⟨hc.symm, by omega⟩)) hnot
        exact ⟨by rw [this], by omega⟩
    · rintro ⟨hn, _⟩
      cases hc : m.count x with
      | zero =>
        right
        refine ⟨fun hm => ?_, by rw [hn, hc]⟩
        simp only [List.mem_map] at hm
        obtain ⟨e, he, rfl⟩ := hm
        have := (h.mem e.1 e.2).mp he
        omega
      | succ j =>
        left
        exact ⟨j + 1, (h.mem x (j + 1)).mpr ⟨hc.symm, by omega⟩, by rw [hn, hc]⟩
  · have hc : List.count x [k] = 0 := by
      rw [List.count_eq_zero]; intro hm; exact hx (List.mem_singleton.mp hm)
    simp only [ne_eq, hx, not_false_eq_true, true_and, false_and, or_false, hc, Nat.add_zero]
    exact h.mem x n

theorem crep_fold : ∀ (l : List Str) (c : List (Str × Nat)) (m : List Str), CRep c m → CRep (l.foldl counterBump c) (m ++ l)
  | [], c, m, h => by simpa using h
  | k :: ks, c, m, h => by
    rw [List.foldl_cons]
    have := crep_fold ks _ _ (crep_step h k)
    simpa using this

theorem counterOf_rep (l : List Str) : CRep (counterOf l) l := by
  have := crep_fold l [] [] ⟨List.nodup_nil, fun k n => by simp⟩
  simpa [counterOf] using this

/-! ### `min(key=…)` -/

theorem pyMinFold_spec {α} {lt : α → α → Bool} (irrefl : ∀ a, lt a a = false)
    (trans : ∀ a b c, lt a b = true → lt b c = true → lt a c = true) :
    ∀ (xs : List α) (best : α) (seen : List α), best ∈ seen → (∀ y ∈ seen, lt y best = false) →
      let r := xs.foldl (fun best y => if lt y best then y else best) best
      r ∈ seen ++ xs ∧ ∀ y ∈ seen ++ xs, lt y r = false
  | [], best, seen, hb, hm => by simpa using ⟨hb, hm⟩
  | x :: xs, best, seen, hb, hm => by
    simp only [List.foldl_cons]
    by_cases hx : lt x best = true
    · simp only [hx, if_true]
      have := pyMinFold_spec irrefl trans xs x (seen ++ [x]) (by simp) (fun y hy => by
        rcases List.mem_append.mp hy with h | h
        · cases hyx : lt y x with
          | false => rfl
          | true => have := trans y x best hyx hx; rw [hm y h] at this; cases this
        · rw [List.mem_singleton.mp h]; exact irrefl x)
      simpa using this
    · simp only [hx, Bool.false_eq_true, if_false]
      have := pyMinFold_spec irrefl trans xs best (seen ++ [x]) (List.mem_append_left _ hb) (fun y hy => by
        rcases List.mem_append.mp hy with h | h
        · exact hm y h
        · rw [List.mem_singleton.mp h]; simpa using hx)
      simpa using this

theorem pyMinBy_spec {α} {lt : α → α → Bool} (irrefl : ∀ a, lt a a = false)
    (trans : ∀ a b c, lt a b = true → lt b c = true → lt a c = true) (l : List α) (r : α)
    (h : pyMinBy lt l = some r) : r ∈ l ∧ ∀ y ∈ l, lt y r = false := by
  cases l with
  | nil => cases h
  | cons x xs =>
    simp only [pyMinBy, Option.some.injEq] at h
    have := pyMinFold_spec irrefl trans xs x [x] (by simp) (fun y hy => by
      rw [List.mem_singleton.mp hy]; exact irrefl x)
    rw [h] at this
    simpa using this

theorem biotypeKeyLt_irrefl (a : Str × Nat) : biotypeKeyLt a a = false := by
  simp [biotypeKeyLt, strLt_irrefl]

theorem biotypeKeyLt_trans (a b c : Str × Nat) :
    biotypeKeyLt a b = true → biotypeKeyLt b c = true → biotypeKeyLt a c = true := by
  simp only [biotypeKeyLt, Bool.or_eq_true, decide_eq_true_eq, Bool.and_eq_true, beq_iff_eq]
  rintro (h1 | ⟨h1, h1'⟩) (h2 | ⟨h2, h2'⟩)
  · left; omega
  · left; omega
  · left; omega
  · right; exact ⟨by omega, strLt_trans h1' h2'⟩

/-- MAIN LEMMA: the repaired rule returns a biotype of maximal count and, among those, of least name -/
theorem geneBiotype_ok (types : List Str) : okBiotype types (geneBiotype types) = true := by
  have hrep := counterOf_rep types
  unfold geneBiotype
  cases hmin : pyMinBy biotypeKeyLt (counterOf types) with
  | none =>
    simp only [Option.map_none, okBiotype]
    cases types with
    | nil => rfl
    | cons t ts =>
      have hmem : (t, (t :: ts).count t) ∈ counterOf (t :: ts) :=
        (hrep.mem t _).mpr ⟨rfl, List.count_pos_iff.mpr List.mem_cons_self⟩
      cases hc : counterOf (t :: ts) with
      | nil => rw [hc] at hmem; cases hmem
      | cons x xs => rw [hc] at hmin; simp [pyMinBy] at hmin
  | some r =>
    obtain ⟨hr, hall⟩ := pyMinBy_spec biotypeKeyLt_irrefl biotypeKeyLt_trans _ r hmin
    obtain ⟨hrc, hrpos⟩ := (hrep.mem r.1 r.2).mp hr
    simp only [Option.map_some, okBiotype, Bool.and_eq_true, List.contains_iff_mem, List.all_eq_true,
      Bool.or_eq_true, decide_eq_true_eq, beq_iff_eq]
    refine ⟨List.count_pos_iff.mp (by omega), fun b' hb' => ?_⟩
    have hb'mem : (b', types.count b') ∈ counterOf types :=
      (hrep.mem b' _).mpr ⟨rfl, List.count_pos_iff.mpr hb'⟩
    have h1 := hall _ hb'mem
    simp only [biotypeKeyLt, Bool.or_eq_false_iff, decide_eq_false_iff_not, Bool.and_eq_false_iff] at h1
    obtain ⟨hle, hor⟩ := h1
    rw [← hrc]
    by_cases hlt : types.count b' < r.2
    · exact Or.inl hlt
    · right
      have heq : types.count b' = r.2 := by omega
      refine ⟨heq, ?_⟩
      rcases hor with h | h
      · simp only [beq_eq_false_iff_ne] at h; exact absurd heq h
      · rw [strLe_iff]
        by_cases hn : r.1 = b'
        · exact Or.inl hn
        · rcases strLt_total hn with h' | h'
          · exact Or.inr h'
          · rw [h'] at h; cases h

/-- the reference predicate determines the answer … -/
theorem okBiotype_unique {types : List Str} {a b : Option Str}
    (ha : okBiotype types a = true) (hb : okBiotype types b = true) : a = b := by
  cases a with
  | none =>
    cases b with
    | none => rfl
    | some y =>
      simp only [okBiotype, List.isEmpty_iff] at ha
      subst ha
      simp [okBiotype] at hb
  | some x =>
    cases b with
    | none =>
      simp only [okBiotype, List.isEmpty_iff] at hb
      subst hb
      simp [okBiotype] at ha
    | some y =>
      simp only [okBiotype, Bool.and_eq_true, List.contains_iff_mem, List.all_eq_true, Bool.or_eq_true,
        decide_eq_true_eq, beq_iff_eq] at ha hb
      have h1 := ha.2 y hb.1
      have h2 := hb.2 x ha.1
      rcases h1 with h1 | ⟨h1, h1'⟩
      · rcases h2 with h2 | ⟨h2, _⟩ <;> omega
      · rcases h2 with h2 | ⟨_, h2'⟩
        · omega
        · rw [strLe_antisymm h1' h2']

/-- … and does not look at the order of the transcripts -/
theorem okBiotype_perm {l l' : List Str} (hp : l.Perm l') (a : Option Str) : okBiotype l a = okBiotype l' a := by
  cases a with
  | none =>
    simp only [okBiotype]
    cases l with
    | nil => rw [List.nil_perm.mp hp]
    | cons x xs =>
      cases l' with
      | nil => exact absurd hp.symm (by simp)
      | cons _ _ => rfl
  | some b =>
    simp only [okBiotype]
    rw [Bool.eq_iff_iff]
    simp only [Bool.and_eq_true, List.contains_iff_mem, List.all_eq_true, Bool.or_eq_true, decide_eq_true_eq, beq_iff_eq]
    constructor
    · rintro ⟨h1, h2⟩
      refine ⟨hp.mem_iff.mp h1, fun b' hb' => ?_⟩
      have := h2 b' (hp.mem_iff.mpr hb')
      rw [hp.count_eq b', hp.count_eq b] at this
      exact this
    · rintro ⟨h1, h2⟩
      refine ⟨hp.mem_iff.mpr h1, fun b' hb' => ?_⟩
      have := h2 b' (hp.mem_iff.mp hb')
      rw [← hp.count_eq b', ← hp.count_eq b] at this
      exact this

end BioCantor.Proofs.Qual
