/-
  C08 helper lemmas, part 1: no unordered container reaches MD5.
  `sorted(...)` is a function of the multiset; the token stream is invariant under `SameContent`; qualifier import is
  invariant under `SameRawQuals`; the hand-written mirror agrees with the reference stream.
-/
import BioCantor.Model.Digest
import BioCantor.Proofs.DigStr
namespace BioCantor.Proofs.Dig
open BioCantor BioCantor.Spec.Digest BioCantor.Model.Digest
open BioCantor.Spec.Qual (Str strLt strLe)
open BioCantor.Proofs.DigStr (strLe_trans strLe_total strLe_antisymm strLe_iff strLt_irrefl strLt_trans)

/-! ### `sorted` of strings -/

theorem sortStrs_pairwise (l : List Str) : (sortStrs l).Pairwise (fun a b => strLe a b = true) :=
  List.pairwise_mergeSort (le := strLe) strLe_trans strLe_total l

theorem sortStrs_perm_self (l : List Str) : (sortStrs l).Perm l := List.mergeSort_perm l strLe

theorem sortStrs_perm {a b : List Str} (h : a.Perm b) : sortStrs a = sortStrs b := by
  apply List.Perm.eq_of_pairwise (le := fun a b => strLe a b = true)
  · intro x y _ _ h1 h2; exact strLe_antisymm h1 h2
  · exact sortStrs_pairwise a
  · exact sortStrs_pairwise b
  · exact (sortStrs_perm_self a).trans (h.trans (sortStrs_perm_self b).symm)

theorem orderSet_perm {a b : List PyVal} (h : a.Perm b) : orderSet a = orderSet b :=
  sortStrs_perm (h.map pyStr)

/-! ### `sorted(dict)` on entries with pairwise distinct keys -/

theorem keyLe_trans (a b c : Str × List Str) : keyLe a b = true → keyLe b c = true → keyLe a c = true :=
  strLe_trans _ _ _
theorem keyLe_total (a b : Str × List Str) : (keyLe a b || keyLe b a) = true := strLe_total _ _

theorem eq_of_key_eq {α} : ∀ {l : List (Str × α)}, (l.map (·.1)).Nodup → ∀ {x y}, x ∈ l → y ∈ l → x.1 = y.1 → x = y
  | [], _, _, _, hx, _, _ => by cases hx
  | e :: es, hn, x, y, hx, hy, hk => by
    simp only [List.map_cons, List.nodup_cons, List.mem_map, not_exists, not_and] at hn
    rcases List.mem_cons.mp hx with hx | hx <;> rcases List.mem_cons.mp hy with hy | hy
    · rw [hx, hy]
    · exact absurd (by rw [← hk, hx]) (hn.1 y hy)
    · exact absurd (by rw [hk, hy]) (hn.1 x hx)
    · exact eq_of_key_eq hn.2 hx hy hk

theorem sortEntries_perm {a b : List (Str × List Str)} (hd : (a.map (·.1)).Nodup) (h : a.Perm b) :
    a.mergeSort keyLe = b.mergeSort keyLe := by
  have pa := List.mergeSort_perm a keyLe
  have pb := List.mergeSort_perm b keyLe
  apply List.Perm.eq_of_pairwise (le := fun a b => keyLe a b = true)
  · intro x y hx hy h1 h2
    have hk : x.1 = y.1 := strLe_antisymm h1 h2
    exact eq_of_key_eq hd (pa.mem_iff.mp hx) (h.symm.mem_iff.mp (pb.mem_iff.mp hy)) hk
  · exact List.pairwise_mergeSort keyLe_trans keyLe_total a
  · exact List.pairwise_mergeSort keyLe_trans keyLe_total b
  · exact pa.trans (h.trans pb.symm)

/-! ### structure of the mutual definitions -/

theorem entryTokens_eq_map : ∀ (l : List (Str × PyVal)), entryTokens l = l.map fun e => (e.1, memberTokens e.2)
  | [] => by simp [entryTokens]
  | (k, v) :: rest => by simp [entryTokens, entryTokens_eq_map rest]

theorem entryTokens_keys (l : List (Str × PyVal)) : (entryTokens l).map (·.1) = l.map (·.1) := by
  rw [entryTokens_eq_map, List.map_map]; rfl

theorem keysDistinct_iff : ∀ (l : List (Str × PyVal)), keysDistinct l = true ↔ (l.map (·.1)).Nodup
  | [] => by simp [keysDistinct]
  | e :: es => by
    simp only [keysDistinct, Bool.and_eq_true, Bool.not_eq_true', List.map_cons, List.nodup_cons,
      keysDistinct_iff es]
    constructor
    · rintro ⟨h1, h2⟩
      refine ⟨?_, h2⟩
      intro hm
      rcases List.mem_map.mp hm with ⟨x, hx, hk⟩
      have : es.any (fun x => x.1 == e.1) = true := List.any_eq_true.mpr ⟨x, hx, by simp [hk]⟩
      rw [h1] at this; cases this
    · rintro ⟨h1, h2⟩
      refine ⟨?_, h2⟩
      cases h : es.any (fun x => x.1 == e.1) with
      | false => rfl
      | true =>
        rcases List.any_eq_true.mp h with ⟨x, hx, hk⟩
        exact absurd (List.mem_map.mpr ⟨x, hx, by simpa using hk⟩) h1

theorem wfList_iff : ∀ (l : List PyVal), wfList l = true ↔ ∀ v ∈ l, wfVal v = true
  | [] => by simp [wfList]
  | v :: vs => by simp [wfList, wfList_iff vs]

theorem wfEntries_iff : ∀ (l : List (Str × PyVal)), wfEntries l = true ↔ ∀ e ∈ l, wfVal e.2 = true
  | [] => by simp [wfEntries]
  | (k, v) :: rest => by simp [wfEntries, wfEntries_iff rest]

theorem wfDict_iff (l : List (Str × PyVal)) :
    wfVal (.dict l) = true ↔ (l.map (·.1)).Nodup ∧ ∀ e ∈ l, wfVal e.2 = true := by
  simp only [wfVal, Bool.and_eq_true, keysDistinct_iff, wfEntries_iff]

theorem memberTokens_dict (l : List (Str × PyVal)) :
    memberTokens (.dict l) = ((entryTokens l).mergeSort keyLe).flatMap fun e => e.1 :: e.2 := by
  simp [memberTokens]

theorem memberTokens_set (l : List PyVal) : memberTokens (.set l) = [strOfStrList (orderSet l)] := by
  simp [memberTokens]

/-! ### T1: invariance under `SameContent` -/

theorem memberTokens_sameContent {v w : PyVal} (h : SameContent v w) :
    wfVal v = true → memberTokens v = memberTokens w ∧ wfVal w = true := by
  induction h with
  | refl v => intro hw; exact ⟨rfl, hw⟩
  | set hp =>
    intro hw
    refine ⟨by rw [memberTokens_set, memberTokens_set, orderSet_perm hp], ?_⟩
    simp only [wfVal, wfList_iff] at hw ⊢
    intro v hv; exact hw v (hp.mem_iff.mpr hv)
  | @dictPerm a b hp =>
    intro hw
    rw [wfDict_iff] at hw
    refine ⟨?_, ?_⟩
    · rw [memberTokens_dict, memberTokens_dict]
      have hpe : (entryTokens a).Perm (entryTokens b) := by
        rw [entryTokens_eq_map, entryTokens_eq_map]; exact hp.map _
      rw [sortEntries_perm (by rw [entryTokens_keys]; exact hw.1) hpe]
    · rw [wfDict_iff]
      exact ⟨(hp.map (·.1)).nodup_iff.mp hw.1, fun e he => hw.2 e (hp.mem_iff.mpr he)⟩
  | @dictVal p s k v w _ ih =>
    intro hw
    rw [wfDict_iff] at hw
    have hv : wfVal v = true := hw.2 (k, v) (by simp)
    have ⟨ht, hww⟩ := ih hv
    refine ⟨?_, ?_⟩
    · rw [memberTokens_dict, memberTokens_dict, entryTokens_eq_map, entryTokens_eq_map]
      simp only [List.map_append, List.map_cons, ht]
    · rw [wfDict_iff]
      refine ⟨by simpa using hw.1, ?_⟩
      intro e he
      simp only [List.mem_append, List.mem_cons] at he
      rcases he with he | rfl | he
      · exact hw.2 e (by simp [he])
      · exact hww
      · exact hw.2 e (by simp [he])
  | trans _ _ ih1 ih2 =>
    intro hw
    have ⟨h1, hw1⟩ := ih1 hw
    have ⟨h2, hw2⟩ := ih2 hw1
    exact ⟨h1.trans h2, hw2⟩

theorem flatMap_memberTokens_sameContent : ∀ {a b : List PyVal}, Forall₂ SameContent a b → wfList a = true →
    a.flatMap memberTokens = b.flatMap memberTokens
  | _, _, .nil, _ => rfl
  | _, _, .cons h t, hw => by
    simp only [wfList, Bool.and_eq_true] at hw
    simp only [List.flatMap_cons, (memberTokens_sameContent h hw.1).1, flatMap_memberTokens_sameContent t hw.2]

/-! ### the values inside a qualifier: `{str(x) for x in vals}` then `sorted` -/

theorem dedupSorted_mem : ∀ (l : List Str) (x : Str), x ∈ dedupSorted l ↔ x ∈ l
  | [], _ => by simp [dedupSorted]
  | [a], _ => by simp [dedupSorted]
  | a :: b :: rest, x => by
    rw [dedupSorted]
    split
    · next h => subst h; rw [dedupSorted_mem (a :: rest) x]; simp
    · simp only [List.mem_cons, dedupSorted_mem (b :: rest) x]

theorem dedupSorted_strict : ∀ (l : List Str), l.Pairwise (fun a b => strLe a b = true) →
    (dedupSorted l).Pairwise (fun a b => strLt a b = true)
  | [], _ => by simp [dedupSorted]
  | [a], _ => by simp [dedupSorted]
  | a :: b :: rest, h => by
    rw [dedupSorted]
    have ht : (b :: rest).Pairwise (fun a b => strLe a b = true) := (List.pairwise_cons.mp h).2
    split
    · exact dedupSorted_strict (b :: rest) ht
    · next hne =>
      refine List.pairwise_cons.mpr ⟨?_, dedupSorted_strict (b :: rest) ht⟩
      intro y hy
      rw [dedupSorted_mem] at hy
      have hab : strLe a b = true := (List.pairwise_cons.mp h).1 b (by simp)
      have hlt : strLt a b = true := by
        rcases strLe_iff.mp hab with h1 | h1
        · exact absurd h1 hne
        · exact h1
      rcases List.mem_cons.mp hy with rfl | hy
      · exact hlt
      · have hby : strLe b y = true := (List.pairwise_cons.mp ht).1 y hy
        rcases strLe_iff.mp hby with h1 | h1
        · subst h1; exact hlt
        · exact strLt_trans hlt h1

/-- `strSet` is strictly ascending and has exactly the `str()`-ed members -/
theorem strSet_strict (vals : List PyVal) : (strSet vals).Pairwise (fun a b => strLt a b = true) :=
  dedupSorted_strict _ (sortStrs_pairwise _)

theorem strSet_mem (vals : List PyVal) (x : Str) : x ∈ strSet vals ↔ x ∈ vals.map pyStr := by
  unfold strSet; rw [dedupSorted_mem]; exact (sortStrs_perm_self _).mem_iff

theorem strSet_ext {a b : List PyVal} (h : ∀ x, x ∈ a.map pyStr ↔ x ∈ b.map pyStr) : strSet a = strSet b :=
  BioCantor.Proofs.DigStr.strict_ext (strSet_strict a) (strSet_strict b)
    (fun x => by rw [strSet_mem, strSet_mem, h])

/-- a strictly ascending list is what `sorted` returns for it, and what the set builder keeps of it -/
theorem sortStrs_of_strict {l : List Str} (h : l.Pairwise (fun a b => strLt a b = true)) : sortStrs l = l :=
  List.mergeSort_of_pairwise (h.imp fun hlt => strLe_iff.mpr (Or.inr hlt))

theorem dedupSorted_of_strict : ∀ {l : List Str}, l.Pairwise (fun a b => strLt a b = true) → dedupSorted l = l
  | [], _ => by simp [dedupSorted]
  | [a], _ => by simp [dedupSorted]
  | a :: b :: rest, h => by
    rw [dedupSorted]
    have hab : strLt a b = true := (List.pairwise_cons.mp h).1 b (by simp)
    have hne : a ≠ b := by rintro rfl; rw [strLt_irrefl] at hab; cases hab
    rw [if_neg hne, dedupSorted_of_strict (List.pairwise_cons.mp h).2]

theorem importQuals_forall₂ {q q'' : RawQuals}
    (hf : Forall₂ (fun e e' => e.1 = e'.1 ∧ ∀ x, x ∈ e.2.map pyStr ↔ x ∈ e'.2.map pyStr) q q'') :
    importQuals (some q) = importQuals (some q'') := by
  simp only [importQuals]
  induction hf with
  | nil => rfl
  | cons hh _ ih =>
    simp only [List.map_cons]
    rw [ih]
    congr 1
    exact Prod.ext hh.1 (strSet_ext hh.2)

theorem importQuals_same {q q' : RawQuals} (h : SameRawQuals q q') :
    SameContent (qualsVal (importQuals (some q))) (qualsVal (importQuals (some q'))) := by
  rcases h with ⟨q'', hf, hp⟩
  rw [importQuals_forall₂ hf]
  apply SameContent.dictPerm
  simp only [importQuals]
  exact (hp.map _).map _

theorem memberTokens_importQuals_same {q q' : RawQuals} (h : SameRawQuals q q') (hk : (q.map (·.1)).Nodup) :
    memberTokens (qualsVal (importQuals (some q))) = memberTokens (qualsVal (importQuals (some q'))) := by
  apply (memberTokens_sameContent (importQuals_same h) ?_).1
  rw [qualsVal, wfDict_iff]
  constructor
  · simpa [importQuals, List.map_map, Function.comp_def] using hk
  · intro e he
    simp only [List.mem_map] at he
    rcases he with ⟨x, _, rfl⟩
    simp only [wfVal, wfList_iff, List.mem_map]
    rintro v ⟨s, _, rfl⟩; rfl

/-! ### the mirror agrees with the reference stream -/

theorem insertStr_perm (x : Str) : ∀ (l : List Str), (insertStr x l).Perm (x :: l)
  | [] => by simp [insertStr]
  | y :: ys => by
    rw [insertStr]; split
    · exact List.Perm.refl _
    · exact ((insertStr_perm x ys).cons y).trans (List.Perm.swap x y ys)

theorem insertStr_sorted (x : Str) : ∀ (l : List Str), l.Pairwise (fun a b => strLe a b = true) →
    (insertStr x l).Pairwise (fun a b => strLe a b = true)
  | [], _ => by simp [insertStr]
  | y :: ys, h => by
    rw [insertStr]; split
    · next hxy =>
      refine List.pairwise_cons.mpr ⟨?_, h⟩
      intro z hz
      rcases List.mem_cons.mp hz with rfl | hz
      · exact hxy
      · exact strLe_trans _ _ _ hxy ((List.pairwise_cons.mp h).1 z hz)
    · next hxy =>
      have hyx : strLe y x = true := by
        have := strLe_total x y; simp only [Bool.or_eq_true] at this
        rcases this with h1 | h1
        · exact absurd h1 hxy
        · exact h1
      refine List.pairwise_cons.mpr ⟨?_, insertStr_sorted x ys (List.pairwise_cons.mp h).2⟩
      intro z hz
      rcases List.mem_cons.mp ((insertStr_perm x ys).mem_iff.mp hz) with rfl | hz
      · exact hyx
      · exact (List.pairwise_cons.mp h).1 z hz

theorem canonSet_eq (vs : List PyVal) : canonSet vs = orderSet vs := by
  have hs : ∀ (l : List PyVal), (canonSet l).Pairwise (fun a b => strLe a b = true) ∧ (canonSet l).Perm (l.map pyStr) := by
    intro l
    induction l with
    | nil => simp [canonSet]
    | cons v vs ih =>
      have : canonSet (v :: vs) = insertStr (pyStr v) (canonSet vs) := rfl
      rw [this]
      exact ⟨insertStr_sorted _ _ ih.1, (insertStr_perm _ _).trans (ih.2.cons _)⟩
  apply List.Perm.eq_of_pairwise (le := fun a b => strLe a b = true)
  · intro x y _ _ h1 h2; exact strLe_antisymm h1 h2
  · exact (hs vs).1
  · exact sortStrs_pairwise _
  · exact (hs vs).2.trans (sortStrs_perm_self _).symm

theorem insertEntry_perm (x : Str × List Str) : ∀ (l : List (Str × List Str)), (insertEntry x l).Perm (x :: l)
  | [] => by simp [insertEntry]
  | y :: ys => by
    rw [insertEntry]; split
    · exact List.Perm.refl _
    · exact ((insertEntry_perm x ys).cons y).trans (List.Perm.swap x y ys)

theorem insertEntry_sorted (x : Str × List Str) : ∀ (l : List (Str × List Str)),
    l.Pairwise (fun a b => keyLe a b = true) → (insertEntry x l).Pairwise (fun a b => keyLe a b = true)
  | [], _ => by simp [insertEntry]
  | y :: ys, h => by
    rw [insertEntry]; split
    · next hxy =>
      refine List.pairwise_cons.mpr ⟨?_, h⟩
      intro z hz
      rcases List.mem_cons.mp hz with rfl | hz
      · exact hxy
      · exact keyLe_trans _ _ _ hxy ((List.pairwise_cons.mp h).1 z hz)
    · next hxy =>
      have hyx : keyLe y x = true := by
        have := keyLe_total x y; simp only [Bool.or_eq_true] at this
        rcases this with h1 | h1
        · exact absurd h1 hxy
        · exact h1
      refine List.pairwise_cons.mpr ⟨?_, insertEntry_sorted x ys (List.pairwise_cons.mp h).2⟩
      intro z hz
      rcases List.mem_cons.mp ((insertEntry_perm x ys).mem_iff.mp hz) with rfl | hz
      · exact hyx
      · exact (List.pairwise_cons.mp h).1 z hz

mutual
theorem refMember_eq : ∀ (v : PyVal), wfVal v = true → refMember v = memberTokens v
  | .dict kvs, hw => by
    rw [wfDict_iff] at hw
    have ⟨hs, hp⟩ := refEntries_spec kvs ((wfEntries_iff kvs).mpr hw.2)
    rw [memberTokens_dict]
    simp only [refMember]
    congr 1
    apply List.Perm.eq_of_pairwise (le := fun a b => keyLe a b = true)
    · intro x y hx hy h1 h2
      have hk : x.1 = y.1 := strLe_antisymm h1 h2
      have hd : ((entryTokens kvs).map (·.1)).Nodup := by rw [entryTokens_keys]; exact hw.1
      exact eq_of_key_eq hd (hp.mem_iff.mp hx) ((List.mergeSort_perm _ keyLe).mem_iff.mp hy) hk
    · exact hs
    · exact List.pairwise_mergeSort keyLe_trans keyLe_total _
    · exact hp.trans (List.mergeSort_perm _ keyLe).symm
  | .set vs, _ => by rw [memberTokens_set]; simp only [refMember, canonSet_eq]
  | .none, _ => by simp [refMember, memberTokens]
  | .bool _, _ => by simp [refMember, memberTokens]
  | .int _, _ => by simp [refMember, memberTokens]
  | .str _, _ => by simp [refMember, memberTokens]
  | .uuid _, _ => by simp [refMember, memberTokens]
  | .obj _ _, _ => by simp [refMember, memberTokens]
  | .list _, _ => by simp [refMember, memberTokens]
theorem refEntries_spec : ∀ (l : List (Str × PyVal)), wfEntries l = true →
    (refEntries l).Pairwise (fun a b => keyLe a b = true) ∧ (refEntries l).Perm (entryTokens l)
  | [], _ => by simp [refEntries, entryTokens]
  | (k, v) :: rest, hw => by
    simp only [wfEntries, Bool.and_eq_true] at hw
    have ⟨hs, hp⟩ := refEntries_spec rest hw.2
    simp only [refEntries, entryTokens, refMember_eq v hw.1]
    exact ⟨insertEntry_sorted _ _ hs, (insertEntry_perm _ _).trans (hp.cons _)⟩
end

theorem refTokens_eq (args : List PyVal) (kwargs : List (Str × PyVal)) (ha : wfList args = true)
    (hk : wfVal (.dict kwargs) = true) : refTokens args kwargs = encodeObjectForDigest args kwargs := by
  unfold refTokens encodeObjectForDigest orderDict
  rw [refMember_eq _ hk]
  congr 1
  induction args with
  | nil => rfl
  | cons v vs ih =>
    simp only [wfList, Bool.and_eq_true] at ha
    simp only [List.flatMap_cons, refMember_eq v ha.1, ih ha.2]

end BioCantor.Proofs.Dig
