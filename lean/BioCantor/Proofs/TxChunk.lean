/-
  C06, chunk-built transcripts: the chunk-relative location in closed form (`Spec.chunkLocOf`) and its base
  list (`Spec.chunkBases`): the in-window bases of the location, in its own 5'→3' order, in chunk coordinates.
-/
import BioCantor.Proofs.TxBasics
import BioCantor.Proofs.LiftChunk
set_option linter.unusedSimpArgs false
namespace BioCantor.Proofs
open BioCantor BioCantor.Spec BioCantor.Model

/-! ### `chunkDown` in closed form -/

theorem winOk_unpack (W : Win) (h : winOk W = true) : (W.wst = .plus ∨ W.wst = .minus) ∧ W.w.1 < W.w.2 := by
  unfold winOk at h
  simp only [Bool.and_eq_true, decide_eq_true_eq] at h
  refine ⟨?_, h.2⟩
  cases hs : W.wst <;> simp [hs, Strand.isDirectional] at h ⊢

theorem relBlk_eq_chunkBlk (W : Win) (hd : W.wst = .plus ∨ W.wst = .minus) (b : Blk) :
    Lift.relBlk W.w W.wst b = chunkBlk W (max W.w.1 b.1, min W.w.2 b.2) := by
  unfold Lift.relBlk chunkBlk
  rcases hd with h | h <;> simp [h]

theorem chunkDown_explicit (init : Location) (hwf : WF init) (hne : init ≠ .empty) (W : Win) (hW : winOk W = true) :
    chunkDown init W.w W.wst = .ok (chunkLocOf init W) := by
  obtain ⟨hd, hwl⟩ := winOk_unpack W hW
  have hlen : ¬ (W.w.len = 0) := by unfold Blk.len; omega
  have hne' : ¬ ((init == Location.empty) = true) := by simpa using hne
  unfold chunkDown chunkLocOf
  rw [if_neg hlen]
  -- (`chunkDown` has, in some revisions of Model/Lift.lean, an explicit refusal of the empty location first)
  first | rw [if_neg hne'] | skip
  cases init with
  | empty => exact absurd rfl hne
  | single b st =>
    have hb : b.1 ≤ b.2 := hwf
    simp only [relativeToSingle, Lift.clip_eq]
    by_cases h : max W.w.1 b.1 < min W.w.2 b.2
    · have ho : overlapKernel b W.w = true := (Lift.overlapKernel_iff b W.w).mpr ⟨by omega, hwl, by omega⟩
      rw [ho, if_pos rfl, Lift.singleRelativeToSingle_ok b st W.w W.wst hd h, if_pos h]
      simp only [relBlk_eq_chunkBlk W hd b, strandRelativeTo_eq_compose']
    · have ho : overlapKernel b W.w = false := by
        rw [Bool.eq_false_iff]; intro hc
        have := ((Lift.overlapKernel_iff b W.w).mp hc).2.2; omega
      rw [ho, if_neg h]
      simp [throw, throwThe, MonadExceptOf.throw, pure, Except.pure]
  | compound l =>
    have hv : ∀ b ∈ l.blocks, b.1 ≤ b.2 := (blocksValid_iff _).mp hwf.2.1
    have hcl := Lift.clips_eq W.w hwl l.blocks hv
    simp only [relativeToSingle, hcl]
    generalize hhits : l.blocks.filter (fun b => overlapKernel W.w b) = hits
    have hhv : ∀ b ∈ hits, max W.w.1 b.1 < min W.w.2 b.2 := by
      intro b hb
      rw [← hhits, List.mem_filter] at hb
      exact ((Lift.overlapKernel_iff W.w b).mp hb.2).2.2
    have hany : (l.blocks.any fun b => overlapKernel b W.w) = !hits.isEmpty := by
      rw [← hhits]
      simp only [Lift.overlapKernel_comm _ W.w]
      rw [Bool.eq_iff_iff]
      simp [List.filter_eq_nil_iff]
    rw [hany]
    cases hits with
    | nil => simp [throw, throwThe, MonadExceptOf.throw, pure, Except.pure]
    | cons h0 hs =>
      generalize hH : h0 :: hs = H at *
      have hHne : H ≠ [] := by rw [← hH]; simp
      have hrel_ne : H.map (Lift.relBlk W.w W.wst) ≠ [] := by simpa using hHne
      have hrel_v : ∀ r ∈ H.map (Lift.relBlk W.w W.wst), r.1 ≤ r.2 := by
        intro r hr
        obtain ⟨b, hb, rfl⟩ := List.mem_map.mp hr
        exact (Lift.relBlk_props W.w W.wst b (hhv b hb)).1
      have he : H.isEmpty = false := by simpa using hHne
      have hmm : (H.map fun b => (max W.w.1 b.1, min W.w.2 b.2)).map (chunkBlk W) = H.map (Lift.relBlk W.w W.wst) := by
        rw [List.map_map]
        apply List.map_congr_left
        intro b _
        exact (relBlk_eq_chunkBlk W hd b).symm
      simp only [he, Bool.not_false, not_true, if_false, Bool.not_true, bind, Except.bind,
        Lift.relGo_ok W.w W.wst l hd H hhv, mkCompoundLoc_ok (compose l.strand W.wst) hrel_ne hrel_v,
        Bool.false_eq_true, pure, Except.pure, List.isEmpty_map, hmm, strandRelativeTo_eq_compose']

/-! ### two strictly monotone lists with the same members are equal -/

theorem sorted_ext_lt (l1 l2 : List Nat) (h1 : l1.Pairwise (· < ·)) (h2 : l2.Pairwise (· < ·))
    (hm : ∀ x, x ∈ l1 ↔ x ∈ l2) : l1 = l2 := by
  have n1 : l1.Nodup := h1.imp (fun h => Nat.ne_of_lt h)
  have n2 : l2.Nodup := h2.imp (fun h => Nat.ne_of_lt h)
  exact List.Perm.eq_of_pairwise (le := (· < ·)) (fun a b _ _ h h' => by omega) h1 h2
    ((List.perm_ext_iff_of_nodup n1 n2).2 hm)

theorem sorted_ext_gt (l1 l2 : List Nat) (h1 : l1.Pairwise (· > ·)) (h2 : l2.Pairwise (· > ·))
    (hm : ∀ x, x ∈ l1 ↔ x ∈ l2) : l1 = l2 := by
  have n1 : l1.Nodup := h1.imp (fun h => Nat.ne_of_gt h)
  have n2 : l2.Nodup := h2.imp (fun h => Nat.ne_of_gt h)
  exact List.Perm.eq_of_pairwise (le := (· > ·)) (fun a b _ _ h h' => by omega) h1 h2
    ((List.perm_ext_iff_of_nodup n1 n2).2 hm)

/-! ### the base list of the chunk-relative location -/

theorem bases_sorted_dir (bs : List Blk) (st : Strand) (hp : bs.Pairwise (fun a b => a.2 ≤ b.1)) :
    if st = .minus then (bases ⟨bs, st⟩).Pairwise (· > ·) else (bases ⟨bs, st⟩).Pairwise (· < ·) := by
  rw [bases_mk]; split
  · exact List.pairwise_reverse.mpr (basesPlus_sorted hp)
  · exact basesPlus_sorted hp

theorem compose_dir (a b : Strand) (ha : a = .plus ∨ a = .minus) (hb : b = .plus ∨ b = .minus) :
    (compose a b = .minus ↔ (a = .minus ↔ b ≠ .minus)) ∧ (compose a b = .plus ∨ compose a b = .minus) := by
  rcases ha with rfl | rfl <;> rcases hb with rfl | rfl <;> simp [compose]

/-- membership in a chunk-coordinate block = being the chunk coordinate of an in-window base of the block -/
theorem mem_chunkBlk (W : Win) (hd : W.wst = .plus ∨ W.wst = .minus) (b : Blk) (x : Nat) :
    (max W.w.1 b.1 < min W.w.2 b.2 ∧
      (chunkBlk W (max W.w.1 b.1, min W.w.2 b.2)).1 ≤ x ∧ x < (chunkBlk W (max W.w.1 b.1, min W.w.2 b.2)).2) ↔
    ∃ p, b.1 ≤ p ∧ p < b.2 ∧ W.w.1 ≤ p ∧ p < W.w.2 ∧ chunkOf W p = x := by
  unfold chunkBlk chunkOf
  rcases hd with h | h
  · simp only [h, reduceCtorEq, if_false]
    constructor
    · rintro ⟨h1, h2, h3⟩; exact ⟨x + W.w.1, by omega, by omega, by omega, by omega, by omega⟩
    · rintro ⟨p, h1, h2, h3, h4, h5⟩; omega
  · simp only [h, if_true]
    constructor
    · rintro ⟨h1, h2, h3⟩; exact ⟨W.w.2 - 1 - x, by omega, by omega, by omega, by omega, by omega⟩
    · rintro ⟨p, h1, h2, h3, h4, h5⟩; omega

theorem clip_some (w b c : Blk) (h : clip w b = some c) :
    max w.1 b.1 < min w.2 b.2 ∧ c = (max w.1 b.1, min w.2 b.2) := by
  rw [Lift.clip_eq] at h
  split at h
  · rename_i hc; exact ⟨hc, (Option.some.inj h).symm⟩
  · cases h

/-- the constructor-sorted chunk images of the clips are non-empty and in ascending, non-overlapping order -/
theorem chunk_blocks_ordered (Bs : List Blk) (st : Strand) (W : Win)
    (hd : W.wst = .plus ∨ W.wst = .minus) (hp : Bs.Pairwise (fun a b => a.2 ≤ b.1)) (rst : Strand) :
    (sortBlocks rst ((Bs.filterMap (clip W.w)).map (chunkBlk W))).Pairwise (fun a b => a.2 ≤ b.1) ∧
    ∀ r ∈ sortBlocks rst ((Bs.filterMap (clip W.w)).map (chunkBlk W)), r.1 < r.2 := by
  generalize hcs : Bs.filterMap (clip W.w) = cs
  -- facts about the clips
  have hcsf : ∀ c ∈ cs, ∃ b ∈ Bs, max W.w.1 b.1 < min W.w.2 b.2 ∧ c = (max W.w.1 b.1, min W.w.2 b.2) := by
    intro c hc
    rw [← hcs, List.mem_filterMap] at hc
    obtain ⟨b, hb, hbc⟩ := hc
    exact ⟨b, hb, clip_some _ _ _ hbc⟩
  have hcsp : cs.Pairwise (fun a b => a.2 ≤ b.1) := by
    rw [← hcs]
    refine List.Pairwise.filterMap _ ?_ hp
    intro a a' haa c hc c' hc'
    obtain ⟨_, rfl⟩ := clip_some _ _ _ hc
    obtain ⟨_, rfl⟩ := clip_some _ _ _ hc'
    simp only; omega
  -- the images are non-empty and mutually disjoint
  have himg_pos : ∀ r ∈ cs.map (chunkBlk W), r.1 < r.2 := by
    intro r hr
    obtain ⟨c, hc, rfl⟩ := List.mem_map.mp hr
    obtain ⟨b, _, hlt, rfl⟩ := hcsf c hc
    unfold chunkBlk; rcases hd with h | h <;> simp [h] <;> omega
  have himg_dis : (cs.map (chunkBlk W)).Pairwise (fun a b => a.2 ≤ b.1 ∨ b.2 ≤ a.1) := by
    rw [List.pairwise_map]
    refine hcsp.imp_of_mem ?_
    intro a b ha hb hab
    obtain ⟨_, _, h1, rfl⟩ := hcsf a ha
    obtain ⟨_, _, h2, rfl⟩ := hcsf b hb
    simp only at hab
    unfold chunkBlk; rcases hd with h | h <;> simp [h] <;> omega
  -- hence the constructor-sorted images are in ascending, non-overlapping order
  have hperm := sortBlocks_perm rst (cs.map (chunkBlk W))
  have hSle := sortBlocks_pairwise rst (cs.map (chunkBlk W))
  generalize hS : sortBlocks rst (cs.map (chunkBlk W)) = S at hperm hSle
  have hSdis : S.Pairwise (fun a b => a.2 ≤ b.1 ∨ b.2 ≤ a.1) :=
    (List.Perm.pairwise_iff (fun h => h.symm) hperm).mpr himg_dis
  have hSpos : ∀ r ∈ S, r.1 < r.2 := fun r hr => himg_pos r (hperm.mem_iff.mp hr)
  have hSp : S.Pairwise (fun a b => a.2 ≤ b.1) :=
    (hSle.and hSdis).imp_of_mem (fun {a b} ha hb h => by
      have := blkLe_fst_le rst a b h.1
      have := hSpos a ha
      have := hSpos b hb
      have := h.2
      omega)
  exact ⟨hSp, hSpos⟩

/-- the closed form, on block lists: sorted chunk images of the clips read exactly the in-window bases -/
theorem chunk_blocks_bases (Bs : List Blk) (st : Strand) (W : Win)
    (hst : st = .plus ∨ st = .minus) (hd : W.wst = .plus ∨ W.wst = .minus)
    (hv : ∀ b ∈ Bs, b.1 ≤ b.2) (hp : Bs.Pairwise (fun a b => a.2 ≤ b.1)) :
    bases ⟨sortBlocks (compose st W.wst) ((Bs.filterMap (clip W.w)).map (chunkBlk W)), compose st W.wst⟩ =
      chunkBases ⟨Bs, st⟩ W := by
  generalize hcs : Bs.filterMap (clip W.w) = cs
  generalize hrst : compose st W.wst = rst
  obtain ⟨hrm, hrd⟩ := compose_dir st W.wst hst hd
  rw [hrst] at hrm hrd
  -- facts about the clips
  have hcsf : ∀ c ∈ cs, ∃ b ∈ Bs, max W.w.1 b.1 < min W.w.2 b.2 ∧ c = (max W.w.1 b.1, min W.w.2 b.2) := by
    intro c hc
    rw [← hcs, List.mem_filterMap] at hc
    obtain ⟨b, hb, hbc⟩ := hc
    exact ⟨b, hb, clip_some _ _ _ hbc⟩
  have hcsp : cs.Pairwise (fun a b => a.2 ≤ b.1) := by
    rw [← hcs]
    refine List.Pairwise.filterMap _ ?_ hp
    intro a a' haa c hc c' hc'
    obtain ⟨_, rfl⟩ := clip_some _ _ _ hc
    obtain ⟨_, rfl⟩ := clip_some _ _ _ hc'
    simp only; omega
  -- the images are non-empty and mutually disjoint
  have himg_pos : ∀ r ∈ cs.map (chunkBlk W), r.1 < r.2 := by
    intro r hr
    obtain ⟨c, hc, rfl⟩ := List.mem_map.mp hr
    obtain ⟨b, _, hlt, rfl⟩ := hcsf c hc
    unfold chunkBlk; rcases hd with h | h <;> simp [h] <;> omega
  have himg_dis : (cs.map (chunkBlk W)).Pairwise (fun a b => a.2 ≤ b.1 ∨ b.2 ≤ a.1) := by
    rw [List.pairwise_map]
    refine hcsp.imp_of_mem ?_
    intro a b ha hb hab
    obtain ⟨_, _, h1, rfl⟩ := hcsf a ha
    obtain ⟨_, _, h2, rfl⟩ := hcsf b hb
    simp only at hab
    unfold chunkBlk; rcases hd with h | h <;> simp [h] <;> omega
  -- hence the constructor-sorted images are in ascending, non-overlapping order
  have hperm := sortBlocks_perm rst (cs.map (chunkBlk W))
  have hSle := sortBlocks_pairwise rst (cs.map (chunkBlk W))
  generalize hS : sortBlocks rst (cs.map (chunkBlk W)) = S at hperm hSle
  have hSdis : S.Pairwise (fun a b => a.2 ≤ b.1 ∨ b.2 ≤ a.1) :=
    (List.Perm.pairwise_iff (fun h => h.symm) hperm).mpr himg_dis
  have hSpos : ∀ r ∈ S, r.1 < r.2 := fun r hr => himg_pos r (hperm.mem_iff.mp hr)
  have hSp : S.Pairwise (fun a b => a.2 ≤ b.1) :=
    (hSle.and hSdis).imp_of_mem (fun {a b} ha hb h => by
      have := blkLe_fst_le rst a b h.1
      have := hSpos a ha
      have := hSpos b hb
      have := h.2
      omega)
  -- membership on both sides
  have hmem : ∀ x, x ∈ bases ⟨S, rst⟩ ↔ x ∈ chunkBases ⟨Bs, st⟩ W := by
    intro x
    rw [mem_bases, coversBlocks_iff]
    unfold chunkBases
    simp only [List.mem_map, List.mem_filter, mem_bases, coversBlocks_iff, inWin, Bool.and_eq_true,
      decide_eq_true_eq]
    constructor
    · rintro ⟨r, hr, hx⟩
      obtain ⟨c, hc, rfl⟩ := List.mem_map.mp (hperm.mem_iff.mp hr)
      obtain ⟨b, hb, hlt, rfl⟩ := hcsf c hc
      obtain ⟨p, h1, h2, h3, h4, h5⟩ := (mem_chunkBlk W hd b x).mp ⟨hlt, hx.1, hx.2⟩
      exact ⟨p, ⟨⟨b, hb, h1, h2⟩, h3, h4⟩, h5⟩
    · rintro ⟨p, ⟨⟨b, hb, h1, h2⟩, h3, h4⟩, h5⟩
      obtain ⟨hlt, hx1, hx2⟩ := (mem_chunkBlk W hd b x).mpr ⟨p, h1, h2, h3, h4, h5⟩
      refine ⟨chunkBlk W (max W.w.1 b.1, min W.w.2 b.2), ?_, hx1, hx2⟩
      apply hperm.mem_iff.mpr
      apply List.mem_map.mpr
      refine ⟨(max W.w.1 b.1, min W.w.2 b.2), ?_, rfl⟩
      rw [← hcs, List.mem_filterMap]
      exact ⟨b, hb, by rw [Lift.clip_eq, if_pos hlt]⟩
  -- monotonicity on both sides
  have hL := bases_sorted_dir S rst hSp
  have hB := bases_sorted_dir Bs st hp
  have hmono_lt : ∀ (l : List Nat), l.Pairwise (· < ·) →
      if W.wst = .minus then ((l.filter (inWin W.w)).map (chunkOf W)).Pairwise (· > ·)
      else ((l.filter (inWin W.w)).map (chunkOf W)).Pairwise (· < ·) := by
    intro l hl
    have hf := (hl.filter (inWin W.w))
    have hf' := List.Pairwise.and_mem.mp hf
    split
    · rename_i hm
      rw [List.pairwise_map]
      refine hf'.imp ?_
      intro a b ⟨ha, hb, hab⟩
      simp only [List.mem_filter, inWin, Bool.and_eq_true, decide_eq_true_eq] at ha hb
      unfold chunkOf; simp only [hm, if_true]; omega
    · rename_i hm
      rw [List.pairwise_map]
      refine hf'.imp ?_
      intro a b ⟨ha, hb, hab⟩
      simp only [List.mem_filter, inWin, Bool.and_eq_true, decide_eq_true_eq] at ha hb
      unfold chunkOf; simp only [hm, if_false]; omega
  have hmono_gt : ∀ (l : List Nat), l.Pairwise (· > ·) →
      if W.wst = .minus then ((l.filter (inWin W.w)).map (chunkOf W)).Pairwise (· < ·)
      else ((l.filter (inWin W.w)).map (chunkOf W)).Pairwise (· > ·) := by
    intro l hl
    have hf := (hl.filter (inWin W.w))
    have hf' := List.Pairwise.and_mem.mp hf
    split
    · rename_i hm
      rw [List.pairwise_map]
      refine hf'.imp ?_
      intro a b ⟨ha, hb, hab⟩
      simp only [List.mem_filter, inWin, Bool.and_eq_true, decide_eq_true_eq] at ha hb
      unfold chunkOf; simp only [hm, if_true]; omega
    · rename_i hm
      rw [List.pairwise_map]
      refine hf'.imp ?_
      intro a b ⟨ha, hb, hab⟩
      simp only [List.mem_filter, inWin, Bool.and_eq_true, decide_eq_true_eq] at ha hb
      unfold chunkOf; simp only [hm, if_false]; omega
  -- assemble: same direction on both sides
  by_cases hsm : st = .minus
  · rw [if_pos hsm] at hB
    have hR := hmono_gt _ hB
    by_cases hwm : W.wst = .minus
    · have hrp : ¬ rst = .minus := by rw [hrm]; simp [hsm, hwm]
      rw [if_neg hrp] at hL
      rw [if_pos hwm] at hR
      exact sorted_ext_lt _ _ hL hR hmem
    · have hrp : rst = .minus := by rw [hrm]; simp [hsm, hwm]
      rw [if_pos hrp] at hL
      rw [if_neg hwm] at hR
      exact sorted_ext_gt _ _ hL hR hmem
  · rw [if_neg hsm] at hB
    have hR := hmono_lt _ hB
    by_cases hwm : W.wst = .minus
    · have hrp : rst = .minus := by rw [hrm]; simp [hsm, hwm]
      rw [if_pos hrp] at hL
      rw [if_pos hwm] at hR
      exact sorted_ext_gt _ _ hL hR hmem
    · have hrp : ¬ rst = .minus := by rw [hrm]; simp [hsm, hwm]
      rw [if_neg hrp] at hL
      rw [if_neg hwm] at hR
      exact sorted_ext_lt _ _ hL hR hmem

/-! ### the chunk-relative location of a well-formed, non-overlapping, directional location -/

theorem txNonOverlap_of_pairwise : ∀ (L : List Blk), L.Pairwise (fun a b => a.2 ≤ b.1) → nonOverlap L = true
  | [], _ => rfl
  | [_], _ => rfl
  | a :: b :: r, h => by
    rw [List.pairwise_cons] at h
    simp only [nonOverlap, Bool.and_eq_true, decide_eq_true_eq]
    exact ⟨h.1 b (by simp), txNonOverlap_of_pairwise (b :: r) h.2⟩

theorem bases_nil (s : Strand) : bases ⟨[], s⟩ = [] := by cases s <;> rfl
theorem sortBlocks_nil (s : Strand) : sortBlocks s [] = [] := by simp [sortBlocks]
theorem sortBlocks_singleton (s : Strand) (b : Blk) : sortBlocks s [b] = [b] := by simp [sortBlocks]

/-- everything the later proofs need about `chunkLocOf` -/
theorem chunkLocOf_facts (init : Location) (L : Loc) (hl : toLoc init = some L) (hwf : WF init)
    (hst : L.strand = .plus ∨ L.strand = .minus) (hno : nonOverlap L.blocks = true) (W : Win) (hW : winOk W = true) :
    WF (chunkLocOf init W) ∧ locationBases (chunkLocOf init W) = chunkBases L W ∧
    (∀ L', toLoc (chunkLocOf init W) = some L' →
      L'.strand = compose L.strand W.wst ∧ nonOverlap L'.blocks = true ∧ bases L' = chunkBases L W) := by
  obtain ⟨hd, hwl⟩ := winOk_unpack W hW
  have hv := WF_valid init L hl hwf
  have hp := nonOverlap_pairwise L.blocks hv hno
  have hcore := chunk_blocks_bases L.blocks L.strand W hst hd hv hp
  have hord := chunk_blocks_ordered L.blocks L.strand W hd hp (compose L.strand W.wst)
  cases init with
  | empty => simp [toLoc] at hl
  | single b st =>
    simp only [toLoc, Option.some.injEq] at hl; subst hl
    simp only [chunkLocOf]
    simp only [List.filterMap_cons, List.filterMap_nil] at hcore hord
    cases hc : clip W.w b with
    | none =>
      simp only [hc, List.map_nil, sortBlocks_nil] at hcore
      refine ⟨trivial, ?_, ?_⟩
      · simp only [locationBases]; rw [← hcore, bases_nil]
      · intro L' hL'; simp [toLoc] at hL'
    | some c =>
      simp only [hc, List.map_cons, List.map_nil, sortBlocks_singleton] at hcore hord
      refine ⟨?_, hcore, ?_⟩
      · have := hord.2 (chunkBlk W c) (by simp)
        exact Nat.le_of_lt this
      · intro L' hL'
        simp only [toLoc, Option.some.injEq] at hL'; subst hL'
        exact ⟨rfl, rfl, hcore⟩
  | compound l =>
    simp only [toLoc, Option.some.injEq] at hl; subst hl
    simp only [chunkLocOf]
    cases hcs : (List.filterMap (clip W.w) l.blocks) with
    | nil =>
      simp only [hcs, List.map_nil, sortBlocks_nil] at hcore
      simp only [List.isEmpty_nil, if_true]
      refine ⟨trivial, ?_, ?_⟩
      · simp only [locationBases]; rw [← hcore, bases_nil]
      · intro L' hL'; simp [toLoc] at hL'
    | cons c0 cr =>
      rw [hcs] at hcore hord
      simp only [List.isEmpty_cons, Bool.false_eq_true, if_false]
      have hne : (c0 :: cr).map (chunkBlk W) ≠ [] := by simp
      have hvv : ∀ r ∈ (c0 :: cr).map (chunkBlk W), r.1 ≤ r.2 := by
        intro r hr
        exact Nat.le_of_lt (hord.2 r ((sortBlocks_perm _ _).mem_iff.mpr hr))
      refine ⟨canon_sortBlocks _ hne hvv, hcore, ?_⟩
      intro L' hL'
      simp only [toLoc, Option.some.injEq] at hL'; subst hL'
      exact ⟨rfl, txNonOverlap_of_pairwise _ hord.1, hcore⟩

theorem blocksLen_pos (S : List Blk) (r : Blk) (hr : r ∈ S) (hp : r.1 < r.2) : 0 < blocksLen S := by
  induction S with
  | nil => cases hr
  | cons x xs ih =>
    simp only [blocksLen, Blk.len]
    rcases List.mem_cons.1 hr with rfl | h
    · omega
    · have := ih h; omega

/-- a chunk-relative location without bases is the empty location -/
theorem chunkLocOf_no_bases (init : Location) (L : Loc) (hl : toLoc init = some L) (hwf : WF init)
    (hst : L.strand = .plus ∨ L.strand = .minus) (hno : nonOverlap L.blocks = true) (W : Win) (hW : winOk W = true)
    (hnb : chunkBases L W = []) : chunkLocOf init W = .empty := by
  obtain ⟨hd, hwl⟩ := winOk_unpack W hW
  have hv := WF_valid init L hl hwf
  have hp := nonOverlap_pairwise L.blocks hv hno
  have hcore := chunk_blocks_bases L.blocks L.strand W hst hd hv hp
  have hord := chunk_blocks_ordered L.blocks L.strand W hd hp (compose L.strand W.wst)
  rw [hnb] at hcore
  have hlen := congrArg List.length hcore
  rw [bases_length] at hlen
  simp only [List.length_nil, Loc.len] at hlen
  cases init with
  | empty => simp [toLoc] at hl
  | single b st =>
    simp only [toLoc, Option.some.injEq] at hl; subst hl
    simp only [chunkLocOf]
    simp only [List.filterMap_cons, List.filterMap_nil] at hlen hord
    cases hc : clip W.w b with
    | none => rfl
    | some c =>
      simp only [hc, List.map_cons, List.map_nil, sortBlocks_singleton] at hlen hord
      have := blocksLen_pos [chunkBlk W c] (chunkBlk W c) (by simp) (hord.2 (chunkBlk W c) (by simp))
      omega
  | compound l =>
    simp only [toLoc, Option.some.injEq] at hl; subst hl
    simp only [chunkLocOf]
    cases hcs : (List.filterMap (clip W.w) l.blocks) with
    | nil => simp
    | cons c0 cr =>
      rw [hcs] at hlen hord
      have hm : chunkBlk W c0 ∈ sortBlocks (compose l.strand W.wst) ((c0 :: cr).map (chunkBlk W)) :=
        (sortBlocks_perm _ _).mem_iff.mpr (by simp)
      have := blocksLen_pos _ _ hm (hord.2 _ hm)
      omega

/-- every chunk coordinate of an in-window base is a position of the chunk -/
theorem chunkBases_lt (L : Loc) (W : Win) (hW : winOk W = true) : ∀ x ∈ chunkBases L W, x < W.w.2 - W.w.1 := by
  intro x hx
  unfold chunkBases at hx
  simp only [List.mem_map, List.mem_filter, inWin, Bool.and_eq_true, decide_eq_true_eq] at hx
  obtain ⟨p, ⟨_, h1, h2⟩, rfl⟩ := hx
  unfold chunkOf; split <;> omega

/-- `chunkLocOf` is empty exactly when it has no base -/
theorem chunkLocOf_empty_iff (init : Location) (L : Loc) (hl : toLoc init = some L) (hwf : WF init)
    (hst : L.strand = .plus ∨ L.strand = .minus) (hno : nonOverlap L.blocks = true) (W : Win) (hW : winOk W = true) :
    chunkLocOf init W = .empty → chunkBases L W = [] := by
  intro h
  have := (chunkLocOf_facts init L hl hwf hst hno W hW).2.1
  rw [h] at this
  exact this.symm

/-! ### point maps of any well-formed location, as list lookups -/

theorem p2r_listIdx (m : Location) (hwf : WF m) (hdir : ∀ L, toLoc m = some L → L.strand ≠ .unstranded) (q : Int) :
    ans (p2r m q) = listIdx (locationBases m) q := by
  have h := p2r_ok m hwf q
  unfold okP2R at h
  rw [beq_iff_eq] at h
  rw [h]
  unfold expectP2R listIdx
  cases hl : toLoc m with
  | none =>
    have : m = .empty := by cases m <;> simp [toLoc] at hl ⊢
    subst this
    simp [locationBases, idxOf?]
  | some L =>
    have hb : locationBases m = bases L := (toLoc_facts m L hl).2.2.1
    simp only [hdir L hl, if_false, hb]

theorem r2p_listAt (m : Location) (hwf : WF m) (hdir : ∀ L, toLoc m = some L → L.strand ≠ .unstranded) (r : Int) :
    ans (r2p m r) = listAt (locationBases m) r := by
  have h := r2p_ok m hwf r
  unfold okR2P at h
  rw [beq_iff_eq] at h
  rw [h]
  unfold expectR2P listAt
  cases hl : toLoc m with
  | none =>
    have : m = .empty := by cases m <;> simp [toLoc] at hl ⊢
    subst this
    simp [locationBases]
  | some L =>
    have hb : locationBases m = bases L := (toLoc_facts m L hl).2.2.1
    simp only [hdir L hl, if_false, hb]

end BioCantor.Proofs
