/- C19 proofs, part 8: every window produced by scan_windows is well formed (corollary of C01's relint theorem). -/
import BioCantor.Proofs.ValScan
import BioCantor.Proofs.RelInterval
set_option linter.unusedSimpArgs false
namespace BioCantor.Proofs.Val
open BioCantor BioCantor.Model BioCantor.Model.Validate BioCantor.Spec BioCantor.Proofs

/-- C01-T3 (`relInterval_ok`) restricted to its well-formedness clause -/
theorem relInterval_wf (l : Location) (h : WF l) (rs re : Int) (rst : Strand) (m : Location)
    (hm : relInterval l rs re rst = .ok m) : wfLocation m = true := by
  have hok := relInterval_ok l h rs re rst
  rw [hm] at hok
  simp only [ans] at hok
  unfold okRelint at hok
  cases htl : toLoc l with
  | none => rw [htl] at hok; simp at hok
  | some loc =>
      rw [htl] at hok
      simp only [] at hok
      split at hok
      · simp at hok
      · split at hok
        · rename_i h2; simp at h2
        · simp only [Bool.and_eq_true] at hok
          exact hok.1.1.2

theorem mapM_ok_mem {α β} (f : α → V β) : ∀ (xs : List α) (ys : List β), xs.mapM f = .ok ys →
    ∀ y ∈ ys, ∃ x ∈ xs, f x = .ok y
  | [], ys, h => by
      simp [pure, Except.pure] at h; subst h; intro y hy; cases hy
  | x :: xs, ys, h => by
      simp only [List.mapM_cons, bind, Except.bind] at h
      cases hx : f x with
      | error e => rw [hx] at h; cases h
      | ok b =>
          rw [hx] at h
          cases hr : xs.mapM f with
          | error e => rw [hr] at h; cases h
          | ok bs =>
              rw [hr] at h
              simp only [pure, Except.pure, Except.ok.injEq] at h
              subst h
              intro y hy
              rcases List.mem_cons.mp hy with h1 | h1
              · subst h1; exact ⟨x, by simp, hx⟩
              · obtain ⟨x', hx', hfx⟩ := mapM_ok_mem f xs bs hr y h1
                exact ⟨x', List.mem_cons_of_mem _ hx', hfx⟩

theorem scanWindows_wf (l : Location) (h : WF l) (w step sp : Int) (ws : List Location)
    (hws : scanWindows l w step sp = .ok ws) : ∀ m ∈ ws, wfLocation m = true := by
  unfold scanWindows at hws
  cases hk : scanWinCount l w step sp with
  | error e => rw [hk] at hws; cases hws
  | ok k =>
      rw [hk] at hws
      simp only [bind, Except.bind] at hws
      intro m hm
      obtain ⟨i, _, hi⟩ := mapM_ok_mem _ _ _ hws m hm
      cases hr : relInterval l (sp + (i : Int) * step) (sp + (i : Int) * step + w) .plus with
      | error e => rw [hr] at hi; cases hi
      | ok m' =>
          rw [hr] at hi
          simp only [liftR, Except.ok.injEq] at hi
          subst hi
          exact relInterval_wf l h _ _ _ _ hr

end BioCantor.Proofs.Val
