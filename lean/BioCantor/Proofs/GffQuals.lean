/-
  C11 / T5 (attributes) — the model's imperative qualifier export (`addToSet`, `mergeQuals`, `setKey`) carries the
  same "key carries value" relation as the Spec's declarative unions `geneQuals` / `txQuals` / `cdsQuals` /
  `fcQuals` / `featQuals`; keys stay non-empty.
-/
import BioCantor.Proofs.GffAttrEq
namespace BioCantor.Proofs.GffQuals
open BioCantor BioCantor.Model.Gff BioCantor.Proofs.GffCanon BioCantor.Proofs.GffAttrEq
open BioCantor.Spec.Gff (Str Quals SCds STx SGene SFeat SFc optVal geneQuals txQuals cdsQuals fcQuals featQuals)

theorem brel_append (a b : Quals) (k v : Str) : BRel (a ++ b) k v ↔ BRel a k v ∨ BRel b k v := by
  unfold BRel
  constructor
  · rintro ⟨vs, hm, hv⟩
    rcases List.mem_append.mp hm with h | h
    · exact Or.inl ⟨vs, h, hv⟩
    · exact Or.inr ⟨vs, h, hv⟩
  · rintro (⟨vs, h, hv⟩ | ⟨vs, h, hv⟩)
    · exact ⟨vs, List.mem_append_left _ h, hv⟩
    · exact ⟨vs, List.mem_append_right _ h, hv⟩

theorem brel_cons (e : Str × List Str) (q : Quals) (k v : Str) :
    BRel (e :: q) k v ↔ (k = e.1 ∧ v ∈ e.2) ∨ BRel q k v := by
  obtain ⟨ek, ev⟩ := e
  unfold BRel
  simp only [List.mem_cons, Prod.mk.injEq]
  constructor
  · rintro ⟨vs, ⟨h1, h2⟩ | h, hv⟩
    · exact Or.inl ⟨h1, h2 ▸ hv⟩
    · exact Or.inr ⟨vs, h, hv⟩
  · rintro (⟨h1, h2⟩ | ⟨vs, h, hv⟩)
    · exact ⟨ev, Or.inl ⟨h1, rfl⟩, h2⟩
    · exact ⟨vs, Or.inr h, hv⟩

theorem brel_nil (k v : Str) : BRel [] k v ↔ False := by simp [BRel]

theorem brel_addToSet (key val : Str) : ∀ (q : Quals) (k v : Str),
    BRel (addToSet key val q) k v ↔ BRel q k v ∨ (k = key ∧ v = val)
  | [], k, v => by
    rw [addToSet, brel_cons, brel_nil]
    simp
  | (k0, vs) :: rest, k, v => by
    rw [addToSet]
    split
    · rename_i hk
      subst hk
      rw [brel_cons, brel_cons]
      simp only
      split
      · rename_i hc
        have : val ∈ vs := by simpa using hc
        constructor
        · rintro (h | h)
          · exact Or.inl (Or.inl h)
          · exact Or.inl (Or.inr h)
        · rintro ((h | h) | ⟨h1, h2⟩)
          · exact Or.inl h
          · exact Or.inr h
          · exact Or.inl ⟨h1, h2 ▸ this⟩
      · simp only [List.mem_append, List.mem_singleton]
        constructor
        · rintro (⟨h1, h2 | h2⟩ | h)
          · exact Or.inl (Or.inl ⟨h1, h2⟩)
          · exact Or.inr ⟨h1, h2⟩
          · exact Or.inl (Or.inr h)
        · rintro ((⟨h1, h2⟩ | h) | ⟨h1, h2⟩)
          · exact Or.inl ⟨h1, Or.inl h2⟩
          · exact Or.inr h
          · exact Or.inl ⟨h1, Or.inr h2⟩
    · rw [brel_cons, brel_cons, brel_addToSet key val rest]
      constructor
      · rintro (h | h | h)
        · exact Or.inl (Or.inl h)
        · exact Or.inl (Or.inr h)
        · exact Or.inr h
      · rintro ((h | h) | h)
        · exact Or.inl h
        · exact Or.inr (Or.inl h)
        · exact Or.inr (Or.inr h)

theorem brel_optVal (key : Str) (val : Option Str) (k v : Str) :
    BRel (optVal key val) k v ↔ ∃ s, val = some s ∧ s ≠ [] ∧ k = key ∧ v = s := by
  unfold optVal
  cases val with
  | none => simp [brel_nil]
  | some s =>
    by_cases hs : s = []
    · simp [hs, brel_nil]
    · simp only [hs, if_false, brel_cons, brel_nil, or_false, List.mem_singleton, Option.some.injEq]
      constructor
      · rintro ⟨h1, h2⟩; exact ⟨s, rfl, hs, h1, h2⟩
      · rintro ⟨s', rfl, _, h1, h2⟩; exact ⟨h1, h2⟩

theorem brel_addOpt (key : Str) (val : Option Str) (q : Quals) (k v : Str) :
    BRel (addOpt key val q) k v ↔ BRel q k v ∨ BRel (optVal key val) k v := by
  rw [brel_optVal]
  unfold addOpt
  cases val with
  | none => simp
  | some s =>
    by_cases hs : s = []
    · simp [hs]
    · have : s.isEmpty = false := by cases s <;> simp_all
      simp only [this, Bool.false_eq_true, if_false, brel_addToSet, Option.some.injEq]
      constructor
      · rintro (h | ⟨h1, h2⟩)
        · exact Or.inl h
        · exact Or.inr ⟨s, rfl, hs, h1, h2⟩
      · rintro (h | ⟨s', rfl, _, h1, h2⟩)
        · exact Or.inl h
        · exact Or.inr ⟨h1, h2⟩

theorem mem_unionFold (vals : List Str) : ∀ (acc : List Str) (v : Str),
    v ∈ vals.foldl (fun acc v => if acc.contains v then acc else acc ++ [v]) acc ↔ v ∈ acc ∨ v ∈ vals := by
  induction vals with
  | nil => intro acc v; simp
  | cons x rest ih =>
    intro acc v
    rw [List.foldl_cons, ih]
    split
    · rename_i hc
      have hx : x ∈ acc := by simpa using hc
      simp only [List.mem_cons]
      constructor
      · rintro (h | h)
        · exact Or.inl h
        · exact Or.inr (Or.inr h)
      · rintro (h | h | h)
        · exact Or.inl h
        · exact Or.inl (h ▸ hx)
        · exact Or.inr h
    · simp only [List.mem_append, List.mem_cons, List.not_mem_nil, or_false]
      constructor
      · rintro ((h | h) | h)
        · exact Or.inl h
        · exact Or.inr (Or.inl h)
        · exact Or.inr (Or.inr h)
      · rintro (h | h | h)
        · exact Or.inl (Or.inl h)
        · exact Or.inl (Or.inr h)
        · exact Or.inr h


theorem brel_updateSet (key : Str) (vals : List Str) : ∀ (q : Quals) (k v : Str),
    BRel (updateSet key vals q) k v ↔ BRel q k v ∨ (k = key ∧ v ∈ vals)
  | [], k, v => by
    rw [updateSet, brel_cons, brel_nil]
    simp only [mem_unionFold, List.not_mem_nil, false_or, or_false]
  | (k0, vs) :: rest, k, v => by
    rw [updateSet]
    split
    · rename_i hk
      subst hk
      rw [brel_cons, brel_cons]
      simp only [mem_unionFold]
      constructor
      · rintro (⟨h1, h2 | h2⟩ | h)
        · exact Or.inl (Or.inl ⟨h1, h2⟩)
        · exact Or.inr ⟨h1, h2⟩
        · exact Or.inl (Or.inr h)
      · rintro ((⟨h1, h2⟩ | h) | ⟨h1, h2⟩)
        · exact Or.inl ⟨h1, Or.inl h2⟩
        · exact Or.inr h
        · exact Or.inl ⟨h1, Or.inr h2⟩
    · rw [brel_cons, brel_cons, brel_updateSet key vals rest]
      constructor
      · rintro (h | h | h)
        · exact Or.inl (Or.inl h)
        · exact Or.inl (Or.inr h)
        · exact Or.inr h
      · rintro ((h | h) | h)
        · exact Or.inl h
        · exact Or.inr (Or.inl h)
        · exact Or.inr (Or.inr h)

theorem brel_mergeQuals (own : Quals) : ∀ (other : Quals) (k v : Str),
    BRel (mergeQuals own other) k v ↔ BRel own k v ∨ BRel other k v := by
  intro other
  unfold mergeQuals
  induction other generalizing own with
  | nil => intro k v; simp [brel_nil]
  | cons e rest ih =>
    intro k v
    rw [List.foldl_cons, ih, brel_updateSet, brel_cons]
    constructor
    · rintro ((h | h) | h)
      · exact Or.inl h
      · exact Or.inr (Or.inl h)
      · exact Or.inr (Or.inr h)
    · rintro (h | h | h)
      · exact Or.inl (Or.inl h)
      · exact Or.inl (Or.inr h)
      · exact Or.inr h

/-! ### the export dictionaries against the Spec's unions -/

theorem gene_quals_rel (g : SGene) (k v : Str) : BRel (geneExportQuals g) k v ↔ BRel (geneQuals g) k v := by
  unfold geneExportQuals geneQuals
  simp only [brel_addOpt, brel_append]
  have : biotypeOr g.gtype = some (match g.gtype with | some t => t | none => Spec.Gff.unspecified) := by
    cases g.gtype <;> rfl
  rw [this]
  constructor
  · rintro ((((h | h) | h) | h) | h)
    · exact Or.inl (Or.inl (Or.inl (Or.inl h)))
    · exact Or.inl (Or.inl (Or.inl (Or.inr h)))
    · exact Or.inl (Or.inl (Or.inr h))
    · exact Or.inl (Or.inr h)
    · exact Or.inr h
  · rintro ((((h | h) | h) | h) | h)
    · exact Or.inl (Or.inl (Or.inl (Or.inl h)))
    · exact Or.inl (Or.inl (Or.inl (Or.inr h)))
    · exact Or.inl (Or.inl (Or.inr h))
    · exact Or.inl (Or.inr h)
    · exact Or.inr h

theorem tx_quals_rel (g : SGene) (t : STx) (k v : Str) :
    BRel (txExportQuals t (geneExportQuals g)) k v ↔ BRel (txQuals g t) k v := by
  unfold txExportQuals txQuals
  simp only [brel_addOpt, brel_append, brel_mergeQuals, gene_quals_rel]
  have : biotypeOr t.ttype = some (match t.ttype with | some x => x | none => Spec.Gff.unspecified) := by
    cases t.ttype <;> rfl
  rw [this]
  constructor
  · rintro (((((h | h) | h) | h) | h) | h)
    · exact Or.inl (Or.inl (Or.inl (Or.inl (Or.inl h))))
    · exact Or.inl (Or.inl (Or.inl (Or.inl (Or.inr h))))
    · exact Or.inl (Or.inl (Or.inl (Or.inr h)))
    · exact Or.inl (Or.inl (Or.inr h))
    · exact Or.inl (Or.inr h)
    · exact Or.inr h
  · rintro (((((h | h) | h) | h) | h) | h)
    · exact Or.inl (Or.inl (Or.inl (Or.inl (Or.inl h))))
    · exact Or.inl (Or.inl (Or.inl (Or.inl (Or.inr h))))
    · exact Or.inl (Or.inl (Or.inl (Or.inr h)))
    · exact Or.inl (Or.inl (Or.inr h))
    · exact Or.inl (Or.inr h)
    · exact Or.inr h

theorem cds_quals_rel (g : SGene) (t : STx) (k v : Str) :
    BRel (cdsExportQuals t (txExportQuals t (geneExportQuals g))) k v ↔ BRel (cdsQuals g t) k v := by
  unfold cdsExportQuals cdsQuals
  simp only [brel_addOpt, brel_append, brel_mergeQuals, tx_quals_rel, brel_nil, false_or]
  rfl

/-! ### keys stay non-empty -/

def KeysOk (q : Quals) : Prop := ∀ kv ∈ q, kv.1 ≠ []

theorem keysOk_addToSet {key val : Str} (hk : key ≠ []) : ∀ {q : Quals}, KeysOk q → KeysOk (addToSet key val q)
  | [], _ => by intro kv h; simp only [addToSet, List.mem_singleton] at h; subst h; exact hk
  | (k0, vs) :: rest, hq => by
    intro kv h
    rw [addToSet] at h
    split at h
    · rcases List.mem_cons.mp h with e | h'
      · subst e; exact hq (k0, vs) List.mem_cons_self
      · exact hq kv (List.mem_cons_of_mem _ h')
    · rcases List.mem_cons.mp h with e | h'
      · subst e; exact hq (k0, vs) List.mem_cons_self
      · exact keysOk_addToSet hk (fun x hx => hq x (List.mem_cons_of_mem _ hx)) kv h'

theorem keysOk_addOpt {key : Str} (hk : key ≠ []) (val : Option Str) {q : Quals} (hq : KeysOk q) :
    KeysOk (addOpt key val q) := by
  unfold addOpt
  cases val with
  | none => exact hq
  | some s =>
    simp only
    split
    · exact hq
    · exact keysOk_addToSet hk hq

theorem keysOk_updateSet {key : Str} (hk : key ≠ []) (vals : List Str) : ∀ {q : Quals}, KeysOk q → KeysOk (updateSet key vals q)
  | [], _ => by intro kv h; simp only [updateSet, List.mem_singleton] at h; subst h; exact hk
  | (k0, vs) :: rest, hq => by
    intro kv h
    rw [updateSet] at h
    split at h
    · rcases List.mem_cons.mp h with e | h'
      · subst e; exact hq (k0, vs) List.mem_cons_self
      · exact hq kv (List.mem_cons_of_mem _ h')
    · rcases List.mem_cons.mp h with e | h'
      · subst e; exact hq (k0, vs) List.mem_cons_self
      · exact keysOk_updateSet hk vals (fun x hx => hq x (List.mem_cons_of_mem _ hx)) kv h'

theorem keysOk_mergeQuals {own other : Quals} (h1 : KeysOk own) (h2 : KeysOk other) : KeysOk (mergeQuals own other) := by
  unfold mergeQuals
  induction other generalizing own with
  | nil => exact h1
  | cons e rest ih =>
    rw [List.foldl_cons]
    exact ih (keysOk_updateSet (h2 e List.mem_cons_self) e.2 h1) (fun x hx => h2 x (List.mem_cons_of_mem _ hx))

theorem keysOk_gene {g : SGene} (h : KeysOk g.quals) : KeysOk (geneExportQuals g) := by
  unfold geneExportQuals
  exact keysOk_addOpt (by decide) _ (keysOk_addOpt (by decide) _ (keysOk_addOpt (by decide) _ (keysOk_addOpt (by decide) _ h)))

theorem keysOk_tx {t : STx} {pq : Quals} (h : KeysOk t.quals) (hp : KeysOk pq) : KeysOk (txExportQuals t pq) := by
  unfold txExportQuals
  exact keysOk_addOpt (by decide) _ (keysOk_addOpt (by decide) _ (keysOk_addOpt (by decide) _
    (keysOk_addOpt (by decide) _ (keysOk_mergeQuals h hp))))

theorem keysOk_cds {t : STx} {pq : Quals} (hp : KeysOk pq) : KeysOk (cdsExportQuals t pq) := by
  unfold cdsExportQuals
  exact keysOk_addOpt (by decide) _ (keysOk_addOpt (by decide) _ (keysOk_mergeQuals (fun _ h => by simp at h) hp))

theorem keysOk_setKey {key : Str} (hk : key ≠ []) (vals : List Str) : ∀ {q : Quals}, KeysOk q → KeysOk (setKey key vals q)
  | [], _ => by intro kv h; simp only [setKey, List.mem_singleton] at h; subst h; exact hk
  | (k0, vs) :: rest, hq => by
    intro kv h
    rw [setKey] at h
    split at h
    · rcases List.mem_cons.mp h with e | h'
      · subst e; exact hq (k0, vs) List.mem_cons_self
      · exact hq kv (List.mem_cons_of_mem _ h')
    · rcases List.mem_cons.mp h with e | h'
      · subst e; exact hq (k0, vs) List.mem_cons_self
      · exact keysOk_setKey hk vals (fun x hx => hq x (List.mem_cons_of_mem _ hx)) kv h'

theorem keysOk_fc {c : SFc} (h : KeysOk c.quals) : KeysOk (fcExportQuals c) := by
  unfold fcExportQuals
  have h4 := keysOk_addOpt (key := kFcType) (by decide) c.fctype (keysOk_addOpt (key := kLocusTag) (by decide) c.locus
    (keysOk_addOpt (key := kFcName) (by decide) c.name (keysOk_addOpt (key := kFcId) (by decide) c.fcid h)))
  simp only
  split
  · exact h4
  · exact keysOk_setKey (by decide) _ h4

theorem keysOk_feat {f : SFeat} {pq : Quals} (h : KeysOk f.quals) (hp : KeysOk pq) : KeysOk (featExportQuals f pq) := by
  unfold featExportQuals
  have h2 := keysOk_addOpt (key := kFeatureId) (by decide) f.fid
    (keysOk_addOpt (key := kFeatureName) (by decide) f.name (keysOk_mergeQuals h hp))
  simp only
  split
  · exact h2
  · exact keysOk_setKey (by decide) _ h2

end BioCantor.Proofs.GffQuals
