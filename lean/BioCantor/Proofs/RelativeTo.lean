/-
  C01-T4: `location_relative_to` meets `Spec.okLocRel`.
-/
import BioCantor.Proofs.Common
import BioCantor.Proofs.PointMaps
import BioCantor.Model.RelativeTo
namespace BioCantor.Proofs
open BioCantor BioCantor.Spec BioCantor.Model

theorem locationRelativeTo_ok (a b : Location) (ha : WF a) (hb : WF b) (opt : Bool) :
    okLocRel a b opt (ans (locationRelativeTo a b opt)) = true := by
  sorry

end BioCantor.Proofs
