/-
  C01-T4: `location_relative_to` meets `Spec.okLocRel`.
-/
import BioCantor.Proofs.Common
import BioCantor.Proofs.PointMaps
import BioCantor.Proofs.RelToBasics
import BioCantor.Model.RelativeTo
namespace BioCantor.Proofs
open BioCantor BioCantor.Spec BioCantor.Model

/-! ### the three location classes through `toLoc` -/

theorem toLoc_facts (o : Location) (loc : Loc) (h : toLoc o = some loc) :
    locBlocks o = loc.blocks ∧ locationBlocks o = loc.blocks ∧ locationBases o = bases loc ∧
    locationCovers o = coversBlocks loc.blocks ∧ locStrand o = .ok loc.strand ∧
    locationStrand? o = some loc.strand ∧ o ≠ .empty := by
  cases o with
  | single b s => simp only [toLoc, Option.some.injEq] at h; subst h; exact ⟨rfl, rfl, rfl, rfl, rfl, rfl, by simp⟩
  | compound l => simp only [toLoc, Option.some.injEq] at h; subst h; exact ⟨rfl, rfl, rfl, rfl, rfl, rfl, by simp⟩
  | empty => simp [toLoc] at h

theorem WF_valid (o : Location) (loc : Loc) (h : toLoc o = some loc) (hwf : WF o) :
    ∀ b ∈ loc.blocks, b.1 ≤ b.2 := by
  cases o with
  | single b s =>
    simp only [toLoc, Option.some.injEq] at h; subst h
    intro c hc; simp at hc; subst hc; exact hwf
  | compound l =>
    simp only [toLoc, Option.some.injEq] at h; subst h
    exact (blocksValid_iff _).mp hwf.2.1
  | empty => simp [toLoc] at h

/-! ### one block of `self` against `other` -/

/-- the block returned by `singleRelativeTo` for block `x` against the layout `B` with reading `L` -/
def relBlk (B : List Blk) (L : List Nat) (x : Blk) : Blk :=
  match clipSpan B x with
  | none => (0, 0)
  | some (is, ie) =>
    let r1 := (idxOf? is L).getD 0
    let r2 := (idxOf? (ie - 1) L).getD 0
    (min r1 r2, max r1 r2 + 1)

theorem relBlk_eq {B : List Blk} {L : List Nat} {x : Blk} {is ie i1 i2 : Nat}
    (hc : clipSpan B x = some (is, ie)) (e1 : idxOf? is L = some i1) (e2 : idxOf? (ie - 1) L = some i2) :
    relBlk B L x = (min i1 i2, max i1 i2 + 1) := by
  simp [relBlk, hc, e1, e2]

theorem p2r_covered (o : Location) (loc : Loc) (hl : toLoc o = some loc) (hwf : WF o)
    (hdir : loc.strand ≠ .unstranded) (p : Nat) (hc : coversBlocks loc.blocks p = true) :
    ∃ i, idxOf? p (bases loc) = some i ∧ p2r o (p : Int) = .ok (i : Int) := by
  obtain ⟨i, hi⟩ := idxOf?_of_mem (mem_bases.mpr hc : p ∈ bases ⟨loc.blocks, loc.strand⟩)
  refine ⟨i, hi, ?_⟩
  have h := p2r_ok o hwf p
  unfold okP2R expectP2R at h
  have hneg : ¬ ((p : Int) < 0) := by omega
  simp only [hl, hdir, hneg, if_false, Int.toNat_natCast, beq_iff_eq] at h
  rw [show bases loc = bases ⟨loc.blocks, loc.strand⟩ from rfl, hi] at h
  exact (ans_eq_some _ _).mp h

theorem singleRelativeTo_eq (o : Location) (loc : Loc) (hl : toLoc o = some loc) (hwf : WF o)
    (hdir : loc.strand ≠ .unstranded) (x : Blk) (st : Strand) {is ie : Nat}
    (hc : clipSpan loc.blocks x = some (is, ie)) :
    singleRelativeTo x st o =
      .ok (.single (relBlk loc.blocks (bases loc) x) (strandRelativeTo st loc.strand)) := by
  obtain ⟨hb, -, -, -, hs, -⟩ := toLoc_facts o loc hl
  obtain ⟨⟨c1, _, _⟩, hpos, ⟨c2, _, _⟩, _⟩ := clipSpan_some hc
  obtain ⟨i1, e1, q1⟩ := p2r_covered o loc hl hwf hdir is c1
  obtain ⟨i2, e2, q2⟩ := p2r_covered o loc hl hwf hdir (ie - 1) c2
  have hcast : ((ie : Int) - 1) = ((ie - 1 : Nat) : Int) := by omega
  unfold singleRelativeTo
  rw [hb, hc]
  simp only [q1, hcast, q2, hs, bind, Except.bind, mkSingle]
  have c : 0 ≤ min (i1 : Int) (i2 : Int) ∧ min (i1 : Int) (i2 : Int) ≤ max (i1 : Int) (i2 : Int) + 1 := by omega
  have t1 : (min (i1 : Int) (i2 : Int)).toNat = min i1 i2 := by omega
  have t2 : (max (i1 : Int) (i2 : Int) + 1).toNat = max i1 i2 + 1 := by omega
  rw [if_pos c, t1, t2, relBlk_eq hc e1 e2]
  rfl

theorem relBlk_pos (B : List Blk) (sb : Strand) (x : Blk) (hx : ∃ p, Shared B x p) :
    (relBlk B (bases ⟨B, sb⟩) x).1 < (relBlk B (bases ⟨B, sb⟩) x).2 := by
  obtain ⟨p, hp⟩ := hx
  obtain ⟨is, ie, hc⟩ := clipSpan_isSome_of_shared hp
  obtain ⟨⟨c1, _, _⟩, hpos, ⟨c2, _, _⟩, _⟩ := clipSpan_some hc
  obtain ⟨i1, e1⟩ := idxOf?_of_mem (mem_bases.mpr c1 : is ∈ bases ⟨B, sb⟩)
  obtain ⟨i2, e2⟩ := idxOf?_of_mem (mem_bases.mpr c2 : ie - 1 ∈ bases ⟨B, sb⟩)
  rw [relBlk_eq hc e1 e2]
  simp only
  omega

/-- the relative block of `x` contains exactly the images of the shared positions -/
theorem mem_relBlk (B : List Blk) (sb : Strand) (hv : ∀ b ∈ B, b.1 ≤ b.2) (hno : nonOverlap B = true)
    (x : Blk) (hx : ∃ p, Shared B x p) (r : Nat) :
    ((relBlk B (bases ⟨B, sb⟩) x).1 ≤ r ∧ r < (relBlk B (bases ⟨B, sb⟩) x).2) ↔
      ∃ p, x.1 ≤ p ∧ p < x.2 ∧ idxOf? p (bases ⟨B, sb⟩) = some r := by
  obtain ⟨p, hp⟩ := hx
  obtain ⟨is, ie, hc⟩ := clipSpan_isSome_of_shared hp
  obtain ⟨⟨c1, a1, a2⟩, hpos, ⟨c2, a3, a4⟩, hall⟩ := clipSpan_some hc
  obtain ⟨i1, e1⟩ := idxOf?_of_mem (mem_bases.mpr c1 : is ∈ bases ⟨B, sb⟩)
  obtain ⟨i2, e2⟩ := idxOf?_of_mem (mem_bases.mpr c2 : ie - 1 ∈ bases ⟨B, sb⟩)
  rw [relBlk_eq hc e1 e2]
  refine interval_mem _ (bases_sorted (nonOverlap_pairwise B hv hno)) x is (ie - 1) i1 i2 e1 e2
    ⟨a1, a2⟩ ⟨a3, a4⟩ ?_ r
  intro q hq h1 h2
  have := hall q ⟨mem_bases.mp hq, h1, h2⟩
  omega

theorem relBlk_perm (B : List Blk) (sb : Strand) (hv : ∀ b ∈ B, b.1 ≤ b.2) (hno : nonOverlap B = true)
    (x : Blk) (hx : ∃ p, Shared B x p) :
    (blkAsc (relBlk B (bases ⟨B, sb⟩) x)).Perm
      (((blkAsc x).filter (coversBlocks B)).filterMap (fun p => idxOf? p (bases ⟨B, sb⟩))) := by
  rw [List.perm_ext_iff_of_nodup]
  · intro r
    rw [mem_blkAsc, mem_relBlk B sb hv hno x hx r]
    simp only [List.mem_filterMap, List.mem_filter, mem_blkAsc]
    constructor
    · rintro ⟨p, h1, h2, h3⟩
      exact ⟨p, ⟨⟨h1, h2⟩, mem_bases.mp (mem_of_idxOf? h3)⟩, h3⟩
    · rintro ⟨p, ⟨⟨h1, h2⟩, _⟩, h3⟩
      exact ⟨p, h1, h2, h3⟩
  · exact List.nodup_range' ..
  · have h0 : (blkAsc x).Nodup := List.nodup_range' ..
    refine List.Pairwise.filterMap _ ?_ (h0.filter _)
    intro a a' hne b hb b' hb' hbb
    subst hbb
    have g1 := getElem?_of_idxOf? _ _ _ hb
    have g2 := getElem?_of_idxOf? _ _ _ hb'
    rw [g1] at g2
    exact hne (Option.some.inj g2)

theorem filter_nil_of_not_shared (B : List Blk) (x : Blk) (hx : ¬ ∃ p, Shared B x p) :
    (blkAsc x).filter (coversBlocks B) = [] := by
  rw [List.filter_eq_nil_iff]
  intro p hp hc
  rw [mem_blkAsc] at hp
  exact hx ⟨p, hc, hp.1, hp.2⟩

/-- blocks of a non-overlapping `self` give disjoint relative blocks -/
theorem relBlk_disjoint (B : List Blk) (sb : Strand) (hv : ∀ b ∈ B, b.1 ≤ b.2) (hno : nonOverlap B = true)
    (x y : Blk) (hx : ∃ p, Shared B x p) (hy : ∃ p, Shared B y p) (hxy : x.2 ≤ y.1) :
    (relBlk B (bases ⟨B, sb⟩) x).2 ≤ (relBlk B (bases ⟨B, sb⟩) y).1 ∨
      (relBlk B (bases ⟨B, sb⟩) y).2 ≤ (relBlk B (bases ⟨B, sb⟩) x).1 := by
  have px := relBlk_pos B sb x hx
  have py := relBlk_pos B sb y hy
  have mx := mem_relBlk B sb hv hno x hx
  have my := mem_relBlk B sb hv hno y hy
  generalize relBlk B (bases ⟨B, sb⟩) x = fx at *
  generalize relBlk B (bases ⟨B, sb⟩) y = fy at *
  by_cases h : fx.2 ≤ fy.1 ∨ fy.2 ≤ fx.1
  · exact h
  · exfalso
    obtain ⟨p, h1, h2, h3⟩ := (mx (max fx.1 fy.1)).mp (by omega)
    obtain ⟨q, h4, h5, h6⟩ := (my (max fx.1 fy.1)).mp (by omega)
    have g1 := getElem?_of_idxOf? _ _ _ h3
    have g2 := getElem?_of_idxOf? _ _ _ h6
    rw [g1] at g2
    have := Option.some.inj g2
    omega

/-! ### generic list fact -/

theorem flatMap_filter_perm {α β : Type} (A : List α) (P : α → Bool) (h g : α → List β)
    (h1 : ∀ x ∈ A, P x = true → (h x).Perm (g x)) (h2 : ∀ x ∈ A, P x = false → g x = []) :
    ((A.filter P).flatMap h).Perm (A.flatMap g) := by
  induction A with
  | nil => simp
  | cons a t ih =>
    have ih' := ih (fun x hx => h1 x (List.mem_cons_of_mem _ hx)) (fun x hx => h2 x (List.mem_cons_of_mem _ hx))
    cases hp : P a with
    | true =>
      rw [List.filter_cons_of_pos hp, List.flatMap_cons, List.flatMap_cons]
      exact (h1 a (List.mem_cons_self ..) hp).append ih'
    | false =>
      rw [List.filter_cons_of_neg (by simp [hp]), List.flatMap_cons, h2 a (List.mem_cons_self ..) hp]
      simpa using ih'

/-! ### well-formedness of whatever is returned -/

theorem mkSingle_wf {s e : Int} {st : Strand} {m : Location} (h : mkSingle s e st = .ok m) :
    wfLocation m = true := by
  unfold mkSingle at h
  split at h
  · rename_i hc
    cases h
    simp only [wfLocation, decide_eq_true_eq]
    omega
  · cases h

theorem mkCompoundLoc_canon {bs : List Blk} {s : Strand} {c : Loc} (h : mkCompoundLoc bs s = .ok c) :
    c.Canon := by
  unfold mkCompoundLoc at h
  split at h
  · cases h
  · rename_i hne
    simp only at h
    split at h
    · rename_i hv
      cases h
      exact ⟨sortBlocks_ne_nil s (by simpa using hne), hv,
        sortedBy_of_pairwise _ _ (sortBlocks_pairwise s bs)⟩
    · cases h

theorem optimizeLoc_wf {p : Bool} {c : Loc} (hc : c.Canon) {m : Location} (h : optimizeLoc p c = .ok m) :
    wfLocation m = true := by
  unfold optimizeLoc at h
  generalize combineLoop p c.blocks none [] false = r at h
  obtain ⟨nb, needs⟩ := r
  simp only at h
  split at h
  · cases h; exact wfLocation_toSingleIfOne c hc
  · split at h
    · cases h; rfl
    · cases hm : mkCompoundLoc nb c.strand with
      | error e => rw [hm] at h; cases h
      | ok l' =>
        rw [hm] at h
        cases h
        exact wfLocation_toSingleIfOne l' (mkCompoundLoc_canon hm)

theorem singleRelativeTo_wf {x : Blk} {st : Strand} {o m : Location} (h : singleRelativeTo x st o = .ok m) :
    wfLocation m = true := by
  unfold singleRelativeTo at h
  split at h
  · cases h
  · simp only [bind, Except.bind] at h
    split at h
    · cases h
    · split at h
      · cases h
      · split at h
        · cases h
        · exact mkSingle_wf h

/-! ### the spec predicate, reduced to its obligations -/

theorem okLocRel_of (a o : Location) (la lo : Loc) (hla : toLoc a = some la) (hlo : toLoc o = some lo)
    (opt : Bool) (av : Option Location)
    (hrefuse : (¬ ∃ p, coversBlocks la.blocks p = true ∧ coversBlocks lo.blocks p = true) → av = none)
    (hwf : ∀ m, av = some m → wfLocation m = true)
    (hmain : (∃ p, coversBlocks la.blocks p = true ∧ coversBlocks lo.blocks p = true) →
      lo.strand ≠ .unstranded → nonOverlap la.blocks = true → nonOverlap lo.blocks = true →
      ∃ m, av = some m ∧ locationStrand? m = some (compose la.strand lo.strand) ∧ m ≠ .empty ∧
        ((locationBlocks m).flatMap blkAsc).Perm
          (((bases la).filter (coversBlocks lo.blocks)).filterMap (fun p => idxOf? p (bases lo))) ∧
        (opt = true → normalBlocks (locationBlocks m) = true)) :
    okLocRel a o opt av = true := by
  obtain ⟨-, ab, aB, -, -, as, ane⟩ := toLoc_facts a la hla
  obtain ⟨-, ob, oB, oc, -, os, one⟩ := toLoc_facts o lo hlo
  unfold okLocRel okLocRel.strandOf?
  have e1 : ¬ ((a == Location.empty) = true ∨ (o == Location.empty) = true) := by simp [ane, one]
  rw [if_neg e1]
  simp only [ab, aB, ob, oB, oc, as, os]
  by_cases hex : ∃ p, coversBlocks la.blocks p = true ∧ coversBlocks lo.blocks p = true
  · have hce : ((bases la).filter (coversBlocks lo.blocks)).isEmpty = false := by
      obtain ⟨p, h1, h2⟩ := hex
      have : p ∈ (bases la).filter (coversBlocks lo.blocks) :=
        List.mem_filter.mpr ⟨(mem_bases (bs := la.blocks) (st := la.strand)).mpr h1, h2⟩
      cases hq : (bases la).filter (coversBlocks lo.blocks) with
      | nil => rw [hq] at this; simp at this
      | cons _ _ => rfl
    simp only [hce, Bool.false_eq_true, if_false]
    by_cases hu : lo.strand = .unstranded
    · simp [hu]
    · have hu' : ¬ ((some lo.strand == some Strand.unstranded) = true) := by simpa using hu
      rw [if_neg hu']
      by_cases hno : (nonOverlap la.blocks && nonOverlap lo.blocks) = true
      · simp only [hno, not_true, if_false]
        simp only [Bool.and_eq_true] at hno
        obtain ⟨m, hm, hs, hne, hperm, hnorm⟩ := hmain hex hu hno.1 hno.2
        subst hm
        simp only [hs, hwf m rfl, sortNat_perm hperm]
        cases opt with
        | false => simp [hne]
        | true => simp [hne, hnorm rfl]
      · rw [if_pos hno]
        cases av with
        | none => rfl
        | some m => exact hwf m rfl
  · have hce : ((bases la).filter (coversBlocks lo.blocks)).isEmpty = true := by
      rw [List.isEmpty_iff, List.filter_eq_nil_iff]
      intro p hp hc
      exact hex ⟨p, (mem_bases (bs := la.blocks) (st := la.strand)).mp hp, hc⟩
    simp [hce, hrefuse hex]

/-! ### the model, case by case -/

theorem locationRelativeTo_single (x : Blk) (st : Strand) (o : Location) (lo : Loc)
    (hlo : toLoc o = some lo) (opt : Bool) :
    locationRelativeTo (.single x st) o opt =
      if ¬ anyOverlap [x] lo.blocks then throw .LocationOverlap else singleRelativeTo x st o := by
  cases o with
  | single b s => simp only [toLoc, Option.some.injEq] at hlo; subst hlo; rfl
  | compound l => simp only [toLoc, Option.some.injEq] at hlo; subst hlo; rfl
  | empty => simp [toLoc] at hlo

theorem locationRelativeTo_compound (l : Loc) (o : Location) (lo : Loc)
    (hlo : toLoc o = some lo) (opt : Bool) :
    locationRelativeTo (.compound l) o opt =
      if ¬ anyOverlap l.blocks lo.blocks then throw .LocationOverlap
      else (do
        let rel ← locationRelativeTo.go l o (l.blocks.filter (fun b => anyOverlap lo.blocks [b]))
        let ost ← locStrand o
        let c ← mkCompoundLoc rel (strandRelativeTo l.strand ost)
        if opt then optimizeLoc true c else pure (.compound c)) := by
  cases o with
  | single b s => simp only [toLoc, Option.some.injEq] at hlo; subst hlo; rfl
  | compound l => simp only [toLoc, Option.some.injEq] at hlo; subst hlo; rfl
  | empty => simp [toLoc] at hlo

theorem go_cons (l : Loc) (o : Location) (b : Blk) (bs : List Blk) :
    locationRelativeTo.go l o (b :: bs) = (do
      let x ← singleRelativeTo b l.strand o
      let xs ← locationRelativeTo.go l o bs
      pure (locBlocks x ++ xs)) := rfl

theorem go_eq (l : Loc) (o : Location) (lo : Loc) (hlo : toLoc o = some lo) (hwf : WF o)
    (hdir : lo.strand ≠ .unstranded) (hs : List Blk) (hh : ∀ x ∈ hs, ∃ p, Shared lo.blocks x p) :
    locationRelativeTo.go l o hs = .ok (hs.map (relBlk lo.blocks (bases lo))) := by
  induction hs with
  | nil => rfl
  | cons b bs ih =>
    obtain ⟨p, hp⟩ := hh b (List.mem_cons_self ..)
    obtain ⟨is, ie, hc⟩ := clipSpan_isSome_of_shared hp
    rw [go_cons, singleRelativeTo_eq o lo hlo hwf hdir b l.strand hc,
      ih (fun x hx => hh x (List.mem_cons_of_mem _ hx))]
    rfl

theorem relTo_single (x : Blk) (st : Strand) (o : Location) (lo : Loc)
    (hlo : toLoc o = some lo) (hwf : WF o) (opt : Bool) :
    okLocRel (.single x st) o opt (ans (locationRelativeTo (.single x st) o opt)) = true := by
  rw [locationRelativeTo_single x st o lo hlo opt]
  have hB := WF_valid o lo hlo hwf
  obtain ⟨B, sb⟩ := lo
  simp only at hB
  apply okLocRel_of (.single x st) o ⟨[x], st⟩ ⟨B, sb⟩ rfl hlo
  · intro hne
    have : anyOverlap [x] B = false := by
      rw [← Bool.not_eq_true, anyOverlap_iff]; exact hne
    simp [this]
  · intro m hm
    split at hm
    · simp at hm
    · exact singleRelativeTo_wf ((ans_eq_some _ _).mp hm)
  · intro hex hdir _ hno
    simp only at hex hdir hno
    have hov : anyOverlap [x] B = true := (anyOverlap_iff _ _).mpr hex
    obtain ⟨p, h1, h2⟩ := hex
    have hp : Shared B x p := by
      simp [coversBlocks] at h1
      exact ⟨h2, h1.1, h1.2⟩
    obtain ⟨is, ie, hc⟩ := clipSpan_isSome_of_shared hp
    rw [if_neg (by simp [hov]), singleRelativeTo_eq o ⟨B, sb⟩ hlo hwf hdir x st hc, ans_ok]
    refine ⟨_, rfl, ?_, by simp, ?_, ?_⟩
    · simp [locationStrand?, strandRelativeTo_eq_compose']
    · simp only [locationBlocks, List.flatMap_cons, List.flatMap_nil, List.append_nil]
      refine (relBlk_perm B sb hB hno x ⟨p, hp⟩).trans ?_
      apply List.Perm.filterMap
      apply List.Perm.filter
      rw [bases_mk]
      simp only [basesPlus, List.append_nil]
      split
      · exact (List.reverse_perm _).symm
      · exact List.Perm.refl _
    · intro _
      simpa [locationBlocks, normalBlocks] using relBlk_pos B sb x ⟨p, hp⟩

theorem blkLe_fst_le (s : Strand) (a b : Blk) (h : blkLe s a b = true) : a.1 ≤ b.1 := by
  cases s <;> simp [blkLe, blkLePlus, blkLeOther] at h <;> omega

theorem relTo_compound (l : Loc) (hl : l.Canon) (o : Location) (lo : Loc)
    (hlo : toLoc o = some lo) (hwf : WF o) (opt : Bool) :
    okLocRel (.compound l) o opt (ans (locationRelativeTo (.compound l) o opt)) = true := by
  rw [locationRelativeTo_compound l o lo hlo opt]
  have hB := WF_valid o lo hlo hwf
  obtain ⟨-, -, -, -, hos, -, -⟩ := toLoc_facts o lo hlo
  obtain ⟨B, sb⟩ := lo
  obtain ⟨A, st⟩ := l
  have hA : ∀ b ∈ A, b.1 ≤ b.2 := (blocksValid_iff _).mp hl.2.1
  simp only at hB hos
  apply okLocRel_of (.compound ⟨A, st⟩) o ⟨A, st⟩ ⟨B, sb⟩ rfl hlo
  · intro hne
    have : anyOverlap A B = false := by
      rw [← Bool.not_eq_true, anyOverlap_iff]; exact hne
    simp [this]
  · intro m hm
    split at hm
    · simp at hm
    · have hm := (ans_eq_some _ _).mp hm
      simp only [bind, Except.bind] at hm
      split at hm
      · cases hm
      split at hm
      · cases hm
      split at hm
      · cases hm
      rename_i c hc
      have hcan := mkCompoundLoc_canon hc
      split at hm
      · exact optimizeLoc_wf hcan hm
      · cases hm; simpa [wfLocation] using hcan
  · intro hex hdir hnoA hnoB
    simp only at hex hdir hnoA hnoB
    have hov : anyOverlap A B = true := (anyOverlap_iff _ _).mpr hex
    generalize hhits : A.filter (fun b => anyOverlap B [b]) = hits
    have hh : ∀ x ∈ hits, ∃ p, Shared B x p := by
      intro x hx; rw [← hhits] at hx
      exact (shared_iff_anyOverlap B x).mp (List.mem_filter.mp hx).2
    have hne : hits ≠ [] := by
      obtain ⟨p, h1, h2⟩ := hex
      obtain ⟨x, hx, hx1⟩ := coversBlocks_iff.mp h1
      have : x ∈ hits := by
        rw [← hhits]
        exact List.mem_filter.mpr ⟨hx, (shared_iff_anyOverlap B x).mpr ⟨p, h2, hx1.1, hx1.2⟩⟩
      intro h; rw [h] at this; simp at this
    have hgo := go_eq ⟨A, st⟩ o ⟨B, sb⟩ hlo hwf hdir hits hh
    simp only at hgo
    generalize hrel : hits.map (relBlk B (bases ⟨B, sb⟩)) = rel at hgo
    have hrel_ne : rel ≠ [] := by rw [← hrel]; simpa using hne
    have hrel_pos : ∀ b ∈ rel, b.1 < b.2 := by
      rw [← hrel]; intro b hb
      obtain ⟨x, hx, rfl⟩ := List.mem_map.mp hb
      exact relBlk_pos B sb x (hh x hx)
    have hrel_v : ∀ b ∈ rel, b.1 ≤ b.2 := fun b hb => Nat.le_of_lt (hrel_pos b hb)
    generalize hs : strandRelativeTo st sb = s
    have hmk := mkCompoundLoc_ok s hrel_ne hrel_v
    have hle : (sortBlocks s rel).Pairwise (fun a b => blkLe s a b = true) := sortBlocks_pairwise s rel
    have hS1p : (sortBlocks s rel).Perm rel := sortBlocks_perm s rel
    generalize hS1 : sortBlocks s rel = S1 at hmk hle hS1p
    have hperm : (S1.flatMap blkAsc).Perm (((bases ⟨A, st⟩).filter (coversBlocks B)).filterMap
        (fun p => idxOf? p (bases ⟨B, sb⟩))) := by
      refine (hS1p.flatMap_right blkAsc).trans ?_
      rw [← hrel, List.flatMap_map]
      have hbase : (bases ⟨A, st⟩).Perm (A.flatMap blkAsc) := by
        rw [bases_mk, basesPlus_eq_flatMap]; split
        · exact List.reverse_perm _
        · exact .refl _
      refine List.Perm.trans ?_ ((hbase.filter _).filterMap _).symm
      rw [List.filter_flatMap, List.filterMap_flatMap, ← hhits]
      apply flatMap_filter_perm
      · intro x hx hp
        exact relBlk_perm B sb hB hnoB x ((shared_iff_anyOverlap B x).mp hp)
      · intro x hx hp
        rw [filter_nil_of_not_shared B x (by rw [← shared_iff_anyOverlap]; simp [hp])]; rfl
    rw [if_neg (by simp [hov]), hgo, hos]
    simp only [bind, Except.bind, hs, hmk]
    cases opt with
    | false =>
      refine ⟨_, rfl, ?_, by simp, hperm, by simp⟩
      simp [locationStrand?, ← hs, strandRelativeTo_eq_compose']
    | true =>
      simp only [↓reduceIte]
      have hS1s : sortBlocks s S1 = S1 := List.mergeSort_of_pairwise hle
      have hS1v : ∀ x ∈ S1, x.1 ≤ x.2 := fun x hx => hrel_v x (hS1p.mem_iff.mp hx)
      have hnb_b := combStart_bases S1 hS1v
      have hnb_ne : combStart S1 ≠ [] := by
        intro h
        rw [h] at hnb_b
        obtain ⟨b, hb⟩ := List.exists_mem_of_ne_nil rel hrel_ne
        have hbp := hrel_pos b hb
        have : b.1 ∈ basesPlus S1 :=
          mem_basesPlus.mpr (coversBlocks_iff.mpr ⟨b, hS1p.mem_iff.mpr hb, Nat.le_refl _, hbp⟩)
        rw [← hnb_b] at this
        simp [basesPlus] at this
      have hopt := optimizeLoc_true_ok S1 s hS1s hnb_ne
      have hAp := nonOverlap_pairwise A hA hnoA
      have hhp : hits.Pairwise (fun a b => a.2 ≤ b.1) := by
        rw [← hhits]; exact hAp.sublist List.filter_sublist
      have hdis : rel.Pairwise (fun a b => a.2 ≤ b.1 ∨ b.2 ≤ a.1) := by
        rw [← hrel, List.pairwise_map]
        exact hhp.imp_of_mem (fun {x y} hx hy hxy =>
          relBlk_disjoint B sb hB hnoB x y (hh x hx) (hh y hy) hxy)
      have hdis1 : S1.Pairwise (fun a b => a.2 ≤ b.1 ∨ b.2 ≤ a.1) :=
        (List.Perm.pairwise_iff (fun h => h.symm) hS1p).mpr hdis
      have hlt : S1.Pairwise (fun a b => a.1 < b.1) :=
        (hle.and hdis1).imp_of_mem (fun {a b} ha hb h => by
          have := blkLe_fst_le s a b h.1
          have := hrel_pos a (hS1p.mem_iff.mp ha)
          have := hrel_pos b (hS1p.mem_iff.mp hb)
          have := h.2
          omega)
      have hnlt : (combStart S1).Pairwise (fun a b => a.1 < b.1) :=
        List.pairwise_map.mp ((List.pairwise_map.mpr hlt).sublist (combStart_starts S1))
      rw [hopt]
      refine ⟨_, rfl, ?_, ?_, ?_, ?_⟩
      · simp [locationStrand_toSingleIfOne, ← hs, strandRelativeTo_eq_compose']
      · unfold toSingleIfOne; split <;> simp
      · rw [locationBlocks_toSingleIfOne, sortBlocks_of_fst_lt _ hnlt, ← basesPlus_eq_flatMap, hnb_b,
          basesPlus_eq_flatMap]
        exact hperm
      · intro _
        rw [locationBlocks_toSingleIfOne, sortBlocks_of_fst_lt _ hnlt]
        exact combStart_normal S1

/-- **C01-T4** -/
theorem locationRelativeTo_ok (a b : Location) (ha : WF a) (hb : WF b) (opt : Bool) :
    okLocRel a b opt (ans (locationRelativeTo a b opt)) = true := by
  cases hlb : toLoc b with
  | none =>
    have : b = .empty := by cases b <;> simp [toLoc] at hlb ⊢
    subst this
    cases a <;> simp [okLocRel, locationRelativeTo]
  | some lo =>
    cases a with
    | empty => simp [okLocRel, locationRelativeTo]
    | single x st => exact relTo_single x st b lo hlb hb opt
    | compound l => exact relTo_compound l ha b lo hlb hb opt

end BioCantor.Proofs
