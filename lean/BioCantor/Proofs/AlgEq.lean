/-
  `__eq__` / `__hash__` of the three location classes (`Model.locEqP`, `Model.hashKeyP`): equality is "same kind, same
  blocks, same strand, parents equal except location"; equal locations hash equal; equality is reflexive and symmetric
  but — through the rule that grand-parents are compared only when both are known — not transitive.
-/
import BioCantor.Proofs.AlgBasics
namespace BioCantor.Proofs.Eq
open BioCantor BioCantor.Spec BioCantor.Model

theorem parentEq_eq (a b : PKey) : parentEq a b = sameParent a b := by
  cases a with
  | nil => cases b <;> rfl
  | cons x xs => cases b with
    | nil => rfl
    | cons y ys => exact eqExceptLoc_eq_sameParent _ _ (by simp) (by simp)

/-- block-wise comparison of two block lists of equal length, each on one strand / parent -/
theorem zip_all_iff (A B : List Blk) (sa sb : Strand) (pa pb : PKey) (hA : A ≠ []) (hlen : A.length = B.length) :
    (A.zip B).all (fun p => singleEq p.1 sa pa p.2 sb pb) = true ↔
      A = B ∧ sa = sb ∧ sameParent pa pb = true := by
  induction A generalizing B with
  | nil => exact absurd rfl hA
  | cons x A ih =>
    cases B with
    | nil => simp at hlen
    | cons y B =>
      simp only [List.zip_cons_cons, List.all_cons, Bool.and_eq_true]
      have hhead : singleEq x sa pa y sb pb = true ↔ x = y ∧ sa = sb ∧ sameParent pa pb = true := by
        unfold singleEq
        rw [parentEq_eq]
        simp only [Bool.and_eq_true, beq_iff_eq]
        constructor
        · rintro ⟨⟨⟨h1, h2⟩, h3⟩, h4⟩
          exact ⟨Prod.ext h1 h2, h3, h4⟩
        · rintro ⟨rfl, h3, h4⟩
          exact ⟨⟨⟨rfl, rfl⟩, h3⟩, h4⟩
      by_cases hAe : A = []
      · subst hAe
        have hB : B = [] := by
          cases B with
          | nil => rfl
          | cons _ _ => simp at hlen
        subst hB
        simp only [List.zip_nil_left, List.all_nil, and_true, hhead, List.cons.injEq]
      · have hlen' : A.length = B.length := by simpa using hlen
        rw [hhead, ih B hAe hlen']
        constructor
        · rintro ⟨⟨rfl, h2, h3⟩, rfl, _, _⟩
          exact ⟨rfl, h2, h3⟩
        · rintro ⟨h1, h2, h3⟩
          simp only [List.cons.injEq] at h1
          exact ⟨⟨h1.1, h2, h3⟩, h1.2, h2, h3⟩

/-- `==` in closed form -/
theorem locEqP_iff (a b : PLoc) (ha : WFP a) (hb : WFP b) :
    locEqP a b = true ↔
      ((match a.1, b.1 with
        | .single _ _, .single _ _ => true
        | .compound _, .compound _ => true
        | .empty, .empty => true
        | _, _ => false) = true ∧
       locationBlocks a.1 = locationBlocks b.1 ∧ locationStrand? a.1 = locationStrand? b.1 ∧
       sameParent a.2 b.2 = true) := by
  obtain ⟨A, pa⟩ := a
  obtain ⟨B, pb⟩ := b
  cases A with
  | empty =>
    have hpa : pa = [] := ha.2.1 rfl
    subst hpa
    cases B with
    | empty =>
      have hpb : pb = [] := hb.2.1 rfl
      subst hpb
      simp [locEqP, locationBlocks, locationStrand?, sameParent]
    | single _ _ => simp [locEqP]
    | compound _ => simp [locEqP]
  | single x sa =>
    cases B with
    | single y sb =>
      simp only [locEqP, singleEq, parentEq_eq, Bool.and_eq_true, beq_iff_eq, locationBlocks, locationStrand?,
        List.cons.injEq, and_true, Option.some.injEq, true_and]
      constructor
      · rintro ⟨⟨⟨h1, h2⟩, h3⟩, h4⟩; exact ⟨Prod.ext h1 h2, h3, h4⟩
      · rintro ⟨rfl, h3, h4⟩; exact ⟨⟨⟨rfl, rfl⟩, h3⟩, h4⟩
    | compound _ => simp [locEqP]
    | empty => simp [locEqP]
  | compound la =>
    cases B with
    | compound lb =>
      have hA : la.blocks ≠ [] := ha.1.1
      simp only [locEqP, Bool.and_eq_true, beq_iff_eq, locationBlocks, locationStrand?, Option.some.injEq, true_and]
      constructor
      · rintro ⟨hlen, hall⟩
        exact (zip_all_iff _ _ _ _ _ _ hA hlen).mp hall
      · rintro ⟨h1, h2, h3⟩
        have hlen : la.blocks.length = lb.blocks.length := by rw [h1]
        exact ⟨hlen, (zip_all_iff _ _ _ _ _ _ hA hlen).mpr ⟨h1, h2, h3⟩⟩
    | single _ _ => simp [locEqP]
    | empty => simp [locEqP]

/-- C02 (equality): `==` is "same kind, same blocks, same strand, parents equal except location", and equal
    locations have equal hashes -/
theorem eqHashP_ok (a b : PLoc) (ha : WFP a) (hb : WFP b) : okEq a b (some (eqHashP a b)) = true := by
  have hiff := locEqP_iff a b ha hb
  have hhash : locEqP a b = true → hashKeyP a = hashKeyP b := by
    intro h
    obtain ⟨hk, hbl, hst, hsp⟩ := hiff.mp h
    obtain ⟨A, pa⟩ := a
    obtain ⟨B, pb⟩ := b
    have hp : hashParent pa = hashParent pb := by
      cases pa with
      | nil => cases pb with
        | nil => rfl
        | cons _ _ => simp [sameParent] at hsp
      | cons x xs => cases pb with
        | nil => simp [sameParent] at hsp
        | cons y ys =>
          unfold sameParent at hsp
          simp only [Bool.and_eq_true, beq_iff_eq] at hsp
          simp [hashParent, parentId, pinfoId, hsp.1.1.1]
    cases A <;> cases B <;> simp_all [hashKeyP, locationBlocks, locationStrand?]
  unfold okEq eqHashP
  simp only [beq_iff_eq, Option.some.injEq, Prod.mk.injEq]
  constructor
  · rw [Bool.eq_iff_iff, hiff]
    simp only [Bool.and_eq_true, beq_iff_eq]
    constructor
    · rintro ⟨h1, h2, h3, h4⟩; exact ⟨⟨⟨h1, h2⟩, h3⟩, h4⟩
    · rintro ⟨⟨⟨h1, h2⟩, h3⟩, h4⟩; exact ⟨h1, h2, h3, h4⟩
  · cases h : locEqP a b with
    | false => rfl
    | true => simp [hhash h]

theorem locEqP_refl (a : PLoc) (ha : WFP a) : locEqP a a = true := by
  rw [locEqP_iff a a ha ha]
  refine ⟨?_, rfl, rfl, sameParent_refl _⟩
  cases a.1 <;> rfl

theorem locEqP_symm (a b : PLoc) (ha : WFP a) (hb : WFP b) : locEqP a b = locEqP b a := by
  rw [Bool.eq_iff_iff, locEqP_iff a b ha hb, locEqP_iff b a hb ha, sameParent_symm]
  constructor
  · rintro ⟨h1, h2, h3, h4⟩
    refine ⟨?_, h2.symm, h3.symm, h4⟩
    cases h : a.1 <;> cases h' : b.1 <;> simp_all
  · rintro ⟨h1, h2, h3, h4⟩
    refine ⟨?_, h2.symm, h3.symm, h4⟩
    cases h : a.1 <;> cases h' : b.1 <;> simp_all

/-- equality is not transitive: grand-parents are compared only when both sides have one -/
theorem locEqP_not_transitive :
    ∃ a b c : PLoc, WFP a ∧ WFP b ∧ WFP c ∧ locEqP a b = true ∧ locEqP b c = true ∧ locEqP a c = false :=
  ⟨(.single (0, 3) .plus, [(some "chr", none, none), (some "g1", none, none)]),
   (.single (0, 3) .plus, [(some "chr", none, none)]),
   (.single (0, 3) .plus, [(some "chr", none, none), (some "g2", none, none)]),
   by decide, by decide, by decide, by decide, by decide, by decide⟩

end BioCantor.Proofs.Eq
