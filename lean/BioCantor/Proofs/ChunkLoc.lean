/-
  C07, location part: `initialize_location` on a chunk parent is `chunkDown` of the interval's chromosome location
  (C04-T4 does the work), for leaf intervals (blocks + strand) and for the span of a collection.
-/
import BioCantor.Model.Chunk
import BioCantor.Proofs.LiftMain
namespace BioCantor.Proofs.Chunk
open BioCantor BioCantor.Spec BioCantor.Spec.Chunk BioCantor.Model BioCantor.Model.Chunk BioCantor.Proofs

/-- the hypothesis on a block list that makes both location constructors accept it -/
def ValidBlocks (bs : List Blk) : Prop := bs ≠ [] ∧ ∀ b ∈ bs, b.1 ≤ b.2

theorem initialLocation_ok (bs : List Blk) (st : Strand) (h : ValidBlocks bs) :
    initialLocation bs st = .ok (initLoc bs st) := by
  unfold initialLocation initLoc
  match bs, h with
  | [b], h =>
    have hb : b.1 ≤ b.2 := h.2 b (by simp)
    simp only [mkSingle]
    rw [if_pos ⟨by omega, by omega⟩]
    simp only [Int.toNat_natCast]
    rfl
  | [], h => exact absurd rfl h.1
  | a :: b :: r, h =>
    simp only [mkCompound, bind, Except.bind, mkCompoundLoc_ok st h.1 h.2]
    rfl

theorem initLoc_wf (bs : List Blk) (st : Strand) (h : ValidBlocks bs) : WF (initLoc bs st) := by
  unfold initLoc
  match bs, h with
  | [b], h => exact h.2 b (by simp)
  | [], h => exact absurd rfl h.1
  | a :: b :: r, h => exact canon_sortBlocks st h.1 h.2

/-- **C07-T2 / T4 (leaf intervals)** -/
theorem initializeLocation_chunk_ok (bs : List Blk) (st : Strand) (h : ValidBlocks bs) (ch : Model.Chunk.Chunk) :
    okChunkDown (initLoc bs st) ch.w ch.wst (ans (initializeLocation bs st (.chunk ch))) = true := by
  unfold initializeLocation
  rw [initialLocation_ok bs st h]
  simp only [bind, Except.bind, locate]
  exact chunkDown_ok _ (initLoc_wf bs st h) ch.w ch.wst

/-- **C07-T2 / T4 (collections)**: the span `[s, e)` of a collection -/
theorem spanLocation_chunk_ok (s e : Nat) (h : s ≤ e) (ch : Model.Chunk.Chunk) :
    okChunkDown (.single (s, e) .plus) ch.w ch.wst (ans (spanLocation s e (.chunk ch))) = true := by
  unfold spanLocation mkSingle
  rw [if_pos ⟨by omega, by omega⟩]
  simp only [bind, Except.bind, pure, Except.pure, locate, Int.toNat_natCast]
  exact chunkDown_ok _ (by exact h) ch.w ch.wst

/-- what `okChunkDown` says when no block has a base inside the window -/
theorem okChunkDown_empty (l : Location) (w : Blk) (wst : Strand) (a : Option Location)
    (hw : w.1 < w.2) (hd : wst = .plus ∨ wst = .minus)
    (hno : (locationBlocks l).filterMap (clip w) = []) (hok : okChunkDown l w wst a = true) :
    a = some .empty := by
  unfold okChunkDown at hok
  have hc : ¬ (wst = .unstranded ∨ w.2 ≤ w.1) := by
    rcases hd with h | h <;> simp [h] <;> omega
  rw [if_neg hc] at hok
  cases l with
  | empty => simpa using hok
  | single b st =>
    simp only [hno] at hok
    cases a with
    | none => simp at hok
    | some m => simpa using hok
  | compound c =>
    simp only [hno] at hok
    cases a with
    | none => simp at hok
    | some m => simpa using hok

end BioCantor.Proofs.Chunk
