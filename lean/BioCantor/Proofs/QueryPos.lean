/-
  C09 helper lemmas, part 5: `query_by_position` meets its specification on every well-formed source.
-/
import BioCantor.Proofs.QueryMain
set_option linter.unusedSimpArgs false
namespace BioCantor.Proofs.Query
open BioCantor BioCantor.Spec BioCantor.Spec.Query BioCantor.Model.Query

/-- modelled domain of parents: what `seq_to_parent` / `seq_chunk_to_parent` and the member constructors establish
    (a non-empty sequence, a chunk at a non-negative position, members of a whole chromosome lie on it).  Explicit
    bounds may be in any relation to the sequence (F-C09d repaired). -/
def ParWF (src : Source) : Prop :=
  match src.par with
  | .none => True
  | .noseq => True
  | .whole seq => seq ≠ [] ∧ ∀ c ∈ src.children, ∀ g ∈ c.gcs, 0 ≤ g.start ∧ g.stop ≤ seq.length
  | .chunk cs seq => seq ≠ [] ∧ 0 ≤ cs

/-- What the real constructors establish + the modelled domain. -/
structure SrcWF (src : Source) : Prop where
  hull : ∀ c ∈ src.children, ChildHull c
  guids : (src.children.map Child.guid).Nodup
  cons : constructible src = true
  par : ParWF src

theorem specBounds_eq_self {src : Source} {b : Int × Int} (h : selfBounds src = some b) : specBounds src = some b := by
  unfold selfBounds at h
  unfold specBounds
  cases hb : src.bounds with
  | some x => rw [hb] at h; exact h
  | none =>
    rw [hb] at h
    simp only at h ⊢
    cases hp : src.par with
    | whole seq => rw [hp] at h; exact h
    | chunk cs seq => rw [hp] at h; exact h
    | none =>
      rw [hp] at h; simp only at h ⊢
      split at h
      · cases h
      · rw [← h]; exact hullOf_perm ((iterChildren_perm src).map _).symm
    | noseq =>
      rw [hp] at h; simp only at h ⊢
      split at h
      · cases h
      · rw [← h]; exact hullOf_perm ((iterChildren_perm src).map _).symm

/-! ### result bounds -/

theorem nonvar_perm (l : List Child) :
    (l.filter (fun c => c.kind = .feat) ++ l.filter (fun c => c.kind = .gene)).Perm (l.filter (fun c => c.kind ≠ .var)) := by
  induction l with
  | nil => exact List.Perm.refl _
  | cons c cs ih =>
    cases hk : c.kind with
    | gene =>
      simp only [List.filter_cons, hk, decide_true, if_true, reduceCtorEq, decide_false, Bool.false_eq_true, if_false,
        ne_eq, not_false_eq_true]
      refine List.Perm.trans ?_ (List.Perm.cons c ih)
      exact List.perm_middle
    | feat =>
      simp only [List.filter_cons, hk, decide_true, if_true, reduceCtorEq, decide_false, Bool.false_eq_true, if_false,
        ne_eq, not_false_eq_true, List.cons_append]
      exact List.Perm.cons c ih
    | var =>
      simp only [List.filter_cons, hk, decide_true, if_true, reduceCtorEq, decide_false, Bool.false_eq_true, if_false,
        ne_eq, not_true_eq_false]
      exact ih

theorem resultBounds_eq_model (q : PosQ) (s e : Int) (keptM keptS : List Child) (hp : keptM.Perm keptS) :
    (if q.expand = true ∧ ¬ q.cw = true then
        expandBounds s e (keptM.filter (fun c => c.kind = .feat) ++ keptM.filter (fun c => c.kind = .gene))
     else (s, e)) = resultBounds q s e keptS := by
  unfold resultBounds
  split
  · rw [expandBounds_eq, hullOf_cons]
    simp only [List.map_map]
    have hperm : (keptM.filter (fun c => c.kind = .feat) ++ keptM.filter (fun c => c.kind = .gene)).Perm
        (keptS.filter (fun c => c.kind ≠ .var)) := (nonvar_perm keptM).trans (hp.filter _)
    rw [foldl_min_perm (hperm.map (·.start)) s, foldl_max_perm (hperm.map (·.stop)) e]
    rfl
  · rfl

theorem resultBounds_contains (q : PosQ) (s e : Int) (kept : List Child) :
    (resultBounds q s e kept).1 ≤ s ∧ e ≤ (resultBounds q s e kept).2 := by
  unfold resultBounds
  split
  · rw [hullOf_cons]
    exact ⟨(foldl_min_spec _ s).2.1, (foldl_max_spec _ e).2.1⟩
  · exact ⟨Int.le_refl _, Int.le_refl _⟩

/-! ### bounds and the located range -/

theorem checkSource_ok {src : Source} (h : constructible src = true) : checkSource src = .ok () := by
  unfold constructible at h
  unfold checkSource
  cases hb : src.bounds with
  | none => rfl
  | some x =>
    obtain ⟨bs, be⟩ := x
    rw [hb] at h
    simp only [Bool.and_eq_true, decide_eq_true_eq] at h
    have h1 : (0 ≤ bs ∧ bs ≤ be) := h.1
    simp only [h1, not_true_eq_false, if_false]
    cases hp : src.par with
    | whole seq =>
      rw [hp] at h
      simp only [decide_eq_true_eq] at h
      have : ¬ be > (seq.length : Int) := by omega
      simp only [this, if_false]
      rfl
    | none => rfl
    | noseq => rfl
    | chunk _ _ => rfl

/-- whole chromosome: the bounds lie on the sequence -/
theorem bounds_whole {src : Source} (wf : SrcWF src) {seq : List Char} (hp : src.par = .whole seq) {bs be : Int}
    (hb : selfBounds src = some (bs, be)) : 0 ≤ bs ∧ bs ≤ be ∧ be ≤ seq.length := by
  have hc := wf.cons
  unfold constructible at hc
  cases hbb : src.bounds with
  | none =>
    have := selfBounds_whole hp hbb
    rw [hb] at this
    simp only [Option.some.injEq, Prod.mk.injEq] at this
    omega
  | some x =>
    have hs : selfBounds src = some x := by unfold selfBounds; rw [hbb]
    rw [hb] at hs
    simp only [Option.some.injEq] at hs
    subst hs
    rw [hbb, hp] at hc
    simp only [Bool.and_eq_true, decide_eq_true_eq] at hc
    omega

/-- chunk: the bounds are a valid interval -/
theorem bounds_chunk {src : Source} (wf : SrcWF src) {cs : Int} {seq : List Char} (hp : src.par = .chunk cs seq)
    {bs be : Int} (hb : selfBounds src = some (bs, be)) : bs ≤ be := by
  have hc := wf.cons
  unfold constructible at hc
  cases hbb : src.bounds with
  | none =>
    have := selfBounds_chunk hp hbb
    rw [hb] at this
    simp only [Option.some.injEq, Prod.mk.injEq] at this
    omega
  | some x =>
    have hs : selfBounds src = some x := by unfold selfBounds; rw [hbb]
    rw [hb] at hs
    simp only [Option.some.injEq] at hs
    subst hs
    rw [hbb] at hc
    simp only [Bool.and_eq_true, decide_eq_true_eq] at hc
    exact hc.1.2

theorem locRange_whole {src : Source} (wf : SrcWF src) {seq : List Char} (hp : src.par = .whole seq) {bs be : Int}
    (hb : selfBounds src = some (bs, be)) : locRange src = some (bs, be) := by
  have h := bounds_whole wf hp hb
  unfold locRange
  rw [specBounds_eq_self hb, hp]
  simp only [Par.seqAt, Int.zero_add]
  have e1 : max bs 0 = bs := by omega
  have e2 : min be (seq.length : Int) = be := by omega
  rw [e1, e2]

theorem locRange_chunk {src : Source} {cs : Int} {seq : List Char} (hp : src.par = .chunk cs seq)
    {bs be : Int} (hb : selfBounds src = some (bs, be)) :
    locRange src = if max bs cs < min be (cs + seq.length) then some (max bs cs, min be (cs + seq.length))
      else none := by
  unfold locRange
  rw [specBounds_eq_self hb, hp]
  rfl

theorem locRange_noseq {src : Source} (hp : src.par.hasSeq = false) : locRange src = none := by
  unfold locRange
  cases hpp : src.par with
  | none => cases specBounds src <;> rfl
  | noseq => cases specBounds src <;> rfl
  | whole _ => rw [hpp] at hp; cases hp
  | chunk _ _ => rw [hpp] at hp; cases hp

/-- the stretch the code lifts (`lift_over_to_first_ancestor_of_type(CHROMOSOME)` of the collection's location,
    when it has a parent with sequence) is the spec's `locRange` -/
theorem seqRange_eq {src : Source} (wf : SrcWF src) {bs be : Int} (hb : selfBounds src = some (bs, be)) :
    seqRange src = .ok (locRange src) := by
  unfold seqRange
  cases hp : src.par with
  | none => rw [locRange_noseq (by rw [hp]; rfl)]; rfl
  | noseq => rw [locRange_noseq (by rw [hp]; rfl)]; rfl
  | whole seq =>
    rw [locRange_whole wf hp hb]
    simp only [needBounds_of hb, bind, Except.bind, located]
    rfl
  | chunk cs seq =>
    have h := bounds_chunk wf hp hb
    rw [locRange_chunk hp hb]
    simp only [needBounds_of hb, bind, Except.bind, located]
    rw [overlapInt_iff _ _ _ _ (by omega) h]
    by_cases hov : max bs cs < min be (cs + (seq.length : Int))
    · have : (bs < cs + (seq.length : Int) ∧ cs < be ∧ bs < be ∧ cs < cs + (seq.length : Int)) := by omega
      simp only [hov, this, and_self, decide_true, if_true]; rfl
    · have : ¬ (bs < cs + (seq.length : Int) ∧ cs < be ∧ bs < be ∧ cs < cs + (seq.length : Int)) := by omega
      simp only [hov, this, decide_false, Bool.false_eq_true, if_false]; rfl

/-! ### members on the new parent -/

theorem beq_result (a b : Result) : (a == b) = true ↔ a = b := by
  simp only [beq_iff_eq]

/-- shape of a parent the model can produce for the source -/
def RPShape (src : Source) (rp : RPar) : Prop :=
  match rp with
  | .none => True
  | .noseq => True
  | .whole seq => src.par = .whole seq
  | .chunk a b s => a ≤ b ∧ s ≠ [] ∧ src.par.hasSeq = true

/-- a grandchild of a well-formed source rebuilt on a parent `rp` the model can produce for it: its sequence is
    the specified one -/
theorem gc_mseq_norm (src : Source) (wf : SrcWF src) (rp : RPar) (hshape : RPShape src rp)
    (c : Child) (hc : c ∈ src.children) (g : GChild) (hg : g ∈ c.gcs) :
    (memberSeq rp g).norm = (expectMSeq rp g).norm := by
  have hgv : g.start ≤ g.stop := (wf.hull c hc).2 g hg
  have hpar := wf.par
  unfold ParWF at hpar
  cases rp with
  | none => rfl
  | noseq => rfl
  | whole seq =>
    simp only [RPShape] at hshape
    rw [hshape] at hpar
    exact memberSeq_norm_eq_expect _ g hgv ⟨hpar.1, hpar.2 c hc g hg⟩
  | chunk a b s =>
    simp only [RPShape] at hshape
    exact memberSeq_norm_eq_expect _ g hgv ⟨hshape.2.1, hshape.1⟩

/-- members of a well-formed source rebuilt on a parent `rp` the model can produce for it -/
theorem members_norm_eq (src : Source) (wf : SrcWF src) (rp rp' : RPar) (hrp : rp.norm = rp'.norm)
    (hshape : RPShape src rp)
    (c : Child) (hc : c ∈ src.children) :
    (liftChildP rp c).norm = (expectChild rp' c).norm :=
  liftChildP_norm_eq rp rp' hrp c (fun g hg => gc_mseq_norm src wf rp hshape c hc g hg)

/-- where `_subset_parent` is asked for: when the collection has sequence, a non-inverted range (any: it is
    clamped to the stretch the collection has sequence for) -/
def SubsetDomain (src : Source) (start stop : Int) : Prop :=
  (locRange src).isSome = true → start ≤ stop

theorem subsetParent_null (src : Source) (bs be : Int) (hb : selfBounds src = some (bs, be)) (start : Int) :
    subsetParent src start start = .ok .none := by
  unfold subsetParent
  cases hp : src.par with
  | none => rfl
  | noseq => simp only [if_true]; rfl
  | whole seq => simp only [needBounds_of hb, bind, Except.bind, located, if_true]; rfl
  | chunk cs seq =>
    simp only [needBounds_of hb, bind, Except.bind, located]
    split
    · rfl
    · rfl

theorem slice_ne_nil (l : List Char) (i j : Int) (h0 : 0 ≤ i) (h1 : i < j) (h2 : j ≤ l.length) : slice l i j ≠ [] := by
  intro h
  have := slice_length l i j h0 (by omega) h2
  rw [h] at this
  simp only [List.length_nil] at this
  omega

/-- The parent of the result: `_subset_parent` succeeds and carries, in normal form, exactly the source's sequence
    restricted to the new bounds (to the stretch of them on which the collection has sequence). -/
theorem subsetParent_spec (src : Source) (wf : SrcWF src) (bs be : Int) (hb : selfBounds src = some (bs, be))
    (start stop : Int) (hdom : SubsetDomain src start stop) :
    ∃ rp, subsetParent src start stop = .ok rp ∧ rp.norm = (expectPar src start stop).norm ∧
      (∀ a b, rp ≠ .chunk a b []) ∧ RPShape src rp := by
  have hpar := wf.par
  unfold ParWF at hpar
  cases hp : src.par with
  | none =>
    refine ⟨RPar.none, subsetParent_none src hp _ _, ?_, ?_, trivial⟩
    · unfold expectPar; rw [hp]
    · intro a b h; cases h
  | noseq =>
    refine ⟨_, subsetParent_noseq src hp start stop, ?_, ?_, ?_⟩
    · unfold expectPar; rw [hp]; split <;> rfl
    · intro a b; split <;> (intro h; cases h)
    · split <;> trivial
  | whole seq =>
    rw [hp] at hpar
    have hbw := bounds_whole wf hp hb
    have hloc := locRange_whole wf hp hb
    have hle := hdom (by rw [hloc]; rfl)
    by_cases he : start = stop
    · subst he
      refine ⟨RPar.none, subsetParent_null src bs be hb start, ?_, ?_, trivial⟩
      · unfold expectPar; rw [hp, hloc]; simp only [Par.seqAt, Int.le_refl, if_true]
      · intro a b h; cases h
    · have hlt : start < stop := by omega
      have hns : ¬ stop ≤ start := by omega
      refine ⟨_, subsetParent_whole src seq hp bs be hb hbw start stop he, ?_, ?_, ?_⟩
      · unfold expectPar
        rw [hp, hloc, specBounds_eq_self hb]
        simp only [Par.seqAt, hns, if_false, Option.some.injEq, Prod.mk.injEq]
        by_cases hid : start = bs ∧ stop = be
        · obtain ⟨h1, h2⟩ := hid
          subst h1 h2
          simp only [and_self, if_true, Par.toRPar]
        · have hid' : ¬ (bs = start ∧ be = stop) := fun h => hid ⟨h.1.symm, h.2.symm⟩
          simp only [hid, hid', if_false]
          by_cases hcl : max start bs < min stop be
          · simp only [hcl, if_true, stretch, Int.sub_zero]
          · simp only [hcl, if_false, stretch]
            rw [slice_empty _ _ _ (by omega)]
            rfl
      · intro a b
        by_cases hid : start = bs ∧ stop = be
        · simp only [hid, and_self, if_true]; intro h; cases h
        · simp only [hid, if_false]
          by_cases hcl : max start bs < min stop be
          · simp only [hcl, if_true]
            intro h
            simp only [RPar.chunk.injEq] at h
            exact slice_ne_nil seq _ _ (by omega) hcl (by omega) h.2.2
          · simp only [hcl, if_false]; intro h; cases h
      · by_cases hid : start = bs ∧ stop = be
        · simp only [hid, and_self, if_true]; exact hp
        · simp only [hid, if_false]
          by_cases hcl : max start bs < min stop be
          · simp only [hcl, if_true]
            exact ⟨by omega, slice_ne_nil seq _ _ (by omega) hcl (by omega), by rw [hp]; rfl⟩
          · simp only [hcl, if_false]; trivial
  | chunk cs seq =>
    rw [hp] at hpar
    have hbc := bounds_chunk wf hp hb
    have hloc := locRange_chunk hp hb
    by_cases hov : max bs cs < min be (cs + (seq.length : Int))
    · rw [if_pos hov] at hloc
      have hle := hdom (by rw [hloc]; rfl)
      by_cases he : start = stop
      · subst he
        refine ⟨RPar.none, subsetParent_null src bs be hb start, ?_, ?_, trivial⟩
        · unfold expectPar; rw [hp, hloc]; simp only [Par.seqAt, Int.le_refl, if_true]
        · intro a b h; cases h
      · have hlt : start < stop := by omega
        have hns : ¬ stop ≤ start := by omega
        refine ⟨_, subsetParent_chunk src cs seq hp bs be hb hpar.2 hbc hov start stop he, ?_, ?_, ?_⟩
        · unfold expectPar
          rw [hp, hloc, specBounds_eq_self hb]
          simp only [Par.seqAt, hns, if_false, Option.some.injEq, Prod.mk.injEq]
          by_cases hid : start = bs ∧ stop = be
          · obtain ⟨h1, h2⟩ := hid
            subst h1 h2
            simp only [and_self, if_true, Par.toRPar]
          · have hid' : ¬ (bs = start ∧ be = stop) := fun h => hid ⟨h.1.symm, h.2.symm⟩
            simp only [hid, hid', if_false]
            by_cases hcl : max start (max bs cs) < min stop (min be (cs + (seq.length : Int)))
            · simp only [hcl, if_true, stretch]
            · simp only [hcl, if_false, stretch]
              rw [slice_empty _ _ _ (by omega)]
              rfl
        · intro a b
          by_cases hid : start = bs ∧ stop = be
          · simp only [hid, and_self, if_true]
            intro h
            simp only [RPar.chunk.injEq] at h
            exact hpar.1 h.2.2
          · simp only [hid, if_false]
            by_cases hcl : max start (max bs cs) < min stop (min be (cs + (seq.length : Int)))
            · simp only [hcl, if_true]
              intro h
              simp only [RPar.chunk.injEq] at h
              exact slice_ne_nil seq _ _ (by omega) (by omega) (by omega) h.2.2
            · simp only [hcl, if_false]; intro h; cases h
        · by_cases hid : start = bs ∧ stop = be
          · simp only [hid, and_self, if_true]; exact ⟨by omega, hpar.1, by rw [hp]; rfl⟩
          · simp only [hid, if_false]
            by_cases hcl : max start (max bs cs) < min stop (min be (cs + (seq.length : Int)))
            · simp only [hcl, if_true]
              exact ⟨by omega, slice_ne_nil seq _ _ (by omega) (by omega) (by omega), by rw [hp]; rfl⟩
            · simp only [hcl, if_false]; trivial
    · rw [if_neg hov] at hloc
      refine ⟨RPar.none, subsetParent_chunk_off src cs seq hp bs be hb hbc hov start stop, ?_, ?_, trivial⟩
      · unfold expectPar; rw [hp, hloc]
      · intro a b h; cases h

end BioCantor.Proofs.Query

namespace BioCantor.Proofs.Query
open BioCantor BioCantor.Spec BioCantor.Spec.Query BioCantor.Model.Query

theorem specFilter_perm {l₁ l₂ : List Child} (h : l₁.Perm l₂) (co cw : Bool) (s e : Int) :
    (specFilter l₁ co cw s e).Perm (specFilter l₂ co cw s e) := h.filter _

theorem nodup_guid_filter {l : List Child} (h : (l.map Child.guid).Nodup) (p : Child → Bool) :
    ((l.filter p).map Child.guid).Nodup := by
  rw [List.nodup_iff_pairwise_ne, List.pairwise_map] at *
  exact List.Pairwise.filter p h

/-- building the result of a query whose kept members are (a permutation of) `keptS ⊆ src.children` -/
theorem buildNew_meets (src : Source) (wf : SrcWF src) (bs be : Int) (hb : selfBounds src = some (bs, be))
    (keptM keptS : List Child) (hperm : keptM.Perm keptS) (hsub : ∀ c ∈ keptS, c ∈ src.children)
    (hnd : (keptS.map Child.guid).Nodup)
    (start stop : Int) (hdom : SubsetDomain src start stop) :
    ∃ r, buildNew src keptM start stop = .ok r ∧ r.norm = (expectResult src start stop keptS).norm := by
  obtain ⟨rp, hsp, hnorm, hne, hshape⟩ := subsetParent_spec src wf bs be hb start stop hdom
  refine ⟨_, buildNew_eq src keptM start stop rp hsp hne
    (fun c hc => wf.hull c (hsub c (hperm.mem_iff.mp hc))), ?_⟩
  unfold expectResult
  exact result_norm_eq keptM keptS hperm hnd rp _ hnorm
    (fun c hc => members_norm_eq src wf rp _ hnorm hshape c (hsub c hc)) start stop

/-- T1 + T2 (position queries): on every well-formed source with bounds, for ALL ranges and flag combinations, the
    modelled `query_by_position` gives an answer the specification accepts. -/
theorem queryByPosition_meets (src : Source) (q : PosQ) (wf : SrcWF src) (b : Int × Int)
    (hb : selfBounds src = some b) :
    okQueryByPosition src q (toAns (queryByPosition src q)) = true := by
  obtain ⟨bs, be⟩ := b
  unfold okQueryByPosition expectQueryByPosition
  rw [specBounds_eq_self hb]
  simp only []
  unfold queryByPosition
  rw [checkSource_ok wf.cons, validate_eq src q.s q.e bs be hb]
  by_cases hv : validRange bs be (optOr q.s bs) (optOr q.e be) = true
  · obtain ⟨h0, hse, h1, h2⟩ := (validRange_iff _ _ _ _).mp hv
    have hkept := queryKept_eq src (optOr q.s bs) (optOr q.e be) q.cw q.codingOnly h0 hse
      (fun c hc => (wf.hull c hc).wf)
    have hpermK := specFilter_perm (iterChildren_perm src) q.codingOnly q.cw (optOr q.s bs) (optOr q.e be)
    have hbnd := resultBounds_eq_model q (optOr q.s bs) (optOr q.e be) _ _ hpermK
    have hcont := resultBounds_contains q (optOr q.s bs) (optOr q.e be)
      (specFilter src.children q.codingOnly q.cw (optOr q.s bs) (optOr q.e be))
    simp only [hv, if_true, not_true_eq_false, if_false, bind, Except.bind, hkept, seqRange_eq wf hb]
    simp only [Bool.not_eq_true] at hbnd
    simp only [Bool.not_eq_true, hbnd]
    generalize hrb : resultBounds q (optOr q.s bs) (optOr q.e be)
      (specFilter src.children q.codingOnly q.cw (optOr q.s bs) (optOr q.e be)) = nb at *
    obtain ⟨ns, ne⟩ := nb
    simp only at hcont ⊢
    have hbuild := buildNew_meets src wf bs be hb _ _ hpermK
      (fun c hc => (List.mem_filter.mp hc).1) (nodup_guid_filter wf.guids _) ns ne (fun _ => by omega)
    obtain ⟨r, hr, hrn⟩ := hbuild
    cases hl : locRange src with
    | none =>
      simp only [Bool.false_eq_true, if_false]
      rw [hr]
      simp only [toAns, meets, beq_iff_eq]
      exact hrn
    | some ab =>
      obtain ⟨A, B⟩ := ab
      simp only []
      by_cases hex : (ns < optOr q.s bs ∨ optOr q.e be < ne) ∧ (ns < A ∨ B < ne)
      · have hex' : (ns < optOr q.s bs ∨ ne > optOr q.e be) ∧ (ns < A ∨ ne > B) := by omega
        simp only [hex, hex', decide_true, if_true]
        rfl
      · have hex' : ¬ ((ns < optOr q.s bs ∨ ne > optOr q.e be) ∧ (ns < A ∨ ne > B)) := by omega
        simp only [hex, hex', decide_false, Bool.false_eq_true, if_false]
        rw [hr]
        simp only [toAns, meets, beq_iff_eq]
        exact hrn
  · simp only [hv, if_false, Bool.false_eq_true]
    rfl

end BioCantor.Proofs.Query
