/-
  C09 helper lemmas, part 5: `query_by_position` meets its specification on every well-formed source.
-/
import BioCantor.Proofs.QueryMain
set_option linter.unusedSimpArgs false
namespace BioCantor.Proofs.Query
open BioCantor BioCantor.Spec BioCantor.Spec.Query BioCantor.Model.Query

/-- modelled domain of parents (the complement are findings: F-C09b sequence-less parent — admitted once
    `repairedC09b` is flipped —, F-C08a variant members rebuilt on a chunk — only while
    `variantFromDictDropsParent`) -/
def ParWF (src : Source) : Prop :=
  match src.par with
  | .none => True
  | .noseq => repairedC09b = true      -- as coded: F-C09b (every non-identity query raises NullSequence)
  | .whole seq => src.bounds = none ∧
      ∀ c ∈ src.children, (variantFromDictDropsParent = true → c.kind ≠ .var) ∧
        ∀ g ∈ c.gcs, 0 ≤ g.start ∧ g.stop ≤ seq.length
  | .chunk cs _ => src.bounds = none ∧ 0 ≤ cs ∧
      ∀ c ∈ src.children, (variantFromDictDropsParent = true → c.kind ≠ .var)

/-- What the real constructors establish + the modelled domain. -/
structure SrcWF (src : Source) : Prop where
  hull : ∀ c ∈ src.children, ChildHull c
  guids : (src.children.map Child.guid).Nodup
  par : ParWF src

theorem specBounds_eq_self {src : Source} {b : Int × Int} (h : selfBounds src = some b) : specBounds src = some b := by
  unfold selfBounds at h
  unfold specBounds
  cases hb : src.bounds with
  | some x => rw [hb] at h; exact h
  | none =>
    rw [hb] at h
    simp only at h ⊢
    cases hp : src.par with
    | whole seq => rw [hp] at h; exact h
    | chunk cs seq => rw [hp] at h; exact h
    | none =>
      rw [hp] at h; simp only at h ⊢
      split at h
      · cases h
      · rw [← h]; exact hullOf_perm ((iterChildren_perm src).map _).symm
    | noseq =>
      rw [hp] at h; simp only at h ⊢
      split at h
      · cases h
      · rw [← h]; exact hullOf_perm ((iterChildren_perm src).map _).symm

/-! ### result bounds -/

theorem nonvar_perm (l : List Child) :
    (l.filter (fun c => c.kind = .feat) ++ l.filter (fun c => c.kind = .gene)).Perm (l.filter (fun c => c.kind ≠ .var)) := by
  induction l with
  | nil => exact List.Perm.refl _
  | cons c cs ih =>
    cases hk : c.kind with
    | gene =>
      simp only [List.filter_cons, hk, decide_true, if_true, reduceCtorEq, decide_false, Bool.false_eq_true, if_false,
        ne_eq, not_false_eq_true]
      refine List.Perm.trans ?_ (List.Perm.cons c ih)
      exact List.perm_middle
    | feat =>
      simp only [List.filter_cons, hk, decide_true, if_true, reduceCtorEq, decide_false, Bool.false_eq_true, if_false,
        ne_eq, not_false_eq_true, List.cons_append]
      exact List.Perm.cons c ih
    | var =>
      simp only [List.filter_cons, hk, decide_true, if_true, reduceCtorEq, decide_false, Bool.false_eq_true, if_false,
        ne_eq, not_true_eq_false]
      exact ih

theorem resultBounds_eq_model (q : PosQ) (s e : Int) (keptM keptS : List Child) (hp : keptM.Perm keptS) :
    (if q.expand = true ∧ ¬ q.cw = true then
        expandBounds s e (keptM.filter (fun c => c.kind = .feat) ++ keptM.filter (fun c => c.kind = .gene))
     else (s, e)) = resultBounds q s e keptS := by
  unfold resultBounds
  split
  · rw [expandBounds_eq, hullOf_cons]
    simp only [List.map_map]
    have hperm : (keptM.filter (fun c => c.kind = .feat) ++ keptM.filter (fun c => c.kind = .gene)).Perm
        (keptS.filter (fun c => c.kind ≠ .var)) := (nonvar_perm keptM).trans (hp.filter _)
    rw [foldl_min_perm (hperm.map (·.start)) s, foldl_max_perm (hperm.map (·.stop)) e]
    rfl
  · rfl

theorem resultBounds_contains (q : PosQ) (s e : Int) (kept : List Child) :
    (resultBounds q s e kept).1 ≤ s ∧ e ≤ (resultBounds q s e kept).2 := by
  unfold resultBounds
  split
  · rw [hullOf_cons]
    exact ⟨(foldl_min_spec _ s).2.1, (foldl_max_spec _ e).2.1⟩
  · exact ⟨Int.le_refl _, Int.le_refl _⟩

/-! ### members on the new parent -/

theorem liftG_mseq (rp : RPar) (k : Kind) (g : GChild)
    (h : k ≠ .var ∨ (∀ a b s, rp ≠ .chunk a b s) ∨ variantFromDictDropsParent = false) :
    (liftG rp k g).mseq = memberSeq rp g := by
  unfold liftG
  rcases h with h | h | h
  · cases k <;> cases rp <;> simp_all
  · cases k <;> cases rp <;> simp_all
  · rw [h]; cases k <;> cases rp <;> simp

end BioCantor.Proofs.Query

namespace BioCantor.Proofs.Query
open BioCantor BioCantor.Spec BioCantor.Spec.Query BioCantor.Model.Query

theorem beq_result (a b : Result) : (a == b) = true ↔ a = b := by
  simp only [beq_iff_eq]

/-- shape of a parent the model can produce for the source -/
def RPShape (src : Source) (rp : RPar) : Prop :=
  match rp with
  | .none => True
  | .noseq => True
  | .whole seq => src.par = .whole seq
  | .chunk a b _ => a ≤ b ∧ src.par.hasSeq = true

/-- a grandchild of a well-formed source rebuilt on a parent `rp` the model can produce for it: its sequence is
    the specified one -/
theorem gc_mseq_norm (src : Source) (wf : SrcWF src) (rp : RPar) (hshape : RPShape src rp)
    (c : Child) (hc : c ∈ src.children) (g : GChild) (hg : g ∈ c.gcs) :
    (liftG rp c.kind g).mseq.norm = (expectMSeq rp g).norm := by
  have hgv : g.start ≤ g.stop := (wf.hull c hc).2 g hg
  have hpar := wf.par
  unfold ParWF at hpar
  cases rp with
  | none => rw [liftG_mseq _ _ _ (Or.inr (Or.inl (by intro a b s h; cases h)))]; rfl
  | noseq => rw [liftG_mseq _ _ _ (Or.inr (Or.inl (by intro a b s h; cases h)))]; rfl
  | whole seq =>
    simp only [RPShape] at hshape
    rw [hshape] at hpar
    rw [liftG_mseq _ _ _ (Or.inr (Or.inl (by intro a b s h; cases h)))]
    exact memberSeq_norm_eq_expect _ g hgv ((hpar.2 c hc).2 g hg)
  | chunk a b s =>
    simp only [RPShape] at hshape
    have hk : c.kind ≠ .var ∨ (∀ a b s, RPar.chunk a b s ≠ .chunk a b s) ∨ variantFromDictDropsParent = false := by
      cases hv : variantFromDictDropsParent with
      | false => exact Or.inr (Or.inr rfl)
      | true =>
        refine Or.inl ?_
        cases hp : src.par with
        | none => rw [hp] at hshape; simp [Par.hasSeq] at hshape
        | noseq => rw [hp] at hshape; simp [Par.hasSeq] at hshape
        | whole seq => rw [hp] at hpar; exact (hpar.2 c hc).1 hv
        | chunk cs seq => rw [hp] at hpar; exact hpar.2.2 c hc hv
    have hk' : c.kind ≠ .var ∨ (∀ a' b' s', RPar.chunk a b s ≠ .chunk a' b' s') ∨ variantFromDictDropsParent = false := by
      rcases hk with h | h | h
      · exact Or.inl h
      · exact absurd rfl (h a b s)
      · exact Or.inr (Or.inr h)
    rw [liftG_mseq _ _ _ hk']
    exact memberSeq_norm_eq_expect _ g hgv hshape.1

/-- members of a well-formed source rebuilt on a parent `rp` the model can produce for it -/
theorem members_norm_eq (src : Source) (wf : SrcWF src) (rp rp' : RPar) (hrp : rp.norm = rp'.norm)
    (hshape : RPShape src rp)
    (c : Child) (hc : c ∈ src.children) :
    (liftChildP rp c).norm = (expectChild rp' c).norm :=
  liftChildP_norm_eq rp rp' hrp c (fun g hg => gc_mseq_norm src wf rp hshape c hc g hg)

/-- with F-C09c repaired, a range reaching beyond the sequence chunk is clamped instead of losing a base -/
def Clampable (src : Source) (bs be start stop : Int) : Prop :=
  repairedC09c = true ∧ src.par.isChunk = true ∧ max start bs < min stop be

/-- The parent of the result for new bounds inside the source's bounds (or, with F-C09c repaired, overlapping the
    chunk): `_subset_parent` succeeds and carries, in normal form, exactly the source's sequence restricted to the
    new bounds. -/
theorem subsetParent_spec (src : Source) (wf : SrcWF src) (bs be : Int) (hb : selfBounds src = some (bs, be))
    (start stop : Int) (hlt : src.par.hasSeq = true → start < stop)
    (hin : src.par.hasSeq = true → (bs ≤ start ∧ stop ≤ be) ∨ Clampable src bs be start stop) :
    ∃ rp, subsetParent src start stop = .ok rp ∧ rp.norm = (expectPar src.par start stop).norm ∧
      (∀ a b, rp ≠ .chunk a b []) ∧ RPShape src rp := by
  have hpar := wf.par
  unfold ParWF at hpar
  cases hp : src.par with
  | none =>
    refine ⟨RPar.none, subsetParent_none src hp _ _, rfl, ?_, trivial⟩
    intro a b h; cases h
  | noseq =>
    rw [hp] at hpar
    simp only at hpar
    unfold subsetParent
    rw [hpar]
    by_cases he : start = stop
    · subst he
      refine ⟨RPar.none, subsetParentG_noseq_null _ _ src hp _, rfl, ?_, trivial⟩
      intro a b h; cases h
    · refine ⟨RPar.noseq, subsetParentG_noseq _ src hp _ _ he, rfl, ?_, trivial⟩
      intro a b h; cases h
  | whole seq =>
    rw [hp] at hpar
    have hb' := selfBounds_whole hp hpar.1
    rw [hb] at hb'
    simp only [Option.some.injEq, Prod.mk.injEq] at hb'
    obtain ⟨rfl, rfl⟩ := hb'
    have hin' : 0 ≤ start ∧ stop ≤ (seq.length : Int) := by
      rcases hin (by rw [hp]; rfl) with h | h
      · exact h
      · have := h.2.1; rw [hp] at this; simp [Par.isChunk] at this
    have hlt' := hlt (by rw [hp]; rfl)
    have hr : 0 ≤ start ∧ start < stop ∧ stop ≤ (seq.length : Int) := by omega
    refine ⟨_, subsetParent_whole src seq hp hpar.1 start stop hr, whole_norm_eq_expect seq start stop hr, ?_, ?_⟩
    · intro a b
      by_cases hid : start = 0 ∧ stop = (seq.length : Int)
      · simp only [hid, and_self, if_true]; intro h; cases h
      · simp only [hid, if_false]
        intro h
        simp only [RPar.chunk.injEq] at h
        have := slice_length seq start stop (by omega) (by omega) (by omega)
        rw [h.2.2] at this
        simp only [List.length_nil] at this
        omega
    · by_cases hid : start = 0 ∧ stop = (seq.length : Int)
      · simp only [hid, and_self, if_true]; exact hp
      · simp only [hid, if_false]; exact ⟨by omega, by rw [hp]; rfl⟩
  | chunk cs seq =>
    rw [hp] at hpar
    have hb' := selfBounds_chunk hp hpar.1
    rw [hb] at hb'
    simp only [Option.some.injEq, Prod.mk.injEq] at hb'
    obtain ⟨rfl, rfl⟩ := hb'
    have hlt' := hlt (by rw [hp]; rfl)
    by_cases hrange : bs ≤ start ∧ stop ≤ bs + (seq.length : Int)
    · have hr : bs ≤ start ∧ start < stop ∧ stop ≤ bs + (seq.length : Int) := by omega
      refine ⟨_, subsetParent_chunk src bs seq hp hpar.1 hpar.2.1 start stop hr,
        chunk_norm_eq_expect bs seq start stop hr, ?_, ?_⟩
      · intro a b
        by_cases hid : start = bs ∧ stop = bs + (seq.length : Int)
        · simp only [hid, and_self, if_true]
          intro h
          simp only [RPar.chunk.injEq] at h
          have : (seq.length : Int) = 0 := by rw [h.2.2]; rfl
          omega
        · simp only [hid, if_false]
          intro h
          simp only [RPar.chunk.injEq] at h
          have := slice_length seq (start - bs) (stop - bs) (by omega) (by omega) (by omega)
          rw [h.2.2] at this
          simp only [List.length_nil] at this
          omega
      · by_cases hid : start = bs ∧ stop = bs + (seq.length : Int)
        · simp only [hid, and_self, if_true]; exact ⟨by omega, by rw [hp]; rfl⟩
        · simp only [hid, if_false]; exact ⟨by omega, by rw [hp]; rfl⟩
    · -- only possible with F-C09c repaired: the range is clamped to the chunk
      have hcl : Clampable src bs (bs + seq.length) start stop := by
        rcases hin (by rw [hp]; rfl) with h | h
        · exact absurd h hrange
        · exact h
      obtain ⟨hC, _, hov⟩ := hcl
      have hnid : ¬ (start = bs ∧ stop = bs + (seq.length : Int)) := by omega
      have hmax : max start bs < min stop (bs + (seq.length : Int)) := hov
      unfold subsetParent
      rw [hC]
      refine ⟨_, subsetParentG_chunk_clamped _ src bs seq hp hpar.1 hpar.2.1 start stop hmax hnid, ?_, ?_, ?_⟩
      · unfold expectPar stretch; rfl
      · intro a b h
        simp only [RPar.chunk.injEq] at h
        have := slice_length seq (max start bs - bs) (min stop (bs + seq.length) - bs) (by omega) (by omega) (by omega)
        rw [h.2.2] at this
        simp only [List.length_nil] at this
        omega
      · exact ⟨by omega, by rw [hp]; rfl⟩

end BioCantor.Proofs.Query

namespace BioCantor.Proofs.Query
open BioCantor BioCantor.Spec BioCantor.Spec.Query BioCantor.Model.Query

theorem specFilter_perm {l₁ l₂ : List Child} (h : l₁.Perm l₂) (co cw : Bool) (s e : Int) :
    (specFilter l₁ co cw s e).Perm (specFilter l₂ co cw s e) := h.filter _

theorem nodup_guid_filter {l : List Child} (h : (l.map Child.guid).Nodup) (p : Child → Bool) :
    ((l.filter p).map Child.guid).Nodup := by
  rw [List.nodup_iff_pairwise_ne, List.pairwise_map] at *
  exact List.Pairwise.filter p h

/-- building the result of a query whose kept members are (a permutation of) `keptS ⊆ src.children` -/
theorem buildNew_meets (src : Source) (wf : SrcWF src) (bs be : Int) (hb : selfBounds src = some (bs, be))
    (keptM keptS : List Child) (hperm : keptM.Perm keptS) (hsub : ∀ c ∈ keptS, c ∈ src.children)
    (hnd : (keptS.map Child.guid).Nodup)
    (start stop : Int) (hlt : src.par.hasSeq = true → start < stop)
    (hin : src.par.hasSeq = true → (bs ≤ start ∧ stop ≤ be) ∨ Clampable src bs be start stop) :
    ∃ r, buildNew src keptM start stop = .ok r ∧ r.norm = (expectResult src start stop keptS).norm := by
  obtain ⟨rp, hsp, hnorm, hne, hshape⟩ := subsetParent_spec src wf bs be hb start stop hlt hin
  refine ⟨_, buildNew_eq src keptM start stop rp hsp hne
    (fun c hc => wf.hull c (hsub c (hperm.mem_iff.mp hc))), ?_⟩
  unfold expectResult
  exact result_norm_eq keptM keptS hperm hnd rp _ hnorm
    (fun c hc => members_norm_eq src wf rp _ hnorm hshape c (hsub c hc)) start stop

/-- T1 + T2 (position queries): on every well-formed source with bounds, for ALL ranges and flag combinations, the
    modelled `query_by_position` gives an answer the specification accepts. -/
theorem queryByPosition_meets (src : Source) (q : PosQ) (wf : SrcWF src) (b : Int × Int)
    (hb : selfBounds src = some b) :
    okQueryByPosition src q (toAns (queryByPosition src q)) = true := by
  obtain ⟨bs, be⟩ := b
  unfold okQueryByPosition expectQueryByPosition
  rw [specBounds_eq_self hb]
  simp only []
  unfold queryByPosition
  rw [validate_eq src q.s q.e bs be hb]
  by_cases hv : validRange bs be (optOr q.s bs) (optOr q.e be) = true
  · obtain ⟨h0, hse, h1, h2⟩ := (validRange_iff _ _ _ _).mp hv
    have hkept := queryKept_eq src (optOr q.s bs) (optOr q.e be) q.cw q.codingOnly h0 hse
      (fun c hc => (wf.hull c hc).wf)
    have hpermK := specFilter_perm (iterChildren_perm src) q.codingOnly q.cw (optOr q.s bs) (optOr q.e be)
    have hbnd := resultBounds_eq_model q (optOr q.s bs) (optOr q.e be) _ _ hpermK
    have hcont := resultBounds_contains q (optOr q.s bs) (optOr q.e be)
      (specFilter src.children q.codingOnly q.cw (optOr q.s bs) (optOr q.e be))
    simp only [hv, if_true, not_true_eq_false, if_false, bind, Except.bind, needBounds_of hb, hkept]
    simp only [Bool.not_eq_true] at hbnd
    simp only [Bool.not_eq_true, hbnd]
    generalize hrb : resultBounds q (optOr q.s bs) (optOr q.e be)
      (specFilter src.children q.codingOnly q.cw (optOr q.s bs) (optOr q.e be)) = nb at *
    obtain ⟨ns, ne⟩ := nb
    simp only at hcont ⊢
    by_cases hex : src.par.hasSeq = true ∧ (ns < bs ∨ ne > be)
    · have hex' : src.par.hasSeq = true ∧ (ns < bs ∨ be < ne) := by
        refine ⟨hex.1, ?_⟩; rcases hex.2 with h | h; exact Or.inl h; exact Or.inr (by omega)
      simp only [hex, hex', if_true]
      rfl
    · have hex' : ¬ (src.par.hasSeq = true ∧ (ns < bs ∨ be < ne)) := by
        intro h; apply hex; refine ⟨h.1, ?_⟩; rcases h.2 with h | h; exact Or.inl h; exact Or.inr (by omega)
      simp only [hex, hex', if_false]
      obtain ⟨r, hr, hrn⟩ := buildNew_meets src wf bs be hb _ _ hpermK
        (fun c hc => (List.mem_filter.mp hc).1)
        (nodup_guid_filter wf.guids _) ns ne (fun _ => by omega)
        (fun hs => Or.inl (by
          have : ¬ (ns < bs ∨ ne > be) := fun h => hex ⟨hs, h⟩
          omega))
      rw [hr]
      simp only [toAns, meets, beq_iff_eq]
      exact hrn
  · simp only [hv, if_false, Bool.false_eq_true]
    rfl

end BioCantor.Proofs.Query
