/-
  C09 helper lemmas, part 4: results as sets of members — the model's collection equals the specified one up to
  the order of members (normal forms sort by guid).
-/
import BioCantor.Proofs.QueryBounds
namespace BioCantor.Proofs.Query
open BioCantor BioCantor.Spec BioCantor.Spec.Query BioCantor.Model.Query

/-- answer of the model as an observation -/
def toAns : QR Result → Ans
  | .ok r => .ok r
  | .error (.doc .InvalidQuery) => .rejected
  | .error _ => .raised

/-! ### rebuilding the members -/

/-- `liftChild` when the span is the hull of the grandchildren -/
def liftChildP (rp : RPar) (c : Child) : RChild :=
  ⟨c.guid, c.kind, c.start, c.stop, c.idents, c.gcs.map (liftG rp)⟩

theorem liftChild_eq (rp : RPar) (c : Child) (h : ChildHull c) : liftChild rp c = .ok (liftChildP rp c) := by
  unfold liftChild; rw [h.1]; rfl

theorem mapQ_eq {α β} (f : α → QR β) (g : α → β) (l : List α) (h : ∀ x ∈ l, f x = .ok (g x)) :
    mapQ f l = .ok (l.map g) := by
  induction l with
  | nil => rfl
  | cons x xs ih =>
    unfold mapQ
    rw [h x List.mem_cons_self, ih (fun y hy => h y (List.mem_cons_of_mem _ hy))]
    rfl

theorem partKinds_perm (l : List Child) : (partKinds l).Perm l := chain_perm l

theorem sortedKids_perm (l : List Child) : ((partKinds l).mergeSort byStart).Perm l :=
  (List.mergeSort_perm _ _).trans (partKinds_perm l)

theorem buildNew_eq (src : Source) (kept : List Child) (start stop : Int) (rp : RPar)
    (hsp : subsetParent src start stop = .ok rp) (hne : ∀ a b, rp ≠ .chunk a b [])
    (hk : ∀ c ∈ kept, ChildHull c) :
    buildNew src kept start stop =
      .ok ⟨start, stop, ((partKinds kept).mergeSort byStart).map (liftChildP rp), rp⟩ := by
  unfold buildNew
  rw [hsp]
  simp only [bind, Except.bind]
  rw [mapQ_eq (liftChild rp) (liftChildP rp) _
    (fun c hc => liftChild_eq rp c (hk c ((sortedKids_perm kept).mem_iff.mp hc)))]
  -- the matcher's conditional equation for the catch-all branch is discharged with `hne`
  simp only []
  rfl

/-! ### normal forms -/

theorem nodup_map_inj {α β} (f : α → β) (l : List α) (h : (l.map f).Nodup) :
    ∀ x ∈ l, ∀ y ∈ l, f x = f y → x = y := by
  induction l with
  | nil => intro x hx; cases hx
  | cons a as ih =>
    rw [List.map_cons, List.nodup_cons] at h
    obtain ⟨hna, hnd⟩ := h
    intro x hx y hy hxy
    rcases List.mem_cons.mp hx with rfl | hx' <;> rcases List.mem_cons.mp hy with rfl | hy'
    · rfl
    · exact absurd (hxy ▸ List.mem_map_of_mem hy') hna
    · exact absurd (hxy ▸ List.mem_map_of_mem hx') hna
    · exact ih hnd x hx' y hy' hxy

def guidLe (a b : RChild) : Bool := decide (a.guid ≤ b.guid)

theorem RChild.norm_guid (c : RChild) : c.norm.guid = c.guid := rfl

/-- two lists of result members that are permutations of each other and carry distinct guids have the same
    guid-sorted form -/
theorem sortByGuid_eq {A B : List RChild} (hp : A.Perm B) (hnd : (B.map (·.guid)).Nodup) :
    A.mergeSort guidLe = B.mergeSort guidLe := by
  have htrans : ∀ (a b c : RChild), guidLe a b = true → guidLe b c = true → guidLe a c = true := by
    intro a b c; simp only [guidLe, decide_eq_true_eq]; omega
  have htot : ∀ (a b : RChild), (guidLe a b || guidLe b a) = true := by
    intro a b; simp only [guidLe, Bool.or_eq_true, decide_eq_true_eq]; omega
  refine List.Perm.eq_of_pairwise (le := fun a b => guidLe a b = true) ?_
    (List.pairwise_mergeSort htrans htot A) (List.pairwise_mergeSort htrans htot B)
    ((List.mergeSort_perm A guidLe).trans (hp.trans (List.mergeSort_perm B guidLe).symm))
  intro a b ha hb hab hba
  have ha' : a ∈ B := hp.mem_iff.mp ((List.mergeSort_perm A guidLe).mem_iff.mp ha)
  have hb' : b ∈ B := (List.mergeSort_perm B guidLe).mem_iff.mp hb
  simp only [guidLe, decide_eq_true_eq] at hab hba
  exact nodup_map_inj (·.guid) B hnd a ha' b hb' (by omega)

/-- members: what the model rebuilds on its parent equals, in normal form, what the spec expects on a parent with
    the same normal form -/
theorem liftChildP_norm_eq (rp rp' : RPar) (hrp : rp.norm = rp'.norm) (c : Child)
    (hseq : ∀ g ∈ c.gcs, (memberSeq rp g).norm = (expectMSeq rp g).norm) :
    (liftChildP rp c).norm = (expectChild rp' c).norm := by
  unfold liftChildP expectChild RChild.norm
  simp only [List.map_map]
  congr 2
  apply List.map_congr_left
  intro g hg
  simp only [Function.comp, RGChild.norm, expectGChild, liftG]
  rw [hseq g hg, expectMSeq_congr hrp]

theorem result_norm_eq (keptM keptS : List Child) (hperm : keptM.Perm keptS)
    (hnd : (keptS.map Child.guid).Nodup) (rp rp' : RPar) (hrp : rp.norm = rp'.norm)
    (hmem : ∀ c ∈ keptS, (liftChildP rp c).norm = (expectChild rp' c).norm) (start stop : Int) :
    (⟨start, stop, ((partKinds keptM).mergeSort byStart).map (liftChildP rp), rp⟩ : Result).norm
      = (⟨start, stop, keptS.map (expectChild rp'), rp'⟩ : Result).norm := by
  unfold Result.norm
  simp only [Result.mk.injEq, true_and]
  refine ⟨?_, hrp⟩
  have hp1 : ((partKinds keptM).mergeSort byStart).Perm keptS := (sortedKids_perm keptM).trans hperm
  have e : (keptS.map (expectChild rp')).map RChild.norm = (keptS.map (liftChildP rp)).map RChild.norm := by
    simp only [List.map_map]
    apply List.map_congr_left
    intro c hc
    simp only [Function.comp]
    exact (hmem c hc).symm
  show List.mergeSort _ guidLe = List.mergeSort _ guidLe
  rw [e]
  apply sortByGuid_eq
  · exact (hp1.map _).map _
  · simp only [List.map_map]
    have : ((fun x : RChild => x.guid) ∘ RChild.norm ∘ liftChildP rp) = Child.guid := by
      funext c; rfl
    rw [this]; exact hnd

end BioCantor.Proofs.Query
