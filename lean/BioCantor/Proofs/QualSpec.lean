/-
  C18 helper lemmas, part 3: from the loop invariant to `Spec.Qual.okExtract`; the `/note` fallback; the code
  as written coincides with the repaired rule when no rank-0 key and no newline-terminated key is present.
-/
import BioCantor.Proofs.QualExtract
namespace BioCantor.Proofs.Qual
open BioCantor BioCantor.Spec.Qual BioCantor.Model.Qual

/-! ### character classes: code-point lists (model) = ranges (spec) -/

theorem isSpace_eq (c : Char) : Model.Qual.isSpace c = Spec.Qual.isSpace c := by
  unfold Model.Qual.isSpace Spec.Qual.isSpace spaceCodes
  generalize c.toNat = n
  rw [Bool.eq_iff_iff]
  simp only [List.contains_iff_mem, List.mem_cons, List.not_mem_nil, or_false, Bool.or_eq_true, Bool.and_eq_true,
    decide_eq_true_eq]
  omega

theorem isPunct_eq (c : Char) : Model.Qual.isPunct c = Spec.Qual.isPunct c := by
  unfold Model.Qual.isPunct Spec.Qual.isPunct punctCodes
  generalize c.toNat = n
  rw [Bool.eq_iff_iff]
  simp only [List.contains_iff_mem, List.mem_cons, List.not_mem_nil, or_false, Bool.or_eq_true, Bool.and_eq_true,
    decide_eq_true_eq]
  omega

theorem isSpace_fun : Model.Qual.isSpace = Spec.Qual.isSpace := funext isSpace_eq
theorem isPunct_fun : Model.Qual.isPunct = Spec.Qual.isPunct := funext isPunct_eq
theorem notSpace_fun : Model.Qual.notSpace = fun c => !Spec.Qual.isSpace c := by
  funext c; simp [notSpace, isSpace_eq]

theorem dictGet_eq (k : Str) (qs : QDict) : dictGet k qs = lookupExact k qs := by
  induction qs with
  | nil => rfl
  | cons e es ih => simp only [dictGet, lookupExact, ih]

theorem pySplit_head (v : Str) : (pySplit v).head? = firstWord v := by
  unfold pySplit pySplitFuel firstWord
  rw [isSpace_fun, notSpace_fun]
  cases h : List.dropWhile Spec.Qual.isSpace v with
  | nil => rfl
  | cons c t => rfl

theorem pyStrip_eq (w : Str) : pyStripPunct w = stripPunct w := by
  unfold pyStripPunct stripPunct; rw [isPunct_fun]

/-- the `/note` branch of the model computes the spec's `noteToken` -/
theorem note_branch (qs : QDict) :
    (match dictGet Model.Qual.noteKey qs with
      | some (v :: _) =>
        (match pySplit v with
          | w :: _ => (some (pyStripPunct w), some (pyStripPunct w))
          | [] => ((none : Option Str), (none : Option Str)))
      | some [] => (none, none)
      | none => (none, none)) =
    (match noteToken qs with
      | some t => (some t, some t)
      | none => (none, none)) := by
  unfold noteToken
  rw [dictGet_eq]
  have hk : Model.Qual.noteKey = Spec.Qual.noteKey := rfl
  rw [hk]
  cases h : lookupExact Spec.Qual.noteKey qs with
  | none => rfl
  | some vs =>
    cases vs with
    | nil => rfl
    | cons v rest =>
      simp only
      have := pySplit_head v
      cases hs : pySplit v with
      | nil => rw [hs] at this; simp only [List.head?_nil] at this; rw [← this]; rfl
      | cons w ws =>
        rw [hs] at this; simp only [List.head?_cons] at this
        rw [← this]; simp only [Option.map_some, pyStrip_eq]

/-! ### one side of the state satisfies `okPick` -/

theorem okPick_of_side {order keys : List Str} {table : List (Str × Int)} (hf : famOK order keys table = true)
    {qs : QDict} {val : Option Str} {key : Option Int}
    (h : InvSide (cls keys table) qs val key) : okPick order qs val = true := by
  unfold InvSide at h
  cases key with
  | none =>
    obtain ⟨hv, hall⟩ := h
    subst hv
    simp only [okPick, List.all_eq_true]
    intro e he
    rw [(cls_none_iff hf e.1).mp (hall e he)]; rfl
  | some p =>
    obtain ⟨w, hw, h1, h2, h3, h4⟩ := h
    cases val with
    | none => cases h3
    | some v =>
      simp only [okPick, List.any_eq_true]
      refine ⟨w, hw, ?_⟩
      have hs : (rank order w.1).isSome = true := by rw [← cls_isSome hf, h1]; rfl
      cases hr : rank order w.1 with
      | none => rw [hr] at hs; cases hs
      | some r =>
        simp only [Bool.and_eq_true, beq_iff_eq, List.all_eq_true]
        refine ⟨h2, fun e' he' => ?_⟩
        cases hr' : rank order e'.1 with
        | none => rfl
        | some r' =>
          have hs' : (cls keys table e'.1).isSome = true := by rw [cls_isSome hf, hr']; rfl
          cases hc' : cls keys table e'.1 with
          | none => rw [hc'] at hs'; cases hs'
          | some p' =>
            simp only [decide_eq_true_eq]
            exact (cls_mono hf h1 hc' hr hr').1 (h4 e' he' p' hc')

/-- a side whose key is set holds the non-empty first value of a recognised entry -/
theorem side_truthy {c : Str → Option Int} {qs : QDict} {val : Option Str} {p : Int}
    (h : InvSide c qs val (some p))
    (hd : ∀ e ∈ qs, (c e.1).isSome = true → ∃ v vs, e.2 = v :: vs ∧ v ≠ []) : truthy val = true := by
  obtain ⟨w, hw, h1, h2, _, _⟩ := h
  obtain ⟨v, vs, hv, hne⟩ := hd w hw (by rw [h1]; rfl)
  rw [← h2, hv]
  simp only [List.head?_cons, truthy]
  cases v with
  | nil => exact absurd rfl hne
  | cons _ _ => rfl

theorem recognised_iff (q : Str) :
    recognised q = ((nameCls q).isSome || (idCls q).isSome) := by
  unfold recognised
  rw [← cls_isSome nameFamOK, ← cls_isSome idFamOK]

/-- `extractDomain` gives what the loop and the truthiness test need -/
theorem domain_vals {qs : QDict} (hd : extractDomain qs = true) :
    ∀ e ∈ qs, recognised e.1 = true → ∃ v vs, e.2 = v :: vs ∧ v ≠ [] := by
  intro e he hr
  simp only [extractDomain, Bool.and_eq_true, List.all_eq_true] at hd
  have := hd.2 e he
  rw [hr] at this
  cases hv : e.2 with
  | nil => rw [hv] at this; simp at this
  | cons v vs =>
    rw [hv] at this
    refine ⟨v, vs, rfl, ?_⟩
    intro h0; subst h0; simp at this

/-- MAIN LEMMA (repaired rule): on every dictionary of the domain the model never raises and its answer is
    accepted by the reference predicate. -/
theorem extract_repaired_ok (qs : QDict) (hd : extractDomain qs = true) :
    okExtract qs (ansQ (extractWith Rule.repaired qs)) = true := by
  have hdv := domain_vals hd
  have hv : HasVals qs := by
    intro e he hr
    obtain ⟨v, vs, h, _⟩ := hdv e he (by rw [recognised_iff]; simpa using hr)
    rw [h]; exact List.cons_ne_nil _ _
  obtain ⟨st, hl, hi⟩ := loop_inv qs [] St.init inv_init hv
  simp only [List.nil_append] at hi
  have hn := okPick_of_side nameFamOK hi.name
  have hid := okPick_of_side idFamOK hi.id
  unfold extractWith
  rw [hl]
  simp only [bind, Except.bind]
  by_cases hrec : qs.any (fun e => recognised e.1) = true
  · -- some key is recognised: one of the two sides is set, hence truthy
    have ht : (!truthy st.name && !truthy st.id) = false := by
      obtain ⟨e, he, hr⟩ := List.any_eq_true.mp hrec
      rw [recognised_iff, Bool.or_eq_true] at hr
      rcases hr with hr | hr
      · have : truthy st.name = true := by
          cases hk : st.key with
          | none =>
            have := hi.name; rw [hk] at this
            have h0 := this.2 e he
            rw [h0] at hr; cases hr
          | some p =>
            have := hi.name; rw [hk] at this
            exact side_truthy this (fun e he h => hdv e he (by rw [recognised_iff, h]; rfl))
        simp [this]
      · have : truthy st.id = true := by
          cases hk : st.idKey with
          | none =>
            have := hi.id; rw [hk] at this
            have h0 := this.2 e he
            rw [h0] at hr; cases hr
          | some p =>
            have := hi.id; rw [hk] at this
            exact side_truthy this (fun e he h => hdv e he (by rw [recognised_iff, h]; simp))
        simp [this]
    rw [ht]
    simp only [Bool.false_eq_true, if_false, pure, Except.pure, ansQ_ok, okExtract, hrec, if_true, hn, hid, Bool.and_self]
  · -- nothing recognised: both sides unset, the /note branch decides
    have hnone : ∀ e ∈ qs, nameCls e.1 = none ∧ idCls e.1 = none := by
      intro e he
      have : recognised e.1 = false := by
        cases h : recognised e.1
        · rfl
        · exact absurd (List.any_eq_true.mpr ⟨e, he, h⟩) hrec
      rw [recognised_iff, Bool.or_eq_false_iff] at this
      constructor
      · cases h : nameCls e.1 with
        | none => rfl
        | some _ => rw [h] at this; cases this.1
      · cases h : idCls e.1 with
        | none => rfl
        | some _ => rw [h] at this; cases this.2
    have hk1 : st.key = none := by
      cases hk : st.key with
      | none => rfl
      | some p =>
        have := hi.name; rw [hk] at this
        obtain ⟨w, hw, h1, _⟩ := this
        rw [(hnone w hw).1] at h1; cases h1
    have hk2 : st.idKey = none := by
      cases hk : st.idKey with
      | none => rfl
      | some p =>
        have := hi.id; rw [hk] at this
        obtain ⟨w, hw, h1, _⟩ := this
        rw [(hnone w hw).2] at h1; cases h1
    have hn1 : st.name = none := by have := hi.name; rw [hk1] at this; exact this.1
    have hn2 : st.id = none := by have := hi.id; rw [hk2] at this; exact this.1
    rw [hn1, hn2]
    have hnb := note_branch qs
    simp only [truthy, Bool.not_false, Bool.and_self, if_true]
    simp only [Bool.not_eq_true] at hrec
    cases hg : dictGet Model.Qual.noteKey qs with
    | none =>
      rw [hg] at hnb
      simp only [pure, Except.pure, ansQ_ok, okExtract, hrec, Bool.false_eq_true, if_false]
      cases hnt : noteToken qs with
      | none => rfl
      | some t => rw [hnt] at hnb; cases hnb
    | some vs =>
      cases vs with
      | nil =>
        rw [hg] at hnb
        simp only [pure, Except.pure, ansQ_ok, okExtract, hrec, Bool.false_eq_true, if_false]
        cases hnt : noteToken qs with
        | none => rfl
        | some t => rw [hnt] at hnb; cases hnb
      | cons v rest =>
        rw [hg] at hnb
        simp only at hnb ⊢
        cases hs : pySplit v with
        | nil =>
          rw [hs] at hnb
          simp only [pure, Except.pure, ansQ_ok, okExtract, hrec, Bool.false_eq_true, if_false]
          cases hnt : noteToken qs with
          | none => rfl
          | some t => rw [hnt] at hnb; cases hnb
        | cons w ws =>
          rw [hs] at hnb
          simp only [pure, Except.pure, ansQ_ok, okExtract, hrec, Bool.false_eq_true, if_false]
          cases hnt : noteToken qs with
          | none => rw [hnt] at hnb; cases hnb
          | some t =>
            rw [hnt] at hnb
            simp only [Prod.mk.injEq, Option.some.injEq] at hnb
            simp [hnb.1]

end BioCantor.Proofs.Qual
