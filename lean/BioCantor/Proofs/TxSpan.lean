/-
  C06, span: `chromosome_span` runs from the smallest exon start to the largest exon end.
-/
import BioCantor.Proofs.TxBasics
set_option linter.unusedSimpArgs false
namespace BioCantor.Proofs
open BioCantor BioCantor.Spec BioCantor.Model BioCantor.Model.Transcript

theorem maxEnd_eq (bs : List Blk) : maxEnd bs = maxEndS bs := by
  induction bs with
  | nil => rfl
  | cons b bs ih => simp [maxEnd, maxEndS, ih]

theorem blkLe_fst (s : Strand) (a b : Blk) (h : blkLe s a b = true) : a.1 ≤ b.1 := by
  cases s <;> simp [blkLe, blkLePlus, blkLeOther] at h <;> omega

/-- the constructor's order puts the smallest start first -/
theorem minStart_sorted (s : Strand) (b : Blk) (bs : List Blk) (h : sortedBy (blkLe s) (b :: bs) = true) :
    minStart (b :: bs) = b.1 := by
  induction bs generalizing b with
  | nil => rfl
  | cons c cs ih =>
    simp only [sortedBy, Bool.and_eq_true] at h
    have := blkLe_fst s b c h.1
    simp only [minStart, ih c h.2]
    omega

theorem le_maxEnd (b : Blk) (bs : List Blk) (h : b ∈ bs) : b.2 ≤ maxEnd bs := by
  induction bs with
  | nil => cases h
  | cons c cs ih =>
    simp only [maxEnd]
    rcases List.mem_cons.1 h with rfl | h
    · omega
    · have := ih h; omega

theorem span_ok (t : Transcript) (h : WFT t) : okSpan (specOf t) (ans t.chromosomeSpan) = true := by
  unfold okSpan chromosomeSpan fullSpan specOf
  obtain ⟨hne, hv, hs⟩ := h.exons
  cases hb : t.exons.blocks with
  | nil => exact absurd hb hne
  | cons b bs =>
    rw [hb] at hs hv
    have h1 := minStart_sorted _ b bs hs
    have h2 : b.1 ≤ maxEnd (b :: bs) := by
      have := le_maxEnd b (b :: bs) (by simp)
      have := ((blocksValid_cons b bs).1 hv).1
      omega
    rw [maxEnd_eq] at h2
    simp [h2, h1, maxEnd_eq, bind, Except.bind, pure, Except.pure]

end BioCantor.Proofs
