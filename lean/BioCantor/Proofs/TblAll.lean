/-
  C17 helper lemmas, part 10: from the model's genes (+ qualifier dictionaries as data) to `okFiles` for a whole
  `collection_to_tbl` call.
-/
import BioCantor.Proofs.TblGeneAll
namespace BioCantor.Proofs.Tbl
open BioCantor BioCantor.Model BioCantor.Model.Tbl BioCantor.Spec BioCantor.Spec.Tbl BioCantor.Proofs
open BioCantor.Model.Bed (natStr)

/-! ### skeleton + dictionary -/

/-- what C17 needs of the qualifier dictionary of a feature object: clean text, the `codon_start` entry of a CDS
    feature, the `locus_tag` entry (everything else in it is free) -/
structure QualFor (pre : List Char) (tagNo : Nat) (s : Skel) (q : Quals) : Prop where
  clean : QualsClean q
  cs : ∀ n, s.codonStart = some n → s.key = "CDS".toList →
    q.filter (fun kv => kv.1 = "codon_start".toList) = [("codon_start".toList, [some (natStr n)])]
  tag : q.filter (fun kv => kv.1 = "locus_tag".toList) = [("locus_tag".toList, [some (pre ++ '_' :: natStr tagNo)])]

theorem realises_of_skel (pre : List Char) (tag : Nat) (w : Want) (s : Skel) (q : Quals)
    (hm : SkelMeets tag w s) (hq : QualFor pre tag s q) : Realises pre w (s.toFeature q) := by
  have hb : (s.toFeature q).blocks ≠ [] := by
    show s.blocks ≠ []
    rw [hm.blocks]; exact merged_ne_nil _ hm.good hm.ne
  refine ⟨featOK_of_clean _ hb hm.keyClean hq.clean, hm.key, hm.strand, hm.good, hm.blocks, hm.si, hm.ei, hm.pseudo, ?_, ?_⟩
  · intro n hn
    obtain ⟨hk, hc⟩ := hm.cs n hn
    exact ⟨hk, hq.cs n hc hk⟩
  · rw [hm.tag]; exact hq.tag

/-! ### the flavour filter on zipped lists -/

def keep (prok : Bool) (key : List Char) : Bool := !prok || decide (key ≠ "mRNA".toList)

theorem flavourFilter_eq (prok : Bool) (fs : List Feature) : flavourFilter prok fs = fs.filter (fun f => keep prok f.key) := by
  unfold flavourFilter keep
  cases prok
  · simp only [Bool.not_false, Bool.true_or, if_false, Bool.false_eq_true]
    exact (List.filter_eq_self.2 (fun _ _ => rfl)).symm
  · simp

theorem flavourSkels_eq (prok : Bool) (l : List Skel) : flavourSkels prok l = l.filter (fun s => keep prok s.key) := by
  unfold flavourSkels keep
  cases prok
  · simp only [Bool.not_false, Bool.true_or, if_false, Bool.false_eq_true]
    exact (List.filter_eq_self.2 (fun _ _ => rfl)).symm
  · simp

theorem realises_filter (pre : List Char) (tag : Nat) (prok : Bool) : ∀ (sk : List Skel) (qs : List Quals) (ws : List Want),
    sk.length = qs.length → (∀ p ∈ sk.zip qs, QualFor pre tag p.1 p.2) →
    Rel2 (SkelMeets tag) ws (sk.filter (fun s => keep prok s.key)) →
    Rel2 (Realises pre) ws ((List.zipWith Skel.toFeature sk qs).filter (fun f => keep prok f.key))
  | [], [], ws, _, _, h => by
    cases ws with
    | nil => trivial
    | cons _ _ => exact h.elim
  | s :: sk, q :: qs, ws, hl, hq, h => by
    have hl' : sk.length = qs.length := by simpa using hl
    have hq' : ∀ p ∈ sk.zip qs, QualFor pre tag p.1 p.2 := fun p hp => hq p (by simp [hp])
    have hkey : (s.toFeature q).key = s.key := rfl
    simp only [List.zipWith_cons_cons, List.filter_cons, hkey] at h ⊢
    by_cases hk : keep prok s.key = true
    · simp only [hk, if_true] at h ⊢
      cases ws with
      | nil => exact h.elim
      | cons w ws =>
        exact ⟨realises_of_skel pre tag w s q h.1 (hq (s, q) (by simp)), realises_filter pre tag prok sk qs ws hl' hq' h.2⟩
    · simp only [hk, if_false, Bool.false_eq_true] at h ⊢
      exact realises_filter pre tag prok sk qs ws hl' hq' h
  | [], _ :: _, _, hl, _, _ => by simp at hl
  | _ :: _, [], _, hl, _, _ => by simp at hl

/-! ### genes of one collection -/

/-- a gene inside what C17 claims: at least one transcript, all coding (each inside `CodingTxOK`) or all non-coding -/
def GeneOK (chrom : List Char) (g : Gene) : Prop :=
  g.txs ≠ [] ∧ ((∀ t ∈ g.txs, CodingTxOK chrom t) ∨ (∀ t ∈ g.txs, NoncodingTxOK t))

/-- the dictionaries supplied for gene `g` fit the objects `TblGene` yields for it -/
def QualsFit (c : CollIn) (tagNo : Nat) (g : Gene) (qs : List Quals) : Prop :=
  ∀ sk, tblGene g (some c.genome) (c.table : Int) = .ok sk →
    sk.length = qs.length ∧ ∀ p ∈ sk.zip qs, QualFor c.tagPrefix tagNo p.1 p.2

/-- genes numbered from `i` on -/
def GenesStaged (c : CollIn) : Nat → List (Gene × List Quals) → Prop
  | _, [] => True
  | i, (g, qs) :: rest => GeneOK c.genome g ∧ QualsFit c (i * c.step) g qs ∧ GenesStaged c (i + 1) rest

theorem tblGene_ok (g : Gene) (c : CollIn) (hch : ChromOK c.genome) (ht : c.table = 0 ∨ c.table = 1 ∨ c.table = 11)
    (tag : Nat) (h : GeneOK c.genome g) :
    ∃ skels ws, tblGene g (some c.genome) (c.table : Int) = .ok skels ∧
      wantGene c tag (specGene g) = some ws ∧ Rel2 (SkelMeets tag) ws (flavourSkels c.prokaryotic skels) := by
  rcases h.2 with hc | hn
  · exact tblGene_coding g h.1 c hch ht tag hc
  · exact tblGene_noncoding g h.1 c tag hn

theorem genes_realise (c : CollIn) (hch : ChromOK c.genome) (ht : c.table = 0 ∨ c.table = 1 ∨ c.table = 11) :
    ∀ (i : Nat) (gs : List (Gene × List Quals)), GenesStaged c i gs →
    ∃ fs ws, collectionFeatures c.prokaryotic (some c.genome) (c.table : Int) gs = .ok fs ∧
      wantAll c i (gs.map (fun p => specGene p.1)) = some ws ∧ Rel2 (Realises c.tagPrefix) ws fs
  | _, [], _ => ⟨[], [], rfl, rfl, trivial⟩
  | i, (g, qs) :: rest, h => by
    obtain ⟨hg, hq, hrest⟩ := h
    obtain ⟨sk, ws, h1, h2, h3⟩ := tblGene_ok g c hch ht (i * c.step) hg
    obtain ⟨fs', ws', r1, r2, r3⟩ := genes_realise c hch ht (i + 1) rest hrest
    obtain ⟨hlen, hfor⟩ := hq sk h1
    refine ⟨flavourFilter c.prokaryotic (List.zipWith Skel.toFeature sk qs) ++ fs', ws ++ ws', ?_, ?_, ?_⟩
    · simp only [collectionFeatures, h1, r1, bind, Except.bind, pure, Except.pure]
    · simp only [List.map_cons, wantAll, h2, r2]
    · apply Rel2_append _ _ _ _ _ _ r3
      rw [flavourFilter_eq]
      rw [flavourSkels_eq] at h3
      exact realises_filter c.tagPrefix (i * c.step) c.prokaryotic sk qs ws hlen hfor h3

/-! ### the whole call -/

/-- the spec's view of a collection handed to the writer -/
def collInOf (seqName genome : List Char) (table : Nat) (prok : Bool) (pre : List Char) (step : Nat)
    (gs : List (Gene × List Quals)) : CollIn :=
  ⟨seqName, genome, gs.map (fun p => specGene p.1), table, prok, pre, step⟩

/-- the collections of one call (all with the call's table / flavour / prefix / step), gene numbering running on -/
def CallStaged (table : Nat) (prok : Bool) (pre : List Char) (step : Nat) :
    Nat → List (List Char × List Char × List (Gene × List Quals)) → Prop
  | _, [] => True
  | i, (seqName, genome, gs) :: rest =>
    (seqName ≠ [] ∧ ' ' ∉ seqName ∧ '\n' ∉ seqName) ∧ ChromOK genome ∧
    GenesStaged (collInOf seqName genome table prok pre step gs) i gs ∧
    CallStaged table prok pre step (i + gs.length) rest

theorem call_staged (table : Nat) (ht : table = 0 ∨ table = 1 ∨ table = 11) (prok : Bool) (pre : List Char)
    (hpre : plainChars pre) (step : Nat) :
    ∀ (i : Nat) (colls : List (List Char × List Char × List (Gene × List Quals))),
    CallStaged table prok pre step i colls →
    ∃ items : List (CollIn × List Want × List Feature), Staged i items ∧
      items.map (·.1) = colls.map (fun x => collInOf x.1 x.2.1 table prok pre step x.2.2) ∧
      Rel2 (fun (x : List Char × List Char × List (Gene × List Quals)) (it : CollIn × List Want × List Feature) =>
        collectionFeatures prok (some x.2.1) (table : Int) x.2.2 = .ok it.2.2) colls items
  | _, [], _ => ⟨[], trivial, rfl, trivial⟩
  | i, (seqName, genome, gs) :: rest, h => by
    obtain ⟨hn, hch, hg, hrest⟩ := h
    let c := collInOf seqName genome table prok pre step gs
    obtain ⟨fs, ws, h1, h2, h3⟩ := genes_realise c hch ht i gs hg
    obtain ⟨items, s1, s2, s3⟩ := call_staged table ht prok pre hpre step (i + gs.length) rest hrest
    have hfs : ∀ f ∈ fs, FeatOK f := by
      have : ∀ (ws : List Want) (fs : List Feature), Rel2 (Realises pre) ws fs → ∀ f ∈ fs, FeatOK f := by
        intro ws
        induction ws with
        | nil => intro fs h; cases fs with
          | nil => simp
          | cons _ _ => exact h.elim
        | cons w ws ih =>
          intro fs h
          cases fs with
          | nil => exact h.elim
          | cons f fs =>
            intro x hx
            rcases List.mem_cons.1 hx with rfl | hx
            · exact h.1.ok
            · exact ih fs h.2 x hx
      exact this ws fs h3
    refine ⟨(c, ws, fs) :: items, ?_, ?_, ?_⟩
    · refine ⟨h2, h3, hpre, ⟨hn, hfs⟩, ?_⟩
      have : c.genes.length = gs.length := by simp [c, collInOf]
      rw [this]; exact s1
    · simp only [List.map_cons, s2]; rfl
    · exact ⟨h1, s3⟩

/-! ### the hypotheses are satisfiable: minimal dictionaries -/

/-- the smallest dictionary C17 needs on a feature object -/
def minimalQuals (pre : List Char) (tagNo : Nat) (s : Skel) : Quals :=
  ("locus_tag".toList, [some (pre ++ '_' :: natStr tagNo)]) ::
    (match s.codonStart with
     | some n => [("codon_start".toList, [some (natStr n)])]
     | none => [])

theorem minimalQuals_for (pre : List Char) (hp : '\t' ∉ pre ∧ '\n' ∉ pre) (tagNo : Nat) (s : Skel) :
    QualFor pre tagNo s (minimalQuals pre tagNo s) := by
  have hnat : ∀ n, '\t' ∉ natStr n ∧ '\n' ∉ natStr n := fun n =>
    ⟨fun h => BioCantor.Proofs.Bed.tab_not_digit (BioCantor.Proofs.Bed.natStr_digits n _ h),
     fun h => nl_not_digit (BioCantor.Proofs.Bed.natStr_digits n _ h)⟩
  have h1 : ¬ ("codon_start".toList = "locus_tag".toList) := by decide
  have h2 : ¬ ("locus_tag".toList = "codon_start".toList) := by decide
  refine ⟨?_, ?_, ?_⟩
  · intro kv hkv
    unfold minimalQuals at hkv
    rcases List.mem_cons.1 hkv with rfl | hkv
    · refine ⟨(by decide : "locus_tag".toList ≠ []), (by decide : '\t' ∉ "locus_tag".toList),
        (by decide : '\n' ∉ "locus_tag".toList), ?_⟩
      intro v hv
      simp only [List.mem_singleton, Option.some.injEq] at hv
      subst hv
      simp only [List.mem_append, List.mem_cons, not_or]
      exact ⟨⟨hp.1, by decide, (hnat tagNo).1⟩, ⟨hp.2, by decide, (hnat tagNo).2⟩⟩
    · cases hc : s.codonStart with
      | none => rw [hc] at hkv; simp at hkv
      | some n =>
        rw [hc] at hkv
        simp only [List.mem_singleton] at hkv
        subst hkv
        refine ⟨(by decide : "codon_start".toList ≠ []), (by decide : '\t' ∉ "codon_start".toList),
          (by decide : '\n' ∉ "codon_start".toList), ?_⟩
        intro v hv
        simp only [List.mem_singleton, Option.some.injEq] at hv
        subst hv
        exact hnat n
  · intro n hn _
    unfold minimalQuals
    rw [hn]
    simp [List.filter_cons, h2]
  · unfold minimalQuals
    cases s.codonStart <;> simp [List.filter_cons, h1]

theorem mem_zip_map {α β} (f : α → β) : ∀ (l : List α) (p : α × β), p ∈ l.zip (l.map f) → p.2 = f p.1
  | [], p, h => by simp at h
  | a :: l, p, h => by
    simp only [List.map_cons, List.zip_cons_cons, List.mem_cons] at h
    rcases h with rfl | h
    · rfl
    · exact mem_zip_map f l p h

/-- for every gene inside the claim there ARE dictionaries that fit (so `GenesStaged` / `CallStaged` are satisfiable
    exactly when the genes are inside the claim) -/
theorem qualsFit_exists (c : CollIn) (hch : ChromOK c.genome) (ht : c.table = 0 ∨ c.table = 1 ∨ c.table = 11)
    (hp : '\t' ∉ c.tagPrefix ∧ '\n' ∉ c.tagPrefix) (tagNo : Nat) (g : Gene) (h : GeneOK c.genome g) :
    ∃ qs, QualsFit c tagNo g qs := by
  obtain ⟨sk, _, h1, _, _⟩ := tblGene_ok g c hch ht tagNo h
  refine ⟨sk.map (minimalQuals c.tagPrefix tagNo), ?_⟩
  intro sk' hsk'
  rw [h1] at hsk'
  have : sk' = sk := (Except.ok.inj hsk').symm
  subst this
  refine ⟨by simp, ?_⟩
  intro p hp'
  have := mem_zip_map (minimalQuals c.tagPrefix tagNo) sk' p hp'
  rw [this]
  exact minimalQuals_for c.tagPrefix hp tagNo p.1

/-- **one `collection_to_tbl` call, end to end**: for every list of collections inside the claim there are the
    feature lists the model prints (`collectionFeatures` per collection), the text of the call reads back, and the
    sections meet C17 (`okFiles`): one header per collection naming its sequence, every feature its clauses, locus tags
    `prefix_<n·step>` with `n` running on across the collections. -/
theorem call_meets_property (table : Nat) (ht : table = 0 ∨ table = 1 ∨ table = 11) (prok : Bool) (pre : List Char)
    (hpre : plainChars pre) (step : Nat) (colls : List (List Char × List Char × List (Gene × List Quals)))
    (h : CallStaged table prok pre step 1 colls) :
    ∃ items : List (CollIn × List Want × List Feature),
      items.map (·.1) = colls.map (fun x => collInOf x.1 x.2.1 table prok pre step x.2.2) ∧
      Rel2 (fun (x : List Char × List Char × List (Gene × List Quals)) (it : CollIn × List Want × List Feature) =>
        collectionFeatures prok (some x.2.1) (table : Int) x.2.2 = .ok it.2.2) colls items ∧
      ∃ t secs, filesText (items.map (fun it => (it.1.seqName, it.2.2))) = some t ∧
        Spec.Tbl.read t = some secs ∧
        okFiles (colls.map (fun x => collInOf x.1 x.2.1 table prok pre step x.2.2)) secs = true := by
  obtain ⟨items, s1, s2, s3⟩ := call_staged table ht prok pre hpre step 1 colls h
  obtain ⟨t, secs, h1, h2, h3⟩ := okFiles_of_staged items s1
  exact ⟨items, s2, s3, t, secs, h1, h2, by rw [← s2]; exact h3⟩

end BioCantor.Proofs.Tbl
