/-
  C20 helper lemmas, part 5: merged transcript / CDS / feature.  `reduce(union)` over the children's blocks is
  `Model.mergeBlocks` when all strands agree; its coverage is the union of the blocks (`Union.mergeBlocks_spec`,
  proved for C02 in Proofs/AlgUnion.lean); the final `FeatureInterval(…, Strand.PLUS)` only re-sorts the blocks.
-/
import BioCantor.Proofs.AlgUnion
import BioCantor.Proofs.AggColl
namespace BioCantor.Proofs.Agg
open BioCantor BioCantor.Spec BioCantor.Spec.Agg BioCantor.Model BioCantor.Model.Agg BioCantor.Proofs

theorem foldlM_congr_mem {α β : Type} {f g : β → α → R β} : ∀ (l : List α) (b : β),
    (∀ x ∈ l, ∀ b, f b x = g b x) → l.foldlM f b = l.foldlM g b
  | [], _, _ => rfl
  | x :: xs, b, h => by
    rw [List.foldlM_cons, List.foldlM_cons, h x List.mem_cons_self b]
    cases g b x with
    | error e => rfl
    | ok b' =>
      simp only [bind, Except.bind]
      exact foldlM_congr_mem xs b' (fun y hy => h y (List.mem_cons_of_mem _ hy))

/-- on one strand the gene's fold IS the compound-interval block merge of location_impl.py -/
theorem mergeFold_eq (l : List (Blk × Strand)) (st : Strand) (h : ∀ x ∈ l, x.2 = st) :
    mergeFold l = mergeBlocks (l.map fun x => (x.1, ([] : PKey))) st := by
  cases l with
  | nil => rfl
  | cons x rest =>
    obtain ⟨b, st'⟩ := x
    have hst : st' = st := h (b, st') List.mem_cons_self
    subst hst
    simp only [mergeFold, mergeBlocks, List.map_cons]
    rw [List.foldlM_map]
    apply foldlM_congr_mem
    intro y hy acc
    rw [h y (List.mem_cons_of_mem _ hy)]

/-- `FeatureInterval(starts, ends, Strand.PLUS)` keeps the position set and yields valid blocks -/
theorem plusFeatureBlocks_ok (bs : List Blk) (hne : bs ≠ []) (hv : ∀ b ∈ bs, b.1 ≤ b.2) :
    ∃ out, plusFeatureBlocks bs = .ok out ∧ out ≠ [] ∧ blocksValid out = true ∧
      ∀ q, coversBlocks out q = coversBlocks bs q := by
  have hcomp : ∃ out, (do let l ← mkCompound bs .plus; pure (locBlocks l) : R (List Blk)) = .ok out ∧ out ≠ [] ∧
      blocksValid out = true ∧ ∀ q, coversBlocks out q = coversBlocks bs q := by
    refine ⟨sortBlocks .plus bs, ?_, sortBlocks_ne_nil .plus hne, (blocksValid_iff _).mpr (sortBlocks_valid .plus hv),
      fun q => coversBlocks_sort .plus bs q⟩
    simp only [mkCompound, mkCompoundLoc_ok .plus hne hv, bind, Except.bind, pure, Except.pure, locBlocks]
  unfold plusFeatureBlocks
  match bs, hne, hv, hcomp with
  | [b], _, hv, _ =>
    have hb := hv b List.mem_cons_self
    refine ⟨[b], ?_, by simp, by simp [blocksValid, hb], fun _ => rfl⟩
    have h1 : (0 : Int) ≤ (b.1 : Int) ∧ (b.1 : Int) ≤ (b.2 : Int) := ⟨by omega, by omega⟩
    simp only [mkSingle, h1, and_self, if_true, bind, Except.bind, pure, Except.pure, locBlocks, Int.toNat_natCast]
  | [], hne, _, _ => exact absurd rfl hne
  | _ :: _ :: _, _, _, hcomp => exact hcomp

/-- MAIN LEMMA: children on one strand, valid blocks ⇒ the merged feature is on the plus strand, has valid
    blocks and covers exactly the union of the given blocks -/
theorem produceMerged_ok (intervals : List (Blk × Strand)) (st : Strand) (hne : intervals ≠ [])
    (hst : ∀ x ∈ intervals, x.2 = st) (hv : ∀ x ∈ intervals, x.1.1 ≤ x.1.2) :
    ∃ out, produceMerged true intervals = .ok (.plus, out) ∧ out ≠ [] ∧ blocksValid out = true ∧
      ∀ q, coversBlocks out q = coversBlocks (intervals.map (·.1)) q := by
  have hne' : (intervals.map fun x => (x.1, ([] : PKey))) ≠ [] := by
    intro h; exact hne (List.map_eq_nil_iff.mp h)
  obtain ⟨r, p0, hm, _, hwf, _, hg, _, hcov, _⟩ := Union.mergeBlocks_spec (intervals.map fun x => (x.1, ([] : PKey))) st hne'
    (by intro x hx; simp only [List.mem_map] at hx; obtain ⟨y, hy, rfl⟩ := hx; exact hv y hy)
    (by intro x hx y hy
        simp only [List.mem_map] at hx hy
        obtain ⟨x', _, rfl⟩ := hx
        obtain ⟨y', _, rfl⟩ := hy
        rfl)
  have hrne : locationBlocks r ≠ [] := by
    cases r with
    | single b s => simp [locationBlocks]
    | compound l =>
      obtain ⟨q, hq⟩ := hg
      intro h0
      simp only [locationBlocks] at h0
      simp [covers, coversBlocks, h0] at hq
    | empty => exact absurd hg (by simp [Union.Good])
  have hrv : ∀ b ∈ locationBlocks r, b.1 ≤ b.2 := by
    cases r with
    | single b s =>
      intro x hx
      simp only [locationBlocks, List.mem_singleton] at hx
      subst hx
      simpa [wfLocation] using hwf
    | compound l =>
      have hc : l.Canon := by simpa [wfLocation] using hwf
      exact (blocksValid_iff _).mp hc.2.1
    | empty => intro x hx; simp [locationBlocks] at hx
  obtain ⟨out, ho, hone, hov, hoc⟩ := plusFeatureBlocks_ok (locationBlocks r) hrne hrv
  refine ⟨out, ?_, hone, hov, fun q => ?_⟩
  · unfold produceMerged
    rw [mergeFold_eq intervals st hst, hm]
    simp only [liftR, bind, Except.bind, locBlocks_eq, Bool.not_true, Bool.false_eq_true, if_false, ho, pure, Except.pure]
  · rw [hoc, ← locationCovers_eq, hcov, List.map_map]
    rfl

/-- since e559054 the gene_type plays no role in the merged feature's blocks -/
theorem produceMerged_ht (ht : Bool) (l : List (Blk × Strand)) : produceMerged ht l = produceMerged true l := rfl

/-- bounded comparison of position sets follows from equality everywhere -/
theorem sameCover_of_forall {a b : List Blk} (h : ∀ q, coversBlocks a q = coversBlocks b q) : sameCover a b = true := by
  simp only [sameCover, List.all_eq_true, beq_iff_eq]
  intro p _; exact h p

/-- the blocks handed to the fold cover what the children's blocks cover (per child they are only re-sorted) -/
theorem singlesOf_cover (st : Strand) (bs : List Blk) (q : Nat) :
    coversBlocks ((singlesOf st bs).map (·.1)) q = coversBlocks bs q := by
  unfold singlesOf
  rw [List.map_map]
  have hid : ((fun x : Blk × Strand => x.1) ∘ fun b : Blk => (b, st)) = id := rfl
  rw [hid, List.map_id]
  match bs with
  | [] => exact coversBlocks_sort st [] q
  | [b] => rfl
  | a :: b :: rest => exact coversBlocks_sort st (a :: b :: rest) q

theorem singlesOf_mem {st : Strand} {bs : List Blk} {x : Blk × Strand} (h : x ∈ singlesOf st bs) :
    x.2 = st ∧ x.1 ∈ bs := by
  unfold singlesOf at h
  simp only [List.mem_map] at h
  obtain ⟨b, hb, rfl⟩ := h
  refine ⟨rfl, ?_⟩
  match bs, hb with
  | [], hb => exact (List.mergeSort_perm _ _).mem_iff.mp hb
  | [b'], hb => exact hb
  | _ :: _ :: _, hb => exact (List.mergeSort_perm _ _).mem_iff.mp hb

theorem flatMap_cover {α} (f g : α → List Blk) (l : List α) (q : Nat)
    (h : ∀ x ∈ l, coversBlocks (f x) q = coversBlocks (g x) q) :
    coversBlocks (l.flatMap f) q = coversBlocks (l.flatMap g) q := by
  induction l with
  | nil => rfl
  | cons x xs ih =>
    rw [List.flatMap_cons, List.flatMap_cons, coversBlocks_append, coversBlocks_append,
      h x List.mem_cons_self, ih (fun y hy => h y (List.mem_cons_of_mem _ hy))]

/-- F-C20a in general: once a block on another strand is reached, `reduce(union)` raises -/
theorem fold_mixed (st : Strand) : ∀ (rest : List (Blk × Strand)) (L : Location), WF L → locationStrand? L = some st →
    Union.Good L → nonOverlap (locationBlocks L) = true → (∀ x ∈ rest, x.1.1 ≤ x.1.2) → (∃ x ∈ rest, x.2 ≠ st) →
    ans (rest.foldlM (fun (l : PLoc) x => unionWithSingle l x.1 x.2 []) ((L, []) : PLoc)) = none
  | [], _, _, _, _, _, _, ⟨_, h, _⟩ => nomatch h
  | x :: xs, L, hwf, hst, hg, hno, hv, hmix => by
    rw [List.foldlM_cons]
    by_cases hx : x.2 = st
    · obtain ⟨r1, hr1, hs1⟩ := Union.uws_spec L [] x.1 st [] hwf hst (hv x List.mem_cons_self) rfl
      have hg1 := hs1.good hg
      have hne1 := Union.good_ne_empty r1 hg1
      have hst1 : locationStrand? r1 = some st := by
        rcases hs1.strand with h | h
        · exact absurd h hne1
        · exact h
      rw [hx, hr1, Union.withPar_of_ne r1 [] hne1]
      simp only [bind, Except.bind]
      apply fold_mixed st xs r1 (Union.wf_of_wfLocation r1 hs1.wf) hst1 hg1 (hs1.disj hno)
        (fun y hy => hv y (List.mem_cons_of_mem _ hy))
      obtain ⟨y, hy, hne⟩ := hmix
      rcases List.mem_cons.mp hy with rfl | hy'
      · exact absurd hx hne
      · exact ⟨y, hy', hne⟩
    · have hn := Union.uws_none L [] x.1 x.2 [] (Or.inl (by rw [hst]; intro h; exact hx (Option.some.inj h).symm))
      cases hu : unionWithSingle (L, []) x.1 x.2 [] with
      | error e => rfl
      | ok v => rw [hu] at hn; cases hn

theorem mergeFold_mixed (intervals : List (Blk × Strand)) (hv : ∀ x ∈ intervals, x.1.1 ≤ x.1.2)
    (hmix : ∃ x ∈ intervals, ∃ y ∈ intervals, x.2 ≠ y.2) : ans (mergeFold intervals) = none := by
  cases intervals with
  | nil => rfl
  | cons first rest =>
    obtain ⟨b, st⟩ := first
    unfold mergeFold
    apply fold_mixed st rest (.single b st) (hv (b, st) List.mem_cons_self) rfl trivial rfl
      (fun y hy => hv y (List.mem_cons_of_mem _ hy))
    obtain ⟨x, hx, y, hy, hne⟩ := hmix
    by_cases hxs : x.2 = st
    · by_cases hys : y.2 = st
      · exact absurd (hxs.trans hys.symm) hne
      · rcases List.mem_cons.mp hy with rfl | hy'
        · exact absurd rfl hys
        · exact ⟨y, hy', hys⟩
    · rcases List.mem_cons.mp hx with rfl | hx'
      · exact absurd rfl hxs
      · exact ⟨x, hx', hxs⟩

theorem produceMerged_mixed (ht : Bool) (intervals : List (Blk × Strand)) (hv : ∀ x ∈ intervals, x.1.1 ≤ x.1.2)
    (hmix : ∃ x ∈ intervals, ∃ y ∈ intervals, x.2 ≠ y.2) :
    ansA (produceMerged ht intervals) = none := by
  unfold produceMerged
  have := mergeFold_mixed intervals hv hmix
  cases hm : mergeFold intervals with
  | error e => rfl
  | ok v => rw [hm] at this; cases this

end BioCantor.Proofs.Agg
