/-
  C02-T1: `has_overlap` ⇔ a shared position (blocks, or full spans with `full_span`), gated by strand and parents.
-/
import BioCantor.Proofs.AlgBasics
namespace BioCantor.Proofs
open BioCantor BioCantor.Spec BioCantor.Model

/-! ### `covX` in terms of block lists -/

theorem covX_single (fs : Bool) (b : Blk) (s : Strand) (p : Nat) :
    covX fs (.single b s) p = coversBlocks [b] p := by
  cases fs
  · simp [covX, locationCovers]
  · simp [covX, covSpan, spanOf_single, coversBlocks]

theorem covX_empty (fs : Bool) (p : Nat) : covX fs .empty p = false := by
  cases fs <;> simp [covX, covSpan, spanOf, locationBlocks, locationCovers]

theorem covX_compound_false (l : Loc) (p : Nat) : covX false (.compound l) p = coversBlocks l.blocks p := by
  simp [covX, locationCovers, covers]

theorem covX_compound_true (l : Loc) (f : Blk) (h : spanOf (.compound l) = some f) (p : Nat) :
    covX true (.compound l) p = coversBlocks [f] p := by
  simp [covX, covSpan, h, coversBlocks]

theorem covX_le_hi_left (fs : Bool) (x y : Location) (p : Nat) (h : covX fs x p = true) : p ≤ hiOf [x, y] := by
  rw [hiOf_pair]
  cases fs
  · simp only [covX, Bool.false_eq_true, if_false] at h
    rw [locationCovers_eq] at h
    have := coversBlocks_lt_maxEndOf _ _ h
    omega
  · simp only [covX, if_true, covSpan, spanOf] at h
    cases hbl : locationBlocks x with
    | nil => simp [hbl] at h
    | cons c cs =>
      simp only [hbl, Bool.and_eq_true, decide_eq_true_eq] at h
      omega

theorem covX_le_hi_right (fs : Bool) (x y : Location) (p : Nat) (h : covX fs y p = true) : p ≤ hiOf [x, y] := by
  have := covX_le_hi_left fs y x p h
  rw [hiOf_pair] at this ⊢
  omega

theorem anyUpTo_cov (fs : Bool) (x y : Location) :
    anyUpTo (hiOf [x, y]) (fun p => covX fs x p && covX fs y p) = true ↔
      ∃ p, covX fs x p = true ∧ covX fs y p = true := by
  rw [anyUpTo_iff]
  constructor
  · rintro ⟨p, _, h⟩
    simp only [Bool.and_eq_true] at h
    exact ⟨p, h⟩
  · rintro ⟨p, h1, h2⟩
    exact ⟨p, covX_le_hi_left fs x y p h1, by simp [h1, h2]⟩

/-! ### kernel / any versus shared positions -/

theorem kernel_cov (a b : Blk) :
    overlapKernel a b = true ↔ ∃ p, coversBlocks [a] p = true ∧ coversBlocks [b] p = true := by
  rw [overlapKernel_iff_exists]
  simp [coversBlocks]

theorem any_kernel_cov (A : List Blk) (b : Blk) :
    A.any (fun x => overlapKernel x b) = true ↔ ∃ p, coversBlocks A p = true ∧ coversBlocks [b] p = true := by
  simp only [List.any_eq_true, kernel_cov]
  constructor
  · rintro ⟨x, hx, p, h1, h2⟩
    refine ⟨p, ?_, h2⟩
    rw [coversBlocks_iff] at h1 ⊢
    obtain ⟨y, hy, h3⟩ := h1
    simp only [List.mem_singleton] at hy
    subst hy
    exact ⟨y, hx, h3⟩
  · rintro ⟨p, h1, h2⟩
    rw [coversBlocks_iff] at h1
    obtain ⟨x, hx, h3⟩ := h1
    exact ⟨x, hx, p, by rw [coversBlocks_iff]; exact ⟨x, by simp, h3⟩, h2⟩

theorem any_any_kernel_cov (A B : List Blk) :
    A.any (fun x => B.any (fun y => overlapKernel y x)) = true ↔
      ∃ p, coversBlocks A p = true ∧ coversBlocks B p = true := by
  simp only [List.any_eq_true]
  constructor
  · rintro ⟨x, hx, hB⟩
    have := (any_kernel_cov B x).mp (by simpa [List.any_eq_true] using hB)
    obtain ⟨p, h1, h2⟩ := this
    refine ⟨p, ?_, h1⟩
    rw [coversBlocks_iff] at h2 ⊢
    obtain ⟨y, hy, h3⟩ := h2
    simp only [List.mem_singleton] at hy
    subst hy
    exact ⟨y, hx, h3⟩
  · rintro ⟨p, h1, h2⟩
    rw [coversBlocks_iff] at h1
    obtain ⟨x, hx, h3⟩ := h1
    refine ⟨x, hx, ?_⟩
    have := (any_kernel_cov B x).mpr ⟨p, h2, by rw [coversBlocks_iff]; exact ⟨x, by simp, h3⟩⟩
    simpa [List.any_eq_true] using this

/-! ### the parent-less dispatch -/

/-- strand part of the spec's `active` -/
def strandGate (x y : Location) (ms : Bool) : Bool := !ms || strandEq x y

theorem bool_eq_of_iff {a b : Bool} (h : a = true ↔ b = true) : a = b := by
  cases a <;> cases b <;> simp_all

theorem ok_bind {α β} (a : α) (f : α → R β) : (Except.ok a >>= f) = f a := rfl

theorem gate_if (ms : Bool) (sa sb : Strand) (k : Bool) :
    (if ms = true ∧ sa ≠ sb then (pure false : R Bool) else pure k) = .ok ((!ms || sa == sb) && k) := by
  have e : (sa == sb) = decide (sa = sb) := by cases sa <;> cases sb <;> rfl
  rw [e]
  cases ms <;> by_cases hs : sa = sb <;> simp [hs] <;> rfl

/-- `Model.hasOverlap` (Model/Location.lean, which still mirrors the code before the repair of F-C02c) outside the
    corner where it raises; the repaired behaviour is `hasOverlapN_spec` below -/
theorem hasOverlap_spec (x y : Location) (hx : WF x) (hy : WF y) (ms fs : Bool)
    (hq : ¬ (x ≠ .empty ∧ y = .empty ∧ ms = true)) :
    hasOverlap x y ms fs =
      .ok (strandGate x y ms && anyUpTo (hiOf [x, y]) (fun p => covX fs x p && covX fs y p)) := by
  have key : ∀ (g : Bool) (k : Bool), (k = true ↔ ∃ p, covX fs x p = true ∧ covX fs y p = true) →
      (g && k) = (g && anyUpTo (hiOf [x, y]) (fun p => covX fs x p && covX fs y p)) := by
    intro g k hk
    congr 1
    exact bool_eq_of_iff (hk.trans (anyUpTo_cov fs x y).symm)
  match x, y, hx, hy, hq with
  | .empty, y, _, _, _ =>
    have : anyUpTo (hiOf [Location.empty, y]) (fun p => covX fs .empty p && covX fs y p) = false := by
      rw [Bool.eq_false_iff]; intro h
      obtain ⟨p, h1, _⟩ := (anyUpTo_cov fs .empty y).mp h
      simp [covX_empty] at h1
    simp [hasOverlap, this]
    rfl
  | .single ba sa, .single bb sb, _, _, _ =>
    have hk := key (strandGate (.single ba sa) (.single bb sb) ms) (overlapKernel ba bb)
      (by rw [kernel_cov]; simp only [covX_single])
    rw [← hk]
    simp only [hasOverlap, strandGate, strandEq, locationStrand?]
    first | exact gate_if _ _ _ _ | (simp only [gate_if]) 
  | .single ba sa, .empty, _, _, hq =>
    have hms : ms = false := by
      cases ms
      · rfl
      · exact absurd ⟨by simp, rfl, rfl⟩ hq
    subst hms
    have : anyUpTo (hiOf [Location.single ba sa, .empty]) (fun p => covX fs (.single ba sa) p && covX fs .empty p) = false := by
      rw [Bool.eq_false_iff]; intro h
      obtain ⟨p, _, h1⟩ := (anyUpTo_cov fs (.single ba sa) .empty).mp h
      simp [covX_empty] at h1
    simp [hasOverlap, this]
    rfl
  | .single ba sa, .compound lb, _, hy, _ =>
    obtain ⟨f, rest, hbl, hspan, hfull⟩ := spanOf_compound lb hy
    cases fs with
    | false =>
      have hk := key (strandGate (.single ba sa) (.compound lb) ms) (lb.blocks.any (fun bb => overlapKernel bb ba))
        (by rw [any_kernel_cov]; simp only [covX_single, covX_compound_false]
            constructor <;> rintro ⟨p, h1, h2⟩ <;> exact ⟨p, h2, h1⟩)
      rw [← hk]
      simp only [hasOverlap, strandGate, strandEq, locationStrand?]
      first | exact gate_if _ _ _ _ | (simp only [gate_if]) 
    | true =>
      have hk := key (strandGate (.single ba sa) (.compound lb) ms) (overlapKernel (f.1, maxEnd lb.blocks) ba)
        (by rw [kernel_cov]; simp only [covX_single, covX_compound_true lb _ hspan]
            constructor <;> rintro ⟨p, h1, h2⟩ <;> exact ⟨p, h2, h1⟩)
      rw [← hk]
      simp only [hasOverlap, strandGate, strandEq, locationStrand?, hfull, ok_bind]
      first | exact gate_if _ _ _ _ | (simp only [gate_if]) 
  | .compound la, .empty, hx, _, hq =>
    obtain ⟨f, rest, hbl, hspan, hfull⟩ := spanOf_compound la hx
    have hms : ms = false := by
      cases ms
      · rfl
      · exact absurd ⟨by simp, rfl, rfl⟩ hq
    subst hms
    have : anyUpTo (hiOf [Location.compound la, .empty]) (fun p => covX fs (.compound la) p && covX fs .empty p) = false := by
      rw [Bool.eq_false_iff]; intro h
      obtain ⟨p, _, h1⟩ := (anyUpTo_cov fs (.compound la) .empty).mp h
      simp [covX_empty] at h1
    cases fs <;> simp [hasOverlap, this, hfull] <;> rfl
  | .compound la, .single bb sb, hx, _, _ =>
    obtain ⟨f, rest, hbl, hspan, hfull⟩ := spanOf_compound la hx
    cases fs with
    | false =>
      have hk := key (strandGate (.compound la) (.single bb sb) ms) (la.blocks.any (fun ba => overlapKernel ba bb))
        (by rw [any_kernel_cov]; simp only [covX_single, covX_compound_false])
      rw [← hk]
      simp only [hasOverlap, strandGate, strandEq, locationStrand?]
      first | exact gate_if _ _ _ _ | (simp only [gate_if]) 
    | true =>
      have hk := key (strandGate (.compound la) (.single bb sb) ms) (overlapKernel (f.1, maxEnd la.blocks) bb)
        (by rw [kernel_cov]; simp only [covX_single, covX_compound_true la _ hspan])
      rw [← hk]
      simp only [hasOverlap, strandGate, strandEq, locationStrand?, hfull, ok_bind]
      first | exact gate_if _ _ _ _ | (simp only [gate_if]) 
  | .compound la, .compound lb, hx, hy, _ =>
    obtain ⟨f, rest, hbl, hspan, hfull⟩ := spanOf_compound la hx
    obtain ⟨g, rest', hbl', hspan', hfull'⟩ := spanOf_compound lb hy
    cases fs with
    | false =>
      have hk := key (strandGate (.compound la) (.compound lb) ms)
        (la.blocks.any (fun ba => lb.blocks.any (fun bb => overlapKernel bb ba)))
        (by rw [any_any_kernel_cov]; simp only [covX_compound_false])
      rw [← hk]
      simp only [hasOverlap, strandGate, strandEq, locationStrand?]
      first | exact gate_if _ _ _ _ | (simp only [gate_if]) 
    | true =>
      have hk := key (strandGate (.compound la) (.compound lb) ms)
        (overlapKernel (g.1, maxEnd lb.blocks) (f.1, maxEnd la.blocks))
        (by rw [kernel_cov]; simp only [covX_compound_true la _ hspan, covX_compound_true lb _ hspan']
            constructor <;> rintro ⟨p, h1, h2⟩ <;> exact ⟨p, h2, h1⟩)
      rw [← hk]
      simp only [hasOverlap, strandGate, strandEq, locationStrand?, hfull, hfull', ok_bind]
      first | exact gate_if _ _ _ _ | (simp only [gate_if]) 

/-- `has_overlap` as the code is since the repair of F-C02c: no corner left -/
theorem hasOverlapN_spec (x y : Location) (hx : WF x) (hy : WF y) (ms fs : Bool) :
    hasOverlapN x y ms fs =
      .ok (strandGate x y ms && anyUpTo (hiOf [x, y]) (fun p => covX fs x p && covX fs y p)) := by
  by_cases hye : y = .empty
  · subst hye
    have : anyUpTo (hiOf [x, Location.empty]) (fun p => covX fs x p && covX fs .empty p) = false := by
      rw [Bool.eq_false_iff]; intro h
      obtain ⟨p, _, h1⟩ := (anyUpTo_cov fs x .empty).mp h
      simp [covX_empty] at h1
    rw [this, Bool.and_false]
    rfl
  · have : hasOverlapN x y ms fs = hasOverlap x y ms fs := by
      cases y <;> first | rfl | exact absurd rfl hye
    rw [this]
    exact hasOverlap_spec x y hx hy ms fs (fun h => hye h.2.1)

theorem hasOverlapN_of_ne (x y : Location) (ms fs : Bool) (h : y ≠ .empty) :
    hasOverlapN x y ms fs = hasOverlap x y ms fs := by
  cases y <;> first | rfl | exact absurd rfl h

/-! ### with parents -/

theorem active_eq (a b : PLoc) (ms : Bool) : active a b ms = (sameParent a.2 b.2 && strandGate a.1 b.1 ms) := rfl

/-- the model's `has_overlap` in closed form (used by intersection / minus / contains as well) -/
theorem hasOverlapP_eq (a b : PLoc) (ha : WFP a) (hb : WFP b) (ms fs : Bool) :
    hasOverlapP a b ms fs false = .ok (expectOverlap a b ms fs) := by
  unfold hasOverlapP expectOverlap
  simp only [Bool.false_eq_true, if_false]
  by_cases he : a.1 = .empty
  · have : anyUpTo (hiOf [a.1, b.1]) (fun p => covX fs a.1 p && covX fs b.1 p) = false := by
      rw [Bool.eq_false_iff]; intro h
      obtain ⟨p, h1, _⟩ := (anyUpTo_cov fs a.1 b.1).mp h
      simp [he, covX_empty] at h1
    rw [this, he]
    simp
    rfl
  · rw [parentGate_eq, active_eq]
    have hdisp : (match a.1 with
        | .empty => (pure false : R Bool)
        | _ => if (!sameParent a.2 b.2) = true then pure false else hasOverlapN a.1 b.1 ms fs) =
        (if (!sameParent a.2 b.2) = true then pure false else hasOverlapN a.1 b.1 ms fs) := by
      cases h : a.1 <;> simp_all
    first | rw [hdisp] | skip
    cases hsp : sameParent a.2 b.2 with
    | false => simp; rfl
    | true =>
      simp only [Bool.not_true, Bool.false_eq_true, if_false, Bool.true_and]
      exact hasOverlapN_spec a.1 b.1 ha.1 hb.1 ms fs

/-- C02-T1 -/
theorem hasOverlapP_ok (a b : PLoc) (ha : WFP a) (hb : WFP b) (ms fs strict : Bool) :
    okOverlap a b ms fs strict (ans (hasOverlapP a b ms fs strict)) = true := by
  cases strict with
  | false =>
    rw [hasOverlapP_eq a b ha hb ms fs]
    simp [okOverlap]
  | true =>
    cases hsp : sameParent a.2 b.2 with
    | false =>
      simp [okOverlap, hasOverlapP, requireParentsEq_eq, hsp]
      rfl
    | true =>
      have : hasOverlapP a b ms fs true = hasOverlapP a b ms fs false := by
        simp [hasOverlapP, requireParentsEq_eq, hsp]
        rfl
      rw [this, hasOverlapP_eq a b ha hb ms fs]
      simp [okOverlap, hsp]

end BioCantor.Proofs
