/-
  C12 — T1 for genes: the `gene` record, the transcript-level records and the `CDS` records of the writer model.
-/
import BioCantor.Proofs.GbWrite
import BioCantor.Proofs.GbSpan
namespace BioCantor.Proofs.Gb
open BioCantor BioCantor.Spec.Qual BioCantor.Spec.Gb BioCantor.Model.Gb

/-! ### consequences of well-formedness -/

theorem txWF_facts (t : Tx) (h : txWF t = true) :
    t.strand.isDirectional = true ∧ t.exons ≠ [] ∧ Asc t.exons ∧ Asc t.cds := by
  simp only [txWF, Bool.and_eq_true, List.all_eq_true, decide_eq_true_eq, Bool.not_eq_true',
    List.isEmpty_eq_false_iff] at h
  obtain ⟨⟨⟨⟨⟨⟨⟨⟨⟨hdir, hne⟩, hpos⟩, hno⟩, hcpos⟩, hcno⟩, _⟩, _⟩, _⟩, _⟩ := h
  exact ⟨hdir, hne, ⟨hpos, hno⟩, ⟨hcpos, hcno⟩⟩

theorem geneWF_facts (g : Gene) (h : geneWF g = true) :
    ∃ t0 ts, g.txs = t0 :: ts ∧ (∀ t ∈ g.txs, txWF t = true) ∧ (∀ t ∈ g.txs, t.strand = t0.strand) := by
  unfold geneWF at h
  cases hg : g.txs with
  | nil => simp [hg] at h
  | cons t0 ts =>
    simp only [hg, Bool.and_eq_true, List.all_eq_true, beq_iff_eq] at h
    refine ⟨t0, ts, rfl, h.1, ?_⟩
    intro t ht
    rcases List.mem_cons.mp ht with rfl | ht
    · rfl
    · exact h.2 t ht

theorem geneBounds_eq_span (g : Gene) (h : geneWF g = true) :
    ∃ sp, geneBounds g = some sp ∧ geneSpan g = some sp := by
  obtain ⟨t0, ts, hg, hwf, _⟩ := geneWF_facts g h
  have hfam : ∀ bs ∈ g.txs.map (·.exons), bs ≠ [] ∧ Asc bs := by
    intro bs hbs
    obtain ⟨t, ht, rfl⟩ := List.mem_map.mp hbs
    obtain ⟨_, hne, hasc, _⟩ := txWF_facts t (hwf t ht)
    exact ⟨hne, hasc⟩
  have hne : g.txs.map (·.exons) ≠ [] := by simp [hg]
  obtain ⟨s, srest, e, erest, hs, he, hspan⟩ := bounds_eq_span _ hne hfam
  rw [List.filterMap_map] at hs he
  refine ⟨(srest.foldl min s, erest.foldl max e), ?_, ?_⟩
  · unfold geneBounds
    have hs' : g.txs.filterMap (fun t => t.exons.head?.map (·.1)) = s :: srest := hs
    have he' : g.txs.filterMap (fun t => t.exons.getLast?.map (·.2)) = e :: erest := he
    simp only [hs', he']
  · unfold geneSpan
    rw [List.flatMap_def]
    exact hspan

theorem majority_of_geneWF (g : Gene) (h : geneWF g = true) (t : Tx) (ht : t ∈ g.txs) :
    majorityStrand (g.txs.map (·.strand)) = some t.strand := by
  obtain ⟨t0, ts, hg, _, hst⟩ := geneWF_facts g h
  rw [hst t ht, hg, List.map_cons]
  apply majorityStrand_const
  intro x hx
  obtain ⟨t', ht', rfl⟩ := List.mem_map.mp hx
  exact hst t' (by rw [hg]; exact List.mem_cons_of_mem _ ht')

end BioCantor.Proofs.Gb

namespace BioCantor.Proofs.Gb
open BioCantor BioCantor.Spec.Qual BioCantor.Spec.Gb BioCantor.Model.Gb

/-! ### qualifiers of the records -/

theorem qualGet_txBase_gene (q0 : QDict) (s : Str) (tag : Option Str) :
    qualGet kGene (txBaseQuals q0 (some s) tag) = [s] := by
  unfold txBaseQuals
  cases tag with
  | none => exact qualGet_dictSet_same _ _ _
  | some t =>
    show qualGet kGene (dictSet (dictSet q0 "gene".toList [s]) "locus_tag".toList [t]) = [s]
    rw [qualGet_dictSet_other _ _ _ _ (by decide)]
    exact qualGet_dictSet_same _ _ _

theorem qualGet_txBase_tag (q0 : QDict) (sym : Option Str) (t : Str) :
    qualGet kLocusTag (txBaseQuals q0 sym (some t)) = [t] := by
  unfold txBaseQuals
  exact qualGet_dictSet_same _ _ _

theorem qualGet_txBase_other (q0 : QDict) (sym tag : Option Str) (k : Str) (h1 : k ≠ "gene".toList)
    (h2 : k ≠ "locus_tag".toList) : qualGet k (txBaseQuals q0 sym tag) = qualGet k q0 := by
  unfold txBaseQuals
  cases sym <;> cases tag <;> simp only [] <;>
    first
    | rfl
    | (rw [qualGet_dictSet_other _ _ _ _ h2, qualGet_dictSet_other _ _ _ _ h1])
    | (rw [qualGet_dictSet_other _ _ _ _ h2])
    | (rw [qualGet_dictSet_other _ _ _ _ h1])

theorem geneSymbolOf_eq (g : Gene) : geneSymbolOf g = geneSymbolWritten g := by
  simp [geneSymbolOf, geneSymbolWritten, truthy_eq_set?]

theorem geneTagOf_eq (g : Gene) : geneTagOf g = geneTagWritten g := by
  simp [geneTagOf, geneTagWritten, truthy_eq_set?, geneSymbolOf_eq]

theorem geneExportQuals_has_id (g : Gene) (q0 : QDict) (h : geneExportQuals g = .ok q0) (v : Str)
    (hv : set? g.geneId = some v) : v ∈ qualGet kGeneId q0 := by
  unfold geneExportQuals at h
  cases hb : biotypeQual g.geneType with
  | error e => simp [hb, bind, Except.bind] at h
  | ok ty =>
    simp only [hb, bind, Except.bind, pure, Except.pure, Except.ok.injEq] at h
    subst h
    apply addIds_has
    simp [truthy_eq_set?, hv, kGeneId]

/-- identifiers of the `gene` record -/
theorem geneRecord_ids (strand : Strand) (bounds : Blk) (q0 : QDict) (g : Gene) (h : geneExportQuals g = .ok q0) :
    idsOk (geneRecord strand bounds q0 g).quals
      [(kGene, geneSymbolWritten g), (kLocusTag, geneTagWritten g), (kGeneId, set? g.geneId)] = true := by
  simp only [idsOk, List.all_cons, List.all_nil, Bool.and_true, Bool.and_eq_true, geneRecord]
  refine ⟨?_, ?_, ?_⟩
  · cases hs : geneSymbolWritten g with
    | none => rfl
    | some s =>
      simp only [hasQual]
      rw [geneSymbolOf_eq, hs, qualGet_txBase_gene]
      simp
  · cases ht : geneTagWritten g with
    | none => rfl
    | some t =>
      simp only [hasQual]
      rw [geneTagOf_eq g, ht, qualGet_txBase_tag]
      simp
  · cases hv : set? g.geneId with
    | none => rfl
    | some v =>
      simp only [hasQual]
      rw [qualGet_txBase_other _ _ _ _ (by decide) (by decide)]
      simpa using geneExportQuals_has_id g q0 h v hv

theorem sameBlocks_refl (bs : List Blk) : sameBlocks bs bs = true := by
  simp [sameBlocks, List.isPerm_iff]

theorem sameBlocks_reverse (bs : List Blk) : sameBlocks bs.reverse bs = true := by
  simp [sameBlocks, List.isPerm_iff, List.reverse_perm]

theorem sameBlocks_parts (rule : WriterRule) (st : Strand) (bs : List Blk) :
    sameBlocks (toBiopythonParts rule st bs) bs = true := by
  unfold toBiopythonParts
  split
  · exact sameBlocks_reverse bs
  · exact sameBlocks_refl bs

theorem hasRecord_of_mem (rs : List Rec) (r : Rec) (hr : r ∈ rs) (ty : Str) (st : Strand) (blocks : List Blk)
    (ids : List (Str × Option Str)) (h1 : r.type = ty) (h2 : r.strand = st) (h3 : sameBlocks r.parts blocks = true)
    (h4 : idsOk r.quals ids = true) : hasRecord rs ty st blocks ids = true := by
  unfold hasRecord
  rw [List.any_eq_true]
  exact ⟨r, hr, by simp [h1, h2, h3, h4]⟩

/-- **the `gene` record**: type `gene`, location = the span of all exons of all transcripts, the gene's strand,
    `/gene`, `/locus_tag` (with the documented fall-backs) and `/gene_id` -/
theorem gene_record_written (cfg : Cfg) (c : Coll) (rs : List Rec) (h : writeModel cfg c = .ok rs)
    (g : Gene) (hg : Item.gene g ∈ c.items) (hwf : geneWF g = true) :
    ∃ t0 sp, g.txs.head? = some t0 ∧ geneSpan g = some sp ∧
      hasRecord rs sGene t0.strand [sp]
        [(kGene, geneSymbolWritten g), (kLocusTag, geneTagWritten g), (kGeneId, set? g.geneId)] = true := by
  obtain ⟨ri, hri, hsub⟩ := writeModel_item cfg c rs h _ hg
  obtain ⟨strand, bounds, q0, rest, hm, hb, hq, _, hshape⟩ := geneToFeatures_shape cfg c.seq g ri hri
  obtain ⟨t0, ts, hgt, _, _⟩ := geneWF_facts g hwf
  obtain ⟨sp, hb', hsp⟩ := geneBounds_eq_span g hwf
  have hstrand : strand = t0.strand := by
    have := majority_of_geneWF g hwf t0 (by rw [hgt]; exact List.mem_cons_self)
    rw [hm] at this
    exact Option.some.inj this
  have hbounds : bounds = sp := by rw [hb] at hb'; exact Option.some.inj hb'
  refine ⟨t0, sp, by simp [hgt], hsp, ?_⟩
  apply hasRecord_of_mem rs (geneRecord strand bounds q0 g) (hsub _ (by rw [hshape]; exact List.mem_cons_self))
  · rfl
  · exact hstrand
  · simp only [geneRecord, hbounds]; exact sameBlocks_refl _
  · exact geneRecord_ids strand bounds q0 g hq

end BioCantor.Proofs.Gb
