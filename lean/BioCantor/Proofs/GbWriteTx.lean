/-
  C12 — T1 for transcripts and CDSs: the transcript-level record and the `CDS` record of the writer model.
-/
import BioCantor.Proofs.GbWriteGene
namespace BioCantor.Proofs.Gb
open BioCantor BioCantor.Spec.Qual BioCantor.Spec.Gb BioCantor.Model.Gb

/-! ### the generated biotype table against the documented alias list -/

theorem lookup_mem {α β} [BEq α] [LawfulBEq α] : ∀ (l : List (α × β)) (k : α) (v : β), l.lookup k = some v → (k, v) ∈ l
  | [], _, _, h => by simp [List.lookup] at h
  | (a, b) :: rest, k, v, h => by
    simp only [List.lookup] at h
    by_cases hk : k == a
    · simp only [hk] at h
      have : k = a := by simpa using hk
      subst this
      simp only [Option.some.injEq] at h
      subst h
      exact List.mem_cons_self
    · have hk' : (k == a) = false := by simpa using hk
      simp only [hk'] at h
      exact List.mem_cons_of_mem _ (lookup_mem rest k v h)

/-- every name of the generated `Biotype` table canonicalises as the documented alias list says, and never to the
    feature key `mRNA` -/
theorem gen_biotypes_canon : ∀ e ∈ Gen.biotypes,
    biotypeName e.1 = some (canonBiotype e.1) ∧ canonBiotype e.1 ≠ "mRNA".toList := by
  decide +kernel

/-- the table look-up of `biotypeName`, for an arbitrary table -/
def nameIn (tbl : List (Str × Int)) (n : Str) : Option Str :=
  match tbl.lookup n with
  | none => none
  | some v => (tbl.find? fun e => e.2 == v).map (·.1)

theorem nameIn_some (tbl : List (Str × Int)) (n c : Str) (h : nameIn tbl n = some c) : ∃ v, (n, v) ∈ tbl := by
  unfold nameIn at h
  cases hl : tbl.lookup n with
  | none => simp [hl] at h
  | some v => exact ⟨v, lookup_mem _ _ _ hl⟩

theorem biotypeName_eq_nameIn (n : Str) : biotypeName n = nameIn Gen.biotypes n := rfl

attribute [local irreducible] biotypeName

theorem biotypeName_spec (n c : Str) (h : biotypeName n = some c) : c = canonBiotype n ∧ c ≠ "mRNA".toList := by
  have h' : nameIn Gen.biotypes n = some c := by rw [← biotypeName_eq_nameIn]; exact h
  obtain ⟨v, hm⟩ := nameIn_some _ _ _ h'
  have := gen_biotypes_canon _ hm
  rw [this.1] at h
  have hc : canonBiotype n = c := Option.some.inj h
  exact ⟨hc.symm, hc ▸ this.2⟩

theorem canonType_ok (ty nm : Option Str) (h : canonType ty = .ok nm) :
    (truthy ty = none ∧ nm = none) ∨ (∃ n c, truthy ty = some n ∧ biotypeName n = some c ∧ nm = some c) := by
  unfold canonType at h
  split at h
  · next ht => exact Or.inl ⟨ht, by simpa using h.symm⟩
  · next n ht =>
    split at h
    · next c hb => exact Or.inr ⟨n, c, ht, hb, by simpa using h.symm⟩
    · exact absurd h (by simp)

theorem contains_tfv (c : Str) (hne : c ≠ "mRNA".toList) :
    transcriptFeatureValues.contains c = rnaFeatureTypes.contains c := by
  have h1 : transcriptFeatureValues = "mRNA".toList :: rnaFeatureTypes := rfl
  rw [h1, List.contains_cons]
  have h2 : (c == "mRNA".toList) = false := by simpa using hne
  rw [h2, Bool.false_or]

theorem featType_eq (t : Tx) (nm : Option Str) (h : canonType t.txType = .ok nm) :
    featTypeOf nm (!t.cds.isEmpty) = txFeatureType t := by
  have hs : set? t.txType = truthy t.txType := (truthy_eq_set? _).symm
  rcases canonType_ok _ _ h with ⟨ht, hnm⟩ | ⟨n, c, ht, hb, hnm⟩
  · rw [hnm]
    unfold txFeatureType
    rw [hs, ht]
    rfl
  · have hsp := biotypeName_spec n c hb
    rw [hnm]
    unfold txFeatureType
    rw [hs, ht]
    show featTypeOf (some c) (!t.cds.isEmpty) =
      if rnaFeatureTypes.contains (canonBiotype n) then canonBiotype n else if t.coding then sMRNA else sMiscRNA
    rw [← hsp.1, ← contains_tfv c hsp.2]
    rfl

end BioCantor.Proofs.Gb

namespace BioCantor.Proofs.Gb
open BioCantor BioCantor.Spec.Qual BioCantor.Spec.Gb BioCantor.Model.Gb

/-! ### shape of one iteration of `transcripts_to_feature` -/

theorem addCds_shape (cfg : Cfg) (seq : Option Str) (t : Tx) (q : QDict) (strand : Strand) (c : Rec)
    (h : addCdsFeature cfg seq t q strand = .ok c) :
    c = cdsRecord cfg t strand (cdsBaseQuals cfg t q) ∨
    ∃ p, cfg.updateTranslations = true ∧ proteinOf cfg.flavor seq t = .ok p ∧
      c = cdsRecord cfg t strand (dictSet (cdsBaseQuals cfg t q) "translation".toList [p]) := by
  unfold addCdsFeature at h
  split at h
  · next hu =>
    split at h
    · next p hp =>
      simp only [Except.ok.injEq] at h
      exact Or.inr ⟨p, hu, hp, h.symm⟩
    · simp only [Except.ok.injEq] at h
      exact Or.inl h.symm
    · exact absurd h (by simp)
  · simp only [Except.ok.injEq] at h
    exact Or.inl h.symm

theorem transcriptToFeatures_shape (cfg : Cfg) (seq : Option Str) (strand : Strand) (sym tag : Option Str)
    (t : Tx) (rt : List Rec) (h : transcriptToFeatures cfg seq strand sym tag t = .ok rt) (hs : t.strand = strand) :
    ∃ q0, txExportQuals t = .ok q0 ∧
      ((txFeatureType t = sMRNA ∧ cfg.flavor = .prokaryotic ∧
          ∃ c, addCdsFeature cfg seq t (txBaseQuals q0 sym tag) strand = .ok c ∧ rt = [c]) ∨
       (txFeatureType t = sMRNA ∧ cfg.flavor = .eukaryotic ∧
          ∃ c, addCdsFeature cfg seq t (txBaseQuals q0 sym tag) strand = .ok c ∧
            rt = [txRecord cfg t (txFeatureType t) strand (txBaseQuals q0 sym tag), c]) ∨
       (txFeatureType t ≠ sMRNA ∧ rt = [txRecord cfg t (txFeatureType t) strand (txBaseQuals q0 sym tag)])) := by
  unfold transcriptToFeatures at h
  split at h
  · exact absurd h (by simp)
  · next q0 hq =>
    refine ⟨q0, hq, ?_⟩
    simp only [] at h
    split at h
    · next hskip => exact absurd hs hskip.1
    · split at h
      · exact absurd h (by simp)
      · next nm hnm =>
        have hft := featType_eq t nm hnm
        rw [hft] at h
        split at h
        · next hA =>
          split at h
          · exact absurd h (by simp)
          · next c hc =>
            simp only [Except.ok.injEq] at h
            exact Or.inl ⟨hA.1, hA.2, c, hc, h.symm⟩
        · next hA =>
          split at h
          · next hB =>
            split at h
            · exact absurd h (by simp)
            · next c hc =>
              simp only [Except.ok.injEq] at h
              exact Or.inr (Or.inl ⟨hB.2, hB.1, c, hc, h.symm⟩)
          · next hB =>
            simp only [Except.ok.injEq] at h
            refine Or.inr (Or.inr ⟨?_, h.symm⟩)
            intro hm
            cases hf : cfg.flavor with
            | prokaryotic => exact hA ⟨hm, hf⟩
            | eukaryotic => exact hB ⟨hf, hm⟩

end BioCantor.Proofs.Gb

namespace BioCantor.Proofs.Gb
open BioCantor BioCantor.Spec.Qual BioCantor.Spec.Gb BioCantor.Model.Gb

/-! ### identifiers of the transcript-level and CDS records -/

theorem idsOk_transfer (q q' : QDict) (ids : List (Str × Option Str))
    (hag : ∀ kv ∈ ids, qualGet kv.1 q' = qualGet kv.1 q) (h : idsOk q ids = true) : idsOk q' ids = true := by
  unfold idsOk at h ⊢
  rw [List.all_eq_true] at h ⊢
  intro kv hkv
  have := h kv hkv
  cases hv : kv.2 with
  | none => simp [hv]
  | some v =>
    simp only [hv, hasQual] at this ⊢
    rw [hag kv hkv]
    exact this

theorem idsOk_append_left (q : QDict) (a b : List (Str × Option Str)) (h : idsOk q (a ++ b) = true) :
    idsOk q a = true := by
  unfold idsOk at h ⊢
  rw [List.all_append, Bool.and_eq_true] at h
  exact h.1

theorem txExportQuals_has (t : Tx) (q0 : QDict) (h : txExportQuals t = .ok q0) (k v : Str)
    (hmem : (k, some v) ∈ [("transcript_id".toList, set? t.txId), ("transcript_name".toList, set? t.txSymbol),
                           ("protein_id".toList, set? t.proteinId)]) : v ∈ qualGet k q0 := by
  unfold txExportQuals at h
  cases hb : biotypeQual t.txType with
  | error e => simp [hb, bind, Except.bind] at h
  | ok ty =>
    simp only [hb, bind, Except.bind, pure, Except.pure, Except.ok.injEq] at h
    subst h
    apply addIds_has
    simp only [List.map_cons, List.map_nil, truthy_eq_set?, List.mem_cons, List.not_mem_nil, or_false] at hmem ⊢
    rcases hmem with h1 | h1 | h1
    · exact Or.inl h1
    · exact Or.inr (Or.inl h1)
    · exact Or.inr (Or.inr (Or.inr h1))

/-- the qualifiers every record of a transcript starts from carry all its identifiers -/
theorem txBase_ids (g : Gene) (t : Tx) (q0 : QDict) (hq : txExportQuals t = .ok q0) :
    idsOk (txBaseQuals q0 (geneSymbolOf g) (geneTagOf g)) (cdsIds g t) = true := by
  simp only [cdsIds, txIds, List.cons_append, List.nil_append, idsOk, List.all_cons, List.all_nil, Bool.and_true,
    Bool.and_eq_true]
  refine ⟨?_, ?_, ?_, ?_, ?_⟩
  · cases hv : set? t.txId with
    | none => rfl
    | some v =>
      simp only [hasQual]
      rw [qualGet_txBase_other _ _ _ _ (by decide) (by decide)]
      simpa using txExportQuals_has t q0 hq _ v (by rw [← hv]; exact List.mem_cons_self)
  · cases hv : set? t.txSymbol with
    | none => rfl
    | some v =>
      simp only [hasQual]
      rw [qualGet_txBase_other _ _ _ _ (by decide) (by decide)]
      simpa using txExportQuals_has t q0 hq _ v
        (by rw [← hv]; exact List.mem_cons_of_mem _ List.mem_cons_self)
  · cases hs : geneSymbolWritten g with
    | none => rfl
    | some s =>
      simp only [hasQual]
      rw [geneSymbolOf_eq, hs, qualGet_txBase_gene]
      simp
  · cases ht : geneTagWritten g with
    | none => rfl
    | some s =>
      simp only [hasQual]
      rw [geneTagOf_eq g, ht, qualGet_txBase_tag]
      simp
  · cases hv : set? t.proteinId with
    | none => rfl
    | some v =>
      simp only [hasQual]
      rw [qualGet_txBase_other _ _ _ _ (by decide) (by decide)]
      simpa using txExportQuals_has t q0 hq _ v
        (by rw [← hv]; exact List.mem_cons_of_mem _ (List.mem_cons_of_mem _ List.mem_cons_self))

theorem txRecord_ids (cfg : Cfg) (g : Gene) (t : Tx) (ft : Str) (strand : Strand) (q0 : QDict)
    (hq : txExportQuals t = .ok q0) :
    idsOk (txRecord cfg t ft strand (txBaseQuals q0 (geneSymbolOf g) (geneTagOf g))).quals (txIds g t) = true := by
  have base := idsOk_append_left _ _ _ (txBase_ids g t q0 hq)
  refine idsOk_transfer _ _ _ ?_ base
  intro kv hkv
  simp only [txRecord]
  have hk : kv.1 ≠ "protein_id".toList ∧ kv.1 ≠ "translation".toList := by
    simp only [txIds, List.mem_cons, List.not_mem_nil, or_false] at hkv
    rcases hkv with h | h | h | h <;> (rw [h]; dsimp only; exact ⟨by decide, by decide⟩)
  rw [qualGet_dictDel_other _ _ _ hk.2, qualGet_dictDel_other _ _ _ hk.1]

theorem cdsIds_keys (g : Gene) (t : Tx) (kv : Str × Option Str) (hkv : kv ∈ cdsIds g t) :
    kv.1 ≠ "codon_start".toList ∧ kv.1 ≠ "translation".toList := by
  simp only [cdsIds, txIds, List.cons_append, List.nil_append, List.mem_cons, List.not_mem_nil, or_false] at hkv
  rcases hkv with h | h | h | h | h <;> (rw [h]; dsimp only; exact ⟨by decide, by decide⟩)

theorem cdsRecord_ids (cfg : Cfg) (seq : Option Str) (g : Gene) (t : Tx) (strand : Strand) (q0 : QDict) (c : Rec)
    (hq : txExportQuals t = .ok q0)
    (hc : addCdsFeature cfg seq t (txBaseQuals q0 (geneSymbolOf g) (geneTagOf g)) strand = .ok c) :
    c.type = sCDS ∧ c.strand = strand ∧ sameBlocks c.parts t.cds = true ∧ idsOk c.quals (cdsIds g t) = true := by
  have base := txBase_ids g t q0 hq
  have hbase : idsOk (cdsBaseQuals cfg t (txBaseQuals q0 (geneSymbolOf g) (geneTagOf g))) (cdsIds g t) = true := by
    refine idsOk_transfer _ _ _ ?_ base
    intro kv hkv
    unfold cdsBaseQuals
    split
    · exact qualGet_dictSet_other _ _ _ _ (cdsIds_keys g t kv hkv).1
    · rfl
  rcases addCds_shape cfg seq t _ strand c hc with rfl | ⟨p, _, _, rfl⟩
  · exact ⟨rfl, rfl, sameBlocks_parts _ _ _, hbase⟩
  · refine ⟨rfl, rfl, sameBlocks_parts _ _ _, idsOk_transfer _ _ _ ?_ hbase⟩
    intro kv hkv
    simp only [cdsRecord]
    exact qualGet_dictSet_other _ _ _ _ (cdsIds_keys g t kv hkv).2

end BioCantor.Proofs.Gb

namespace BioCantor.Proofs.Gb
open BioCantor BioCantor.Spec.Qual BioCantor.Spec.Gb BioCantor.Model.Gb

theorem need_nil (ans : List Rec) (lbl : String) (ty : Str) (st : Strand) (blocks : List Blk)
    (ids : List (Str × Option Str)) (h : hasRecord ans ty st blocks ids = true) : need ans lbl ty st blocks ids = [] := by
  unfold need; rw [h]; rfl

/-- **transcript-level and CDS records** of one transcript of a well-formed gene -/
theorem transcript_records_written (cfg : Cfg) (c : Coll) (rs : List Rec) (h : writeModel cfg c = .ok rs)
    (g : Gene) (hg : Item.gene g ∈ c.items) (hwf : geneWF g = true) (t : Tx) (ht : t ∈ g.txs) :
    (if txFeatureType t == sMRNA && cfg.flavor == .prokaryotic then []
     else need rs "transcript" (txFeatureType t) t.strand t.exons (txIds g t)) ++
    (if t.writesCds then need rs "cds" sCDS t.strand t.cds (cdsIds g t) else []) = [] := by
  obtain ⟨ri, hri, hsub⟩ := writeModel_item cfg c rs h _ hg
  obtain ⟨strand, bounds, q0g, rest, hm, _, _, hmap, hshape⟩ := geneToFeatures_shape cfg c.seq g ri hri
  have hstrand : t.strand = strand := by
    have := majority_of_geneWF g hwf t ht
    rw [hm] at this
    exact (Option.some.inj this).symm
  obtain ⟨rt, hrt, hok⟩ := mapMR_mem _ _ _ hmap t ht
  have hin : ∀ r ∈ rt, r ∈ rs := fun r hr =>
    hsub r (by rw [hshape]; exact List.mem_cons_of_mem _ (List.mem_flatten.mpr ⟨rt, hrt, hr⟩))
  obtain ⟨q0, hq, hcases⟩ := transcriptToFeatures_shape cfg c.seq strand _ _ t rt hok hstrand
  have hcdsRec : ∀ cr, addCdsFeature cfg c.seq t (txBaseQuals q0 (geneSymbolOf g) (geneTagOf g)) strand = .ok cr →
      cr ∈ rt → need rs "cds" sCDS t.strand t.cds (cdsIds g t) = [] := by
    intro cr hcr hmem
    obtain ⟨h1, h2, h3, h4⟩ := cdsRecord_ids cfg c.seq g t strand q0 cr hq hcr
    exact need_nil _ _ _ _ _ _ (hasRecord_of_mem rs cr (hin cr hmem) _ _ _ _ h1 (h2.trans hstrand.symm) h3 h4)
  have htxRec : txRecord cfg t (txFeatureType t) strand (txBaseQuals q0 (geneSymbolOf g) (geneTagOf g)) ∈ rt →
      need rs "transcript" (txFeatureType t) t.strand t.exons (txIds g t) = [] := by
    intro hmem
    exact need_nil _ _ _ _ _ _ (hasRecord_of_mem rs _ (hin _ hmem) _ _ _ _ rfl hstrand.symm
      (sameBlocks_parts _ _ _) (txRecord_ids cfg g t _ strand q0 hq))
  rcases hcases with ⟨hft, hfl, cr, hcr, hrt'⟩ | ⟨hft, hfl, cr, hcr, hrt'⟩ | ⟨hft, hrt'⟩
  · have h1 : (txFeatureType t == sMRNA && cfg.flavor == .prokaryotic) = true := by simp [hft, hfl]
    rw [h1]
    simp only [if_true, List.nil_append]
    split
    · exact hcdsRec cr hcr (by rw [hrt']; exact List.mem_cons_self)
    · rfl
  · have h1 : (txFeatureType t == sMRNA && cfg.flavor == .prokaryotic) = false := by simp [hfl]
    rw [h1]
    simp only [Bool.false_eq_true, if_false]
    rw [htxRec (by rw [hrt']; exact List.mem_cons_self), List.nil_append]
    split
    · exact hcdsRec cr hcr (by rw [hrt']; exact List.mem_cons_of_mem _ List.mem_cons_self)
    · rfl
  · have h1 : (txFeatureType t == sMRNA && cfg.flavor == .prokaryotic) = false := by
      have : (txFeatureType t == sMRNA) = false := by simpa using hft
      rw [this, Bool.false_and]
    rw [h1]
    simp only [Bool.false_eq_true, if_false]
    rw [htxRec (by rw [hrt']; exact List.mem_cons_self), List.nil_append]
    have h2 : t.writesCds = false := by
      unfold Tx.writesCds
      have : (txFeatureType t == sMRNA) = false := by simpa using hft
      rw [this, Bool.and_false]
    rw [h2]
    rfl

theorem flatMap_eq_nil' {α β} (l : List α) (f : α → List β) (h : ∀ a ∈ l, f a = []) : l.flatMap f = [] := by
  induction l with
  | nil => rfl
  | cons a as ih =>
    rw [List.flatMap_cons, h a List.mem_cons_self, ih (fun x hx => h x (List.mem_cons_of_mem _ hx))]
    rfl

/-- **T1, genes**: every structural clause of a well-formed gene holds on the written feature list -/
theorem gene_struct_ok (cfg : Cfg) (c : Coll) (rs : List Rec) (h : writeModel cfg c = .ok rs)
    (g : Gene) (hg : Item.gene g ∈ c.items) (hwf : geneWF g = true) :
    geneStructClauses cfg.flavor rs g = [] := by
  obtain ⟨t0, sp, ht0, hsp, hrec⟩ := gene_record_written cfg c rs h g hg hwf
  unfold geneStructClauses
  rw [ht0, hsp]
  simp only []
  rw [need_nil _ _ _ _ _ _ hrec, List.nil_append]
  apply flatMap_eq_nil'
  intro t ht
  exact transcript_records_written cfg c rs h g hg hwf t ht

end BioCantor.Proofs.Gb
