/-
  C12 — facts about the qualifier dictionaries of the writer model (`dictAdd`, `dictSet`, `dictDel`, `addIds`)
  as seen through the spec's `qualGet` / `hasQual`.
-/
import BioCantor.Model.GenbankWrite
namespace BioCantor.Proofs.Gb
open BioCantor BioCantor.Spec.Qual BioCantor.Spec.Gb BioCantor.Model.Gb

theorem qualGet_dictSet_same (d : QDict) (k : Str) (vs : List Str) : qualGet k (dictSet d k vs) = vs := by
  induction d with
  | nil => simp [dictSet, qualGet]
  | cons e es ih =>
    simp only [dictSet]
    split
    · next h => simp [qualGet, h]
    · next h => simp [qualGet, h, ih]

theorem qualGet_dictSet_other (d : QDict) (k k' : Str) (vs : List Str) (h : k' ≠ k) :
    qualGet k' (dictSet d k vs) = qualGet k' d := by
  induction d with
  | nil => simp [dictSet, qualGet, Ne.symm h]
  | cons e es ih =>
    simp only [dictSet]
    split
    · next he =>
      have : ¬ e.1 = k' := by rw [he]; exact Ne.symm h
      simp [qualGet, he, Ne.symm h]
    · next he =>
      by_cases hk : e.1 = k'
      · simp [qualGet, hk]
      · simp [qualGet, hk, ih]

theorem mem_setAdd (vs : List Str) (v x : Str) : x ∈ setAdd vs v ↔ x ∈ vs ∨ x = v := by
  unfold setAdd
  split
  · next h =>
    constructor
    · intro hx; exact Or.inl hx
    · rintro (hx | hx)
      · exact hx
      · subst hx; simpa using h
  · simp

theorem qualGet_dictAdd_same (d : QDict) (k v : Str) : v ∈ qualGet k (dictAdd d k v) := by
  induction d with
  | nil => simp [dictAdd, qualGet]
  | cons e es ih =>
    simp only [dictAdd]
    split
    · next h => simp [qualGet, h, mem_setAdd]
    · next h => simp [qualGet, h, ih]

theorem qualGet_dictAdd_mono (d : QDict) (k v k' x : Str) (h : x ∈ qualGet k' d) : x ∈ qualGet k' (dictAdd d k v) := by
  induction d with
  | nil => simp [qualGet] at h
  | cons e es ih =>
    simp only [dictAdd]
    split
    · next he =>
      by_cases hk : e.1 = k'
      · simp only [qualGet, hk, if_true] at h ⊢
        exact (mem_setAdd _ _ _).mpr (Or.inl h)
      · simp only [qualGet, hk, if_false] at h ⊢
        exact h
    · next he =>
      by_cases hk : e.1 = k'
      · simp only [qualGet, hk, if_true] at h ⊢
        exact h
      · simp only [qualGet, hk, if_false] at h ⊢
        exact ih h

theorem qualGet_dictDel_other (d : QDict) (k k' : Str) (h : k' ≠ k) : qualGet k' (dictDel d k) = qualGet k' d := by
  induction d with
  | nil => simp [dictDel, qualGet]
  | cons e es ih =>
    have ih' : qualGet k' (List.filter (fun e => decide (e.1 ≠ k)) es) = qualGet k' es := ih
    show qualGet k' (List.filter (fun e => decide (e.1 ≠ k)) (e :: es)) = qualGet k' (e :: es)
    rw [List.filter_cons]
    by_cases he : e.1 = k
    · have hk : ¬ e.1 = k' := by rw [he]; exact Ne.symm h
      have hd : decide (e.1 ≠ k) = false := by simp [he]
      rw [hd]
      simp only [Bool.false_eq_true, if_false, qualGet, hk]
      exact ih'
    · have hd : decide (e.1 ≠ k) = true := by simp [he]
      rw [hd]
      simp only [if_true, qualGet]
      by_cases hk : e.1 = k'
      · simp [hk]
      · simp only [hk, if_false]; exact ih'

/-- every identifier that is set (truthy) is among the values of its key after `addIds` -/
theorem addIds_mono (d : QDict) (ids : List (Str × Option Str)) (k x : Str) (h : x ∈ qualGet k d) :
    x ∈ qualGet k (addIds d ids) := by
  unfold addIds
  induction ids generalizing d with
  | nil => simpa using h
  | cons kv rest ih =>
    simp only [List.foldl_cons]
    apply ih
    cases hkv : truthy kv.2 with
    | none => simpa using h
    | some v => exact qualGet_dictAdd_mono _ _ _ _ _ h

theorem addIds_has (d : QDict) (ids : List (Str × Option Str)) (k v : Str)
    (hmem : (k, some v) ∈ ids.map (fun kv => (kv.1, truthy kv.2))) : v ∈ qualGet k (addIds d ids) := by
  unfold addIds
  induction ids generalizing d with
  | nil => simp at hmem
  | cons kv rest ih =>
    simp only [List.foldl_cons]
    simp only [List.map_cons, List.mem_cons] at hmem
    rcases hmem with h | h
    · have h1 : kv.1 = k := (Prod.mk.inj h).1.symm
      have h2 : truthy kv.2 = some v := (Prod.mk.inj h).2.symm
      rw [h2]
      have := qualGet_dictAdd_same d kv.1 v
      rw [h1] at this ⊢
      exact addIds_mono _ rest k v this
    · exact ih _ h

theorem truthy_eq_set? (o : Option Str) : truthy o = set? o := by
  cases o <;> simp [truthy, set?]

theorem hasQual_iff (q : QDict) (k v : Str) : hasQual q k v = true ↔ v ∈ qualGet k q := by
  simp [hasQual]

end BioCantor.Proofs.Gb
