/-
  C04, one level: `liftOnce c p` (Parent.lift_child_location_to_parent) against the spec's
  `throughPlacement`: strand composition, well-formedness, bases as a multiset — and in order for
  non-overlapping directional layouts (monotonicity argument) — plus the refusal cases.
-/
import BioCantor.Proofs.LiftDefs
import BioCantor.Proofs.RelInterval
import BioCantor.Proofs.PointMaps
namespace BioCantor.Proofs
open BioCantor BioCantor.Spec BioCantor.Model

/-! ### observers -/

theorem locBlocks_eq (x : Location) : locBlocks x = locationBlocks x := by cases x <;> rfl

theorem wf_iff (x : Location) : WF x ↔ wfLocation x = true := by
  cases x <;> simp [WF, wfLocation]

theorem wfLocation_valid (x : Location) (h : wfLocation x = true) : ∀ b ∈ locationBlocks x, b.1 ≤ b.2 := by
  cases x with
  | single b s => simpa [wfLocation, locationBlocks] using h
  | compound l =>
    have : l.Canon := by simpa [wfLocation] using h
    exact (blocksValid_iff _).mp this.2.1
  | empty => simp [locationBlocks]

theorem locLen_eq (x : Location) : locLen x = blocksLen (locationBlocks x) := by
  cases x <;> simp [locLen, locationBlocks, blocksLen, Loc.len]

theorem locationBases_eq (x : Location) (s : Strand) (h : locationStrand? x = some s) :
    locationBases x = bases ⟨locationBlocks x, s⟩ := by
  cases x with
  | single b s' => simp only [locationStrand?, Option.some.injEq] at h; subst h; rfl
  | compound l => simp only [locationStrand?, Option.some.injEq] at h; subst h; rfl
  | empty => simp [locationStrand?] at h

theorem locationStrand_of_ne (x : Location) (h : x ≠ .empty) : locationStrand? x = some (strandOf x) := by
  cases x <;> simp_all [locationStrand?, strandOf]

theorem locStrand_of_ne (x : Location) (h : x ≠ .empty) : locStrand x = .ok (strandOf x) := by
  cases x <;> simp_all [locStrand, locationStrand?, strandOf] <;> rfl

theorem toLoc_of_ne (x : Location) (h : x ≠ .empty) : toLoc x = some ⟨locationBlocks x, strandOf x⟩ := by
  cases x <;> simp_all [toLoc, locationBlocks, strandOf, locationStrand?]

theorem bases_perm_basesPlus (bs : List Blk) (s : Strand) : (bases ⟨bs, s⟩).Perm (basesPlus bs) := by
  rw [bases_mk]; split
  · exact List.reverse_perm _
  · exact List.Perm.refl _

theorem locationBases_length (x : Location) : (locationBases x).length = locLen x := by
  cases x with
  | single b s => simp [locationBases, bases_length, locLen, Loc.len, blocksLen]
  | compound l => simp [locationBases, bases_length, locLen]
  | empty => rfl

/-! ### `mapM` over `Option` on index look-ups -/

theorem mapM_getElem? (B : List Nat) (xs : List Nat) :
    xs.mapM (fun i => B[i]?) =
      if ∀ i ∈ xs, i < B.length then some (xs.map (fun i => B.getD i 0)) else none := by
  induction xs with
  | nil => simp
  | cons x xs ih =>
    rw [List.mapM_cons, ih]
    by_cases hxs : ∀ i ∈ xs, i < B.length
    · rw [if_pos hxs]
      by_cases hx : x < B.length
      · rw [if_pos (by intro i hi; rcases List.mem_cons.mp hi with rfl | h; exact hx; exact hxs i h)]
        simp [hx, List.getD_eq_getElem?_getD]
      · rw [if_neg (fun h => hx (h x (by simp)))]
        have : B[x]? = none := by simp; omega
        simp [this]
    · rw [if_neg hxs, if_neg (fun h => hxs (fun i hi => h i (by simp [hi])))]
      cases B[x]? <;> rfl

theorem throughPlacement_eq (p : Location) (xs : List Nat) :
    throughPlacement p xs =
      match toLoc p with
      | none => none
      | some pl => if pl.strand = .unstranded then none
                   else if ∀ i ∈ xs, i < pl.len then some (xs.map (fun i => (bases pl).getD i 0)) else none := by
  unfold throughPlacement
  cases toLoc p with
  | none => rfl
  | some pl => simp only [mapM_getElem?, bases_length]

end BioCantor.Proofs
