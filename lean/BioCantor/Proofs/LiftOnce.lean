/-
  C04, one level: `liftOnce c p` (Parent.lift_child_location_to_parent) against the spec's
  `throughPlacement`: strand composition, well-formedness, bases as a multiset — and in order for
  non-overlapping directional layouts (monotonicity argument) — plus the refusal cases.
-/
import BioCantor.Proofs.LiftDefs
import BioCantor.Proofs.RelInterval
import BioCantor.Proofs.PointMaps
namespace BioCantor.Proofs.Lift
open BioCantor BioCantor.Spec BioCantor.Model

/-! ### observers -/

theorem locBlocks_eq (x : Location) : locBlocks x = locationBlocks x := by cases x <;> rfl

theorem wf_iff (x : Location) : WF x ↔ wfLocation x = true := by
  cases x <;> simp [WF, wfLocation]

theorem wfLocation_valid (x : Location) (h : wfLocation x = true) : ∀ b ∈ locationBlocks x, b.1 ≤ b.2 := by
  cases x with
  | single b s => simpa [wfLocation, locationBlocks] using h
  | compound l =>
    have : l.Canon := by simpa [wfLocation] using h
    exact (blocksValid_iff _).mp this.2.1
  | empty => simp [locationBlocks]

theorem locLen_eq (x : Location) : locLen x = blocksLen (locationBlocks x) := by
  cases x <;> simp [locLen, locationBlocks, blocksLen, Loc.len]

theorem locationBases_eq (x : Location) (s : Strand) (h : locationStrand? x = some s) :
    locationBases x = bases ⟨locationBlocks x, s⟩ := by
  cases x with
  | single b s' => simp only [locationStrand?, Option.some.injEq] at h; subst h; rfl
  | compound l => simp only [locationStrand?, Option.some.injEq] at h; subst h; rfl
  | empty => simp [locationStrand?] at h

theorem locationStrand_of_ne (x : Location) (h : x ≠ .empty) : locationStrand? x = some (strandOf x) := by
  cases x <;> simp_all [locationStrand?, strandOf]

theorem locStrand_of_ne (x : Location) (h : x ≠ .empty) : locStrand x = .ok (strandOf x) := by
  cases x <;> simp_all [locStrand, locationStrand?, strandOf] <;> rfl

theorem toLoc_of_ne (x : Location) (h : x ≠ .empty) : toLoc x = some ⟨locationBlocks x, strandOf x⟩ := by
  cases x <;> simp_all [toLoc, locationBlocks, strandOf, locationStrand?]

theorem bases_perm_basesPlus (bs : List Blk) (s : Strand) : (bases ⟨bs, s⟩).Perm (basesPlus bs) := by
  rw [bases_mk]; split
  · exact List.reverse_perm _
  · exact List.Perm.refl _

theorem locationBases_length (x : Location) : (locationBases x).length = locLen x := by
  cases x with
  | single b s => simp [locationBases, bases_length, locLen, Loc.len, blocksLen]
  | compound l => simp [locationBases, bases_length, locLen]
  | empty => rfl

/-! ### `mapM` over `Option` on index look-ups -/

theorem mapM_getElem? (B : List Nat) (xs : List Nat) :
    xs.mapM (fun i => B[i]?) =
      if ∀ i ∈ xs, i < B.length then some (xs.map (fun i => B.getD i 0)) else none := by
  induction xs with
  | nil => simp
  | cons x xs ih =>
    rw [List.mapM_cons, ih]
    by_cases hxs : ∀ i ∈ xs, i < B.length
    · rw [if_pos hxs]
      by_cases hx : x < B.length
      · rw [if_pos (by intro i hi; rcases List.mem_cons.mp hi with rfl | h; exact hx; exact hxs i h)]
        simp [hx, List.getD_eq_getElem?_getD]
      · rw [if_neg (fun h => hx (h x (by simp)))]
        have : B[x]? = none := by simp; omega
        simp [this]
    · rw [if_neg hxs, if_neg (fun h => hxs (fun i hi => h i (by simp [hi])))]
      cases B[x]? <;> rfl

theorem throughPlacement_eq (p : Location) (xs : List Nat) :
    throughPlacement p xs =
      match toLoc p with
      | none => none
      | some pl => if pl.strand = .unstranded then none
                   else if ∀ i ∈ xs, i < pl.len then some (xs.map (fun i => (bases pl).getD i 0)) else none := by
  unfold throughPlacement
  cases toLoc p with
  | none => rfl
  | some pl => simp only [mapM_getElem?, bases_length]

/-! ### `_union_preserve_overlaps` and its `reduce` -/

/-- a lifted piece: non-empty type, given strand, constructor invariants -/
def Good (st : Strand) (x : Location) : Prop := locationStrand? x = some st ∧ wfLocation x = true

theorem basesPlus_ne_nil_of_blocks {bs : List Blk} (h : basesPlus bs ≠ []) : bs ≠ [] := by
  intro hn; rw [hn] at h; exact h rfl

theorem unionPreserve_ok (st : Strand) (a b : Location) (ha : Good st a) (hb : Good st b)
    (hne : basesPlus (locationBlocks a) ≠ []) :
    ∃ m, unionPreserve a b = .ok m ∧ Good st m ∧
      (basesPlus (locationBlocks m)).Perm (basesPlus (locationBlocks a) ++ basesPlus (locationBlocks b)) ∧
      (∀ x ∈ locationBlocks m, x.1 < x.2) := by
  have hsa : locStrand a = .ok st := by
    cases a <;> simp_all [Good, locationStrand?, locStrand] <;> rfl
  have hsb : locStrand b = .ok st := by
    cases b <;> simp_all [Good, locationStrand?, locStrand] <;> rfl
  generalize hA : locationBlocks a = A at *
  generalize hB : locationBlocks b = B at *
  have hAv : ∀ x ∈ A, x.1 ≤ x.2 := hA ▸ wfLocation_valid a ha.2
  have hBv : ∀ x ∈ B, x.1 ≤ x.2 := hB ▸ wfLocation_valid b hb.2
  have hABne : A ++ B ≠ [] := by
    have := basesPlus_ne_nil_of_blocks hne
    simp [this]
  have hABv : ∀ x ∈ A ++ B, x.1 ≤ x.2 := by
    intro x hx
    rcases List.mem_append.mp hx with h | h
    · exact hAv x h
    · exact hBv x h
  generalize hS1 : sortBlocks st (A ++ B) = S1
  have hS1p : S1.Perm (A ++ B) := hS1 ▸ sortBlocks_perm st _
  have hS1v : ∀ x ∈ S1, x.1 ≤ x.2 := hS1 ▸ sortBlocks_valid st hABv
  have hS1s : sortBlocks st S1 = S1 := by
    rw [← hS1]; exact List.mergeSort_of_pairwise (sortBlocks_pairwise st _)
  have hnb_b : basesPlus (combStart S1) = basesPlus S1 := combStart_bases S1 hS1v
  have hnb_pos := normal_pos _ (combStart_normal S1)
  have hchain : (basesPlus (combStart S1)).Perm (basesPlus A ++ basesPlus B) := by
    rw [hnb_b, ← basesPlus_append]; exact basesPlus_perm hS1p
  have hnb_ne : combStart S1 ≠ [] := by
    intro h; rw [h] at hchain
    have := hchain.length_eq
    simp only [basesPlus, List.length_nil, List.length_append] at this
    have : basesPlus A = [] := List.eq_nil_of_length_eq_zero (by omega)
    exact hne this
  have hopt := optimizeLoc_true_ok S1 st hS1s hnb_ne
  generalize combStart S1 = nb at *
  have hnb_v : ∀ x ∈ nb, x.1 ≤ x.2 := fun x hx => Nat.le_of_lt (hnb_pos x hx)
  refine ⟨toSingleIfOne ⟨sortBlocks st nb, st⟩, ?_, ⟨locationStrand_toSingleIfOne _, ?_⟩, ?_, ?_⟩
  · unfold unionPreserve
    simp only [hsa, hsb, bind, Except.bind, locBlocks_eq, hA, hB, ne_eq, not_true, if_false,
      mkCompoundLoc_ok st hABne hABv, hS1, hopt]
  · exact wfLocation_toSingleIfOne _ (canon_sortBlocks st hnb_ne hnb_v)
  · rw [locationBlocks_toSingleIfOne]
    exact (basesPlus_perm (sortBlocks_perm st nb)).trans hchain
  · rw [locationBlocks_toSingleIfOne]
    intro x hx
    exact hnb_pos x ((sortBlocks_perm st nb).mem_iff.mp hx)

theorem reduceUnion_ok (st : Strand) (xs : List Location) : ∀ (acc : Location), Good st acc →
    (∀ x ∈ xs, Good st x) → basesPlus (locationBlocks acc) ≠ [] →
    ∃ m, reduceUnion acc xs = .ok m ∧ Good st m ∧
      (basesPlus (locationBlocks m)).Perm
        (basesPlus (locationBlocks acc) ++ xs.flatMap (fun x => basesPlus (locationBlocks x))) ∧
      ((∀ x ∈ locationBlocks acc, x.1 < x.2) → ∀ x ∈ locationBlocks m, x.1 < x.2) ∧
      (xs = [] → m = acc) := by
  induction xs with
  | nil =>
    intro acc hacc _ _
    exact ⟨acc, rfl, hacc, by simp, fun h => h, fun _ => rfl⟩
  | cons x xs ih =>
    intro acc hacc hxs hne
    obtain ⟨u, hu, hgu, hpu, hposu⟩ := unionPreserve_ok st acc x hacc (hxs x (by simp)) hne
    have hune : basesPlus (locationBlocks u) ≠ [] := by
      intro h; rw [h] at hpu
      have := hpu.length_eq
      simp only [List.length_nil, List.length_append] at this
      exact hne (List.eq_nil_of_length_eq_zero (by omega))
    obtain ⟨m, hm, hgm, hpm, hposm, _⟩ := ih u hgu (fun y hy => hxs y (by simp [hy])) hune
    refine ⟨m, ?_, hgm, ?_, fun _ => hposm hposu, by simp⟩
    · simp only [reduceUnion, bind, Except.bind, hu, hm]
    · refine hpm.trans ?_
      simp only [List.flatMap_cons, ← List.append_assoc]
      exact hpu.append_right _

/-! ### one lifted block -/

theorem compose_comm (a b : Strand) : compose a b = compose b a := by cases a <;> cases b <;> rfl

theorem compoundRel_one (q : Blk) (st : Strand) (hst : st = .plus ∨ st = .minus) (s e : Nat) (rst : Strand)
    (hse : s < e) (he : e ≤ q.len) :
    compoundRelInterval ⟨[q], st⟩ s e rst = .ok (.single (subBlk st q s e) (strandRelativeTo rst st)) := by
  have hscanB : scanBlocks ⟨[q], st⟩ = .ok [q] := by
    rcases hst with h | h <;> simp [scanBlocks, assertDirectional, h, bind, Except.bind, pure, Except.pure]
  have hwalk : relWalk st [q] s (e - s) = [subBlk st q s e] := by
    rw [relWalk_last st q [] s (e - s) (by omega) (by omega)]
    congr 2; omega
  have hin := subBlk_inside st q s e hse he
  generalize subBlk st q s e = x at *
  have hxv : ∀ y ∈ [x], y.1 ≤ y.2 := by intro y hy; simp at hy; subst hy; omega
  have hsort : sortBlocks st [x] = [x] := by simp [sortBlocks]
  have hcs : combStart [x] = [x] := by
    have : ¬ (x.2 - x.1 = 0) := by omega
    simp [combStart, comb, this]
  have hopt := optimizeLoc_true_ok [x] st hsort (by rw [hcs]; simp)
  rw [hcs, hsort] at hopt
  unfold compoundRelInterval
  have c1 : ¬ ((s : Int) > (e : Int)) := by omega
  have c2 : ¬ ((s : Int) < 0) := by omega
  have c3 : ¬ ((e : Int) > ((Loc.len ⟨[q], st⟩ : Nat) : Int)) := by simp [Loc.len, blocksLen]; omega
  have c4 : ¬ ((s : Int) = (e : Int)) := by omega
  have t1 : ((s : Int)).toNat = s := by simp
  have t2 : ((e : Int) - (s : Int)).toNat = e - s := by omega
  rw [if_neg c1, if_neg c2, if_neg c3, if_neg c4, hscanB]
  simp only [bind, Except.bind, t1, t2, hwalk, mkCompoundLoc_ok st (by simp : [x] ≠ []) hxv, hsort, hopt]
  by_cases hns : strandRelativeTo rst st = st
  · simp [hns, toSingleIfOne, pure, Except.pure]
  · simp [hns, toSingleIfOne, resetStrand, pure, Except.pure]

theorem relInterval_piece (p : Location) (hp : WF p) (pl : Loc) (hpl : toLoc p = some pl)
    (hdir : pl.strand ≠ .unstranded) (s e : Nat) (hse : s < e) (he : e ≤ pl.len) (rst : Strand) :
    ∃ m, relInterval p (s : Int) (e : Int) rst = .ok m ∧ Good (compose rst pl.strand) m ∧
      (basesPlus (locationBlocks m)).Perm (((bases pl).drop s).take (e - s)) ∧
      (nonOverlap pl.blocks = true → ∀ x ∈ locationBlocks m, x.1 < x.2) ∧
      (pl.blocks.length ≤ 1 → (locationBlocks m).length ≤ 1) := by
  cases p with
  | empty => simp [toLoc] at hpl
  | single b st =>
    simp only [toLoc, Option.some.injEq] at hpl
    subst hpl
    simp only at hdir he
    have hst : st = .plus ∨ st = .minus := by cases st <;> simp at hdir ⊢
    have he' : e ≤ b.len := by simpa [Loc.len, blocksLen] using he
    refine ⟨_, by simpa [relInterval] using singleRel_ok b st hst s e rst (by omega) he', ⟨?_, ?_⟩, ?_, ?_, ?_⟩
    · simp [locationStrand?, strandRelativeTo_eq_compose]
    · simpa [wfLocation] using subBlk_valid st b s e (by omega)
    · have hrd : rd st (subBlk st b s e) = ((bases ⟨[b], st⟩).drop s).take (e - s) := by
        rw [bases_single b st hdir, rd_subBlk st b s e (by omega) he']
      rw [← hrd]
      simpa [locationBlocks] using (readScan_perm_basesPlus st [subBlk st b s e]).symm
    · intro _ x hx
      simp only [locationBlocks, List.mem_singleton] at hx
      subst hx
      exact (subBlk_inside st b s e hse he').2.1
    · intro _; simp [locationBlocks]
  | compound loc =>
    simp only [toLoc, Option.some.injEq] at hpl
    subst hpl
    obtain ⟨L, st⟩ := loc
    simp only at hdir he
    have hLv : ∀ b ∈ L, b.1 ≤ b.2 := (blocksValid_iff L).mp hp.2.1
    obtain ⟨F, hF, hcanon, hperm, hex⟩ := compoundRel_pos L st s e rst hdir hse he
    refine ⟨_, by simpa [relInterval] using hF, ⟨?_, ?_⟩, ?_, ?_, ?_⟩
    · simp [locationStrand_toSingleIfOne, strandRelativeTo_eq_compose']
    · exact wfLocation_toSingleIfOne _ hcanon
    · simpa only [locationBlocks_toSingleIfOne] using hperm
    · intro hno
      rw [locationBlocks_toSingleIfOne]
      exact normal_pos _ (hex hno hLv).2
    · intro hlen
      have hst : st = .plus ∨ st = .minus := by cases st <;> simp at hdir ⊢
      match L, hlen, hp.1, he, hF with
      | [q], _, _, he, hF =>
        have he' : e ≤ q.len := by simpa [Loc.len, blocksLen] using he
        rw [compoundRel_one q st hst s e rst hse he'] at hF
        have := Except.ok.inj hF
        rw [← this]; simp [locationBlocks]

theorem relInterval_out (p : Location) (rs re : Int) (rst : Strand) (h : relintDomain p rs re = false) :
    ans (relInterval p rs re rst) = none := by
  cases p with
  | empty => rfl
  | single b st => exact single_out b st rs re rst h
  | compound l => exact compound_out l rs re rst h

theorem slice_eq_map (B : List Nat) (b : Blk) (hb : b.2 ≤ B.length) :
    (B.drop b.1).take (b.2 - b.1) = (blkAsc b).map (fun i => B.getD i 0) := by
  apply List.ext_getElem
  · simp [blkAsc]; omega
  · intro i h1 h2
    simp only [blkAsc, List.length_map, List.length_range'] at h2
    simp [blkAsc, List.getD_eq_getElem?_getD]
    rw [List.getElem?_eq_getElem (by omega)]
    simp

theorem toLoc_len (p : Location) (pl : Loc) (h : toLoc p = some pl) : locLen p = pl.len := by
  cases p <;> simp [toLoc] at h <;> subst h <;> simp [locLen, Loc.len, blocksLen]

theorem liftBlocks_ok (p : Location) (hp : WF p) (pl : Loc) (hpl : toLoc p = some pl)
    (hdir : pl.strand ≠ .unstranded) (rst : Strand) (bs : List Blk)
    (hin : ∀ b ∈ bs, b.1 < b.2 ∧ b.2 ≤ pl.len) :
    ∃ ms, liftBlocks p rst bs = .ok ms ∧ (∀ x ∈ ms, Good (compose rst pl.strand) x) ∧
      (ms.flatMap (fun x => basesPlus (locationBlocks x))).Perm
        ((basesPlus bs).map (fun i => (bases pl).getD i 0)) ∧
      (bs = [] → ms = []) := by
  induction bs with
  | nil => exact ⟨[], rfl, by simp, by simp [basesPlus], fun _ => rfl⟩
  | cons b bs ih =>
    obtain ⟨hb1, hb2⟩ := hin b (by simp)
    obtain ⟨x, hx, hgx, hpx, _⟩ := relInterval_piece p hp pl hpl hdir b.1 b.2 hb1 hb2 rst
    obtain ⟨ms, hms, hgms, hpms, _⟩ := ih (fun y hy => hin y (by simp [hy]))
    refine ⟨x :: ms, ?_, ?_, ?_, by simp⟩
    · simp only [liftBlocks, bind, Except.bind, hx, hms]; rfl
    · intro y hy
      rcases List.mem_cons.mp hy with rfl | h
      · exact hgx
      · exact hgms y h
    · simp only [List.flatMap_cons, basesPlus, List.map_append]
      rw [← slice_eq_map (bases pl) b (by rw [bases_length]; exact hb2)]
      exact hpx.append hpms

theorem liftBlocks_fail (p : Location) (rst : Strand) (bs : List Blk)
    (h : ∃ b ∈ bs, relintDomain p (b.1 : Int) (b.2 : Int) = false) :
    ans (liftBlocks p rst bs) = none := by
  induction bs with
  | nil => simp at h
  | cons b bs ih =>
    simp only [liftBlocks, bind, Except.bind]
    cases hx : relInterval p (b.1 : Int) (b.2 : Int) rst with
    | error e => rfl
    | ok x =>
      simp only []
      obtain ⟨b', hb', hd⟩ := h
      rcases List.mem_cons.mp hb' with rfl | hmem
      · have := relInterval_out p _ _ rst hd
        rw [hx] at this; simp at this
      · have := ih ⟨b', hmem, hd⟩
        cases hy : liftBlocks p rst bs with
        | error e => rfl
        | ok ys => rw [hy] at this; simp at this

theorem basesPlus_filter_pos (bs : List Blk) :
    basesPlus (bs.filter (fun b => b.len > 0)) = basesPlus bs := by
  induction bs with
  | nil => rfl
  | cons b bs ih =>
    by_cases h : b.len > 0
    · simp [h, basesPlus, ih]
    · have : blkAsc b = [] := by unfold Blk.len at h; simp [blkAsc]; omega
      simp [h, basesPlus, ih, this]

theorem blocksLen_eq_length (bs : List Blk) : blocksLen bs = (basesPlus bs).length := by
  rw [basesPlus_length]

theorem liftOnce_unfold (c p : Location) (hce : c ≠ .empty) (hlc : 0 < locLen c) (hlp : 0 < locLen p) :
    liftOnce c p =
      (match (locationBlocks c).filter (fun b => b.len > 0) with
      | [] => throw .TypeError
      | b :: bs => do
        let first ← relInterval p b.1 b.2 (strandOf c)
        let rest ← liftBlocks p (strandOf c) bs
        reduceUnion first rest) := by
  unfold liftOnce
  have h1 : ¬ (locLen c = 0) := by omega
  have h2 : ¬ (locLen p = 0) := by omega
  simp only [h1, h2, if_false, locStrand_of_ne c hce, locBlocks_eq, bind, Except.bind]
  rfl

theorem filter_pos_ne_nil (bs : List Blk) (h : 0 < blocksLen bs) : bs.filter (fun b => b.len > 0) ≠ [] := by
  intro hn
  have := basesPlus_filter_pos bs
  rw [hn] at this
  have h2 := basesPlus_length bs
  rw [← this] at h2
  simp [basesPlus] at h2
  omega

theorem liftOnce_ok (c p : Location) (hp : WF p) (pl : Loc) (hpl : toLoc p = some pl)
    (hdir : pl.strand ≠ .unstranded) (hce : c ≠ .empty) (hlen : 0 < locLen c)
    (hin : ∀ b ∈ locationBlocks c, b.1 < b.2 → b.2 ≤ pl.len) :
    ∃ m, liftOnce c p = .ok m ∧ Good (compose (strandOf c) pl.strand) m ∧
      (basesPlus (locationBlocks m)).Perm
        ((basesPlus (locationBlocks c)).map (fun i => (bases pl).getD i 0)) ∧
      (nonOverlap pl.blocks = true → ∀ x ∈ locationBlocks m, x.1 < x.2) ∧
      ((locationBlocks c).length ≤ 1 → pl.blocks.length ≤ 1 → (locationBlocks m).length ≤ 1) := by
  generalize hpos : (locationBlocks c).filter (fun b => b.len > 0) = pos
  have hposne : pos ≠ [] := by
    rw [← hpos]; exact filter_pos_ne_nil _ (by rw [← locLen_eq]; exact hlen)
  have hposin : ∀ b ∈ pos, b.1 < b.2 ∧ b.2 ≤ pl.len := by
    intro b hb
    rw [← hpos, List.mem_filter] at hb
    have h1 : b.1 < b.2 := by have := hb.2; simp [Blk.len] at this; omega
    exact ⟨h1, hin b hb.1 h1⟩
  have hposb : basesPlus pos = basesPlus (locationBlocks c) := by rw [← hpos]; exact basesPlus_filter_pos _
  have hposlen : pos.length ≤ (locationBlocks c).length := by rw [← hpos]; exact List.length_filter_le _ _
  match pos, hposne, hpos with
  | b :: bs, _, hpos =>
    obtain ⟨hb1, hb2⟩ := hposin b (by simp)
    have hlp : 0 < locLen p := by rw [toLoc_len p pl hpl]; omega
    obtain ⟨x, hx, hgx, hpx, hposx, hlenx⟩ :=
      relInterval_piece p hp pl hpl hdir b.1 b.2 hb1 hb2 (strandOf c)
    obtain ⟨ms, hms, hgms, hpms, hnil⟩ :=
      liftBlocks_ok p hp pl hpl hdir (strandOf c) bs (fun y hy => hposin y (by simp [hy]))
    have hxne : basesPlus (locationBlocks x) ≠ [] := by
      intro h; rw [h] at hpx
      have := hpx.length_eq
      simp [bases_length] at this; omega
    obtain ⟨m, hm, hgm, hpm, hposm, hmnil⟩ := reduceUnion_ok _ ms x hgx hgms hxne
    refine ⟨m, ?_, hgm, ?_, fun hno => hposm (hposx hno), ?_⟩
    · rw [liftOnce_unfold c p hce hlen hlp, hpos]
      simp only [bind, Except.bind, hx, hms, hm]
    · refine hpm.trans ?_
      rw [← hposb]
      simp only [basesPlus, List.map_append]
      rw [← slice_eq_map (bases pl) b (by rw [bases_length]; exact hb2)]
      exact hpx.append hpms
    · intro h1 h2
      have : bs = [] := by
        simp only [List.length_cons] at hposlen
        exact List.eq_nil_of_length_eq_zero (by omega)
      rw [hmnil (hnil this)]
      exact hlenx h2

theorem mem_blkAsc (b : Blk) (i : Nat) : i ∈ blkAsc b ↔ b.1 ≤ i ∧ i < b.2 := by
  simp [blkAsc, List.mem_range'_1]; omega

theorem mem_basesPlus (bs : List Blk) (i : Nat) : i ∈ basesPlus bs ↔ ∃ b ∈ bs, b.1 ≤ i ∧ i < b.2 := by
  simp only [basesPlus_eq_flatMap, List.mem_flatMap, mem_blkAsc]

theorem liftOnce_fail (c p : Location) (hce : c ≠ .empty)
    (h : throughPlacement p (locationBases c) = none ∨ locLen c = 0) : ans (liftOnce c p) = none := by
  by_cases hlc : locLen c = 0
  · unfold liftOnce; simp [hlc, bind, Except.bind, throw, throwThe, MonadExceptOf.throw]
  by_cases hlp : locLen p = 0
  · unfold liftOnce; simp [hlc, hlp, bind, Except.bind, throw, throwThe, MonadExceptOf.throw]
  have hth : throughPlacement p (locationBases c) = none := by
    rcases h with h | h
    · exact h
    · exact absurd h hlc
  rw [liftOnce_unfold c p hce (by omega) (by omega)]
  generalize hpos : (locationBlocks c).filter (fun b => b.len > 0) = pos
  have hposne : pos ≠ [] := by
    rw [← hpos]; exact filter_pos_ne_nil _ (by rw [← locLen_eq]; omega)
  have hposb : basesPlus pos = basesPlus (locationBlocks c) := by rw [← hpos]; exact basesPlus_filter_pos _
  -- some positive block of `c` is outside the domain of the placement
  have hbad : ∃ b ∈ pos, relintDomain p (b.1 : Int) (b.2 : Int) = false := by
    rw [throughPlacement_eq] at hth
    cases hpl : toLoc p with
    | none =>
      match pos, hposne with
      | b :: _, _ => exact ⟨b, by simp, by simp [relintDomain, hpl]⟩
    | some pl =>
      rw [hpl] at hth
      simp only at hth
      by_cases hu : pl.strand = .unstranded
      · match pos, hposne with
        | b :: _, _ => exact ⟨b, by simp, by simp [relintDomain, hpl, hu, Strand.isDirectional]⟩
      · rw [if_neg hu] at hth
        have hex : ¬ ∀ i ∈ locationBases c, i < pl.len := by
          intro hall; rw [if_pos hall] at hth; simp at hth
        have hex' : ∃ i, i ∈ locationBases c ∧ pl.len ≤ i := by
          apply Classical.byContradiction
          intro hn
          apply hex
          intro i hi
          apply Classical.byContradiction
          intro hlt
          exact hn ⟨i, hi, by omega⟩
        obtain ⟨i, hi, hge⟩ := hex'
        have hi2 : i ∈ basesPlus pos := by
          rw [hposb]
          rw [locationBases_eq c _ (locationStrand_of_ne c hce)] at hi
          exact (bases_perm_basesPlus _ _).mem_iff.mp hi
        obtain ⟨b, hb, hb1, hb2⟩ := (mem_basesPlus pos i).mp hi2
        refine ⟨b, hb, ?_⟩
        simp only [relintDomain, hpl]
        have : ¬ ((b.2 : Int) ≤ (pl.len : Int)) := by omega
        simp [this]
  match pos, hposne, hbad with
  | b :: bs, _, hbad =>
    have hf := liftBlocks_fail p (strandOf c) (b :: bs) hbad
    simp only [liftBlocks, bind, Except.bind] at hf ⊢
    cases hx : relInterval p (b.1 : Int) (b.2 : Int) (strandOf c) with
    | error e => rfl
    | ok x =>
      rw [hx] at hf
      simp only [] at hf ⊢
      cases hy : liftBlocks p (strandOf c) bs with
      | error e => rfl
      | ok ys => rw [hy] at hf; simp [pure, Except.pure] at hf

end BioCantor.Proofs.Lift
