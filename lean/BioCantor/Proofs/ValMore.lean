/- C19 proofs, part 10: VariantInterval with ALT sequence, Codon, enum lookups, FeatureInterval. -/
import BioCantor.Proofs.ValVar
import BioCantor.Proofs.ValCDS
import BioCantor.Gen.Kernels
set_option linter.unusedSimpArgs false
namespace BioCantor.Proofs.Val
open BioCantor BioCantor.Model BioCantor.Model.Validate
open BioCantor.Spec.Validate (Out)

/-! ### VariantInterval -/

theorem mkVariantFull_spec (alph : List Char) (s e : Int) (alt : List Char) :
    Spec.Validate.okMkVar alph s e alt (outOf projVar (mkVariantFull alph s e alt)) = true := by
  unfold mkVariantFull
  rw [alphabetOk_eq]
  obtain ⟨h1, h2⟩ := mkVariant_eq s e
  by_cases hv : validVar (s, e)
  · rw [h1 hv]
    have hv' : 0 ≤ s ∧ s < e := hv
    have hs : ((s.toNat : Nat) : Int) = s := Int.toNat_of_nonneg hv'.1
    have he : ((e.toNat : Nat) : Int) = e := Int.toNat_of_nonneg (by omega)
    by_cases ha : ∀ x ∈ alt, Spec.Validate.upperAscii x ∈ alph
    · have hall : (alt.all fun c => decide (Spec.Validate.upperAscii c ∈ alph)) = true := by simpa using ha
      simp [ha, hall, bind, Except.bind, pure, Except.pure, outOf, projVar, natPair, Spec.Validate.okMkVar,
        Spec.Validate.validVar, hs, he, hv'.1, hv'.2]
    · have hall : (alt.all fun c => decide (Spec.Validate.upperAscii c ∈ alph)) = false := by
        rw [Bool.eq_false_iff]; simpa using ha
      simp [ha, hall, bind, Except.bind, raise, outOf, Spec.Validate.okMkVar, Spec.Validate.validVar]
  · obtain ⟨k, hk⟩ := h2 hv
    rw [hk]
    have hv' : ¬ (0 ≤ s ∧ s < e) := hv
    simp [bind, Except.bind, outOf, Spec.Validate.okMkVar, Spec.Validate.validVar]
    exact Or.inl (by omega)

/-! ### Codon -/

theorem mkCodon_spec (alph s : List Char) :
    Spec.Validate.okMkCodon alph s (outOf id (mkCodon alph s)) = true := by
  have hup : pyUpper = Spec.Validate.upperAscii := rfl
  have hstrip : (stripBoth alph (s.map pyUpper)).isEmpty = s.all (fun c => alph.contains (Spec.Validate.upperAscii c)) :=
    alphabetOk_eq alph s
  unfold mkCodon
  simp only [List.length_map]
  rw [hstrip]
  by_cases hl : s.length = 3
  · by_cases ha : ∀ x ∈ s, Spec.Validate.upperAscii x ∈ alph
    · have hall : (s.all fun c => decide (Spec.Validate.upperAscii c ∈ alph)) = true := by simpa using ha
      simp [hl, ha, hall, hup, pure, Except.pure, outOf, Spec.Validate.okMkCodon, Spec.Validate.validCodon]
    · have hall : (s.all fun c => decide (Spec.Validate.upperAscii c ∈ alph)) = false := by
        rw [Bool.eq_false_iff]; simpa using ha
      simp [hl, ha, hall, raise, outOf, Spec.Validate.okMkCodon, Spec.Validate.validCodon]
  · simp [hl, raise, outOf, Spec.Validate.okMkCodon, Spec.Validate.validCodon]

/-! ### Enum lookups (generated / prelude kernels) -/

/-- what a caller observes of a kernel result -/
def outPy {α β} (f : α → β) : GenP.PyR α → Out β
  | .ok a => .ok (f a)
  | .error .KeyError => .internal
  | .error _ => .refused

theorem strandOfInt_spec (v : Int) :
    Spec.Validate.okFromInt [1, -1, 0] v (outPy Strand.value (GenP.strandOfInt v)) = true := by
  unfold GenP.strandOfInt
  by_cases h1 : v = 1
  · subst h1; rfl
  · by_cases h2 : v = -1
    · subst h2; rfl
    · by_cases h3 : v = 0
      · subst h3; rfl
      · simp [h1, h2, h3, outPy, Spec.Validate.okFromInt]

theorem frameOfInt_spec (v : Int) :
    Spec.Validate.okFromInt [-1, 0, 1, 2] v (outPy CDSFrame.value (GenP.frameOfInt v)) = true := by
  unfold GenP.frameOfInt
  by_cases h1 : v = -1
  · subst h1; rfl
  · by_cases h2 : v = 0
    · subst h2; rfl
    · by_cases h3 : v = 1
      · subst h3; rfl
      · by_cases h4 : v = 2
        · subst h4; rfl
        · simp [h1, h2, h3, h4, outPy, Spec.Validate.okFromInt]

theorem phaseOfInt_spec (v : Int) :
    Spec.Validate.okFromInt [-1, 0, 1, 2] v (outPy CDSPhase.value (GenP.phaseOfInt v)) = true := by
  unfold GenP.phaseOfInt
  by_cases h1 : v = -1
  · subst h1; rfl
  · by_cases h2 : v = 0
    · subst h2; rfl
    · by_cases h3 : v = 1
      · subst h3; rfl
      · by_cases h4 : v = 2
        · subst h4; rfl
        · simp [h1, h2, h3, h4, outPy, Spec.Validate.okFromInt]

theorem strand_from_symbol_spec (s : List Char) :
    Spec.Validate.okFromSymbol s (outPy id (Gen.Strand_from_symbol s)) = true := by
  unfold Gen.Strand_from_symbol
  by_cases h1 : s = ['+']
  · subst h1; rfl
  · by_cases h2 : s = ['-']
    · subst h2; rfl
    · by_cases h3 : s = ['.']
      · subst h3; rfl
      · simp [h1, h2, h3, outPy, Spec.Validate.okFromSymbol]

/-! ### FeatureInterval -/

def specQual : QualShape → Spec.Validate.QS
  | .none => .none
  | .notDict t => .notDict t
  | .dict l => .dict l

def projFeat (o : FeatOut) : Int × Int := (o.start, o.endp)

theorem checkQualifiers_eq (q : QualShape) :
    checkQualifiers q = if Spec.Validate.validQual (specQual q) then pure () else raise .Validation := by
  cases q with
  | none => rfl
  | notDict t => cases t <;> rfl
  | dict l => simp only [checkQualifiers, specQual, Spec.Validate.validQual]; rfl

theorem mkFeature_noInternal (starts ends : List Int) (st : Strand) (q : QualShape) :
    NoInternal (mkFeature starts ends st q) := by
  intro c hc
  unfold mkFeature at hc
  rw [checkQualifiers_eq] at hc
  cases hi : initLoc starts ends st with
  | error e =>
      rw [hi] at hc
      cases e with
      | doc k => cases hc
      | internal c' => exact initLoc_noInternal starts ends st c' hi
  | ok bs =>
      rw [hi] at hc
      simp only [bind, Except.bind] at hc
      split at hc
      · cases hq : Spec.Validate.validQual (specQual q) <;> simp [hq, pure, Except.pure, raise] at hc
      · cases hc

/-- full statement (fails: F-C19i): for ALL `starts ends st q`.  Proved for lists given in ascending order. -/
theorem mkFeature_spec_partial (starts ends : List Int) (st : Strand) (q : QualShape)
    (hasc : Spec.Validate.ascending (starts.zip ends) = true) :
    Spec.Validate.okMkFeature starts ends (specQual q) (outOf projFeat (mkFeature starts ends st q)) = true := by
  obtain ⟨h1, h2⟩ := initLoc_cases starts ends st
  have hvb := validBlocks_iff starts ends
  unfold mkFeature
  rw [checkQualifiers_eq]
  by_cases ha : acceptedInit starts ends
  · obtain ⟨bs, hb⟩ := h1 ha
    obtain ⟨s0, hs0⟩ := head?_some_of_pos starts ha.1.2
    obtain ⟨eN, heN⟩ := getLast?_some_of_pos ends (by have := ha.1.1; have := ha.1.2; omega)
    obtain ⟨hmin, hmax⟩ := bounds_ascending starts ends s0 eN ha.1.1 hs0 heN (fun b hb => (ha.2 b hb).2) hasc
    have hvt : Spec.Validate.validBlocks starts ends = true := hvb.mpr ha
    simp only [hb, hs0, heN, bind, Except.bind]
    cases hq : Spec.Validate.validQual (specQual q) <;>
      simp [hq, pure, Except.pure, raise, outOf, projFeat, Spec.Validate.okMkFeature, hvt, hmin, hmax]
  · obtain ⟨k, hk⟩ := h2 ha
    have hvf : Spec.Validate.validBlocks starts ends = false := by
      rw [Bool.eq_false_iff]; exact fun h => ha (hvb.mp h)
    simp [hk, bind, Except.bind, outOf, Spec.Validate.okMkFeature, hvf]

/-- F-C19i witness for FeatureInterval: blocks given in descending order are accepted with start 15 > end 10 -/
theorem mkFeature_unsorted_witness :
    (mkFeature [15, 5] [20, 10] .plus .none).toOption.map projFeat = some (15, 10) := by
  have h1 : ∃ bs, initLoc [15, 5] [20, 10] .plus = .ok bs :=
    (initLoc_cases [15, 5] [20, 10] .plus).1 ⟨⟨rfl, by decide⟩, by decide⟩
  obtain ⟨bs, hb⟩ := h1
  simp [mkFeature, checkQualifiers, hb, bind, Except.bind, pure, Except.pure, projFeat, Except.toOption]

end BioCantor.Proofs.Val
