/-
  Ties between the GENERATED kernels (`Gen/Kernels.lean`, re-translated from /repo's Python sources on every
  run) and the hand-written model (`Model/Location.lean`) that the C01 / C02 / C04 / C06 theorems are about.

  Each theorem says: on every input of the model's domain (a block `b : Blk` with `b.1 ≤ b.2`, any strand, any
  `Int` argument) the generated kernel and the model function return the same value, and when one raises the
  other raises the corresponding documented class (`mapExc`).  A change of the Python source that alters the
  behaviour of one of these methods changes the generated definition and breaks the proof below.
-/
import BioCantor.Gen.Kernels
import BioCantor.Model.Location
import BioCantor.Proofs.Common
namespace BioCantor.Proofs.Ties
open BioCantor BioCantor.GenP

/-- Python exception class ↦ documented error class of the model.  `KeyError` is an internal error: the model's
    `Err` has deliberately no constructor for it, so it has no image (a kernel raising it agrees with nothing). -/
def mapExc : PyExc → Option Err
  | .InvalidPositionException => some .InvalidPosition
  | .InvalidStrandException => some .InvalidStrand
  | .ValueError => some .ValueError
  | .TypeError => some .TypeError
  | .UnsupportedOperationException => some .UnsupportedOperation
  | .EmptyLocationException => some .EmptyLocation
  | .LocationException => some .Location
  | .NotImplementedError => some .NotImplemented
  | .MismatchedFrameException => some .MismatchedFrame
  | .InvalidCDSIntervalError => some .InvalidCDSInterval
  | .KeyError => none

/-- The model-side view of a generated kernel's answer: values through `f`, exception classes through `mapExc`
    (`none` when the kernel raised a class without a documented counterpart). -/
def view {α β} (f : α → β) : PyR α → Option (Except Err β)
  | .ok a => some (.ok (f a))
  | .error e => (mapExc e).map .error

/-- `Agree f g m`: the generated answer `g`, seen through `f` / `mapExc`, IS the model answer `m`
    (same value when ok; error on one side iff error on the other, with corresponding classes). -/
def Agree {α β} (f : α → β) (g : PyR α) (m : Except Err β) : Prop := view f g = some m

theorem Agree.ok_iff {α β} {f : α → β} {g : PyR α} {m : Except Err β} (h : Agree f g m) (v : β) :
    m = .ok v ↔ ∃ a, g = .ok a ∧ f a = v := by
  unfold Agree view at h
  cases g with
  | ok a =>
    simp only [Option.some.injEq] at h
    subst h
    simp only [Except.ok.injEq, exists_eq_left']
  | error e =>
    cases he : mapExc e <;> simp only [he, Option.map_none, Option.map_some, reduceCtorEq, Option.some.injEq] at h
    subst h
    simp only [reduceCtorEq, false_and, exists_false]

theorem Agree.error_iff {α β} {f : α → β} {g : PyR α} {m : Except Err β} (h : Agree f g m) (e : Err) :
    m = .error e ↔ ∃ x, g = .error x ∧ mapExc x = some e := by
  unfold Agree view at h
  cases g with
  | ok a =>
    simp only [Option.some.injEq] at h
    subst h
    simp only [reduceCtorEq, false_and, exists_false]
  | error x =>
    cases he : mapExc x <;> simp only [he, Option.map_none, Option.map_some, reduceCtorEq, Option.some.injEq] at h
    subst h
    constructor
    · intro h'
      simp only [Except.error.injEq] at h'
      subst h'
      exact ⟨x, rfl, he⟩
    · rintro ⟨y, hy, hm⟩
      simp only [Except.error.injEq] at hy
      subst hy
      rw [he] at hm
      simp only [Option.some.injEq] at hm
      rw [hm]

/-- the parent-less SingleInterval with block `b` and strand `st`, as the generated kernels see it -/
def si (b : Blk) (st : Strand) : SI := ⟨(b.1 : Int), (b.2 : Int), st⟩

/-- a SingleInterval value as a model `Location` -/
def siLoc (s : SI) : Location := .single (s.start.toNat, s.«end».toNat) s.strand

/-! ### Strand -/

theorem strand_reverse (s : Strand) : Gen.Strand_reverse s = .ok (Model.strandReverse s) := by
  cases s <;> rfl

theorem strand_relative_to (a b : Strand) :
    Gen.Strand_relative_to a b = .ok (Model.strandRelativeTo a b) := by
  cases a <;> cases b <;> rfl

theorem strandRelativeTo_eq_compose (a b : Strand) : Model.strandRelativeTo a b = Spec.compose a b := by
  cases a <;> cases b <;> rfl

theorem strandRelativeTo_comm (a b : Strand) : Model.strandRelativeTo a b = Model.strandRelativeTo b a := by
  cases a <;> cases b <;> rfl

theorem strand_assert_directional (s : Strand) :
    Agree (fun _ => ()) (Gen.Strand_assert_directional s) (Model.assertDirectional s) := by
  cases s <;> rfl

/-! ### Point maps -/

theorem p2r (b : Blk) (st : Strand) (p : Int) :
    Agree id (Gen.SingleInterval_parent_to_relative_pos (si b st) p) (Model.singleP2R b st p) := by
  unfold Gen.SingleInterval_parent_to_relative_pos Model.singleP2R si Agree
  simp only [ge_iff_le]
  cases st <;> simp only [reduceCtorEq, if_true, if_false] <;> split <;> rfl

theorem r2p (b : Blk) (hb : b.1 ≤ b.2) (st : Strand) (r : Int) :
    Agree id (Gen.SingleInterval_relative_to_parent_pos (si b st) r) (Model.singleR2P b st r) := by
  have hl : ((b.len : Nat) : Int) = (b.2 : Int) - (b.1 : Int) := by unfold Blk.len; omega
  unfold Gen.SingleInterval_relative_to_parent_pos Model.singleR2P si Agree
  simp only [ge_iff_le, hl]
  cases st <;> simp only [reduceCtorEq, if_true, if_false] <;> split <;> rfl

/-! ### Relative interval -/

theorem view_mkSI (s e : Int) (st : Strand) :
    view siLoc (mkSI s e st) = some (Model.mkSingle s e st) := by
  unfold mkSI Model.mkSingle
  split <;> rfl

theorem relInterval (b : Blk) (hb : b.1 ≤ b.2) (st : Strand) (rs re : Int) (rst : Strand) :
    Agree siLoc (Gen.SingleInterval_relative_interval_to_parent_location (si b st) rs re rst)
      (Model.singleRelInterval b st rs re rst) := by
  have hl : ((b.len : Nat) : Int) = (b.2 : Int) - (b.1 : Int) := by unfold Blk.len; omega
  unfold Gen.SingleInterval_relative_interval_to_parent_location Model.singleRelInterval si Agree
  simp only [hl, strand_relative_to]
  cases st <;> simp only [reduceCtorEq, if_true, if_false] <;> split <;> try rfl
  all_goals
    rw [← view_mkSI]
    cases mkSI _ _ _ <;> rfl

/-! ### Overlap / intersection kernels -/

theorem overlap (a b : Blk) (ha : a.1 ≤ a.2) (hb : b.1 ≤ b.2) (sa sb : Strand) :
    Gen.SingleInterval_has_overlap_single_interval (si a sa) (si b sb) = .ok (Model.overlapKernel a b) := by
  unfold Gen.SingleInterval_has_overlap_single_interval Model.overlapKernel si Blk.len
  simp only
  repeat' split
  all_goals first | rfl | omega

theorem intersection (a b : Blk) (sa sb : Strand) :
    Gen.SingleInterval_intersection_single_interval (si a sa) (si b sb)
      = if max a.1 b.1 ≤ min a.2 b.2 then .ok (si (max a.1 b.1, min a.2 b.2) sa)
        else .error .InvalidPositionException := by
  have hmax : max (a.1 : Int) (b.1 : Int) = ((max a.1 b.1 : Nat) : Int) := by omega
  have hmin : min (a.2 : Int) (b.2 : Int) = ((min a.2 b.2 : Nat) : Int) := by omega
  unfold Gen.SingleInterval_intersection_single_interval mkSI si
  simp only [hmax, hmin]
  by_cases h : max a.1 b.1 ≤ min a.2 b.2
  · have h' : (0 : Int) ≤ ((max a.1 b.1 : Nat) : Int) ∧ ((max a.1 b.1 : Nat) : Int) ≤ ((min a.2 b.2 : Nat) : Int) := by
      omega
    rw [if_pos h', if_pos h]
  · have h' : ¬ ((0 : Int) ≤ ((max a.1 b.1 : Nat) : Int) ∧ ((max a.1 b.1 : Nat) : Int) ≤ ((min a.2 b.2 : Nat) : Int)) := by
      omega
    rw [if_neg h', if_neg h]

/-- overlapping kernels ⇒ the intersection is the (non-empty) max/min block -/
theorem intersection_of_overlap (a b : Blk) (sa sb : Strand) (h : Model.overlapKernel a b = true) :
    Gen.SingleInterval_intersection_single_interval (si a sa) (si b sb)
      = .ok (si (max a.1 b.1, min a.2 b.2) sa) ∧ max a.1 b.1 < min a.2 b.2 := by
  have hlt : max a.1 b.1 < min a.2 b.2 := by
    unfold Model.overlapKernel Blk.len at h
    simp only [Nat.max_def, Nat.min_def]
    repeat' split at h
    all_goals first | (exact absurd h (by decide)) | (repeat' split) <;> omega
  refine ⟨?_, hlt⟩
  rw [intersection, if_pos (by omega)]

/-! ### The hypotheses are satisfiable and the statements are not vacuous: concrete evaluations -/

example : ((3, 10) : Blk).1 ≤ ((3, 10) : Blk).2 := by decide
example : Model.overlapKernel (3, 10) (5, 12) = true := by decide
example : Gen.SingleInterval_parent_to_relative_pos (si (3, 10) .minus) 4 = .ok 5 := rfl
example : Gen.SingleInterval_parent_to_relative_pos (si (3, 10) .unstranded) 4 = .error .InvalidStrandException := rfl
example : Gen.SingleInterval_relative_to_parent_pos (si (3, 10) .minus) 7 = .error .ValueError := rfl
example : Gen.SingleInterval_relative_interval_to_parent_location (si (3, 10) .minus) 1 3 .minus
    = .ok ⟨7, 9, .plus⟩ := rfl
example : Model.singleRelInterval (3, 10) .minus 1 3 .minus = .ok (.single (7, 9) .plus) := rfl
example : Gen.SingleInterval_intersection_single_interval (si (3, 10) .plus) (si (12, 15) .minus)
    = .error .InvalidPositionException := rfl

end BioCantor.Proofs.Ties
