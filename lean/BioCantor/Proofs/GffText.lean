/-
  C11 / T6 — the glue of `collection_to_gff3` (header, `##sequence-region`, per-collection row blocks, `##FASTA`):
  shape of the printed lines, FASTA records named like column 1, bodies re-assembling to the sequence, ordering by
  sequence name.
-/
import BioCantor.Model.Gff
import BioCantor.Spec.Gff
namespace BioCantor.Proofs.GffText
open BioCantor BioCantor.Model.Gff
open BioCantor.Spec.Gff (Str SColl GColl strLt strLe)

/-! ### line breaking of a sequence -/

theorem chunksOf_flatten (n : Nat) (hn : 0 < n) : ∀ (fuel : Nat) (s : Str), s.length ≤ fuel →
    (chunksOf n fuel s).flatten = s ∧ ∀ l ∈ chunksOf n fuel s, l ≠ [] ∧ l.length ≤ n := by
  intro fuel
  induction fuel with
  | zero =>
    intro s hs
    have : s = [] := List.eq_nil_of_length_eq_zero (by omega)
    subst this
    simp [chunksOf]
  | succ f ih =>
    intro s hs
    unfold chunksOf
    split
    · rename_i he
      have : s = [] := by simpa using he
      subst this; simp
    · rename_i he
      have hne : s ≠ [] := by simpa using he
      have hpos : 0 < s.length := List.length_pos_iff.mpr hne
      have hd : (s.drop n).length ≤ f := by
        have := List.length_drop (i := n) (l := s)
        omega
      obtain ⟨h1, h2⟩ := ih (s.drop n) hd
      refine ⟨?_, ?_⟩
      · simp only [List.flatten_cons, h1, List.take_append_drop]
      · intro l hl
        rcases List.mem_cons.mp hl with rfl | hl'
        · refine ⟨?_, by simp [List.length_take]; omega⟩
          intro e
          have := congrArg List.length e
          simp only [List.length_take, List.length_nil] at this
          omega
        · exact h2 l hl'

/-- T6b: a FASTA record is `>name` followed by non-empty lines of at most 60 characters whose concatenation is
    the sequence -/
theorem fastaRecord_spec (name seq : Str) :
    ∃ body, fastaRecord name seq = ('>' :: name) :: body ∧ body.flatten = seq ∧
      ∀ l ∈ body, l ≠ [] ∧ l.length ≤ 60 := by
  have := chunksOf_flatten 60 (by decide) seq.length seq (Nat.le_refl _)
  exact ⟨_, rfl, this.1, this.2⟩

/-! ### ordering by sequence name -/

theorem strLt_irrefl : ∀ a : Str, strLt a a = false
  | [] => rfl
  | c :: r => by simp [strLt, strLt_irrefl r]

theorem strLt_trans : ∀ {a b c : Str}, strLt a b = true → strLt b c = true → strLt a c = true
  | [], [], _, h, _ => by simp [strLt] at h
  | [], _ :: _, [], _, h => by simp [strLt] at h
  | [], _ :: _, _ :: _, _, _ => by simp [strLt]
  | _ :: _, [], _, h, _ => by simp [strLt] at h
  | _ :: _, _ :: _, [], _, h => by simp [strLt] at h
  | x :: a, y :: b, z :: c, h1, h2 => by
    simp only [strLt, Bool.or_eq_true, decide_eq_true_eq, Bool.and_eq_true, beq_iff_eq] at h1 h2 ⊢
    rcases h1 with h1 | ⟨rfl, h1⟩
    · rcases h2 with h2 | ⟨rfl, _⟩
      · exact Or.inl (Nat.lt_trans h1 h2)
      · exact Or.inl h1
    · rcases h2 with h2 | ⟨rfl, h2⟩
      · exact Or.inl h2
      · exact Or.inr ⟨rfl, strLt_trans h1 h2⟩

theorem strLt_total : ∀ {a b : Str}, a ≠ b → strLt a b = true ∨ strLt b a = true
  | [], [], h => absurd rfl h
  | [], _ :: _, _ => Or.inl (by simp [strLt])
  | _ :: _, [], _ => Or.inr (by simp [strLt])
  | x :: a, y :: b, h => by
    simp only [strLt, Bool.or_eq_true, decide_eq_true_eq, Bool.and_eq_true, beq_iff_eq]
    by_cases hxy : x = y
    · subst hxy
      have hab : a ≠ b := fun e => h (by rw [e])
      rcases strLt_total hab with h1 | h1
      · exact Or.inl (Or.inr ⟨rfl, h1⟩)
      · exact Or.inr (Or.inr ⟨rfl, h1⟩)
    · have : x.toNat ≠ y.toNat := fun e => hxy (Char.toNat_inj.mp e)
      rcases Nat.lt_or_gt_of_ne this with h1 | h1
      · exact Or.inl (Or.inl h1)
      · exact Or.inr (Or.inl h1)

theorem strLt_asymm {a b : Str} (h1 : strLt a b = true) (h2 : strLt b a = true) : False := by
  have := strLt_trans h1 h2
  rw [strLt_irrefl] at this; cases this

theorem strLe_trans (a b c : Str) (h1 : strLe a b = true) (h2 : strLe b c = true) : strLe a c = true := by
  simp only [strLe, Bool.not_eq_true'] at *
  cases h : strLt c a with
  | false => rfl
  | true =>
    exfalso
    by_cases hab : a = b
    · subst hab; rw [h] at h2; cases h2
    · rcases strLt_total hab with h3 | h3
      · have := strLt_trans h h3
        rw [this] at h2; cases h2
      · rw [h3] at h1; cases h1

theorem strLe_total (a b : Str) : (strLe a b || strLe b a) = true := by
  simp only [strLe, Bool.or_eq_true, Bool.not_eq_true']
  cases h1 : strLt b a with
  | false => exact Or.inl rfl
  | true =>
    right
    cases h2 : strLt a b with
    | false => rfl
    | true => exact absurd h2 (fun h => strLt_asymm h h1)

/-- T6c: with `ordered=True` the collections are written in sequence-name order (a permutation of the input) -/
theorem sortByName_spec (cs : List GColl) :
    (sortByName cs).Perm cs ∧ (sortByName cs).Pairwise (fun a b => strLe (gNameM a) (gNameM b) = true) := by
  unfold sortByName
  exact ⟨List.mergeSort_perm _ _,
    List.pairwise_mergeSort (le := fun a b : GColl => strLe (gNameM a) (gNameM b))
      (fun a b c => strLe_trans _ _ _) (fun a b => strLe_total _ _) cs⟩

/-! ### shape of the printed file -/

theorem mapM_ok_map {α β} (f : α → Except Err β) : ∀ (l : List α) (out : List β), l.mapM f = .ok out →
    out.length = l.length ∧ ∀ p ∈ l.zip out, f p.1 = .ok p.2
  | [], out, h => by
    simp only [List.mapM_nil, pure, Except.pure] at h
    cases h; simp
  | a :: rest, out, h => by
    rw [List.mapM_cons] at h
    cases ha : f a with
    | error e => rw [ha] at h; cases h
    | ok b =>
      rw [ha] at h
      cases hr : rest.mapM f with
      | error e => rw [hr] at h; cases h
      | ok bs =>
        rw [hr] at h
        simp only [bind, Except.bind, pure, Except.pure] at h
        cases h
        have ih := mapM_ok_map f rest bs hr
        refine ⟨by simp [ih.1], ?_⟩
        intro p hp
        simp only [List.zip_cons_cons, List.mem_cons] at hp
        rcases hp with rfl | hp
        · exact ha
        · exact ih.2 p hp

/-- T6a: what `collection_to_gff3` prints.  `order` = the collections in the order written (by sequence name when
    `ordered`).  First the version header; with sequences one `##sequence-region <name> 1 <len(sequence)>` per
    collection in that order; then each collection's own sorted feature lines as one block, in that order; with
    sequences `##FASTA` and one record per collection, in that order, named `>` + the collection's sequence name
    (the name used in column 1 and in the pragma). -/
theorem gff3Lines_shape (cs : List GColl) (addSeq ordered chromRel raise : Bool) (lines : List Str)
    (h : gff3Lines cs addSeq ordered chromRel raise = .ok lines) :
    let order := if ordered then sortByName cs else cs
    ∃ (regions : List Str) (blocks : List (List Str)),
      lines = headerLine :: regions ++ blocks.flatten ++
        (if addSeq then fastaHeaderLine :: order.flatMap (fun g => match g.seq with
            | some s => fastaRecord (gNameM g) s | none => []) else []) ∧
      blocks.length = order.length ∧
      (∀ p ∈ order.zip blocks, toGffLines p.1.coll chromRel raise = .ok p.2) ∧
      (addSeq = false → regions = []) ∧
      (addSeq = true → regions.length = order.length ∧
        (∀ g ∈ order, ∃ s, g.seq = some s) ∧
        ∀ p ∈ order.zip regions, ∃ s, p.1.seq = some s ∧ p.2 = regionLine (gNameM p.1) s.length) ∧
      (chromRel = true → addSeq = true → ∀ g ∈ cs, gIsChunk g = false) := by
  intro order
  unfold gff3Lines at h
  simp only [bind, Except.bind, pure, Except.pure] at h
  split at h
  · cases h
  · rename_i hchunk
    split at h
    · cases h
    · rename_i regions hreg
      split at h
      · cases h
      · rename_i blocks hrows
        simp only [Except.ok.injEq] at h
        have hb := mapM_ok_map _ _ _ hrows
        refine ⟨regions, blocks, h.symm, hb.1, hb.2, ?_, ?_, ?_⟩
        · intro ha
          rw [ha] at hreg
          simp only [Bool.false_eq_true, if_false, Except.ok.injEq] at hreg
          exact hreg.symm
        · intro ha
          rw [ha] at hreg
          simp only [if_true] at hreg
          have hr := mapM_ok_map _ _ _ hreg
          have hall : ∀ p ∈ order.zip regions, ∃ s, p.1.seq = some s ∧ p.2 = regionLine (gNameM p.1) s.length := by
            intro p hp
            have := hr.2 p hp
            cases hs : p.1.seq with
            | none => rw [hs] at this; cases this
            | some s =>
              rw [hs] at this
              simp only [Except.ok.injEq] at this
              exact ⟨s, rfl, this.symm⟩
          refine ⟨hr.1, ?_, hall⟩
          intro g hg
          -- every collection in `order` is the first component of a pair of the zip (equal lengths)
          obtain ⟨i, hi, rfl⟩ := List.mem_iff_getElem.mp hg
          have hi' : i < regions.length := by rw [hr.1]; exact hi
          have hm : (order[i], regions[i]) ∈ order.zip regions := by
            rw [List.mem_iff_getElem]
            exact ⟨i, by rw [List.length_zip]; omega, by simp⟩
          obtain ⟨s, hs, _⟩ := hall _ hm
          exact ⟨s, hs⟩
        · intro hc ha g hg
          cases hk : gIsChunk g with
          | false => rfl
          | true =>
            exfalso
            apply hchunk
            simp only [hc, ha, Bool.and_self, Bool.true_and, List.any_eq_true]
            exact ⟨g, hg, hk⟩

end BioCantor.Proofs.GffText
