/-
  C17 helper lemmas, part 5: the CDS feature.  `CDSTblFeature`'s codon_start / start / end completeness and the
  gene's `pseudo`, computed by the modelled predicates of gene/cds.py (C05: Proofs/CDSPredicates.lean), are the
  clauses of Spec/Tbl.lean read off the chromosome letters — for a CDS in one uninterrupted reading frame.
-/
import BioCantor.Proofs.CDSPredicates
import BioCantor.Proofs.CDSConstructFrames
import BioCantor.Model.Tbl
import BioCantor.Spec.Tbl
namespace BioCantor.Proofs.Tbl
open BioCantor BioCantor.Model BioCantor.Model.Tbl BioCantor.Spec BioCantor.Spec.Tbl BioCantor.Proofs

/-- the CDS as Spec/Tbl.lean sees it: blocks, strand, start frame, chromosome letters -/
def cdsInOf (c : CDS) (f : Nat) (chrom : List Char) : CdsIn := ⟨c.loc.blocks, c.loc.strand, f, chrom⟩

/-- one uninterrupted reading frame that starts `f` bases into the CDS: the frame-cleaning walk of the library
    keeps every position after the first `f` (true for every frame vector `construct_frames_from_location`
    generates — C05 `generated_frames_are_one_reading_frame` — hence for every CDS `TblGene` merged) -/
def PlainFrame (c : CDS) (f : Nat) : Prop := cdsKept c.loc (specFrames c) = (bases c.loc).drop f

theorem loc_eta (l : Loc) : (⟨l.blocks, l.strand⟩ : Loc) = l := by cases l; rfl

theorem bases_lt (c : CDS) (h : WFCDS c) (chrom : List Char) (hs : SeqOK c chrom) :
    ∀ p ∈ bases c.loc, p < chrom.length := by
  intro p hp
  rw [← loc_eta c.loc] at hp
  obtain ⟨b, hb, _, hbp⟩ := (mem_bases c.loc.blocks c.loc.strand h.dir p).1 hp
  have := hs.cover b hb
  omega

/-- the spec's codons of the CDS are C05's reference codons -/
theorem codons_eq (c : CDS) (h : WFCDS c) (f : Nat) (hplain : PlainFrame c f) (chrom : List Char) (hs : SeqOK c chrom) :
    ∃ all, lettersAt chrom c.loc.strand (bases c.loc) = some all ∧ all.length = (bases c.loc).length ∧
      (cdsInOf c f chrom).letters = some (upperStr all) ∧
      (cdsInOf c f chrom).codons = (specOf c).codonLetters ∧
      (specOf c).codonLetters = some (triples ((upperStr all).drop f)) := by
  have hv : ∀ b ∈ c.loc.blocks, b.1 ≤ b.2 := fun b hb => Nat.le_of_lt (h.positive b hb)
  obtain ⟨all, hall, hlen⟩ := lettersAt_isSome chrom c.loc.strand hs.compl (bases c.loc) (bases_lt c h chrom hs)
  have hk : lettersAt chrom c.loc.strand (cdsKept c.loc (specFrames c)) = some (all.drop f) := by
    rw [hplain]; exact lettersAt_drop chrom c.loc.strand _ _ f hall
  have hcl := codonLetters_eq c chrom hs.seq (all.drop f) hk
  have hup : upperStr (all.drop f) = (upperStr all).drop f := by unfold upperStr; rw [List.map_drop]
  have hletters : (cdsInOf c f chrom).letters = some (upperStr all) := by
    unfold CdsIn.letters cdsInOf
    simp only [loc_eta, hall, Option.map_some]
    rfl
  refine ⟨all, hall, hlen, hletters, ?_, by rw [hcl, hup]⟩
  unfold CdsIn.codons
  rw [hletters, hcl, hup]
  rfl

theorem contains_eq_decide_mem (l : List (List Char)) (x : List Char) : l.contains x = decide (x ∈ l) := by
  by_cases h : x ∈ l <;> simp [h]

/-- **start / end completeness and codon_start** of `CDSTblFeature` for a CDS with at least one codon -/
theorem cdsFlags_spec (c : CDS) (h : WFCDS c)
    (hshallow : shallowTrim (exonWalk c.loc (specFrames c)) = true)
    (hkept : c.loc.blocks.length = 1 ∨ cdsKept c.loc (specFrames c) ≠ [])
    (chrom : List Char) (hs : SeqOK c chrom) (halpha : ∀ ch ∈ chrom, ch.toUpper ∈ Gen.codonAlphabet)
    (table : Nat) (ht : table = 0 ∨ table = 1 ∨ table = 11)
    (fr : CDSFrame) (rest : List CDSFrame) (hfr : c.frameIter = fr :: rest)
    (f : Nat) (hf : fr.value = (f : Int)) (hplain : PlainFrame c f)
    (hcod : (cdsInOf c f chrom).codons ≠ some []) :
    ∃ si ei, cdsFlags c (table : Int) = .ok (f + 1, si, ei) ∧
      (cdsInOf c f chrom).startPartial table = some si ∧ (cdsInOf c f chrom).endPartial = some ei := by
  obtain ⟨all, hall, hlen, hletters, hcods, hcl⟩ := codons_eq c h f hplain chrom hs
  have hv : ∀ b ∈ c.loc.blocks, b.1 ≤ b.2 := fun b hb => Nat.le_of_lt (h.positive b hb)
  have hlen' : (upperStr all).length = c.loc.len := by
    unfold upperStr; rw [List.length_map, hlen, bases_length c.loc]
  have hf3 : f < 3 := by
    have : fr ∈ c.frames := by
      have hm : fr ∈ c.frameIter := by rw [hfr]; simp
      unfold CDS.frameIter at hm
      split at hm
      · exact List.mem_reverse.1 hm
      · exact hm
    have hne := h.frames_real fr this
    cases fr <;> simp_all [CDSFrame.value] <;> omega
  obtain ⟨starts, hst⟩ : ∃ starts, startCodonsOf table = some starts := by
    rcases ht with rfl | rfl | rfl <;> exact ⟨_, rfl⟩
  have h1 := startCodon_ok c h hshallow hkept chrom hs halpha table starts hst
  have h2 := hasValidStop_ok c h hshallow hkept chrom hs halpha
  rw [hcods, hcl] at hcod
  cases hT : triples ((upperStr all).drop f) with
  | nil => rw [hT] at hcod; exact absurd rfl hcod
  | cons cod cods =>
    -- first codon
    unfold okFirstCodon at h1
    rw [hcl, hT] at h1
    simp only at h1
    have hsi : hasStartCodonIn c (table : Int) = .ok (decide (cod ∈ starts)) := by
      cases hx : hasStartCodonIn c (table : Int) with
      | error e => rw [hx] at h1; simp at h1
      | ok b => rw [hx] at h1; simp only [ans_ok, beq_iff_eq, Option.some.injEq] at h1; rw [h1]
    -- last codon
    obtain ⟨last, hlast⟩ : ∃ last, (cod :: cods).getLast? = some last :=
      ⟨(cod :: cods).getLast (by simp), List.getLast?_eq_some_getLast (by simp)⟩
    unfold okHasValidStop at h2
    rw [hcl, hT] at h2
    simp only [hlast] at h2
    have hvs : hasValidStop c = .ok (isStop last) := by
      cases hx : hasValidStop c with
      | error e => rw [hx] at h2; simp at h2
      | ok b => rw [hx] at h2; simp only [ans_ok, beq_iff_eq, Option.some.injEq] at h2; rw [h2]
    -- the CDS holds at least one codon after the first `f` bases
    have h3 : 3 ≤ ((upperStr all).drop f).length := by
      have := triples_length ((upperStr all).drop f)
      rw [hT] at this
      simp only [List.length_cons] at this
      omega
    have hfl : f + 3 ≤ c.loc.len := by rw [List.length_drop, hlen'] at h3; omega
    refine ⟨!decide (cod ∈ starts),
      (if (c.loc.len : Int) % 3 ≠ (f : Int) then true else !isStop last), ?_, ?_, ?_⟩
    · unfold cdsFlags
      simp only [hfr, hsi, hvs, liftR, bind, Except.bind, pure, Except.pure, hf]
      have e1 : ((f : Int) + 1 - 1) = (f : Int) := by omega
      have e2 : ((f : Int) + 1).toNat = f + 1 := by omega
      by_cases hm : (c.loc.len : Int) % 3 ≠ (f : Int)
      · simp only [e1, hm, ne_eq, not_false_eq_true, if_true, e2]
      · simp only [e1, hm, if_false, e2]
    · unfold CdsIn.startPartial
      rw [hcods, hcl, hT, hst]
      simp only [contains_eq_decide_mem]
    · unfold CdsIn.endPartial CdsIn.endsOnStop
      rw [hletters, hcods, hcl, hT]
      have hfrm : (cdsInOf c f chrom).frame = f := rfl
      simp only [hlast, Option.map_some, Option.some.injEq, hlen', hfrm]
      have hfle : f ≤ c.loc.len := by omega
      by_cases hm : (c.loc.len : Int) % 3 ≠ (f : Int)
      · have : ¬ ((c.loc.len - f) % 3 = 0) := by omega
        simp [hm, this]
      · have : (c.loc.len - f) % 3 = 0 := by omega
        have hnlt : ¬ (c.loc.len < f) := by omega
        simp [hm, this, hfle, hnlt]

theorem strictRefuses_false (starts : List (List Char)) (i : Nat) (cods : List (List Char))
    (h : ∀ cod ∈ cods, (standardCode cod).isSome = true) : strictRefuses starts i cods = false := by
  induction cods generalizing i with
  | nil => rfl
  | cons c cs ih =>
    simp only [strictRefuses, Bool.or_eq_false_iff, Bool.and_eq_false_iff]
    refine ⟨Or.inr ?_, ih (i + 1) (fun x hx => h x (List.mem_cons_of_mem _ hx))⟩
    have := h c (by simp)
    cases hsc : standardCode c with
    | none => rw [hsc] at this; simp at this
    | some a => rfl

/-- **in-frame stop** (what `GeneTblFeature` turns into `pseudo`): `has_in_frame_stop` is "a codon before the
    last one is a stop codon", for a CDS whose codons are plain ACGT -/
theorem inFrameStop_spec (c : CDS) (h : WFCDS c)
    (hshallow : shallowTrim (exonWalk c.loc (specFrames c)) = true)
    (hkept : c.loc.blocks.length = 1 ∨ cdsKept c.loc (specFrames c) ≠ [])
    (chrom : List Char) (hs : SeqOK c chrom) (halpha : ∀ ch ∈ chrom, ch.toUpper ∈ Gen.codonAlphabet)
    (f : Nat) (hplain : PlainFrame c f)
    (hacgt : ∀ cods, (cdsInOf c f chrom).codons = some cods → ∀ cod ∈ cods, (standardCode cod).isSome = true) :
    ∃ b, hasInFrameStop c = .ok b ∧ (cdsInOf c f chrom).inFrameStop = some b := by
  obtain ⟨all, hall, hlen, hletters, hcods, hcl⟩ := codons_eq c h f hplain chrom hs
  have h1 := hasInFrameStop_ok c h hshallow hkept chrom hs halpha
  unfold okInFrameStop at h1
  rw [hcl] at h1
  have hr := strictRefuses_false ["ATG".toList] 0 _ (hacgt _ (by rw [hcods, hcl]))
  simp only [hr, Bool.false_eq_true, if_false] at h1
  cases hx : hasInFrameStop c with
  | error e => rw [hx] at h1; simp at h1
  | ok b =>
    rw [hx] at h1
    simp only [ans_ok, beq_iff_eq, Option.some.injEq] at h1
    refine ⟨b, rfl, ?_⟩
    unfold CdsIn.inFrameStop
    rw [hcods, hcl, h1]
    rfl

end BioCantor.Proofs.Tbl
