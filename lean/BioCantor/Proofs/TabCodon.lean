/-
  C15, codon tables: `decide`d checks over the entries of the GENERATED tables, lifted to statements about
  every key with the association-list lemmas of `TabLemmas`.
-/
import BioCantor.Spec.Tables
import BioCantor.Model.Tables
import BioCantor.Proofs.TabLemmas
set_option linter.unusedSimpArgs false
namespace BioCantor.Proofs.Tab
open BioCantor BioCantor.GenP BioCantor.Spec.Tab BioCantor.Model.Tab

/-! ### gencode = NCBI table 1 -/

def chkGencode12 : Bool := Gen.gencode.all fun p => stdCode.lookup p.1 == some p.2
def chkGencode21 : Bool := stdCode.all fun p => Gen.gencode.lookup p.1 == some p.2
theorem chkGencode12_true : chkGencode12 = true := by decide +kernel
theorem chkGencode21_true : chkGencode21 = true := by decide +kernel

/-- the generated `gencode` and the NCBI string agree on EVERY key (listed or not) -/
theorem gencode_lookup (c : List Char) : Gen.gencode.lookup c = stdTranslate c := by
  apply lookup_congr
  · intro p hp; simpa using all_of_mem _ _ chkGencode12_true p hp
  · intro p hp; simpa using all_of_mem _ _ chkGencode21_true p hp

theorem gencode_length : Gen.gencode.length = 64 := by decide +kernel
theorem stdCode_length : stdCode.length = 64 := by decide +kernel
theorem gencode_keys_nodup : nodupB (Gen.gencode.map (·.1)) = true := by decide +kernel

/-! ### codon validity -/

theorem codonAlphabet_contains (c : Char) : Gen.codonAlphabet.contains c = iupacLetters.contains c :=
  contains_congr _ _ (by decide +kernel) (by decide +kernel) c

theorem iupac_lookup_isSome (c : Char) : (iupac.lookup c).isSome = iupacLetters.contains c :=
  lookup_isSome_keys iupac c

theorem expansions_isSome (v : List Char) :
    (expansions v).isSome = (decide (v.length = 3) && v.all (fun c => Gen.codonAlphabet.contains c)) := by
  rcases v with _ | ⟨a, _ | ⟨b, _ | ⟨c, _ | ⟨d, r⟩⟩⟩⟩
  · simp [expansions]
  · simp [expansions]
  · simp [expansions]
  · have ha := iupac_lookup_isSome a
    have hb := iupac_lookup_isSome b
    have hc := iupac_lookup_isSome c
    simp only [expansions, List.length_cons, List.length_nil, List.all_cons, List.all_nil, Bool.and_true,
      codonAlphabet_contains, ← ha, ← hb, ← hc]
    cases iupac.lookup a <;> cases iupac.lookup b <;> cases iupac.lookup c <;> simp
  · simp [expansions]

/-- `Codon.__init__` accepts exactly the IUPAC triplets (after upper-casing) -/
theorem mkCodon_eq (s : List Char) :
    mkCodon s = if (expansions (upper s)).isSome then .ok (upper s) else .error .ValueError := by
  unfold mkCodon
  rw [expansions_isSome]
  simp only
  by_cases h3 : (upper s).length = 3
  · by_cases hall : (upper s).all (fun c => Gen.codonAlphabet.contains c) = true
    · simp only [h3, hall, ne_eq, not_true_eq_false, not_false_eq_true, if_false, if_true, decide_true,
        Bool.true_and, Bool.and_self]
    · have hall' := Bool.eq_false_iff.2 hall
      simp only [h3, hall', ne_eq, not_true_eq_false, not_false_eq_true, if_false, if_true, decide_true,
        Bool.true_and, Bool.false_eq_true, Bool.and_false]
  · simp [h3]

/-! ### translate -/

def chkTranslateHit : Bool :=
  Gen.gencode.all fun p => okTranslate p.1 true (some (translate p.1 true)) && okTranslate p.1 false (some (translate p.1 false))
theorem chkTranslateHit_true : chkTranslateHit = true := by decide +kernel

/-- every extended entry: not a strict codon, and every IUPAC expansion codes the listed residue -/
def chkExtended : Bool :=
  Gen.extendedGencode.all fun p => (stdTranslate p.1).isNone && allExpansionsCode p.1 p.2
theorem chkExtended_true : chkExtended = true := by decide +kernel

theorem extended_sound (c : List Char) (a : Char) (h : Gen.extendedGencode.lookup c = some a) :
    stdTranslate c = none ∧ allExpansionsCode c a = true := by
  have := all_of_mem _ _ chkExtended_true _ (lookup_mem _ _ _ h)
  simpa using this

theorem allExpansionsCode_isSome (c : List Char) (a : Char) (h : allExpansionsCode c a = true) :
    (expansions c).isSome = true := by
  unfold allExpansionsCode at h
  cases he : expansions c with
  | none => simp [he] at h
  | some es => rfl

/-- **translate**: for every text `val` (any list of characters) and both modes the modelled
    `Codon.translate` satisfies the specification (valid codons) -/
theorem translate_ok (val : List Char) (strict : Bool) (hv : (expansions val).isSome = true) :
    okTranslate val strict (some (translate val strict)) = true := by
  cases hg : Gen.gencode.lookup val with
  | some a =>
    have := all_of_mem _ _ chkTranslateHit_true _ (lookup_mem _ _ _ hg)
    simp only [Bool.and_eq_true] at this
    cases strict
    · exact this.2
    · exact this.1
  | none =>
    have hs : stdTranslate val = none := by rw [← gencode_lookup, hg]
    cases he : expansions val with
    | none => simp [he] at hv
    | some es =>
      unfold okTranslate translate
      simp only [he, hg, hs]
      cases strict
      · cases hx : Gen.extendedGencode.lookup val with
        | none => simp
        | some a =>
          have := (extended_sound val a hx).2
          simp [this]
      · simp

/-- raw form: construction + translation; invalid texts are refused -/
theorem translate_raw_ok (s : List Char) (strict : Bool) :
    okTranslate (upper s) strict (ansP ((mkCodon s).map (fun v => translate v strict))) = true := by
  rw [mkCodon_eq]
  by_cases hv : (expansions (upper s)).isSome = true
  · simp only [hv, if_true, Except.map, ansP_ok]
    exact translate_ok _ _ hv
  · simp only [hv, Except.map]
    unfold okTranslate
    cases he : expansions (upper s) with
    | none => rfl
    | some es => simp [he] at hv

/-- nothing but the standard code and sound ambiguous calls: any residue other than `X` returned for a valid
    codon is coded by EVERY expansion of the codon -/
theorem translate_sound (val : List Char) (strict : Bool)
    (hx : translate val strict ≠ 'X') : allExpansionsCode val (translate val strict) = true := by
  cases hg : Gen.gencode.lookup val with
  | some a =>
    have hmem := lookup_mem _ _ _ hg
    have : (Gen.gencode.all fun p => allExpansionsCode p.1 p.2) = true := by decide +kernel
    have h2 := all_of_mem _ _ this _ hmem
    simpa [translate, hg] using h2
  | none =>
    cases strict
    · cases hxg : Gen.extendedGencode.lookup val with
      | none => simp [translate, hg, hxg] at hx
      | some a => simpa [translate, hg, hxg] using (extended_sound val a hxg).2
    · simp [translate, hg] at hx

/-! ### aacodons -/

def chkAaRows : Bool := Gen.aacodons.all fun p => okAaCodons p.1 (some p.2)
theorem chkAaRows_true : chkAaRows = true := by decide +kernel

def nodupC : List Char → Bool
  | [] => true
  | x :: xs => !xs.contains x && nodupC xs

theorem aacodons_keys_nodup : nodupC (Gen.aacodons.map (·.1)) = true := by decide +kernel
theorem aacodons_total_count : ((Gen.aacodons.map (·.2.length)).foldl (· + ·) 0) = 64 := by decide +kernel

def chkAaCovers : Bool :=
  stdCode.all fun p => match Gen.aacodons.lookup p.2 with | some cs => cs.contains p.1 | none => false
theorem chkAaCovers_true : chkAaCovers = true := by decide +kernel

theorem aacodons_row (aa : Char) (cs : List (List Char)) (h : Gen.aacodons.lookup aa = some cs) :
    okAaCodons aa (some cs) = true :=
  all_of_mem _ _ chkAaRows_true _ (lookup_mem _ _ _ h)

theorem mem_codonsOf (c : List Char) (a : Char) : c ∈ codonsOf a ↔ stdTranslate c = some a := by
  unfold codonsOf
  rw [List.mem_filter]
  constructor
  · intro h; simpa using h.2
  · intro h
    refine ⟨?_, by simp [h]⟩
    have := lookup_mem _ _ _ h
    exact (List.of_mem_zip this).1

theorem sameSet_mem (xs ys : List (List Char)) (h : sameSet xs ys = true) (c : List Char) : c ∈ xs ↔ c ∈ ys := by
  unfold sameSet at h
  simp only [Bool.and_eq_true] at h
  exact mem_iff_of_all xs ys h.1 h.2 c

/-- a row of `aacodons` holds exactly the codons of its residue -/
theorem aacodons_row_mem (aa : Char) (cs : List (List Char)) (h : Gen.aacodons.lookup aa = some cs)
    (c : List Char) : c ∈ cs ↔ stdTranslate c = some aa := by
  have := aacodons_row aa cs h
  unfold okAaCodons at this
  simp only [Bool.and_eq_true] at this
  rw [sameSet_mem _ _ this.1.2, mem_codonsOf]

/-- every strict codon is in the row of its residue -/
theorem aacodons_covers (c : List Char) (a : Char) (h : stdTranslate c = some a) :
    ∃ cs, Gen.aacodons.lookup a = some cs ∧ c ∈ cs := by
  have := all_of_mem _ _ chkAaCovers_true _ (lookup_mem _ _ _ h)
  simp only at this
  cases hl : Gen.aacodons.lookup a with
  | none => simp [hl] at this
  | some cs => exact ⟨cs, rfl, by simpa [hl] using this⟩

/-! ### synonymous codons / stop / start -/

def okSynB (val : List Char) : Bool :=
  okSynonymous val true (ansP (synonymousCodons val true)) && okSynonymous val false (ansP (synonymousCodons val false))

theorem chkSynHit_true : (Gen.gencode.all fun p => okSynB p.1) = true := by decide +kernel
theorem chkSynExt_true :
    (Gen.extendedGencode.all fun p => (Gen.gencode.lookup p.1).isSome || okSynB p.1) = true := by decide +kernel

theorem synonymous_ok (val : List Char) (incl : Bool) (hv : (expansions val).isSome = true) :
    okSynonymous val incl (ansP (synonymousCodons val incl)) = true := by
  suffices h : okSynB val = true by
    unfold okSynB at h
    simp only [Bool.and_eq_true] at h
    cases incl
    · exact h.2
    · exact h.1
  cases hg : Gen.gencode.lookup val with
  | some a => exact all_of_mem _ _ chkSynHit_true _ (lookup_mem _ _ _ hg)
  | none =>
    cases hx : Gen.extendedGencode.lookup val with
    | some a =>
      have := all_of_mem _ _ chkSynExt_true _ (lookup_mem _ _ _ hx)
      simpa [hg] using this
    | none =>
      have hs : stdTranslate val = none := by rw [← gencode_lookup, hg]
      cases he : expansions val with
      | none => simp [he] at hv
      | some es =>
        simp [okSynB, okSynonymous, synonymousCodons, translate, hg, hx, hs, he]

def chkStops : Bool :=
  match Gen.aacodons.lookup '*' with
  | some cs => cs.all (fun c => stopCodons.contains c) && stopCodons.all (fun c => cs.contains c)
  | none => false
theorem chkStops_true : chkStops = true := by decide +kernel

theorem isStop_ok (val : List Char) (hv : (expansions val).isSome = true) :
    okIsStop val (ansP (isStopCodon val)) = true := by
  have hc := chkStops_true
  unfold chkStops at hc
  cases he : expansions val with
  | none => simp [he] at hv
  | some es =>
    cases hl : Gen.aacodons.lookup '*' with
    | none => simp [hl] at hc
    | some cs =>
      simp only [hl, Bool.and_eq_true] at hc
      simp [okIsStop, isStopCodon, dictGetE, hl, he]
      exact mem_iff_of_all cs stopCodons hc.1 hc.2 val

/-- stop codons are exactly the codons the standard code translates to `*` -/
theorem stop_iff_star (c : List Char) : stopCodons.contains c = true ↔ stdTranslate c = some '*' := by
  have h1 : (stopCodons.all fun c => stdTranslate c == some '*') = true := by decide +kernel
  have h2 : (stdCode.all fun p => p.2 != '*' || stopCodons.contains p.1) = true := by decide +kernel
  constructor
  · intro h
    have := all_of_mem _ _ h1 c (by simpa using h)
    simpa using this
  · intro h
    have := all_of_mem _ _ h2 _ (lookup_mem _ _ _ h)
    simpa using this

def chkStartKeys : Bool := Gen.startCodons.map (·.1) == startCodonsOf.map (·.1)
theorem chkStartKeys_true : chkStartKeys = true := by decide +kernel

def chkStarts : Bool :=
  Gen.startCodons.all fun p =>
    match startCodonsOf.lookup p.1 with
    | some ws => p.2.all (fun c => ws.contains c) && ws.all (fun c => p.2.contains c) && nodupB p.2
    | none => false
theorem chkStarts_true : chkStarts = true := by decide +kernel

theorem startKeys_nodup : Gen.startCodons.map (·.1) = [0, 1, 11] := by decide +kernel

/-- per table: the generated start-codon set has exactly the NCBI members (every codon text) -/
theorem startCodons_spec (t : Int) (c : List Char) :
    (match Gen.startCodons.lookup t with | some cs => some (cs.contains c) | none => none) =
    (match startCodonsOf.lookup t with | some ws => some (ws.contains c) | none => none) := by
  cases hl : Gen.startCodons.lookup t with
  | some cs =>
    have := all_of_mem _ _ chkStarts_true _ (lookup_mem _ _ _ hl)
    simp only at this
    cases hw : startCodonsOf.lookup t with
    | none => simp [hw] at this
    | some ws =>
      simp only [hw, Bool.and_eq_true] at this
      simp only [Option.some.injEq]
      exact contains_congr cs ws this.1.1 this.1.2 c
  | none =>
    have h1 := lookup_isSome_keys Gen.startCodons t
    have h2 := lookup_isSome_keys startCodonsOf t
    have hk : Gen.startCodons.map (·.1) = startCodonsOf.map (·.1) := by simpa [chkStartKeys] using chkStartKeys_true
    rw [hk, ← h2, hl] at h1
    cases hw : startCodonsOf.lookup t with
    | none => rfl
    | some ws => simp [hw] at h1

theorem isStart_ok (val : List Char) (t : Int) (hv : (expansions val).isSome = true) :
    okIsStart val t (ansP (isStartCodon val t)) = true := by
  have := startCodons_spec t val
  cases he : expansions val with
  | none => simp [he] at hv
  | some es =>
    unfold okIsStart isStartCodon dictGetE
    simp only [he]
    cases hl : Gen.startCodons.lookup t with
    | some cs =>
      cases hw : startCodonsOf.lookup t with
      | none => simp [hl, hw] at this
      | some ws => simp [hl, hw] at this; simp [this]
    | none =>
      cases hw : startCodonsOf.lookup t with
      | none => simp
      | some ws => simp [hl, hw] at this

theorem isStrict_ok (val : List Char) (hv : (expansions val).isSome = true) :
    okIsStrict val (some (isStrictCodon val)) = true := by
  cases he : expansions val with
  | none => simp [he] at hv
  | some es =>
    unfold okIsStrict isStrictCodon
    simp only [he, gencode_lookup]
    have h1 : (stdTranslate val).isSome = (stdCode.map (·.1)).contains val := lookup_isSome_keys _ _
    have h2 : stdCode.map (·.1) = allCodons := by decide +kernel
    rw [h1, h2]; simp

end BioCantor.Proofs.Tab
