/-
  C09 helper lemmas, part 9: `query_by_interval_guids` (and the typed variants) = the set-builder specification.
-/
import BioCantor.Proofs.QueryIntervals
set_option linter.unusedSimpArgs false
namespace BioCantor.Proofs.Query
open BioCantor BioCantor.Spec BioCantor.Spec.Query BioCantor.Model.Query

/-- grandchild guids: distinct inside a child (the constructors raise Duplicate…Error otherwise) and owned by one
    child (`interval_guids_to_collections` raises otherwise) -/
structure GcWF (src : Source) : Prop where
  nodup : ∀ c ∈ src.children, (c.gcs.map GChild.guid).Nodup
  owner : ∀ c ∈ src.children, ∀ c2 ∈ src.children, ∀ x ∈ c.gcs, ∀ x2 ∈ c2.gcs, x.guid = x2.guid → c = c2

theorem mapQ_eq_filterMap {α β} (f : α → QR β) (F : α → Option β) (l : List α)
    (h : ∀ x ∈ l, ∃ y, f x = .ok y ∧ F x = some y) : mapQ f l = .ok (l.filterMap F) := by
  induction l with
  | nil => rfl
  | cons x xs ih =>
    obtain ⟨y, h1, h2⟩ := h x List.mem_cons_self
    unfold mapQ
    rw [h1, ih (fun z hz => h z (List.mem_cons_of_mem _ hz))]
    simp only [List.filterMap_cons, h2]
    rfl

theorem perm_of_char {β} (keptM keptS : List Child) (TM TS : Child → β) (gid : β → Nat)
    (hM : (keptM.map Child.guid).Nodup) (hS : (keptS.map Child.guid).Nodup)
    (hgM : ∀ c, gid (TM c) = c.guid) (hgS : ∀ c, gid (TS c) = c.guid)
    (hmem : ∀ y, y ∈ keptM.map TM ↔ y ∈ keptS.map TS) : (keptM.map TM).Perm (keptS.map TS) := by
  rw [List.perm_ext_iff_of_nodup]
  · exact hmem
  · apply nodup_of_nodup_map gid
    rw [List.map_map]
    have : gid ∘ TM = Child.guid := by funext c; exact hgM c
    rw [this]; exact hM
  · apply nodup_of_nodup_map gid
    rw [List.map_map]
    have : gid ∘ TS = Child.guid := by funext c; exact hgS c
    rw [this]; exact hS

/-! ### owners -/

theorem intervalOwner_some (src : Source) (g : Nat) (c : Child) (h : intervalOwner src g = some c) :
    c ∈ src.children ∧ ∃ x ∈ c.gcs, x.guid = g := by
  unfold intervalOwner at h
  refine ⟨mem_iterChildren.mp (List.mem_reverse.mp (List.mem_of_find?_eq_some h)), ?_⟩
  have := List.find?_some h
  simp only [List.any_eq_true, beq_iff_eq] at this
  exact this

theorem intervalOwner_of_mem (src : Source) (gw : GcWF src) (c : Child) (hc : c ∈ src.children)
    (x : GChild) (hx : x ∈ c.gcs) : intervalOwner src x.guid = some c := by
  unfold intervalOwner
  cases hf : (iterChildren src).reverse.find? (fun c => c.gcs.any (fun y => y.guid == x.guid)) with
  | none =>
    rw [List.find?_eq_none] at hf
    exact absurd (by simp only [List.any_eq_true, beq_iff_eq]; exact ⟨x, hx, rfl⟩)
      (hf c (List.mem_reverse.mpr (mem_iterChildren.mpr hc)))
  | some c2 =>
    have hc2 := mem_iterChildren.mp (List.mem_reverse.mp (List.mem_of_find?_eq_some hf))
    have hk := List.find?_some hf
    simp only [List.any_eq_true, beq_iff_eq] at hk
    obtain ⟨x2, hx2, hg⟩ := hk
    rw [gw.owner c2 hc2 c hc x2 hx2 x hx hg]

/-- a requested grandchild exists iff the picked list has a hull -/
theorem pick_nonempty_of (ids : List Nat) (c : Child) (hg : (c.gcs.map GChild.guid).Nodup)
    (x : GChild) (hx : x ∈ c.gcs) (hid : x.guid ∈ ids) :
    ∃ a b, hullOf ((pickGcs ids c).map fun g => (g.start, g.stop)) = some (a, b) := by
  have hm : x ∈ pickGcs ids c := by
    unfold pickGcs
    rw [List.mem_filterMap]
    exact ⟨x.guid, hid, dictGet_of_mem _ _ hg x hx⟩
  cases h : hullOf ((pickGcs ids c).map fun g => (g.start, g.stop)) with
  | none =>
    rw [hullOf_eq_none_iff] at h
    have := List.eq_nil_of_map_eq_nil h
    rw [this] at hm; cases hm
  | some p => exact ⟨p.1, p.2, rfl⟩

theorem pick_has_requested (ids : List Nat) (c : Child) (a b : Int)
    (h : hullOf ((pickGcs ids c).map fun g => (g.start, g.stop)) = some (a, b)) :
    ∃ x ∈ c.gcs, x.guid ∈ ids := by
  cases hp : pickGcs ids c with
  | nil => rw [hp] at h; simp [hullOf, minList] at h
  | cons x xs =>
    have hm : x ∈ pickGcs ids c := by rw [hp]; exact List.mem_cons_self
    unfold pickGcs at hm
    rw [List.mem_filterMap] at hm
    obtain ⟨k, hk, hd⟩ := hm
    obtain ⟨h1, h2⟩ := dictGet_some _ _ _ _ hd
    exact ⟨x, h1, by rw [h2]; exact hk⟩

/-! ### the two kept lists, characterised -/

/-- a child of a requested kind with a requested grandchild, and the hull of those -/
def IsOwner (src : Source) (kinds : List Kind) (ids : List Nat) (c : Child) (a b : Int) : Prop :=
  c ∈ src.children ∧ kinds.contains c.kind = true ∧
    hullOf ((pickGcs ids c).map fun g => (g.start, g.stop)) = some (a, b)

def reducedM (ids : List Nat) (c : Child) (a b : Int) : Child := { c with gcs := pickM ids c, start := a, stop := b }
def reducedS (ids : List Nat) (c : Child) (a b : Int) : Child := { c with gcs := filterGcs ids c, start := a, stop := b }

theorem mem_keptS (src : Source) (gw : GcWF src) (kinds : List Kind) (ids : List Nat) (hids : ids.Nodup) (y : Child) :
    y ∈ keptByIntervalGuids src kinds ids ↔ ∃ c a b, IsOwner src kinds ids c a b ∧ y = reducedS ids c a b := by
  unfold keptByIntervalGuids
  rw [List.mem_filterMap]
  constructor
  · rintro ⟨c, hc, h⟩
    split at h
    · rename_i hk
      cases hh : hullOf ((pickGcs ids c).map fun g => (g.start, g.stop)) with
      | none => rw [reduceChild_none ids c (gw.nodup c hc) hids hh] at h; cases h
      | some p =>
        obtain ⟨a, b⟩ := p
        rw [reduceChild_some ids c (gw.nodup c hc) hids a b hh] at h
        simp only [Option.some.injEq] at h
        exact ⟨c, a, b, ⟨hc, hk, hh⟩, h.symm⟩
    · cases h
  · rintro ⟨c, a, b, ⟨hc, hk, hh⟩, rfl⟩
    refine ⟨c, hc, ?_⟩
    simp only [hk, if_true]
    exact reduceChild_some ids c (gw.nodup c hc) hids a b hh

/-- the model's per-owner step as a partial function of the owner's guid -/
def stepF (src : Source) (ids : List Nat) (g : Nat) : Option Child :=
  match dictGet Child.guid (iterChildren src) g with
  | none => none
  | some c =>
    match hullOf ((pickGcs ids c).map fun x => (x.start, x.stop)) with
    | none => none
    | some (a, b) => some (reducedM ids c a b)

theorem stepF_some (src : Source) (ids : List Nat) (g : Nat) (y : Child) (h : stepF src ids g = some y) :
    ∃ c a b, c ∈ src.children ∧ c.guid = g ∧
      hullOf ((pickGcs ids c).map fun x => (x.start, x.stop)) = some (a, b) ∧ y = reducedM ids c a b := by
  unfold stepF at h
  split at h
  · cases h
  · rename_i c hd
    obtain ⟨hm, hg⟩ := dictGet_some _ _ _ _ hd
    split at h
    · cases h
    · rename_i a b hh
      simp only [Option.some.injEq] at h
      exact ⟨c, a, b, mem_iterChildren.mp hm, hg, hh, h.symm⟩

theorem stepF_of (src : Source) (wf : SrcWF src) (ids : List Nat) (c : Child) (hc : c ∈ src.children) (a b : Int)
    (hh : hullOf ((pickGcs ids c).map fun x => (x.start, x.stop)) = some (a, b)) :
    stepF src ids c.guid = some (reducedM ids c a b) := by
  have hndI : ((iterChildren src).map Child.guid).Nodup :=
    (((iterChildren_perm src).map Child.guid).nodup_iff).mpr wf.guids
  unfold stepF
  rw [dictGet_of_mem _ _ hndI c (mem_iterChildren.mpr hc)]
  simp only [hh]

theorem mem_ownerGuids (src : Source) (_wf : SrcWF src) (gw : GcWF src) (kinds : List Kind) (ids : List Nat) (g : Nat) :
    g ∈ ownerGuidsOf src kinds ids ↔
      ∃ c, c ∈ src.children ∧ c.guid = g ∧ kinds.contains c.kind = true ∧ ∃ x ∈ c.gcs, x.guid ∈ ids := by
  unfold ownerGuidsOf
  rw [mem_dedup, List.mem_map]
  constructor
  · rintro ⟨c, hc, rfl⟩
    rw [List.mem_filter, List.mem_filterMap] at hc
    obtain ⟨⟨k, hk, ho⟩, hkind⟩ := hc
    obtain ⟨hm, x, hx, hxg⟩ := intervalOwner_some src k c ho
    exact ⟨c, hm, rfl, hkind, x, hx, by rw [hxg]; exact hk⟩
  · rintro ⟨c, hc, rfl, hkind, x, hx, hid⟩
    refine ⟨c, ?_, rfl⟩
    rw [List.mem_filter, List.mem_filterMap]
    exact ⟨⟨x.guid, hid, intervalOwner_of_mem src gw c hc x hx⟩, hkind⟩

theorem mem_keptM (src : Source) (wf : SrcWF src) (gw : GcWF src) (kinds : List Kind) (ids : List Nat) (y : Child) :
    y ∈ (ownerGuidsOf src kinds ids).filterMap (stepF src ids) ↔
      ∃ c a b, IsOwner src kinds ids c a b ∧ y = reducedM ids c a b := by
  rw [List.mem_filterMap]
  constructor
  · rintro ⟨g, hg, hs⟩
    obtain ⟨c, a, b, hc, hcg, hh, rfl⟩ := stepF_some src ids g y hs
    obtain ⟨c2, hc2, hc2g, hkind, _⟩ := (mem_ownerGuids src wf gw kinds ids g).mp hg
    have : c2 = c := nodup_map_inj Child.guid _ wf.guids c2 hc2 c hc (by omega)
    subst this
    exact ⟨c2, a, b, ⟨hc, hkind, hh⟩, rfl⟩
  · rintro ⟨c, a, b, ⟨hc, hkind, hh⟩, rfl⟩
    obtain ⟨x, hx, hid⟩ := pick_has_requested ids c a b hh
    exact ⟨c.guid, (mem_ownerGuids src wf gw kinds ids c.guid).mpr ⟨c, hc, rfl, hkind, x, hx, hid⟩,
      stepF_of src wf ids c hc a b hh⟩

/-! ### the interval-GUID queries meet their specification -/

theorem pickM_sub (ids : List Nat) (c : Child) (x : GChild) (hx : x ∈ pickM ids c) : x ∈ c.gcs :=
  pick_sub ids c x ((pickM_perm_pick ids c).mem_iff.mp hx)

/-- the hull of a sub-list lies inside the hull of the list -/
theorem hull_sub {l sub : List (Int × Int)} {a b A B : Int} (hs : ∀ p ∈ sub, p ∈ l)
    (h1 : hullOf sub = some (a, b)) (h2 : hullOf l = some (A, B)) : A ≤ a ∧ b ≤ B := by
  obtain ⟨_, hall⟩ := hullOf_some h2
  unfold hullOf at h1
  cases hm : minList (sub.map (·.1)) with
  | none => rw [hm] at h1; simp at h1
  | some m =>
    cases hx : maxList (sub.map (·.2)) with
    | none => rw [hm, hx] at h1; simp at h1
    | some x =>
      rw [hm, hx] at h1
      simp only [Option.some.injEq, Prod.mk.injEq] at h1
      obtain ⟨rfl, rfl⟩ := h1
      rw [minList_eq_some_iff] at hm
      rw [maxList_eq_some_iff] at hx
      obtain ⟨p, hp, hp1⟩ := List.mem_map.mp hm.1
      obtain ⟨q, hq, hq1⟩ := List.mem_map.mp hx.1
      have := hall p (hs p hp)
      have := hall q (hs q hq)
      omega

theorem keptS_guids_nodup (src : Source) (wf : SrcWF src) (kinds : List Kind) (ids : List Nat) :
    ((keptByIntervalGuids src kinds ids).map Child.guid).Nodup := by
  unfold keptByIntervalGuids
  have h := wf.guids
  rw [List.nodup_iff_pairwise_ne, List.pairwise_map] at h ⊢
  refine List.Pairwise.filterMap _ ?_ h
  intro c c' hne y hy y' hy'
  have e1 : y.guid = c.guid := by
    split at hy
    · unfold reduceChild at hy
      simp only at hy
      split at hy
      · cases hy
      · simp only [Option.some.injEq] at hy; rw [← hy]
    · cases hy
  have e2 : y'.guid = c'.guid := by
    split at hy'
    · unfold reduceChild at hy'
      simp only at hy'
      split at hy'
      · cases hy'
      · simp only [Option.some.injEq] at hy'; rw [← hy']
    · cases hy'
  rw [e1, e2]; exact hne

theorem keptM_guids_nodup (src : Source) (kinds : List Kind) (ids : List Nat) :
    (((ownerGuidsOf src kinds ids).filterMap (stepF src ids)).map Child.guid).Nodup := by
  have h := nodup_dedup (((ids.filterMap (intervalOwner src)).filter (fun c => kinds.contains c.kind)).map Child.guid)
  unfold ownerGuidsOf
  rw [List.nodup_iff_pairwise_ne] at h
  rw [List.nodup_iff_pairwise_ne, List.pairwise_map]
  refine List.Pairwise.filterMap _ ?_ h
  intro g g' hne y hy y' hy'
  obtain ⟨c, a, b, _, hcg, _, rfl⟩ := stepF_some src ids g y hy
  obtain ⟨c', a', b', _, hcg', _, rfl⟩ := stepF_some src ids g' y' hy'
  simp only [reducedM]
  omega

/-- T3c: `query_by_interval_guids` (kinds = all), `query_by_transcript_interval_guids`, `query_by_feature_interval_guids`:
    exactly the children of a requested kind that own a requested grandchild, each reduced to its requested
    grandchildren (span = their hull).  Genes, feature collections and variant collections (`hvar`: the variants
    of a collection are listed by start, pairwise disjoint and non-empty, as its constructor establishes). -/
theorem queryByIntervalGuids_meets (src : Source) (wf : SrcWF src) (gw : GcWF src) (kinds : List Kind)
    (ids : List Nat) (hids : ids.Nodup) (hvar : ∀ c ∈ src.children, c.kind = .var → VarOK c) (bs be : Int)
    (hb : selfBounds src = some (bs, be)) :
    okQueryByIntervalGuids src kinds ids (toAns (queryByIntervalGuids src kinds ids)) = true := by
  have hndI : ((iterChildren src).map Child.guid).Nodup :=
    (((iterChildren_perm src).map Child.guid).nodup_iff).mpr wf.guids
  -- the monadic loop succeeds and yields `ownerGuids.filterMap stepF`
  have hmap : mapQ (ownerStep src ids) (ownerGuidsOf src kinds ids)
      = .ok ((ownerGuidsOf src kinds ids).filterMap (stepF src ids)) := by
    apply mapQ_eq_filterMap
    intro g hg
    obtain ⟨c, hc, hcg, hkind, x, hx, hid⟩ := (mem_ownerGuids src wf gw kinds ids g).mp hg
    obtain ⟨a, b, hh⟩ := pick_nonempty_of ids c (gw.nodup c hc) x hx hid
    refine ⟨reducedM ids c a b, ?_, ?_⟩
    · unfold ownerStep
      rw [← hcg, dictGet_of_mem _ _ hndI c (mem_iterChildren.mpr hc)]
      simp only [bind, Except.bind]
      rw [childQueryByGuids_some src.par c ids (hvar c hc) (gw.nodup c hc) hids a b hh]
      rfl
    · rw [← hcg]; exact stepF_of src wf ids c hc a b hh
  unfold okQueryByIntervalGuids queryByIntervalGuids
  rw [checkSource_ok wf.cons]
  simp only [bind, Except.bind]
  rw [hmap]
  simp only []
  -- facts about owners
  have hown : ∀ c a b, IsOwner src kinds ids c a b →
      (∀ x ∈ pickM ids c, x ∈ c.gcs) ∧ c.start ≤ a ∧ b ≤ c.stop := by
    intro c a b ⟨hc, _, hh⟩
    refine ⟨fun x hx => pickM_sub ids c x hx, ?_⟩
    exact hull_sub (l := c.gcs.map fun g => (g.start, g.stop))
      (fun p hp => by
        obtain ⟨x, hx, rfl⟩ := List.mem_map.mp hp
        exact List.mem_map_of_mem (pick_sub ids c x hx)) hh (wf.hull c hc).1
  have hM := keptM_guids_nodup src kinds ids
  have hS := keptS_guids_nodup src wf kinds ids
  apply returnForIdQueries_meets_gen src wf bs be hb _ (keptByIntervalGuids src kinds ids)
  · -- rebuilt members have their hull as span
    intro y hy
    have := (mem_keptM src wf gw kinds ids y).mp hy
    obtain ⟨c, a, b, ho, rfl⟩ := this
    refine ⟨?_, fun g hg => ?_⟩
    · have := hullOf_perm ((pickM_perm_pick ids c).map fun g => (g.start, g.stop))
      simp only [reducedM]
      rw [this]; exact ho.2.2
    · exact (wf.hull c ho.1).2 g ((hown c a b ho).1 g hg)
  · -- spans
    have hp := perm_of_char _ (keptByIntervalGuids src kinds ids)
      (fun c => (c.guid, (c.start, c.stop))) (fun c => (c.guid, (c.start, c.stop))) Prod.fst hM hS
      (fun _ => rfl) (fun _ => rfl) (by
        intro y
        simp only [List.mem_map]
        constructor
        · rintro ⟨z, hz, rfl⟩
          obtain ⟨c, a, b, ho, rfl⟩ := (mem_keptM src wf gw kinds ids z).mp hz
          exact ⟨reducedS ids c a b, (mem_keptS src gw kinds ids hids _).mpr ⟨c, a, b, ho, rfl⟩, rfl⟩
        · rintro ⟨z, hz, rfl⟩
          obtain ⟨c, a, b, ho, rfl⟩ := (mem_keptS src gw kinds ids hids z).mp hz
          refine ⟨reducedM ids c a b, ?_, rfl⟩
          exact (mem_keptM src wf gw kinds ids (reducedM ids c a b)).mpr ⟨c, a, b, ho, rfl⟩)
    have := hp.map Prod.snd
    simp only [List.map_map] at this
    exact this
  · -- members in normal form
    intro rp rp' hrp hshape
    apply perm_of_char _ (keptByIntervalGuids src kinds ids) _ _ (fun x : RChild => x.guid) hM hS
      (fun _ => rfl) (fun _ => rfl)
    intro y
    have key : ∀ c a b, IsOwner src kinds ids c a b →
        (liftChildP rp (reducedM ids c a b)).norm = (expectChild rp' (reducedS ids c a b)).norm := by
      intro c a b ho
      have hc := ho.1
      exact reduced_norm_eq rp rp' hrp c (pickM ids c) (filterGcs ids c) a b
        ((pickM_perm_pick ids c).trans (pickGcs_perm ids c (gw.nodup c hc) hids))
        (by
          have hg := gw.nodup c hc
          unfold filterGcs
          rw [List.nodup_iff_pairwise_ne, List.pairwise_map] at hg ⊢
          exact List.Pairwise.filter _ hg)
        (fun x hx => gc_mseq_norm src wf rp hshape c hc x (List.mem_filter.mp hx).1)
    simp only [List.mem_map]
    constructor
    · rintro ⟨z, hz, rfl⟩
      obtain ⟨c, a, b, ho, rfl⟩ := (mem_keptM src wf gw kinds ids z).mp hz
      exact ⟨reducedS ids c a b, (mem_keptS src gw kinds ids hids _).mpr ⟨c, a, b, ho, rfl⟩, (key c a b ho).symm⟩
    · rintro ⟨z, hz, rfl⟩
      obtain ⟨c, a, b, ho, rfl⟩ := (mem_keptS src gw kinds ids hids z).mp hz
      refine ⟨reducedM ids c a b, ?_, key c a b ho⟩
      exact (mem_keptM src wf gw kinds ids (reducedM ids c a b)).mpr ⟨c, a, b, ho, rfl⟩
  · exact hS

/-! ### `child.query_by_guids` observed directly -/

def toCAns : QR (Option RChild) → CAns
  | .ok none => .none
  | .ok (some r) => .some r
  | .error _ => .raised

theorem toRPar_shape (src : Source) (wf : SrcWF src) : RPShape src src.par.toRPar := by
  have hpar := wf.par
  unfold ParWF at hpar
  unfold RPShape Par.toRPar
  cases hp : src.par with
  | none => trivial
  | noseq => trivial
  | whole seq => rfl
  | chunk cs seq => rw [hp] at hpar; exact ⟨by omega, hpar.1, rfl⟩

/-- T3d: `GeneInterval / FeatureIntervalCollection / VariantIntervalCollection.query_by_guids`: `None` iff no
    grandchild is requested, else the same child (guid, identifiers) reduced to the requested ones, on the
    unchanged parent. -/
theorem childQuery_meets (src : Source) (wf : SrcWF src) (gw : GcWF src) (c : Child) (hc : c ∈ src.children)
    (hk : c.kind = .var → VarOK c) (ids : List Nat) (hids : ids.Nodup) :
    okChildQueryByGuids src c ids (toCAns (childQueryResult src c ids)) = true := by
  unfold okChildQueryByGuids childQueryResult
  rw [checkSource_ok wf.cons]
  cases hh : hullOf ((pickGcs ids c).map fun g => (g.start, g.stop)) with
  | none =>
    rw [reduceChild_none ids c (gw.nodup c hc) hids hh]
    simp only [bind, Except.bind]
    rw [childQueryByGuids_none src.par c ids hh]
    rfl
  | some p =>
    obtain ⟨a, b⟩ := p
    rw [reduceChild_some ids c (gw.nodup c hc) hids a b hh]
    simp only [bind, Except.bind]
    rw [childQueryByGuids_some src.par c ids hk (gw.nodup c hc) hids a b hh]
    simp only [pure, Except.pure, toCAns, beq_iff_eq]
    exact reduced_norm_eq src.par.toRPar src.par.toRPar rfl c (pickM ids c) (filterGcs ids c) a b
      ((pickM_perm_pick ids c).trans (pickGcs_perm ids c (gw.nodup c hc) hids))
      (by
        have hg := gw.nodup c hc
        unfold filterGcs
        rw [List.nodup_iff_pairwise_ne, List.pairwise_map] at hg ⊢
        exact List.Pairwise.filter _ hg)
      (fun x hx => gc_mseq_norm src wf _ (toRPar_shape src wf) c hc x (List.mem_filter.mp hx).1)

end BioCantor.Proofs.Query
