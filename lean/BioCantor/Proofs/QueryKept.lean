/-
  C09 helper lemmas, part 1: the loop of `_query_by_position` keeps exactly the children of `Spec.keepSpec`.
  The bin pre-filter is discharged with the C16 theorems about the GENERATED `Gen.bins`.
-/
import BioCantor.Model.Query
import BioCantor.Props.C16
namespace BioCantor.Proofs.Query
open BioCantor BioCantor.Spec BioCantor.Spec.Query BioCantor.Model.Query BioCantor.GenP BioCantor.Gen

/-- What the constructors establish for a child: at least one grandchild, every grandchild a valid interval inside
    the child's span (the span is the min/max over the grandchildren). -/
def ChildWF (c : Child) : Prop :=
  c.gcs ≠ [] ∧ ∀ g ∈ c.gcs, c.start ≤ g.start ∧ g.start ≤ g.stop ∧ g.stop ≤ c.stop

theorem ChildWF.span_valid {c : Child} (h : ChildWF c) : c.start ≤ c.stop := by
  obtain ⟨hne, hall⟩ := h
  match hg : c.gcs with
  | [] => exact absurd hg hne
  | g :: _ =>
    have := hall g (by rw [hg]; exact List.mem_cons_self)
    omega

/-! ### span kernels -/

theorem overlapInt_iff (s e a b : Int) (h1 : s ≤ e) (h2 : a ≤ b) :
    overlapInt (s, e) (a, b) = decide (a < e ∧ s < b ∧ a < b ∧ s < e) := by
  unfold overlapInt
  simp only []
  repeat' split
  all_goals (simp only [decide_eq_true_eq, Bool.false_eq, decide_eq_false_iff_not, Bool.true_eq]; omega)

theorem containsInt_iff (s e a b : Int) (h : s < e) (h2 : a ≤ b) :
    containsInt (s, e) (a, b) = decide (s ≤ a ∧ b ≤ e ∧ a < b) := by
  unfold containsInt
  rw [overlapInt_iff _ _ _ _ (by omega) h2]
  simp only []
  repeat' split
  all_goals (simp only [Bool.false_eq, decide_eq_false_iff_not, Bool.not_eq_true', decide_eq_decide] at *; omega)

/-! ### the bin pre-filter -/

theorem gcBinIn_eq (S : RangeSet) (g : GChild) :
    gcBinIn S g = .ok (S.mem (expectBin g.start g.stop 0)) := by
  unfold gcBinIn
  rw [Props.C16.bins_one_bed]
  rfl

theorem anyBinIn_eq (S : RangeSet) (gs : List GChild) :
    anyBinIn S gs = .ok (gs.any fun g => S.mem (expectBin g.start g.stop 0)) := by
  induction gs with
  | nil => rfl
  | cons g gs ih =>
    unfold anyBinIn
    rw [gcBinIn_eq, ih]
    simp only [bind, Except.bind, pure, Except.pure, List.any_cons]
    cases S.mem (expectBin g.start g.stop 0) <;> rfl

theorem binsAll_total (s e : Int) : ∃ S, binsAll s e = .ok S ∧ bins s e .bed false = .ok (.many S) := by
  obtain ⟨S, hS⟩ := Props.C16.bins_all_is_set s e .bed
  exact ⟨S, by unfold binsAll; rw [hS]; rfl, hS⟩

/-- THE use of C16: a child whose span lies in the (valid, non-negative) query range has a grandchild whose bin is
    in the query's bin set — so the pre-filter never drops a child that the span test would keep. -/
theorem prefilter_never_hides (s e : Int) (S : RangeSet) (c : Child) (hc : ChildWF c)
    (hs : 0 ≤ s) (hS : bins s e .bed false = .ok (.many S)) (hin : s ≤ c.start ∧ c.stop ≤ e) :
    (c.gcs.any fun g => S.mem (expectBin g.start g.stop 0)) = true := by
  obtain ⟨hne, hall⟩ := hc
  match hg : c.gcs with
  | [] => exact absurd hg hne
  | g :: rest =>
    have hgm := hall g (by rw [hg]; exact List.mem_cons_self)
    have := Props.C16.never_hides_bed s e g.start g.stop S hs (by omega) (by omega) (by omega) hS
    simp only [List.any_cons, this, Bool.true_or]

/-! ### one loop iteration -/

theorem isCoding_eq (c : Child) : isCoding c = .ok c.isCoding := by
  unfold isCoding Child.isCoding
  cases c.kind <;> rfl

theorem keepChild_eq (co cw : Bool) (s e : Int) (hs : 0 ≤ s) (hse : s < e) (c : Child) (hc : ChildWF c)
    (myBins : Option RangeSet)
    (hb : myBins = none ∨ (cw = true ∧ ∃ S, myBins = some S ∧ bins s e .bed false = .ok (.many S))) :
    keepChild co cw myBins s e c = .ok (keepSpec co cw s e c) := by
  have hval := hc.span_valid
  -- the part after the coding filter
  have tail : (do
      let skipBins ←
        match myBins with
        | some S => if rsNonEmpty S then (do let hit ← anyBinIn S c.gcs; pure (!hit)) else pure false
        | none => (pure false : QR Bool)
      if skipBins then pure false
      else if cw then pure (containsInt (s, e) (c.start, c.stop))
      else pure (overlapInt (s, e) (c.start, c.stop))) =
      (.ok (if cw then decide (s ≤ c.start ∧ c.stop ≤ e ∧ c.start < c.stop)
            else decide (c.start < e ∧ s < c.stop ∧ c.start < c.stop)) : QR Bool) := by
    rcases hb with hb | ⟨hcw, S, hb, hS⟩
    · subst hb
      simp only [bind, Except.bind, pure, Except.pure, Bool.false_eq_true, if_false]
      cases cw with
      | true => simp only [if_true]; rw [containsInt_iff _ _ _ _ hse hval]
      | false =>
        simp only [Bool.false_eq_true, if_false]; rw [overlapInt_iff _ _ _ _ (by omega) hval]
        congr 1; simp only [decide_eq_decide]; omega
    · subst hb hcw
      simp only [bind, Except.bind, pure, Except.pure, if_true]
      rw [anyBinIn_eq, containsInt_iff _ _ _ _ hse hval]
      by_cases hin : s ≤ c.start ∧ c.stop ≤ e
      · rw [prefilter_never_hides s e S c hc hs hS hin]
        cases rsNonEmpty S <;> simp
      · have : decide (s ≤ c.start ∧ c.stop ≤ e ∧ c.start < c.stop) = false := by
          simp only [decide_eq_false_iff_not]; omega
        rw [this]
        cases rsNonEmpty S <;> cases (c.gcs.any fun g => S.mem (expectBin g.start g.stop 0)) <;> simp
  unfold keepChild keepSpec
  cases co with
  | false =>
    simp only [Bool.false_eq_true, if_false, bind, Except.bind, pure, Except.pure, Bool.not_false, Bool.true_or,
      Bool.true_and] at tail ⊢
    exact tail
  | true =>
    simp only [if_true, bind, Except.bind, pure, Except.pure] at tail ⊢
    rw [isCoding_eq]
    simp only [Bool.not_true, Bool.false_or]
    cases hcd : c.isCoding with
    | false => simp
    | true =>
      simp only [Bool.not_true, Bool.false_eq_true, if_false, Bool.true_and]
      exact tail

/-! ### the loop -/

theorem filterQ_eq (f : Child → QR Bool) (p : Child → Bool) (l : List Child)
    (h : ∀ c ∈ l, f c = .ok (p c)) : filterQ f l = .ok (l.filter p) := by
  induction l with
  | nil => rfl
  | cons c cs ih =>
    unfold filterQ
    rw [h c List.mem_cons_self, ih (fun x hx => h x (List.mem_cons_of_mem _ hx))]
    simp only [bind, Except.bind, pure, Except.pure, List.filter_cons]

end BioCantor.Proofs.Query

namespace BioCantor.Proofs.Query
open BioCantor BioCantor.Spec BioCantor.Spec.Query BioCantor.Model.Query BioCantor.GenP BioCantor.Gen

/-! ### iteration order is a permutation of the children -/

theorem chain_perm (l : List Child) :
    (l.filter (fun c => c.kind = .gene) ++ l.filter (fun c => c.kind = .feat) ++ l.filter (fun c => c.kind = .var)).Perm l := by
  induction l with
  | nil => exact List.Perm.refl _
  | cons c cs ih =>
    cases hk : c.kind with
    | gene =>
      simp only [List.filter_cons, hk, decide_true, if_true, reduceCtorEq, decide_false, Bool.false_eq_true, if_false,
        List.cons_append]
      exact List.Perm.cons c ih
    | feat =>
      simp only [List.filter_cons, hk, decide_true, if_true, reduceCtorEq, decide_false, Bool.false_eq_true, if_false]
      refine List.Perm.trans ?_ (List.Perm.cons c ih)
      simp only [List.append_assoc]
      exact List.perm_middle
    | var =>
      simp only [List.filter_cons, hk, decide_true, if_true, reduceCtorEq, decide_false, Bool.false_eq_true, if_false]
      refine List.Perm.trans ?_ (List.Perm.cons c ih)
      exact List.perm_middle

theorem iterChildren_perm (src : Source) : (iterChildren src).Perm src.children := by
  unfold iterChildren chain ofKind
  exact (List.mergeSort_perm _ _).trans (chain_perm src.children)

theorem mem_iterChildren {src : Source} {c : Child} : c ∈ iterChildren src ↔ c ∈ src.children :=
  (iterChildren_perm src).mem_iff

/-- T1 core: for every valid non-negative range `_query_by_position` keeps exactly `specFilter` of the children
    (in iteration order) — whatever the bin pre-filter does. -/
theorem queryKept_eq (src : Source) (s e : Int) (cw co : Bool) (hs : 0 ≤ s) (hse : s < e)
    (hwf : ∀ c ∈ src.children, ChildWF c) :
    queryKept src s e cw co = .ok (specFilter (iterChildren src) co cw s e) := by
  unfold queryKept specFilter
  by_cases hb : cw = true ∧ s ≠ 0 ∧ e ≠ 0
  · obtain ⟨S, hS1, hS2⟩ := binsAll_total s e
    obtain ⟨hcw, h1, h2⟩ := hb
    subst hcw
    simp only [h1, h2, ne_eq, not_false_eq_true, and_self, if_true, hS1, bind, Except.bind, pure, Except.pure]
    exact filterQ_eq _ _ _ (fun c hc => keepChild_eq co true s e hs hse c (hwf c (mem_iterChildren.mp hc))
      (some S) (Or.inr ⟨rfl, S, rfl, hS2⟩))
  · simp only [hb, if_false, bind, Except.bind, pure, Except.pure]
    exact filterQ_eq _ _ _ (fun c hc => keepChild_eq co cw s e hs hse c (hwf c (mem_iterChildren.mp hc))
      none (Or.inl rfl))

end BioCantor.Proofs.Query
