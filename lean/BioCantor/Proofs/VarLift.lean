/- C13-T3: one variant, lift-over of blocks the variant is wholly inside of / wholly outside of. -/
import BioCantor.Proofs.VarKernel
import BioCantor.Proofs.VarAlt
namespace BioCantor.Proofs.Var
open BioCantor BioCantor.Spec.Variants BioCantor.GenP
open BioCantor.Model.Variants (Var altSeq1 altSeqN altTail kernel liftBlocks liftSingle lift1 reparent toChromosome Par slice
  Ver)

/-! ### reading the haplotype at the image of a range -/

theorem newPos_mono_split (ref : Seq) (es : List Edit) (p q : Nat) (h : p ≤ q) :
    newPos ref es q = newPos ref es p + (image ref es p q).length := by
  unfold newPos
  rw [image_split ref es 0 p q (Nat.zero_le _) h, List.length_append]

/-- the haplotype, read between the images of `p` and `q`, is the edited image of `[p, q)` -/
theorem slice_image (ref : Seq) (es : List Edit) (p q : Nat) (h1 : p ≤ q) (h2 : q ≤ ref.length) :
    ((altOf ref es).drop (newPos ref es p)).take (newPos ref es q - newPos ref es p) = image ref es p q := by
  have hq := newPos_mono_split ref es p q h1
  unfold altOf
  rw [image_split ref es 0 p ref.length (Nat.zero_le _) (by omega),
      image_split ref es p q ref.length h1 h2]
  have : newPos ref es p = (image ref es 0 p).length := rfl
  rw [this, List.drop_left]
  have : newPos ref es q - (image ref es 0 p).length = (image ref es p q).length := by
    rw [hq, this]; omega
  rw [this, List.take_left]

theorem newPos_le_altLen (ref : Seq) (es : List Edit) (p : Nat) (h : p ≤ ref.length) :
    newPos ref es p ≤ (altOf ref es).length := by
  have := newPos_mono_split ref es p ref.length h
  unfold altOf
  unfold newPos at this ⊢
  omega

/-! ### positions under one edit -/

theorem newPos_before (ref : Seq) (x : Edit) (hx : x.s < x.e) (p : Nat) (h : p ≤ x.s) (hn : p ≤ ref.length) :
    newPos ref [x] p = p := by
  unfold newPos
  rw [image_quiet ref [x] 0 p (Nat.zero_le _) hn (by
    intro y hy
    simp only [List.mem_singleton] at hy
    subst hy
    exact ⟨hx, Or.inr h⟩)]
  simp
  omega

theorem newPos_after (ref : Seq) (x : Edit) (hx : x.s < x.e) (p : Nat) (h : x.e ≤ p) (hn : p ≤ ref.length) :
    newPos ref [x] p = x.s + x.alt.length + (p - x.e) := by
  have hiso : Isolated [x] x := ⟨by simp, fun y hy => by
    simp only [List.mem_singleton] at hy; subst hy; exact ⟨hx, Or.inl rfl⟩⟩
  rw [newPos_mono_split ref [x] x.e p h, newPos_mono_split ref [x] x.s x.e (Nat.le_of_lt hx),
      newPos_before ref x hx x.s (Nat.le_refl _) (by omega), image_edit ref [x] x hiso,
      image_quiet ref [x] x.e p h hn (by
        intro y hy
        simp only [List.mem_singleton] at hy
        subst hy
        exact ⟨hx, Or.inl (Nat.le_refl _)⟩)]
  simp
  omega

/-! ### the kernel on clean blocks is the image of the block -/

/-- a block of the haplotype, or nothing when it has no bases -/
def nonEmpty (b : Blk) : Option Blk := if b.1 < b.2 then some b else none

/-- the variant is wholly inside the block, or wholly to its left, or wholly to its right -/
def Clean (v : Var) (b : Blk) : Prop := (b.1 ≤ v.s ∧ v.e ≤ b.2) ∨ v.e ≤ b.1 ∨ b.2 ≤ v.s

instance (v : Var) (b : Blk) : Decidable (Clean v b) := by unfold Clean; infer_instance

theorem kernel_clean (ref : Seq) (v : Var) (b : Blk) (st : Strand) (hv : v.s < v.e) (hvn : v.e ≤ ref.length)
    (hb : b.1 < b.2) (hbn : b.2 ≤ ref.length) (hc : Clean v b) :
    kernel v b st = .ok (nonEmpty (imageBlock ref [toEdit 0 v] b)) := by
  have hx : (toEdit 0 v).s < (toEdit 0 v).e := by simp only [toEdit, Nat.sub_zero]; exact hv
  have hvi : VarOk ⟨v.s, v.e, v.alt.length⟩ := ⟨by simp, by simp only; omega, by simp⟩
  have hbi : BlkOk ⟨b.1, b.2, st⟩ := ⟨by simp, by simp only; omega⟩
  unfold kernel imageBlock nonEmpty
  rcases hc with ⟨h1, h2⟩ | h | h
  · -- inside
    rw [newPos_before ref _ hx b.1 (by simp only [toEdit, Nat.sub_zero]; exact h1) (by omega),
        newPos_after ref _ hx b.2 (by simp only [toEdit, Nat.sub_zero]; exact h2) hbn]
    simp only [toEdit, Nat.sub_zero]
    by_cases hex : b.1 = v.s ∧ b.2 = v.e ∧ v.alt.length = 0
    · have := k_exact_deletion ⟨v.s, v.e, v.alt.length⟩ ⟨b.1, b.2, st⟩ hvi hbi (by simp only; omega)
        (by simp only; omega) (by simp only; omega)
      unfold liftK at this
      rw [this]
      have : ¬ (b.1 < v.s + v.alt.length + (b.2 - v.e)) := by omega
      simp only [this, if_false]; rfl
    · have := k_inside ⟨v.s, v.e, v.alt.length⟩ ⟨b.1, b.2, st⟩ hvi hbi (by simp only; omega)
        (by simp only; omega) (by simp only; omega)
      unfold liftK at this
      rw [this]
      have hlt : b.1 < v.s + v.alt.length + (b.2 - v.e) := by omega
      simp only [hlt, if_true, delta, pure, Except.pure]
      congr 2
      apply Prod.ext <;> simp only <;> omega
  · -- variant left of the block
    rw [newPos_after ref _ hx b.1 (by simp only [toEdit, Nat.sub_zero]; exact h) (by omega),
        newPos_after ref _ hx b.2 (by simp only [toEdit, Nat.sub_zero]; omega) hbn]
    simp only [toEdit, Nat.sub_zero]
    have := k_left ⟨v.s, v.e, v.alt.length⟩ ⟨b.1, b.2, st⟩ hvi hbi (by simp only; omega)
    unfold liftK at this
    rw [this]
    have hlt : v.s + v.alt.length + (b.1 - v.e) < v.s + v.alt.length + (b.2 - v.e) := by omega
    simp only [hlt, if_true, delta, pure, Except.pure]
    congr 2
    apply Prod.ext <;> simp only <;> omega
  · -- variant right of the block
    rw [newPos_before ref _ hx b.1 (by simp only [toEdit, Nat.sub_zero]; omega) (by omega),
        newPos_before ref _ hx b.2 (by simp only [toEdit, Nat.sub_zero]; exact h) hbn]
    have := k_right ⟨v.s, v.e, v.alt.length⟩ ⟨b.1, b.2, st⟩ hvi hbi (by simp only; omega)
    unfold liftK at this
    rw [this]
    simp only [hb, if_true, pure, Except.pure]
    congr 2

/-! ### reading the lifted blocks -/

/-- the lifted block reads, on the alternative sequence, exactly the edited image of the block's bases -/
theorem block_reads_image (ref : Seq) (v : Var) (b : Blk) (hv : v.s < v.e) (hvn : v.e ≤ ref.length)
    (hb : b.1 ≤ b.2) (hbn : b.2 ≤ ref.length) :
    slice (altSeq1 0 ref v) (imageBlock ref [toEdit 0 v] b) = image ref [toEdit 0 v] b.1 b.2 := by
  rw [altSeq1_altOf 0 ref v (by simpa using hv) (by simpa using hvn)]
  unfold slice imageBlock
  exact slice_image ref _ b.1 b.2 hb hbn

theorem image_nil_of_not_lt (ref : Seq) (es : List Edit) (b : Blk) (hb : b.1 ≤ b.2)
    (h : nonEmpty (imageBlock ref es b) = none) : image ref es b.1 b.2 = [] := by
  unfold nonEmpty imageBlock at h
  split at h
  · exact absurd h (by simp)
  · rename_i hlt
    have := newPos_mono_split ref es b.1 b.2 hb
    simp only at hlt
    apply List.eq_nil_of_length_eq_zero
    omega

/-- all blocks non-empty, inside the sequence, and clean w.r.t. the variant -/
def CleanAll (n : Nat) (v : Var) (bs : List Blk) : Prop := ∀ b ∈ bs, b.1 < b.2 ∧ b.2 ≤ n ∧ Clean v b

/-- the block loop of the compound lift, on clean blocks: the images of the blocks, empty ones dropped -/
theorem liftBlocks_clean (ref : Seq) (v : Var) (st : Strand) (bs : List Blk) (hv : v.s < v.e) (hvn : v.e ≤ ref.length)
    (hc : CleanAll ref.length v bs) :
    liftBlocks v st bs = .ok (bs.filterMap fun b => nonEmpty (imageBlock ref [toEdit 0 v] b)) := by
  induction bs with
  | nil => rfl
  | cons b r ih =>
    have hb := hc b (by simp)
    have ihr := ih (fun x hx => hc x (List.mem_cons_of_mem _ hx))
    simp only [liftBlocks, kernel_clean ref v b st hv hvn hb.1 hb.2.1 hb.2.2, ihr, bind, Except.bind, pure,
      Except.pure, List.filterMap_cons]
    cases nonEmpty (imageBlock ref [toEdit 0 v] b) <;> rfl

/-- … and together they read the edited image of the location's reference bases (5'→3' order and the minus
    strand are the same `onStrand` on both sides) -/
theorem lifted_blocks_read_image (ref : Seq) (v : Var) (bs : List Blk) (hv : v.s < v.e) (hvn : v.e ≤ ref.length)
    (hc : CleanAll ref.length v bs) :
    (bs.filterMap fun b => nonEmpty (imageBlock ref [toEdit 0 v] b)).flatMap (slice (altSeq1 0 ref v))
      = bs.flatMap fun b => image ref [toEdit 0 v] b.1 b.2 := by
  induction bs with
  | nil => rfl
  | cons b r ih =>
    have hb := hc b (by simp)
    have ihr := ih (fun x hx => hc x (List.mem_cons_of_mem _ hx))
    simp only [List.filterMap_cons, List.flatMap_cons]
    cases hne : nonEmpty (imageBlock ref [toEdit 0 v] b) with
    | none =>
      simp only
      rw [ihr, image_nil_of_not_lt ref _ b (Nat.le_of_lt hb.1) hne]; rfl
    | some ib =>
      simp only [List.flatMap_cons]
      have : ib = imageBlock ref [toEdit 0 v] b := by
        unfold nonEmpty at hne; split at hne
        · exact (Option.some.inj hne).symm
        · exact absurd hne (by simp)
      rw [this, block_reads_image ref v b hv hvn (Nat.le_of_lt hb.1) hb.2.1, ihr]

/-! ### `lift_over_location` itself, single-block locations on a whole chromosome -/

theorem imageBlock_id (ref : Seq) (v : Var) (b : Blk) (hv : v.s < v.e) (hvn : v.e ≤ ref.length)
    (hb : b.1 < b.2) (hbn : b.2 ≤ ref.length) (hc : Clean v b)
    (h : v.e - v.s = v.alt.length ∨ b.2 ≤ v.s) : imageBlock ref [toEdit 0 v] b = b := by
  have hx : (toEdit 0 v).s < (toEdit 0 v).e := by simp only [toEdit, Nat.sub_zero]; exact hv
  unfold imageBlock
  apply Prod.ext <;> simp only
  · rcases hc with ⟨h1, h2⟩ | h' | h'
    · exact newPos_before ref _ hx b.1 (by simp only [toEdit, Nat.sub_zero]; exact h1) (by omega)
    · rw [newPos_after ref _ hx b.1 (by simp only [toEdit, Nat.sub_zero]; exact h') (by omega)]
      simp only [toEdit, Nat.sub_zero]; omega
    · exact newPos_before ref _ hx b.1 (by simp only [toEdit, Nat.sub_zero]; omega) (by omega)
  · rcases hc with ⟨h1, h2⟩ | h' | h'
    · rw [newPos_after ref _ hx b.2 (by simp only [toEdit, Nat.sub_zero]; exact h2) hbn]
      simp only [toEdit, Nat.sub_zero]; omega
    · rw [newPos_after ref _ hx b.2 (by simp only [toEdit, Nat.sub_zero]; omega) hbn]
      simp only [toEdit, Nat.sub_zero]; omega
    · exact newPos_before ref _ hx b.2 (by simp only [toEdit, Nat.sub_zero]; exact h') hbn

/-- T3 for `VariantInterval.lift_over_location` on a whole chromosome and a single-block location the variant is
    wholly inside of or wholly outside of, for every version of the text: the answer is the block's image; when the
    image has no bases it is the EmptyLocation (the code as it is, since 82ac85b) — before that repair it was an
    exception (F-C13b). -/
theorem lift1_single_clean (ver : Ver) (ref : Seq) (v : Var) (b : Blk) (st : Strand) (hv : v.s < v.e)
    (hvn : v.e ≤ ref.length) (hb : b.1 < b.2) (hbn : b.2 ≤ ref.length) (hc : Clean v b) :
    lift1 ver .whole ref v (.single b st) =
      (match nonEmpty (imageBlock ref [toEdit 0 v] b) with
       | some ib => .ok (.single ib st)
       | none => if ver.emptyReturn then .ok .empty else .error .EmptyLocation) := by
  have halt := altSeq1_altOf 0 ref v (by simpa using hv) (by simpa using hvn)
  have hle : (imageBlock ref [toEdit 0 v] b).2 ≤ (altSeq1 0 ref v).length := by
    rw [halt]; exact newPos_le_altLen ref _ b.2 hbn
  simp only [lift1, toChromosome, Model.locEnd, Par.off, bind, Except.bind, pure, Except.pure]
  split
  · rename_i hcond
    rw [imageBlock_id ref v b hv hvn hb hbn hc hcond] at hle ⊢
    have : ¬ (b.2 > (altSeq1 0 ref v).length) := by omega
    simp only [reparent, this, if_false, nonEmpty, hb, if_true, pure, Except.pure]
  · simp only [liftSingle, kernel_clean ref v b st hv hvn hb hbn hc, bind, Except.bind, pure, Except.pure]
    cases hne : nonEmpty (imageBlock ref [toEdit 0 v] b) with
    | none =>
      cases hver : ver.emptyReturn <;>
        simp only [reparent, throw, throwThe, MonadExceptOf.throw, if_true, if_false, Bool.false_eq_true]
    | some ib =>
      have : ib = imageBlock ref [toEdit 0 v] b := by
        unfold nonEmpty at hne; split at hne
        · exact (Option.some.inj hne).symm
        · exact absurd hne (by simp)
      have hgt : ¬ (ib.2 > (altSeq1 0 ref v).length) := by rw [this]; omega
      cases hver : ver.emptyReturn <;> simp only [reparent, hgt, if_false, pure, Except.pure]

/-- "locations deleted entirely become empty": a single-block location lying wholly inside the deleted part
    `[s + |alt|, e)` of a length-reducing variant is lifted to the EmptyLocation by the code as it is
    (any version that returns the EmptyLocation as it is). -/
theorem lift1_single_deleted (ver : Ver) (hver : ver.emptyReturn = true) (ref : Seq) (v : Var) (b : Blk) (st : Strand)
    (hv : v.s < v.e) (hb : b.1 < b.2) (hd : v.alt.length < v.e - v.s)
    (h1 : v.s + v.alt.length ≤ b.1) (h2 : b.2 ≤ v.e) :
    lift1 ver .whole ref v (.single b st) = .ok .empty := by
  have hk : kernel v b st = .ok none := by
    unfold kernel
    have := k_in_deleted ⟨v.s, v.e, v.alt.length⟩ ⟨b.1, b.2, st⟩ ⟨by simp, by simp only; omega, by simp⟩
      ⟨by simp, by simp only; omega⟩ (by unfold delta; simp only; omega) (by simp only; omega) (by simp only; omega)
    unfold liftK at this
    rw [this]; rfl
  have hcond : ¬ (v.e - v.s = v.alt.length ∨ b.2 ≤ v.s) := by omega
  simp only [lift1, toChromosome, Model.locEnd, Par.off, bind, Except.bind, pure, Except.pure, hcond, if_false,
    liftSingle, hk, hver]

/-- the answer of T3b passes the specification's checker `okLift` (strand, normalised blocks, bases read) -/
theorem lift1_single_verdict (ref : Seq) (v : Var) (b ib : Blk) (st : Strand) (hst : st ≠ .unstranded)
    (hv : v.s < v.e) (hvn : v.e ≤ ref.length) (hb : b.1 < b.2) (hbn : b.2 ≤ ref.length) (hc : Clean v b)
    (hne : nonEmpty (imageBlock ref [toEdit 0 v] b) = some ib) :
    okLift ref [toEdit 0 v] st [b] (some (some ⟨st, [ib], onStrand st (slice (altSeq1 0 ref v) ib)⟩)) = .pass := by
  have hib : ib = imageBlock ref [toEdit 0 v] b ∧ ib.1 < ib.2 := by
    unfold nonEmpty at hne; split at hne
    · rename_i h; have := (Option.some.inj hne).symm; exact ⟨this, by rw [this]; exact h⟩
    · exact absurd hne (by simp)
  have hvalid : validEdits ref.length [toEdit 0 v] = true := by
    apply chain_valid; exact ⟨by simpa [toEdit] using hv, by simpa [toEdit] using hvn⟩
  have hgood : goodBlocks ref.length [b] = true := by simp [goodBlocks, hb, hbn]
  have hclean : cleanEdits [toEdit 0 v] [b] = true := by
    simp only [cleanEdits, insideOne, outsideAll, toEdit, Nat.sub_zero, List.all_cons, List.all_nil, List.any_cons,
      List.any_nil, Bool.or_false, Bool.and_true, Bool.or_eq_true, Bool.and_eq_true, decide_eq_true_eq]
    rcases hc with h | h | h
    · exact Or.inl h
    · exact Or.inr (Or.inl h)
    · exact Or.inr (Or.inr h)
  have hnorm : ∀ x : Blk, x.1 < x.2 → normBlocks [x] = [x] := by
    intro x hx
    have : ¬ (x.1 ≥ x.2) := by omega
    simp [normBlocks, this]
  have hseq : slice (altSeq1 0 ref v) ib = image ref [toEdit 0 v] b.1 b.2 := by
    rw [hib.1]; exact block_reads_image ref v b hv hvn (Nat.le_of_lt hb) hbn
  have halt := altSeq1_altOf 0 ref v (by simpa using hv) (by simpa using hvn)
  unfold okLift
  simp only [hvalid, hgood, hclean, Bool.not_true, List.isEmpty_cons, Bool.or_false, hst,
    if_true, List.map_cons, List.map_nil, decide_false, ← hib.1, hnorm ib hib.2, imageSeq, extractSeq,
    List.flatMap_cons, List.flatMap_nil, List.append_nil, hseq, ← halt]
  have : (List.drop ib.1 (altSeq1 0 ref v)).take (ib.2 - ib.1) = image ref [toEdit 0 v] b.1 b.2 := hseq
  simp [this]

/-! ### collections: variants that keep the length are transparent -/

theorem kernel_same_length (u : Var) (b : Blk) (st : Strand) (hu : (u.alt.length : Int) - ((u.e : Int) - (u.s : Int)) = 0)
    (hb : b.1 ≤ b.2) : kernel u b st = .ok (some b) := by
  unfold kernel
  have := k_same_length ⟨u.s, u.e, u.alt.length⟩ ⟨b.1, b.2, st⟩ (by unfold delta; simpa using hu) (by simp)
    (by simp only; omega)
  unfold liftK at this
  rw [this]
  simp only [pure, Except.pure, Int.toNat_natCast]

/-- T5 (positive part): if every variant before the last keeps the length, the sequential application coded in
    `VariantIntervalCollection.lift_over_location` (the loop as it is now, with its early exit) is the application of
    the last variant alone. -/
theorem liftSeqSingleStop_prefix (pre : List Var) (v : Var) (b : Blk) (st : Strand) (hb : b.1 ≤ b.2)
    (hpre : ∀ u ∈ pre, (u.alt.length : Int) - ((u.e : Int) - (u.s : Int)) = 0) :
    Model.Variants.liftSeqSingleStop (pre ++ [v]) (.single b st) = liftSingle v (.single b st) := by
  induction pre with
  | nil =>
    simp only [List.nil_append, Model.Variants.liftSeqSingleStop, bind, Except.bind]
    cases liftSingle v (.single b st) with
    | error e => rfl
    | ok l => cases l <;> rfl
  | cons u r ih =>
    simp only [List.cons_append, Model.Variants.liftSeqSingleStop, liftSingle,
      kernel_same_length u b st (hpre u (by simp)) hb, bind, Except.bind, pure, Except.pure]
    exact ih (fun w hw => hpre w (List.mem_cons_of_mem _ hw))

end BioCantor.Proofs.Var
