/-
  C09 helper lemmas, part 2: argument validation, result bounds, `_subset_parent` and member sequences.
-/
import BioCantor.Proofs.QueryKept
namespace BioCantor.Proofs.Query
open BioCantor BioCantor.Spec BioCantor.Spec.Query BioCantor.Model.Query BioCantor.GenP BioCantor.Gen

/-! ### the validation cascade -/

theorem needBounds_of {src : Source} {b : Int × Int} (h : selfBounds src = some b) : needBounds src = .ok b := by
  unfold needBounds; rw [h]; rfl

theorem validRange_iff (bs be s e : Int) : validRange bs be s e = true ↔ (0 ≤ s ∧ s < e ∧ bs ≤ s ∧ e ≤ be) := by
  unfold validRange; simp only [decide_eq_true_eq]

theorem validate_some (src : Source) (s e bs be : Int) (hb : selfBounds src = some (bs, be)) :
    validate src (some s) (some e) =
      if 0 ≤ s ∧ s < e ∧ bs ≤ s ∧ e ≤ be then .ok (s, e) else .error (.doc .InvalidQuery) := by
  unfold validate
  rw [needBounds_of hb]
  simp only [bind, Except.bind, pure, Except.pure]
  repeat' split
  all_goals first | rfl | (exfalso; omega)

/-- rejected ranges = exactly the documented ones -/
theorem validate_eq (src : Source) (qs qe : Option Int) (bs be : Int) (hb : selfBounds src = some (bs, be)) :
    validate src qs qe =
      if validRange bs be (optOr qs bs) (optOr qe be) = true then .ok (optOr qs bs, optOr qe be)
      else .error (.doc .InvalidQuery) := by
  have key : validate src qs qe = validate src (some (optOr qs bs)) (some (optOr qe be)) := by
    unfold validate
    rw [needBounds_of hb]
    cases qs <;> cases qe <;> rfl
  rw [key, validate_some src _ _ bs be hb]
  simp only [validRange_iff]

/-! ### `parent_to_relative_pos` on the collection's own location -/

theorem p2r_in (lo hi p : Int) (h : lo ≤ p ∧ p < hi) : p2r lo hi p = .ok (p - lo) := by
  unfold p2r SingleInterval_parent_to_relative_pos
  have : ¬ (p < lo ∨ p ≥ hi) := by omega
  simp only [this, if_false, if_true]
  rfl

/-! ### slices -/

theorem slice_length (l : List Char) (i j : Int) (h0 : 0 ≤ i) (h1 : i ≤ j) (h2 : j ≤ l.length) :
    ((slice l i j).length : Int) = j - i := by
  unfold slice
  simp only [List.length_take, List.length_drop]
  omega

theorem slice_full (l : List Char) : slice l 0 l.length = l := by
  unfold slice
  simp only [Int.toNat_zero, List.drop_zero, Int.sub_zero, Int.toNat_natCast, List.take_length]

theorem slice_empty (l : List Char) (i j : Int) (h : j ≤ i) : slice l i j = [] := by
  unfold slice
  have : (j - i).toNat = 0 := by omega
  rw [this, List.take_zero]

end BioCantor.Proofs.Query

namespace BioCantor.Proofs.Query
open BioCantor BioCantor.Spec BioCantor.Spec.Query BioCantor.Model.Query BioCantor.GenP BioCantor.Gen

/-! ### `_subset_parent` -/

theorem selfBounds_whole {src : Source} {seq : List Char} (hp : src.par = .whole seq) (hb : src.bounds = none) :
    selfBounds src = some (0, (seq.length : Int)) := by
  unfold selfBounds; rw [hb, hp]

theorem selfBounds_chunk {src : Source} {cs : Int} {seq : List Char} (hp : src.par = .chunk cs seq)
    (hb : src.bounds = none) : selfBounds src = some (cs, cs + (seq.length : Int)) := by
  unfold selfBounds; rw [hb, hp]

theorem subsetParentG_none (fixB fixC : Bool) (src : Source) (hp : src.par = .none) (start stop : Int) :
    subsetParentG fixB fixC src start stop = .ok .none := by
  unfold subsetParentG; rw [hp]; rfl

theorem subsetParent_none (src : Source) (hp : src.par = .none) (start stop : Int) :
    subsetParent src start stop = .ok .none := subsetParentG_none _ _ src hp start stop

theorem mkChunk_ok (start stop : Int) (seq : List Char) (h0 : 0 ≤ start) (h1 : start ≤ stop)
    (h2 : stop - start = seq.length) : mkChunk start stop seq = .ok (.chunk start stop seq) := by
  unfold mkChunk
  have : (0 ≤ start ∧ start ≤ stop) := ⟨h0, h1⟩
  simp only [this, not_true_eq_false, if_false, h2, ne_eq]
  rfl

/-- whole-chromosome source: the new parent is the chromosome stretch `[start, stop)` (or the unchanged parent) —
    for the code as it is and with the candidate repairs alike -/
theorem subsetParentG_whole (fixB fixC : Bool) (src : Source) (seq : List Char) (hp : src.par = .whole seq)
    (hb : src.bounds = none) (start stop : Int) (h : 0 ≤ start ∧ start < stop ∧ stop ≤ seq.length) :
    subsetParentG fixB fixC src start stop =
      .ok (if start = 0 ∧ stop = seq.length then .whole seq else .chunk start stop (slice seq start stop)) := by
  unfold subsetParentG
  rw [hp]
  have hne : ¬ start = stop := by omega
  simp only [hne, if_false, Par.hasSeq, Bool.true_eq_false, and_false, needBounds_of (selfBounds_whole hp hb), bind,
    Except.bind, pure, Except.pure]
  by_cases hid : start = 0 ∧ stop = (seq.length : Int)
  · simp only [hid, and_self, if_true]; rfl
  · simp only [hid, if_false, hb, Option.isSome_none, Bool.false_eq_true, and_false, Par.isChunk, false_and]
    rw [p2r_in 0 seq.length start (by omega)]
    simp only []
    have e2 : start - 0 = start := by omega
    cases fixC with
    | true =>
      simp only [if_true]
      rw [p2r_in 0 seq.length (stop - 1) (by omega)]
      simp only []
      have e1 : stop - 1 - 0 + 1 = stop := by omega
      rw [e1, e2]
      exact mkChunk_ok _ _ _ (by omega) (by omega) (by rw [slice_length _ _ _ (by omega) (by omega) (by omega)])
    | false =>
      simp only [Bool.false_eq_true, if_false]
      by_cases hl : stop = (seq.length : Int)
      · simp only [hl, if_true]
        rw [p2r_in 0 seq.length (seq.length - 1) (by omega)]
        simp only []
        have e1 : (seq.length : Int) - 1 - 0 + 1 = seq.length := by omega
        rw [e1, e2]
        exact mkChunk_ok _ _ _ (by omega) (by omega) (by rw [slice_length _ _ _ (by omega) (by omega) (by omega)])
      · simp only [hl, if_false]
        rw [p2r_in 0 seq.length stop (by omega)]
        simp only []
        have e1 : stop - 0 = stop := by omega
        rw [e1, e2]
        exact mkChunk_ok _ _ _ (by omega) (by omega) (by rw [slice_length _ _ _ (by omega) (by omega) (by omega)])

theorem subsetParent_whole (src : Source) (seq : List Char) (hp : src.par = .whole seq) (hb : src.bounds = none)
    (start stop : Int) (h : 0 ≤ start ∧ start < stop ∧ stop ≤ seq.length) :
    subsetParent src start stop =
      .ok (if start = 0 ∧ stop = seq.length then .whole seq else .chunk start stop (slice seq start stop)) :=
  subsetParentG_whole _ _ src seq hp hb start stop h

/-- already-chunked source, range inside the chunk — as coded and repaired alike -/
theorem subsetParentG_chunk (fixB fixC : Bool) (src : Source) (cs : Int) (seq : List Char)
    (hp : src.par = .chunk cs seq) (hb : src.bounds = none) (hcs : 0 ≤ cs) (start stop : Int)
    (h : cs ≤ start ∧ start < stop ∧ stop ≤ cs + seq.length) :
    subsetParentG fixB fixC src start stop =
      .ok (if start = cs ∧ stop = cs + seq.length then .chunk cs (cs + seq.length) seq
           else .chunk start stop (slice seq (start - cs) (stop - cs))) := by
  unfold subsetParentG
  rw [hp]
  have hne : ¬ start = stop := by omega
  simp only [hne, if_false, Par.hasSeq, Bool.true_eq_false, and_false, needBounds_of (selfBounds_chunk hp hb), bind,
    Except.bind, pure, Except.pure]
  by_cases hid : start = cs ∧ stop = cs + (seq.length : Int)
  · simp only [hid, and_self, if_true]; rfl
  · have hlt : ¬ start < cs := by omega
    have hgt : ¬ stop > cs + (seq.length : Int) := by omega
    simp only [hid, if_false, hb, Option.isSome_none, Bool.false_eq_true, and_false, Par.isChunk, true_and, hlt]
    rw [p2r_in cs (cs + seq.length) start (by omega)]
    simp only []
    cases fixC with
    | true =>
      simp only [if_true, hgt, if_false]
      rw [p2r_in cs (cs + seq.length) (stop - 1) (by omega)]
      simp only []
      have e1 : stop - 1 - cs + 1 = stop - cs := by omega
      rw [e1]
      exact mkChunk_ok _ _ _ (by omega) (by omega) (by rw [slice_length _ _ _ (by omega) (by omega) (by omega)]; omega)
    | false =>
      simp only [Bool.false_eq_true, if_false]
      by_cases hl : stop = cs + (seq.length : Int)
      · simp only [hl, if_true]
        rw [p2r_in cs (cs + seq.length) (cs + seq.length - 1) (by omega)]
        simp only []
        have e1 : cs + (seq.length : Int) - 1 - cs + 1 = cs + seq.length - cs := by omega
        rw [e1]
        exact mkChunk_ok _ _ _ (by omega) (by omega)
          (by rw [slice_length _ _ _ (by omega) (by omega) (by omega)]; omega)
      · simp only [hl, if_false, hgt]
        rw [p2r_in cs (cs + seq.length) stop (by omega)]
        simp only []
        exact mkChunk_ok _ _ _ (by omega) (by omega)
          (by rw [slice_length _ _ _ (by omega) (by omega) (by omega)]; omega)

theorem subsetParent_chunk (src : Source) (cs : Int) (seq : List Char) (hp : src.par = .chunk cs seq)
    (hb : src.bounds = none) (hcs : 0 ≤ cs) (start stop : Int)
    (h : cs ≤ start ∧ start < stop ∧ stop ≤ cs + seq.length) :
    subsetParent src start stop =
      .ok (if start = cs ∧ stop = cs + seq.length then .chunk cs (cs + seq.length) seq
           else .chunk start stop (slice seq (start - cs) (stop - cs))) :=
  subsetParentG_chunk _ _ src cs seq hp hb hcs start stop h

/-- REPAIRED F-C09c (`fixC = true`): a range reaching beyond the chunk on either side is clamped to the chunk —
    the new parent is the stretch `[max start cs, min stop ce)`; nothing is lost at the chunk end. -/
theorem subsetParentG_chunk_clamped (fixB : Bool) (src : Source) (cs : Int) (seq : List Char)
    (hp : src.par = .chunk cs seq) (hb : src.bounds = none) (hcs : 0 ≤ cs) (start stop : Int)
    (h : max start cs < min stop (cs + seq.length))
    (hnid : ¬ (start = cs ∧ stop = cs + seq.length)) :
    subsetParentG fixB true src start stop =
      .ok (.chunk (max start cs) (min stop (cs + seq.length))
            (slice seq (max start cs - cs) (min stop (cs + seq.length) - cs))) := by
  unfold subsetParentG
  rw [hp]
  have hne : ¬ start = stop := by omega
  simp only [hne, if_false, Par.hasSeq, Bool.true_eq_false, and_false, needBounds_of (selfBounds_chunk hp hb), bind,
    Except.bind, pure, Except.pure]
  simp only [hnid, if_false, hb, Option.isSome_none, Bool.false_eq_true, and_false, Par.isChunk, true_and, if_true]
  have e1 : (if start < cs then cs else start) = max start cs := by split <;> omega
  have e2 : (if stop > cs + (seq.length : Int) then cs + (seq.length : Int) else stop) = min stop (cs + seq.length) := by
    split <;> omega
  rw [e1, e2]
  rw [p2r_in cs (cs + seq.length) (max start cs) (by omega)]
  simp only []
  rw [p2r_in cs (cs + seq.length) (min stop (cs + seq.length) - 1) (by omega)]
  simp only []
  have e3 : min stop (cs + (seq.length : Int)) - 1 - cs + 1 = min stop (cs + seq.length) - cs := by omega
  rw [e3]
  exact mkChunk_ok _ _ _ (by omega) (by omega)
    (by rw [slice_length _ _ _ (by omega) (by omega) (by omega)]; omega)

/-- REPAIRED F-C09b (`fixB = true`): a sequence-less parent is handed on unchanged -/
theorem subsetParentG_noseq (fixC : Bool) (src : Source) (hp : src.par = .noseq) (start stop : Int)
    (hne : start ≠ stop) : subsetParentG true fixC src start stop = .ok .noseq := by
  unfold subsetParentG
  rw [hp]
  simp only [hne, if_false, Par.hasSeq, and_self, if_true]
  rfl

/-- for `start = stop` every version drops a sequence-less parent ("a now null interval") -/
theorem subsetParentG_noseq_null (fixB fixC : Bool) (src : Source) (hp : src.par = .noseq) (start : Int) :
    subsetParentG fixB fixC src start start = .ok .none := by
  unfold subsetParentG
  rw [hp]
  simp only [if_true]
  rfl

/-! ### the new parent carries the source's sequence restricted to the new bounds -/

theorem whole_norm_eq_expect (seq : List Char) (start stop : Int)
    (h : 0 ≤ start ∧ start < stop ∧ stop ≤ seq.length) :
    (if start = 0 ∧ stop = seq.length then RPar.whole seq else .chunk start stop (slice seq start stop)).norm
      = (expectPar (.whole seq) start stop).norm := by
  have e1 : max start 0 = start := by omega
  have e2 : min stop (seq.length : Int) = stop := by omega
  unfold expectPar
  simp only [e1, e2, stretch, Int.sub_zero]
  split
  · rename_i hid
    obtain ⟨h1, h2⟩ := hid
    subst h1 h2
    simp only [RPar.norm, slice_full]
  · rfl

theorem chunk_norm_eq_expect (cs : Int) (seq : List Char) (start stop : Int)
    (h : cs ≤ start ∧ start < stop ∧ stop ≤ cs + seq.length) :
    (if start = cs ∧ stop = cs + seq.length then RPar.chunk cs (cs + seq.length) seq
     else .chunk start stop (slice seq (start - cs) (stop - cs))).norm
      = (expectPar (.chunk cs seq) start stop).norm := by
  have e1 : max start cs = start := by omega
  have e2 : min stop (cs + (seq.length : Int)) = stop := by omega
  unfold expectPar
  simp only [e1, e2, stretch]
  split
  · rename_i hid
    obtain ⟨h1, h2⟩ := hid
    have e3 : cs - cs = 0 := by omega
    have e4 : cs + (seq.length : Int) - cs = seq.length := by omega
    simp only [RPar.norm, h1, h2]
    rw [e3, e4, slice_full]
  · rfl

/-! ### member sequences: the model's route (chunk-relative lift, slice of the new chunk) = the spec's -/

theorem orient_nil (st : Strand) : orient st [] = [] := by
  cases st <;> rfl

theorem memberSeq_norm_eq_expect (rp : RPar) (g : GChild) (hg : g.start ≤ g.stop)
    (hrp : match rp with
           | .whole seq => 0 ≤ g.start ∧ g.stop ≤ seq.length
           | .chunk cs ce _ => cs ≤ ce
           | _ => True) :
    (memberSeq rp g).norm = (expectMSeq rp g).norm := by
  cases rp with
  | none => rfl
  | noseq => rfl
  | whole seq =>
    simp only at hrp
    unfold memberSeq expectMSeq
    have e1 : max g.start 0 = g.start := by omega
    have e2 : min g.stop (seq.length : Int) = g.stop := by omega
    simp only [RPar.norm, e1, e2, stretch, Int.sub_zero]
    split
    · rfl
    · rename_i hlt
      rw [slice_empty _ _ _ (by omega), orient_nil]
      rfl
  | chunk cs ce seq =>
    simp only at hrp
    unfold memberSeq expectMSeq
    simp only [RPar.norm, stretch]
    rw [overlapInt_iff _ _ _ _ hrp hg]
    by_cases hov : g.start < ce ∧ cs < g.stop ∧ g.start < g.stop ∧ cs < ce
    · have : max g.start cs < min g.stop ce := by omega
      simp only [hov, and_self, decide_true, if_true, this]
    · have : ¬ max g.start cs < min g.stop ce := by omega
      simp only [hov, decide_false, Bool.false_eq_true, if_false, this]

/-- `expectMSeq` looks at the parent only through its normal form -/
theorem expectMSeq_congr {rp rp' : RPar} (h : rp.norm = rp'.norm) (g : GChild) :
    expectMSeq rp g = expectMSeq rp' g := by
  unfold expectMSeq; rw [h]

end BioCantor.Proofs.Query
