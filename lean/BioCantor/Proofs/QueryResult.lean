/-
  C09 helper lemmas, part 2: argument validation, result bounds, `_subset_parent` and member sequences.
-/
import BioCantor.Proofs.QueryKept
namespace BioCantor.Proofs.Query
open BioCantor BioCantor.Spec BioCantor.Spec.Query BioCantor.Model.Query BioCantor.GenP BioCantor.Gen

/-! ### the validation cascade -/

theorem needBounds_of {src : Source} {b : Int × Int} (h : selfBounds src = some b) : needBounds src = .ok b := by
  unfold needBounds; rw [h]; rfl

theorem validRange_iff (bs be s e : Int) : validRange bs be s e = true ↔ (0 ≤ s ∧ s < e ∧ bs ≤ s ∧ e ≤ be) := by
  unfold validRange; simp only [decide_eq_true_eq]

theorem validate_some (src : Source) (s e bs be : Int) (hb : selfBounds src = some (bs, be)) :
    validate src (some s) (some e) =
      if 0 ≤ s ∧ s < e ∧ bs ≤ s ∧ e ≤ be then .ok (s, e) else .error (.doc .InvalidQuery) := by
  unfold validate
  rw [needBounds_of hb]
  simp only [bind, Except.bind, pure, Except.pure]
  repeat' split
  all_goals first | rfl | (exfalso; omega)

/-- rejected ranges = exactly the documented ones -/
theorem validate_eq (src : Source) (qs qe : Option Int) (bs be : Int) (hb : selfBounds src = some (bs, be)) :
    validate src qs qe =
      if validRange bs be (optOr qs bs) (optOr qe be) = true then .ok (optOr qs bs, optOr qe be)
      else .error (.doc .InvalidQuery) := by
  have key : validate src qs qe = validate src (some (optOr qs bs)) (some (optOr qe be)) := by
    unfold validate
    rw [needBounds_of hb]
    cases qs <;> cases qe <;> rfl
  rw [key, validate_some src _ _ bs be hb]
  simp only [validRange_iff]

/-! ### `parent_to_relative_pos` on the collection's own location -/

theorem p2r_in (lo hi p : Int) (h : lo ≤ p ∧ p < hi) : p2r lo hi p = .ok (p - lo) := by
  unfold p2r SingleInterval_parent_to_relative_pos
  have : ¬ (p < lo ∨ p ≥ hi) := by omega
  simp only [this, if_false, if_true]
  rfl

/-! ### slices -/

theorem slice_length (l : List Char) (i j : Int) (h0 : 0 ≤ i) (h1 : i ≤ j) (h2 : j ≤ l.length) :
    ((slice l i j).length : Int) = j - i := by
  unfold slice
  simp only [List.length_take, List.length_drop]
  omega

theorem slice_full (l : List Char) : slice l 0 l.length = l := by
  unfold slice
  simp only [Int.toNat_zero, List.drop_zero, Int.sub_zero, Int.toNat_natCast, List.take_length]

theorem slice_empty (l : List Char) (i j : Int) (h : j ≤ i) : slice l i j = [] := by
  unfold slice
  have : (j - i).toNat = 0 := by omega
  rw [this, List.take_zero]

end BioCantor.Proofs.Query

namespace BioCantor.Proofs.Query
open BioCantor BioCantor.Spec BioCantor.Spec.Query BioCantor.Model.Query BioCantor.GenP BioCantor.Gen

/-! ### `_subset_parent` -/

theorem slice_slice (l : List Char) (i j a b : Int) (hi : 0 ≤ i) (ha : 0 ≤ a) (hb : b ≤ j - i) :
    slice (slice l i j) a b = slice l (i + a) (i + b) := by
  unfold slice
  rw [List.drop_take, List.take_take, List.drop_drop]
  have e1 : (i + a).toNat = i.toNat + a.toNat := by omega
  have e2 : (i + b - (i + a)).toNat = (b - a).toNat := by omega
  have e3 : min (b - a).toNat ((j - i).toNat - a.toNat) = (b - a).toNat := by omega
  rw [e1, e2, e3]

theorem selfBounds_whole {src : Source} {seq : List Char} (hp : src.par = .whole seq) (hb : src.bounds = none) :
    selfBounds src = some (0, (seq.length : Int)) := by
  unfold selfBounds; rw [hb, hp]

theorem selfBounds_chunk {src : Source} {cs : Int} {seq : List Char} (hp : src.par = .chunk cs seq)
    (hb : src.bounds = none) : selfBounds src = some (cs, cs + (seq.length : Int)) := by
  unfold selfBounds; rw [hb, hp]

theorem subsetParent_none (src : Source) (hp : src.par = .none) (start stop : Int) :
    subsetParent src start stop = .ok .none := by
  unfold subsetParent; rw [hp]; rfl

/-- a sequence-less parent is handed on unchanged (repaired F-C09b); a zero-length result drops it -/
theorem subsetParent_noseq (src : Source) (hp : src.par = .noseq) (start stop : Int) :
    subsetParent src start stop = .ok (if start = stop then .none else .noseq) := by
  unfold subsetParent; rw [hp]
  simp only []
  split <;> rfl

theorem mkChunk_ok (start stop : Int) (seq : List Char) (h0 : 0 ≤ start) (h1 : start ≤ stop)
    (h2 : stop - start = seq.length) : mkChunk start stop seq = .ok (.chunk start stop seq) := by
  unfold mkChunk
  have : (0 ≤ start ∧ start ≤ stop) := ⟨h0, h1⟩
  simp only [this, not_true_eq_false, if_false, h2, ne_eq]
  rfl

/-- whole-chromosome source with bounds `[bs, be)` on the sequence (taken from the parent: `[0, len)`, or explicit):
    the new parent is the chromosome stretch `[start, stop)` cut to the bounds (the unchanged parent for the bounds
    themselves; none when nothing of the range lies within the bounds) -/
theorem subsetParent_whole (src : Source) (seq : List Char) (hp : src.par = .whole seq) (bs be : Int)
    (hb : selfBounds src = some (bs, be)) (hbs : 0 ≤ bs ∧ bs ≤ be ∧ be ≤ seq.length)
    (start stop : Int) (hne : start ≠ stop) :
    subsetParent src start stop =
      .ok (if start = bs ∧ stop = be then .whole seq
           else if max start bs < min stop be then
             .chunk (max start bs) (min stop be) (slice seq (max start bs) (min stop be))
           else .none) := by
  unfold subsetParent
  rw [hp]
  simp only [needBounds_of hb, bind, Except.bind, located, hne, if_false]
  by_cases hid : start = bs ∧ stop = be
  · simp only [hid, and_self, if_true]; rfl
  · simp only [hid, if_false]
    have e1 : (if start < bs then bs else start) = max start bs := by split <;> omega
    have e2 : (if stop > be then be else stop) = min stop be := by split <;> omega
    rw [e1, e2]
    by_cases hlt : max start bs < min stop be
    · have hge : ¬ max start bs ≥ min stop be := by omega
      simp only [hge, hlt, if_false, if_true]
      rw [p2r_in bs be (max start bs) (by omega)]
      simp only []
      rw [p2r_in bs be (min stop be - 1) (by omega)]
      simp only []
      have e3 : min stop be - 1 - bs + 1 = min stop be - bs := by omega
      rw [e3, slice_slice seq bs be (max start bs - bs) (min stop be - bs) (by omega) (by omega) (by omega)]
      have e4 : bs + (max start bs - bs) = max start bs := by omega
      have e5 : bs + (min stop be - bs) = min stop be := by omega
      rw [e4, e5]
      exact mkChunk_ok _ _ _ (by omega) (by omega) (by rw [slice_length _ _ _ (by omega) (by omega) (by omega)])
    · have hge : max start bs ≥ min stop be := by omega
      simp only [hge, hlt, if_true, if_false]
      rfl

/-- chunk source `[cs, ce)` whose bounds `[bs, be)` overlap the chunk: the located range is `[A, B) = [max bs cs,
    min be ce)`.  The new parent is the chromosome stretch `[max start A, min stop B)` read from the chunk (nothing
    lost at either end: repaired F-C09c; clamped to the sequence the collection has: repaired F-C09d); the bounds
    themselves keep the whole chunk; none when nothing of the range lies on the located range. -/
theorem subsetParent_chunk (src : Source) (cs : Int) (seq : List Char) (hp : src.par = .chunk cs seq)
    (bs be : Int) (hb : selfBounds src = some (bs, be)) (hcs : 0 ≤ cs) (hbb : bs ≤ be)
    (hov : max bs cs < min be (cs + seq.length)) (start stop : Int) (hne : start ≠ stop) :
    subsetParent src start stop =
      .ok (if start = bs ∧ stop = be then .chunk cs (cs + seq.length) seq
           else if max start (max bs cs) < min stop (min be (cs + seq.length)) then
             .chunk (max start (max bs cs)) (min stop (min be (cs + seq.length)))
               (slice seq (max start (max bs cs) - cs) (min stop (min be (cs + seq.length)) - cs))
           else .none) := by
  unfold subsetParent
  rw [hp]
  have hovl : overlapInt (cs, cs + (seq.length : Int)) (bs, be) = true := by
    rw [overlapInt_iff _ _ _ _ (by omega) hbb]; simp only [decide_eq_true_eq]; omega
  simp only [needBounds_of hb, bind, Except.bind, located, hovl, if_true, hne, if_false]
  by_cases hid : start = bs ∧ stop = be
  · simp only [hid, and_self, if_true]; rfl
  · simp only [hid, if_false]
    have e1 : (if start < max bs cs then max bs cs else start) = max start (max bs cs) := by split <;> omega
    have e2 : (if stop > min be (cs + (seq.length : Int)) then min be (cs + (seq.length : Int)) else stop)
        = min stop (min be (cs + seq.length)) := by split <;> omega
    rw [e1, e2]
    by_cases hlt : max start (max bs cs) < min stop (min be (cs + (seq.length : Int)))
    · have hge : ¬ max start (max bs cs) ≥ min stop (min be (cs + (seq.length : Int))) := by omega
      simp only [hge, hlt, if_false, if_true]
      rw [p2r_in (max bs cs) (min be (cs + seq.length)) (max start (max bs cs)) (by omega)]
      simp only []
      rw [p2r_in (max bs cs) (min be (cs + seq.length)) (min stop (min be (cs + seq.length)) - 1) (by omega)]
      simp only []
      have e3 : min stop (min be (cs + (seq.length : Int))) - 1 - max bs cs + 1
          = min stop (min be (cs + seq.length)) - max bs cs := by omega
      rw [e3, slice_slice seq (max bs cs - cs) (min be (cs + seq.length) - cs) _ _ (by omega) (by omega) (by omega)]
      have e4 : max bs cs - cs + (max start (max bs cs) - max bs cs) = max start (max bs cs) - cs := by omega
      have e5 : max bs cs - cs + (min stop (min be (cs + (seq.length : Int))) - max bs cs)
          = min stop (min be (cs + seq.length)) - cs := by omega
      rw [e4, e5]
      exact mkChunk_ok _ _ _ (by omega) (by omega)
        (by rw [slice_length _ _ _ (by omega) (by omega) (by omega)]; omega)
    · have hge : max start (max bs cs) ≥ min stop (min be (cs + (seq.length : Int))) := by omega
      simp only [hge, hlt, if_true, if_false]
      rfl

/-- bounds that miss the chunk: the collection's location is an EmptyLocation, which has no parent -/
theorem subsetParent_chunk_off (src : Source) (cs : Int) (seq : List Char) (hp : src.par = .chunk cs seq)
    (bs be : Int) (hb : selfBounds src = some (bs, be)) (hbb : bs ≤ be)
    (hoff : ¬ max bs cs < min be (cs + seq.length)) (start stop : Int) :
    subsetParent src start stop = .ok .none := by
  unfold subsetParent
  rw [hp]
  have hovl : overlapInt (cs, cs + (seq.length : Int)) (bs, be) = false := by
    rw [overlapInt_iff _ _ _ _ (by omega) hbb]; simp only [decide_eq_false_iff_not]; omega
  simp only [needBounds_of hb, bind, Except.bind, located, hovl, Bool.false_eq_true, if_false]
  rfl

/-! ### member sequences: the model's route (chunk-relative lift, slice of the new chunk) = the spec's -/

theorem orient_nil (st : Strand) : orient st [] = [] := by
  cases st <;> rfl

theorem norm_whole (seq : List Char) (h : seq ≠ []) : (RPar.whole seq).norm = .chunk 0 seq.length seq := by
  unfold RPar.norm
  cases seq with
  | nil => exact absurd rfl h
  | cons _ _ => rfl

theorem norm_chunk (a b : Int) (seq : List Char) (h : seq ≠ []) : (RPar.chunk a b seq).norm = .chunk a b seq := by
  unfold RPar.norm
  cases seq with
  | nil => exact absurd rfl h
  | cons _ _ => rfl

theorem memberSeq_norm_eq_expect (rp : RPar) (g : GChild) (hg : g.start ≤ g.stop)
    (hrp : match rp with
           | .whole seq => seq ≠ [] ∧ 0 ≤ g.start ∧ g.stop ≤ seq.length
           | .chunk cs ce seq => seq ≠ [] ∧ cs ≤ ce
           | _ => True) :
    (memberSeq rp g).norm = (expectMSeq rp g).norm := by
  cases rp with
  | none => rfl
  | noseq => rfl
  | whole seq =>
    simp only at hrp
    unfold memberSeq expectMSeq
    have e1 : max g.start 0 = g.start := by omega
    have e2 : min g.stop (seq.length : Int) = g.stop := by omega
    rw [norm_whole seq hrp.1]
    simp only [e1, e2, stretch, Int.sub_zero]
    split
    · rfl
    · rename_i hlt
      rw [slice_empty _ _ _ (by omega), orient_nil]
      rfl
  | chunk cs ce seq =>
    simp only at hrp
    unfold memberSeq expectMSeq
    rw [norm_chunk cs ce seq hrp.1]
    simp only [stretch]
    rw [overlapInt_iff _ _ _ _ hrp.2 hg]
    by_cases hov : g.start < ce ∧ cs < g.stop ∧ g.start < g.stop ∧ cs < ce
    · have : max g.start cs < min g.stop ce := by omega
      simp only [hov, and_self, decide_true, if_true, this]
    · have : ¬ max g.start cs < min g.stop ce := by omega
      simp only [hov, decide_false, Bool.false_eq_true, if_false, this]

/-- `expectMSeq` looks at the parent only through its normal form -/
theorem expectMSeq_congr {rp rp' : RPar} (h : rp.norm = rp'.norm) (g : GChild) :
    expectMSeq rp g = expectMSeq rp' g := by
  unfold expectMSeq; rw [h]

end BioCantor.Proofs.Query
