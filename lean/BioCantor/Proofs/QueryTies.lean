/-
  C09 helper lemmas, part 10: (a) the span kernel of Model/Query is the shared `overlapKernel` of Model/Location
  (C01/C02's model of `_has_overlap_single_interval`); (b) slices read position-wise: the new chunk holds, at
  chromosome position p, the source's base at p.
-/
import BioCantor.Model.Location
import BioCantor.Proofs.QueryResult
namespace BioCantor.Proofs.Query
open BioCantor BioCantor.Spec.Query BioCantor.Model.Query

theorem overlapInt_eq_overlapKernel (a b : Blk) (ha : a.1 ≤ a.2) (hb : b.1 ≤ b.2) :
    overlapInt ((a.1 : Int), (a.2 : Int)) ((b.1 : Int), (b.2 : Int)) = Model.overlapKernel a b := by
  unfold overlapInt Model.overlapKernel Blk.len
  simp only []
  repeat' split
  all_goals first | rfl | (exfalso; omega)

/-- position-wise reading of a Python slice -/
theorem slice_getElem? (l : List Char) (i j : Int) (k : Nat) (hk : (k : Int) < j - i) :
    (slice l i j)[k]? = l[i.toNat + k]? := by
  unfold slice
  rw [List.getElem?_take]
  have : k < (j - i).toNat := by omega
  simp only [this, if_true, List.getElem?_drop]

/-- T2 declaratively: the chunk cut for `[start, stop)` out of a sequence whose first base sits at chromosome
    position `lo` holds at every chromosome position `p` of the new range the source's base at `p`. -/
theorem stretch_base (lo : Int) (seq : List Char) (start stop p : Int) (h0 : lo ≤ start) (hp : start ≤ p ∧ p < stop) :
    (stretch lo seq start stop)[(p - start).toNat]? = seq[(p - lo).toNat]? := by
  unfold stretch
  rw [slice_getElem? seq (start - lo) (stop - lo) (p - start).toNat (by omega)]
  congr 1
  omega

end BioCantor.Proofs.Query
