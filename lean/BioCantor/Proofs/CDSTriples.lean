/-
  List-level facts behind C05-T2 and C05-T5: consecutive triples, the fast-path slice of `extract_sequence`,
  and the offset arithmetic of a codon window.
-/
import BioCantor.Model.CDS
import BioCantor.Spec.ReadingFrame
namespace BioCantor.Proofs
open BioCantor BioCantor.Model BioCantor.Spec

theorem triples_cons3 {α} (a b c : α) (r : List α) : triples (a :: b :: c :: r) = [a, b, c] :: triples r := by
  simp [triples]

theorem triples_short {α} (xs : List α) (h : xs.length < 3) : triples xs = [] := by
  match xs, h with
  | [], _ => rfl
  | [_], _ => rfl
  | [_, _], _ => rfl
  | _ :: _ :: _ :: _, h => simp at h; omega

theorem triples_length {α} : ∀ (xs : List α), (triples xs).length = xs.length / 3
  | [] => by simp [triples]
  | [_] => by simp [triples]
  | [_, _] => by simp [triples]
  | a :: b :: c :: r => by
    rw [triples_cons3, List.length_cons, triples_length r]
    simp only [List.length_cons]; omega

/-- the codons concatenated are the longest prefix whose length is a multiple of three -/
theorem triples_flatten {α} : ∀ (xs : List α), (triples xs).flatten = xs.take (3 * (xs.length / 3))
  | [] => by simp [triples]
  | [_] => by simp [triples]
  | [_, _] => by simp [triples]
  | a :: b :: c :: r => by
    rw [triples_cons3, List.flatten_cons, triples_flatten r]
    have : 3 * ((a :: b :: c :: r).length / 3) = 3 * (r.length / 3) + 3 := by
      simp only [List.length_cons]; omega
    rw [this]
    simp [List.take_succ_cons]

theorem triples_flatten_length {α} (xs : List α) : (triples xs).flatten.length % 3 = 0 := by
  rw [triples_flatten, List.length_take]
  have : 3 * (xs.length / 3) ≤ xs.length := by omega
  rw [Nat.min_eq_left this]; omega

theorem triples_drop {α} : ∀ (a : Nat) (xs : List α), triples (xs.drop (3 * a)) = (triples xs).drop a
  | 0, xs => by simp
  | a + 1, xs => by
    match xs with
    | [] => simp [triples]
    | [_] =>
      have : 3 * (a + 1) = 3 * a + 2 + 1 := by omega
      rw [this]; simp [triples]
    | [_, _] =>
      have : 3 * (a + 1) = 3 * a + 1 + 1 + 1 := by omega
      rw [this]; simp [triples]
    | x :: y :: z :: r =>
      have : 3 * (a + 1) = 3 * a + 3 := by omega
      rw [this, triples_cons3]
      simp only [List.drop_succ_cons]
      exact triples_drop a r

theorem triples_take {α} : ∀ (n : Nat) (xs : List α), triples (xs.take n) = (triples xs).take (n / 3)
  | n, [] => by simp [triples]
  | n, [x] => by
    have : ([x].take n).length < 3 := by simp [List.length_take]; omega
    rw [triples_short _ this]; simp [triples]
  | n, [x, y] => by
    have : ([x, y].take n).length < 3 := by simp [List.length_take]; omega
    rw [triples_short _ this]; simp [triples]
  | n, x :: y :: z :: r => by
    by_cases hn : n < 3
    · have : ((x :: y :: z :: r).take n).length < 3 := by simp [List.length_take]; omega
      rw [triples_short _ this]
      have : n / 3 = 0 := by omega
      simp [this]
    · obtain ⟨k, rfl⟩ : ∃ k, n = k + 3 := ⟨n - 3, by omega⟩
      have h3 : (k + 3) / 3 = k / 3 + 1 := by omega
      rw [h3, triples_cons3]
      simp only [List.take_succ_cons]
      rw [triples_cons3, triples_take k r]

/-- `seq[i : i + 3] for i in range(0, len(seq), 3)` on a concatenation of codons gives the codons back -/
theorem chunks3_flatten_triples : ∀ (xs : List Char), chunks3 (triples xs).flatten = triples xs
  | [] => rfl
  | [_] => rfl
  | [_, _] => rfl
  | a :: b :: c :: r => by
    rw [triples_cons3, List.flatten_cons]
    simp only [List.cons_append, List.nil_append, chunks3]
    rw [chunks3_flatten_triples r]

/-- the fast path of `extract_sequence`: `s[offset : len - ((len - offset) % 3)]` is the concatenation of the
    consecutive triples of `s` from `offset` on (for every offset ≥ 0, also beyond the end) -/
theorem pySlice_fast {α} (s : List α) (off : Nat) :
    pySlice s (off : Int) ((s.length : Int) - (((s.length : Int) - (off : Int)) % 3)) =
      (triples (s.drop off)).flatten := by
  rw [triples_flatten]
  unfold pySlice
  simp only
  by_cases h : off ≤ s.length
  · have hb : 0 ≤ (s.length : Int) - (((s.length : Int) - (off : Int)) % 3) := by omega
    have e1 : (if (off : Int) < 0 then max ((off : Int) + s.length) 0 else min (off : Int) s.length).toNat = off := by
      have : ¬ ((off : Int) < 0) := by omega
      simp only [this, if_false]; omega
    have e2 : (if (s.length : Int) - (((s.length : Int) - (off : Int)) % 3) < 0
        then max ((s.length : Int) - (((s.length : Int) - (off : Int)) % 3) + s.length) 0
        else min ((s.length : Int) - (((s.length : Int) - (off : Int)) % 3)) s.length).toNat =
          s.length - (s.length - off) % 3 := by
      have : ¬ ((s.length : Int) - (((s.length : Int) - (off : Int)) % 3) < 0) := by omega
      simp only [this, if_false]; omega
    rw [e1, e2, List.length_drop]
    congr 1; omega
  · have e1 : (if (off : Int) < 0 then max ((off : Int) + s.length) 0 else min (off : Int) s.length).toNat = s.length := by
      have : ¬ ((off : Int) < 0) := by omega
      simp only [this, if_false]; omega
    rw [e1, List.drop_of_length_le (Nat.le_refl _)]
    simp only [List.take_nil]
    rw [List.drop_of_length_le (by omega)]
    simp

/-- window arithmetic: `d` retained bases are cut from the 5' end, `m` remain in the window; iterating triples
    from offset `(-d) mod 3` inside the window yields exactly the codons of the CDS whose three positions lie
    within the window -/
theorem window_triples {α} (kept : List α) (d m : Nat) :
    triples (((kept.drop d).take m).drop ((3 - d % 3) % 3)) =
      ((triples kept).drop ((d + 2) / 3)).take ((d + m) / 3 - (d + 2) / 3) := by
  have ho : d + (3 - d % 3) % 3 = 3 * ((d + 2) / 3) := by omega
  rw [List.drop_take, List.drop_drop, ho, triples_take, triples_drop]
  congr 1
  omega

end BioCantor.Proofs
