/-
  Ties between the GENERATED SingleInterval kernels (`Gen/Kernels.lean`, re-translated from /repo's
  location_impl.py on every run) and the hand-written C02 model (`Model/Algebra.lean`):
  `extend_absolute`, `shift_position`, `optimize_blocks`, `_has_overlap_single_interval`,
  `_intersection_single_interval`.  The generated kernels see a SingleInterval without its parent; the model's
  parent bookkeeping (bound check against the parent's sequence, the parent of the result) is factored out by the
  `…_parent_factor` lemmas, so that kernel tie + factor lemma describe the model function completely.
-/
import BioCantor.Proofs.Ties
import BioCantor.Proofs.AlgBasics
namespace BioCantor.Proofs.AlgTies
open BioCantor BioCantor.GenP BioCantor.Proofs.Ties BioCantor.Model

/-- a generated SingleInterval as a parent-less located model value -/
def siPLoc (s : SI) : PLoc := (siLoc s, [])

/-- `optimize_blocks` of a SingleInterval returns itself or EmptyLocation (`none`) -/
def optLoc : Option SI → Location
  | none => .empty
  | some s => siLoc s

theorem siLoc_si (b : Blk) (st : Strand) : siLoc (si b st) = .single b st := by
  simp [siLoc, si]

theorem checkEnd_nil (e : Int) : checkEnd e [] = .ok () := rfl

theorem ok_bind' {α β} (a : α) (f : α → R β) : (Except.ok a >>= f) = f a := rfl

theorem mkSingleP_nil (s e : Int) (st : Strand) :
    mkSingleP s e st [] = (Model.mkSingle s e st >>= fun l => pure (l, ([] : PKey))) := by
  unfold mkSingleP
  cases Model.mkSingle s e st <;> rfl

/-- the constructor with a parent = the parent-less constructor, then the bound check, then attaching the parent -/
theorem mkSingleP_factor (s e : Int) (st : Strand) (par : PKey) :
    mkSingleP s e st par = (mkSingleP s e st [] >>= fun r => checkEnd e par >>= fun _ => pure (r.1, par)) := by
  rw [mkSingleP_nil]
  unfold mkSingleP
  cases Model.mkSingle s e st <;> rfl

theorem view_mkSI_P (s e : Int) (st : Strand) :
    view siPLoc (mkSI s e st) = some (mkSingleP s e st []) := by
  rw [mkSingleP_nil]
  unfold mkSI Model.mkSingle
  split <;> rfl

/-! ### extend_absolute -/

theorem extend_absolute (b : Blk) (st : Strand) (es ee : Int) :
    Agree siPLoc (Gen.SingleInterval_extend_absolute (si b st) es ee)
      (extendAbsoluteP (.single b st, []) es ee) := by
  unfold Gen.SingleInterval_extend_absolute extendAbsoluteP Agree
  simp only [si]
  by_cases h : min es ee < 0
  · simp only [h, if_true]; rfl
  · simp only [h, if_false]
    rw [← view_mkSI_P]
    cases mkSI _ _ _ <;> rfl

theorem extend_absolute_parent_factor (b : Blk) (st : Strand) (par : PKey) (es ee : Int) :
    extendAbsoluteP (.single b st, par) es ee =
      (extendAbsoluteP (.single b st, []) es ee >>= fun r =>
        checkEnd ((b.2 : Int) + ee) par >>= fun _ => pure (r.1, par)) := by
  unfold extendAbsoluteP
  by_cases h : min es ee < 0
  · simp only [h, if_true]; rfl
  · simp only [h, if_false]
    exact mkSingleP_factor _ _ _ _

/-! ### shift_position -/

theorem shift_position (b : Blk) (st : Strand) (k : Int) :
    Agree siPLoc (Gen.SingleInterval_shift_position (si b st) k) (shiftP (.single b st, []) k) := by
  unfold Gen.SingleInterval_shift_position shiftP Agree
  simp only [si]
  rw [← view_mkSI_P]
  cases mkSI _ _ _ <;> rfl

theorem shift_position_parent_factor (b : Blk) (st : Strand) (par : PKey) (k : Int) :
    shiftP (.single b st, par) k =
      (shiftP (.single b st, []) k >>= fun r => checkEnd ((b.2 : Int) + k) par >>= fun _ => pure (r.1, par)) := by
  unfold shiftP
  exact mkSingleP_factor _ _ _ _

/-! ### optimize_blocks -/

theorem optimize_blocks (b : Blk) (hb : b.1 ≤ b.2) (st : Strand) :
    Agree optLoc (Gen.SingleInterval_optimize_blocks (si b st)) (optimizeBlocks (.single b st)) := by
  unfold Gen.SingleInterval_optimize_blocks optimizeBlocks Agree Blk.len
  simp only [si]
  by_cases h : b.2 - b.1 = 0
  · have h' : (b.2 : Int) - (b.1 : Int) = 0 := by omega
    simp only [h, h', if_true]; rfl
  · have h' : ¬ ((b.2 : Int) - (b.1 : Int) = 0) := by omega
    simp only [h, h', if_false]
    show some (Except.ok (siLoc (si b st))) = _
    rw [siLoc_si]; rfl

/-- the parent of the optimised SingleInterval is the receiver's, EmptyLocation has none -/
theorem optimize_blocks_parent_factor (b : Blk) (st : Strand) (par : PKey) :
    optimizeBlocksP (.single b st, par) = (optimizeBlocks (.single b st) >>= fun r => pure (withPar r par)) := rfl

/-! ### overlap / intersection kernels in the vocabulary of Model/Algebra.lean -/

theorem overlap_kernel (a b : Blk) (ha : a.1 ≤ a.2) (hb : b.1 ≤ b.2) (sa sb : Strand) :
    Gen.SingleInterval_has_overlap_single_interval (si a sa) (si b sb) = .ok (overlapKernel a b) :=
  Ties.overlap a b ha hb sa sb

/-- `_intersection_single_interval` = the model's constructor call on `isectBlk` (values and refusals) -/
theorem intersection_kernel (a b : Blk) (sa sb : Strand) :
    Agree siLoc (Gen.SingleInterval_intersection_single_interval (si a sa) (si b sb))
      (mkSingleN (isectBlk a b) sa) := by
  unfold Agree
  rw [Ties.intersection]
  unfold mkSingleN isectBlk
  by_cases h : max a.1 b.1 ≤ min a.2 b.2
  · simp only [h, if_true]
    show some (Except.ok (siLoc (si _ sa))) = _
    rw [siLoc_si]; rfl
  · simp only [h, if_false]; rfl

/-- on overlapping blocks (the only place where the model takes `isectBlk`) the kernel returns exactly `isectBlk` -/
theorem intersection_kernel_of_overlap (a b : Blk) (sa sb : Strand) (h : overlapKernel a b = true) :
    Gen.SingleInterval_intersection_single_interval (si a sa) (si b sb) = .ok (si (isectBlk a b) sa) ∧
      (isectBlk a b).1 < (isectBlk a b).2 :=
  Ties.intersection_of_overlap a b sa sb h

/-- the model's `SingleInterval.intersection(other: SingleInterval)` is assembled from the two kernels -/
theorem isectSS_from_kernels (a b : Blk) (ha : a.1 ≤ a.2) (hb : b.1 ≤ b.2) (sa sb : Strand) (ms : Bool) :
    Agree optLoc
      (if ms = true ∧ sa ≠ sb then .ok none
       else match Gen.SingleInterval_has_overlap_single_interval (si a sa) (si b sb) with
         | .error e => .error e
         | .ok false => .ok none
         | .ok true => (Gen.SingleInterval_intersection_single_interval (si a sa) (si b sb)).map some)
      (isectSS a sa b sb ms) := by
  unfold isectSS
  rw [overlap_kernel a b ha hb]
  by_cases hg : ms = true ∧ sa ≠ sb
  · rw [if_pos hg, if_pos hg]; rfl
  · rw [if_neg hg, if_neg hg]
    cases hk : overlapKernel a b with
    | false => rfl
    | true =>
      have := (intersection_kernel_of_overlap a b sa sb hk).1
      simp only [this, Bool.not_true, Bool.false_eq_true, if_false]
      unfold Agree mkSingleN
      have hlt := (intersection_kernel_of_overlap a b sa sb hk).2
      simp only [Nat.le_of_lt hlt, if_true]
      show some (Except.ok (siLoc (si _ sa))) = _
      rw [siLoc_si]; rfl

/-! ### reset_strand / reverse_strand / reverse / reset_parent -/

theorem reset_strand (b : Blk) (st ns : Strand) :
    Agree siPLoc (Gen.SingleInterval_reset_strand (si b st) ns) (resetStrandP (.single b st, []) ns) := by
  unfold Gen.SingleInterval_reset_strand resetStrandP Agree
  simp only [si]
  rw [← view_mkSI_P]
  cases mkSI _ _ _ <;> rfl

theorem mkSI_ok (b : Blk) (hb : b.1 ≤ b.2) (st : Strand) :
    mkSI (b.1 : Int) (b.2 : Int) st = .ok ⟨(b.1 : Int), (b.2 : Int), st⟩ := by
  unfold mkSI
  rw [if_pos (by omega)]

/-- on a constructor-valid interval the kernel never raises and is the parent-less `Model.resetStrand` -/
theorem reset_strand_loc (b : Blk) (hb : b.1 ≤ b.2) (st ns : Strand) :
    Agree siLoc (Gen.SingleInterval_reset_strand (si b st) ns) (Model.resetStrand (.single b st) ns) := by
  unfold Gen.SingleInterval_reset_strand
  show Agree siLoc (match mkSI (b.1 : Int) (b.2 : Int) ns with | .error e => .error e | .ok t1 => .ok t1) _
  rw [mkSI_ok b hb]
  show some (Except.ok (siLoc (si b ns))) = _
  rw [siLoc_si]; rfl

theorem reset_strand_parent_factor (b : Blk) (st ns : Strand) (par : PKey) :
    resetStrandP (.single b st, par) ns =
      (resetStrandP (.single b st, []) ns >>= fun r => checkEnd (b.2 : Int) par >>= fun _ => pure (r.1, par)) := by
  unfold resetStrandP
  exact mkSingleP_factor _ _ _ _

theorem reverse_strand (b : Blk) (st : Strand) :
    Agree siPLoc (Gen.SingleInterval_reverse_strand (si b st)) (reverseStrandP (.single b st, [])) := by
  have hm : reverseStrandP (.single b st, []) = resetStrandP (.single b st, []) (strandReverse st) := rfl
  have hs : Gen.Strand_reverse (si b st).strand = .ok (strandReverse st) := Ties.strand_reverse st
  have := reset_strand b st (strandReverse st)
  rw [hm]
  unfold Gen.SingleInterval_reverse_strand
  rw [hs]
  show Agree siPLoc (match Gen.SingleInterval_reset_strand (si b st) (strandReverse st) with
    | .error e => .error e | .ok t2 => .ok t2) _
  unfold Agree at this ⊢
  cases h : Gen.SingleInterval_reset_strand (si b st) (strandReverse st) <;> rw [h] at this <;> exact this

theorem reverse (b : Blk) (st : Strand) :
    Agree siPLoc (Gen.SingleInterval_reverse (si b st)) (reverseP (.single b st, [])) := by
  unfold Gen.SingleInterval_reverse
  have := reverse_strand b st
  have he : reverseP (.single b st, []) = reverseStrandP (.single b st, []) := rfl
  rw [he]
  unfold Agree at this ⊢
  cases h : Gen.SingleInterval_reverse_strand (si b st) <;> rw [h] at this <;> exact this

theorem reverse_parent_factor (b : Blk) (st : Strand) (par : PKey) :
    reverseP (.single b st, par) = reverseStrandP (.single b st, par) ∧
    reverseStrandP (.single b st, par) =
      (reverseStrandP (.single b st, []) >>= fun r => checkEnd (b.2 : Int) par >>= fun _ => pure (r.1, par)) := by
  refine ⟨rfl, ?_⟩
  unfold reverseStrandP
  exact mkSingleP_factor _ _ _ _

/-- `reset_parent` re-builds the interval: the constructor on the same coordinates … -/
theorem reset_parent (b : Blk) (st : Strand) :
    Agree siPLoc (Gen.SingleInterval_reset_parent (si b st)) (mkSingleP b.1 b.2 st []) := by
  unfold Gen.SingleInterval_reset_parent Agree
  simp only [si]
  rw [← view_mkSI_P]
  cases mkSI _ _ _ <;> rfl

/-- … hence the identity on a constructor-valid interval (what `Model.containsP` uses for `reset_parent(None)`) -/
theorem reset_parent_id (b : Blk) (hb : b.1 ≤ b.2) (st : Strand) :
    Gen.SingleInterval_reset_parent (si b st) = .ok (si b st) := by
  unfold Gen.SingleInterval_reset_parent
  show (match mkSI (b.1 : Int) (b.2 : Int) st with | .error e => (Except.error e : PyR SI) | .ok t1 => Except.ok t1) = _
  rw [mkSI_ok b hb]
  rfl

/-! ### extend_relative -/

theorem extend_relative (b : Blk) (st : Strand) (up down : Int) :
    Agree siPLoc (Gen.SingleInterval_extend_relative (si b st) up down)
      (extendRelativeP (.single b st, []) up down) := by
  unfold Gen.SingleInterval_extend_relative extendRelativeP
  have h1 := extend_absolute b st up down
  have h2 := extend_absolute b st down up
  cases st with
  | unstranded => rfl
  | plus =>
    simp only [si] at h1 ⊢
    unfold Agree at h1 ⊢
    have : Gen.Strand_assert_directional Strand.plus = .ok 0 := rfl
    simp only [this, assertDirectional, if_true, true_or]
    cases h : Gen.SingleInterval_extend_absolute ⟨(b.1 : Int), (b.2 : Int), Strand.plus⟩ up down <;>
      rw [h] at h1 <;> exact h1
  | minus =>
    simp only [si] at h2 ⊢
    unfold Agree at h2 ⊢
    have : Gen.Strand_assert_directional Strand.minus = .ok 0 := rfl
    simp only [this, assertDirectional, reduceCtorEq, if_false, or_true, if_true]
    cases h : Gen.SingleInterval_extend_absolute ⟨(b.1 : Int), (b.2 : Int), Strand.minus⟩ down up <;>
      rw [h] at h2 <;> exact h2

theorem extend_relative_parent_factor (b : Blk) (st : Strand) (par : PKey) (up down : Int) :
    extendRelativeP (.single b st, par) up down =
      (assertDirectional st >>= fun _ =>
        if st = .plus then extendAbsoluteP (.single b st, par) up down
        else extendAbsoluteP (.single b st, par) down up) := rfl

/-! ### distance_to -/

/-- the model's `DistType` as the generated `DistanceType` -/
def genDist : DistType → Gen.DistanceType
  | .inner => .INNER
  | .outer => .OUTER
  | .starts => .STARTS
  | .ends => .ENDS

theorem pyAbs_sub (x y : Nat) : pyAbs ((x : Int) - (y : Int)) = ((absDiff x y : Nat) : Int) := by
  unfold pyAbs absDiff
  split <;> split <;> omega

/-- `_distance_to_single_interval` for the two distance types it implements -/
theorem distance_to_single_interval (a b : Blk) (ha : a.1 ≤ a.2) (hb : b.1 ≤ b.2) (sa sb : Strand) :
    Gen.SingleInterval_distance_to_single_interval (si a sa) (si b sb) .INNER = .ok ((innerSS a b : Nat) : Int) ∧
    Gen.SingleInterval_distance_to_single_interval (si a sa) (si b sb) .OUTER =
      .ok ((max (absDiff a.1 b.2) (absDiff a.2 b.1) : Nat) : Int) := by
  have hov := overlap_kernel a b ha hb sa sb
  unfold Gen.SingleInterval_distance_to_single_interval
  rw [hov]
  simp only [si, pyAbs_sub]
  constructor
  · simp only [if_true]
    unfold innerSS
    cases overlapKernel a b
    · simp only [Bool.false_eq_true, if_false]
      congr 1
      omega
    · simp
  · simp only [reduceCtorEq, if_false, if_true]
    congr 1
    omega

/-- `distance_to` between two parent-less single intervals: the kernel never raises and returns the model's value -/
theorem distance_to (a b : Blk) (ha : a.1 ≤ a.2) (hb : b.1 ≤ b.2) (sa sb : Strand) (ty : DistType) :
    ∃ d : Nat, distanceP (.single a sa, []) (.single b sb, []) ty = .ok d ∧
      Gen.SingleInterval_distance_to (si a sa) (si b sb) (genDist ty) = .ok (d : Int) := by
  obtain ⟨hin, hout⟩ := distance_to_single_interval a b ha hb sa sb
  unfold Gen.SingleInterval_distance_to
  cases ty with
  | starts => exact ⟨absDiff a.1 b.1, rfl, by simp [genDist, si, pyAbs_sub]⟩
  | ends => exact ⟨absDiff a.2 b.2, rfl, by simp [genDist, si, pyAbs_sub]⟩
  | outer =>
    refine ⟨max (absDiff a.1 b.2) (absDiff a.2 b.1), rfl, ?_⟩
    simp only [genDist, reduceCtorEq, if_false, hout]
  | inner =>
    refine ⟨innerSS a b, rfl, ?_⟩
    simp only [genDist, reduceCtorEq, if_false, hin]

/-! ### the statements are not vacuous: concrete evaluations on both sides -/

example : Gen.SingleInterval_extend_absolute (si (3, 10) .minus) 2 5 = .ok ⟨1, 15, .minus⟩ := by rfl
example : Gen.SingleInterval_extend_absolute (si (3, 10) .minus) 4 0 = .error .InvalidPositionException := by rfl
example : Gen.SingleInterval_extend_absolute (si (3, 10) .minus) (-1) 0 = .error .ValueError := by rfl
example : Gen.SingleInterval_shift_position (si (3, 10) .plus) (-4) = .error .InvalidPositionException := by rfl
example : Gen.SingleInterval_optimize_blocks (si (4, 4) .plus) = .ok none := by rfl
example : ((3, 10) : Blk).1 ≤ ((3, 10) : Blk).2 ∧ overlapKernel (3, 10) (5, 12) = true := by decide
example : Gen.SingleInterval_distance_to (si (3, 10) .plus) (si (14, 20) .minus) .INNER = .ok 4 := by rfl
example : Gen.SingleInterval_distance_to (si (3, 10) .plus) (si (14, 20) .minus) .OUTER = .ok 17 := by rfl
example : Gen.SingleInterval_extend_relative (si (3, 10) .minus) 2 1 = .ok ⟨2, 12, .minus⟩ := by rfl
example : Gen.SingleInterval_extend_relative (si (3, 10) .unstranded) 2 1 = .error .InvalidStrandException := by rfl
example : Gen.SingleInterval_reverse (si (3, 10) .plus) = .ok ⟨3, 10, .minus⟩ := by rfl

end BioCantor.Proofs.AlgTies
