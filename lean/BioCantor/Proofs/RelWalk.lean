/-
  The block walk of `CompoundInterval.relative_interval_to_parent_location` (`relWalk`):
  the produced sub-blocks, read in scan order on the location's strand, are exactly the requested
  slice of the location's reading; every sub-block is non-empty and lies inside its source block.
-/
import BioCantor.Proofs.RelBasics
namespace BioCantor.Proofs
open BioCantor BioCantor.Spec BioCantor.Model

/-- the sub-block `[s, e)` (relative coordinates) of `b` on strand `st` -/
def subBlk (st : Strand) (b : Blk) (s e : Nat) : Blk :=
  if st = .plus then (b.1 + s, b.1 + e) else (b.2 - e, b.2 - s)

/-- 5'→3' reading of one block on strand `st` (plus reading unless minus… here: plus vs other) -/
def rd (st : Strand) (b : Blk) : List Nat := if st = .plus then blkAsc b else blkDesc b

/-- reading of blocks given in scan order -/
def readScan (st : Strand) (bs : List Blk) : List Nat := bs.flatMap (rd st)

@[simp] theorem length_rd (st : Strand) (b : Blk) : (rd st b).length = b.len := by
  unfold rd; split <;> simp [blkAsc, blkDesc, Blk.len]

@[simp] theorem readScan_nil (st : Strand) : readScan st [] = [] := rfl
@[simp] theorem readScan_cons (st : Strand) (b : Blk) (bs : List Blk) :
    readScan st (b :: bs) = rd st b ++ readScan st bs := by simp [readScan]

theorem length_readScan (st : Strand) (bs : List Blk) : (readScan st bs).length = blocksLen bs := by
  induction bs with
  | nil => rfl
  | cons b bs ih => simp [blocksLen, ih]

/-! ### the three cases of one step of the walk -/

theorem relWalk_skip (st : Strand) (b : Blk) (bs : List Blk) (s n : Nat) (h : b.len ≤ s) :
    relWalk st (b :: bs) s n = relWalk st bs (s - b.len) n := by
  simp [relWalk, h]

theorem relWalk_last (st : Strand) (b : Blk) (bs : List Blk) (s n : Nat) (h1 : s < b.len)
    (h2 : s + n ≤ b.len) : relWalk st (b :: bs) s n = [subBlk st b s (s + n)] := by
  simp only [relWalk]
  rw [if_neg (by omega)]
  have hm : min b.len (s + n) = s + n := by omega
  simp only [hm]
  rw [if_pos (by omega)]
  rfl

theorem relWalk_more (st : Strand) (b : Blk) (bs : List Blk) (s n : Nat) (h1 : s < b.len)
    (h2 : b.len < s + n) :
    relWalk st (b :: bs) s n = subBlk st b s b.len :: relWalk st bs 0 (n - (b.len - s)) := by
  simp only [relWalk]
  rw [if_neg (by omega)]
  have hm : min b.len (s + n) = b.len := by omega
  simp only [hm]
  rw [if_neg (by omega)]
  have ht : ((n : Int) - ((b.len - s : Nat) : Int)).toNat = n - (b.len - s) := by omega
  rw [ht]
  rfl

/-! ### readings of sub-blocks -/

theorem rd_subBlk (st : Strand) (b : Blk) (s e : Nat) (hse : s ≤ e) (he : e ≤ b.len) :
    rd st (subBlk st b s e) = ((rd st b).drop s).take (e - s) := by
  unfold Blk.len at he
  apply List.ext_getElem
  · simp [Blk.len]
    unfold subBlk; split <;> simp <;> omega
  · intro i h1 h2
    unfold rd subBlk at *
    by_cases hp : st = .plus
    · simp only [hp, if_true, blkAsc] at *
      simp
    · simp only [hp, if_false, blkDesc, blkAsc] at *
      simp at h1 h2 ⊢
      omega

theorem subBlk_inside (st : Strand) (b : Blk) (s e : Nat) (hse : s < e) (he : e ≤ b.len) :
    b.1 ≤ (subBlk st b s e).1 ∧ (subBlk st b s e).1 < (subBlk st b s e).2 ∧ (subBlk st b s e).2 ≤ b.2 := by
  unfold Blk.len at he
  unfold subBlk; split <;> simp <;> omega

/-! ### list bookkeeping -/

theorem take_drop_append_skip {α} (A R : List α) (s n : Nat) (h : A.length ≤ s) :
    ((A ++ R).drop s).take n = (R.drop (s - A.length)).take n := by
  rw [List.drop_append, List.drop_of_length_le h]; rfl

theorem take_drop_append_last {α} (A R : List α) (s n : Nat) (h : s + n ≤ A.length) :
    ((A ++ R).drop s).take n = (A.drop s).take n := by
  rw [List.drop_append, List.take_append]
  have : n - (A.drop s).length = 0 := by simp; omega
  rw [this]; simp

theorem take_drop_append_more {α} (A R : List α) (s n : Nat) (h1 : s ≤ A.length) (h2 : A.length ≤ s + n) :
    ((A ++ R).drop s).take n = A.drop s ++ R.take (n - (A.length - s)) := by
  rw [List.drop_append, List.take_append]
  have e1 : s - A.length = 0 := by omega
  rw [e1, List.take_of_length_le (by simp; omega)]
  simp

/-! ### (a) the walk reads the requested slice -/

theorem relWalk_read (st : Strand) (bs : List Blk) (s n : Nat) (hn : 0 < n) (h : s + n ≤ blocksLen bs) :
    readScan st (relWalk st bs s n) = ((readScan st bs).drop s).take n := by
  induction bs generalizing s n with
  | nil => simp [blocksLen] at h; omega
  | cons b bs ih =>
    simp only [blocksLen] at h
    rw [readScan_cons]
    by_cases h1 : b.len ≤ s
    · rw [relWalk_skip st b bs s n h1, take_drop_append_skip _ _ _ _ (by simpa using h1)]
      rw [ih (s - b.len) n hn (by omega)]
      simp
    · by_cases h2 : s + n ≤ b.len
      · rw [relWalk_last st b bs s n (by omega) h2, take_drop_append_last _ _ _ _ (by simpa using h2)]
        rw [readScan_cons, readScan_nil, rd_subBlk st b s (s + n) (by omega) h2]
        simp
      · rw [relWalk_more st b bs s n (by omega) (by omega),
          take_drop_append_more _ _ _ _ (by simp; omega) (by simp; omega)]
        rw [readScan_cons, rd_subBlk st b s b.len (by omega) (Nat.le_refl _)]
        rw [ih 0 (n - (b.len - s)) (by omega) (by omega)]
        rw [List.take_of_length_le (by simp)]
        simp

/-- every produced sub-block is non-empty and inside one of the scanned blocks -/
theorem relWalk_inside (st : Strand) (bs : List Blk) (s n : Nat) (hn : 0 < n) :
    ∀ x ∈ relWalk st bs s n, ∃ b ∈ bs, b.1 ≤ x.1 ∧ x.1 < x.2 ∧ x.2 ≤ b.2 := by
  induction bs generalizing s n with
  | nil => simp [relWalk]
  | cons b bs ih =>
    intro x hx
    by_cases h1 : b.len ≤ s
    · rw [relWalk_skip st b bs s n h1] at hx
      obtain ⟨c, hc, hh⟩ := ih _ _ hn x hx
      exact ⟨c, List.mem_cons_of_mem _ hc, hh⟩
    · by_cases h2 : s + n ≤ b.len
      · rw [relWalk_last st b bs s n (by omega) h2] at hx
        simp only [List.mem_singleton] at hx
        subst hx
        exact ⟨b, by simp, subBlk_inside st b s (s + n) (by omega) h2⟩
      · rw [relWalk_more st b bs s n (by omega) (by omega)] at hx
        rcases List.mem_cons.mp hx with rfl | hx
        · exact ⟨b, by simp, subBlk_inside st b s b.len (by omega) (Nat.le_refl _)⟩
        · obtain ⟨c, hc, hh⟩ := ih _ _ (by omega) x hx
          exact ⟨c, List.mem_cons_of_mem _ hc, hh⟩

/-- relations that survive shrinking both blocks are inherited by the walk's output -/
theorem relWalk_pairwise (P : Blk → Blk → Prop)
    (mono : ∀ a b a' b' : Blk, P a b → a.1 ≤ a'.1 → a'.2 ≤ a.2 → b.1 ≤ b'.1 → b'.2 ≤ b.2 → P a' b')
    (st : Strand) (bs : List Blk) (s n : Nat) (hn : 0 < n) (hp : bs.Pairwise P) :
    (relWalk st bs s n).Pairwise P := by
  induction bs generalizing s n with
  | nil => simp [relWalk]
  | cons b bs ih =>
    rw [List.pairwise_cons] at hp
    by_cases h1 : b.len ≤ s
    · rw [relWalk_skip st b bs s n h1]
      exact ih _ _ hn hp.2
    · by_cases h2 : s + n ≤ b.len
      · rw [relWalk_last st b bs s n (by omega) h2]
        simp
      · rw [relWalk_more st b bs s n (by omega) (by omega), List.pairwise_cons]
        refine ⟨?_, ih _ _ (by omega) hp.2⟩
        intro x hx
        obtain ⟨c, hc, hc1, _, hc2⟩ := relWalk_inside st bs _ _ (by omega) x hx
        have hb := subBlk_inside st b s b.len (by omega) (Nat.le_refl _)
        exact mono b c _ x (hp.1 c hc) hb.1 hb.2.2 hc1 hc2

end BioCantor.Proofs
