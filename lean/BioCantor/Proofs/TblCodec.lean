/-
  C17 helper lemmas, part 1: the row codec.  `Spec.Tbl.classify` reads back every line `Model.Tbl` prints
  (interval rows with partial marks, qualifier lines, the header), `Spec.Tbl.readLines` regroups them.
-/
import BioCantor.Proofs.BedCodec
import BioCantor.Model.Tbl
import BioCantor.Spec.Tbl
namespace BioCantor.Proofs.Tbl
open BioCantor BioCantor.Model.Tbl BioCantor.Spec.Tbl
open BioCantor.Model.Bed (natStr join)
open BioCantor.Spec.Bed (splitOn parseNat digitVal)
open BioCantor.Proofs.Bed

/-! ### rows as the reader sees them -/

def plainRows (ps : List (Nat × Nat)) : List Row := ps.map (fun p => ⟨false, p.1, false, p.2⟩)

def setFirst : List Row → List Row
  | [] => []
  | r :: rs => { r with startPartial := true } :: rs

def setLast : List Row → List Row
  | [] => []
  | [r] => [{ r with endPartial := true }]
  | r :: s :: rs => r :: setLast (s :: rs)

/-- the rows `_location_to_str` prints for the pairs `ps` with the two marks -/
def rowsOf (ps : List (Nat × Nat)) (si ei : Bool) : List Row :=
  let r := plainRows ps
  let r := if si then setFirst r else r
  if ei then setLast r else r

/-- the two printed cells of a row -/
def cellOf (r : Row) : List Char × List Char :=
  (if r.startPartial then '<' :: natStr r.start else natStr r.start,
   if r.endPartial then '>' :: natStr r.stop else natStr r.stop)

theorem markFirst_map (rs : List Row) (h : ∀ r ∈ rs, r.startPartial = false) :
    markFirst (rs.map cellOf) = (setFirst rs).map cellOf := by
  cases rs with
  | nil => rfl
  | cons r rs =>
    have := h r (by simp)
    simp [markFirst, setFirst, cellOf, this]

theorem markLast_map (rs : List Row) (h : ∀ r ∈ rs, r.endPartial = false) :
    markLast (rs.map cellOf) = (setLast rs).map cellOf := by
  induction rs with
  | nil => rfl
  | cons r rs ih =>
    cases rs with
    | nil =>
      have := h r (by simp)
      simp [markLast, setLast, cellOf, this]
    | cons s rs =>
      have ih' := ih (fun x hx => h x (List.mem_cons_of_mem _ hx))
      simp only [List.map_cons, markLast, setLast] at ih' ⊢
      rw [ih']

theorem setFirst_endPartial (rs : List Row) (h : ∀ r ∈ rs, r.endPartial = false) :
    ∀ r ∈ setFirst rs, r.endPartial = false := by
  cases rs with
  | nil => simp [setFirst]
  | cons a rs =>
    intro r hr
    simp only [setFirst, List.mem_cons] at hr
    rcases hr with rfl | hr
    · exact h a (by simp)
    · exact h r (List.mem_cons_of_mem _ hr)

theorem plainRows_cells (ps : List (Nat × Nat)) :
    ps.map (fun p => (natStr p.1, natStr p.2)) = (plainRows ps).map cellOf := by
  unfold plainRows
  rw [List.map_map]
  apply List.map_congr_left
  intro p _
  simp [cellOf]

theorem cells_eq (ps : List (Nat × Nat)) (si ei : Bool) : cells ps si ei = (rowsOf ps si ei).map cellOf := by
  have hp1 : ∀ r ∈ plainRows ps, r.startPartial = false := by
    intro r hr; simp only [plainRows, List.mem_map] at hr; obtain ⟨p, _, rfl⟩ := hr; rfl
  have hp2 : ∀ r ∈ plainRows ps, r.endPartial = false := by
    intro r hr; simp only [plainRows, List.mem_map] at hr; obtain ⟨p, _, rfl⟩ := hr; rfl
  unfold cells rowsOf
  rw [plainRows_cells]
  cases si <;> cases ei <;> simp only [if_true, if_false, Bool.false_eq_true]
  · exact markLast_map _ hp2
  · exact markFirst_map _ hp1
  · rw [markFirst_map _ hp1]; exact markLast_map _ (setFirst_endPartial _ hp2)

/-! ### one interval line -/

theorem lt_not_digit : ¬ IsDigit '<' := by unfold IsDigit; decide
theorem gt_not_digit : ¬ IsDigit '>' := by unfold IsDigit; decide
theorem nl_not_digit : ¬ IsDigit '\n' := by unfold IsDigit; decide

theorem natStr_ne_nil (n : Nat) : natStr n ≠ [] := natStrAux_ne_nil n n

theorem natStr_head (n : Nat) : ∃ c cs, natStr n = c :: cs ∧ IsDigit c := by
  cases h : natStr n with
  | nil => exact absurd h (natStr_ne_nil n)
  | cons c cs => exact ⟨c, cs, rfl, natStr_digits n c (by rw [h]; simp)⟩

theorem parseCoord_plain (m : Char) (hm : ¬ IsDigit m) (n : Nat) : parseCoord m (natStr n) = some (false, n) := by
  obtain ⟨c, cs, h, hd⟩ := natStr_head n
  have hc : c ≠ m := fun e => hm (e ▸ hd)
  rw [h]; unfold parseCoord
  simp only [hc, if_false]
  rw [← h, parseNat_natStr]; rfl

theorem parseCoord_marked (m : Char) (n : Nat) : parseCoord m (m :: natStr n) = some (true, n) := by
  unfold parseCoord
  simp only [if_true]
  rw [parseNat_natStr]; rfl

theorem parseCoord_start (r : Row) : parseCoord '<' (cellOf r).1 = some (r.startPartial, r.start) := by
  unfold cellOf
  cases h : r.startPartial
  · simp only [Bool.false_eq_true, if_false]; exact parseCoord_plain _ lt_not_digit _
  · simp only [if_true]; exact parseCoord_marked _ _

theorem parseCoord_stop (r : Row) : parseCoord '>' (cellOf r).2 = some (r.endPartial, r.stop) := by
  unfold cellOf
  cases h : r.endPartial
  · simp only [Bool.false_eq_true, if_false]; exact parseCoord_plain _ gt_not_digit _
  · simp only [if_true]; exact parseCoord_marked _ _

/-- a cell holds digits and possibly its own mark: no tab, no line break -/
theorem cell_chars (r : Row) (x : Char) (hx : x ∈ (cellOf r).1 ∨ x ∈ (cellOf r).2) : IsDigit x ∨ x = '<' ∨ x = '>' := by
  unfold cellOf at hx
  rcases hx with hx | hx
  · cases h : r.startPartial
    · simp only [h, Bool.false_eq_true, if_false] at hx; exact Or.inl (natStr_digits _ _ hx)
    · simp only [h, if_true, List.mem_cons] at hx
      rcases hx with rfl | hx
      · exact Or.inr (Or.inl rfl)
      · exact Or.inl (natStr_digits _ _ hx)
  · cases h : r.endPartial
    · simp only [h, Bool.false_eq_true, if_false] at hx; exact Or.inl (natStr_digits _ _ hx)
    · simp only [h, if_true, List.mem_cons] at hx
      rcases hx with rfl | hx
      · exact Or.inr (Or.inr rfl)
      · exact Or.inl (natStr_digits _ _ hx)

theorem cell_no (c : Char) (hd : ¬ IsDigit c) (h1 : c ≠ '<') (h2 : c ≠ '>') (r : Row) :
    c ∉ (cellOf r).1 ∧ c ∉ (cellOf r).2 := by
  constructor
  · intro h; rcases cell_chars r c (Or.inl h) with h | h | h
    · exact hd h
    · exact h1 h
    · exact h2 h
  · intro h; rcases cell_chars r c (Or.inr h) with h | h | h
    · exact hd h
    · exact h1 h
    · exact h2 h

theorem rowLine_eq_join (key : List Char) (c : List Char × List Char) : rowLine key c = join '\t' [c.1, c.2, key, [], []] := by
  simp [rowLine, join]

/-- the first cell starts with a digit or `<` -/
theorem cell_head (r : Row) : ∃ c cs, (cellOf r).1 = c :: cs ∧ c ≠ '>' := by
  unfold cellOf
  cases r.startPartial
  · simp only [Bool.false_eq_true, if_false]
    obtain ⟨c, cs, h, hd⟩ := natStr_head r.start
    exact ⟨c, cs, h, fun e => gt_not_digit (e ▸ hd)⟩
  · exact ⟨'<', natStr r.start, by simp, by decide⟩

theorem classify_rowLine (key : List Char) (r : Row) (hk : '\t' ∉ key) :
    classify (rowLine key (cellOf r)) = if key = [] then .cont r else .first r key := by
  obtain ⟨c, cs, hc, hne⟩ := cell_head r
  have hnt := cell_no '\t' tab_not_digit (by decide) (by decide) r
  have hsplit : splitOn '\t' (rowLine key (cellOf r)) = [(cellOf r).1, (cellOf r).2, key, [], []] := by
    rw [rowLine_eq_join]
    apply splitOn_join _ _ (by simp)
    intro f hf
    simp only [List.mem_cons, List.not_mem_nil, or_false] at hf
    rcases hf with rfl | rfl | rfl | rfl | rfl
    · exact hnt.1
    · exact hnt.2
    · exact hk
    · simp
    · simp
  have hline : rowLine key (cellOf r) = c :: (cs ++ '\t' :: ((cellOf r).2 ++ '\t' :: (key ++ ['\t', '\t']))) := by
    unfold rowLine; rw [hc]; rfl
  unfold classify
  have h1 : rowLine key (cellOf r) ≠ [] := by rw [hline]; simp
  have h2 : (rowLine key (cellOf r)).head? ≠ some '>' := by rw [hline]; simpa using hne
  simp only [h1, h2, if_false, hsplit]
  unfold classifyCols
  have hne1 : (cellOf r).1 ≠ [] := by rw [hc]; simp
  simp only [hne1, false_and, if_false, and_self, if_true, parseCoord_start, parseCoord_stop]


/-! ### qualifier lines -/

theorem qualLine_eq_join (k v : List Char) : qualLine k v = join '\t' [[], [], [], k, v] := by
  simp [qualLine, join]

theorem classify_qualLine (k v : List Char) (hk : '\t' ∉ k) (hv : '\t' ∉ v) (hk0 : k ≠ []) :
    classify (qualLine k v) = .qual k v := by
  have hsplit : splitOn '\t' (qualLine k v) = [[], [], [], k, v] := by
    rw [qualLine_eq_join]
    apply splitOn_join _ _ (by simp)
    intro f hf
    simp only [List.mem_cons, List.not_mem_nil, or_false] at hf
    rcases hf with rfl | rfl | rfl | rfl | rfl <;> simp_all
  unfold classify
  have h1 : qualLine k v ≠ [] := by simp [qualLine]
  have h2 : (qualLine k v).head? ≠ some '>' := by simp [qualLine]
  simp only [h1, h2, if_false, hsplit]
  simp [classifyCols, hk0]

/-! ### the header -/

theorem classify_header (name : List Char) (hs : ' ' ∉ name) (hne : name ≠ []) :
    classify (">Features ".toList ++ name) = .header name := by
  have hsplit : splitOn ' ' (">Features ".toList ++ name) = [">Features".toList, name] := by
    have : ">Features ".toList ++ name = join ' ' [">Features".toList, name] := by simp [join]
    rw [this]
    apply splitOn_join _ _ (by simp)
    intro f hf
    simp only [List.mem_cons, List.not_mem_nil, or_false] at hf
    rcases hf with rfl | rfl
    · decide
    · exact hs
  unfold classify
  have h1 : ">Features ".toList ++ name ≠ [] := by simp
  have h2 : (">Features ".toList ++ name).head? = some '>' := by simp
  simp only [h1, h2, if_false, if_true]
  unfold parseHeader
  rw [hsplit]
  simp [hne]

theorem classify_nil : classify [] = .blank := by simp [classify]

end BioCantor.Proofs.Tbl
