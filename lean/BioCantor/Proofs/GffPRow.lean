/-
  C11 / T5 — from rendered lines to parsed rows: `toPRow r` is what the Spec's reader returns for the rendered row
  `r`; its ID / Parent / Name / type / coordinates are those of `r`, its remaining attributes are the canonical
  form of the decoded qualifier pairs.
-/
import BioCantor.Proofs.GffLine
import BioCantor.Proofs.GffQuals
namespace BioCantor.Proofs.GffPRow
open BioCantor BioCantor.Model.Gff BioCantor.Proofs.GffEscape BioCantor.Proofs.GffRows BioCantor.Proofs.GffAttrs
open BioCantor.Proofs.GffLine BioCantor.Proofs.GffAttrEq BioCantor.Proofs.GffQuals BioCantor.Proofs.GffCanon
open BioCantor.Spec.Gff (Str Quals PRow Info percentDecode splitOnChar parseLine canonAttrs expectAttrs reservedReadsAs
  isReservedTag attrVals attr1 wellEscaped structuralValue)

def tailOf (a : Attrs) : List (Str × Str) :=
  match qualPairs a.raiseOnReserved (sortQuals a.quals) with
  | .ok t => t
  | .error _ => []

/-- the parsed image of a row -/
def toPRow (r : Row) : PRow :=
  ⟨r.seqid, gffSource, r.type.value, r.start, r.stop, nullColumn, r.strand, phaseNat r.phase,
   (headPairs r.attrs ++ tailOf r.attrs).map decodePair⟩

structure RowOk (r : Row) : Prop where
  seq : noSep r.seqid
  seqne : r.seqid ≠ []
  lo : 1 ≤ r.start
  le : r.start ≤ r.stop
  keys : KeysOk r.attrs.quals

theorem parse_toPRow (r : Row) (line : Str) (h : rowStr r = .ok line) (ok : RowOk r) :
    parseLine line = some (toPRow r) := by
  obtain ⟨tail, ht, hp⟩ := parseLine_rowStr r line h ok.seq ok.seqne ok.lo ok.le ok.keys
  rw [hp]
  unfold toPRow tailOf
  rw [ht]

/-- every rendered line of a list of good rows parses to the image of its row -/
theorem lines_parse : ∀ (rows : List Row) (lines : List Str), rows.mapM rowStr = .ok lines →
    (∀ r ∈ rows, RowOk r) → lines.mapM parseLine = some (rows.map toPRow)
  | [], lines, h, _ => by
    simp only [List.mapM_nil, pure, Except.pure] at h
    cases h; rfl
  | r :: rest, lines, h, hok => by
    rw [List.mapM_cons] at h
    cases hr : rowStr r with
    | error e => rw [hr] at h; cases h
    | ok line =>
      rw [hr] at h
      cases hrest : rest.mapM rowStr with
      | error e => rw [hrest] at h; cases h
      | ok ls =>
        rw [hrest] at h
        simp only [bind, Except.bind, pure, Except.pure] at h
        cases h
        rw [List.mapM_cons, parse_toPRow r line hr (hok r List.mem_cons_self),
          lines_parse rest ls hrest (fun x hx => hok x (List.mem_cons_of_mem _ hx))]
        rfl

/-! ### the reserved tags of a parsed row -/

theorem decode_reserved (v : Str) : (splitOnChar ',' (escapeValue v true)).map percentDecode = [reservedReadsAs v] := by
  have hw := escapeValue_wellEscaped v true
  simp only [if_true] at hw
  have hnc : ',' ∉ escapeValue v true := not_mem_of_wellEscaped hw comma_in_structuralValue
  rw [splitOnChar_of_not_mem _ _ hnc]
  simp only [List.map_cons, List.map_nil, List.cons.injEq, and_true]
  unfold escapeValue reservedReadsAs
  simp only [if_true]
  by_cases hv : v = []
  · subst hv
    simp only [List.length_nil, gt_iff_lt, Nat.lt_irrefl, if_false, if_true]
    exact nan_decode
  · have hl : v.length > 0 := List.length_pos_iff.mpr hv
    simp only [hl, if_true, hv, if_false]
    exact decode_escapeWith gffEncodingMapWithComma_good v

theorem decode_kID : percentDecode Model.Gff.kID = Spec.Gff.kID := by simp [percentDecode, Model.Gff.kID, Spec.Gff.kID]
theorem decode_kParent : percentDecode Model.Gff.kParent = Spec.Gff.kParent := by
  simp [percentDecode, Model.Gff.kParent, Spec.Gff.kParent]
theorem decode_kName : percentDecode Model.Gff.kName = Spec.Gff.kName := by
  simp [percentDecode, Model.Gff.kName, Spec.Gff.kName]

/-- the decoded ID / Parent / Name pairs -/
def headD (a : Attrs) : List (Str × List Str) :=
  [(Spec.Gff.kID, [reservedReadsAs a.id])]
    ++ (match a.parent with | some p => [(Spec.Gff.kParent, [reservedReadsAs p])] | none => [])
    ++ (match a.name with | some n => [(Spec.Gff.kName, [reservedReadsAs n])] | none => [])

theorem headPairs_decode (a : Attrs) : (headPairs a).map decodePair = headD a := by
  unfold headPairs headD
  simp only [List.map_append, List.map_cons, List.map_nil, decodePair, decode_reserved, decode_kID]
  congr 1
  · congr 1
    cases a.parent with
    | none => rfl
    | some p => simp [decodePair, decode_reserved, decode_kParent]
  · cases a.name with
    | none => rfl
    | some n => simp [decodePair, decode_reserved, decode_kName]

theorem tailOf_tags (a : Attrs) : ∀ p ∈ tailOf a, isReservedTag (percentDecode p.1) = false := by
  intro p hp
  unfold tailOf at hp
  cases hq : qualPairs a.raiseOnReserved (sortQuals a.quals) with
  | error e => rw [hq] at hp; simp at hp
  | ok t =>
    rw [hq] at hp
    have := qualPairs_tags _ _ _ hq p hp
    simp only [isReservedTag, Bool.or_eq_false_iff, decide_eq_false_iff_not]
    exact ⟨⟨this.1, this.2.1⟩, this.2.2⟩

theorem toPRow_attrs (r : Row) : (toPRow r).attrs = headD r.attrs ++ (tailOf r.attrs).map decodePair := by
  unfold toPRow
  simp only [List.map_append, headPairs_decode]

theorem tail_filter_reserved (a : Attrs) (k : Str) (hk : isReservedTag k = true) :
    ((tailOf a).map decodePair).filter (fun kv => kv.1 = k) = [] := by
  rw [List.filter_eq_nil_iff]
  intro e he
  obtain ⟨p, hp, rfl⟩ := List.mem_map.mp he
  have := tailOf_tags a p hp
  simp only [decodePair]
  intro e'
  have e'' : percentDecode p.1 = k := of_decide_eq_true e'
  rw [e'', hk] at this; cases this

theorem toPRow_id (r : Row) : (toPRow r).id = some (reservedReadsAs r.attrs.id) := by
  unfold PRow.id attr1 attrVals
  rw [toPRow_attrs, List.filter_append, tail_filter_reserved _ _ (by decide)]
  unfold headD
  cases r.attrs.parent <;> cases r.attrs.name <;>
    simp [Spec.Gff.kID, Spec.Gff.kParent, Spec.Gff.kName]

theorem toPRow_parent (r : Row) : (toPRow r).parent = r.attrs.parent.map reservedReadsAs := by
  unfold PRow.parent attr1 attrVals
  rw [toPRow_attrs, List.filter_append, tail_filter_reserved _ _ (by decide)]
  unfold headD
  cases r.attrs.parent <;> cases r.attrs.name <;>
    simp [Spec.Gff.kID, Spec.Gff.kParent, Spec.Gff.kName]

theorem toPRow_name (r : Row) : (toPRow r).name = r.attrs.name.map reservedReadsAs := by
  unfold PRow.name attr1 attrVals
  rw [toPRow_attrs, List.filter_append, tail_filter_reserved _ _ (by decide)]
  unfold headD
  cases r.attrs.parent <;> cases r.attrs.name <;>
    simp [Spec.Gff.kID, Spec.Gff.kParent, Spec.Gff.kName]

/-- the non-reserved attributes of a parsed row, canonical = `expectAttrs` of the row's qualifier dictionary
    (whenever the row rendered at all) -/
theorem toPRow_info_attrs (r : Row) (line : Str) (h : rowStr r = .ok line) :
    (toPRow r).info.attrs = expectAttrs r.attrs.quals := by
  unfold PRow.info
  simp only
  rw [toPRow_attrs, List.filter_append]
  have h1 : (headD r.attrs).filter (fun kv => !isReservedTag kv.1) = [] := by
    rw [List.filter_eq_nil_iff]
    intro e he
    have hres : isReservedTag e.1 = true := by
      unfold headD at he
      rcases List.mem_append.mp he with he | he
      · rcases List.mem_append.mp he with he | he
        · rw [List.mem_singleton.mp he]; exact (by decide : isReservedTag Spec.Gff.kID = true)
        · cases hp : r.attrs.parent with
          | none => rw [hp] at he; simp at he
          | some p => rw [hp] at he; rw [List.mem_singleton.mp he]; exact (by decide : isReservedTag Spec.Gff.kParent = true)
      · cases hn : r.attrs.name with
        | none => rw [hn] at he; simp at he
        | some p => rw [hn] at he; rw [List.mem_singleton.mp he]; exact (by decide : isReservedTag Spec.Gff.kName = true)
    simp [hres]
  have h2 : ((tailOf r.attrs).map decodePair).filter (fun kv => !isReservedTag kv.1) = (tailOf r.attrs).map decodePair := by
    rw [List.filter_eq_self]
    intro e he
    obtain ⟨p, hp, rfl⟩ := List.mem_map.mp he
    simp only [decodePair, tailOf_tags r.attrs p hp, Bool.not_false]
  rw [h1, h2, List.nil_append]
  -- the row rendered, so the qualifier loop succeeded
  unfold rowStr attrsStr at h
  cases hq : qualPairs r.attrs.raiseOnReserved (sortQuals r.attrs.quals) with
  | error e => rw [hq] at h; cases h
  | ok t =>
    have : tailOf r.attrs = t := by unfold tailOf; rw [hq]
    rw [this]
    exact tail_reads_as _ _ _ hq

end BioCantor.Proofs.GffPRow
