/-
  Shared vocabulary and bridging lemmas of the C02 proofs: well-formed located inputs, the spec's parent
  predicates versus the model's, bounded quantifiers, and position-set facts about blocks.
-/
import BioCantor.Proofs.RelInterval
import BioCantor.Spec.Algebra
import BioCantor.Model.Algebra
namespace BioCantor.Proofs
open BioCantor BioCantor.Spec BioCantor.Model

/-! ### well-formed located inputs -/

/-- What the constructors establish for a location with a parent: `WF`, the end inside the parent's sequence,
    and `EmptyLocation` has no parent. -/
def WFP (a : PLoc) : Prop :=
  WF a.1 ∧ (a.1 = .empty → a.2 = []) ∧
    (∀ n, parentSeqLen a.2 = some n → ∀ b ∈ locationBlocks a.1, b.2 ≤ n)

instance (a : PLoc) : Decidable (WFP a) := by
  unfold WFP
  have : Decidable (∀ n, parentSeqLen a.2 = some n → ∀ b ∈ locationBlocks a.1, b.2 ≤ n) := by
    cases h : parentSeqLen a.2 with
    | none => exact isTrue (by intro n hn; cases hn)
    | some m =>
      exact decidable_of_iff (∀ b ∈ locationBlocks a.1, b.2 ≤ m)
        ⟨fun hh n hn => by cases hn; exact hh, fun hh => hh m rfl⟩
  infer_instance

/-- the spec driver's numbering of `DistanceType` -/
def distCode : DistType → Nat
  | .inner => 0
  | .outer => 1
  | .starts => 2
  | .ends => 3

/-! ### parents -/

theorem parLen_eq (p : PKey) : parLen p = parentSeqLen p := by
  cases p <;> rfl

theorem eqExceptLoc_eq_sameParent : ∀ (a b : PKey), a ≠ [] → b ≠ [] → eqExceptLoc a b = sameParent a b
  | x :: xs, y :: ys, _, _ => by
    unfold eqExceptLoc sameParent
    simp only [pinfoId, pinfoType, pinfoSeq]
    by_cases hx : xs = []
    · subst hx; simp [Bool.and_comm]
    · by_cases hy : ys = []
      · subst hy; simp [Bool.and_comm]
      · have ih := eqExceptLoc_eq_sameParent xs ys hx hy
        have e1 : xs.isEmpty = false := by simpa using hx
        have e2 : ys.isEmpty = false := by simpa using hy
        simp only [e1, e2, Bool.or_false, Bool.false_or, ih]
        simp only [Bool.false_eq_true, if_false]
        cases (x.1 == y.1) <;> cases (x.2.1 == y.2.1) <;> cases (x.2.2 == y.2.2) <;> cases sameParent xs ys <;> rfl
  | [], _, h, _ => absurd rfl h
  | _ :: _, [], _, h => absurd rfl h

theorem sameParent_nil_left (b : PKey) : sameParent [] b = b.isEmpty := by
  cases b <;> rfl

theorem sameParent_nil_right (a : PKey) : sameParent a [] = a.isEmpty := by
  cases a <;> rfl

/-- the gate at the head of `SingleInterval.has_overlap` is the documented compatibility -/
theorem parentGate_eq (a b : PKey) : parentGate a b = sameParent a b := by
  unfold parentGate
  cases a with
  | nil => cases b with
    | nil => simp [parentId, sameParent]
    | cons y ys =>
      simp only [sameParent_nil_left, parentId, List.isEmpty_cons, List.isEmpty_nil]
      split <;> simp
  | cons x xs => cases b with
    | nil =>
      simp only [sameParent_nil_right, parentId, List.isEmpty_cons, List.isEmpty_nil]
      split <;> simp
    | cons y ys =>
      simp only [parentId, List.isEmpty_cons, Bool.false_and, Bool.or_self, Bool.false_eq_true, if_false]
      rw [eqExceptLoc_eq_sameParent _ _ (by simp) (by simp)]
      split
      · rename_i h
        unfold sameParent
        simp only [pinfoId] at h
        have : (x.1 == y.1) = false := by simpa using h
        simp [this]
      · rfl

theorem requireParentsEq_eq (a b : PKey) :
    requireParentsEq a b = if sameParent a b then .ok () else .error .MismatchedParent := by
  cases a with
  | nil => cases b <;> rfl
  | cons x xs => cases b with
    | nil => rfl
    | cons y ys =>
      show (if eqExceptLoc (x :: xs) (y :: ys) then pure () else throw Err.MismatchedParent) = _
      rw [eqExceptLoc_eq_sameParent _ _ (by simp) (by simp)]
      split <;> rfl

theorem sameParent_refl : ∀ a : PKey, sameParent a a = true
  | [] => rfl
  | x :: xs => by
    unfold sameParent
    simp [sameParent_refl xs]

theorem sameParent_symm : ∀ a b : PKey, sameParent a b = sameParent b a
  | [], [] => rfl
  | [], _ :: _ => rfl
  | _ :: _, [] => rfl
  | x :: xs, y :: ys => by
    unfold sameParent
    rw [sameParent_symm xs ys]
    have e1 : (x.1 == y.1) = (y.1 == x.1) := BEq.comm
    have e2 : (x.2.1 == y.2.1) = (y.2.1 == x.2.1) := BEq.comm
    have e3 : (x.2.2 == y.2.2) = (y.2.2 == x.2.2) := BEq.comm
    rw [e1, e2, e3]
    cases xs.isEmpty <;> cases ys.isEmpty <;> simp

/-- compatible parents have the same sequence, hence the same bound -/
theorem sameParent_seqLen (a b : PKey) (h : sameParent a b = true) : parentSeqLen a = parentSeqLen b := by
  cases a with
  | nil => cases b with
    | nil => rfl
    | cons _ _ => simp [sameParent] at h
  | cons x xs => cases b with
    | nil => simp [sameParent] at h
    | cons y ys =>
      unfold sameParent at h
      simp only [Bool.and_eq_true, beq_iff_eq] at h
      simp [parentSeqLen, pinfoSeq, h.1.2]

/-! ### bounded quantifiers -/

theorem allUpTo_iff (n : Nat) (f : Nat → Bool) : allUpTo n f = true ↔ ∀ p, p ≤ n → f p = true := by
  simp [allUpTo, List.all_eq_true, List.mem_range]
  constructor
  · intro h p hp; exact h p (by omega)
  · intro h p hp; exact h p (by omega)

theorem anyUpTo_iff (n : Nat) (f : Nat → Bool) : anyUpTo n f = true ↔ ∃ p, p ≤ n ∧ f p = true := by
  simp [anyUpTo, List.any_eq_true, List.mem_range]
  constructor
  · rintro ⟨p, hp, h⟩; exact ⟨p, by omega, h⟩
  · rintro ⟨p, hp, h⟩; exact ⟨p, by omega, h⟩

/-! ### coverage of block lists -/

theorem coversBlocks_iff (bs : List Blk) (p : Nat) :
    coversBlocks bs p = true ↔ ∃ b ∈ bs, b.1 ≤ p ∧ p < b.2 := by
  simp [coversBlocks, List.any_eq_true]

theorem coversBlocks_nil (p : Nat) : coversBlocks [] p = false := rfl

theorem coversBlocks_cons (b : Blk) (bs : List Blk) (p : Nat) :
    coversBlocks (b :: bs) p = ((decide (b.1 ≤ p) && decide (p < b.2)) || coversBlocks bs p) := by
  simp [coversBlocks]

theorem coversBlocks_append (xs ys : List Blk) (p : Nat) :
    coversBlocks (xs ++ ys) p = (coversBlocks xs p || coversBlocks ys p) := by
  simp [coversBlocks]

theorem coversBlocks_perm {xs ys : List Blk} (h : xs.Perm ys) (p : Nat) :
    coversBlocks xs p = coversBlocks ys p := by
  rw [Bool.eq_iff_iff, coversBlocks_iff, coversBlocks_iff]
  constructor
  · rintro ⟨b, hb, h1⟩; exact ⟨b, h.mem_iff.mp hb, h1⟩
  · rintro ⟨b, hb, h1⟩; exact ⟨b, h.mem_iff.mpr hb, h1⟩

theorem coversBlocks_sort (s : Strand) (bs : List Blk) (p : Nat) :
    coversBlocks (sortBlocks s bs) p = coversBlocks bs p :=
  coversBlocks_perm (sortBlocks_perm s bs) p

theorem coversBlocks_reverse (bs : List Blk) (p : Nat) : coversBlocks bs.reverse p = coversBlocks bs p :=
  coversBlocks_perm (List.reverse_perm bs) p

/-- covered ⇔ listed among the bases -/
theorem coversBlocks_iff_mem_basesPlus (bs : List Blk) (p : Nat) :
    coversBlocks bs p = true ↔ p ∈ basesPlus bs := by
  rw [coversBlocks_iff, basesPlus_eq_flatMap]
  simp only [List.mem_flatMap, blkAsc, List.mem_range'_1]
  constructor
  · rintro ⟨b, hb, h1, h2⟩; exact ⟨b, hb, h1, by omega⟩
  · rintro ⟨b, hb, h1, h2⟩; exact ⟨b, hb, h1, by omega⟩

theorem coversBlocks_lt_maxEndOf (bs : List Blk) (p : Nat) (h : coversBlocks bs p = true) : p < maxEndOf bs := by
  induction bs with
  | nil => simp [coversBlocks] at h
  | cons b bs ih =>
    rw [coversBlocks_cons] at h
    simp only [Bool.or_eq_true, Bool.and_eq_true, decide_eq_true_eq] at h
    simp only [maxEndOf]
    rcases h with h | h
    · omega
    · have := ih h; omega

theorem maxEndOf_eq_maxEnd (bs : List Blk) : maxEndOf bs = maxEnd bs := by
  induction bs with
  | nil => rfl
  | cons b bs ih => simp [maxEndOf, maxEnd, ih]

theorem le_maxEndOf_of_mem (bs : List Blk) (b : Blk) (h : b ∈ bs) : b.2 ≤ maxEndOf bs := by
  induction bs with
  | nil => cases h
  | cons c cs ih =>
    simp only [maxEndOf]
    rcases List.mem_cons.mp h with rfl | h
    · omega
    · have := ih h; omega

theorem maxEndOf_append (xs ys : List Blk) : maxEndOf (xs ++ ys) = max (maxEndOf xs) (maxEndOf ys) := by
  induction xs with
  | nil => simp [maxEndOf]
  | cons x xs ih => simp [maxEndOf, ih, Nat.max_assoc]

theorem maxEndOf_le_iff (bs : List Blk) (n : Nat) : maxEndOf bs ≤ n ↔ ∀ b ∈ bs, b.2 ≤ n := by
  induction bs with
  | nil => simp [maxEndOf]
  | cons b bs ih =>
    simp only [maxEndOf, List.mem_cons, forall_eq_or_imp, ← ih]
    omega

theorem maxEndOf_perm {xs ys : List Blk} (h : xs.Perm ys) : maxEndOf xs = maxEndOf ys := by
  apply Nat.le_antisymm
  · exact (maxEndOf_le_iff _ _).mpr (fun b hb => le_maxEndOf_of_mem _ b (h.mem_iff.mp hb))
  · exact (maxEndOf_le_iff _ _).mpr (fun b hb => le_maxEndOf_of_mem _ b (h.mem_iff.mpr hb))

/-- coordinates of `l` are bounded by `hiOf` of any list containing `l` -/
theorem hiOf_pair_left (a b : Location) (p : Nat) (h : locationCovers a p = true) : p ≤ hiOf [a, b] := by
  have : locationCovers a p = coversBlocks (locationBlocks a) p := by
    cases a <;> simp [locationCovers, locationBlocks, covers, coversBlocks]
  rw [this] at h
  have := coversBlocks_lt_maxEndOf _ _ h
  simp only [hiOf, List.flatMap_cons, List.flatMap_nil, List.append_nil, maxEndOf_append]
  omega

theorem locationCovers_eq (a : Location) (p : Nat) :
    locationCovers a p = coversBlocks (locationBlocks a) p := by
  cases a <;> simp [locationCovers, locationBlocks, covers, coversBlocks]

theorem hiOf_pair (a b : Location) : hiOf [a, b] = max (maxEndOf (locationBlocks a)) (maxEndOf (locationBlocks b)) := by
  simp [hiOf, maxEndOf_append]

theorem hiOf_one (a : Location) : hiOf [a] = maxEndOf (locationBlocks a) := by
  simp [hiOf]

theorem locBlocks_eq (a : Location) : locBlocks a = locationBlocks a := by
  cases a <;> rfl

/-! ### sorted block lists: the first start is the least -/

theorem sortedBy_head_le (s : Strand) (b : Blk) (bs : List Blk) (h : sortedBy (blkLe s) (b :: bs) = true) :
    ∀ x ∈ bs, b.1 ≤ x.1 := by
  induction bs generalizing b with
  | nil => simp
  | cons c cs ih =>
    simp only [sortedBy, Bool.and_eq_true] at h
    intro x hx
    have hbc : b.1 ≤ c.1 := by
      have := h.1
      cases s <;> simp [blkLe, blkLePlus, blkLeOther] at this <;> omega
    rcases List.mem_cons.mp hx with rfl | hx
    · exact hbc
    · have := ih c h.2 x hx; omega

theorem minStartOf_sorted (s : Strand) (b : Blk) (bs : List Blk) (h : sortedBy (blkLe s) (b :: bs) = true) :
    minStartOf (b :: bs) = b.1 := by
  induction bs generalizing b with
  | nil => rfl
  | cons c cs ih =>
    have h' : sortedBy (blkLe s) (c :: cs) = true := by
      simp only [sortedBy, Bool.and_eq_true] at h; exact h.2
    have hle := sortedBy_head_le s b (c :: cs) h c (by simp)
    simp only [minStartOf]
    rw [ih c h']
    omega

/-- `spanOf` of a well-formed location, in the model's terms -/
theorem spanOf_single (b : Blk) (s : Strand) : spanOf (.single b s) = some b := by
  simp [spanOf, locationBlocks, minStartOf, maxEndOf]

theorem spanOf_compound (l : Loc) (h : l.Canon) :
    ∃ f rest, l.blocks = f :: rest ∧ spanOf (.compound l) = some (f.1, maxEnd l.blocks) ∧
      fullSpan l = .ok (f.1, maxEnd l.blocks) := by
  obtain ⟨hne, hv, hs⟩ := h
  match hb : l.blocks, hne with
  | f :: rest, _ =>
    refine ⟨f, rest, rfl, ?_, ?_⟩
    · rw [hb] at hs
      simp only [spanOf, locationBlocks, hb]
      rw [minStartOf_sorted l.strand f rest hs, maxEndOf_eq_maxEnd]
    · have hf : f.1 ≤ f.2 := (blocksValid_iff _).mp hv f (by simp [hb])
      unfold fullSpan
      simp only [hb, List.head?_cons]
      have : f.1 ≤ maxEnd (f :: rest) := by simp only [maxEnd]; omega
      simp [this]
      rfl

/-! ### the overlap kernel -/

theorem overlapKernel_iff (a b : Blk) : overlapKernel a b = true ↔ (max a.1 b.1 < min a.2 b.2) := by
  unfold overlapKernel Blk.len
  repeat' split
  all_goals simp only [Bool.false_eq_true, false_iff, true_iff]
  all_goals omega

theorem overlapKernel_comm (a b : Blk) : overlapKernel a b = overlapKernel b a := by
  rw [Bool.eq_iff_iff, overlapKernel_iff, overlapKernel_iff]; omega

/-- two blocks overlap ⇔ they share a position -/
theorem overlapKernel_iff_exists (a b : Blk) :
    overlapKernel a b = true ↔ ∃ p, (a.1 ≤ p ∧ p < a.2) ∧ (b.1 ≤ p ∧ p < b.2) := by
  rw [overlapKernel_iff]
  constructor
  · intro h; exact ⟨max a.1 b.1, by omega⟩
  · rintro ⟨p, h1, h2⟩; omega

theorem covers_isectBlk (a b : Blk) (p : Nat) :
    coversBlocks [isectBlk a b] p = (coversBlocks [a] p && coversBlocks [b] p) := by
  simp only [coversBlocks, isectBlk, List.any_cons, List.any_nil, Bool.or_false]
  rw [Bool.eq_iff_iff]
  simp only [Bool.and_eq_true, decide_eq_true_eq]
  omega

end BioCantor.Proofs
