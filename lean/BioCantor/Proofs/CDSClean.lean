/-
  C05-T1: the frame-cleaning loop of `_prepare_multi_exon_window_for_scan_codon_locations` computes the
  reference walk.  Stated on CDS-relative coordinates: exon i occupies the relative interval
  [off_i, off_i + len_i) with off_{i+1} = off_i + len_i (that `exonRel` produces exactly these intervals
  for a non-overlapping layout is `Proofs/CDSExonRel.lean`).
-/
import BioCantor.Proofs.CDSFrames
import BioCantor.Spec.ReadingFrame
namespace BioCantor.Proofs
open BioCantor BioCantor.Model BioCantor.Spec

/-- the relative positions denoted by one entry of `cleaned_rel_starts/ends` -/
def rangeOf (p : Int × Int) : List Nat := List.range' p.1.toNat (p.2 - p.1).toNat

def validEntry (p : Int × Int) : Prop := 0 ≤ p.1 ∧ p.1 ≤ p.2

theorem segsLen_cons {α} (s : List α) (segs : List (List α)) : segsLen (s :: segs) = s.length + segsLen segs := by
  simp [segsLen]

theorem segsLen_nil {α} : segsLen ([] : List (List α)) = 0 := rfl

theorem rangeOf_length (p : Int × Int) : (rangeOf p).length = (p.2 - p.1).toNat := by
  simp [rangeOf]

theorem cleanedSum_eq : ∀ (cl : List (Int × Int)), (∀ p ∈ cl, validEntry p) →
    cleanedSum cl = ((segsLen (cl.map rangeOf) : Nat) : Int)
  | [], _ => by simp [cleanedSum, segsLen]
  | p :: rest, hv => by
    have hp := hv p (by simp)
    have ih := cleanedSum_eq rest (fun q hq => hv q (by simp [hq]))
    simp only [cleanedSum, List.map_cons, segsLen_cons, rangeOf_length, ih]
    unfold validEntry at hp
    omega

/-- the loop state `st` represents the segment list `segs` of the reference walk -/
structure Corr (st : CleanSt) (segs : List (List Nat)) : Prop where
  nn : st.nextFrame ≠ .NONE
  nf : st.nextFrame.value = ((segsLen segs % 3 : Nat) : Int)
  valid : ∀ p ∈ st.cleanedRev, validEntry p
  segs_eq : st.cleanedRev.map rangeOf = segs

theorem corr_init : Corr CleanSt.init [] := by
  constructor <;> simp [CleanSt.init, segsLen, CDSFrame.value]

/-- pushing a (possibly empty) new entry -/
theorem corr_push (nf : CDSFrame) (cl : List (Int × Int)) (segs : List (List Nat))
    (hv : ∀ p ∈ cl, validEntry p) (hs : cl.map rangeOf = segs) (hnn : nf ≠ .NONE)
    (hnf : nf.value = ((segsLen segs % 3 : Nat) : Int)) (a b : Nat) :
    ∃ st', (if (a : Int) ≥ (b : Int) then (pure ⟨nf, cl⟩ : R CleanSt)
            else do let g ← frameShift nf ((b : Int) - (a : Int)); pure ⟨g, ((a : Int), (b : Int)) :: cl⟩) = .ok st' ∧
      Corr st' (pushSeg (List.range' a (b - a)) segs) := by
  by_cases hab : (a : Int) ≥ (b : Int)
  · refine ⟨⟨nf, cl⟩, by simp [hab, pure, Except.pure], ?_⟩
    have : b - a = 0 := by omega
    simp only [this, List.range'_zero, pushSeg, List.isEmpty_nil, if_true]
    exact ⟨hnn, hnf, hv, hs⟩
  · obtain ⟨g, hg, hgv, hgn⟩ := frameShift_ok nf hnn ((b : Int) - (a : Int))
    refine ⟨⟨g, ((a : Int), (b : Int)) :: cl⟩, by simp [hab, hg, bind, Except.bind, pure, Except.pure], ?_⟩
    have hpos : 0 < b - a := by omega
    have hne : (List.range' a (b - a)).isEmpty = false := by
      cases h : b - a with
      | zero => omega
      | succ k => simp [List.range'_succ]
    simp only [pushSeg, hne]
    refine ⟨hgn, ?_, ?_, ?_⟩
    · simp only [Bool.false_eq_true, if_false]
      rw [hgv, hnf, segsLen_cons, List.length_range']; omega
    · intro p hp
      simp only [List.mem_cons] at hp
      rcases hp with rfl | hp
      · unfold validEntry; simp; omega
      · exact hv p hp
    · simp only [Bool.false_eq_true, if_false, List.map_cons, hs]
      congr 1
      unfold rangeOf
      simp only [Int.toNat_natCast]
      congr 1; omega

theorem take_range'_sub (s n r : Nat) (h : r ≤ n) : (List.range' s n).take (n - r) = List.range' s (n - r) :=
  List.take_range'_of_length_ge (by omega)

/-- one loop iteration follows one step of the reference walk (when the walk does not need a deep trim) -/
theorem cleanStep_corr (st : CleanSt) (segs : List (List Nat)) (h : Corr st segs)
    (off n : Nat) (fr : CDSFrame) (hfr : fr ≠ .NONE) (segs' : List (List Nat))
    (hstep : (if fr.value.toNat = segsLen segs % 3 then some (pushSeg (List.range' off n) segs)
              else (trimLast (segsLen segs % 3) segs).map (pushSeg ((List.range' off n).drop fr.value.toNat))) = some segs') :
    ∃ st', cleanStep st ((off : Int), ((off + n : Nat) : Int)) fr = .ok st' ∧ Corr st' segs' := by
  obtain ⟨hnn, hnf, hv, hs⟩ := h
  have hfv := frame_value_range fr hfr
  have hsum := cleanedSum_eq st.cleanedRev hv
  rw [hs] at hsum
  unfold cleanStep
  by_cases hsame : fr.value.toNat = segsLen segs % 3
  · -- annotated frame = running frame
    have hfe : st.nextFrame = fr := frame_eq_of_value (by rw [hnf]; omega)
    simp only [hsame, if_true, Option.some.injEq] at hstep
    subst hstep
    simp only [hfe, ne_eq, not_true_eq_false, if_false, false_and]
    have := corr_push fr st.cleanedRev segs hv hs hfr (by rw [← hfe, hnf]) off (off + n)
    simpa [Nat.add_sub_cancel_left] using this
  · -- re-synchronise
    have hne : st.nextFrame ≠ fr := by
      intro he; apply hsame; rw [← he, hnf]; omega
    simp only [hsame, if_false] at hstep
    simp only [hne, ne_eq, not_false_eq_true, if_true, true_and]
    -- the trimmed list
    cases hsegs : segs with
    | nil =>
      have hcl : st.cleanedRev = [] := by
        cases hc : st.cleanedRev with
        | nil => rfl
        | cons p r => rw [hc, hsegs] at hs; simp at hs
      rw [hsegs] at hstep hsum
      simp only [segsLen_nil, Nat.zero_mod, trimLast, if_true, Option.map_some, Option.some.injEq] at hstep
      subst hstep
      simp only [hcl, cleanedSum, Int.zero_emod, Int.lt_irrefl, if_false]
      have := corr_push .ZERO [] [] (by simp) rfl (by simp) (by simp [segsLen, CDSFrame.value]) (off + fr.value.toNat) (off + n)
      have e1 : ((off + fr.value.toNat : Nat) : Int) = (off : Int) + fr.value := by omega
      have e2 : List.range' (off + fr.value.toNat) (off + n - (off + fr.value.toNat)) =
          (List.range' off n).drop fr.value.toNat := by
        rw [List.drop_range']; congr 1 <;> omega
      rw [e1, e2] at this
      exact this
    | cons seg rest =>
      rw [hsegs] at hstep hs hsum hnf
      cases hc : st.cleanedRev with
      | nil => rw [hc] at hs; simp at hs
      | cons p cl =>
        rw [hc] at hs hv
        simp only [List.map_cons, List.cons.injEq] at hs
        obtain ⟨hp, hcl⟩ := hs
        have hpv := hv p (by simp)
        unfold validEntry at hpv
        have hseglen : seg.length = (p.2 - p.1).toNat := by rw [← hp, rangeOf_length]
        simp only [trimLast] at hstep
        by_cases hr : segsLen (seg :: rest) % 3 ≤ seg.length
        · simp only [hr, if_true, Option.map_some, Option.some.injEq] at hstep
          subst hstep
          -- model side
          have hshift : cleanedSum (p :: cl) % 3 = ((segsLen (seg :: rest) % 3 : Nat) : Int) := by
            rw [← hc, hsum]; omega
          simp only [hshift]
          generalize hrdef : segsLen (seg :: rest) % 3 = r at hr hshift hnf ⊢
          -- trimmed list in both cases (r = 0 / r > 0) represents `seg.take (len - r) :: rest`
          have hv' : ∀ q ∈ (if (r : Int) > 0 then trimLastEnd (r : Int) (p :: cl) else p :: cl), validEntry q := by
            intro q hq
            by_cases h0 : (r : Int) > 0
            · simp only [h0, if_true, trimLastEnd, List.mem_cons] at hq
              rcases hq with rfl | hq
              · unfold validEntry; simp; omega
              · exact hv q (by simp [hq])
            · simp only [h0, if_false] at hq; exact hv q hq
          have hs' : (if (r : Int) > 0 then trimLastEnd (r : Int) (p :: cl) else p :: cl).map rangeOf =
              seg.take (seg.length - r) :: rest := by
            by_cases h0 : (r : Int) > 0
            · simp only [h0, if_true, trimLastEnd, List.map_cons, hcl, List.cons.injEq, and_true]
              rw [← hp]
              unfold rangeOf
              simp only
              rw [List.length_range', take_range'_sub _ _ r (by rw [hseglen] at hr; exact hr)]
              congr 1; omega
            · have hr0 : r = 0 := by omega
              subst hr0
              simp [hp, hcl]
          have hlen' : segsLen (seg.take (seg.length - r) :: rest) % 3 = 0 := by
            rw [segsLen_cons, List.length_take]
            rw [segsLen_cons] at hrdef
            omega
          have := corr_push .ZERO _ _ hv' hs' (by simp) (by rw [hlen']; simp [CDSFrame.value])
            (off + fr.value.toNat) (off + n)
          have e1 : ((off + fr.value.toNat : Nat) : Int) = (off : Int) + fr.value := by omega
          have e2 : List.range' (off + fr.value.toNat) (off + n - (off + fr.value.toNat)) =
              (List.range' off n).drop fr.value.toNat := by
            rw [List.drop_range']; congr 1 <;> omega
          rw [e1, e2] at this
          have hcond : (True ∧ (r : Int) > 0) ↔ (r : Int) > 0 := by simp
          simpa [hcond] using this
        · simp [hr] at hstep

/-! ### The loop -/

/-- the reference walk on CDS-relative positions: exon i = [off_i, off_i + n_i) with its frame value -/
def relWalkExons : Nat → List (Nat × CDSFrame) → List (WalkExon Nat)
  | _, [] => []
  | off, (n, fr) :: rest => (List.range' off n, fr.value.toNat) :: relWalkExons (off + n) rest

/-- what the loop sees: (rel_start, rel_end) of every exon and its frame -/
def relInput : Nat → List (Nat × CDSFrame) → List ((Int × Int) × CDSFrame)
  | _, [] => []
  | off, (n, fr) :: rest => (((off : Int), ((off + n : Nat) : Int)), fr) :: relInput (off + n) rest

theorem cleanLoop_corr : ∀ (ex : List (Nat × CDSFrame)) (off : Nat) (st : CleanSt) (segs : List (List Nat)),
    Corr st segs → (∀ e ∈ ex, e.2 ≠ .NONE) →
    ∀ segs', refSegsAux (relWalkExons off ex) segs = some segs' →
    ∃ st', cleanLoop st (relInput off ex) = .ok st' ∧ Corr st' segs'
  | [], _, st, segs, h, _, segs', hw => by
    simp only [relWalkExons, refSegsAux, Option.some.injEq] at hw
    subst hw
    exact ⟨st, rfl, h⟩
  | (n, fr) :: rest, off, st, segs, h, hfr, segs', hw => by
    have hfr0 : fr ≠ .NONE := hfr (n, fr) (by simp)
    have hrest : ∀ e ∈ rest, e.2 ≠ .NONE := fun e he => hfr e (by simp [he])
    simp only [relWalkExons, refSegsAux] at hw
    -- the segment list after this exon
    have hmid : ∃ mid, (if fr.value.toNat = segsLen segs % 3 then some (pushSeg (List.range' off n) segs)
              else (trimLast (segsLen segs % 3) segs).map (pushSeg ((List.range' off n).drop fr.value.toNat))) = some mid ∧
              refSegsAux (relWalkExons (off + n) rest) mid = some segs' := by
      by_cases hsame : fr.value.toNat = segsLen segs % 3
      · simp only [hsame, if_true] at hw ⊢
        exact ⟨_, rfl, hw⟩
      · simp only [hsame, if_false] at hw ⊢
        cases ht : trimLast (segsLen segs % 3) segs with
        | none => rw [ht] at hw; simp at hw
        | some s' => rw [ht] at hw; exact ⟨_, rfl, hw⟩
    obtain ⟨mid, hstep, hrec⟩ := hmid
    obtain ⟨st1, h1, hc1⟩ := cleanStep_corr st segs h off n fr hfr0 mid hstep
    obtain ⟨st2, h2, hc2⟩ := cleanLoop_corr rest (off + n) st1 mid hc1 hrest segs' hrec
    refine ⟨st2, ?_, hc2⟩
    simp only [relInput, cleanLoop, h1, bind, Except.bind]
    exact h2

/-! ### Segments ↔ kept list (pure reference level) -/

theorem flatten_length_segs {α} (segs : List (List α)) : segs.reverse.flatten.length = segsLen segs := by
  simp [List.length_flatten, segsLen, List.map_reverse, List.sum_reverse]

theorem pushSeg_flatten {α} (p : List α) (segs : List (List α)) :
    (pushSeg p segs).reverse.flatten = segs.reverse.flatten ++ p := by
  unfold pushSeg
  cases p with
  | nil => simp
  | cons a t => simp

theorem trimLast_flatten {α} (r : Nat) (segs segs' : List (List α)) (h : trimLast r segs = some segs') :
    segs'.reverse.flatten = segs.reverse.flatten.take (segsLen segs - r) := by
  cases segs with
  | nil =>
    simp only [trimLast] at h
    split at h
    · simp at h; subst h; simp
    · simp at h
  | cons seg rest =>
    simp only [trimLast] at h
    split at h
    · rename_i hr
      simp only [Option.some.injEq] at h
      subst h
      simp only [List.reverse_cons, List.flatten_append, List.flatten_cons, List.flatten_nil, List.append_nil,
        segsLen_cons]
      have hl : rest.reverse.flatten.length = segsLen rest := flatten_length_segs rest
      rw [List.take_append]
      have h1 : seg.length + segsLen rest - r - rest.reverse.flatten.length = seg.length - r := by omega
      have h2 : rest.reverse.flatten.take (seg.length + segsLen rest - r) = rest.reverse.flatten := by
        apply List.take_of_length_le; omega
      rw [h1, h2]
    · simp at h

theorem refSegs_flatten {α} : ∀ (ex : List (WalkExon α)) (segs segs' : List (List α)),
    refSegsAux ex segs = some segs' → segs'.reverse.flatten = refKeptAux ex segs.reverse.flatten
  | [], segs, segs', h => by
    simp only [refSegsAux, Option.some.injEq] at h; subst h; rfl
  | (pos, f) :: rest, segs, segs', h => by
    simp only [refSegsAux] at h
    simp only [refKeptAux, flatten_length_segs]
    by_cases hsame : f = segsLen segs % 3
    · simp only [hsame, if_true] at h ⊢
      rw [refSegs_flatten rest _ _ h, pushSeg_flatten]
    · simp only [hsame, if_false] at h ⊢
      cases ht : trimLast (segsLen segs % 3) segs with
      | none => rw [ht] at h; simp at h
      | some s' =>
        rw [ht] at h
        simp only at h
        rw [refSegs_flatten rest _ _ h, pushSeg_flatten, trimLast_flatten _ _ _ ht]

/-- C05-T1 on relative coordinates: under `shallowTrim` the loop succeeds, its `next_frame` is the total
    cleaned length modulo three, and the cleaned blocks read in order are exactly the positions kept by the
    reference walk. -/
theorem cleanLoop_refKept (ex : List (Nat × CDSFrame)) (hfr : ∀ e ∈ ex, e.2 ≠ .NONE)
    (hs : shallowTrim (relWalkExons 0 ex) = true) :
    ∃ st, cleanLoop CleanSt.init (relInput 0 ex) = .ok st ∧
      st.nextFrame.value = cleanedSum st.cleanedRev % 3 ∧
      (∀ p ∈ st.cleanedRev, 0 ≤ p.1 ∧ p.1 ≤ p.2) ∧
      (st.cleanedRev.reverse.map rangeOf).flatten = refKept (relWalkExons 0 ex) := by
  unfold shallowTrim at hs
  cases hw : refSegsAux (relWalkExons 0 ex) [] with
  | none => rw [hw] at hs; simp at hs
  | some segs' =>
    obtain ⟨st, h1, hc⟩ := cleanLoop_corr ex 0 CleanSt.init [] corr_init hfr segs' hw
    refine ⟨st, h1, ?_, hc.valid, ?_⟩
    · rw [cleanedSum_eq _ hc.valid, hc.segs_eq, hc.nf]; omega
    · have := refSegs_flatten _ _ _ hw
      simp only [List.reverse_nil, List.flatten_nil] at this
      rw [List.map_reverse, hc.segs_eq]
      exact this

end BioCantor.Proofs
