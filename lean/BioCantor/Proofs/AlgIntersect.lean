/-
  C02-T2: `intersection` covers exactly the common positions (full spans with `full_span`), on the receiver's
  strand, well formed, inside the parent, without empty blocks, and in normal form for operands that are not
  self-overlapping.
-/
import BioCantor.Proofs.AlgOverlap
import BioCantor.Proofs.AlgOptimize
namespace BioCantor.Proofs.Isect
open BioCantor BioCantor.Spec BioCantor.Model BioCantor.Proofs

/-! ### blocks -/

theorem cb_cons (b : Blk) (bs : List Blk) (q : Nat) :
    coversBlocks (b :: bs) q = (coversBlocks [b] q || coversBlocks bs q) := by
  simp [coversBlocks]

theorem isectBlk_comm (a b : Blk) : isectBlk a b = isectBlk b a := by
  simp [isectBlk, Nat.max_comm, Nat.min_comm]

theorem kernel_false_cov (x y : Blk) (h : overlapKernel x y = false) (q : Nat) :
    (coversBlocks [x] q && coversBlocks [y] q) = false := by
  rw [Bool.eq_false_iff]
  intro hh
  simp only [Bool.and_eq_true] at hh
  have := (kernel_cov x y).mpr ⟨q, hh⟩
  simp [h] at this

/-- the intersections of one block with the blocks of a list, in list order -/
def rowI (x : Blk) (B : List Blk) : List Blk :=
  B.filterMap (fun y => if overlapKernel x y then some (isectBlk x y) else none)

theorem rowI_cons (x y : Blk) (B : List Blk) :
    rowI x (y :: B) = if overlapKernel x y then isectBlk x y :: rowI x B else rowI x B := by
  unfold rowI
  by_cases h : overlapKernel x y = true
  · simp [List.filterMap_cons, h]
  · simp [List.filterMap_cons, h]

theorem covers_rowI (x : Blk) (B : List Blk) (q : Nat) :
    coversBlocks (rowI x B) q = (coversBlocks [x] q && coversBlocks B q) := by
  induction B with
  | nil => simp [rowI, coversBlocks]
  | cons y B ih =>
    rw [rowI_cons, cb_cons y B]
    cases hk : overlapKernel x y with
    | true =>
      simp only [if_true]
      rw [cb_cons, ih, covers_isectBlk]
      cases coversBlocks [x] q <;> cases coversBlocks [y] q <;> cases coversBlocks B q <;> rfl
    | false =>
      simp only [Bool.false_eq_true, if_false]
      rw [ih]
      have := kernel_false_cov x y hk q
      cases h1 : coversBlocks [x] q <;> cases h2 : coversBlocks [y] q <;> cases coversBlocks B q <;> simp_all

theorem mem_rowI {x : Blk} {B : List Blk} {u : Blk} (h : u ∈ rowI x B) :
    ∃ y ∈ B, overlapKernel x y = true ∧ u = isectBlk x y := by
  unfold rowI at h
  obtain ⟨y, hy, hf⟩ := List.mem_filterMap.mp h
  by_cases hk : overlapKernel x y = true
  · simp only [hk, if_true, Option.some.injEq] at hf
    exact ⟨y, hy, hk, hf.symm⟩
  · simp [hk] at hf

theorem rowI_bounds {x : Blk} {B : List Blk} {u : Blk} (h : u ∈ rowI x B) :
    u.1 < u.2 ∧ x.1 ≤ u.1 ∧ u.2 ≤ x.2 := by
  obtain ⟨y, _, hk, rfl⟩ := mem_rowI h
  rw [overlapKernel_iff] at hk
  simp only [isectBlk]
  omega

theorem rowI_ne_nil {x : Blk} {B : List Blk} {y : Blk} (hy : y ∈ B) (hk : overlapKernel x y = true) :
    rowI x B ≠ [] := by
  intro h
  have : isectBlk x y ∈ rowI x B := by
    unfold rowI
    exact List.mem_filterMap.mpr ⟨y, hy, by simp [hk]⟩
  rw [h] at this
  cases this

theorem rowI_pairwise (x : Blk) (B : List Blk) (hB : B.Pairwise (fun a b => a.2 ≤ b.1)) :
    (rowI x B).Pairwise (fun a b => a.2 ≤ b.1) := by
  unfold rowI
  refine List.Pairwise.filterMap _ ?_ hB
  intro a a' haa' b hb b' hb'
  by_cases h1 : overlapKernel x a = true
  · by_cases h2 : overlapKernel x a' = true
    · simp only [h1, h2, if_true, Option.some.injEq] at hb hb'
      subst hb; subst hb'
      simp only [isectBlk]
      omega
    · simp [h2] at hb'
  · simp [h1] at hb

/-- `CompoundInterval._intersection_single_interval`'s list is a `rowI` -/
theorem colI_eq (A : List Blk) (b : Blk) :
    A.filterMap (fun x => if overlapKernel x b then some (isectBlk x b) else none) = rowI b A := by
  unfold rowI
  congr 1
  funext x
  rw [overlapKernel_comm x b, isectBlk_comm x b]

/-- the `has_overlap` pre-test inside the block loop of `_intersection_compound_interval` is redundant -/
theorem guarded_row_eq (x : Blk) (B : List Blk) :
    (if B.any (fun y => overlapKernel y x) then
        B.filterMap (fun y => if overlapKernel x y then some (isectBlk x y) else none)
      else []) = rowI x B := by
  by_cases h : B.any (fun y => overlapKernel y x) = true
  · simp only [h, if_true]; rfl
  · simp only [h]
    symm
    cases hr : rowI x B with
    | nil => rfl
    | cons u us =>
      exfalso
      have hu : u ∈ rowI x B := by rw [hr]; simp
      obtain ⟨y, hy, hk, _⟩ := mem_rowI hu
      apply h
      rw [List.any_eq_true]
      exact ⟨y, hy, by rw [overlapKernel_comm]; exact hk⟩

/-- all pairwise intersections, receiver-major -/
def gridI (A B : List Blk) : List Blk := A.flatMap (fun x => rowI x B)

theorem covers_gridI (A B : List Blk) (q : Nat) :
    coversBlocks (gridI A B) q = (coversBlocks A q && coversBlocks B q) := by
  induction A with
  | nil => simp [gridI, coversBlocks]
  | cons x A ih =>
    have : gridI (x :: A) B = rowI x B ++ gridI A B := by simp [gridI]
    rw [this, coversBlocks_append, covers_rowI, ih, cb_cons x A]
    cases coversBlocks [x] q <;> cases coversBlocks A q <;> cases coversBlocks B q <;> rfl

theorem mem_gridI {A B : List Blk} {u : Blk} (h : u ∈ gridI A B) : ∃ x ∈ A, u ∈ rowI x B := by
  unfold gridI at h
  exact List.mem_flatMap.mp h

theorem gridI_pos {A B : List Blk} {u : Blk} (h : u ∈ gridI A B) : u.1 < u.2 := by
  obtain ⟨x, _, hu⟩ := mem_gridI h
  exact (rowI_bounds hu).1

theorem gridI_pairwise (A B : List Blk) (hA : A.Pairwise (fun a b => a.2 ≤ b.1))
    (hB : B.Pairwise (fun a b => a.2 ≤ b.1)) : (gridI A B).Pairwise (fun a b => a.2 ≤ b.1) := by
  unfold gridI
  rw [List.pairwise_flatMap]
  refine ⟨fun x _ => rowI_pairwise x B hB, ?_⟩
  refine hA.imp ?_
  intro a b hab u hu v hv
  have h1 := rowI_bounds hu
  have h2 := rowI_bounds hv
  omega

theorem nonOverlap_of_pairwise (L : List Blk) (h : L.Pairwise (fun a b => a.2 ≤ b.1)) : nonOverlap L = true := by
  induction L with
  | nil => rfl
  | cons a t ih =>
    cases t with
    | nil => rfl
    | cons b r =>
      rw [List.pairwise_cons] at h
      simp only [nonOverlap, Bool.and_eq_true, decide_eq_true_eq]
      exact ⟨h.1 b (by simp), ih h.2⟩

/-- ascending, pairwise disjoint, non-empty blocks: the constructor's sort is the identity -/
theorem sort_id (s : Strand) (L : List Blk) (hp : L.Pairwise (fun a b => a.2 ≤ b.1)) (hpos : ∀ a ∈ L, a.1 < a.2) :
    sortBlocks s L = L :=
  sortBlocks_of_fst_lt s (fst_lt_of_asc L hp hpos)

end BioCantor.Proofs.Isect
