/-
  C02-T2: `intersection` covers exactly the common positions (full spans with `full_span`), on the receiver's
  strand, well formed, inside the parent, without empty blocks, and in normal form for operands that are not
  self-overlapping.
-/
import BioCantor.Proofs.AlgOverlap
import BioCantor.Proofs.AlgOptimize
namespace BioCantor.Proofs.Isect
open BioCantor BioCantor.Spec BioCantor.Model BioCantor.Proofs

/-! ### blocks -/

theorem cb_cons (b : Blk) (bs : List Blk) (q : Nat) :
    coversBlocks (b :: bs) q = (coversBlocks [b] q || coversBlocks bs q) := by
  simp [coversBlocks]

theorem isectBlk_comm (a b : Blk) : isectBlk a b = isectBlk b a := by
  simp [isectBlk, Nat.max_comm, Nat.min_comm]

theorem kernel_false_cov (x y : Blk) (h : overlapKernel x y = false) (q : Nat) :
    (coversBlocks [x] q && coversBlocks [y] q) = false := by
  rw [Bool.eq_false_iff]
  intro hh
  simp only [Bool.and_eq_true] at hh
  have := (kernel_cov x y).mpr ⟨q, hh⟩
  simp [h] at this

/-- the intersections of one block with the blocks of a list, in list order -/
def rowI (x : Blk) (B : List Blk) : List Blk :=
  B.filterMap (fun y => if overlapKernel x y then some (isectBlk x y) else none)

theorem rowI_cons (x y : Blk) (B : List Blk) :
    rowI x (y :: B) = if overlapKernel x y then isectBlk x y :: rowI x B else rowI x B := by
  unfold rowI
  by_cases h : overlapKernel x y = true
  · simp [h]
  · simp [h]

theorem covers_rowI (x : Blk) (B : List Blk) (q : Nat) :
    coversBlocks (rowI x B) q = (coversBlocks [x] q && coversBlocks B q) := by
  induction B with
  | nil => simp [rowI, coversBlocks]
  | cons y B ih =>
    rw [rowI_cons, cb_cons y B]
    cases hk : overlapKernel x y with
    | true =>
      simp only [if_true]
      rw [cb_cons, ih, covers_isectBlk]
      cases coversBlocks [x] q <;> cases coversBlocks [y] q <;> cases coversBlocks B q <;> rfl
    | false =>
      simp only [Bool.false_eq_true, if_false]
      rw [ih]
      have := kernel_false_cov x y hk q
      cases h1 : coversBlocks [x] q <;> cases h2 : coversBlocks [y] q <;> cases coversBlocks B q <;> simp_all

theorem mem_rowI {x : Blk} {B : List Blk} {u : Blk} (h : u ∈ rowI x B) :
    ∃ y ∈ B, overlapKernel x y = true ∧ u = isectBlk x y := by
  unfold rowI at h
  obtain ⟨y, hy, hf⟩ := List.mem_filterMap.mp h
  by_cases hk : overlapKernel x y = true
  · simp only [hk, if_true, Option.some.injEq] at hf
    exact ⟨y, hy, hk, hf.symm⟩
  · simp [hk] at hf

theorem rowI_bounds {x : Blk} {B : List Blk} {u : Blk} (h : u ∈ rowI x B) :
    u.1 < u.2 ∧ x.1 ≤ u.1 ∧ u.2 ≤ x.2 := by
  obtain ⟨y, _, hk, rfl⟩ := mem_rowI h
  rw [overlapKernel_iff] at hk
  simp only [isectBlk]
  omega

theorem rowI_ne_nil {x : Blk} {B : List Blk} {y : Blk} (hy : y ∈ B) (hk : overlapKernel x y = true) :
    rowI x B ≠ [] := by
  intro h
  have : isectBlk x y ∈ rowI x B := by
    unfold rowI
    exact List.mem_filterMap.mpr ⟨y, hy, by simp [hk]⟩
  rw [h] at this
  cases this

theorem rowI_pairwise (x : Blk) (B : List Blk) (hB : B.Pairwise (fun a b => a.2 ≤ b.1)) :
    (rowI x B).Pairwise (fun a b => a.2 ≤ b.1) := by
  unfold rowI
  refine List.Pairwise.filterMap _ ?_ hB
  intro a a' haa' b hb b' hb'
  by_cases h1 : overlapKernel x a = true
  · by_cases h2 : overlapKernel x a' = true
    · simp only [h1, h2, if_true, Option.some.injEq] at hb hb'
      subst hb; subst hb'
      simp only [isectBlk]
      omega
    · simp [h2] at hb'
  · simp [h1] at hb

/-- `CompoundInterval._intersection_single_interval`'s list is a `rowI` -/
theorem colI_eq (A : List Blk) (b : Blk) :
    A.filterMap (fun x => if overlapKernel x b then some (isectBlk x b) else none) = rowI b A := by
  unfold rowI
  congr 1
  funext x
  rw [overlapKernel_comm x b, isectBlk_comm x b]

/-- the `has_overlap` pre-test inside the block loop of `_intersection_compound_interval` is redundant -/
theorem guarded_row_eq (x : Blk) (B : List Blk) :
    (if B.any (fun y => overlapKernel y x) then
        B.filterMap (fun y => if overlapKernel x y then some (isectBlk x y) else none)
      else []) = rowI x B := by
  by_cases h : B.any (fun y => overlapKernel y x) = true
  · simp only [h, if_true]; rfl
  · simp only [h]
    symm
    cases hr : rowI x B with
    | nil => rfl
    | cons u us =>
      exfalso
      have hu : u ∈ rowI x B := by rw [hr]; simp
      obtain ⟨y, hy, hk, _⟩ := mem_rowI hu
      apply h
      rw [List.any_eq_true]
      exact ⟨y, hy, by rw [overlapKernel_comm]; exact hk⟩

/-- all pairwise intersections, receiver-major -/
def gridI (A B : List Blk) : List Blk := A.flatMap (fun x => rowI x B)

theorem covers_gridI (A B : List Blk) (q : Nat) :
    coversBlocks (gridI A B) q = (coversBlocks A q && coversBlocks B q) := by
  induction A with
  | nil => simp [gridI, coversBlocks]
  | cons x A ih =>
    have : gridI (x :: A) B = rowI x B ++ gridI A B := by simp [gridI]
    rw [this, coversBlocks_append, covers_rowI, ih, cb_cons x A]
    cases coversBlocks [x] q <;> cases coversBlocks A q <;> cases coversBlocks B q <;> rfl

theorem mem_gridI {A B : List Blk} {u : Blk} (h : u ∈ gridI A B) : ∃ x ∈ A, u ∈ rowI x B := by
  unfold gridI at h
  exact List.mem_flatMap.mp h

theorem gridI_pos {A B : List Blk} {u : Blk} (h : u ∈ gridI A B) : u.1 < u.2 := by
  obtain ⟨x, _, hu⟩ := mem_gridI h
  exact (rowI_bounds hu).1

theorem gridI_pairwise (A B : List Blk) (hA : A.Pairwise (fun a b => a.2 ≤ b.1))
    (hB : B.Pairwise (fun a b => a.2 ≤ b.1)) : (gridI A B).Pairwise (fun a b => a.2 ≤ b.1) := by
  unfold gridI
  rw [List.pairwise_flatMap]
  refine ⟨fun x _ => rowI_pairwise x B hB, ?_⟩
  refine hA.imp ?_
  intro a b hab u hu v hv
  have h1 := rowI_bounds hu
  have h2 := rowI_bounds hv
  omega

theorem nonOverlap_of_pairwise (L : List Blk) (h : L.Pairwise (fun a b => a.2 ≤ b.1)) : nonOverlap L = true := by
  induction L with
  | nil => rfl
  | cons a t ih =>
    cases t with
    | nil => rfl
    | cons b r =>
      rw [List.pairwise_cons] at h
      simp only [nonOverlap, Bool.and_eq_true, decide_eq_true_eq]
      exact ⟨h.1 b (by simp), ih h.2⟩

/-- ascending, pairwise disjoint, non-empty blocks: the constructor's sort is the identity -/
theorem sort_id (s : Strand) (L : List Blk) (hp : L.Pairwise (fun a b => a.2 ≤ b.1)) (hpos : ∀ a ∈ L, a.1 < a.2) :
    sortBlocks s L = L :=
  sortBlocks_of_fst_lt s (fst_lt_of_asc L hp hpos)

/-! ### the contract of the parent-less `intersection` -/

/-- what `intersection x y ms fs` returns -/
structure ISpec (x y : Location) (ms fs : Bool) (r : Location) : Prop where
  wf : wfLocation r = true
  strand : r = .empty ∨ locationStrand? r = locationStrand? x
  pos : ∀ b ∈ locationBlocks r, b.1 < b.2
  cov : ∀ p, coversBlocks (locationBlocks r) p = (strandGate x y ms && covX fs x p && covX fs y p)
  normal : (fs = true ∨ (nonOverlapLoc x = true ∧ nonOverlapLoc y = true)) →
    normalBlocks (locationBlocks r) = true ∧ nonOverlap (locationBlocks r) = true

theorem ISpec.ofEmpty {x y : Location} {ms fs : Bool}
    (h : ∀ p, (strandGate x y ms && covX fs x p && covX fs y p) = false) : ISpec x y ms fs .empty where
  wf := rfl
  strand := Or.inl rfl
  pos := by intro b hb; cases hb
  cov := by intro p; rw [h p]; rfl
  normal := fun _ => ⟨rfl, rfl⟩

/-- the value of `has_overlap` (see `hasOverlap_spec`) -/
def ovVal (x y : Location) (ms fs : Bool) : Bool :=
  strandGate x y ms && anyUpTo (hiOf [x, y]) (fun p => covX fs x p && covX fs y p)

theorem ovVal_false {x y : Location} {ms fs : Bool} (h : ovVal x y ms fs = false) (p : Nat) :
    (strandGate x y ms && covX fs x p && covX fs y p) = false := by
  rw [Bool.eq_false_iff]
  intro hh
  simp only [Bool.and_eq_true] at hh
  have : ovVal x y ms fs = true := by
    unfold ovVal
    rw [Bool.and_eq_true]
    exact ⟨hh.1.1, (anyUpTo_cov fs x y).mpr ⟨p, hh.1.2, hh.2⟩⟩
  rw [h] at this
  cases this

theorem ovVal_true {x y : Location} {ms fs : Bool} (h : ovVal x y ms fs = true) :
    strandGate x y ms = true ∧ ∃ p, covX fs x p = true ∧ covX fs y p = true := by
  unfold ovVal at h
  rw [Bool.and_eq_true] at h
  exact ⟨h.1, (anyUpTo_cov fs x y).mp h.2⟩

theorem strandEq_comm (x y : Location) : strandEq x y = strandEq y x := by
  unfold strandEq
  cases locationStrand? x <;> cases locationStrand? y <;> try rfl
  rename_i a b
  cases a <;> cases b <;> rfl

theorem strandGate_comm (x y : Location) (ms : Bool) : strandGate x y ms = strandGate y x ms := by
  unfold strandGate; rw [strandEq_comm]

theorem ovVal_comm (x y : Location) (ms fs : Bool) : ovVal x y ms fs = ovVal y x ms fs := by
  apply bool_eq_of_iff
  constructor
  · intro h
    obtain ⟨h1, p, h2, h3⟩ := ovVal_true h
    unfold ovVal
    rw [Bool.and_eq_true]
    exact ⟨by rw [strandGate_comm]; exact h1, (anyUpTo_cov fs y x).mpr ⟨p, h3, h2⟩⟩
  · intro h
    obtain ⟨h1, p, h2, h3⟩ := ovVal_true h
    unfold ovVal
    rw [Bool.and_eq_true]
    exact ⟨by rw [strandGate_comm]; exact h1, (anyUpTo_cov fs x y).mpr ⟨p, h3, h2⟩⟩

theorem strandGate_of_strand {x x' y : Location} (ms : Bool) (hs : locationStrand? x = locationStrand? x') :
    strandGate x y ms = strandGate x' y ms := by
  unfold strandGate strandEq; rw [hs]

/-- replace the receiver by one with the same strand and the same (`fs`-)coverage -/
theorem ISpec.congr_left {x x' y : Location} {ms fs : Bool} {r : Location} (h : ISpec x y ms fs r)
    (hs : locationStrand? x = locationStrand? x') (hc : ∀ p, covX fs x p = covX fs x' p)
    (hn : fs = true ∨ (nonOverlapLoc x' = true → nonOverlapLoc x = true)) : ISpec x' y ms fs r where
  wf := h.wf
  strand := by rw [← hs]; exact h.strand
  pos := h.pos
  cov := by intro p; rw [h.cov p, strandGate_of_strand ms hs, hc p]
  normal := by
    intro hh
    apply h.normal
    rcases hn with hn | hn
    · exact Or.inl hn
    · rcases hh with hh | hh
      · exact Or.inl hh
      · exact Or.inr ⟨hn hh.1, hh.2⟩

/-- swap the operands; the blocks may be re-sorted for the other strand -/
theorem ISpec.swap_reset {x y : Location} {ms fs : Bool} {r' r : Location} (h : ISpec y x ms fs r')
    (hwf : wfLocation r = true) (hs : r = .empty ∨ locationStrand? r = locationStrand? x)
    (hb : (locationBlocks r).Perm (locationBlocks r'))
    (hn : nonOverlap (locationBlocks r') = true → locationBlocks r = locationBlocks r') : ISpec x y ms fs r where
  wf := hwf
  strand := hs
  pos := fun b hb' => h.pos b (hb.mem_iff.mp hb')
  cov := by
    intro p
    rw [coversBlocks_perm hb, h.cov p, strandGate_comm]
    cases strandGate x y ms <;> cases covX fs x p <;> cases covX fs y p <;> rfl
  normal := by
    intro hh
    have := h.normal (by
      rcases hh with hh | hh
      · exact Or.inl hh
      · exact Or.inr ⟨hh.2, hh.1⟩)
    rw [hn this.2]
    exact this

/-- a result that covers something is not `EmptyLocation` -/
theorem ISpec.ne_empty {x y : Location} {ms fs : Bool} {r : Location} (h : ISpec x y ms fs r)
    (hv : ovVal x y ms fs = true) : r ≠ .empty := by
  obtain ⟨h1, p, h2, h3⟩ := ovVal_true hv
  intro he
  have := h.cov p
  rw [he, h1, h2, h3] at this
  simp [locationBlocks, coversBlocks] at this

/-- every block of the result ends inside the receiver -/
theorem covX_lt_maxEnd (fs : Bool) (x : Location) (p : Nat) (h : covX fs x p = true) :
    p < maxEndOf (locationBlocks x) := by
  cases fs
  · simp only [covX, Bool.false_eq_true, if_false] at h
    rw [locationCovers_eq] at h
    exact coversBlocks_lt_maxEndOf _ _ h
  · simp only [covX, if_true, covSpan, spanOf] at h
    cases hbl : locationBlocks x with
    | nil => simp [hbl] at h
    | cons c cs =>
      simp only [hbl, Bool.and_eq_true, decide_eq_true_eq] at h
      omega

theorem ISpec.ends_le {x y : Location} {ms fs : Bool} {r : Location} (h : ISpec x y ms fs r) :
    ∀ b ∈ locationBlocks r, b.2 ≤ maxEndOf (locationBlocks x) := by
  intro b hb
  have hpos := h.pos b hb
  have : coversBlocks (locationBlocks r) (b.2 - 1) = true := by
    rw [coversBlocks_iff]; exact ⟨b, hb, by omega, by omega⟩
  rw [h.cov] at this
  simp only [Bool.and_eq_true] at this
  have := covX_lt_maxEnd fs x _ this.1.2
  omega

/-! ### the shapes -/

theorem strandGate_ss (a : Blk) (sa : Strand) (b : Blk) (sb : Strand) (ms : Bool) :
    strandGate (.single a sa) (.single b sb) ms = (!ms || sa == sb) := rfl

theorem strand_beq (sa sb : Strand) : (sa == sb) = decide (sa = sb) := by
  cases sa <;> cases sb <;> rfl

theorem isectSS_spec (a : Blk) (sa : Strand) (b : Blk) (sb : Strand) (ms fs : Bool) :
    ∃ r, isectSS a sa b sb ms = .ok r ∧ ISpec (.single a sa) (.single b sb) ms fs r := by
  unfold isectSS
  by_cases h1 : ms = true ∧ sa ≠ sb
  · refine ⟨.empty, by simp only [h1, and_self, if_true, ne_eq, not_false_eq_true]; rfl, ISpec.ofEmpty ?_⟩
    intro p
    rw [strandGate_ss, strand_beq]
    simp [h1.1, h1.2]
  · simp only [h1, if_false]
    cases hk : overlapKernel a b with
    | false =>
      refine ⟨.empty, by simp; rfl, ISpec.ofEmpty ?_⟩
      intro p
      rw [covX_single, covX_single, Bool.and_assoc, kernel_false_cov a b hk p, Bool.and_false]
    | true =>
      have hlt := (overlapKernel_iff a b).mp hk
      have hle : (isectBlk a b).1 ≤ (isectBlk a b).2 := by simp only [isectBlk]; omega
      refine ⟨.single (isectBlk a b) sa, by simp [mkSingleN, hle]; rfl, ?_⟩
      have hg : strandGate (.single a sa) (.single b sb) ms = true := by
        rw [strandGate_ss, strand_beq]
        cases ms
        · rfl
        · by_cases hs : sa = sb
          · simp [hs]
          · exact absurd ⟨rfl, hs⟩ h1
      exact {
        wf := by simpa [wfLocation] using hle
        strand := Or.inr rfl
        pos := by
          intro u hu
          simp only [locationBlocks, List.mem_singleton] at hu
          subst hu; simp only [isectBlk]; omega
        cov := by
          intro p
          rw [hg, covX_single, covX_single, Bool.true_and]
          exact covers_isectBlk a b p
        normal := by
          intro _
          simp only [locationBlocks, normalBlocks, nonOverlap, decide_eq_true_eq, and_true]
          simp only [isectBlk]; omega }

end BioCantor.Proofs.Isect
