/-
  C02-T2: `intersection` covers exactly the common positions (full spans with `full_span`), on the receiver's
  strand, well formed, inside the parent, without empty blocks, and in normal form for operands that are not
  self-overlapping.
-/
import BioCantor.Proofs.AlgOverlap
import BioCantor.Proofs.AlgOptimize
namespace BioCantor.Proofs.Isect
open BioCantor BioCantor.Spec BioCantor.Model BioCantor.Proofs

/-! ### blocks -/

theorem cb_cons (b : Blk) (bs : List Blk) (q : Nat) :
    coversBlocks (b :: bs) q = (coversBlocks [b] q || coversBlocks bs q) := by
  simp [coversBlocks]

theorem isectBlk_comm (a b : Blk) : isectBlk a b = isectBlk b a := by
  simp [isectBlk, Nat.max_comm, Nat.min_comm]

theorem kernel_false_cov (x y : Blk) (h : overlapKernel x y = false) (q : Nat) :
    (coversBlocks [x] q && coversBlocks [y] q) = false := by
  rw [Bool.eq_false_iff]
  intro hh
  simp only [Bool.and_eq_true] at hh
  have := (kernel_cov x y).mpr ⟨q, hh⟩
  simp [h] at this

/-- the intersections of one block with the blocks of a list, in list order -/
def rowI (x : Blk) (B : List Blk) : List Blk :=
  B.filterMap (fun y => if overlapKernel x y then some (isectBlk x y) else none)

theorem rowI_cons (x y : Blk) (B : List Blk) :
    rowI x (y :: B) = if overlapKernel x y then isectBlk x y :: rowI x B else rowI x B := by
  unfold rowI
  by_cases h : overlapKernel x y = true
  · simp [h]
  · simp [h]

theorem covers_rowI (x : Blk) (B : List Blk) (q : Nat) :
    coversBlocks (rowI x B) q = (coversBlocks [x] q && coversBlocks B q) := by
  induction B with
  | nil => simp [rowI, coversBlocks]
  | cons y B ih =>
    rw [rowI_cons, cb_cons y B]
    cases hk : overlapKernel x y with
    | true =>
      simp only [if_true]
      rw [cb_cons, ih, covers_isectBlk]
      cases coversBlocks [x] q <;> cases coversBlocks [y] q <;> cases coversBlocks B q <;> rfl
    | false =>
      simp only [Bool.false_eq_true, if_false]
      rw [ih]
      have := kernel_false_cov x y hk q
      cases h1 : coversBlocks [x] q <;> cases h2 : coversBlocks [y] q <;> cases coversBlocks B q <;> simp_all

theorem mem_rowI {x : Blk} {B : List Blk} {u : Blk} (h : u ∈ rowI x B) :
    ∃ y ∈ B, overlapKernel x y = true ∧ u = isectBlk x y := by
  unfold rowI at h
  obtain ⟨y, hy, hf⟩ := List.mem_filterMap.mp h
  by_cases hk : overlapKernel x y = true
  · simp only [hk, if_true, Option.some.injEq] at hf
    exact ⟨y, hy, hk, hf.symm⟩
  · simp [hk] at hf

theorem rowI_bounds {x : Blk} {B : List Blk} {u : Blk} (h : u ∈ rowI x B) :
    u.1 < u.2 ∧ x.1 ≤ u.1 ∧ u.2 ≤ x.2 := by
  obtain ⟨y, _, hk, rfl⟩ := mem_rowI h
  rw [overlapKernel_iff] at hk
  simp only [isectBlk]
  omega

theorem rowI_ne_nil {x : Blk} {B : List Blk} {y : Blk} (hy : y ∈ B) (hk : overlapKernel x y = true) :
    rowI x B ≠ [] := by
  intro h
  have : isectBlk x y ∈ rowI x B := by
    unfold rowI
    exact List.mem_filterMap.mpr ⟨y, hy, by simp [hk]⟩
  rw [h] at this
  cases this

theorem rowI_pairwise (x : Blk) (B : List Blk) (hB : B.Pairwise (fun a b => a.2 ≤ b.1)) :
    (rowI x B).Pairwise (fun a b => a.2 ≤ b.1) := by
  unfold rowI
  refine List.Pairwise.filterMap _ ?_ hB
  intro a a' haa' b hb b' hb'
  by_cases h1 : overlapKernel x a = true
  · by_cases h2 : overlapKernel x a' = true
    · simp only [h1, h2, if_true, Option.some.injEq] at hb hb'
      subst hb; subst hb'
      simp only [isectBlk]
      omega
    · simp [h2] at hb'
  · simp [h1] at hb

/-- `CompoundInterval._intersection_single_interval`'s list is a `rowI` -/
theorem colI_eq (A : List Blk) (b : Blk) :
    A.filterMap (fun x => if overlapKernel x b then some (isectBlk x b) else none) = rowI b A := by
  unfold rowI
  congr 1
  funext x
  rw [overlapKernel_comm x b, isectBlk_comm x b]

/-- the `has_overlap` pre-test inside the block loop of `_intersection_compound_interval` is redundant -/
theorem guarded_row_eq (x : Blk) (B : List Blk) :
    (if B.any (fun y => overlapKernel y x) then
        B.filterMap (fun y => if overlapKernel x y then some (isectBlk x y) else none)
      else []) = rowI x B := by
  by_cases h : B.any (fun y => overlapKernel y x) = true
  · simp only [h, if_true]; rfl
  · simp only [h]
    symm
    cases hr : rowI x B with
    | nil => rfl
    | cons u us =>
      exfalso
      have hu : u ∈ rowI x B := by rw [hr]; simp
      obtain ⟨y, hy, hk, _⟩ := mem_rowI hu
      apply h
      rw [List.any_eq_true]
      exact ⟨y, hy, by rw [overlapKernel_comm]; exact hk⟩

/-- all pairwise intersections, receiver-major -/
def gridI (A B : List Blk) : List Blk := A.flatMap (fun x => rowI x B)

theorem covers_gridI (A B : List Blk) (q : Nat) :
    coversBlocks (gridI A B) q = (coversBlocks A q && coversBlocks B q) := by
  induction A with
  | nil => simp [gridI, coversBlocks]
  | cons x A ih =>
    have : gridI (x :: A) B = rowI x B ++ gridI A B := by simp [gridI]
    rw [this, coversBlocks_append, covers_rowI, ih, cb_cons x A]
    cases coversBlocks [x] q <;> cases coversBlocks A q <;> cases coversBlocks B q <;> rfl

theorem mem_gridI {A B : List Blk} {u : Blk} (h : u ∈ gridI A B) : ∃ x ∈ A, u ∈ rowI x B := by
  unfold gridI at h
  exact List.mem_flatMap.mp h

theorem gridI_pos {A B : List Blk} {u : Blk} (h : u ∈ gridI A B) : u.1 < u.2 := by
  obtain ⟨x, _, hu⟩ := mem_gridI h
  exact (rowI_bounds hu).1

theorem gridI_pairwise (A B : List Blk) (hA : A.Pairwise (fun a b => a.2 ≤ b.1))
    (hB : B.Pairwise (fun a b => a.2 ≤ b.1)) : (gridI A B).Pairwise (fun a b => a.2 ≤ b.1) := by
  unfold gridI
  rw [List.pairwise_flatMap]
  refine ⟨fun x _ => rowI_pairwise x B hB, ?_⟩
  refine hA.imp ?_
  intro a b hab u hu v hv
  have h1 := rowI_bounds hu
  have h2 := rowI_bounds hv
  omega

theorem nonOverlap_of_pairwise (L : List Blk) (h : L.Pairwise (fun a b => a.2 ≤ b.1)) : nonOverlap L = true := by
  induction L with
  | nil => rfl
  | cons a t ih =>
    cases t with
    | nil => rfl
    | cons b r =>
      rw [List.pairwise_cons] at h
      simp only [nonOverlap, Bool.and_eq_true, decide_eq_true_eq]
      exact ⟨h.1 b (by simp), ih h.2⟩

/-- ascending, pairwise disjoint, non-empty blocks: the constructor's sort is the identity -/
theorem sort_id (s : Strand) (L : List Blk) (hp : L.Pairwise (fun a b => a.2 ≤ b.1)) (hpos : ∀ a ∈ L, a.1 < a.2) :
    sortBlocks s L = L :=
  sortBlocks_of_fst_lt s (fst_lt_of_asc L hp hpos)

/-! ### the contract of the parent-less `intersection` -/

/-- what `intersection x y ms fs` returns -/
structure ISpec (x y : Location) (ms fs : Bool) (r : Location) : Prop where
  wf : wfLocation r = true
  strand : r = .empty ∨ locationStrand? r = locationStrand? x
  pos : ∀ b ∈ locationBlocks r, b.1 < b.2
  cov : ∀ p, coversBlocks (locationBlocks r) p = (strandGate x y ms && covX fs x p && covX fs y p)
  normal : (fs = true ∨ (nonOverlapLoc x = true ∧ nonOverlapLoc y = true)) →
    normalBlocks (locationBlocks r) = true ∧ nonOverlap (locationBlocks r) = true

theorem ISpec.ofEmpty {x y : Location} {ms fs : Bool}
    (h : ∀ p, (strandGate x y ms && covX fs x p && covX fs y p) = false) : ISpec x y ms fs .empty where
  wf := rfl
  strand := Or.inl rfl
  pos := by intro b hb; cases hb
  cov := by intro p; rw [h p]; rfl
  normal := fun _ => ⟨rfl, rfl⟩

/-- the value of `has_overlap` (see `hasOverlap_spec`) -/
def ovVal (x y : Location) (ms fs : Bool) : Bool :=
  strandGate x y ms && anyUpTo (hiOf [x, y]) (fun p => covX fs x p && covX fs y p)

theorem ovVal_false {x y : Location} {ms fs : Bool} (h : ovVal x y ms fs = false) (p : Nat) :
    (strandGate x y ms && covX fs x p && covX fs y p) = false := by
  rw [Bool.eq_false_iff]
  intro hh
  simp only [Bool.and_eq_true] at hh
  have : ovVal x y ms fs = true := by
    unfold ovVal
    rw [Bool.and_eq_true]
    exact ⟨hh.1.1, (anyUpTo_cov fs x y).mpr ⟨p, hh.1.2, hh.2⟩⟩
  rw [h] at this
  cases this

theorem ovVal_true {x y : Location} {ms fs : Bool} (h : ovVal x y ms fs = true) :
    strandGate x y ms = true ∧ ∃ p, covX fs x p = true ∧ covX fs y p = true := by
  unfold ovVal at h
  rw [Bool.and_eq_true] at h
  exact ⟨h.1, (anyUpTo_cov fs x y).mp h.2⟩

theorem strandEq_comm (x y : Location) : strandEq x y = strandEq y x := by
  unfold strandEq
  cases locationStrand? x <;> cases locationStrand? y <;> try rfl
  rename_i a b
  cases a <;> cases b <;> rfl

theorem strandGate_comm (x y : Location) (ms : Bool) : strandGate x y ms = strandGate y x ms := by
  unfold strandGate; rw [strandEq_comm]

theorem ovVal_comm (x y : Location) (ms fs : Bool) : ovVal x y ms fs = ovVal y x ms fs := by
  apply bool_eq_of_iff
  constructor
  · intro h
    obtain ⟨h1, p, h2, h3⟩ := ovVal_true h
    unfold ovVal
    rw [Bool.and_eq_true]
    exact ⟨by rw [strandGate_comm]; exact h1, (anyUpTo_cov fs y x).mpr ⟨p, h3, h2⟩⟩
  · intro h
    obtain ⟨h1, p, h2, h3⟩ := ovVal_true h
    unfold ovVal
    rw [Bool.and_eq_true]
    exact ⟨by rw [strandGate_comm]; exact h1, (anyUpTo_cov fs x y).mpr ⟨p, h3, h2⟩⟩

theorem strandGate_of_strand {x x' y : Location} (ms : Bool) (hs : locationStrand? x = locationStrand? x') :
    strandGate x y ms = strandGate x' y ms := by
  unfold strandGate strandEq; rw [hs]

/-- replace the receiver by one with the same strand and the same (`fs`-)coverage -/
theorem ISpec.congr_left {x x' y : Location} {ms fs : Bool} {r : Location} (h : ISpec x y ms fs r)
    (hs : locationStrand? x = locationStrand? x') (hc : ∀ p, covX fs x p = covX fs x' p)
    (hn : fs = true ∨ (nonOverlapLoc x' = true → nonOverlapLoc x = true)) : ISpec x' y ms fs r where
  wf := h.wf
  strand := by rw [← hs]; exact h.strand
  pos := h.pos
  cov := by intro p; rw [h.cov p, strandGate_of_strand ms hs, hc p]
  normal := by
    intro hh
    apply h.normal
    rcases hn with hn | hn
    · exact Or.inl hn
    · rcases hh with hh | hh
      · exact Or.inl hh
      · exact Or.inr ⟨hn hh.1, hh.2⟩

/-- swap the operands; the blocks may be re-sorted for the other strand -/
theorem ISpec.swap_reset {x y : Location} {ms fs : Bool} {r' r : Location} (h : ISpec y x ms fs r')
    (hwf : wfLocation r = true) (hs : r = .empty ∨ locationStrand? r = locationStrand? x)
    (hb : (locationBlocks r).Perm (locationBlocks r'))
    (hn : nonOverlap (locationBlocks r') = true → locationBlocks r = locationBlocks r') : ISpec x y ms fs r where
  wf := hwf
  strand := hs
  pos := fun b hb' => h.pos b (hb.mem_iff.mp hb')
  cov := by
    intro p
    rw [coversBlocks_perm hb, h.cov p, strandGate_comm]
    cases strandGate x y ms <;> cases covX fs x p <;> cases covX fs y p <;> rfl
  normal := by
    intro hh
    have := h.normal (by
      rcases hh with hh | hh
      · exact Or.inl hh
      · exact Or.inr ⟨hh.2, hh.1⟩)
    rw [hn this.2]
    exact this

/-- a result that covers something is not `EmptyLocation` -/
theorem ISpec.ne_empty {x y : Location} {ms fs : Bool} {r : Location} (h : ISpec x y ms fs r)
    (hv : ovVal x y ms fs = true) : r ≠ .empty := by
  obtain ⟨h1, p, h2, h3⟩ := ovVal_true hv
  intro he
  have := h.cov p
  rw [he, h1, h2, h3] at this
  simp [locationBlocks, coversBlocks] at this

/-- every block of the result ends inside the receiver -/
theorem covX_lt_maxEnd (fs : Bool) (x : Location) (p : Nat) (h : covX fs x p = true) :
    p < maxEndOf (locationBlocks x) := by
  cases fs
  · simp only [covX, Bool.false_eq_true, if_false] at h
    rw [locationCovers_eq] at h
    exact coversBlocks_lt_maxEndOf _ _ h
  · simp only [covX, if_true, covSpan, spanOf] at h
    cases hbl : locationBlocks x with
    | nil => simp [hbl] at h
    | cons c cs =>
      simp only [hbl, Bool.and_eq_true, decide_eq_true_eq] at h
      omega

theorem ISpec.ends_le {x y : Location} {ms fs : Bool} {r : Location} (h : ISpec x y ms fs r) :
    ∀ b ∈ locationBlocks r, b.2 ≤ maxEndOf (locationBlocks x) := by
  intro b hb
  have hpos := h.pos b hb
  have : coversBlocks (locationBlocks r) (b.2 - 1) = true := by
    rw [coversBlocks_iff]; exact ⟨b, hb, by omega, by omega⟩
  rw [h.cov] at this
  simp only [Bool.and_eq_true] at this
  have := covX_lt_maxEnd fs x _ this.1.2
  omega

/-! ### the shapes -/

theorem strandGate_ss (a : Blk) (sa : Strand) (b : Blk) (sb : Strand) (ms : Bool) :
    strandGate (.single a sa) (.single b sb) ms = (!ms || sa == sb) := rfl

theorem strand_beq (sa sb : Strand) : (sa == sb) = decide (sa = sb) := by
  cases sa <;> cases sb <;> rfl

theorem isectSS_spec (a : Blk) (sa : Strand) (b : Blk) (sb : Strand) (ms fs : Bool) :
    ∃ r, isectSS a sa b sb ms = .ok r ∧ ISpec (.single a sa) (.single b sb) ms fs r := by
  unfold isectSS
  by_cases h1 : ms = true ∧ sa ≠ sb
  · refine ⟨.empty, by simp only [h1, and_self, if_true, ne_eq, not_false_eq_true]; rfl, ISpec.ofEmpty ?_⟩
    intro p
    rw [strandGate_ss, strand_beq]
    simp [h1.1, h1.2]
  · simp only [h1, if_false]
    cases hk : overlapKernel a b with
    | false =>
      refine ⟨.empty, by simp; rfl, ISpec.ofEmpty ?_⟩
      intro p
      rw [covX_single, covX_single, Bool.and_assoc, kernel_false_cov a b hk p, Bool.and_false]
    | true =>
      have hlt := (overlapKernel_iff a b).mp hk
      have hle : (isectBlk a b).1 ≤ (isectBlk a b).2 := by simp only [isectBlk]; omega
      refine ⟨.single (isectBlk a b) sa, by simp [mkSingleN, hle]; rfl, ?_⟩
      have hg : strandGate (.single a sa) (.single b sb) ms = true := by
        rw [strandGate_ss, strand_beq]
        cases ms
        · rfl
        · by_cases hs : sa = sb
          · simp [hs]
          · exact absurd ⟨rfl, hs⟩ h1
      exact {
        wf := by simpa [wfLocation] using hle
        strand := Or.inr rfl
        pos := by
          intro u hu
          simp only [locationBlocks, List.mem_singleton] at hu
          subst hu; simp only [isectBlk]; omega
        cov := by
          intro p
          rw [hg, covX_single, covX_single, Bool.true_and]
          exact covers_isectBlk a b p
        normal := by
          intro _
          simp only [locationBlocks, normalBlocks, nonOverlap, decide_eq_true_eq, and_true]
          simp only [isectBlk]; omega }

/-- `CompoundInterval.from_single_intervals(blocks).optimize_blocks()` on non-empty blocks -/
theorem build_spec (bs : List Blk) (st : Strand) (hne : bs ≠ []) (hpos : ∀ u ∈ bs, u.1 < u.2) :
    ∃ r, (mkCompoundLoc bs st >>= fun c => optimizeLoc true c) = .ok r ∧
      wfLocation r = true ∧ (r = .empty ∨ locationStrand? r = some st) ∧
      (∀ b ∈ locationBlocks r, b.1 < b.2) ∧
      (∀ q, coversBlocks (locationBlocks r) q = coversBlocks bs q) ∧
      (bs.Pairwise (fun a b => a.2 ≤ b.1) →
        normalBlocks (locationBlocks r) = true ∧ nonOverlap (locationBlocks r) = true) := by
  have hv : ∀ u ∈ bs, u.1 ≤ u.2 := fun u hu => Nat.le_of_lt (hpos u hu)
  obtain ⟨r, hr, hs⟩ := optimizeLoc_spec true (sortBlocks st bs) st (canon_sortBlocks st hne hv)
  refine ⟨r, ?_, hs.wf, hs.strand, hs.pos, ?_, ?_⟩
  · rw [mkCompoundLoc_ok st hne hv]
    exact hr
  · intro q; rw [hs.cov q, coversBlocks_sort]
  · intro hp
    apply hs.normal rfl
    rw [sort_id st bs hp hpos]
    exact nonOverlap_of_pairwise bs hp

theorem ne_nil_of_covers {bs : List Blk} {p : Nat} (h : coversBlocks bs p = true) : bs ≠ [] := by
  intro he; rw [he] at h; cases h

theorem fullSpan_valid (l : Loc) (h : l.Canon) :
    ∃ F, fullSpan l = .ok F ∧ F.1 ≤ F.2 ∧ spanOf (.compound l) = some F := by
  obtain ⟨f, rest, hbl, hspan, hfull⟩ := spanOf_compound l h
  refine ⟨_, hfull, ?_, hspan⟩
  have hf : f.1 ≤ f.2 := (blocksValid_iff _).mp h.2.1 f (by simp [hbl])
  have := le_maxEndOf_of_mem l.blocks f (by simp [hbl])
  rw [maxEndOf_eq_maxEnd] at this
  simp only
  omega

theorem isectCS_spec (la : Loc) (b : Blk) (sb : Strand) (ms fs : Bool) (hla : la.Canon) (hb : b.1 ≤ b.2) :
    ∃ r, isectCS la b sb ms fs = .ok r ∧ ISpec (.compound la) (.single b sb) ms fs r := by
  unfold isectCS
  rw [hasOverlap_spec (.compound la) (.single b sb) hla hb ms fs (by simp)]
  simp only [bind, Except.bind]
  change ∃ r, (if (!ovVal (.compound la) (.single b sb) ms fs) = true then _ else _) = _ ∧ _
  cases hv : ovVal (.compound la) (.single b sb) ms fs with
  | false =>
    exact ⟨.empty, by simp; rfl, ISpec.ofEmpty (ovVal_false hv)⟩
  | true =>
    simp only [Bool.not_true, Bool.false_eq_true, if_false]
    obtain ⟨hg, p, hp1, hp2⟩ := ovVal_true hv
    cases fs with
    | true =>
      obtain ⟨F, hF, hFv, hspan⟩ := fullSpan_valid la hla
      simp only [if_true, hF]
      obtain ⟨r, hr, hs⟩ := isectSS_spec F la.strand b sb ms true
      refine ⟨r, hr, hs.congr_left rfl ?_ (Or.inl rfl)⟩
      intro q
      rw [covX_single, covX_compound_true la F hspan]
    | false =>
      simp only [Bool.false_eq_true, if_false]
      rw [colI_eq]
      rw [covX_compound_false] at hp1
      rw [covX_single] at hp2
      have hcov : ∀ q, coversBlocks (rowI b la.blocks) q =
          (strandGate (.compound la) (.single b sb) ms && covX false (.compound la) q && covX false (.single b sb) q) := by
        intro q
        rw [covers_rowI, hg, covX_compound_false, covX_single, Bool.true_and, Bool.and_comm]
      have hne : rowI b la.blocks ≠ [] := ne_nil_of_covers (p := p) (by rw [covers_rowI, hp1, hp2]; rfl)
      obtain ⟨r, hr, hwf, hst, hpos, hc, hn⟩ := build_spec (rowI b la.blocks) la.strand hne
        (fun u hu => (rowI_bounds hu).1)
      refine ⟨r, hr, ?_⟩
      exact {
        wf := hwf
        strand := hst
        pos := hpos
        cov := fun q => by rw [hc q, hcov q]
        normal := by
          intro hh
          rcases hh with hh | hh
          · cases hh
          · apply hn
            apply rowI_pairwise
            exact nonOverlap_pairwise la.blocks ((blocksValid_iff _).mp hla.2.1) hh.1 }

theorem locStrand_ok (r : Location) (h : r ≠ .empty) : ∃ s, locStrand r = .ok s ∧ locationStrand? r = some s := by
  cases r with
  | single b s => exact ⟨s, rfl, rfl⟩
  | compound l => exact ⟨l.strand, rfl, rfl⟩
  | empty => exact absurd rfl h

theorem resetStrand_spec (r : Location) (ns : Strand) (hwf : wfLocation r = true) (hne : r ≠ .empty) :
    ∃ r', resetStrand r ns = .ok r' ∧ wfLocation r' = true ∧ locationStrand? r' = some ns ∧
      locationBlocks r' = sortBlocks ns (locationBlocks r) := by
  cases r with
  | single b s =>
    refine ⟨.single b ns, rfl, ?_, rfl, ?_⟩
    · simpa [wfLocation] using hwf
    · simp [locationBlocks, sortBlocks]
  | compound l =>
    have hc : l.Canon := by simpa [wfLocation] using hwf
    have hv := (blocksValid_iff _).mp hc.2.1
    refine ⟨.compound ⟨sortBlocks ns l.blocks, ns⟩, ?_, ?_, rfl, rfl⟩
    · simp only [resetStrand, mkCompound, mkCompoundLoc_ok ns hc.1 hv]
      rfl
    · simpa [wfLocation] using canon_sortBlocks ns hc.1 hv
  | empty => exact absurd rfl hne

theorem isectSC_spec (a : Blk) (sa : Strand) (lb : Loc) (ms fs : Bool) (ha : a.1 ≤ a.2) (hlb : lb.Canon) :
    ∃ r, isectSC a sa lb ms fs = .ok r ∧ ISpec (.single a sa) (.compound lb) ms fs r := by
  unfold isectSC
  rw [hasOverlap_spec (.single a sa) (.compound lb) ha hlb ms fs (by simp)]
  simp only [bind, Except.bind]
  change ∃ r, (if (!ovVal (.single a sa) (.compound lb) ms fs) = true then _ else _) = _ ∧ _
  cases hv : ovVal (.single a sa) (.compound lb) ms fs with
  | false =>
    exact ⟨.empty, by simp; rfl, ISpec.ofEmpty (ovVal_false hv)⟩
  | true =>
    simp only [Bool.not_true, Bool.false_eq_true, if_false]
    obtain ⟨r', hr', hs'⟩ := isectCS_spec lb a sa ms fs hlb ha
    have hne : r' ≠ .empty := hs'.ne_empty (by rw [ovVal_comm]; exact hv)
    obtain ⟨s, hls, hs⟩ := locStrand_ok r' hne
    rw [hr']
    simp only [hls]
    by_cases hsa : s = sa
    · subst hsa
      refine ⟨r', by simp; rfl, hs'.swap_reset hs'.wf (Or.inr hs) (List.Perm.refl _) (fun _ => rfl)⟩
    · obtain ⟨r, hr, hwf, hst, hbl⟩ := resetStrand_spec r' sa hs'.wf hne
      refine ⟨r, by simp [hsa, hr], hs'.swap_reset hwf (Or.inr hst) ?_ ?_⟩
      · rw [hbl]; exact sortBlocks_perm _ _
      · intro hno
        rw [hbl]
        exact sort_id sa _ (nonOverlap_pairwise _ (fun u hu => Nat.le_of_lt (hs'.pos u hu)) hno) hs'.pos

theorem strandGate_cc (la lb : Loc) (ms : Bool) :
    strandGate (.compound la) (.compound lb) ms = (!ms || la.strand == lb.strand) := rfl

theorem isectCC_spec (la lb : Loc) (ms fs : Bool) (hla : la.Canon) (hlb : lb.Canon) :
    ∃ r, isectCC la lb ms fs = .ok r ∧ ISpec (.compound la) (.compound lb) ms fs r := by
  unfold isectCC
  rw [hasOverlap_spec (.compound la) (.compound lb) hla hlb ms fs (by simp)]
  simp only [bind, Except.bind]
  change ∃ r, (if (!ovVal (.compound la) (.compound lb) ms fs) = true then _ else _) = _ ∧ _
  cases hv : ovVal (.compound la) (.compound lb) ms fs with
  | false =>
    exact ⟨.empty, by simp; rfl, ISpec.ofEmpty (ovVal_false hv)⟩
  | true =>
    simp only [Bool.not_true, Bool.false_eq_true, if_false]
    obtain ⟨hg, p, hp1, hp2⟩ := ovVal_true hv
    cases fs with
    | true =>
      obtain ⟨F, hF, hFv, hspan⟩ := fullSpan_valid la hla
      simp only [if_true, hF]
      obtain ⟨r, hr, hs⟩ := isectSC_spec F la.strand lb ms true hFv hlb
      refine ⟨r, hr, hs.congr_left rfl ?_ (Or.inl rfl)⟩
      intro q
      rw [covX_single, covX_compound_true la F hspan]
    | false =>
      simp only [Bool.false_eq_true, if_false]
      have hms : ¬ (ms = true ∧ la.strand ≠ lb.strand) := by
        rw [strandGate_cc, strand_beq] at hg
        rintro ⟨h1, h2⟩
        simp [h1, h2] at hg
      simp only [hms, if_false, guarded_row_eq]
      change ∃ r, (mkCompoundLoc (gridI la.blocks lb.blocks) la.strand >>= fun c => optimizeLoc true c) = _ ∧ _
      rw [covX_compound_false] at hp1 hp2
      have hcov : ∀ q, coversBlocks (gridI la.blocks lb.blocks) q =
          (strandGate (.compound la) (.compound lb) ms && covX false (.compound la) q &&
            covX false (.compound lb) q) := by
        intro q
        rw [covers_gridI, hg, covX_compound_false, covX_compound_false, Bool.true_and]
      have hne : gridI la.blocks lb.blocks ≠ [] :=
        ne_nil_of_covers (p := p) (by rw [covers_gridI, hp1, hp2]; rfl)
      obtain ⟨r, hr, hwf, hst, hpos, hc, hn⟩ := build_spec (gridI la.blocks lb.blocks) la.strand hne
        (fun u hu => gridI_pos hu)
      refine ⟨r, hr, ?_⟩
      exact {
        wf := hwf
        strand := hst
        pos := hpos
        cov := fun q => by rw [hc q, hcov q]
        normal := by
          intro hh
          rcases hh with hh | hh
          · cases hh
          · apply hn
            apply gridI_pairwise
            · exact nonOverlap_pairwise la.blocks ((blocksValid_iff _).mp hla.2.1) hh.1
            · exact nonOverlap_pairwise lb.blocks ((blocksValid_iff _).mp hlb.2.1) hh.2 }

/-! ### the dispatch -/

theorem ovVal_empty_right (x : Location) (ms fs : Bool) : ovVal x .empty ms fs = false := by
  rw [Bool.eq_false_iff]
  intro h
  obtain ⟨_, p, _, h2⟩ := ovVal_true h
  simp [covX_empty] at h2

/-- closed form of the parent-less `intersection` (no corner left since the repair of F-C02c) -/
theorem intersection_spec (x y : Location) (hx : WF x) (hy : WF y) (ms fs : Bool) :
    ∃ r, intersection x y ms fs = .ok r ∧ ISpec x y ms fs r := by
  match x, y, hx, hy with
  | .empty, y, _, _ =>
    exact ⟨.empty, by cases y <;> rfl, ISpec.ofEmpty (by intro p; simp [covX_empty])⟩
  | .single a sa, .single b sb, _, _ => exact isectSS_spec a sa b sb ms fs
  | .single a sa, .compound lb, hx, hy => exact isectSC_spec a sa lb ms fs hx hy
  | .compound la, .single b sb, hx, hy => exact isectCS_spec la b sb ms fs hx hy
  | .compound la, .compound lb, hx, hy => exact isectCC_spec la lb ms fs hx hy
  | .single a sa, .empty, _, _ =>
    exact ⟨.empty, rfl, ISpec.ofEmpty (ovVal_false (ovVal_empty_right _ ms fs))⟩
  | .compound la, .empty, _, _ =>
    exact ⟨.empty, rfl, ISpec.ofEmpty (ovVal_false (ovVal_empty_right _ ms fs))⟩

/-- with an `EmptyLocation` argument the call returns `EmptyLocation` -/
theorem intersection_empty_arg (x : Location) (ms fs : Bool) (r : Location)
    (h : intersection x .empty ms fs = .ok r) : r = .empty := by
  cases x <;> (simp only [intersection, pure, Except.pure] at h; cases h; rfl)

/-! ### with parents -/

theorem withPar_fst' (r : Location) (par : PKey) : (withPar r par).fst = r := withPar_fst r par

theorem intersectionP_false_eq (a b : PLoc) (ms fs : Bool) :
    intersectionP a b ms fs false =
      if a.1 = .empty ∨ sameParent a.2 b.2 = false then .ok (.empty, [])
      else (intersection a.1 b.1 ms fs >>= fun r => pure (withPar r (isectResultParent a b fs))) := by
  unfold intersectionP
  rw [parentGate_eq]
  cases h : a.1 <;> cases hsp : sameParent a.2 b.2 <;> simp <;> rfl

theorem intersectionP_strict_eq (a b : PLoc) (ms fs : Bool) (hsp : sameParent a.2 b.2 = true) :
    intersectionP a b ms fs true = intersectionP a b ms fs false := by
  simp [intersectionP, requireParentsEq_eq, hsp]
  rfl

theorem okI_some (a b : LocP) (ms fs strict : Bool) (r : LocP) (h : (strict && !sameParent a.2 b.2) = false)
    (h1 : resultOk r a.2 = true) (h2 : endsWithin r.1 (hiOf [a.1, b.1]) = true)
    (h3 : ∀ p, locationCovers r.1 p = (active a b ms && covX fs a.1 p && covX fs b.1 p))
    (h4 : strandIs r.1 (locationStrand? a.1) = true) (h5 : noEmptyBlock r.1 = true) :
    okIntersection a b ms fs strict (some r) = true := by
  unfold okIntersection
  simp only [h, Bool.false_eq_true, if_false, h1, h2, h4, h5, Bool.true_and, Bool.and_true]
  rw [allUpTo_iff]
  intro p _
  rw [h3 p]
  simp

theorem okI_empty (a b : LocP) (ms fs strict : Bool) (h : (strict && !sameParent a.2 b.2) = false)
    (h3 : ∀ p, (active a b ms && covX fs a.1 p && covX fs b.1 p) = false) :
    okIntersection a b ms fs strict (some (.empty, [])) = true := by
  apply okI_some a b ms fs strict _ h
  · simp [resultOk, wfLocation, parLen]
  · rfl
  · intro p; rw [h3 p]; rfl
  · rfl
  · rfl

theorem intersectionP_ok_aux (a b : PLoc) (ha : WFP a) (hb : WFP b) (ms fs strict : Bool)
    (h : (strict && !sameParent a.2 b.2) = false) :
    okIntersection a b ms fs strict (ans (intersectionP a b ms fs false)) = true := by
  rw [intersectionP_false_eq]
  by_cases he : a.1 = .empty
  · simp only [he, true_or, if_true, ans_ok]
    apply okI_empty a b ms fs strict h
    intro p; rw [he, covX_empty]; simp
  · cases hsp : sameParent a.2 b.2 with
    | false =>
      simp only [or_true, if_true, ans_ok]
      apply okI_empty a b ms fs strict h
      intro p; rw [active_eq, hsp]; rfl
    | true =>
      simp only [he, Bool.true_eq_false, or_self, if_false]
      obtain ⟨r, hr, hs⟩ := intersection_spec a.1 b.1 ha.1 hb.1 ms fs
      rw [hr]
      simp only [bind, Except.bind, pure, Except.pure, ans_ok]
      have hends := hs.ends_le
      have hpar : sameParent (isectResultParent a b fs) a.2 = true := by
        have h1 := sameParent_refl a.2
        have h2 : sameParent b.2 a.2 = true := by rw [sameParent_symm]; exact hsp
        unfold isectResultParent
        split
        · exact h2
        · split
          · exact h2
          · exact h1
        · exact h1
      apply okI_some a b ms fs strict _ h
      · apply resultOk_withPar r _ a.2 hs.wf ?_ hpar
        intro n hn u hu
        have hn' : parentSeqLen a.2 = some n := by
          rw [← hn]; exact (sameParent_seqLen _ _ hpar).symm
        have := (maxEndOf_le_iff (locationBlocks a.1) n).mpr (ha.2.2 n hn')
        have := hends u hu
        omega
      · rw [withPar_fst]
        simp only [endsWithin, List.all_eq_true, decide_eq_true_eq]
        intro u hu
        have := hends u hu
        rw [hiOf_pair]
        omega
      · intro p
        rw [withPar_fst, locationCovers_eq, hs.cov p, active_eq, hsp, Bool.true_and]
      · rw [withPar_fst]
        rcases hs.strand with h1 | h1
        · simp [Spec.strandIs, h1]
        · simp [Spec.strandIs, h1]
      · rw [withPar_fst]
        simp only [Spec.noEmptyBlock, List.all_eq_true, decide_eq_true_eq]
        exact hs.pos

end BioCantor.Proofs.Isect

namespace BioCantor.Proofs
open BioCantor BioCantor.Spec BioCantor.Model

/-- C02-T2: intersection covers exactly the common positions (full spans with `full_span`), is on the receiver's
    strand, well formed, inside the parent, without empty blocks; incompatible parents / strands under
    match_strand give EmptyLocation -/
theorem intersectionP_ok (a b : PLoc) (ha : WFP a) (hb : WFP b) (ms fs strict : Bool) :
    okIntersection a b ms fs strict (ans (intersectionP a b ms fs strict)) = true := by
  cases strict with
  | false => exact Isect.intersectionP_ok_aux a b ha hb ms fs false rfl
  | true =>
    cases hsp : sameParent a.2 b.2 with
    | false =>
      simp [okIntersection, intersectionP, requireParentsEq_eq, hsp]
      rfl
    | true =>
      rw [Isect.intersectionP_strict_eq a b ms fs hsp]
      exact Isect.intersectionP_ok_aux a b ha hb ms fs true (by simp [hsp])

/-- C02-T2 (normal form): for operands that are not self-overlapping, and for the span variant, the result is in
    normal form -/
theorem intersectionP_normal (a b : PLoc) (ha : WFP a) (hb : WFP b) (ms fs strict : Bool) :
    okIntersectionNormal a b fs (ans (intersectionP a b ms fs strict)) = true := by
  have key : okIntersectionNormal a b fs (ans (intersectionP a b ms fs false)) = true := by
    rw [Isect.intersectionP_false_eq]
    by_cases h0 : a.1 = .empty ∨ sameParent a.2 b.2 = false
    · simp only [h0, if_true, ans_ok, okIntersectionNormal, locationBlocks, normalBlocks]
      simp
    · simp only [h0, if_false]
      cases hr : intersection a.1 b.1 ms fs with
      | error e => rfl
      | ok r =>
        simp only [bind, Except.bind, pure, Except.pure, ans_ok, okIntersectionNormal, Isect.withPar_fst']
        by_cases hc : (fs || (nonOverlapLoc a.1 && nonOverlapLoc b.1)) = true
        · simp only [hc, if_true]
          by_cases hbe : b.1 = .empty
          · rw [hbe] at hr
            rw [Isect.intersection_empty_arg a.1 ms fs r hr]
            rfl
          · obtain ⟨r', hr', hs⟩ := Isect.intersection_spec a.1 b.1 ha.1 hb.1 ms fs
            rw [hr] at hr'
            cases hr'
            refine (hs.normal ?_).1
            simp only [Bool.or_eq_true, Bool.and_eq_true] at hc
            exact hc
        · simp [hc]
  cases strict with
  | false => exact key
  | true =>
    cases hsp : sameParent a.2 b.2 with
    | false =>
      simp [okIntersectionNormal, intersectionP, requireParentsEq_eq, hsp]
      rfl
    | true =>
      rw [Isect.intersectionP_strict_eq a b ms fs hsp]
      exact key

/-! ### the hypotheses are satisfiable by non-trivial inputs -/

example :
    let a : PLoc := (.compound ⟨[(0, 2), (2, 2), (3, 5)], .minus⟩, [(some "chrA", none, some ['A','C','G','T','A'])])
    let b : PLoc := (.compound ⟨[(1, 4), (4, 5)], .plus⟩, [(some "chrA", none, some ['A','C','G','T','A'])])
    WFP a ∧ WFP b := by decide

example :
    let a : PLoc := (.single (1, 4) .plus, [])
    let b : PLoc := (.empty, [])
    WFP a ∧ WFP b := by decide

end BioCantor.Proofs
