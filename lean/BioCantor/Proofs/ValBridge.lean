/- C19 proofs, part 9: on natural-number coordinates the raw constructor IS `Model.mkCompoundLoc` (the constructor
   the C01/C02/C04 theorems are stated about). -/
import BioCantor.Proofs.ValCompound
import BioCantor.Proofs.RelBasics
set_option linter.unusedSimpArgs false
namespace BioCantor.Proofs.Val
open BioCantor BioCantor.Model BioCantor.Model.Validate BioCantor.Proofs

def castBlk (b : Blk) : IBlk := ((b.1 : Int), (b.2 : Int))

theorem blkLe_cast (st : Strand) (a b : Blk) : blkLe st a b = iblkLe st (castBlk a) (castBlk b) := by
  cases st <;> rw [Bool.eq_iff_iff] <;> simp [blkLe, blkLePlus, blkLeOther, iblkLe, castBlk] <;> omega

theorem sort_cast (st : Strand) (bs : List Blk) :
    sortBlocksI st (bs.map castBlk) = (sortBlocks st bs).map castBlk := by
  unfold sortBlocksI sortBlocks
  exact (List.map_mergeSort (fun a _ b _ => blkLe_cast st a b)).symm

theorem mkCompoundRaw_agrees_nat (bs : List Blk) (st : Strand) :
    (∀ l, mkCompoundLoc bs st = .ok l →
        mkCompoundRaw (bs.map fun b => (b.1 : Int)) (bs.map fun b => (b.2 : Int)) st none = .ok (l.blocks.map castBlk)) ∧
    (∀ e, mkCompoundLoc bs st = .error e →
        ∃ k, mkCompoundRaw (bs.map fun b => (b.1 : Int)) (bs.map fun b => (b.2 : Int)) st none = .error (.doc k)) := by
  have hzip : (bs.map fun b => (b.1 : Int)).zip (bs.map fun b => (b.2 : Int)) = bs.map castBlk := List.zip_map'
  obtain ⟨h1, h2⟩ := mkCompoundRaw_eq (bs.map fun b => (b.1 : Int)) (bs.map fun b => (b.2 : Int)) st none
  rw [hzip] at h1
  have hacc : acceptedCompound (bs.map fun b => (b.1 : Int)) (bs.map fun b => (b.2 : Int)) none ↔
      (bs ≠ [] ∧ ∀ b ∈ bs, b.1 ≤ b.2) := by
    unfold acceptedCompound lensOk
    rw [hzip]
    simp only [List.length_map, true_and, and_true, List.mem_map, forall_exists_index, and_imp, forall_apply_eq_imp_iff₂,
      castBlk, Int.ofNat_le, List.length_pos_iff]
    exact ⟨fun h => ⟨h.1, fun b hb => (h.2 b hb).2⟩, fun h => ⟨h.1, fun b hb => ⟨Int.natCast_nonneg _, h.2 b hb⟩⟩⟩
  by_cases hv : bs ≠ [] ∧ ∀ b ∈ bs, b.1 ≤ b.2
  · have hok := mkCompoundLoc_ok st hv.1 hv.2
    refine ⟨fun l hl => ?_, fun e he => by rw [hok] at he; cases he⟩
    rw [hok] at hl
    cases hl
    rw [h1 (hacc.mpr hv), sort_cast]
  · refine ⟨fun l hl => ?_, fun _ _ => h2 (fun h => hv (hacc.mp h))⟩
    exfalso
    unfold mkCompoundLoc at hl
    by_cases he : bs.isEmpty = true
    · simp [he, throw, throwThe, MonadExceptOf.throw] at hl
    · simp only [he, Bool.false_eq_true, ite_false] at hl
      by_cases hb : blocksValid (sortBlocks st bs) = true
      · apply hv
        refine ⟨by simpa using he, fun b hb' => ?_⟩
        exact (blocksValid_iff _).mp hb b ((sortBlocks_perm st bs).mem_iff.mpr hb')
      · simp [hb, throw, throwThe, MonadExceptOf.throw] at hl

end BioCantor.Proofs.Val
