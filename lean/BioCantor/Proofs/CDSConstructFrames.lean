/-
  C05-T4: `CDSInterval.construct_frames_from_location(location, starting_frame)` describes ONE uninterrupted
  reading frame: walking the location with the generated frames never re-synchronises after the start offset,
  so the walk keeps every position after the first `starting_frame.value`.
  Holds for every block layout (also overlapping / empty blocks) as long as the 5' block is at least as long
  as the start offset (otherwise: finding F-C05h).
-/
import BioCantor.Proofs.CDSKept
namespace BioCantor.Proofs
open BioCantor BioCantor.Model BioCantor.Spec

/-- the loop `frames.append(frames[-1].shift(s))` along the exons that follow the first one -/
theorem framesLoop_walk (st : Strand) : ∀ (es : List Blk) (s : Int) (last : CDSFrame) (kept : List Nat),
    es ≠ [] → last ≠ .NONE → (last.value + s) % 3 = ((kept.length : Nat) : Int) % 3 →
    ∃ gs, framesLoop last (s :: ((es.map (fun b => (b.len : Int))).dropLast)) = .ok gs ∧ gs.length = es.length ∧
      (∀ g ∈ gs, g ≠ .NONE) ∧
      refKeptAux ((es.zip gs).map (fun eg => (rd st eg.1, eg.2.value.toNat))) kept = kept ++ readScan st es
  | [], _, _, _, h, _, _ => absurd rfl h
  | [e], s, last, kept, _, hl, hk => by
    obtain ⟨g, hg, hgv, hgn⟩ := frameShift_ok last hl s
    refine ⟨[g], by simp [framesLoop, hg, bind, Except.bind, pure, Except.pure], rfl, by simp [hgn], ?_⟩
    have hv := frame_value_range g hgn
    have : g.value.toNat = kept.length % 3 := by omega
    simp [refKeptAux, this, readScan]
  | e :: e' :: r, s, last, kept, _, hl, hk => by
    obtain ⟨g, hg, hgv, hgn⟩ := frameShift_ok last hl s
    have hv := frame_value_range g hgn
    have hgk : g.value.toNat = kept.length % 3 := by omega
    obtain ⟨gs, h1, h2, h3, h4⟩ := framesLoop_walk st (e' :: r) (e.len : Int) g (kept ++ rd st e)
      (by simp) hgn (by simp only [List.length_append, length_rd]; omega)
    refine ⟨g :: gs, ?_, by simp [h2], ?_, ?_⟩
    · have : ((e :: e' :: r).map (fun b => (b.len : Int))).dropLast =
          (e.len : Int) :: ((e' :: r).map (fun b => (b.len : Int))).dropLast := by
        simp
      rw [this, framesLoop]
      simp only [hg, bind, Except.bind, h1, pure, Except.pure]
    · intro x hx
      rcases List.mem_cons.mp hx with rfl | hx
      · exact hgn
      · exact h3 x hx
    · simp only [List.zip_cons_cons, List.map_cons, refKeptAux, hgk, if_true]
      rw [h4]; simp [readScan]

/-- the model's frames in 5'→3' order and the walk over them -/
theorem constructFrames_walk (st : Strand) (e0 : Blk) (es : List Blk) (hne : es ≠ []) (f : CDSFrame)
    (hf : f ≠ .NONE) (hfirst : f.value ≤ (e0.len : Int)) :
    ∃ gs, framesLoop .ZERO (((e0.len : Int) - f.value) :: ((es.map (fun b => (b.len : Int))).dropLast)) = .ok gs ∧
      gs.length = es.length ∧ (∀ g ∈ gs, g ≠ .NONE) ∧
      refKept (((e0 :: es).zip (f :: gs)).map (fun eg => (rd st eg.1, eg.2.value.toNat))) =
        (readScan st (e0 :: es)).drop f.value.toNat := by
  have hv := frame_value_range f hf
  -- after the first exon the walk holds `(rd e0).drop f`
  have hk0 : refKeptAux [(rd st e0, f.value.toNat)] [] = (rd st e0).drop f.value.toNat := by
    simp only [refKeptAux, List.length_nil, Nat.zero_mod]
    split
    · rename_i h; simp [h]
    · simp
  obtain ⟨gs, h1, h2, h3, h4⟩ := framesLoop_walk st es ((e0.len : Int) - f.value) .ZERO
    ((rd st e0).drop f.value.toNat) hne (by simp)
    (by have hz : CDSFrame.ZERO.value = 0 := rfl
        simp only [hz, List.length_drop, length_rd]; omega)
  refine ⟨gs, h1, h2, h3, ?_⟩
  simp only [refKept, List.zip_cons_cons, List.map_cons, refKeptAux, List.length_nil, Nat.zero_mod]
  have hdrop : (readScan st (e0 :: es)).drop f.value.toNat = (rd st e0).drop f.value.toNat ++ readScan st es := by
    rw [readScan_cons, List.drop_append_of_le_length (by rw [length_rd]; omega)]
  rw [hdrop]
  split
  · rename_i h
    rw [h] at h4 ⊢
    simpa using h4
  · simpa using h4

/-- length of the 5' block -/
def firstLen (l : Loc) : Nat := match scanOrder l.strand l.blocks with
  | b :: _ => b.len
  | [] => 0

def frameVals (fs : List CDSFrame) : List Nat := fs.map (fun x => x.value.toNat)

theorem frameVals_lt (fs : List CDSFrame) (h : ∀ g ∈ fs, g ≠ .NONE) :
    (frameVals fs).all (fun x => decide (x < 3)) = true := by
  simp only [frameVals, List.all_map, List.all_eq_true, Function.comp_apply, decide_eq_true_eq]
  intro g hg
  have := frame_value_range g (h g hg)
  omega

theorem bases_scanOrder (bs : List Blk) (st : Strand) (hst : st = .plus ∨ st = .minus) :
    bases ⟨bs, st⟩ = readScan st (scanOrder st bs) := by
  have hsu : st ≠ .unstranded := by rcases hst with h | h <;> simp [h]
  rw [bases_eq_readScan bs st hsu]; rfl

/-- one block: the answer is `[starting_frame]` -/
theorem okFrames_one (b : Blk) (st : Strand) (hst : st = .plus ∨ st = .minus) (f : CDSFrame) (hf : f ≠ .NONE) :
    okFrames ⟨[b], st⟩ f.value.toNat (some (frameVals [f])) = true := by
  have hk : cdsKept ⟨[b], st⟩ (frameVals [f]) = (bases ⟨[b], st⟩).drop f.value.toNat := by
    unfold cdsKept frameVals
    rw [exonWalk_scanOrder [b] st hst [f] rfl, bases_scanOrder [b] st hst]
    have : scanOrder st [b] = [b] := by unfold scanOrder; split <;> rfl
    rw [this]
    have h2 : (if st = .minus then [f].reverse else [f]) = [f] := by split <;> rfl
    rw [h2]
    simp only [List.zip_cons_cons, List.zip_nil_right, List.map_cons, List.map_nil, refKept, refKeptAux,
      List.length_nil, Nat.zero_mod, readScan_cons, readScan_nil, List.append_nil]
    split
    · rename_i h; simp [h]
    · simp
  simp only [okFrames, frameVals_lt [f] (by simpa using hf), hk]
  simp [frameVals]

/-- **C05-T4** -/
theorem constructFrames_ok (l : Location) (loc : Loc) (hl : toLoc l = some loc) (hne : loc.blocks ≠ [])
    (hst : loc.strand = .plus ∨ loc.strand = .minus) (f : CDSFrame) (hf : f ≠ .NONE)
    (hfirst : loc.blocks.length = 1 ∨ f.value ≤ (firstLen loc : Int)) :
    okFrames loc f.value.toNat ((ans (constructFramesFromLocation l f)).map frameVals) = true := by
  cases l with
  | empty => simp [toLoc] at hl
  | single b st =>
    simp only [toLoc, Option.some.injEq] at hl
    subst hl
    simp only [constructFramesFromLocation, ans_pure, Option.map_some]
    exact okFrames_one b st hst f hf
  | compound lc =>
    simp only [toLoc, Option.some.injEq] at hl
    subst hl
    obtain ⟨bs, st⟩ := lc
    simp only at hst hne hfirst
    unfold constructFramesFromLocation
    by_cases h1 : bs.length = 1
    · simp only [h1, if_true, ans_pure, Option.map_some]
      match bs, h1 with
      | [b], _ => exact okFrames_one b st hst f hf
    · simp only [h1, if_false]
      have hfl : f.value ≤ (firstLen ⟨bs, st⟩ : Int) := by
        rcases hfirst with h | h
        · exact absurd h h1
        · exact h
      have hsb : scanBlocks ⟨bs, st⟩ = .ok (scanOrder st bs) := by
        unfold scanBlocks assertDirectional scanOrder
        rcases hst with h | h <;> simp [h, bind, Except.bind, pure, Except.pure]
      -- the blocks in 5'→3' order: at least two
      cases hso : scanOrder st bs with
      | nil =>
        have : (scanOrder st bs).length = bs.length := by unfold scanOrder; split <;> simp
        rw [hso] at this
        cases bs with
        | nil => exact absurd rfl hne
        | cons _ _ => simp at this
      | cons e0 es =>
        have hlen : (scanOrder st bs).length = bs.length := by unfold scanOrder; split <;> simp
        have hes : es ≠ [] := by
          intro he; rw [hso, he] at hlen; simp at hlen; exact h1 hlen.symm
        unfold firstLen at hfl
        simp only [hso] at hfl
        obtain ⟨gs, hg1, hg2, hg3, hg4⟩ := constructFrames_walk st e0 es hes f hf hfl
        have hdl : ((e0 :: es).map (fun b => (b.len : Int))).dropLast =
            (e0.len : Int) :: (es.map (fun b => (b.len : Int))).dropLast := by
          cases es with
          | nil => exact absurd rfl hes
          | cons a t => simp
        simp only [hsb, bind, Except.bind, hso, hdl, hg1, pure, Except.pure, ans_ok, Option.map_some]
        -- the answer and the spec
        generalize hfs : (if st = .minus then (f :: gs).reverse else f :: gs) = fs
        have hfsl : fs.length = bs.length := by
          rw [← hfs, ← hlen, hso]; split <;> simp [hg2]
        have hfsn : ∀ g ∈ fs, g ≠ .NONE := by
          intro g hg; rw [← hfs] at hg
          have : g ∈ f :: gs := by
            split at hg
            · exact List.mem_reverse.mp hg
            · exact hg
          rcases List.mem_cons.mp this with rfl | h
          · exact hf
          · exact hg3 g h
        have hrev : (if st = .minus then fs.reverse else fs) = f :: gs := by
          rw [← hfs]; split <;> simp
        have hk : cdsKept ⟨bs, st⟩ (frameVals fs) = (bases ⟨bs, st⟩).drop f.value.toNat := by
          unfold cdsKept frameVals
          rw [exonWalk_scanOrder bs st hst fs hfsl, hrev, hso, bases_scanOrder bs st hst, hso]
          exact hg4
        simp only [okFrames, frameVals_lt fs hfsn, hk]
        simp [frameVals, hfsl]

end BioCantor.Proofs
