/-
  C17 helper lemmas, part 4: qualifiers the property speaks about (`pseudo`, `codon_start`, `locus_tag`) as the
  reader finds them in a printed feature; locus-tag stepping; the gene feature's strand.
-/
import BioCantor.Proofs.TblFile
namespace BioCantor.Proofs.Tbl
open BioCantor BioCantor.Model.Tbl BioCantor.Spec.Tbl
open BioCantor.Model.Bed (natStr intStr join)
open BioCantor.Spec.Bed (splitOn parseNat)
open BioCantor.Proofs.Bed

/-! ### `pseudo` -/

theorem qualPairsOf_keys (valid : List (List Char)) (q : Quals) :
    ∀ p ∈ qualPairsOf valid q, valid.contains p.1 = true := by
  induction q with
  | nil => simp [qualPairsOf]
  | cons kv rest ih =>
    obtain ⟨k, vals⟩ := kv
    unfold qualPairsOf
    by_cases h1 : (vals.isEmpty || !valid.contains k) = true
    · simp only [h1, if_true]; exact ih
    · simp only [h1, if_false, Bool.false_eq_true]
      by_cases h2 : (vals.filterMap id).isEmpty = true
      · simp only [h2, if_true]; exact ih
      · simp only [h2, if_false, Bool.false_eq_true]
        intro p hp
        rcases List.mem_append.1 hp with hp | hp
        · obtain ⟨v, _, rfl⟩ := List.mem_map.1 hp
          simp only [Bool.or_eq_true, Bool.not_eq_true', not_or, Bool.not_eq_false] at h1
          exact h1.2
        · exact ih p hp

theorem validKeys_no_pseudo (key : List Char) : (validKeys key).contains "pseudo".toList = false := by
  unfold validKeys
  split
  · decide
  · split
    · decide
    · split
      · decide
      · split <;> decide

/-- the `pseudo` line is present exactly when the feature is flagged -/
theorem pseudo_read_back (f : Feature) :
    ((featOf f).quals.any (fun q => q.1 = "pseudo".toList)) = f.pseudo := by
  unfold featOf allPairs
  simp only [List.any_append]
  have h1 : (qualPairsOf (validKeys f.key) f.quals).any (fun q => decide (q.1 = "pseudo".toList)) = false := by
    rw [List.any_eq_false]
    intro p hp hpe
    have hk := qualPairsOf_keys _ _ p hp
    have hpe' : p.1 = "pseudo".toList := by simpa using hpe
    rw [hpe', validKeys_no_pseudo] at hk
    exact absurd hk (by simp)
  rw [h1]
  cases f.pseudo <;> simp

/-! ### values of one key -/

/-- the values `_qualifiers_to_str` prints for key `k` -/
def printedValues (k : List Char) (q : Quals) : List (List Char) :=
  (q.filter (fun kv => kv.1 = k)).flatMap (fun kv => (sortStrs (kv.2.filterMap id)).map removeChars)

theorem sortStrs_nil : sortStrs [] = [] := rfl

theorem values_of_key (valid : List (List Char)) (k : List Char) (hk : valid.contains k = true) (q : Quals) :
    ((qualPairsOf valid q).filter (fun p => p.1 = k)).map (·.2) = printedValues k q := by
  induction q with
  | nil => rfl
  | cons kv rest ih =>
    obtain ⟨k', vals⟩ := kv
    unfold qualPairsOf printedValues
    unfold printedValues at ih
    by_cases hkk : k' = k
    · subst hkk
      have hc : (vals.isEmpty || !valid.contains k') = vals.isEmpty := by rw [hk]; simp
      simp only [hc, List.filter_cons, decide_true, if_true, List.flatMap_cons]
      by_cases h1 : vals.isEmpty = true
      · have : vals = [] := by simpa using h1
        subst this
        simp only [List.isEmpty_nil, if_true, List.filterMap_nil, sortStrs_nil, List.map_nil, List.nil_append]
        exact ih
      · simp only [h1, if_false, Bool.false_eq_true]
        by_cases h2 : (vals.filterMap id).isEmpty = true
        · have : vals.filterMap id = [] := by simpa using h2
          simp only [h2, if_true, this, sortStrs_nil, List.map_nil, List.nil_append]
          exact ih
        · simp only [h2, if_false, Bool.false_eq_true, List.filter_append, List.map_append, ih]
          congr 1
          rw [List.filter_eq_self.2 (by intro p hp; obtain ⟨v, _, rfl⟩ := List.mem_map.1 hp; simp)]
          simp [List.map_map, Function.comp_def]
    · have hne : ¬ ((k', vals).1 = k) := hkk
      simp only [List.filter_cons, hne, decide_false, if_false, Bool.false_eq_true]
      by_cases h1 : (vals.isEmpty || !valid.contains k') = true
      · simp only [h1, if_true]; exact ih
      · simp only [h1, if_false, Bool.false_eq_true]
        by_cases h2 : (vals.filterMap id).isEmpty = true
        · simp only [h2, if_true]; exact ih
        · simp only [h2, if_false, Bool.false_eq_true, List.filter_append, List.map_append, ih]
          rw [List.filter_eq_nil_iff.2 (by
            intro p hp; obtain ⟨v, _, rfl⟩ := List.mem_map.1 hp; simpa using hkk)]
          simp

theorem qualValues_featOf (f : Feature) (k : String) (hk : (validKeys f.key).contains k.toList = true)
    (hnp : k.toList ≠ "pseudo".toList) :
    qualValues (featOf f) k = printedValues k.toList f.quals := by
  unfold qualValues featOf allPairs
  simp only [List.filter_append, List.map_append]
  rw [values_of_key _ _ hk]
  cases f.pseudo
  · simp
  · have : ¬ ("pseudo".toList = k.toList) := fun e => hnp e.symm
    have h2 : ¬ (['p', 's', 'e', 'u', 'd', 'o'] = k.toList) := this
    simp [h2]

theorem removeChars_id (v : List Char) (h : ∀ c ∈ v, c ≠ '[' ∧ c ≠ ']' ∧ c ≠ '(' ∧ c ≠ ')' ∧ c ≠ ';') :
    removeChars v = v := by
  unfold removeChars
  rw [List.filter_eq_self]
  intro c hc
  obtain ⟨h1, h2, h3, h4, h5⟩ := h c hc
  simp [h1, h2, h3, h4, h5]

theorem digit_not_special (c : Char) (h : IsDigit c) : c ≠ '[' ∧ c ≠ ']' ∧ c ≠ '(' ∧ c ≠ ')' ∧ c ≠ ';' := by
  refine ⟨?_, ?_, ?_, ?_, ?_⟩ <;> (intro e; subst e; revert h; unfold IsDigit; decide)

theorem removeChars_natStr (n : Nat) : removeChars (natStr n) = natStr n :=
  removeChars_id _ (fun c hc => digit_not_special c (natStr_digits n c hc))

theorem sortStrs_single (x : List Char) : sortStrs [x] = [x] := rfl

/-- a dictionary entry `k: [v]` (the only entry with key `k`) is printed as the single value `v` (minus the
    characters the writer strips) -/
theorem printedValues_single (k v : List Char) (q : Quals) (h : q.filter (fun kv => kv.1 = k) = [(k, [some v])]) :
    printedValues k q = [removeChars v] := by
  unfold printedValues
  rw [h]
  simp [sortStrs_single]

/-! ### `_qualifiers_to_str`: which values are printed -/

theorem insertStr_perm (x : List Char) (l : List (List Char)) : (insertStr x l).Perm (x :: l) := by
  induction l with
  | nil => exact List.Perm.refl _
  | cons a l ih =>
    unfold insertStr
    split
    · exact ((List.Perm.cons a ih).trans (List.Perm.swap x a l))
    · exact List.Perm.refl _

/-- `sorted(...)` only reorders -/
theorem sortStrs_perm (l : List (List Char)) : (sortStrs l).Perm l := by
  induction l with
  | nil => exact List.Perm.refl _
  | cons a l ih =>
    have : sortStrs (a :: l) = insertStr a (sortStrs l) := rfl
    rw [this]
    exact (insertStr_perm a _).trans (List.Perm.cons a ih)

/-- a key outside the feature class's `VALID_KEYS` is never printed -/
theorem invalid_key_not_printed (valid : List (List Char)) (k : List Char) (hk : valid.contains k = false)
    (q : Quals) : (qualPairsOf valid q).filter (fun p => p.1 = k) = [] := by
  rw [List.filter_eq_nil_iff]
  intro p hp hpk
  have := qualPairsOf_keys valid q p hp
  have hpk' : p.1 = k := by simpa using hpk
  rw [hpk', hk] at this
  exact absurd this (by simp)

/-! ### clean dictionaries print clean lines -/

theorem mem_insertStr (x y : List Char) (l : List (List Char)) : y ∈ insertStr x l → y = x ∨ y ∈ l := by
  induction l with
  | nil => intro h; simp [insertStr] at h; exact Or.inl h
  | cons a l ih =>
    intro h
    unfold insertStr at h
    split at h
    · rcases List.mem_cons.1 h with h | h
      · exact Or.inr (by rw [h]; simp)
      · rcases ih h with h | h
        · exact Or.inl h
        · exact Or.inr (List.mem_cons_of_mem _ h)
    · rcases List.mem_cons.1 h with h | h
      · exact Or.inl h
      · exact Or.inr h

theorem mem_sortStrs (y : List Char) (l : List (List Char)) : y ∈ sortStrs l → y ∈ l := by
  induction l with
  | nil => intro h; simp [sortStrs] at h
  | cons a l ih =>
    intro h
    have h' : y ∈ insertStr a (sortStrs l) := h
    rcases mem_insertStr a y _ h' with h | h
    · rw [h]; simp
    · exact List.mem_cons_of_mem _ (ih h)

/-- a qualifier dictionary without tab / line break in keys and values, keys non-empty -/
def QualsClean (q : Quals) : Prop :=
  ∀ kv ∈ q, kv.1 ≠ [] ∧ '\t' ∉ kv.1 ∧ '\n' ∉ kv.1 ∧ ∀ v, some v ∈ kv.2 → '\t' ∉ v ∧ '\n' ∉ v

theorem qualPairsOf_clean (valid : List (List Char)) (q : Quals) (h : QualsClean q) :
    ∀ p ∈ qualPairsOf valid q, p.1 ≠ [] ∧ '\t' ∉ p.1 ∧ '\n' ∉ p.1 ∧ '\t' ∉ p.2 ∧ '\n' ∉ p.2 := by
  induction q with
  | nil => simp [qualPairsOf]
  | cons kv rest ih =>
    obtain ⟨k, vals⟩ := kv
    have ih' := ih (fun x hx => h x (List.mem_cons_of_mem _ hx))
    have hk := h (k, vals) (by simp)
    unfold qualPairsOf
    by_cases h1 : (vals.isEmpty || !valid.contains k) = true
    · simp only [h1, if_true]; exact ih'
    · simp only [h1, if_false, Bool.false_eq_true]
      by_cases h2 : (vals.filterMap id).isEmpty = true
      · simp only [h2, if_true]; exact ih'
      · simp only [h2, if_false, Bool.false_eq_true]
        intro p hp
        rcases List.mem_append.1 hp with hp | hp
        · obtain ⟨v, hv, rfl⟩ := List.mem_map.1 hp
          have hv' : some v ∈ vals := by
            have := mem_sortStrs v _ hv
            simpa [List.mem_filterMap] using this
          have hvc := hk.2.2.2 v hv'
          have hsub : ∀ c ∈ removeChars v, c ∈ v := fun c hc => (List.mem_filter.1 hc).1
          exact ⟨hk.1, hk.2.1, hk.2.2.1, fun hc => hvc.1 (hsub _ hc), fun hc => hvc.2 (hsub _ hc)⟩
        · exact ih' p hp

theorem allPairs_clean (valid : List (List Char)) (q : Quals) (pseudo : Bool) (h : QualsClean q) :
    ∀ p ∈ allPairs valid q pseudo, p.1 ≠ [] ∧ '\t' ∉ p.1 ∧ '\n' ∉ p.1 ∧ '\t' ∉ p.2 ∧ '\n' ∉ p.2 := by
  intro p hp
  unfold allPairs at hp
  rcases List.mem_append.1 hp with hp | hp
  · exact qualPairsOf_clean valid q h p hp
  · cases pseudo
    · simp at hp
    · simp only [if_true, List.mem_singleton] at hp
      subst hp
      exact ⟨by decide, by decide, by decide, by simp, by simp⟩

/-- a feature with at least one block, a clean key and a clean dictionary prints readable text -/
theorem featOK_of_clean (f : Feature) (hb : f.blocks ≠ []) (hk : f.key ≠ [] ∧ '\t' ∉ f.key ∧ '\n' ∉ f.key)
    (hq : QualsClean f.quals) : FeatOK f :=
  ⟨hb, hk, allPairs_clean _ _ _ hq⟩

/-! ### locus tags -/

theorem stripPrefix_append (p rest : List Char) : stripPrefix p (p ++ rest) = some rest := by
  induction p with
  | nil => cases rest <;> rfl
  | cons c cs ih => simp [stripPrefix, ih]

theorem tagNumber_tag (pre : List Char) (m : Nat) : tagNumber pre (pre ++ '_' :: natStr m) = some m := by
  unfold tagNumber
  rw [stripPrefix_append]
  exact parseNat_natStr m

def numsFrom (step : Nat) : Nat → Nat → List Nat
  | _, 0 => []
  | off, n + 1 => (off + step) :: numsFrom step (off + step) n

theorem locusTagsFrom_nat (pre : List Char) (step off n : Nat) :
    locusTagsFrom pre (step : Int) (off : Int) n = (numsFrom step off n).map (fun m => pre ++ '_' :: natStr m) := by
  induction n generalizing off with
  | zero => rfl
  | succ n ih =>
    simp only [locusTagsFrom, numsFrom, List.map_cons]
    have : (off : Int) + (step : Int) = ((off + step : Nat) : Int) := by push_cast; rfl
    rw [this, intStr_ofNat, ih]

theorem mapOpt_tags (pre : List Char) (ns : List Nat) :
    mapOpt (tagNumber pre) (ns.map (fun m => pre ++ '_' :: natStr m)) = some ns := by
  induction ns with
  | nil => rfl
  | cons m ns ih => simp only [List.map_cons, mapOpt, tagNumber_tag, ih]

theorem increasesBy_nums (step off n : Nat) : increasesBy step off (numsFrom step off n) = true := by
  induction n generalizing off with
  | zero => rfl
  | succ n ih => simp [numsFrom, increasesBy, ih]

theorem nums_gt (step off n : Nat) (hs : 0 < step) : ∀ m ∈ numsFrom step off n, off < m := by
  induction n generalizing off with
  | zero => simp [numsFrom]
  | succ n ih =>
    intro m hm
    simp only [numsFrom, List.mem_cons] at hm
    rcases hm with rfl | hm
    · omega
    · have := ih (off + step) m hm; omega

theorem nodupB_tags (pre : List Char) (step off n : Nat) (hs : 0 < step) :
    nodupB ((numsFrom step off n).map (fun m => pre ++ '_' :: natStr m)) = true := by
  induction n generalizing off with
  | zero => rfl
  | succ n ih =>
    simp only [numsFrom, List.map_cons, nodupB, Bool.and_eq_true, Bool.not_eq_true']
    refine ⟨?_, ih (off + step)⟩
    rw [Bool.eq_false_iff]
    intro hc
    rw [List.contains_iff_mem] at hc
    obtain ⟨m, hm, he⟩ := List.mem_map.1 hc
    have hgt := nums_gt step (off + step) n hs m hm
    have h1 := tagNumber_tag pre m
    rw [he, tagNumber_tag] at h1
    simp only [Option.some.injEq] at h1
    omega

/-- **locus tags**: for every prefix, step and number of genes the tags are `prefix_<i·step>`, increasing by
    the step, and pairwise distinct when the step is positive -/
theorem locusTags_ok (pre : List Char) (step n : Nat) : okTags pre step (locusTags pre (step : Int) n) = true := by
  unfold okTags locusTags
  have := locusTagsFrom_nat pre step 0 n
  rw [show ((0 : Nat) : Int) = 0 from rfl] at this
  rw [this, mapOpt_tags]
  simp only [increasesBy_nums, Bool.true_and, Bool.or_eq_true, decide_eq_true_eq]
  by_cases hs : step = 0
  · exact Or.inl hs
  · exact Or.inr (nodupB_tags pre step 0 n (by omega))

theorem numsFrom_get (step off n i : Nat) (h : i < n) : (numsFrom step off n)[i]? = some (off + (i + 1) * step) := by
  induction n generalizing off i with
  | zero => omega
  | succ n ih =>
    cases i with
    | zero => simp [numsFrom]
    | succ i =>
      simp only [numsFrom, List.getElem?_cons_succ]
      rw [ih (off + step) i (by omega)]
      congr 1
      have : (i + 1 + 1) * step = (i + 1) * step + step := by rw [Nat.add_mul (i + 1) 1 step]; omega
      omega

/-- the tag of gene number `i + 1` is `prefix_<(i+1)·step>` -/
theorem locusTags_get (pre : List Char) (step n i : Nat) (h : i < n) :
    (locusTags pre (step : Int) n)[i]? = some (pre ++ '_' :: natStr ((i + 1) * step)) := by
  unfold locusTags
  have := locusTagsFrom_nat pre step 0 n
  rw [show ((0 : Nat) : Int) = 0 from rfl] at this
  rw [this, List.getElem?_map, numsFrom_get step 0 n i h]
  simp

/-! ### locus tags over several collections of one call -/

theorem collectionTags_get (pre : List Char) (step : Nat) : ∀ (counts : List Nat) (off i j n : Nat),
    counts[i]? = some n → j < n →
    ((collectionTagsFrom pre (step : Int) (off : Int) counts)[i]?).bind (fun l => l[j]?)
      = some (pre ++ '_' :: natStr (off + ((counts.take i).sum + j + 1) * step))
  | [], _, i, _, _, h, _ => by simp at h
  | m :: rest, off, 0, j, n, h, hj => by
    simp only [List.getElem?_cons_zero, Option.some.injEq] at h
    subst h
    simp only [collectionTagsFrom, List.getElem?_cons_zero, Option.bind_some, List.take_zero, List.sum_nil,
      Nat.zero_add]
    rw [locusTagsFrom_nat, List.getElem?_map, numsFrom_get step off m j hj]
    rfl
  | m :: rest, off, i + 1, j, n, h, hj => by
    simp only [List.getElem?_cons_succ] at h
    have hoff : (off : Int) + (step : Int) * (m : Int) = ((off + step * m : Nat) : Int) := by push_cast; rfl
    simp only [collectionTagsFrom, List.getElem?_cons_succ, hoff]
    rw [collectionTags_get pre step rest (off + step * m) i j n h hj]
    simp only [List.take_succ_cons, List.sum_cons]
    congr 3
    have e1 : (m + (List.take i rest).sum + j + 1) * step = m * step + ((List.take i rest).sum + j + 1) * step := by
      rw [show m + (List.take i rest).sum + j + 1 = m + ((List.take i rest).sum + j + 1) by omega, Nat.add_mul]
    have e2 : step * m = m * step := Nat.mul_comm _ _
    rw [e1]
    congr 1
    omega

/-- **locus tags across collections**: gene `j` (0-based) of collection `i` gets `prefix_<(g + j + 1)·step>` where
    `g` is the number of genes in the collections before it — the offset is NOT reset per collection -/
theorem collectionTags_spec (pre : List Char) (step : Nat) (counts : List Nat) (i j n : Nat)
    (h : counts[i]? = some n) (hj : j < n) :
    ((collectionTags pre (step : Int) counts)[i]?).bind (fun l => l[j]?)
      = some (pre ++ '_' :: natStr (((counts.take i).sum + j + 1) * step)) := by
  have := collectionTags_get pre step counts 0 i j n h hj
  simpa [collectionTags] using this

theorem locusTagsFrom_append (pre : List Char) (step : Int) (off : Int) (a b : Nat) :
    locusTagsFrom pre step off (a + b) = locusTagsFrom pre step off a ++ locusTagsFrom pre step (off + step * a) b := by
  induction a generalizing off with
  | zero => simp [locusTagsFrom]
  | succ a ih =>
    rw [show a + 1 + b = (a + b) + 1 by omega]
    simp only [locusTagsFrom, List.cons_append]
    rw [ih (off + step)]
    congr 3
    push_cast
    rw [Int.mul_add]; omega

/-- all tags of one call, collection after collection, are the one running sequence `locusTags` -/
theorem collectionTags_flatten (pre : List Char) (step : Int) (counts : List Nat) :
    (collectionTags pre step counts).flatten = locusTags pre step counts.sum := by
  unfold collectionTags locusTags
  generalize (0 : Int) = off
  induction counts generalizing off with
  | nil => simp [collectionTagsFrom, locusTagsFrom]
  | cons n rest ih =>
    simp only [collectionTagsFrom, List.flatten_cons, List.sum_cons, ih, locusTagsFrom_append]

/-! ### the gene feature's strand -/

theorem argmax_fold (all : List Strand) (rest : List Strand) (s : Strand) :
    let r := rest.foldl (fun best x => if all.count x > all.count best then x else best) s
    all.count s ≤ all.count r ∧ (∀ x ∈ rest, all.count x ≤ all.count r) ∧ (r = s ∨ r ∈ rest) := by
  induction rest generalizing s with
  | nil => simp
  | cons x rest ih =>
    simp only [List.foldl_cons]
    by_cases hx : all.count x > all.count s
    · simp only [hx, if_true]
      obtain ⟨h1, h2, h3⟩ := ih x
      refine ⟨by omega, ?_, ?_⟩
      · intro y hy
        rcases List.mem_cons.1 hy with rfl | hy
        · exact h1
        · exact h2 y hy
      · rcases h3 with h3 | h3
        · exact Or.inr (by rw [h3]; simp)
        · exact Or.inr (List.mem_cons_of_mem _ h3)
    · simp only [hx, if_false]
      obtain ⟨h1, h2, h3⟩ := ih s
      refine ⟨h1, ?_, ?_⟩
      · intro y hy
        rcases List.mem_cons.1 hy with rfl | hy
        · omega
        · exact h2 y hy
      · rcases h3 with h3 | h3
        · exact Or.inl h3
        · exact Or.inr (List.mem_cons_of_mem _ h3)

/-- `max(strands, key=strands.count)` is a strand carried by a largest number of transcripts -/
theorem geneStrand_majority (g : Spec.Tbl.GeneIn) (s : Strand)
    (h : geneStrand (g.txs.map (·.strand)) = some s) : s ∈ g.majorityStrands := by
  unfold GeneIn.majorityStrands
  generalize g.txs.map (·.strand) = ss at h
  cases ss with
  | nil => simp [geneStrand] at h
  | cons a rest =>
    simp only [geneStrand, Option.some.injEq] at h
    obtain ⟨h1, h2, h3⟩ := argmax_fold (a :: rest) rest a
    simp only [h] at h1 h2 h3
    simp only [List.mem_filter, List.all_eq_true, decide_eq_true_eq]
    refine ⟨?_, ?_⟩
    · rcases h3 with h3 | h3
      · rw [h3]; simp
      · exact List.mem_cons_of_mem _ h3
    · intro y hy
      rcases List.mem_cons.1 hy with rfl | hy
      · exact h1
      · exact h2 y hy

end BioCantor.Proofs.Tbl
