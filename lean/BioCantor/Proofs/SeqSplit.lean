/-
  C03-T3 / T4: sub-intervals.  The sequence of `relative_interval_to_parent_location(l, s, e, +)` is the slice
  `[s:e]` of the sequence of `l` (non-self-overlapping layouts) — hence the split law and the consistency of
  sliced sequence objects.
-/
import BioCantor.Proofs.SeqSorted
set_option linter.unusedSimpArgs false
namespace BioCantor.Proofs.Sq
open BioCantor BioCantor.Spec BioCantor.Model BioCantor.Spec.Sq BioCantor.Model.Sq BioCantor.Proofs

theorem expectExtractLoc_eq (P alph : List Char) (loc : Loc) (hd : loc.strand ≠ .unstranded) :
    expectExtractLoc P alph loc = readAt P alph loc.strand (bases loc) := by
  unfold expectExtractLoc; simp [hd]

theorem readAt_append (P alph : List Char) (st : Strand) (B1 B2 : List Nat) :
    readAt P alph st (B1 ++ B2) = oapp (readAt P alph st B1) (readAt P alph st B2) := by
  unfold readAt
  rw [charsAt_append]
  cases h1 : charsAt P B1 with
  | none => cases h2 : charsAt P B2 <;> simp only [oapp] <;> split <;> rfl
  | some c1 =>
    cases h2 : charsAt P B2 with
    | none =>
      simp only [oapp]
      by_cases hm : st = .minus
      · simp only [hm, if_true]; cases compAll alph c1 <;> rfl
      · simp [hm, oapp]
    | some c2 =>
      simp only [oapp]
      by_cases hm : st = .minus
      · simp only [hm, if_true, compAll_eq, mapOpt_append]; rfl
      · simp [hm, oapp]

theorem readAt_length (P alph : List Char) (st : Strand) (B : List Nat) (d : List Char)
    (h : readAt P alph st B = some d) : d.length = B.length := by
  unfold readAt at h
  cases hc : charsAt P B with
  | none => simp [hc] at h
  | some cs =>
    have h1 := mapOpt_some_length _ _ _ hc
    simp only [hc] at h
    by_cases hm : st = .minus
    · simp only [hm, if_true, compAll_eq] at h
      rw [mapOpt_some_length _ _ _ h, h1]
    · simp only [hm, if_false, Option.some.injEq] at h
      rw [← h, h1]

/-- reading a sub-list of positions yields the corresponding sub-list of letters -/
theorem readAt_slice (P alph : List Char) (st : Strand) (B : List Nat) (d : List Char)
    (h : readAt P alph st B = some d) (s n : Nat) :
    readAt P alph st ((B.drop s).take n) = some ((d.drop s).take n) := by
  unfold readAt at h ⊢
  cases hc : charsAt P B with
  | none => simp [hc] at h
  | some cs =>
    simp only [hc] at h
    have hc' : charsAt P ((B.drop s).take n) = some ((cs.drop s).take n) := by
      unfold charsAt at hc ⊢
      exact mapOpt_take _ _ _ (mapOpt_drop _ _ _ hc s) n
    simp only [hc']
    by_cases hm : st = .minus
    · simp only [hm, if_true, compAll_eq] at h ⊢
      exact mapOpt_take _ _ _ (mapOpt_drop _ _ _ h s) n
    · simp only [hm, if_false, Option.some.injEq] at h ⊢
      rw [h]

/-! ### what `relInterval_ok` says about an in-range request on a non-self-overlapping layout -/

theorem compose_plus (s : Strand) : compose s .plus = s := by cases s <;> rfl

theorem relint_inv (l : Location) (loc : Loc) (hl : toLoc l = some loc) (rs re : Int) (ans : Option Location)
    (hok : okRelint l rs re .plus ans = true)
    (hd : loc.strand.isDirectional = true) (h0 : 0 ≤ rs) (h1 : rs ≤ re) (h2 : re ≤ loc.len) (hlen : 0 < loc.len)
    (hno : nonOverlap loc.blocks = true) :
    ∃ m, ans = some m ∧ locationStrand? m = some loc.strand ∧ wfLocation m = true ∧
      locationBases m = ((bases loc).drop rs.toNat).take (re - rs).toNat ∧
      (rs < re → normalBlocks (locationBlocks m) = true) := by
  have hdom : relintDomain l rs re = true := by
    simp [relintDomain, hl, hd, h0, h1, h2]
  unfold okRelint at hok
  simp only [hl, hdom, not_true, if_false] at hok
  have hl0 : ¬ loc.len = 0 := by omega
  simp only [hl0, false_and, if_false, compose_plus, hno, if_true] at hok
  cases ans with
  | none => simp at hok
  | some m =>
    simp only [Bool.and_eq_true, beq_iff_eq] at hok
    obtain ⟨⟨⟨hs, hwf⟩, hb⟩, hn⟩ := hok
    refine ⟨m, rfl, hs, hwf, ?_, ?_⟩
    · cases hst : loc.strand with
      | unstranded => rw [hst] at hd; simp [Strand.isDirectional] at hd
      | plus => simp only [hst, if_true] at hb; simpa using hb
      | minus => simp only [hst, if_true] at hb; simpa using hb
    · intro hlt
      simp only [hlt, and_true, if_true, Bool.and_eq_true] at hn
      exact hn.1

theorem WF_of_wfLocation (m : Location) (h : wfLocation m = true) : WF m := by
  cases m with
  | single b s => simpa [wfLocation, WF] using h
  | compound c => simpa [wfLocation, WF] using h
  | empty => trivial

/-- the reference sequence of a location is the reading of its bases on its strand -/
theorem expectExtract_read (P alph : List Char) (m : Location) (st : Strand) (hst : locationStrand? m = some st)
    (hd : st ≠ .unstranded) : expectExtract P alph m = readAt P alph st (locationBases m) := by
  cases m with
  | single b s =>
    simp only [locationStrand?, Option.some.injEq] at hst; subst hst
    simp only [expectExtract, locationBases]
    exact expectExtractLoc_eq P alph ⟨[b], s⟩ hd
  | compound c =>
    simp only [locationStrand?, Option.some.injEq] at hst; subst hst
    simp only [expectExtract, locationBases]
    exact expectExtractLoc_eq P alph c hd
  | empty => simp [locationStrand?] at hst

theorem Within_of_bases_subset (P : List Char) (m : Location) (hne : m ≠ .empty)
    (h : ∀ p ∈ locationBases m, p < P.length) : Within P m := by
  cases m with
  | single b s =>
    have : within P ⟨[b], s⟩ = true := by
      unfold within; rw [List.all_eq_true]; intro p hp; simpa using h p hp
    exact (within_of_Within P (.single b s) _ rfl).1 this
  | compound c =>
    have : within P c = true := by
      unfold within; rw [List.all_eq_true]; intro p hp; simpa using h p hp
    exact (within_of_Within P (.compound c) _ rfl).1 this
  | empty => exact absurd rfl hne

theorem toLoc_len (l : Location) (loc : Loc) (hl : toLoc l = some loc) : locLen l = loc.len := by
  cases l with
  | single b s => simp only [toLoc, Option.some.injEq] at hl; subst hl; simp [locLen, Loc.len, blocksLen]
  | compound c => simp only [toLoc, Option.some.injEq] at hl; subst hl; rfl
  | empty => simp [toLoc] at hl

theorem toLoc_bases (l : Location) (loc : Loc) (hl : toLoc l = some loc) : locationBases l = bases loc := by
  cases l with
  | single b s => simp only [toLoc, Option.some.injEq] at hl; subst hl; rfl
  | compound c => simp only [toLoc, Option.some.injEq] at hl; subst hl; rfl
  | empty => simp [toLoc] at hl

theorem toLoc_strand (l : Location) (loc : Loc) (hl : toLoc l = some loc) : locationStrand? l = some loc.strand := by
  cases l with
  | single b s => simp only [toLoc, Option.some.injEq] at hl; subst hl; rfl
  | compound c => simp only [toLoc, Option.some.injEq] at hl; subst hl; rfl
  | empty => simp [toLoc] at hl

theorem mkSingle_single (s e : Int) (st : Strand) (m : Location) (h : mkSingle s e st = .ok m) :
    ∃ b t, m = .single b t := by
  unfold mkSingle at h
  split at h
  · cases h; exact ⟨_, _, rfl⟩
  · cases h

/-- an empty request (`s = e`) is answered with a SingleInterval -/
theorem relInterval_empty_single (l : Location) (s : Int) (m : Location) (h : relInterval l s s .plus = .ok m) :
    ∃ b t, m = .single b t := by
  cases l with
  | empty => cases h
  | single b st =>
    simp only [relInterval, singleRelInterval] at h
    repeat' split at h
    all_goals first | cases h | exact mkSingle_single _ _ _ m h
  | compound c =>
    simp only [relInterval, compoundRelInterval] at h
    rw [if_neg (Int.lt_irrefl s)] at h
    split at h
    · cases h
    · split at h
      · cases h
      · rw [if_pos trivial] at h
        simp only [bind, Except.bind] at h
        split at h
        · cases h
        · exact mkSingle_single _ _ _ m h

/-- **sub-interval lemma**: on a directional, non-self-overlapping, non-empty location inside the parent, an
    in-range `relative_interval_to_parent_location(s, e, +)` answers a location on the same strand, again
    non-self-overlapping, whose sequence is the reading of the positions `(bases l)[s:e]` -/
theorem sub_extract_read (P alph : List Char) (hnt : isNt alph = true) (l : Location) (h : WF l) (loc : Loc)
    (hl : toLoc l = some loc) (hW : Within P l) (hd : loc.strand.isDirectional = true)
    (hno : nonOverlap loc.blocks = true) (hlen : 0 < loc.len) (s e : Nat) (hse : s ≤ e) (he : e ≤ loc.len) :
    ∃ m, relInterval l s e .plus = .ok m ∧ WF m ∧ Within P m ∧ locationStrand? m = some loc.strand ∧
      m ≠ .empty ∧ nonOverlap (locationBlocks m) = true ∧
      ((∀ b ∈ locationBlocks m, b.1 < b.2) ∨ ∃ b t, m = .single b t) ∧
      locationBases m = ((bases loc).drop s).take (e - s) ∧
      ans (extract P alph m) = readAt P alph loc.strand (((bases loc).drop s).take (e - s)) := by
  have hok := relInterval_ok l h s e .plus
  obtain ⟨m, hm, hs, hwf, hb, hnorm⟩ := relint_inv l loc hl s e _ hok hd (by omega) (by omega) (by omega) hlen hno
  have hne : loc.strand ≠ .unstranded := by
    intro hu; rw [hu] at hd; simp [Strand.isDirectional] at hd
  have hmne : m ≠ .empty := by intro he'; subst he'; simp [locationStrand?] at hs
  have hwithin : within P loc = true := (within_of_Within P l loc hl).2 hW
  have hW' : Within P m := by
    apply Within_of_bases_subset P m hmne
    intro p hp
    rw [hb] at hp
    have hp' : p ∈ bases loc := List.mem_of_mem_drop (List.mem_of_mem_take hp)
    unfold within at hwithin
    simpa using (List.all_eq_true.1 hwithin) p hp'
  have hWF : WF m := WF_of_wfLocation m hwf
  have hrel : relInterval l s e .plus = .ok m := (ans_eq_some _ _).1 hm
  have hb' : locationBases m = ((bases loc).drop s).take (e - s) := by simpa using hb
  have hv : ∀ b ∈ loc.blocks, b.1 ≤ b.2 := by
    cases l with
    | single b st =>
      simp only [toLoc, Option.some.injEq] at hl; subst hl
      intro x hx; simp at hx; subst hx; exact h
    | compound c =>
      simp only [toLoc, Option.some.injEq] at hl; subst hl
      exact (blocksValid_iff _).1 h.2.1
    | empty => simp [toLoc] at hl
  have hnoM : nonOverlap (locationBlocks m) = true := by
    apply nonOverlap_of_sub loc.blocks loc.strand hne hv hno m hs hwf s (e - s) hb'
    by_cases hlt : s < e
    · right; exact hnorm (by omega)
    · left
      have : e = s := by omega
      subst this
      exact relInterval_empty_single l _ m hrel
  have hshape : (∀ b ∈ locationBlocks m, b.1 < b.2) ∨ ∃ b t, m = .single b t := by
    by_cases hlt : s < e
    · left; exact normal_pos _ (hnorm (by omega))
    · right
      have : e = s := by omega
      subst this
      exact relInterval_empty_single l _ m hrel
  refine ⟨m, hrel, hWF, hW', hs, hmne, hnoM, hshape, hb', ?_⟩
  rw [extract_eq P alph hnt m hWF hW', expectExtract_read P alph m loc.strand hs hne, hb']

theorem expectExtract_readAt (P alph : List Char) (l : Location) (loc : Loc) (hl : toLoc l = some loc)
    (hd : loc.strand.isDirectional = true) :
    expectExtract P alph l = readAt P alph loc.strand (bases loc) := by
  have hne : loc.strand ≠ .unstranded := by
    intro hu; rw [hu] at hd; simp [Strand.isDirectional] at hd
  rw [expectExtract_read P alph l loc.strand (toLoc_strand l loc hl) hne, toLoc_bases l loc hl]

/-- … hence, when the location's own sequence is `d`, the slice `d[s:e]` -/
theorem sub_extract (P alph : List Char) (hnt : isNt alph = true) (l : Location) (h : WF l) (loc : Loc)
    (hl : toLoc l = some loc) (hW : Within P l) (hd : loc.strand.isDirectional = true)
    (hno : nonOverlap loc.blocks = true) (hlen : 0 < loc.len) (s e : Nat) (hse : s ≤ e) (he : e ≤ loc.len)
    (d : List Char) (hdta : expectExtract P alph l = some d) :
    ∃ m, relInterval l s e .plus = .ok m ∧ WF m ∧ Within P m ∧ locationStrand? m = some loc.strand ∧
      m ≠ .empty ∧ nonOverlap (locationBlocks m) = true ∧
      ((∀ b ∈ locationBlocks m, b.1 < b.2) ∨ ∃ b t, m = .single b t) ∧
      locationBases m = ((bases loc).drop s).take (e - s) ∧
      ans (extract P alph m) = some ((d.drop s).take (e - s)) := by
  obtain ⟨m, h1, h2, h3, h4, h5, h5a, h5c, h5b, h6⟩ :=
    sub_extract_read P alph hnt l h loc hl hW hd hno hlen s e hse he
  refine ⟨m, h1, h2, h3, h4, h5, h5a, h5c, h5b, ?_⟩
  rw [expectExtract_readAt P alph l loc hl hd] at hdta
  rw [h6]
  exact readAt_slice P alph loc.strand (bases loc) d hdta s (e - s)

end BioCantor.Proofs.Sq
