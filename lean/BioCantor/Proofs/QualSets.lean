/-
  C18 helper lemmas, part 5: the string order, Python sets as duplicate-free lists, `sorted(set)`,
  `extract_feature_types` and `merge_qualifiers`.
-/
import BioCantor.Proofs.QualPerm
namespace BioCantor.Proofs.Qual
open BioCantor BioCantor.Spec.Qual BioCantor.Model.Qual

/-! ### code-point order on strings -/

theorem strLt_irrefl : ∀ (a : Str), strLt a a = false
  | [] => rfl
  | c :: cs => by simp [strLt, strLt_irrefl cs]

theorem strLt_trans : ∀ {a b c : Str}, strLt a b = true → strLt b c = true → strLt a c = true
  | [], [], _, h, _ => by simp [strLt] at h
  | [], _ :: _, [], _, h => by simp [strLt] at h
  | [], _ :: _, _ :: _, _, _ => rfl
  | _ :: _, [], _, h, _ => by simp [strLt] at h
  | _ :: _, _ :: _, [], _, h => by simp [strLt] at h
  | x :: xs, y :: ys, z :: zs, h1, h2 => by
    simp only [strLt, Bool.or_eq_true, decide_eq_true_eq, Bool.and_eq_true, beq_iff_eq] at h1 h2 ⊢
    rcases h1 with h1 | ⟨e1, h1⟩ <;> rcases h2 with h2 | ⟨e2, h2⟩
    · left; omega
    · subst e2; left; exact h1
    · subst e1; left; exact h2
    · subst e1; subst e2; right; exact ⟨rfl, strLt_trans h1 h2⟩

theorem strLt_total : ∀ {a b : Str}, a ≠ b → strLt a b = true ∨ strLt b a = true
  | [], [], h => absurd rfl h
  | [], _ :: _, _ => Or.inl rfl
  | _ :: _, [], _ => Or.inr rfl
  | x :: xs, y :: ys, h => by
    simp only [strLt, Bool.or_eq_true, decide_eq_true_eq, Bool.and_eq_true, beq_iff_eq]
    by_cases hxy : x = y
    · subst hxy
      have : xs ≠ ys := fun h' => h (by rw [h'])
      rcases strLt_total this with h' | h'
      · left; right; exact ⟨rfl, h'⟩
      · right; right; exact ⟨rfl, h'⟩
    · have : x.toNat ≠ y.toNat := fun h' => hxy (Char.toNat_inj.mp h')
      rcases Nat.lt_or_gt_of_ne this with h' | h'
      · left; left; exact h'
      · right; left; exact h'

theorem strLt_asymm {a b : Str} (h1 : strLt a b = true) (h2 : strLt b a = true) : False := by
  have := strLt_trans h1 h2
  rw [strLt_irrefl] at this; cases this

theorem strLe_iff {a b : Str} : strLe a b = true ↔ a = b ∨ strLt a b = true := by
  simp [strLe]

theorem strLe_trans (a b c : Str) : strLe a b = true → strLe b c = true → strLe a c = true := by
  simp only [strLe_iff]
  rintro (rfl | h1) (rfl | h2)
  · left; rfl
  · right; exact h2
  · right; exact h1
  · right; exact strLt_trans h1 h2

theorem strLe_total (a b : Str) : (strLe a b || strLe b a) = true := by
  simp only [Bool.or_eq_true, strLe_iff]
  by_cases h : a = b
  · left; left; exact h
  · rcases strLt_total h with h' | h'
    · left; right; exact h'
    · right; right; exact h'

theorem strLe_antisymm {a b : Str} (h1 : strLe a b = true) (h2 : strLe b a = true) : a = b := by
  rw [strLe_iff] at h1 h2
  rcases h1 with h1 | h1
  · exact h1
  · rcases h2 with h2 | h2
    · exact h2.symm
    · exact (strLt_asymm h1 h2).elim

/-! ### sorted lists -/

theorem sortedStrict_of_pairwise : ∀ {l : List Str}, l.Pairwise (fun a b => strLt a b = true) → sortedStrict l = true
  | [], _ => rfl
  | [_], _ => rfl
  | a :: b :: rest, h => by
    simp only [sortedStrict, Bool.and_eq_true]
    rw [List.pairwise_cons] at h
    exact ⟨h.1 b List.mem_cons_self, sortedStrict_of_pairwise h.2⟩

theorem pairwise_of_sortedStrict : ∀ {l : List Str}, sortedStrict l = true → l.Pairwise (fun a b => strLt a b = true)
  | [], _ => List.Pairwise.nil
  | [_], _ => by simp
  | a :: b :: rest, h => by
    simp only [sortedStrict, Bool.and_eq_true] at h
    have ih := pairwise_of_sortedStrict h.2
    rw [List.pairwise_cons]
    refine ⟨fun c hc => ?_, ih⟩
    rcases List.mem_cons.mp hc with rfl | hc
    · exact h.1
    · exact strLt_trans h.1 ((List.pairwise_cons.mp ih).1 c hc)

/-- `sorted(set)`: strictly increasing -/
theorem sortStrs_strict {l : List Str} (hn : l.Nodup) :
    (sortStrs l).Pairwise (fun a b => strLt a b = true) := by
  have hp := List.pairwise_mergeSort (le := strLe) strLe_trans strLe_total l
  have hnd : (sortStrs l).Nodup := (List.mergeSort_perm l strLe).symm.nodup hn
  unfold sortStrs
  unfold List.Nodup at hnd
  have := hp.and hnd
  refine this.imp ?_
  intro a b ⟨h1, h2⟩
  rcases strLe_iff.mp h1 with h | h
  · exact absurd h h2
  · exact h

theorem mem_sortStrs {l : List Str} {x : Str} : x ∈ sortStrs l ↔ x ∈ l := List.mem_mergeSort

/-- a strictly sorted list is determined by its members -/
theorem strict_ext {l₁ l₂ : List Str} (h1 : l₁.Pairwise (fun a b => strLt a b = true))
    (h2 : l₂.Pairwise (fun a b => strLt a b = true)) (hm : ∀ x, x ∈ l₁ ↔ x ∈ l₂) : l₁ = l₂ := by
  have nd1 : l₁.Nodup := h1.imp (fun h e => by rw [e, strLt_irrefl] at h; cases h)
  have nd2 : l₂.Nodup := h2.imp (fun h e => by rw [e, strLt_irrefl] at h; cases h)
  have hp := (List.perm_ext_iff_of_nodup nd1 nd2).mpr hm
  refine List.Perm.eq_of_pairwise (le := fun a b => strLt a b = true) ?_ h1 h2 hp
  intro a b _ _ hab hba
  exact (strLt_asymm hab hba).elim

theorem sameSet_iff {a b : List Str} : sameSet a b = true ↔ ∀ x, x ∈ a ↔ x ∈ b := by
  simp only [sameSet, Bool.and_eq_true, List.all_eq_true, List.contains_iff_mem]
  exact ⟨fun h x => ⟨h.1 x, h.2 x⟩, fun h => ⟨fun x => (h x).mp, fun x => (h x).mpr⟩⟩

/-! ### `set.update` -/

theorem setUpdate_mem : ∀ (vs a : List Str) (x : Str), x ∈ setUpdate a vs ↔ x ∈ a ∨ x ∈ vs
  | [], a, x => by simp [setUpdate]
  | v :: vs, a, x => by
    unfold setUpdate
    rw [List.foldl_cons]
    have ih := setUpdate_mem vs (if a.contains v then a else a ++ [v]) x
    unfold setUpdate at ih
    rw [ih]
    by_cases hc : a.contains v = true
    · simp only [hc, if_true, List.mem_cons]
      have hv : v ∈ a := List.contains_iff_mem.mp hc
      constructor
      · rintro (h | h)
        · exact Or.inl h
        · exact Or.inr (Or.inr h)
      · rintro (h | h | h)
        · exact Or.inl h
        · left; rw [h]; exact hv
        · exact Or.inr h
    · simp only [hc, Bool.false_eq_true, if_false, List.mem_append, List.mem_cons, List.not_mem_nil, or_false]
      constructor
      · rintro ((h | h) | h)
        · exact Or.inl h
        · exact Or.inr (Or.inl h)
        · exact Or.inr (Or.inr h)
      · rintro (h | h | h)
        · exact Or.inl (Or.inl h)
        · exact Or.inl (Or.inr h)
        · exact Or.inr h

theorem setUpdate_nodup : ∀ (vs a : List Str), a.Nodup → (setUpdate a vs).Nodup
  | [], a, h => by simpa [setUpdate] using h
  | v :: vs, a, h => by
    unfold setUpdate
    rw [List.foldl_cons]
    have ih := setUpdate_nodup vs (if a.contains v then a else a ++ [v])
    unfold setUpdate at ih
    apply ih
    by_cases hc : a.contains v = true
    · rw [if_pos hc]; exact h
    · rw [if_neg hc]
      have hv : v ∉ a := fun hm => hc (List.contains_iff_mem.mpr hm)
      rw [List.nodup_append]
      refine ⟨h, by simp, ?_⟩
      intro x hx y hy
      rw [List.mem_singleton.mp hy]
      intro e; exact hv (e ▸ hx)

/-! ### extract_feature_types -/

theorem isInfix_eq (p : Str) : ∀ (s : Str), isInfix p s = hasSub p s
  | [] => rfl
  | c :: cs => by simp only [isInfix, hasSub, isInfix_eq p cs]

/-- the three documented type-like substrings of `Spec.Qual.typeLike` -/
def specTypePatterns : List Str :=
  [['_', 'c', 'l', 'a', 's', 's'], ['g', 'b', 'k', 'e', 'y'], ['_', 't', 'y', 'p', 'e']]

/-- TIE: the generated FEATURE_TYPE_IDENTIFIERS is the documented set -/
theorem typeIds_tie : sameSet Gen.features_FEATURE_TYPE_IDENTIFIERS specTypePatterns = true := by decide +kernel

theorem typeLike_eq_any (k : Str) : typeLike k = specTypePatterns.any fun p => hasSub p (Spec.Qual.lowerStr k) := by
  simp [typeLike, specTypePatterns, Bool.or_assoc]

theorem typeRegex_eq (k : Str) : typeRegexSearch k = typeLike k := by
  rw [typeLike_eq_any]
  unfold typeRegexSearch typeIdentifiers
  have ht := sameSet_iff.mp typeIds_tie
  rw [Bool.eq_iff_iff, List.any_eq_true, List.any_eq_true]
  simp only [isInfix_eq, lowerStr_eq]
  constructor
  · rintro ⟨p, hp, h⟩; exact ⟨p, (ht p).mp hp, h⟩
  · rintro ⟨p, hp, h⟩; exact ⟨p, (ht p).mpr hp, h⟩

theorem typesFold_mem : ∀ (qs : QDict) (acc : List Str) (x : Str),
    x ∈ qs.foldl (fun acc e => if typeRegexSearch e.1 then setUpdate acc e.2 else acc) acc ↔
      x ∈ acc ∨ ∃ e ∈ qs, typeLike e.1 = true ∧ x ∈ e.2
  | [], acc, x => by simp
  | e :: es, acc, x => by
    rw [List.foldl_cons, typesFold_mem es]
    by_cases ht : typeRegexSearch e.1 = true
    · have ht' : typeLike e.1 = true := by rw [← typeRegex_eq]; exact ht
      simp only [ht, if_true, setUpdate_mem, List.mem_cons, exists_eq_or_imp, ht', true_and]
      constructor
      · rintro ((h | h) | h)
        · exact Or.inl h
        · exact Or.inr (Or.inl h)
        · exact Or.inr (Or.inr h)
      · rintro (h | h | h)
        · exact Or.inl (Or.inl h)
        · exact Or.inl (Or.inr h)
        · exact Or.inr h
    · have ht' : typeLike e.1 = false := by
        rw [← typeRegex_eq]; simpa using ht
      simp only [ht, Bool.false_eq_true, if_false, List.mem_cons, exists_eq_or_imp, ht', false_and, false_or]

theorem typesFold_nodup : ∀ (qs : QDict) (acc : List Str), acc.Nodup →
    (qs.foldl (fun acc e => if typeRegexSearch e.1 then setUpdate acc e.2 else acc) acc).Nodup
  | [], _, h => h
  | e :: es, acc, h => by
    rw [List.foldl_cons]
    apply typesFold_nodup es
    by_cases ht : typeRegexSearch e.1 = true
    · simp only [ht, if_true]; exact setUpdate_nodup _ _ h
    · simpa [ht] using h

theorem extractTypes_mem (init : List Str) (qs : QDict) (x : Str) :
    x ∈ extractTypes init qs ↔ x ∈ init ∨ ∃ e ∈ qs, typeLike e.1 = true ∧ x ∈ e.2 := by
  unfold extractTypes
  rw [typesFold_mem, setUpdate_mem]
  simp

theorem extractTypes_nodup (init : List Str) (qs : QDict) : (extractTypes init qs).Nodup := by
  unfold extractTypes
  exact typesFold_nodup qs _ (setUpdate_nodup _ _ List.nodup_nil)

theorem expectedTypes_mem (init : List Str) (qs : QDict) (x : Str) :
    x ∈ expectedTypes init qs ↔ x ∈ init ∨ ∃ e ∈ qs, typeLike e.1 = true ∧ x ∈ e.2 := by
  simp only [expectedTypes, List.mem_append, List.mem_flatMap, List.mem_filter]
  constructor
  · rintro (h | ⟨e, ⟨he, ht⟩, hx⟩)
    · exact Or.inl h
    · exact Or.inr ⟨e, he, ht, hx⟩
  · rintro (h | ⟨e, he, ht, hx⟩)
    · exact Or.inl h
    · exact Or.inr ⟨e, ⟨he, ht⟩, hx⟩

end BioCantor.Proofs.Qual
