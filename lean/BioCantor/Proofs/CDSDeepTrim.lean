/-
  The other half of C05-T1: when the reference walk needs a DEEP trim (`shallowTrim = false`: a re-synchronisation
  finds the incomplete codon spread over more than the last cleaned block) the modelled code, like the pinned
  library, refuses the CDS — the trimmed block gets `end < start` and `relative_interval_to_parent_location`
  raises InvalidPositionException (finding F-C05b).
-/
import BioCantor.Proofs.CDSCodons
namespace BioCantor.Proofs
open BioCantor BioCantor.Model BioCantor.Spec

/-- some cleaned entry has `end < start` -/
def HasNeg (cl : List (Int × Int)) : Prop := ∃ p ∈ cl, p.2 < p.1

theorem trim_hasNeg (shift : Int) (hs : 0 ≤ shift) (cl : List (Int × Int)) (h : HasNeg cl) :
    HasNeg (trimLastEnd shift cl) := by
  obtain ⟨p, hp, hneg⟩ := h
  cases cl with
  | nil => simp at hp
  | cons q rest =>
    rcases List.mem_cons.mp hp with rfl | hp
    · exact ⟨(p.1, p.2 - shift), by simp [trimLastEnd], by simp only; omega⟩
    · exact ⟨p, by simp [trimLastEnd, hp], hneg⟩

/-- the cleaned list after one iteration: the (possibly trimmed) old list, possibly with one new entry on top -/
theorem cleanStep_cases (st st' : CleanSt) (rel : Int × Int) (fr : CDSFrame)
    (h : cleanStep st rel fr = .ok st') :
    st'.cleanedRev = (if st.nextFrame ≠ fr ∧ cleanedSum st.cleanedRev % 3 > 0 then
        trimLastEnd (cleanedSum st.cleanedRev % 3) st.cleanedRev else st.cleanedRev) ∨
    ∃ s, st'.cleanedRev = (s, rel.2) :: (if st.nextFrame ≠ fr ∧ cleanedSum st.cleanedRev % 3 > 0 then
        trimLastEnd (cleanedSum st.cleanedRev % 3) st.cleanedRev else st.cleanedRev) := by
  unfold cleanStep at h
  simp only at h
  generalize (if st.nextFrame ≠ fr ∧ cleanedSum st.cleanedRev % 3 > 0 then
      trimLastEnd (cleanedSum st.cleanedRev % 3) st.cleanedRev else st.cleanedRev) = cl at h ⊢
  generalize (if st.nextFrame ≠ fr then rel.1 + fr.value else rel.1) = relStart at h
  generalize (if st.nextFrame ≠ fr then CDSFrame.ZERO else st.nextFrame) = nf at h
  split at h
  · simp only [pure, Except.pure, Except.ok.injEq] at h; subst h; exact Or.inl rfl
  · cases hsf : frameShift nf (rel.2 - relStart) with
    | error e => rw [hsf] at h; simp [bind, Except.bind] at h
    | ok g =>
      rw [hsf] at h
      simp only [bind, Except.bind, pure, Except.pure, Except.ok.injEq] at h
      subst h
      exact Or.inr ⟨relStart, rfl⟩

theorem cleanStep_hasNeg (st st' : CleanSt) (rel : Int × Int) (fr : CDSFrame)
    (h : cleanStep st rel fr = .ok st') (hn : HasNeg st.cleanedRev) : HasNeg st'.cleanedRev := by
  have hinv : HasNeg (if st.nextFrame ≠ fr ∧ cleanedSum st.cleanedRev % 3 > 0 then
      trimLastEnd (cleanedSum st.cleanedRev % 3) st.cleanedRev else st.cleanedRev) := by
    split
    · exact trim_hasNeg _ (by omega) _ hn
    · exact hn
  rcases cleanStep_cases st st' rel fr h with h1 | ⟨s, h1⟩
  · rw [h1]; exact hinv
  · rw [h1]
    obtain ⟨p, hp, hneg⟩ := hinv
    exact ⟨p, by simp [hp], hneg⟩

theorem cleanLoop_hasNeg : ∀ (inp : List ((Int × Int) × CDSFrame)) (st st' : CleanSt),
    cleanLoop st inp = .ok st' → HasNeg st.cleanedRev → HasNeg st'.cleanedRev
  | [], st, st', h, hn => by
    simp only [cleanLoop, pure, Except.pure, Except.ok.injEq] at h; subst h; exact hn
  | (rel, fr) :: rest, st, st', h, hn => by
    simp only [cleanLoop, bind, Except.bind] at h
    cases hs : cleanStep st rel fr with
    | error e => rw [hs] at h; simp at h
    | ok st1 =>
      rw [hs] at h
      exact cleanLoop_hasNeg rest st1 st' h (cleanStep_hasNeg st st1 rel fr hs hn)

/-- the step at which the walk needs a deep trim leaves an entry with `end < start` -/
theorem cleanStep_deep (st : CleanSt) (segs : List (List Nat)) (h : Corr st segs) (off n : Nat) (fr : CDSFrame)
    (hfr : fr ≠ .NONE) (hne : fr.value.toNat ≠ segsLen segs % 3)
    (hdeep : trimLast (segsLen segs % 3) segs = none) (st' : CleanSt)
    (hs : cleanStep st ((off : Int), ((off + n : Nat) : Int)) fr = .ok st') : HasNeg st'.cleanedRev := by
  obtain ⟨hnn, hnf, hv, hseg⟩ := h
  have hfv := frame_value_range fr hfr
  have hsum := cleanedSum_eq st.cleanedRev hv
  rw [hseg] at hsum
  cases hsegs : segs with
  | nil => rw [hsegs] at hdeep; simp [trimLast, segsLen] at hdeep
  | cons seg rest =>
    rw [hsegs] at hdeep hsum hnf hseg hne
    simp only [trimLast] at hdeep
    have hr : ¬ (segsLen (seg :: rest) % 3 ≤ seg.length) := by
      intro hle; simp [hle] at hdeep
    cases hc : st.cleanedRev with
    | nil => rw [hc] at hseg; simp at hseg
    | cons p cl =>
      rw [hc] at hseg hv
      simp only [List.map_cons, List.cons.injEq] at hseg
      have hpv := hv p (by simp)
      unfold validEntry at hpv
      have hseglen : seg.length = (p.2 - p.1).toNat := by rw [← hseg.1, rangeOf_length]
      have hresync : st.nextFrame ≠ fr := by
        intro he; apply hne; rw [← he, hnf]; omega
      have hshift : cleanedSum st.cleanedRev % 3 = ((segsLen (seg :: rest) % 3 : Nat) : Int) := by
        rw [hsum]; omega
      -- the state before the optional append already has a negative head
      have hneg : HasNeg (if st.nextFrame ≠ fr ∧ cleanedSum st.cleanedRev % 3 > 0 then
          trimLastEnd (cleanedSum st.cleanedRev % 3) st.cleanedRev else st.cleanedRev) := by
        have hpos : cleanedSum st.cleanedRev % 3 > 0 := by rw [hshift]; omega
        rw [if_pos ⟨hresync, hpos⟩, hc]
        refine ⟨(p.1, p.2 - cleanedSum (p :: cl) % 3), by simp [trimLastEnd], ?_⟩
        rw [← hc, hshift]; simp only; omega
      rcases cleanStep_cases st st' _ fr hs with h1 | ⟨s, h1⟩
      · rw [h1]; exact hneg
      · rw [h1]
        obtain ⟨q, hq, hqn⟩ := hneg
        exact ⟨q, by simp [hq], hqn⟩

/-- if the reference walk needs a deep trim, every successful run of the loop ends with a negative entry -/
theorem cleanLoop_deep : ∀ (ex : List (Nat × CDSFrame)) (off : Nat) (st : CleanSt) (segs : List (List Nat)),
    Corr st segs → (∀ e ∈ ex, e.2 ≠ .NONE) → refSegsAux (relWalkExons off ex) segs = none →
    ∀ st', cleanLoop st (relInput off ex) = .ok st' → HasNeg st'.cleanedRev
  | [], _, _, _, _, _, hw, _, _ => by simp [relWalkExons, refSegsAux] at hw
  | (n, fr) :: rest, off, st, segs, h, hfr, hw, st', hrun => by
    have hfr0 : fr ≠ .NONE := hfr (n, fr) (by simp)
    have hrest : ∀ e ∈ rest, e.2 ≠ .NONE := fun e he => hfr e (by simp [he])
    simp only [relWalkExons, refSegsAux] at hw
    simp only [relInput, cleanLoop, bind, Except.bind] at hrun
    cases hs : cleanStep st ((off : Int), ((off + n : Nat) : Int)) fr with
    | error e => rw [hs] at hrun; simp at hrun
    | ok st1 =>
      rw [hs] at hrun
      simp only at hrun
      by_cases hsame : fr.value.toNat = segsLen segs % 3
      · simp only [hsame, if_true] at hw
        obtain ⟨st1', h1, hc1⟩ := cleanStep_corr st segs h off n fr hfr0
          (pushSeg (List.range' off n) segs) (by rw [if_pos hsame])
        rw [hs] at h1; simp only [Except.ok.injEq] at h1; subst h1
        exact cleanLoop_deep rest (off + n) st1 _ hc1 hrest hw st' hrun
      · simp only [hsame, if_false] at hw
        cases ht : trimLast (segsLen segs % 3) segs with
        | none => exact cleanLoop_hasNeg _ st1 st' hrun (cleanStep_deep st segs h off n fr hfr0 hsame ht st1 hs)
        | some s' =>
          rw [ht] at hw
          simp only at hw
          obtain ⟨st1', h1, hc1⟩ := cleanStep_corr st segs h off n fr hfr0
            (pushSeg ((List.range' off n).drop fr.value.toNat) s') (by rw [if_neg hsame, ht]; rfl)
          rw [hs] at h1; simp only [Except.ok.injEq] at h1; subst h1
          exact cleanLoop_deep rest (off + n) st1 _ hc1 hrest hw st' hrun

theorem mapM_error_of_mem {α β} (f : α → R β) : ∀ (l : List α), (∃ a ∈ l, ∃ e, f a = .error e) →
    ∃ e, l.mapM f = .error e
  | [], h => by obtain ⟨a, ha, _⟩ := h; simp at ha
  | a :: l, h => by
    simp only [List.mapM_cons, bind, Except.bind]
    cases hfa : f a with
    | error e => exact ⟨e, rfl⟩
    | ok b =>
      obtain ⟨x, hx, e, hxe⟩ := h
      rcases List.mem_cons.mp hx with rfl | hx
      · rw [hfa] at hxe; simp at hxe
      · obtain ⟨e', he'⟩ := mapM_error_of_mem f l ⟨x, hx, e, hxe⟩
        simp only [he']
        exact ⟨e', rfl⟩

theorem cleanedLocation_neg (loc : Loc) (stt : CleanSt) (h : HasNeg stt.cleanedRev) :
    ans (cleanedLocation loc stt) = none := by
  obtain ⟨p, hp, hneg⟩ := h
  unfold cleanedLocation
  have hmem : p ∈ stt.cleanedRev.reverse.filter (fun q => q.2 ≠ q.1) := by
    simp only [List.mem_filter, List.mem_reverse, hp, true_and, decide_eq_true_eq]; omega
  have herr : ∃ e, compoundRelInterval loc p.1 p.2 .plus = .error e := by
    unfold compoundRelInterval
    rw [if_pos (by omega)]
    exact ⟨_, rfl⟩
  obtain ⟨e, he⟩ := mapM_error_of_mem (fun q => compoundRelInterval loc q.1 q.2 .plus) _ ⟨p, hmem, herr⟩
  simp only [he, bind, Except.bind, ans_error]

/-- **C05-T1, refusal half**: a multi-exon CDS whose reference walk needs a deep trim is refused. -/
theorem deepTrim_refused (c : CDS) (h : WFCDS c) (hmulti : c.loc.blocks.length > 1)
    (hdeep : shallowTrim (exonWalk c.loc (specFrames c)) = false) :
    ans (codonLocations c) = none := by
  rcases hc : c.loc with ⟨bs, st⟩
  have hdir : st = .plus ∨ st = .minus := by have := h.dir; rw [hc] at this; exact this
  have hv : blocksValid bs = true := by have := h.valid; rw [hc] at this; exact this
  have hno : nonOverlap bs = true := by have := h.nonOverlap; rw [hc] at this; exact this
  have hpos : ∀ b ∈ bs, b.1 < b.2 := by have := h.positive; rw [hc] at this; exact this
  have hlen : c.frames.length = bs.length := by have := h.frames_len; rw [hc] at this; exact this
  have hvb := (blocksValid_iff bs).1 hv
  have hsu : st ≠ .unstranded := by rcases hdir with h | h <;> simp [h]
  rw [hc] at hdeep hmulti
  have hex : c.exonIter = scanOrder st bs := by
    unfold CDS.exonIter scanOrder; rw [hc]
    rcases hdir with hd | hd <;> simp [hd]
  have hfr : c.frameIter = (if st = .minus then c.frames.reverse else c.frames) := by
    unfold CDS.frameIter CDS.strand; rw [hc]
  have hpw0 := nonOverlap_pairwise bs hvb hno
  have hord := scanOrder_before bs st hdir hpw0
  have hpw : (scanOrder st bs).Pairwise (fun a b => a.2 ≤ b.1 ∨ b.2 ≤ a.1) := by
    refine hord.imp ?_
    intro a b hab; unfold Before at hab; split at hab
    · exact Or.inl hab
    · exact Or.inr hab
  have hpos' : ∀ e ∈ scanOrder st bs, e.1 < e.2 := by
    intro e he; unfold scanOrder at he; split at he
    · exact hpos e he
    · exact hpos e (List.mem_reverse.mp he)
  generalize hfs5 : (if st = .minus then c.frames.reverse else c.frames) = fs5 at hfr
  have hloop := cleanExons_eq_cleanLoop bs st hdir hv hpw hpos' (scanOrder st bs) [] fs5 CleanSt.init (by simp)
  simp only [blocksLen] at hloop
  generalize hexd : ((scanOrder st bs).map Blk.len).zip fs5 = ex at hloop
  have hfr' : ∀ e ∈ ex, e.2 ≠ .NONE := by
    intro e he; rw [← hexd] at he
    have h2 : e.2 ∈ fs5 := (List.of_mem_zip he).2
    rw [← hfs5] at h2
    split at h2
    · exact h.frames_real _ (List.mem_reverse.mp h2)
    · exact h.frames_real _ h2
  -- the reference walk on relative indices needs the deep trim as well
  have hbases : bases ⟨bs, st⟩ = readScan st (scanOrder st bs) := by
    rw [bases_eq_readScan bs st hsu]; rfl
  have hwalk : exonWalk ⟨bs, st⟩ (specFrames c) = (relWalkExons 0 ex).map (mapExon (getAt (bases ⟨bs, st⟩))) := by
    unfold specFrames
    rw [exonWalk_scanOrder bs st hdir c.frames hlen, hfs5, hbases]
    have := relWalk_positions st (scanOrder st bs) fs5 []
    simp only [blocksLen, List.nil_append, hexd] at this
    exact this.symm
  rw [hwalk, shallowTrim_map] at hdeep
  have hnone : refSegsAux (relWalkExons 0 ex) [] = none := by
    unfold shallowTrim at hdeep
    cases hr : refSegsAux (relWalkExons 0 ex) [] with
    | none => rfl
    | some s => rw [hr] at hdeep; simp at hdeep
  -- the model
  unfold codonLocations scanCodonLocations prepare CDS.numBlocks
  rw [hc, if_pos hmulti]
  unfold prepareMulti
  have hlens : ¬ (c.exonIter.length ≠ c.frameIter.length) := by
    rw [hex, hfr, ← hfs5]; unfold scanOrder
    split <;> split <;> simp [hlen]
  rw [if_neg hlens]
  simp only [bind, Except.bind]
  rw [hex, hfr, hc, hloop]
  cases hrun : cleanLoop CleanSt.init (relInput 0 ex) with
  | error e => simp
  | ok stt =>
    have hn := cleanLoop_deep ex 0 CleanSt.init [] corr_init hfr' hnone stt hrun
    have := cleanedLocation_neg ⟨bs, st⟩ stt hn
    simp only
    cases hcl : cleanedLocation ⟨bs, st⟩ stt with
    | error e => simp
    | ok l => rw [hcl] at this; simp at this

end BioCantor.Proofs
