/-
  C05-T2: the codon locations returned for a whole CDS (`chromosome_codon_locations`,
  `chunk_relative_codon_locations`, `scan_codon_locations()`, `num_codons`) are, in order, well-formed Location
  objects on the CDS strand denoting the consecutive triples of `Spec.cdsKept`.
-/
import BioCantor.Proofs.CDSCleaned
namespace BioCantor.Proofs
open BioCantor BioCantor.Model BioCantor.Spec

/-- What `CDSInterval.__init__` establishes plus the scope of C05: directional strand, exons of positive length
    that do not overlap, one real frame (0/1/2) per exon. -/
structure WFCDS (c : CDS) : Prop where
  dir : c.loc.strand = .plus ∨ c.loc.strand = .minus
  valid : blocksValid c.loc.blocks = true
  nonOverlap : nonOverlap c.loc.blocks = true
  positive : ∀ b ∈ c.loc.blocks, b.1 < b.2
  frames_len : c.frames.length = c.loc.blocks.length
  frames_real : ∀ f ∈ c.frames, f ≠ .NONE

/-- the frame values of the model object, as the spec reads them -/
def specFrames (c : CDS) : List Nat := c.frames.map (fun f => f.value.toNat)

/-- the spec's view of the model object -/
def specOf (c : CDS) : CDSIn := ⟨c.loc, specFrames c, c.seq⟩

theorem pairwise_nonOverlap : ∀ (L : List Blk), L.Pairwise (fun a b => a.2 ≤ b.1) → nonOverlap L = true
  | [], _ => rfl
  | [_], _ => rfl
  | a :: b :: r, h => by
    simp only [nonOverlap, Bool.and_eq_true, decide_eq_true_eq]
    exact ⟨(List.pairwise_cons.mp h).1 b (by simp), pairwise_nonOverlap (b :: r) (List.pairwise_cons.mp h).2⟩

theorem scanOrder_before (bs : List Blk) (st : Strand) (hst : st = .plus ∨ st = .minus)
    (hp : bs.Pairwise (fun a b => a.2 ≤ b.1)) : (scanOrder st bs).Pairwise (Before st) := by
  rcases hst with h | h
  · subst h
    simp only [scanOrder, if_true]
    exact hp.imp (fun h => by simpa [Before] using h)
  · subst h
    simp only [scanOrder, show (Strand.minus = Strand.plus) = False by simp, if_false, List.pairwise_reverse]
    exact hp.imp (fun h => by simpa [Before] using h)

/-- multi-exon path: the cleaned location (before any window is applied) -/
theorem prepareMulti_cleaned (c : CDS) (h : WFCDS c)
    (hshallow : shallowTrim (exonWalk c.loc (specFrames c)) = true)
    (hkept : cdsKept c.loc (specFrames c) ≠ []) :
    ∃ stt L, c.exonIter.length = c.frameIter.length ∧
      cleanExons c.loc CleanSt.init (c.exonIter.zip c.frameIter) = .ok stt ∧
      cleanedLocation c.loc stt = .ok ⟨L, c.loc.strand⟩ ∧ L ≠ [] ∧ (∀ b ∈ L, b.1 < b.2) ∧
      L.Pairwise (fun a b => a.2 ≤ b.1) ∧ bases ⟨L, c.loc.strand⟩ = cdsKept c.loc (specFrames c) := by
  rcases hc : c.loc with ⟨bs, st⟩
  have hdir : st = .plus ∨ st = .minus := by have := h.dir; rw [hc] at this; exact this
  have hv : blocksValid bs = true := by have := h.valid; rw [hc] at this; exact this
  have hno : nonOverlap bs = true := by have := h.nonOverlap; rw [hc] at this; exact this
  have hpos : ∀ b ∈ bs, b.1 < b.2 := by have := h.positive; rw [hc] at this; exact this
  have hlen : c.frames.length = bs.length := by have := h.frames_len; rw [hc] at this; exact this
  have hvb := (blocksValid_iff bs).1 hv
  rw [hc] at hshallow hkept
  have hex : c.exonIter = scanOrder st bs := by
    unfold CDS.exonIter scanOrder; rw [hc]
    rcases hdir with hd | hd <;> simp [hd]
  have hfr : c.frameIter = (if st = .minus then c.frames.reverse else c.frames) := by
    unfold CDS.frameIter CDS.strand; rw [hc]
  obtain ⟨stt, h1, _, hvalid, hflat⟩ :=
    cleanExons_cdsKept bs st c.frames hdir hv hno hpos hlen h.frames_real hshallow
  -- the same run, as the loop over relative intervals
  have hpw0 := nonOverlap_pairwise bs hvb hno
  have hord := scanOrder_before bs st hdir hpw0
  have hpw : (scanOrder st bs).Pairwise (fun a b => a.2 ≤ b.1 ∨ b.2 ≤ a.1) := by
    refine hord.imp ?_
    intro a b hab; unfold Before at hab; split at hab
    · exact Or.inl hab
    · exact Or.inr hab
  have hpos' : ∀ e ∈ scanOrder st bs, e.1 < e.2 := by
    intro e he; unfold scanOrder at he; split at he
    · exact hpos e he
    · exact hpos e (List.mem_reverse.mp he)
  generalize hfs5 : (if st = .minus then c.frames.reverse else c.frames) = fs5 at h1 hfr
  have hloop := cleanExons_eq_cleanLoop bs st hdir hv hpw hpos' (scanOrder st bs) [] fs5 CleanSt.init (by simp)
  simp only [blocksLen] at hloop
  rw [hloop] at h1
  have hfr0 : ∀ e ∈ ((scanOrder st bs).map Blk.len).zip fs5, 0 ≤ e.2.value := by
    intro e he
    have h2 : e.2 ∈ fs5 := (List.of_mem_zip he).2
    have h3 : e.2 ∈ c.frames := by
      rw [← hfs5] at h2; split at h2
      · exact List.mem_reverse.mp h2
      · exact h2
    exact (frame_value_range e.2 (h.frames_real e.2 h3)).1
  obtain ⟨hchain, hwithin⟩ := relInput_sum _ 0 CleanSt.init stt [] hfr0 h1 trivial (by intro p hp; simp [CleanSt.init] at hp)
  simp only [List.append_nil] at hwithin
  obtain ⟨L, hL1, hL2, hL3, hL4, hL5⟩ := cleanedLocation_ok bs st hdir hvb hord fs5 stt _ hvalid hchain hwithin
    (by rw [hflat]; exact hkept)
  have hlens : c.exonIter.length = c.frameIter.length := by
    rw [hex, hfr, ← hfs5]; unfold scanOrder
    split <;> split <;> simp [hlen]
  refine ⟨stt, L, hlens, ?_, hL1, hL2, hL3, hL4, by rw [hL5, hflat]; rfl⟩
  rw [hex, hfr, hloop, h1]

/-- multi-exon path: the prepared (location, offset) pair -/
theorem prepareMulti_ok (c : CDS) (h : WFCDS c)
    (hshallow : shallowTrim (exonWalk c.loc (specFrames c)) = true)
    (hkept : cdsKept c.loc (specFrames c) ≠ []) :
    ∃ L, prepareMulti c none = .ok (.compound ⟨L, c.loc.strand⟩, 0) ∧ (∀ b ∈ L, b.1 < b.2) ∧
      L.Pairwise (fun a b => a.2 ≤ b.1) ∧ bases ⟨L, c.loc.strand⟩ = cdsKept c.loc (specFrames c) := by
  obtain ⟨stt, L, hlens, hrun, hL1, hL2, hL3, hL4, hL5⟩ := prepareMulti_cleaned c h hshallow hkept
  refine ⟨L, ?_, hL3, hL4, hL5⟩
  have hoff := frameOffset_self c L hL2 h.dir hL4 hL3
  unfold prepareMulti
  rw [if_neg (by omega)]
  simp only [bind, Except.bind, pure, Except.pure, hrun, hL1, windowTruthy]
  have hst : c.strand = c.loc.strand := rfl
  rw [hst] at hoff
  simp only [hoff]

/-- single-exon path: the prepared (location, offset) pair -/
theorem prepareSingle_ok (c : CDS) (h : WFCDS c) (e : Blk) (hone : c.loc.blocks = [e]) :
    ∃ f : CDSFrame, c.frames = [f] ∧ f ≠ .NONE ∧
      prepareSingle c none = .ok (.compound c.loc, f.value) ∧
      (bases c.loc).drop f.value.toNat = cdsKept c.loc (specFrames c) := by
  rcases hc : c.loc with ⟨bs, st⟩
  rw [hc] at hone
  simp only at hone
  subst hone
  have hdir : st = .plus ∨ st = .minus := by have := h.dir; rw [hc] at this; exact this
  have hpos : e.1 < e.2 := by have := h.positive; rw [hc] at this; exact this e (by simp)
  have hlen : c.frames.length = 1 := by have := h.frames_len; rw [hc] at this; simpa using this
  obtain ⟨f, hf⟩ : ∃ f, c.frames = [f] := by
    match hfs : c.frames, hlen with
    | [f], _ => exact ⟨f, rfl⟩
  have hfn : f ≠ .NONE := h.frames_real f (by rw [hf]; simp)
  refine ⟨f, hf, hfn, ?_, ?_⟩
  · have hst : c.strand = st := by unfold CDS.strand; rw [hc]
    have hoff := frameOffset_self c [e] (by simp) (by rw [hst]; exact hdir) (by simp)
      (by intro b hb; simp at hb; subst hb; exact hpos)
    rw [hst] at hoff
    unfold prepareSingle
    simp only [hf, List.head?_cons, hc, windowTruthy, bind, Except.bind, pure, Except.pure, hoff]
    -- robust against the repair of F-C05a (`(offset + d) % 3` in `prepareSingle`)
    have hfv := frame_value_range f hfn
    first
      | (simp; done)
      | (simp; omega)
  · -- the walk of a single exon
    unfold cdsKept specFrames
    rw [hf]
    rw [exonWalk_scanOrder [e] st hdir [f] rfl, bases_scanOrder [e] st hdir]
    have : scanOrder st [e] = [e] := by unfold scanOrder; split <;> rfl
    rw [this]
    have h2 : (if st = .minus then [f].reverse else [f]) = [f] := by split <;> rfl
    rw [h2]
    simp only [List.zip_cons_cons, List.zip_nil_right, List.map_cons, List.map_nil, refKept, refKeptAux,
      List.length_nil, Nat.zero_mod, readScan_cons, readScan_nil, List.append_nil]
    split
    · rename_i h0; simp [h0]
    · simp

/-- **C05-T2** (no window): the codon locations of a CDS are the consecutive triples of the reference walk. -/
theorem codonLocations_ok (c : CDS) (h : WFCDS c)
    (hshallow : shallowTrim (exonWalk c.loc (specFrames c)) = true)
    (hkept : c.loc.blocks.length = 1 ∨ cdsKept c.loc (specFrames c) ≠ []) :
    okCodons (specOf c) none (ans (codonLocations c)) = true := by
  have hvb := (blocksValid_iff c.loc.blocks).1 h.valid
  unfold codonLocations scanCodonLocations prepare CDS.numBlocks
  by_cases hmulti : c.loc.blocks.length > 1
  · -- multi-exon
    have hk : cdsKept c.loc (specFrames c) ≠ [] := by
      rcases hkept with h1 | h1
      · omega
      · exact h1
    obtain ⟨L, hp, hL3, hL4, hL5⟩ := prepareMulti_ok c h hshallow hk
    rw [if_pos hmulti, hp]
    simp only [bind, Except.bind]
    obtain ⟨ms, hm1, hm2⟩ := scan_from L c.loc.strand h.dir (fun b hb => Nat.le_of_lt (hL3 b hb))
      (pairwise_nonOverlap L hL4) 0
    simp only [Int.natCast_zero, Int.sub_zero] at hm1
    have hm1' : (if ((locLen (.compound ⟨L, c.loc.strand⟩) : Nat) : Int) - 0 ≥ 3
        then scanWindows3 (.compound ⟨L, c.loc.strand⟩) 0 else pure []) = .ok ms := by
      simpa using hm1
    rw [hm1']
    simp only [ans_ok, okCodons, expectCodons, specOf, CDSIn.codons, cdsCodons]
    rw [← hL5]
    simpa using hm2
  · -- single exon
    have hone : ∃ e, c.loc.blocks = [e] := by
      have hne : c.loc.blocks ≠ [] := by
        intro h0
        have := h.frames_len
        cases hkept with
        | inl h1 => rw [h0] at h1; simp at h1
        | inr h1 =>
          apply h1
          unfold cdsKept exonWalk
          rw [h0]; rcases h.dir with hd | hd <;> simp [hd, refKept, refKeptAux]
      match hb : c.loc.blocks, hne with
      | [e], _ => exact ⟨e, rfl⟩
      | _ :: _ :: _, _ => rw [hb] at hmulti; simp at hmulti
    obtain ⟨e, he⟩ := hone
    obtain ⟨f, hf, hfn, hp, hk⟩ := prepareSingle_ok c h e he
    rw [if_neg hmulti, hp]
    simp only [bind, Except.bind]
    have hfv := frame_value_range f hfn
    rcases hc : c.loc with ⟨bs, st⟩
    rw [hc] at he hk
    simp only at he
    subst he
    have hpos : e.1 < e.2 := by have := h.positive; rw [hc] at this; exact this e (by simp)
    have hdir : st = .plus ∨ st = .minus := by have := h.dir; rw [hc] at this; exact this
    obtain ⟨ms, hm1, hm2⟩ := scan_from [e] st hdir (by intro b hb; simp at hb; subst hb; omega) rfl f.value.toNat
    have ecast : ((f.value.toNat : Nat) : Int) = f.value := by omega
    rw [ecast] at hm1
    rw [hm1]
    simp only [ans_ok, okCodons, expectCodons, specOf, CDSIn.codons, cdsCodons, hc]
    rw [← hk]
    exact hm2

/-- `num_codons` is the number of triples of the kept list -/
theorem numCodons_ok (c : CDS) (h : WFCDS c)
    (hshallow : shallowTrim (exonWalk c.loc (specFrames c)) = true)
    (hkept : c.loc.blocks.length = 1 ∨ cdsKept c.loc (specFrames c) ≠ []) :
    okNumCodons (specOf c) (ans (numCodons c)) = true := by
  have := codonLocations_ok c h hshallow hkept
  unfold numCodons
  cases hl : codonLocations c with
  | error e => rw [hl] at this; simp [okCodons] at this
  | ok ls =>
    rw [hl] at this
    simp only [ans_ok, okCodons] at this
    simp only [bind, Except.bind, pure, Except.pure, ans_ok, okNumCodons, beq_iff_eq, Option.some.injEq]
    -- equal lengths from the pointwise match
    have hlen : ∀ (ws : List (List Nat)) (gs : List Location), codonsMatch c.loc.strand ws gs = true →
        gs.length = ws.length := by
      intro ws
      induction ws with
      | nil => intro gs hg; cases gs <;> simp [codonsMatch] at hg ⊢
      | cons w ws ih =>
        intro gs hg
        cases gs with
        | nil => simp [codonsMatch] at hg
        | cons g gs =>
          simp only [codonsMatch, Bool.and_eq_true] at hg
          simp [ih gs hg.2]
    exact hlen _ _ this

end BioCantor.Proofs
