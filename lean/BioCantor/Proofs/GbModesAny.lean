/-
  C12 — T3 without any assumption on the order of the locus tags in the file: on tagged chains with pairwise different
  tags, LocusTag and Hybrid return one group per chain in tag order (`sortChains`), Sorted (on a fixed point of its own
  sort) one group per chain in file order — the same groups, hence the same gene models up to order.
-/
import BioCantor.Proofs.GbSort
namespace BioCantor.Proofs.Gb
open BioCantor BioCantor.Spec.Qual BioCantor.Spec.Gb BioCantor.Model.Gb

structure ModesInputAny (tch : List (Str × List Rec)) : Prop where
  tagged : TaggedChainsAny tch
  valid : ∀ r ∈ recsOf tch, validFeature r = true

theorem geneLike_any (tch : List (Str × List Rec)) (h : TaggedChainsAny tch) : ∀ r ∈ recsOf tch, isGeneLike r = true := by
  intro r hr
  obtain ⟨p, hp, hrp⟩ := mem_recsOf hr
  exact isGeneLike_chain p.2 (h.chains p hp) r hrp

theorem hasKey_any (tch : List (Str × List Rec)) (h : TaggedChainsAny tch) :
    ∀ r ∈ recsOf tch, hasKey Model.Gb.kLocusTag r.quals = true := by
  intro r hr
  obtain ⟨p, hp, hrp⟩ := mem_recsOf hr
  exact hasKey_of_tag r p.1 (h.tags p hp r hrp)

theorem extractSorted_any (tch : List (Str × List Rec)) (h : ModesInputAny tch)
    (hsorted : sortByPositionAndType (recsOf tch) = recsOf tch) :
    extractSorted (recsOf tch) = ⟨chainGroups tch, 0⟩ := by
  unfold extractSorted
  simp only []
  rw [filter_id _ _ h.valid, filter_id _ _ (geneLike_any tch h.tagged), hsorted]
  have hrest : (recsOf tch).filter (fun r => !isGeneLike r && r.type != tySource) = [] := by
    apply filter_none
    intro r hr
    rw [geneLike_any tch h.tagged r hr]; rfl
  rw [hrest]
  show (⟨groupByPosition (recsOf tch), 0⟩ : Extracted) = _
  unfold groupByPosition recsOf
  rw [groupSortedByType_chains _ (by
    intro ch hch
    obtain ⟨p, hp, rfl⟩ := List.mem_map.mp hch
    exact h.tagged.chains p hp)]
  simp [chainGroups]

theorem extractLocusTag_any (tch : List (Str × List Rec)) (h : ModesInputAny tch) :
    extractLocusTag (recsOf tch) = .ok ⟨chainGroups (sortChains tch), 0⟩ := by
  unfold extractLocusTag
  simp only []
  rw [filter_id _ _ h.valid]
  have hg : (recsOf tch).filter (fun r => isGeneLike r && hasKey Model.Gb.kLocusTag r.quals) = recsOf tch := by
    apply filter_id
    intro r hr
    rw [geneLike_any tch h.tagged r hr, hasKey_any tch h.tagged r hr]; rfl
  have hrest : (recsOf tch).filter
      (fun r => !(isGeneLike r && hasKey Model.Gb.kLocusTag r.quals) && r.type != tySource) = [] := by
    apply filter_none
    intro r hr
    rw [geneLike_any tch h.tagged r hr, hasKey_any tch h.tagged r hr]; rfl
  rw [hg, hrest, groupByLocusTag_general tch h.tagged]
  rfl

theorem extractHybrid_any (tch : List (Str × List Rec)) (h : ModesInputAny tch) :
    extractHybrid (recsOf tch) = .ok ⟨chainGroups (sortChains tch), 0⟩ := by
  have hs := sortChains_tagged tch h.tagged
  unfold extractHybrid
  simp only []
  rw [filter_id _ _ h.valid]
  have hg : (recsOf tch).filter (fun r => isGeneLike r && hasKey Model.Gb.kLocusTag r.quals) = recsOf tch := by
    apply filter_id
    intro r hr
    rw [geneLike_any tch h.tagged r hr, hasKey_any tch h.tagged r hr]; rfl
  have hu : (recsOf tch).filter (fun r => isGeneLike r && !hasKey Model.Gb.kLocusTag r.quals) = [] := by
    apply filter_none
    intro r hr
    rw [geneLike_any tch h.tagged r hr, hasKey_any tch h.tagged r hr]; rfl
  have hrest : (recsOf tch).filter (fun r => !isGeneLike r && r.type != tySource) = [] := by
    apply filter_none
    intro r hr
    rw [geneLike_any tch h.tagged r hr]; rfl
  rw [hg, hu, hrest]
  rw [show recsOf tch = (tch.map (·.2)).flatten from rfl, tagPairs_chains tch h.tagged.tags]
  simp only [bind, Except.bind, sortPairs_general tch (fun p hp => (h.tagged.chains p hp).ne),
    badTags_chains _ hs]
  have hgood : (pairsOf (sortChains tch)).filter (fun p => !([] : List Str).contains p.1) = pairsOf (sortChains tch) := by
    apply filter_id; intro p _; rfl
  have hbad : (pairsOf (sortChains tch)).filter (fun p => ([] : List Str).contains p.1) = [] := by
    apply filter_none; intro p _; rfl
  rw [hgood, hbad]
  have hpos : groupByPosition (sortByPositionAndType ([] ++ List.map (fun x => x.2) ([] : List TRec))) = [] := by
    simp [sortByPositionAndType, groupByPosition, groupSortedByType, groupByTypeAux]
  rw [hpos]
  unfold groupTagOrdered
  rw [groupRuns_chains _ (fun p hp => (hs.chains p hp).ne) hs.ascending, processRuns_chains _ hs.chains]
  rfl

theorem chainGroups_perm (tch : List (Str × List Rec)) : (chainGroups (sortChains tch)).Perm (chainGroups tch) :=
  (sortChains_perm tch).map _

/-- **T3, any tag order**: the groups of every strategy are a permutation of one group per chain -/
theorem extract_modes_any (tch : List (Str × List Rec)) (h : ModesInputAny tch) (m : Mode)
    (hsorted : m = .sorted → sortByPositionAndType (recsOf tch) = recsOf tch) :
    ∃ gs, extract m (recsOf tch) = .ok ⟨gs, 0⟩ ∧ gs.Perm (chainGroups tch) := by
  cases m with
  | sorted =>
    refine ⟨chainGroups tch, ?_, List.Perm.refl _⟩
    simp only [extract, pure, Except.pure]
    rw [extractSorted_any tch h (hsorted rfl)]
  | locusTag => exact ⟨_, extractLocusTag_any tch h, chainGroups_perm tch⟩
  | hybrid => exact ⟨_, extractHybrid_any tch h, chainGroups_perm tch⟩

end BioCantor.Proofs.Gb
