/-
  C03-T4 (concatenation), general operands: `x.append(y)` of two consistent located objects (single or compound,
  non-self-overlapping, non-empty) on one directional strand with span(x) wholly 5' of span(y).
  Uses C02's `Union.unionP_spec` (coverage, well-formedness and non-overlap of the union) and the fact that a
  non-self-overlapping layout reads its positions in increasing order.
-/
import BioCantor.Proofs.SeqChain
set_option linter.unusedSimpArgs false
namespace BioCantor.Proofs.Sq
open BioCantor BioCantor.Spec BioCantor.Model BioCantor.Spec.Sq BioCantor.Model.Sq BioCantor.Proofs

theorem locationCovers_iff (m : Location) (q : Nat) :
    locationCovers m q = true ↔ q ∈ basesPlus (locationBlocks m) := by
  cases m with
  | single b s => exact coversBlocks_iff_mem_basesPlus [b] q
  | compound c => exact coversBlocks_iff_mem_basesPlus c.blocks q
  | empty => simp [locationCovers, locationBlocks, basesPlus]

theorem spanEnd_ge (bs : List Blk) (b : Blk) (hb : b ∈ bs) : b.2 ≤ spanEnd bs := by
  unfold spanEnd
  have gen : ∀ (l : List Blk) (m0 : Nat), (m0 ≤ l.foldl (fun m x => max m x.2) m0) ∧
      ∀ x ∈ l, x.2 ≤ l.foldl (fun m x => max m x.2) m0 := by
    intro l
    induction l with
    | nil => intro m0; simp
    | cons a t ih =>
      intro m0
      simp only [List.foldl_cons]
      have h1 := ih (max m0 a.2)
      refine ⟨by omega, ?_⟩
      intro x hx
      rcases List.mem_cons.1 hx with rfl | hx
      · omega
      · exact h1.2 x hx
  exact (gen bs 0).2 b hb

theorem spanStart_le (bs : List Blk) (b : Blk) (hb : b ∈ bs) : spanStart bs ≤ b.1 := by
  unfold spanStart
  have gen : ∀ (l : List Blk) (m0 : Nat), (l.foldl (fun m x => min m x.1) m0 ≤ m0) ∧
      ∀ x ∈ l, l.foldl (fun m x => min m x.1) m0 ≤ x.1 := by
    intro l
    induction l with
    | nil => intro m0; simp
    | cons a t ih =>
      intro m0
      simp only [List.foldl_cons]
      have h1 := ih (min m0 a.1)
      refine ⟨by omega, ?_⟩
      intro x hx
      rcases List.mem_cons.1 hx with rfl | hx
      · omega
      · exact h1.2 x hx
  exact (gen bs _).2 b hb

theorem maxEnd_le_spanEnd (bs : List Blk) : maxEnd bs ≤ spanEnd bs := by
  induction bs with
  | nil => simp [maxEnd]
  | cons a t ih =>
    simp only [maxEnd]
    have h1 := spanEnd_ge (a :: t) a (by simp)
    have h2 : spanEnd t ≤ spanEnd (a :: t) := by
      clear ih h1
      unfold spanEnd
      simp only [List.foldl_cons]
      have mono : ∀ (l : List Blk) (m0 m1 : Nat), m0 ≤ m1 →
          l.foldl (fun m x => max m x.2) m0 ≤ l.foldl (fun m x => max m x.2) m1 := by
        intro l
        induction l with
        | nil => intro m0 m1 h; simpa using h
        | cons c r ih => intro m0 m1 h; simp only [List.foldl_cons]; exact ih _ _ (by omega)
      exact mono t 0 (max 0 a.2) (by omega)
    omega

/-- every covered position lies inside the span -/
theorem mem_span (bs : List Blk) (p : Nat) (hp : p ∈ basesPlus bs) : spanStart bs ≤ p ∧ p < spanEnd bs := by
  obtain ⟨b, hb, h1, h2⟩ := (Union.mem_basesPlus bs p).1 hp
  have := spanEnd_ge bs b hb
  have := spanStart_le bs b hb
  omega

theorem locStartEnd_ok (l : Location) (loc : Loc) (h : WF l) (hl : toLoc l = some loc) :
    ∃ s e, locStartEnd l = .ok (s, e) ∧ spanStart loc.blocks ≤ s ∧ e ≤ spanEnd loc.blocks := by
  cases l with
  | single b st =>
    simp only [toLoc, Option.some.injEq] at hl; subst hl
    refine ⟨b.1, b.2, rfl, spanStart_le [b] b (by simp), spanEnd_ge [b] b (by simp)⟩
  | compound c =>
    simp only [toLoc, Option.some.injEq] at hl; subst hl
    obtain ⟨bs, st⟩ := c
    cases bs with
    | nil => exact absurd rfl h.1
    | cons a t =>
      refine ⟨a.1, maxEnd (a :: t), ?_, spanStart_le _ a (by simp), maxEnd_le_spanEnd _⟩
      simp [locStartEnd, locStart, locEnd, bind, Except.bind, pure, Except.pure]
  | empty => simp [toLoc] at hl

theorem basesPlus_valid_of_WF (l : Location) (loc : Loc) (h : WF l) (hl : toLoc l = some loc) :
    ∀ b ∈ loc.blocks, b.1 ≤ b.2 := by
  cases l with
  | single b st =>
    simp only [toLoc, Option.some.injEq] at hl; subst hl
    intro x hx; simp at hx; subst hx; exact h
  | compound c =>
    simp only [toLoc, Option.some.injEq] at hl; subst hl
    exact (blocksValid_iff _).1 h.2.1
  | empty => simp [toLoc] at hl

theorem toLoc_blocks (l : Location) (loc : Loc) (hl : toLoc l = some loc) : locationBlocks l = loc.blocks := by
  cases l with
  | single b s => simp only [toLoc, Option.some.injEq] at hl; subst hl; rfl
  | compound c => simp only [toLoc, Option.some.injEq] at hl; subst hl; rfl
  | empty => simp [toLoc] at hl

theorem sorted_append (A B : List Nat) (hA : A.Pairwise (· < ·)) (hB : B.Pairwise (· < ·))
    (h : ∀ a ∈ A, ∀ b ∈ B, a < b) : (A ++ B).Pairwise (· < ·) := by
  rw [List.pairwise_append]; exact ⟨hA, hB, h⟩

theorem rootKey_same (P : List Char) : sameParent (rootKey P) (rootKey P) = true := sameParent_refl _

/-- **C03-T4 (concatenation)** -/
theorem append_consistent (P alph : List Char) (hnt : isNt alph = true) (x y : SeqObj) (lx ly : Location)
    (locx locy : Loc) (hx : Consistent P alph x lx locx) (hy : Consistent P alph y ly locy)
    (hcomp : appendCompatible lx ly = true) :
    ∃ z m pst, append P x y = .ok z ∧ z.data = x.data ++ y.data ∧ z.par = some ⟨pst, some m⟩ ∧
      WF m ∧ Within P m ∧ locationStrand? m = some locx.strand ∧ nonOverlap (locationBlocks m) = true ∧
      (∀ q, locationCovers m q = (locationCovers lx q || locationCovers ly q)) ∧
      ans (extract P alph m) = some z.data := by
  unfold appendCompatible at hcomp
  simp only [hx.toLoc, hy.toLoc, Bool.and_eq_true, beq_iff_eq, decide_eq_true_eq] at hcomp
  obtain ⟨⟨⟨⟨hst, hdir⟩, hlx⟩, hly⟩, hord⟩ := hcomp
  obtain ⟨px, hpx⟩ := hx.par
  obtain ⟨py, hpy⟩ := hy.par
  have hvx := basesPlus_valid_of_WF lx locx hx.wf hx.toLoc
  have hvy := basesPlus_valid_of_WF ly locy hy.wf hy.toLoc
  have hbx := toLoc_blocks lx locx hx.toLoc
  have hby := toLoc_blocks ly locy hy.toLoc
  have hsx := toLoc_strand lx locx hx.toLoc
  have hsy := toLoc_strand ly locy hy.toLoc
  rw [← hst] at hsy
  -- the union
  obtain ⟨r, pr, hr, hpr, hwfr, hstr, hcov, _, hnor⟩ :=
    Union.unionP_spec (lx, rootKey P) (ly, rootKey P) hx.wf hy.wf (rootKey_same P) locx.strand hsx hsy
  have hnoR : nonOverlap (locationBlocks r) = true := by
    apply hnor
    · simp only; rw [hbx]; exact hx.nonOverlap
    · simp only; rw [hby]; exact hy.nonOverlap
  -- a covered position exists, so the union is not EmptyLocation and has positive length
  have hBx : (basesPlus locx.blocks).length = locx.len := basesPlus_length _
  obtain ⟨q0, hq0⟩ : ∃ q, q ∈ basesPlus locx.blocks := by
    cases hb : basesPlus locx.blocks with
    | nil => rw [hb] at hBx; simp at hBx; omega
    | cons q t => exact ⟨q, by simp⟩
  have hcq0 : locationCovers r q0 = true := by
    rw [hcov]; simp only
    have : locationCovers lx q0 = true := by rw [locationCovers_iff, hbx]; exact hq0
    simp [this]
  have hrne : r ≠ .empty := by intro he; subst he; simp [locationCovers] at hcq0
  have hsr : locationStrand? r = some locx.strand := by
    rcases hstr with h | h
    · exact absurd h hrne
    · exact h
  have hmemr : ∀ q, q ∈ basesPlus (locationBlocks r) ↔ (q ∈ basesPlus locx.blocks ∨ q ∈ basesPlus locy.blocks) := by
    intro q
    rw [← locationCovers_iff, hcov]
    simp only [Bool.or_eq_true, locationCovers_iff, hbx, hby]
  have hlenr : 0 < locLen r := by
    have : q0 ∈ basesPlus (locationBlocks r) := (locationCovers_iff r q0).1 hcq0
    have hl : (basesPlus (locationBlocks r)).length = blocksLen (locationBlocks r) := basesPlus_length _
    have hpos : 0 < (basesPlus (locationBlocks r)).length := List.length_pos_of_mem this
    rw [hl] at hpos
    cases r with
    | single b s => simp [locLen, locationBlocks, blocksLen] at hpos ⊢; exact hpos
    | compound c => simp [locLen, Loc.len, locationBlocks] at hpos ⊢; exact hpos
    | empty => exact absurd rfl hrne
  have hWFr : WF r := Union.wf_of_wfLocation r hwfr
  have hvr : ∀ b ∈ locationBlocks r, b.1 ≤ b.2 := by
    have := basesPlus_valid_of_WF r ⟨locationBlocks r, locx.strand⟩ hWFr (toLoc_of_strand r _ hsr)
    exact this
  -- inside the parent
  have hwx : within P locx = true := (within_of_Within P lx locx hx.toLoc).2 hx.within
  have hwy : within P locy = true := (within_of_Within P ly locy hy.toLoc).2 hy.within
  have hinP : ∀ q, q ∈ basesPlus locx.blocks ∨ q ∈ basesPlus locy.blocks → q < P.length := by
    intro q hq
    rcases hq with h | h
    · have : q ∈ bases locx := by
        obtain ⟨b, hb, h1⟩ := (Union.mem_basesPlus _ q).1 h
        exact (mem_bases locx.blocks locx.strand q).2 ⟨b, hb, h1⟩
      unfold within at hwx; simpa using (List.all_eq_true.1 hwx) q this
    · have : q ∈ bases locy := by
        obtain ⟨b, hb, h1⟩ := (Union.mem_basesPlus _ q).1 h
        exact (mem_bases locy.blocks locy.strand q).2 ⟨b, hb, h1⟩
      unfold within at hwy; simpa using (List.all_eq_true.1 hwy) q this
  have hWr : Within P r := by
    apply Within_of_bases_subset P r hrne
    intro p hp
    rw [locationBases_eq r locx.strand hsr] at hp
    obtain ⟨b, hb, h1⟩ := (mem_bases _ _ p).1 hp
    exact hinP p ((hmemr p).1 ((Union.mem_basesPlus _ p).2 ⟨b, hb, h1⟩))
  -- the model's checks
  have hdne : locx.strand ≠ .unstranded := by
    intro hu; rw [hu] at hdir; simp [Strand.isDirectional] at hdir
  have hpsx : parStrand ⟨px, some lx⟩ = .ok (some locx.strand) := by
    simp [parStrand, locLen_pos lx locx hx.toLoc hlx, locStrand_ok lx locx hx.toLoc, bind, Except.bind, pure, Except.pure]
  have hpsy : parStrand ⟨py, some ly⟩ = .ok (some locx.strand) := by
    simp [parStrand, locLen_pos ly locy hy.toLoc hly, locStrand_ok ly locy hy.toLoc, hst, bind, Except.bind, pure,
      Except.pure]
  obtain ⟨xs, xe, hse_x, hxs, hxe⟩ := locStartEnd_ok lx locx hx.wf hx.toLoc
  obtain ⟨ys, ye, hse_y, hys, hye⟩ := locStartEnd_ok ly locy hy.wf hy.toLoc
  have htx : truthy (some lx) = true := by simp [truthy, locLen_pos lx locx hx.toLoc hlx]
  have hty : truthy (some ly) = true := by simp [truthy, locLen_pos ly locy hy.toLoc hly]
  have hu : unionP (lx, rootKey P) (ly, rootKey P) = .ok (r, rootKey P) := by
    rw [hr, Union.withPar_of_ne r pr hrne]
    rcases hpr with h | h <;> simp [h]
  have hreset : resetLocation (some r) = .ok ⟨some locx.strand, some r⟩ := by
    unfold resetLocation
    have hls : locStrand r = .ok locx.strand :=
      locStrand_ok r ⟨locationBlocks r, locx.strand⟩ (toLoc_of_strand r _ hsr)
    simp [hlenr, hls, bind, Except.bind, pure, Except.pure]
  have hchk1 : ¬ (some locx.strand = some Strand.plus ∧ xe > ys) := by
    rintro ⟨h1, h2⟩
    simp only [Option.some.injEq] at h1
    simp only [h1, if_true, decide_eq_true_eq] at hord
    omega
  have hchk2 : ¬ (some locx.strand = some Strand.minus ∧ xs < ye) := by
    rintro ⟨h1, h2⟩
    simp only [Option.some.injEq] at h1
    simp only [h1, reduceCtorEq, if_false, decide_eq_true_eq] at hord
    omega
  have happ : append P x y = .ok ⟨x.data ++ y.data, some ⟨some locx.strand, some r⟩⟩ := by
    unfold append
    have hnu : ¬ (some locx.strand = some Strand.unstranded ∨ some locx.strand ≠ some locx.strand) := by
      simp [hdne]
    simp only [hpx, hpy, hpsx, hpsy, hnu, htx, hty, and_self, if_true, if_false, hse_x, hse_y, hchk1, hchk2, hu, hreset,
      bind, Except.bind, pure, Except.pure]
  refine ⟨_, r, some locx.strand, happ, rfl, rfl, hWFr, hWr, hsr, hnoR, hcov, ?_⟩
  -- the sequence of the union
  rw [extract_eq P alph hnt r hWFr hWr, expectExtract_read P alph r locx.strand hsr hdne,
    locationBases_eq r locx.strand hsr]
  have hdx := hx.data
  have hdy := hy.data
  rw [expectExtract_readAt P alph lx locx hx.toLoc hdir] at hdx
  rw [expectExtract_readAt P alph ly locy hy.toLoc (by rw [← hst]; exact hdir)] at hdy
  have hsX := basesPlus_sorted locx.blocks hvx hx.nonOverlap
  have hsY := basesPlus_sorted locy.blocks hvy hy.nonOverlap
  have hsR := basesPlus_sorted (locationBlocks r) hvr hnoR
  obtain ⟨bsx, stx⟩ := locx
  obtain ⟨bsy, sty⟩ := locy
  simp only at hst hdir hord hdx hdy hsX hsY hmemr hdne ⊢
  subst hst
  cases stx with
  | unstranded => exact absurd rfl hdne
  | plus =>
    simp only [if_true, decide_eq_true_eq] at hord
    have hcross : ∀ a ∈ basesPlus bsx, ∀ b ∈ basesPlus bsy, a < b := by
      intro a ha b hb
      have := mem_span bsx a ha; have := mem_span bsy b hb; omega
    have hEq : basesPlus (locationBlocks r) = basesPlus bsx ++ basesPlus bsy :=
      eq_of_sorted_of_mem _ _ hsR (sorted_append _ _ hsX hsY hcross) (by
        intro q; rw [hmemr, List.mem_append])
    simp only [bases, hEq] at hdx hdy ⊢
    rw [readAt_append, hdx, hdy]; rfl
  | minus =>
    simp only [reduceCtorEq, if_false, decide_eq_true_eq] at hord
    have hcross : ∀ a ∈ basesPlus bsy, ∀ b ∈ basesPlus bsx, a < b := by
      intro a ha b hb
      have := mem_span bsy a ha; have := mem_span bsx b hb; omega
    have hEq : basesPlus (locationBlocks r) = basesPlus bsy ++ basesPlus bsx :=
      eq_of_sorted_of_mem _ _ hsR (sorted_append _ _ hsY hsX hcross) (by
        intro q; rw [hmemr, List.mem_append]; exact Or.comm)
    rw [bases_mk] at hdx hdy ⊢
    simp only [if_true, hEq, List.reverse_append] at hdx hdy ⊢
    rw [readAt_append, hdx, hdy]; rfl

end BioCantor.Proofs.Sq
