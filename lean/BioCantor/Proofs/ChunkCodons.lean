/-
  C07-T3: the chunk branch of the codon machinery.  The (cleaned) CDS location `⟨L, st⟩` is lifted onto the chunk
  (`chunkDown`), lifted back (`liftOnce`), the frame offset is measured against the result, and the chunk-relative
  location is scanned.  Lifted back position by position, the scanned codons are those C05-T5 gives for the window
  `[w.1, w.2)` on the chromosome.
-/
import BioCantor.Model.Chunk
import BioCantor.Proofs.ChunkLoc
import BioCantor.Proofs.LiftOrder
import BioCantor.Proofs.CDSWindowCodons
import BioCantor.Proofs.CDSSeq
namespace BioCantor.Proofs.Chunk
open BioCantor BioCantor.Spec BioCantor.Spec.Chunk BioCantor.Model BioCantor.Model.Chunk BioCantor.Proofs
open BioCantor.Proofs.Lift

/-- the in-chunk parts of an ascending block list (C05's `clip lo hi` on the blocks that overlap the window) -/
def partsOf (L : List Blk) (w : Blk) : List Blk :=
  (L.filter (fun b => overlapKernel b w)).map (Proofs.clip w.1 w.2)

theorem hits_eq (L : List Blk) (w : Blk) :
    L.filter (fun b => overlapKernel w b) = L.filter (fun b => overlapKernel b w) := by
  congr 1; funext b; exact overlapKernel_comm w b

/-- `chunkDown` of a multi-block location with at least one block in the window, in closed form -/
theorem chunkDown_compound (L : List Blk) (st : Strand) (w : Blk) (wst : Strand)
    (hw : wst = .plus ∨ wst = .minus) (hwl : w.1 < w.2)
    (hhit : L.filter (fun b => overlapKernel w b) ≠ []) :
    chunkDown (.compound ⟨L, st⟩) w wst =
      .ok (.compound ⟨sortBlocks (strandRelativeTo st wst) ((L.filter (fun b => overlapKernel w b)).map (relBlk w wst)),
        strandRelativeTo st wst⟩) := by
  have hlen : ¬ (w.len = 0) := by unfold Blk.len; omega
  unfold chunkDown
  rw [if_neg hlen]
  generalize hhits : L.filter (fun b => overlapKernel w b) = hits at hhit
  have hhv : ∀ b ∈ hits, max w.1 b.1 < min w.2 b.2 := by
    intro b hb
    rw [← hhits, List.mem_filter] at hb
    exact ((Lift.overlapKernel_iff w b).mp hb.2).2.2
  have hany : (L.any fun b => overlapKernel b w) = true := by
    cases hh : hits with
    | nil => exact absurd hh hhit
    | cons b r =>
      have hb : b ∈ L.filter (fun b => overlapKernel w b) := by rw [hhits, hh]; simp
      rw [List.mem_filter] at hb
      rw [List.any_eq_true]
      exact ⟨b, hb.1, by rw [overlapKernel_comm]; exact hb.2⟩
  have hne : hits.map (relBlk w wst) ≠ [] := by simpa using hhit
  have hv : ∀ r ∈ hits.map (relBlk w wst), r.1 ≤ r.2 := by
    intro r hr
    obtain ⟨b, hb, rfl⟩ := List.mem_map.mp hr
    exact (relBlk_props w wst b (hhv b hb)).1
  simp only [relativeToSingle, hany, not_true_eq_false, if_false, hhits, bind, Except.bind,
    relGo_ok w wst ⟨L, st⟩ hw hits hhv, mkCompoundLoc_ok (strandRelativeTo st wst) hne hv]
  rfl

theorem blkAsc_shift (p : Blk) (a : Nat) (ha : a ≤ p.1) :
    blkAsc (p.1 - a, p.2 - a) = (blkAsc p).map (· - a) := by
  unfold blkAsc
  apply List.ext_getElem
  · simp; omega
  · intro i h1 h2
    simp at h1 h2 ⊢
    omega

theorem blkAsc_mirror (p : Blk) (h : Nat) (hp : p.2 ≤ h) :
    blkAsc (h - p.2, h - p.1) = ((blkAsc p).map (fun x => h - 1 - x)).reverse := by
  unfold blkAsc
  apply List.ext_getElem
  · simp; omega
  · intro i h1 h2
    simp at h1 h2 ⊢
    omega

/-! ### the chunk-relative image of in-window blocks, in closed form -/

/-- chunk-relative image of a block lying inside the window -/
def relOf (w : Blk) (wst : Strand) (p : Blk) : Blk :=
  if wst = .plus then (p.1 - w.1, p.2 - w.1) else (w.2 - p.2, w.2 - p.1)

/-- blocks of positive length inside the window -/
def InWin (w : Blk) (P : List Blk) : Prop := ∀ p ∈ P, w.1 ≤ p.1 ∧ p.1 < p.2 ∧ p.2 ≤ w.2

theorem basesPlus_shift (a : Nat) : ∀ (P : List Blk), (∀ p ∈ P, a ≤ p.1) →
    basesPlus (P.map (fun p => (p.1 - a, p.2 - a))) = (basesPlus P).map (· - a)
  | [], _ => rfl
  | p :: t, h => by
    simp only [List.map_cons, basesPlus, List.map_append]
    rw [blkAsc_shift p a (h p (by simp)), basesPlus_shift a t (fun x hx => h x (by simp [hx]))]

theorem basesPlus_mirror (h : Nat) : ∀ (P : List Blk), (∀ p ∈ P, p.2 ≤ h) →
    basesPlus (P.reverse.map (fun p => (h - p.2, h - p.1))) = ((basesPlus P).map (fun x => h - 1 - x)).reverse
  | [], _ => rfl
  | p :: t, hp => by
    simp only [List.reverse_cons, List.map_append, List.map_cons, List.map_nil, basesPlus_append, basesPlus,
      List.append_nil, List.reverse_append]
    rw [blkAsc_mirror p h (hp p (by simp)), basesPlus_mirror h t (fun x hx => hp x (by simp [hx]))]

/-- the sorted chunk-relative block list -/
def relBlocks (w : Blk) (wst : Strand) (P : List Blk) : List Blk :=
  if wst = .plus then P.map (relOf w wst) else P.reverse.map (relOf w wst)

theorem sort_relOf (s : Strand) (w : Blk) (wst : Strand) (P : List Blk) (hP : InWin w P)
    (hpw : P.Pairwise (fun a b => a.2 ≤ b.1)) :
    sortBlocks s (P.map (relOf w wst)) = relBlocks w wst P := by
  unfold relBlocks
  by_cases hws : wst = .plus
  · rw [if_pos hws]
    apply sortBlocks_of_fst_lt
    rw [List.pairwise_map]
    refine hpw.imp_of_mem ?_
    intro a b ha hb hab
    have h1 := hP a ha
    have h2 := hP b hb
    simp only [relOf, hws, if_true]
    omega
  · rw [if_neg hws]
    apply sortBlocks_eq_of_perm_sorted
    · exact (List.reverse_perm P).map _
    · rw [List.pairwise_map, List.pairwise_reverse]
      refine hpw.imp_of_mem ?_
      intro a b ha hb hab
      have h1 := hP a ha
      have h2 := hP b hb
      apply blkLe_of_fst_lt
      simp only [relOf, hws, if_false]
      omega

theorem relBlocks_props (w : Blk) (wst : Strand) (P : List Blk) (hP : InWin w P)
    (hpw : P.Pairwise (fun a b => a.2 ≤ b.1)) :
    (∀ r ∈ relBlocks w wst P, r.1 < r.2 ∧ r.2 ≤ w.2 - w.1) ∧
      (relBlocks w wst P).Pairwise (fun a b => a.2 ≤ b.1) := by
  unfold relBlocks
  by_cases hws : wst = .plus
  · simp only [hws, if_true]
    constructor
    · intro r hr
      obtain ⟨p, hp, rfl⟩ := List.mem_map.mp hr
      have := hP p hp
      simp only [relOf, if_true]; omega
    · rw [List.pairwise_map]
      refine hpw.imp_of_mem ?_
      intro a b ha hb hab
      have h1 := hP a ha
      have h2 := hP b hb
      simp only [relOf, if_true]; omega
  · simp only [hws, if_false]
    constructor
    · intro r hr
      obtain ⟨p, hp, rfl⟩ := List.mem_map.mp hr
      have := hP p (List.mem_reverse.mp hp)
      simp only [relOf, hws, if_false]; omega
    · rw [List.pairwise_map, List.pairwise_reverse]
      refine hpw.imp_of_mem ?_
      intro a b ha hb hab
      have h1 := hP a ha
      have h2 := hP b hb
      simp only [relOf, hws, if_false]; omega

/-- positions of the chunk-relative blocks, lifted back one by one, are the positions of the in-window blocks, in
    the same 5'→3' order -/
theorem relBlocks_bases (w : Blk) (wst : Strand) (hw : wst = .plus ∨ wst = .minus) (st : Strand)
    (hst : st = .plus ∨ st = .minus) (P : List Blk) (hP : InWin w P) :
    (bases ⟨relBlocks w wst P, strandRelativeTo st wst⟩).map (unchunkPos ⟨w, wst⟩) = bases ⟨P, st⟩ := by
  have hge : ∀ x ∈ basesPlus P, w.1 ≤ x ∧ x < w.2 := by
    intro x hx
    obtain ⟨b, hb, h1, h2⟩ := (mem_basesPlus P x).mp hx
    have := hP b hb
    omega
  have hback1 : (basesPlus P).map ((fun i => w.1 + i) ∘ (· - w.1)) = basesPlus P := by
    conv => rhs; rw [← List.map_id (basesPlus P)]
    apply List.map_congr_left
    intro x hx; have := hge x hx; simp; omega
  have hback2 : (basesPlus P).map ((fun i => w.2 - 1 - i) ∘ (fun x => w.2 - 1 - x)) = basesPlus P := by
    conv => rhs; rw [← List.map_id (basesPlus P)]
    apply List.map_congr_left
    intro x hx; have := hge x hx; simp; omega
  rcases hw with rfl | rfl
  · have hR : relBlocks w .plus P = P.map (fun p => (p.1 - w.1, p.2 - w.1)) := by
      simp [relBlocks, relOf]
    have hpos : unchunkPos ⟨w, .plus⟩ = (fun i => w.1 + i) := by funext i; simp [unchunkPos]
    rw [hR, hpos, bases_mk, bases_mk, basesPlus_shift w.1 P (fun p hp => (hP p hp).1)]
    rcases hst with rfl | rfl
    · simp only [strandRelativeTo]
      simp only [reduceCtorEq, or_self, if_false, if_true, List.map_map]
      exact hback1
    · simp only [strandRelativeTo]
      simp only [reduceCtorEq, or_self, if_false, if_true, List.map_reverse, List.map_map]
      rw [hback1]
  · have hR : relBlocks w .minus P = P.reverse.map (fun p => (w.2 - p.2, w.2 - p.1)) := by
      simp [relBlocks, relOf]
    have hpos : unchunkPos ⟨w, .minus⟩ = (fun i => w.2 - 1 - i) := by funext i; simp [unchunkPos]
    rw [hR, hpos, bases_mk, bases_mk, basesPlus_mirror w.2 P (fun p hp => (hP p hp).2.2)]
    rcases hst with rfl | rfl
    · simp only [strandRelativeTo]
      simp only [reduceCtorEq, or_self, if_false, if_true, List.reverse_reverse, List.map_map]
      exact hback2
    · simp only [strandRelativeTo]
      simp only [reduceCtorEq, or_self, if_false, if_true, List.map_reverse, List.map_map]
      rw [hback2]

/-! ### lifting the chunk-relative location back to the chromosome -/

theorem placement_getD (w : Blk) (wst : Strand) (hw : wst = .plus ∨ wst = .minus) (i : Nat) (hi : i < w.2 - w.1) :
    (bases ⟨[w], wst⟩).getD i 0 = unchunkPos ⟨w, wst⟩ i := by
  rcases hw with rfl | rfl
  · simp [bases, basesPlus, blkAsc, unchunkPos, List.getD, hi]
  · simp only [bases, List.reverse_cons, List.reverse_nil, List.nil_append, basesMinus, blkDesc, blkAsc,
      List.append_nil, unchunkPos, if_true, List.getD]
    rw [List.getElem?_reverse (by simpa using hi)]
    simp only [List.length_range']
    rw [List.getElem?_range' (by omega)]
    simp only [Option.getD_some]
    omega

theorem relBlocks_ne_nil (w : Blk) (wst : Strand) (P : List Blk) (h : P ≠ []) : relBlocks w wst P ≠ [] := by
  unfold relBlocks; split <;> simpa using h

theorem compose_rel (st wst : Strand) (hst : st = .plus ∨ st = .minus) (hw : wst = .plus ∨ wst = .minus) :
    compose (strandRelativeTo st wst) wst = st ∧ (strandRelativeTo st wst = .plus ∨ strandRelativeTo st wst = .minus) ∧
      strandRelativeTo st wst = compose st wst := by
  rcases hst with rfl | rfl <;> rcases hw with rfl | rfl <;> simp [strandRelativeTo, compose]

/-- the chunk-relative image of the in-window blocks `P` lifts back to a location with exactly the positions of `P` -/
theorem liftUp_relBlocks (w : Blk) (wst : Strand) (hw : wst = .plus ∨ wst = .minus) (letters : List Char)
    (st : Strand) (hst : st = .plus ∨ st = .minus) (P : List Blk) (hPne : P ≠ []) (hP : InWin w P)
    (hpw : P.Pairwise (fun a b => a.2 ≤ b.1)) :
    ∃ m, liftUp ⟨w, wst, letters⟩ (.compound ⟨relBlocks w wst P, strandRelativeTo st wst⟩) = .ok m ∧
      locationStrand? m = some st ∧ wfLocation m = true ∧ (∀ x ∈ locationBlocks m, x.1 < x.2) ∧
      (locationBlocks m).Pairwise (fun a b => a.2 ≤ b.1) ∧ locationBases m = bases ⟨P, st⟩ := by
  obtain ⟨hcomp, hrdir, _⟩ := compose_rel st wst hst hw
  generalize hrst : strandRelativeTo st wst = rst at *
  generalize hR : relBlocks w wst P = R
  obtain ⟨hRpos, hRpw⟩ := relBlocks_props w wst P hP hpw
  rw [hR] at hRpos hRpw
  have hRne : R ≠ [] := by rw [← hR]; exact relBlocks_ne_nil w wst P hPne
  have hRv : ∀ r ∈ R, r.1 ≤ r.2 := fun r hr => Nat.le_of_lt (hRpos r hr).1
  have hcanon : Loc.Canon ⟨R, rst⟩ := by
    have hs : sortBlocks rst R = R := by
      apply sortBlocks_of_fst_lt
      refine hRpw.imp_of_mem ?_
      intro a b ha hb hab
      have := (hRpos a ha).1; omega
    have := canon_sortBlocks rst hRne hRv
    rw [hs] at this; exact this
  have hwsu : wst ≠ .unstranded := by rcases hw with h | h <;> simp [h]
  have hrsu : rst ≠ .unstranded := by rcases hrdir with h | h <;> simp [h]
  have hlenpos : 0 < locLen (.compound ⟨R, rst⟩) := by
    cases R with
    | nil => exact absurd rfl hRne
    | cons a t => have := (hRpos a (by simp)).1; simp only [locLen, Loc.len, blocksLen, Blk.len]; omega
  have hpllen : (⟨[w], wst⟩ : Loc).len = w.2 - w.1 := by simp [Loc.len, blocksLen, Blk.len]
  have hce : (Location.compound ⟨R, rst⟩) ≠ .empty := by intro h; cases h
  obtain ⟨m, hm, hgm, hperm, hposm, _⟩ := liftOnce_ok (.compound ⟨R, rst⟩) (.single w wst)
    (by show w.1 ≤ w.2; have := hP; cases P with
        | nil => exact absurd rfl hPne
        | cons a t => have := hP a (by simp); omega)
    ⟨[w], wst⟩ rfl hwsu hce hlenpos
    (by intro b hb _; rw [hpllen]; exact (hRpos b hb).2)
  have hstrandOf : strandOf (.compound ⟨R, rst⟩) = rst := rfl
  rw [hstrandOf] at hgm
  simp only [hcomp] at hgm
  have hposm' := hposm (by simp [nonOverlap])
  have hin : ∀ i ∈ locationBases (.compound ⟨R, rst⟩), i < (⟨[w], wst⟩ : Loc).len := by
    intro i hi
    rw [hpllen]
    have hi' : i ∈ basesPlus R := (bases_perm_basesPlus R rst).mem_iff.mp hi
    obtain ⟨b, hb, _, h2⟩ := (mem_basesPlus R i).mp hi'
    have := (hRpos b hb).2; omega
  obtain ⟨hbases, hnom⟩ := liftOnce_exact (.compound ⟨R, rst⟩) (.single w wst) m hcanon
    (by show w.1 ≤ w.2; cases P with
        | nil => exact absurd rfl hPne
        | cons a t => have := hP a (by simp); omega)
    ⟨[w], wst⟩ rfl hce (by rw [hstrandOf]; exact hrsu) hwsu hin (by rw [hstrandOf, hcomp]; exact hgm) hperm hposm'
    (nonOverlap_of_pairwise R hRpw) (by simp [nonOverlap])
  refine ⟨m, ?_, hgm.1, hgm.2, hposm', ?_, ?_⟩
  · unfold liftUp
    have : ((Location.compound ⟨R, rst⟩) == .empty) = false := by
      rw [Bool.eq_false_iff]; intro h; exact hce (by simpa using h)
    rw [this]
    exact hm
  · exact nonOverlap_pairwise _ (fun b hb => Nat.le_of_lt (hposm' b hb)) hnom
  · rw [hbases, ← relBlocks_bases w wst hw st hst P hP, hrst, hR]
    apply List.map_congr_left
    intro i hi
    have := hin i hi
    rw [hpllen] at this
    exact placement_getD w wst hw i this

/-! ### the frame offset reads only the 5' anchor of the lifted-back location -/

theorem calculateFrameOffset_congr (c : CDS) (cl X Y : Location) (hs : locStart X = locStart Y)
    (he : locEnd X = locEnd Y) : calculateFrameOffset c cl X = calculateFrameOffset c cl Y := by
  unfold calculateFrameOffset; rw [hs, he]

theorem ends_toSingle (m : Location) (st : Strand) (hm : m ≠ .empty) :
    locStart m = locStart (toSingleIfOne ⟨locationBlocks m, st⟩) ∧
      locEnd m = locEnd (toSingleIfOne ⟨locationBlocks m, st⟩) := by
  cases m with
  | empty => exact absurd rfl hm
  | single b s => exact ⟨rfl, rfl⟩
  | compound l =>
    rcases l with ⟨bs, s⟩
    match bs with
    | [] => exact ⟨rfl, rfl⟩
    | [b] => simp [toSingleIfOne, locationBlocks, locStart, locEnd, maxEnd]
    | a :: b :: r => exact ⟨rfl, rfl⟩

/-! ### a chunk-relative codon, lifted back position by position -/

theorem chunkCodonsMatch_of (w : Blk) (wst : Strand) (st rst : Strand) (hr : rst = compose st wst) :
    ∀ (T : List (List Nat)) (ms : List Location), codonsMatch rst T ms = true →
      chunkCodonsMatch ⟨w, wst⟩ st (T.map (List.map (unchunkPos ⟨w, wst⟩))) ms = true
  | [], [], _ => rfl
  | [], _ :: _, h => by simp [codonsMatch] at h
  | _ :: _, [], h => by simp [codonsMatch] at h
  | t :: T, m :: ms, h => by
    simp only [codonsMatch, Bool.and_eq_true] at h
    simp only [List.map_cons, chunkCodonsMatch, Bool.and_eq_true]
    refine ⟨?_, chunkCodonsMatch_of w wst st rst hr T ms h.2⟩
    have h1 := h.1
    simp only [codonOk, Bool.and_eq_true, beq_iff_eq] at h1
    simp only [chunkCodonOk, chunkStrand, Bool.and_eq_true, beq_iff_eq]
    exact ⟨⟨h1.1.1, by rw [h1.1.2, hr]⟩, by rw [h1.2]⟩

/-! ### the chunk branch on a prepared ascending location (cleaned location, or the single exon) -/

theorem relBlk_eq_relOf (w : Blk) (wst : Strand) (b : Blk) :
    relBlk w wst b = relOf w wst (Proofs.clip w.1 w.2 b) := by
  unfold relBlk relOf Proofs.clip
  simp only [Nat.max_comm w.1 b.1, Nat.min_comm w.2 b.2]

theorem partsOf_inWin (L : List Blk) (w : Blk) (hwl : w.1 < w.2) (hL3 : ∀ b ∈ L, b.1 < b.2)
    (hL4 : L.Pairwise (fun a b => a.2 ≤ b.1)) : InWin w (partsOf L w) := by
  intro p hp
  have hpos := (parts_props w.1 w.2 hwl L hL3 hL4).1 p hp
  obtain ⟨b, _, rfl⟩ := List.mem_map.mp hp
  simp only [Proofs.clip] at hpos ⊢
  omega

/-- `chunkDown` of an ascending multi-block location with a block in the window: the chunk-relative images of the
    in-window parts, in chunk order — no sorting left -/
theorem chunkDown_closed (L : List Blk) (st : Strand) (w : Blk) (wst : Strand)
    (hw : wst = .plus ∨ wst = .minus) (hwl : w.1 < w.2) (hL3 : ∀ b ∈ L, b.1 < b.2)
    (hL4 : L.Pairwise (fun a b => a.2 ≤ b.1)) (hPne : partsOf L w ≠ []) :
    chunkDown (.compound ⟨L, st⟩) w wst =
      .ok (.compound ⟨relBlocks w wst (partsOf L w), strandRelativeTo st wst⟩) := by
  have hPin := partsOf_inWin L w hwl hL3 hL4
  obtain ⟨_, hPpw⟩ := parts_props w.1 w.2 hwl L hL3 hL4
  have hhits : (L.filter (fun b => overlapKernel w b)).map (relBlk w wst) = (partsOf L w).map (relOf w wst) := by
    rw [partsOf, hits_eq, List.map_map]
    apply List.map_congr_left
    intro b _
    exact relBlk_eq_relOf w wst b
  have hhit : L.filter (fun b => overlapKernel w b) ≠ [] := by
    intro h0
    apply hPne
    rw [partsOf, ← hits_eq, h0]; rfl
  rw [chunkDown_compound L st w wst hw hwl hhit, hhits, sort_relOf _ w wst (partsOf L w) hPin hPpw]

theorem chunk_core (k : ChunkCDS) (L : List Blk) (hst : k.base.strand = .plus ∨ k.base.strand = .minus)
    (hL2 : L ≠ []) (hL3 : ∀ b ∈ L, b.1 < b.2) (hL4 : L.Pairwise (fun a b => a.2 ≤ b.1))
    (hw : k.chunk.wst = .plus ∨ k.chunk.wst = .minus) (hwl : k.chunk.w.1 < k.chunk.w.2)
    (hsome : (bases ⟨L, k.base.strand⟩).filter (inW k.chunk.w.1 k.chunk.w.2) ≠ []) :
    ∃ (crl : Location) (o : Nat) (ms : List Location), o < 3 ∧
      chunkBranch k (.compound ⟨L, k.base.strand⟩) (.compound ⟨L, k.base.strand⟩) = .ok (crl, (o : Int)) ∧
      (if ((locLen crl : Nat) : Int) - (o : Int) ≥ 3 then scanWindows3 crl (o : Int) else pure []) = .ok ms ∧
      chunkCodonsMatch ⟨k.chunk.w, k.chunk.wst⟩ k.base.strand
        ((triples (bases ⟨L, k.base.strand⟩)).filter (fun t => t.all (inW k.chunk.w.1 k.chunk.w.2))) ms = true := by
  rcases hk : k with ⟨c, kloc, ⟨w, wst, letters⟩⟩
  rw [hk] at hst hw hwl hsome
  simp only at hst hw hwl hsome ⊢
  generalize hstd : c.strand = st at *
  generalize hKd : bases ⟨L, st⟩ = K at hsome
  have hKpw : K.Pairwise (PosLt st) := by
    rw [← hKd, bases_scanOrder L st hst]
    exact readScan_pairwise st _ (scanOrder_before L st hst hL4)
  have hsplit := split3 st w.1 w.2 (Nat.le_of_lt hwl) K hKpw
  generalize hBf : K.filter (beforeW st w.1 w.2) = Bf at hsplit
  generalize hIn : K.filter (inW w.1 w.2) = In at hsplit hsome
  generalize hAf : K.filter (afterW st w.1 w.2) = Af at hsplit
  -- the in-window parts
  generalize hPd : partsOf L w = P
  have hPin : InWin w P := by rw [← hPd]; exact partsOf_inWin L w hwl hL3 hL4
  obtain ⟨_, hPpw⟩ := parts_props w.1 w.2 hwl L hL3 hL4
  have hPpw' : P.Pairwise (fun a b => a.2 ≤ b.1) := by rw [← hPd]; exact hPpw
  have hPplus : basesPlus P = (basesPlus L).filter (inW w.1 w.2) := by
    rw [← hPd]; exact parts_bases w.1 w.2 hwl L hL3
  have hPb : bases ⟨P, st⟩ = In := by rw [bases_filter L P st w.1 w.2 hPplus, hKd, hIn]
  have hPne : P ≠ [] := by
    intro h0; apply hsome; rw [← hPb, h0]; cases st <;> rfl
  -- chunkDown in closed form
  have hhits : (L.filter (fun b => overlapKernel w b)).map (relBlk w wst) = P.map (relOf w wst) := by
    rw [← hPd, partsOf, hits_eq, List.map_map]
    apply List.map_congr_left
    intro b _
    exact relBlk_eq_relOf w wst b
  have hhit : L.filter (fun b => overlapKernel w b) ≠ [] := by
    intro h0
    apply hPne
    rw [← hPd, partsOf, ← hits_eq, h0]; rfl
  obtain ⟨hcomp, hrdir, hrc⟩ := compose_rel st wst hst hw
  have hcd : chunkDown (.compound ⟨L, st⟩) w wst =
      .ok (.compound ⟨relBlocks w wst P, strandRelativeTo st wst⟩) := by
    rw [chunkDown_compound L st w wst hw hwl hhit, hhits, sort_relOf _ w wst P hPin hPpw']
  obtain ⟨m, hlift, hmst, hmwf, hmpos, hmpw, hmb⟩ := liftUp_relBlocks w wst hw letters st hst P hPne hPin hPpw'
  -- the offset
  generalize hF : locationBlocks m = F at hmpos hmpw
  have hmne : m ≠ .empty := by intro h; rw [h] at hmst; simp [locationStrand?] at hmst
  have hFb : bases ⟨F, st⟩ = In := by rw [← hF, ← locationBases_eq m st hmst, hmb, hPb]
  have hFne : F ≠ [] := by
    intro h0; apply hsome; rw [← hFb, h0]; cases st <;> rfl
  have hLlen : 0 < blocksLen L := by
    cases L with
    | nil => exact absurd rfl hL2
    | cons a t => have := hL3 a (by simp); simp only [blocksLen, Blk.len]; omega
  have hdis : ∀ x ∈ Bf, x ∉ bases ⟨F, st⟩ := by
    intro x hx hxw
    rw [hFb, ← hIn] at hxw
    rw [← hBf] at hx
    simp only [List.mem_filter] at hx hxw
    have := (class_facts st w.1 w.2 (Nat.le_of_lt hwl) x).1 hx.2
    rw [this.1] at hxw; simp at hxw
  have hoff := frameOffset_window c L F (by rw [hstd]; exact hst) (fun b hb => Nat.le_of_lt (hL3 b hb)) hLlen
    hFne hmpos hmpw Bf Af (by rw [hstd, hKd, hFb]; exact hsplit) (by rw [hstd]; exact hdis)
  rw [hstd] at hoff
  obtain ⟨he1, he2⟩ := ends_toSingle m st hmne
  rw [hF] at he1 he2
  rw [← calculateFrameOffset_congr c (.compound ⟨L, st⟩) m _ he1 he2] at hoff
  generalize hd : Bf.length = d at hoff
  have hoN : (-(d : Int)) % 3 = (((3 - d % 3) % 3 : Nat) : Int) := by omega
  rw [hoN] at hoff
  -- scanning the chunk-relative location
  obtain ⟨hRpos, hRpw⟩ := relBlocks_props w wst P hPin hPpw'
  obtain ⟨ms, hm1, hm2⟩ := scan_from (relBlocks w wst P) (strandRelativeTo st wst) hrdir
    (fun r hr => Nat.le_of_lt (hRpos r hr).1) (nonOverlap_of_pairwise _ hRpw) ((3 - d % 3) % 3)
  refine ⟨_, (3 - d % 3) % 3, ms, by omega, ?_, hm1, ?_⟩
  · unfold chunkBranch
    simp only [bind, Except.bind, pure, Except.pure, hcd, hlift, hoff]
  have hB : ∀ x ∈ Bf, inW w.1 w.2 x = false := by
    intro x hx; rw [← hBf] at hx; simp only [List.mem_filter] at hx
    exact ((class_facts st w.1 w.2 (Nat.le_of_lt hwl) x).1 hx.2).1
  have hI : ∀ x ∈ In, inW w.1 w.2 x = true := by
    intro x hx; rw [← hIn] at hx; simp only [List.mem_filter] at hx; exact hx.2
  have hA : ∀ x ∈ Af, inW w.1 w.2 x = false := by
    intro x hx; rw [← hAf] at hx; simp only [List.mem_filter] at hx
    have f := class_facts st w.1 w.2 (Nat.le_of_lt hwl) x
    cases hb : beforeW st w.1 w.2 x with
    | true => exact (f.1 hb).1
    | false =>
      cases hi' : inW w.1 w.2 x with
      | false => rfl
      | true => have := f.2.1 hi'; rw [hx.2] at this; simp at this
  rw [hsplit, triples_filter_window Bf In Af (inW w.1 w.2) hB hI hA, hd]
  rw [← window_triples (Bf ++ In ++ Af) d In.length]
  have hslice : ((Bf ++ In ++ Af).drop d).take In.length = In := by
    rw [← hd, List.append_assoc, List.drop_left, List.take_left]
  rw [hslice, ← hPb, ← relBlocks_bases w wst hw st hst P hPin, ← List.map_drop, triples_map]
  exact chunkCodonsMatch_of w wst st _ hrc _ ms hm2

end BioCantor.Proofs.Chunk
