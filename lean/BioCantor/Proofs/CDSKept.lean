/-
  C05-T1 on chromosome coordinates: reading the cleaned relative blocks off the CDS location gives exactly
  the positions kept by the reference walk (`Spec.cdsKept`).
-/
import BioCantor.Proofs.CDSExonRel
namespace BioCantor.Proofs
open BioCantor BioCantor.Model BioCantor.Spec

/-- total getter, used inside proofs only (no statement of Props/ mentions it) -/
def getAt (xs : List Nat) (i : Nat) : Nat := match xs[i]? with | some x => x | none => 0

theorem slice_eq_map (xs : List Nat) (s n : Nat) (h : s + n ≤ xs.length) :
    (xs.drop s).take n = (List.range' s n).map (getAt xs) := by
  apply List.ext_getElem?
  intro i
  by_cases hi : i < n
  · have h1 : s + i < xs.length := by omega
    simp [List.getElem?_take, hi, List.getElem?_drop, List.getElem?_map, List.getElem?_range', getAt, h1]
  · have : n ≤ i := by omega
    rw [List.getElem?_eq_none (by simp; omega), List.getElem?_eq_none (by simp; omega)]

/-- the slice of `xs` denoted by one cleaned entry -/
def sliceOf (xs : List Nat) (p : Int × Int) : List Nat := (xs.drop p.1.toNat).take (p.2 - p.1).toNat

theorem sliceOf_eq_map (xs : List Nat) (p : Int × Int) (h : ∀ i ∈ rangeOf p, i < xs.length) :
    sliceOf xs p = (rangeOf p).map (getAt xs) := by
  unfold sliceOf rangeOf at *
  by_cases hn : (p.2 - p.1).toNat = 0
  · simp [hn]
  · apply slice_eq_map
    have := h (p.1.toNat + ((p.2 - p.1).toNat - 1)) (by
      rw [List.mem_range']; exact ⟨(p.2 - p.1).toNat - 1, by omega, by omega⟩)
    omega

/-! ### the walk commutes with renaming positions -/

def mapExon {α β} (g : α → β) (e : WalkExon α) : WalkExon β := (e.1.map g, e.2)

theorem refKeptAux_map {α β} (g : α → β) : ∀ (ex : List (WalkExon α)) (kept : List α),
    refKeptAux (ex.map (mapExon g)) (kept.map g) = (refKeptAux ex kept).map g
  | [], kept => rfl
  | (pos, f) :: rest, kept => by
    simp only [List.map_cons, mapExon, refKeptAux, List.length_map]
    split
    · rw [← List.map_append, refKeptAux_map g rest]
    · rw [← List.map_take, ← List.map_drop, ← List.map_append, refKeptAux_map g rest]

theorem refKept_map {α β} (g : α → β) (ex : List (WalkExon α)) :
    refKept (ex.map (mapExon g)) = (refKept ex).map g := by
  have := refKeptAux_map g ex []
  simpa [refKept] using this

theorem segsLen_map {α β} (g : α → β) (segs : List (List α)) : segsLen (segs.map (List.map g)) = segsLen segs := by
  simp [segsLen, List.map_map, Function.comp_def]

theorem pushSeg_map {α β} (g : α → β) (p : List α) (segs : List (List α)) :
    pushSeg (p.map g) (segs.map (List.map g)) = (pushSeg p segs).map (List.map g) := by
  unfold pushSeg; cases p <;> simp

theorem trimLast_map {α β} (g : α → β) (r : Nat) (segs : List (List α)) :
    trimLast r (segs.map (List.map g)) = (trimLast r segs).map (List.map (List.map g)) := by
  cases segs with
  | nil => simp only [List.map_nil, trimLast]; split <;> simp
  | cons s rest =>
    simp only [List.map_cons, trimLast, List.length_map]
    split <;> simp [List.map_take]

theorem refSegsAux_map {α β} (g : α → β) : ∀ (ex : List (WalkExon α)) (segs : List (List α)),
    refSegsAux (ex.map (mapExon g)) (segs.map (List.map g)) = (refSegsAux ex segs).map (List.map (List.map g))
  | [], segs => rfl
  | (pos, f) :: rest, segs => by
    simp only [List.map_cons, mapExon, refSegsAux, segsLen_map]
    split
    · rw [pushSeg_map, refSegsAux_map g rest]
    · rw [trimLast_map]
      cases trimLast (segsLen segs % 3) segs with
      | none => rfl
      | some s' =>
        simp only [Option.map_some]
        rw [← List.map_drop, pushSeg_map, refSegsAux_map g rest]

theorem shallowTrim_map {α β} (g : α → β) (ex : List (WalkExon α)) :
    shallowTrim (ex.map (mapExon g)) = shallowTrim ex := by
  unfold shallowTrim
  have := refSegsAux_map g ex []
  simp only [List.map_nil] at this
  rw [this]; cases refSegsAux ex [] <;> rfl

theorem refKeptAux_mem {α} : ∀ (ex : List (WalkExon α)) (kept : List α) (x : α),
    x ∈ refKeptAux ex kept → x ∈ kept ∨ ∃ e ∈ ex, x ∈ e.1
  | [], kept, x, h => Or.inl h
  | (pos, f) :: rest, kept, x, h => by
    simp only [refKeptAux] at h
    split at h
    · rcases refKeptAux_mem rest _ x h with h1 | ⟨e, he, hx⟩
      · rcases List.mem_append.mp h1 with h2 | h2
        · exact Or.inl h2
        · exact Or.inr ⟨(pos, f), by simp, h2⟩
      · exact Or.inr ⟨e, by simp [he], hx⟩
    · rcases refKeptAux_mem rest _ x h with h1 | ⟨e, he, hx⟩
      · rcases List.mem_append.mp h1 with h2 | h2
        · exact Or.inl (List.mem_of_mem_take h2)
        · exact Or.inr ⟨(pos, f), by simp, List.mem_of_mem_drop h2⟩
      · exact Or.inr ⟨e, by simp [he], hx⟩

/-! ### exon positions are slices of the 5'→3' reading -/

theorem zip_reverse_eq {α β} : ∀ (as : List α) (bs : List β), as.length = bs.length →
    as.reverse.zip bs.reverse = (as.zip bs).reverse
  | [], [], _ => rfl
  | a :: as, b :: bs, h => by
    simp only [List.length_cons, Nat.add_right_cancel_iff] at h
    simp only [List.reverse_cons, List.zip_cons_cons]
    rw [List.zip_append (by simp [h]), zip_reverse_eq as bs h]
    rfl
  | [], _ :: _, h => by simp at h
  | _ :: _, [], h => by simp at h

theorem relWalk_positions (st : Strand) : ∀ (es : List Blk) (fs : List CDSFrame) (A : List Blk),
    (relWalkExons (blocksLen A) ((es.map Blk.len).zip fs)).map (mapExon (getAt (readScan st (A ++ es)))) =
      (es.zip fs).map (fun ef => (rd st ef.1, ef.2.value.toNat))
  | [], fs, A => by simp [relWalkExons]
  | e :: es, [], A => by simp [relWalkExons]
  | e :: es, f :: fs, A => by
    simp only [List.map_cons, List.zip_cons_cons, relWalkExons, mapExon, List.cons.injEq, Prod.mk.injEq, and_true]
    constructor
    · -- the positions of this exon
      have hx : readScan st (A ++ e :: es) = readScan st A ++ (rd st e ++ readScan st es) := by
        simp [readScan]
      rw [← slice_eq_map _ _ _ (by rw [length_readScan, blocksLen_append]; simp [blocksLen])]
      rw [hx, List.drop_append, List.drop_of_length_le (by rw [length_readScan]; omega)]
      simp only [length_readScan, Nat.sub_self, List.drop_zero, List.nil_append]
      rw [List.take_append_of_le_length (by simp), List.take_of_length_le (by simp)]
    · have ih := relWalk_positions st es fs (A ++ [e])
      rw [blocksLen_append] at ih
      simp only [blocksLen, Nat.add_zero, List.append_assoc, List.singleton_append] at ih
      exact ih

/-- `Spec.exonWalk` is the zip of the exons in 5'→3' order with the frames in 5'→3' order -/
theorem exonWalk_scanOrder (bs : List Blk) (st : Strand) (hst : st = .plus ∨ st = .minus)
    (fs : List CDSFrame) (hlen : fs.length = bs.length) :
    exonWalk ⟨bs, st⟩ (fs.map (fun f => f.value.toNat)) =
      ((scanOrder st bs).zip (if st = .minus then fs.reverse else fs)).map
        (fun ef => (rd st ef.1, ef.2.value.toNat)) := by
  rcases hst with h | h
  · subst h
    simp only [exonWalk, scanOrder, if_true, rd_plus]
    rw [List.zip_map_right, List.map_map]
    simp [Function.comp_def]
  · subst h
    simp only [exonWalk, scanOrder, rd_minus]
    simp only [show (Strand.minus = Strand.plus) = False by simp, if_false, if_true]
    rw [zip_reverse_eq bs fs hlen.symm, List.zip_map_right, ← List.map_reverse, List.map_map]
    simp [Function.comp_def]

theorem relWalkExons_bound : ∀ (ex : List (Nat × CDSFrame)) (off : Nat) (e : WalkExon Nat),
    e ∈ relWalkExons off ex → ∀ i ∈ e.1, i < off + (ex.map (·.1)).sum
  | [], _, e, h => by simp [relWalkExons] at h
  | (n, fr) :: rest, off, e, h => by
    simp only [relWalkExons, List.mem_cons] at h
    intro i hi
    simp only [List.map_cons, List.sum_cons]
    rcases h with rfl | h
    · simp only [List.mem_range'] at hi
      obtain ⟨k, hk, rfl⟩ := hi
      omega
    · have := relWalkExons_bound rest (off + n) e h i hi
      omega

theorem sum_map_len (es : List Blk) : (es.map Blk.len).sum = blocksLen es := by
  induction es with
  | nil => rfl
  | cons e es ih => simp [blocksLen, ih]

theorem blocksLen_scanOrder (st : Strand) (bs : List Blk) : blocksLen (scanOrder st bs) = blocksLen bs := by
  unfold scanOrder; split
  · rfl
  · exact blocksLen_reverse bs

/-- **C05-T1** (chromosome coordinates).  For exons of positive length that do not overlap, on either strand,
    with one real frame per exon, and whenever no re-synchronisation has to trim more than the last cleaned
    block holds (`shallowTrim`): the frame-cleaning loop succeeds, keeps `next_frame = Σ cleaned lengths mod 3`,
    produces well-formed relative blocks, and those blocks read off the CDS are exactly the positions kept by the
    reference walk. -/
theorem cleanExons_cdsKept (bs : List Blk) (st : Strand) (fs : List CDSFrame)
    (hst : st = .plus ∨ st = .minus) (hv : blocksValid bs = true) (hno : nonOverlap bs = true)
    (hpos : ∀ b ∈ bs, b.1 < b.2) (hlen : fs.length = bs.length) (hfr : ∀ f ∈ fs, f ≠ .NONE)
    (hsh : shallowTrim (exonWalk ⟨bs, st⟩ (fs.map (fun f => f.value.toNat))) = true) :
    ∃ stt, cleanExons ⟨bs, st⟩ CleanSt.init
        ((scanOrder st bs).zip (if st = .minus then fs.reverse else fs)) = .ok stt ∧
      stt.nextFrame.value = cleanedSum stt.cleanedRev % 3 ∧
      (∀ p ∈ stt.cleanedRev, 0 ≤ p.1 ∧ p.1 ≤ p.2) ∧
      (stt.cleanedRev.reverse.map (sliceOf (bases ⟨bs, st⟩))).flatten =
        cdsKept ⟨bs, st⟩ (fs.map (fun f => f.value.toNat)) := by
  have hsu : st ≠ .unstranded := by rcases hst with h | h <;> simp [h]
  generalize hes : scanOrder st bs = es at *
  generalize hfs5 : (if st = .minus then fs.reverse else fs) = fs5 at *
  have hlen5 : fs5.length = es.length := by
    rw [← hfs5, ← hes]; unfold scanOrder
    split <;> split <;> simp [hlen]
  have hvb := (blocksValid_iff bs).1 hv
  have hpw0 := nonOverlap_pairwise bs hvb hno
  have hpw : es.Pairwise (fun a b => a.2 ≤ b.1 ∨ b.2 ≤ a.1) := by
    rw [← hes]; unfold scanOrder; split
    · exact hpw0.imp (fun h => Or.inl h)
    · rw [List.pairwise_reverse]; exact hpw0.imp (fun h => Or.inr h)
  have hpos' : ∀ e ∈ es, e.1 < e.2 := by
    intro e he; rw [← hes] at he; unfold scanOrder at he
    split at he
    · exact hpos e he
    · exact hpos e (List.mem_reverse.mp he)
  have hloop := cleanExons_eq_cleanLoop bs st hst hv (by rw [hes]; exact hpw) (by rw [hes]; exact hpos')
    es [] fs5 CleanSt.init (by rw [hes]; simp)
  simp only [blocksLen] at hloop
  generalize hex : (es.map Blk.len).zip fs5 = ex at *
  have hfr' : ∀ e ∈ ex, e.2 ≠ .NONE := by
    intro e he; rw [← hex] at he
    have h2 : e.2 ∈ fs5 := (List.of_mem_zip he).2
    rw [← hfs5] at h2
    split at h2
    · exact hfr _ (List.mem_reverse.mp h2)
    · exact hfr _ h2
  -- the reference walk on positions is the renamed walk on relative indices
  have hbases : bases ⟨bs, st⟩ = readScan st es := by
    rw [bases_eq_readScan bs st hsu, ← hes]; rfl
  have hwalk : exonWalk ⟨bs, st⟩ (fs.map (fun f => f.value.toNat)) =
      (relWalkExons 0 ex).map (mapExon (getAt (bases ⟨bs, st⟩))) := by
    rw [exonWalk_scanOrder bs st hst fs hlen, hes, hfs5, hbases]
    have := relWalk_positions st es fs5 []
    simp only [blocksLen, List.nil_append, hex] at this
    exact this.symm
  rw [hwalk, shallowTrim_map] at hsh
  obtain ⟨stt, h1, hnf, hvalid, hflat⟩ := cleanLoop_refKept ex hfr' hsh
  refine ⟨stt, by rw [hloop]; exact h1, hnf, hvalid, ?_⟩
  -- every index of a cleaned block lies inside the CDS
  have hbound : ∀ p ∈ stt.cleanedRev.reverse, ∀ i ∈ rangeOf p, i < (bases ⟨bs, st⟩).length := by
    intro p hp i hi
    have hmem : i ∈ refKept (relWalkExons 0 ex) := by
      rw [← hflat, List.mem_flatten]
      exact ⟨rangeOf p, List.mem_map.mpr ⟨p, hp, rfl⟩, hi⟩
    rcases refKeptAux_mem _ _ i hmem with h | ⟨e, he, hie⟩
    · simp at h
    · have := relWalkExons_bound ex 0 e he i hie
      have hsum : (ex.map (·.1)).sum = blocksLen bs := by
        rw [← hex, List.map_fst_zip (by simp [hlen5]), sum_map_len, ← hes, blocksLen_scanOrder]
      rw [bases_length]; unfold Loc.len; simp only; omega
  have hmap : stt.cleanedRev.reverse.map (sliceOf (bases ⟨bs, st⟩)) =
      (stt.cleanedRev.reverse.map rangeOf).map (List.map (getAt (bases ⟨bs, st⟩))) := by
    rw [List.map_map]
    apply List.map_congr_left
    intro p hp
    exact sliceOf_eq_map _ p (hbound p hp)
  rw [hmap, ← List.map_flatten, hflat, ← refKept_map, ← hwalk]
  rfl

end BioCantor.Proofs
