/- C13-T1: the splice loops of `alternative_genomic_sequence` compute the position-wise literal substitution. -/
import BioCantor.Spec.Variants
import BioCantor.Model.Variants
namespace BioCantor.Proofs.Var
open BioCantor BioCantor.Spec.Variants

/-! ### generic list facts -/

theorem flatMap_congr' {α β} (l : List α) (f g : α → List β) (h : ∀ a ∈ l, f a = g a) :
    l.flatMap f = l.flatMap g := by
  induction l with
  | nil => rfl
  | cons a r ih =>
    simp only [List.flatMap_cons]
    rw [h a (by simp), ih (fun b hb => h b (List.mem_cons_of_mem _ hb))]

theorem flatMap_nil' {α β} (l : List α) (f : α → List β) (h : ∀ a ∈ l, f a = []) : l.flatMap f = [] := by
  induction l with
  | nil => rfl
  | cons a r ih =>
    simp only [List.flatMap_cons]
    rw [h a (by simp), ih (fun b hb => h b (List.mem_cons_of_mem _ hb))]; rfl

theorem mem_range'_iff (lo k i : Nat) : i ∈ List.range' lo k ↔ lo ≤ i ∧ i < lo + k := by
  simp [List.mem_range'_1]

/-! ### the position-wise semantics on quiet stretches, on one edit, and under splitting -/

/-- every edit has at least one base and none of them touches `[lo, hi)` -/
def Quiet (es : List Edit) (lo hi : Nat) : Prop := ∀ x ∈ es, x.s < x.e ∧ (x.e ≤ lo ∨ hi ≤ x.s)

theorem insAt_quiet (es : List Edit) (i lo hi : Nat) (hq : Quiet es lo hi) (h1 : lo ≤ i) (h2 : i < hi) :
    insAt es i = [] := by
  induction es with
  | nil => rfl
  | cons x xs ih =>
    have hx := hq x (by simp)
    have : x.s ≠ i := by omega
    simp only [insAt, this, if_false]
    exact ih (fun y hy => hq y (List.mem_cons_of_mem _ hy))

theorem covered_quiet (es : List Edit) (i lo hi : Nat) (hq : Quiet es lo hi) (h1 : lo ≤ i) (h2 : i < hi) :
    covered es i = false := by
  unfold covered
  rw [List.any_eq_false]
  intro x hx
  have := hq x hx
  simp only [Bool.and_eq_true, decide_eq_true_eq, not_and, Nat.not_lt]
  omega

theorem piece_quiet (ref : Seq) (es : List Edit) (i lo hi : Nat) (hq : Quiet es lo hi) (h1 : lo ≤ i) (h2 : i < hi)
    (hl : i < ref.length) : piece ref es i = [ref[i]] := by
  unfold piece
  rw [insAt_quiet es i lo hi hq h1 h2, covered_quiet es i lo hi hq h1 h2, List.getElem?_eq_getElem hl]
  rfl

theorem slice_range (ref : Seq) (es : List Edit) (k lo : Nat) (hq : Quiet es lo (lo + k)) (hl : lo + k ≤ ref.length) :
    (List.range' lo k).flatMap (piece ref es) = (ref.drop lo).take k := by
  induction k generalizing lo with
  | zero => simp
  | succ k ih =>
    have hlt : lo < ref.length := by omega
    rw [List.range'_succ, List.flatMap_cons, piece_quiet ref es lo lo (lo + (k + 1)) hq (Nat.le_refl _) (by omega) hlt]
    rw [ih (lo + 1) (fun x hx => by have := hq x hx; omega) (by omega)]
    rw [List.drop_eq_getElem_cons hlt, List.take_succ_cons]
    rfl

/-- on a stretch no edit touches, the image is the reference itself -/
theorem image_quiet (ref : Seq) (es : List Edit) (lo hi : Nat) (h : lo ≤ hi) (hl : hi ≤ ref.length)
    (hq : Quiet es lo hi) : image ref es lo hi = (ref.drop lo).take (hi - lo) := by
  unfold image
  exact slice_range ref es (hi - lo) lo (by rw [Nat.add_sub_cancel' h]; exact hq) (by omega)

/-- images of adjacent ranges concatenate -/
theorem image_split (ref : Seq) (es : List Edit) (lo mid hi : Nat) (h1 : lo ≤ mid) (h2 : mid ≤ hi) :
    image ref es lo hi = image ref es lo mid ++ image ref es mid hi := by
  unfold image
  rw [← List.flatMap_append]
  congr 1
  have : hi - lo = (mid - lo) + (hi - mid) := by omega
  rw [this, ← List.range'_append_1]
  congr 2
  omega

/-- `x` is one of the edits and every other edit is disjoint from it -/
def Isolated (es : List Edit) (x : Edit) : Prop :=
  x ∈ es ∧ ∀ y ∈ es, y.s < y.e ∧ (y = x ∨ y.e ≤ x.s ∨ x.e ≤ y.s)

theorem insAt_start (es : List Edit) (x : Edit) (h : Isolated es x) : insAt es x.s = x.alt := by
  obtain ⟨hm, hd⟩ := h
  have hx := (hd x hm).1
  induction es with
  | nil => exact absurd hm (by simp)
  | cons y ys ih =>
    unfold insAt
    by_cases hy : y.s = x.s
    · simp only [hy, if_true]
      rcases (hd y (by simp)).2 with h | h | h
      · rw [h]
      · have := (hd y (by simp)).1; omega
      · omega
    · simp only [hy, if_false]
      rcases List.mem_cons.mp hm with h | h
      · exact absurd (by rw [h]) hy
      · exact ih h (fun z hz => hd z (List.mem_cons_of_mem _ hz))

theorem insAt_inner (es : List Edit) (x : Edit) (h : Isolated es x) (i : Nat) (h1 : x.s < i) (h2 : i < x.e) :
    insAt es i = [] := by
  have hd := h.2
  clear h
  induction es with
  | nil => rfl
  | cons y ys ih =>
    unfold insAt
    have hy := hd y (by simp)
    have : y.s ≠ i := by
      intro e
      rcases hy.2 with h | h | h
      · rw [h] at e; omega
      · omega
      · omega
    simp only [this, if_false]
    exact ih (fun z hz => hd z (List.mem_cons_of_mem _ hz))

theorem covered_in (es : List Edit) (x : Edit) (hm : x ∈ es) (i : Nat) (h1 : x.s ≤ i) (h2 : i < x.e) :
    covered es i = true := by
  unfold covered
  rw [List.any_eq_true]
  exact ⟨x, hm, by simp only [Bool.and_eq_true, decide_eq_true_eq]; omega⟩

/-- over the interval of an edit the image is exactly its alt string -/
theorem image_edit (ref : Seq) (es : List Edit) (x : Edit) (h : Isolated es x) : image ref es x.s x.e = x.alt := by
  have hx := (h.2 x h.1).1
  unfold image
  have : x.e - x.s = (x.e - x.s - 1) + 1 := by omega
  rw [this, List.range'_succ, List.flatMap_cons]
  have hp : piece ref es x.s = x.alt := by
    unfold piece
    rw [insAt_start es x h, covered_in es x h.1 x.s (Nat.le_refl _) hx]
    simp
  rw [hp, flatMap_nil']
  · simp
  · intro i hi
    rw [mem_range'_iff] at hi
    unfold piece
    rw [insAt_inner es x h i (by omega) (by omega), covered_in es x h.1 i (by omega) (by omega)]
    rfl

/-- an edit that ends at or before `lo` is irrelevant for images from `lo` on -/
theorem image_drop_head (ref : Seq) (x : Edit) (es : List Edit) (lo hi : Nat) (hx : x.s < x.e) (hle : x.e ≤ lo) :
    image ref (x :: es) lo hi = image ref es lo hi := by
  unfold image
  apply flatMap_congr'
  intro i hi'
  rw [mem_range'_iff] at hi'
  unfold piece
  have h1 : insAt (x :: es) i = insAt es i := by
    have : x.s ≠ i := by omega
    simp only [insAt, this, if_false]
  have h2 : covered (x :: es) i = covered es i := by
    unfold covered
    simp only [List.any_cons]
    have : (decide (x.s ≤ i) && decide (i < x.e)) = false := by
      simp only [Bool.and_eq_false_iff, decide_eq_false_iff_not]; right; omega
    rw [this]; rfl
  rw [h1, h2]

/-! ### sorted, pairwise disjoint edits inside a sequence of length `n` -/

def Chain (n : Nat) : List Edit → Prop
  | [] => True
  | [x] => x.s < x.e ∧ x.e ≤ n
  | x :: y :: r => x.s < x.e ∧ x.e ≤ y.s ∧ Chain n (y :: r)

theorem chain_tail {n : Nat} {x : Edit} {r : List Edit} (h : Chain n (x :: r)) : Chain n r := by
  cases r with
  | nil => trivial
  | cons y r' => exact h.2.2

theorem chain_head {n : Nat} {x : Edit} {r : List Edit} (h : Chain n (x :: r)) : x.s < x.e := by
  cases r with
  | nil => exact h.1
  | cons y r' => exact h.1

theorem chain_later {n : Nat} {x : Edit} {r : List Edit} (h : Chain n (x :: r)) :
    x.e ≤ n ∧ ∀ y ∈ r, x.e ≤ y.s ∧ y.s < y.e ∧ y.e ≤ n := by
  induction r generalizing x with
  | nil => exact ⟨h.2, fun y hy => absurd hy (by simp)⟩
  | cons z r' ih =>
    obtain ⟨h1, h2, h3⟩ := h
    have hz := ih h3
    have hzs := chain_head h3
    refine ⟨by omega, ?_⟩
    intro y hy
    rcases List.mem_cons.mp hy with rfl | hy'
    · exact ⟨h2, hzs, hz.1⟩
    · have := hz.2 y hy'; omega

theorem chain_isolated {n : Nat} {x : Edit} {r : List Edit} (h : Chain n (x :: r)) : Isolated (x :: r) x := by
  refine ⟨by simp, ?_⟩
  intro y hy
  rcases List.mem_cons.mp hy with rfl | hy'
  · exact ⟨chain_head h, Or.inl rfl⟩
  · have := (chain_later h).2 y hy'
    exact ⟨this.2.1, Or.inr (Or.inr this.1)⟩

theorem chain_quiet_after {n : Nat} {x : Edit} {r : List Edit} (h : Chain n (x :: r)) (hi : Nat)
    (hh : ∀ y ∈ r, hi ≤ y.s) : Quiet (x :: r) x.e hi := by
  intro y hy
  rcases List.mem_cons.mp hy with rfl | hy'
  · exact ⟨chain_head h, Or.inl (Nat.le_refl _)⟩
  · exact ⟨((chain_later h).2 y hy').2.1, Or.inr (hh y hy')⟩

theorem chain_quiet_before {n : Nat} {x : Edit} {r : List Edit} (h : Chain n (x :: r)) : Quiet (x :: r) 0 x.s := by
  intro y hy
  rcases List.mem_cons.mp hy with rfl | hy'
  · exact ⟨chain_head h, Or.inr (Nat.le_refl _)⟩
  · have := (chain_later h).2 y hy'
    have := chain_head h
    exact ⟨by omega, Or.inr (by omega)⟩

/-! ### the model's splice loops -/

open BioCantor.Model.Variants (Var altSeq1 altSeqN altTail)

/-- a variant as an edit of the parent's own sequence (`off` = chunk start) -/
def toEdit (off : Nat) (v : Var) : Edit := ⟨v.s - off, v.e - off, v.alt⟩

theorem drop_take_all (ref : Seq) (a : Nat) : (ref.drop a).take (ref.length - a) = ref.drop a := by
  apply List.take_of_length_le
  simp

/-- the loop from variant `v` on equals the image of `[v.start, end of sequence)` -/
theorem altTail_image (off : Nat) (ref : Seq) (v : Var) (rest : List Var)
    (h : Chain ref.length ((v :: rest).map (toEdit off))) :
    image ref ((v :: rest).map (toEdit off)) (v.s - off) ref.length = altTail off ref (v :: rest) := by
  induction rest generalizing v with
  | nil =>
    simp only [List.map_cons, List.map_nil] at h ⊢
    have hx : (toEdit off v).s < (toEdit off v).e := h.1
    have hn : (toEdit off v).e ≤ ref.length := h.2
    have hs : (toEdit off v).s = v.s - off := rfl
    rw [← hs, image_split ref _ (toEdit off v).s (toEdit off v).e ref.length (Nat.le_of_lt hx) hn]
    rw [image_edit ref _ (toEdit off v) (chain_isolated h)]
    rw [image_quiet ref _ (toEdit off v).e ref.length hn (Nat.le_refl _)
          (chain_quiet_after h ref.length (fun y hy => absurd hy (by simp)))]
    rw [drop_take_all]
    rfl
  | cons w r ih =>
    simp only [List.map_cons] at h ⊢
    obtain ⟨hx, hxy, hrest⟩ := h
    have hfull : Chain ref.length (toEdit off v :: toEdit off w :: r.map (toEdit off)) := ⟨hx, hxy, hrest⟩
    have hy := chain_head hrest
    have hyn := (chain_later hrest).1
    have hs : (toEdit off v).s = v.s - off := rfl
    rw [← hs, image_split ref _ (toEdit off v).s (toEdit off v).e ref.length (Nat.le_of_lt hx) (by omega)]
    rw [image_edit ref _ (toEdit off v) (chain_isolated hfull)]
    rw [image_split ref _ (toEdit off v).e (toEdit off w).s ref.length hxy (by omega)]
    rw [image_quiet ref _ (toEdit off v).e (toEdit off w).s hxy (by omega)
          (chain_quiet_after hfull (toEdit off w).s (by
            intro y hy'
            rcases List.mem_cons.mp hy' with rfl | hy''
            · exact Nat.le_refl _
            · have := (chain_later hrest).2 y hy''; omega))]
    rw [image_drop_head ref (toEdit off v) _ (toEdit off w).s ref.length hx hxy]
    have := ih w (by simpa only [List.map_cons] using hrest)
    simp only [List.map_cons] at this
    have hws : (toEdit off w).s = w.s - off := rfl
    rw [hws, this]
    simp only [altTail, toEdit, List.append_assoc]

/-- T1 (collection): on sorted, pairwise disjoint variants inside the sequence, the splice loop of
    `VariantIntervalCollection.alternative_genomic_sequence` is the literal substitution of every variant. -/
theorem altSeqN_altOf (off : Nat) (ref : Seq) (vs : List Var) (hne : vs ≠ [])
    (h : Chain ref.length (vs.map (toEdit off))) : altSeqN off ref vs = altOf ref (vs.map (toEdit off)) := by
  cases vs with
  | nil => exact absurd rfl hne
  | cons v rest =>
    unfold altOf altSeqN
    have hx := chain_head (by simpa only [List.map_cons] using h : Chain ref.length (toEdit off v :: rest.map (toEdit off)))
    have hn := (chain_later (by simpa only [List.map_cons] using h :
      Chain ref.length (toEdit off v :: rest.map (toEdit off)))).1
    have hs : (toEdit off v).s = v.s - off := rfl
    rw [image_split ref _ 0 (v.s - off) ref.length (Nat.zero_le _) (by rw [← hs]; omega)]
    rw [altTail_image off ref v rest h]
    simp only [List.map_cons]
    rw [image_quiet ref _ 0 (v.s - off) (Nat.zero_le _) (by rw [← hs]; omega)
          (by rw [← hs]; exact chain_quiet_before (by simpa only [List.map_cons] using h))]
    simp

/-- T1 (single variant): `ref[:s] + alt + ref[e:]` is the literal substitution. -/
theorem altSeq1_altOf (off : Nat) (ref : Seq) (v : Var) (h1 : v.s - off < v.e - off) (h2 : v.e - off ≤ ref.length) :
    altSeq1 off ref v = altOf ref [toEdit off v] := by
  have := altSeqN_altOf off ref [v] (by simp) (by simp only [List.map_cons, List.map_nil]; exact ⟨h1, h2⟩)
  rw [← List.map_nil (f := toEdit off), ← List.map_cons, ← this]
  simp [altSeq1, altSeqN, altTail]

/-- a chain is a valid edit set in the sense of the specification -/
theorem chain_valid (n : Nat) (es : List Edit) (h : Chain n es) : validEdits n es = true := by
  induction es with
  | nil => rfl
  | cons x r ih =>
    have hl := chain_later h
    have hx := chain_head h
    simp only [validEdits, Bool.and_eq_true, decide_eq_true_eq]
    refine ⟨⟨⟨hx, hl.1⟩, ?_⟩, ih (chain_tail h)⟩
    unfold disjointFrom
    rw [List.all_eq_true]
    intro y hy
    have := hl.2 y hy
    simp only [Bool.or_eq_true, decide_eq_true_eq]
    left; exact this.1

end BioCantor.Proofs.Var
